#!/usr/bin/env python3
"""Regenerates MANIFEST.json from the table below (keeps it schema-valid at all times)."""
import json, subprocess
ALL = ["C%02d" % i for i in range(1, 21)]
BASE = "for m in $(cat /w/out/gomods.txt); do MF=$(cd /repo/$m && . /w/out/goenv.sh && gomodflag); (cd /repo/$m && go test $MF -json -vet=off -count=1 -timeout 25m ./...); done"
# id -> (design_ref, technique, level text, level note)
CLAIMED = {}
exec(open('/verif/manifest_table.py').read())
checks = []
for pid in ALL:
    if pid not in CLAIMED: continue
    c = CLAIMED[pid]
    checks.append({
        "property_id": pid,
        "quick_cmd": "./check %s quick" % pid,
        "thorough_cmd": "./check %s thorough" % pid,
        "evidence_file": "/verif/evidence/%s.json" % pid,
        "replay_cmd_template": "./check %s --replay {path}" % pid,
        "engine": "tlc+vcheck",
        "level_claimed": {"category": "model_checking", "text": c["text"], "design_ref": c["ref"]},
        "level_note": c["note"],
        "technique": c["technique"],
    })
na = [{"property_id": p, "reason": NOT_YET.get(p, "check not built yet in this round; design in DESIGN.md section 3")} for p in ALL if p not in CLAIMED]
hooks_commits = subprocess.run(["git", "-C", "/repo", "log", "--format=%h %s", "--grep=^verif hook"], capture_output=True, text=True).stdout.strip().splitlines()
m = {
 "version": 1,
 "setup_cmd": "./check setup",
 "hooks": {"guard": "verif", "enable": "go build -tags verif (harness module with replace github.com/Tnze/go-mc => /repo; ./check rebuilds on every invocation)",
           "baseline_off_cmd": BASE, "source_commits": [l.split()[0] for l in hooks_commits], "add_only": True},
 "engines": [{"name": "tlc+vcheck", "path": "/verif/check", "serves_properties": [c["property_id"] for c in checks],
              "kind_free_text": "TLA+ specifications in /verif/specs checked by TLC; Go harness /verif/harness replays TLC-generated vectors/behaviours into the real code and records traces of the real code that TLC validates against the specification"}],
 "checks": checks,
 "notes": "exit 0 held / 1 VIOLATION / 2 inconclusive (infrastructure). VERIF_SEED seeds TLC simulation and all drivers.",
 "not_applicable": na,
}
json.dump(m, open('/verif/MANIFEST.json', 'w'), indent=1)
print("claimed:", [c["property_id"] for c in checks])
