#!/bin/bash
# usage: mut.sh <file-in-repo> '<old text>' '<new text>' -- <check ids...>
# Applies the replacement in a scratch git worktree of /repo (never in /repo itself), runs the quick checks
# of THIS framework copy against that worktree (VERIF_REPO), removes the worktree.
ROOT=$(dirname "$(readlink -f "$0")")
f=$1; old=$2; new=$3; shift 4
W=$(mktemp -d /tmp/mutwt.XXXXXX); rmdir $W
git -C /repo worktree add -q --detach $W HEAD || exit 9
cleanup() { git -C /repo worktree remove --force $W 2>/dev/null; rm -rf $W; }
trap cleanup EXIT
python3 - "$W/$f" "$old" "$new" <<'PY' || exit 9
import sys
p,old,new=sys.argv[1:4]
s=open(p).read()
assert s.count(old)>=1, "pattern not found"
open(p,'w').write(s.replace(old,new,1))
PY
(cd $W && GOCACHE=/tmp/verif-gocache-alt GOFLAGS=-mod=mod go build -trimpath ./... ) || { echo "mutant does not build"; exit 9; }
for id in "$@"; do
  out=$(cd $ROOT && VERIF_REPO=$W ./check $id ${MUT_TIER:-quick} 2>&1); rc=$?
  echo "== $id exit=$rc"; echo "$out" | grep -E "${MUT_GREP:-VIOLATION|signature|INFRA|KNOWN|^OK|NOTE spec-extension}" | head -${MUT_LINES:-6} | cut -c1-260
done
