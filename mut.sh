#!/bin/bash
# usage: mut.sh <file-in-repo> <python-replace-old> <new> -- <check ids...>   (applies, runs quick checks, reverts)
f=$1; old=$2; new=$3; shift 4
cd /repo && git diff --quiet || { echo "repo dirty"; exit 9; }
python3 - "$f" "$old" "$new" <<'PY'
import sys
p,old,new=sys.argv[1:4]
s=open(p).read()
assert s.count(old)>=1, "pattern not found"
open(p,'w').write(s.replace(old,new,1))
PY
[ $? = 0 ] || exit 9
(cd /repo && go build ./... ) || { echo "does not build"; git -C /repo checkout -- .; exit 9; }
for id in "$@"; do
  out=$(cd /verif && ./check $id quick 2>&1); rc=$?
  echo "== $id exit=$rc"; echo "$out" | grep -E "VIOLATION|signature|INFRA|^OK" | head -6 | cut -c1-260
done
git -C /repo checkout -- .
