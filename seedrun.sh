#!/bin/bash
# usage: seedrun.sh <seed-dir> <name> <check ids...>
# <seed-dir> holds patch.diff, the demonstration and meta.json (produced by a sub-agent in its own worktree).
# Confirms the seeded change independently (fresh worktree: existing tests pass with it, the demonstration
# fails with it and passes without it), runs the given quick checks against it, and files everything
# under /verif/seeded/<name>/.
set -u
ROOT=$(dirname "$(readlink -f "$0")")
SD=$1; NAME=$2; shift 2
export GOFLAGS=-mod=mod GOPROXY=off GOSUMDB=off GOTOOLCHAIN=local GOCACHE=/tmp/verif-gocache-alt
W=$(mktemp -d /tmp/seedwt.XXXXXX); rmdir $W
git -C /repo worktree add -q --detach $W HEAD || exit 9
cleanup() { git -C /repo worktree remove --force $W 2>/dev/null; rm -rf $W; }
trap cleanup EXIT
OUT=$ROOT/seeded/$NAME; mkdir -p $OUT
cp $SD/patch.diff $SD/meta.json $OUT/ 2>/dev/null
for f in $SD/*; do case $(basename $f) in patch.diff|meta.json) ;; *) cp -r $f $OUT/ ;; esac; done
DEMO=${DEMO_CMD:-$(python3 -c "import json;print(json.load(open('$SD/meta.json')).get('demo_cmd',''))")}
echo "demo_cmd: $DEMO"
# place the demonstration files where the agent had them (paths relative to repo root are kept in meta.files or run.txt)
# DEMO_PLACE="src-in-seed-dir=dst-in-repo,..." says where the demonstration files go
place_demo() { IFS=, ; for pr in ${DEMO_PLACE:-}; do src=${pr%%=*}; dst=${pr#*=}; mkdir -p $1/$(dirname $dst); cp $SD/$src $1/$dst; done; unset IFS; }
remove_demo() { IFS=, ; for pr in ${DEMO_PLACE:-}; do dst=${pr#*=}; rm -f $1/$dst; done; unset IFS; }
place_demo $W
( cd $W && bash -c "$DEMO" ) > $OUT/demo_without.log 2>&1; rc0=$?
( cd $W && git apply $SD/patch.diff ) || { echo "patch does not apply"; exit 9; }
( cd $W && go build -trimpath ./... ) > $OUT/build.log 2>&1 || { echo "does not build"; exit 9; }
( cd $W && bash -c "$DEMO" ) > $OUT/demo_with.log 2>&1; rc1=$?
# existing tests (without the demonstration files)
remove_demo $W
( cd $W && go test -count=1 ./... ) > $OUT/existing_tests.log 2>&1; rct=$?
echo "demo without change rc=$rc0 (want 0); with change rc=$rc1 (want !=0); existing tests with change rc=$rct (want 0)"
res="{}"
for id in "$@"; do
  out=$(cd $ROOT && VERIF_REPO=$W ./check $id quick 2>&1); rc=$?
  echo "== $id exit=$rc"; echo "$out" | grep -E "VIOLATION|signature|INFRA|^OK" | head -4 | cut -c1-240
  echo "$out" | grep -E "VIOLATION|signature|detail|INFRA|^OK" | head -12 | cut -c1-600 > $OUT/check_$id.log
  echo "exit=$rc" >> $OUT/check_$id.log
done
python3 - "$OUT" "$rc0" "$rc1" "$rct" "$@" <<'PY'
import json,sys,os
out,rc0,rc1,rct=sys.argv[1:5]; ids=sys.argv[5:]
m=json.load(open(out+'/meta.json'))
m['confirmed']={'demo_passes_without_change':rc0=='0','demo_fails_with_change':rc1!='0','existing_tests_pass_with_change':rct=='0'}
m['checks_run']={}
for i in ids:
    t=open(out+'/check_%s.log'%i).read()
    m['checks_run'][i]={'exit':int(t.strip().split('exit=')[-1]),'first_signature':next((l.strip() for l in t.splitlines() if l.strip().startswith('signature:')),'')}
json.dump(m,open(out+'/meta.json','w'),indent=1)
PY
