------------------------------- MODULE Tables -------------------------------
(***************************************************************************)
(* X14 (specification extension): the static game tables of go-mc as       *)
(* specified structures - level/block (StateList, ToStateID, BitsPerBlock, *)
(* FromID, State.Block, the property text codecs, the block-entity table), *)
(* level/biome (Type and its text codec, BitsPerBiome) and the id <-> name *)
(* helpers of data/*.                                                      *)
(*                                                                         *)
(* Four layers over one set of variables (a configuration names one of the *)
(* three specifications RegSpec / CodecSpec / EntSpec; the variables of    *)
(* the other layers stay at their initial values):                         *)
(*                                                                         *)
(* 1 REGISTRY.  block.init() reads the embedded list of states (name,      *)
(*   properties) and appends them one by one: ToStateID[b] = len(StateList)*)
(*   then append; a state met twice is a panic.  The embedded list is      *)
(*   vanilla's report: per block the cartesian product of the property     *)
(*   domains, properties in declaration (alphabetical) order, the LAST     *)
(*   declared property varying fastest.  `Declare` is the writer of that   *)
(*   file (one block at a time), `Load` is one turn of init()'s loop.      *)
(*   A property value is its Go ordinal (constant value of the enum type,  *)
(*   Integer = the number, Boolean: false 0, true 1); a domain is the      *)
(*   sequence of a property's ordinals in TABLE order (Boolean <<1,0>>:    *)
(*   vanilla lists true first; horizontal facing <<2,3,4,5>>; layers       *)
(*   <<1,..,8>>).  A shape is the sequence of a block's domains.           *)
(* 2 State.Block(): name + NBT compound -> Block (BlockOf).                *)
(* 3 TEXT CODECS of the property enums and biome.Type (one table of texts  *)
(*   per type; the ordinal of a value is its position - 1).                *)
(* 4 BLOCK ENTITIES: EntityList, the EntityTypes map built by init(),      *)
(*   IsValidBlock as a relation entity - block.                            *)
(***************************************************************************)
EXTENDS Integers, Sequences, FiniteSets, TLC

CONSTANTS
  Doms,        \* registry: the domains a declaration may use (set of sequences of distinct ordinals)
  MaxProps,    \* registry: properties per block 0..MaxProps
  MaxBlocks,   \* registry: blocks per table 1..MaxBlocks
  Order,       \* "last": the last declared property varies fastest (vanilla, the real table) | "first": broken variant
  Fault,       \* "none" | "gap": ids skip one at the second block | "dup": the file names one state twice
  MaxEnts,     \* State.Block(): entries per compound in the laws checked on sealed tables
  TypeMax,     \* State.Block(): ordinals 0..TypeMax are values of every property type (in or outside the block's domain)
  Intent,      \* TRUE: additionally demand the INTENDED laws DefaultInTable / AcceptedInTable (the real table breaks them)
  TextTokens,  \* codec: text tokens a table may hold
  MaxVals,     \* codec: values per type 1..MaxVals
  ErrDest,     \* codec: what a failed decode leaves in the destination: "keep" (property enums) | "zero" (Boolean, biome.Type)
  EIdTokens,   \* entities: id tokens
  EBlocks,     \* entities: block tokens
  MaxEntities, \* entities: length of EntityList 1..MaxEntities
  Strict       \* codec / entities: TRUE demands the laws of EVERY table (TLC must reject: a table with a repeated text / id breaks them)

\* ---------------------------------------------------------------- arithmetic
RECURSIVE BitLen(_)
BitLen(n) == IF n <= 0 THEN 0 ELSE 1 + BitLen(n \div 2)           \* Go: bits.Len(uint(n))
RECURSIVE Pow2(_)
Pow2(k) == IF k <= 0 THEN 1 ELSE 2 * Pow2(k - 1)
CeilLog2(n) == IF n <= 1 THEN 0 ELSE BitLen(n - 1)                \* vanilla: Mth.ceillog2(n), the bits of the largest id n - 1
Range(s) == {s[i] : i \in DOMAIN s}
Distinct(s) == \A i, j \in DOMAIN s : i # j => s[i] # s[j]
Pos(d, v) == CHOOSE i \in DOMAIN d : d[i] = v                      \* only used with v \in Range(d)
RECURSIVE Cat(_)
Cat(ss) == IF ss = <<>> THEN <<>> ELSE Head(ss) \o Cat(Tail(ss))   \* concatenation of a sequence of sequences
SeqsUpTo(S, n) == UNION {[1..k -> S] : k \in 0..n}

\* ---------------------------------------------------------------- shapes and the mixed-radix numbering
RECURSIVE Prod(_)
Prod(sh) == IF sh = <<>> THEN 1 ELSE Len(sh[1]) * Prod(Tail(sh))   \* number of states of a block
Weight(sh, p) == Prod(SubSeq(sh, p + 1, Len(sh)))                  \* last property fastest: weight of property p
WeightFirst(sh, p) == Prod(SubSeq(sh, 1, p - 1))                   \* first property fastest (the broken variant)
InShape(sh, a) == Len(a) = Len(sh) /\ \A p \in DOMAIN sh : a[p] \in Range(sh[p])
RECURSIVE OffsetFrom(_, _, _)
OffsetFrom(sh, a, p) == IF p > Len(sh) THEN 0 ELSE (Pos(sh[p], a[p]) - 1) * Weight(sh, p) + OffsetFrom(sh, a, p + 1)
Offset(sh, a) == OffsetFrom(sh, a, 1)                              \* offset of assignment a inside its block (0-based)
(* the assignment at offset k (0-based) of a block: the direct form of the law, used by the trace specification *)
RowAt(sh, k) == [p \in DOMAIN sh |-> sh[p][((k \div Weight(sh, p)) % Len(sh[p])) + 1]]
RowAtFirst(sh, k) == [p \in DOMAIN sh |-> sh[p][((k \div WeightFirst(sh, p)) % Len(sh[p])) + 1]]
ZeroOf(sh) == [p \in DOMAIN sh |-> 0]                              \* the Go zero value of the block struct
ZeroInShape(sh) == \A p \in DOMAIN sh : 0 \in Range(sh[p])

(* the writer of the embedded file: a recursion over the shape (deliberately not RowAt) *)
RECURSIVE Enum(_)
Enum(sh) == IF sh = <<>> THEN << <<>> >>
            ELSE LET rest == Enum(Tail(sh)) IN
                 Cat([i \in 1..Len(sh[1]) |-> [j \in 1..Len(rest) |-> <<sh[1][i]>> \o rest[j]]])
RECURSIVE EnumFirst(_)
EnumFirst(sh) == IF sh = <<>> THEN << <<>> >>
                 ELSE LET n == Len(sh)  front == EnumFirst(SubSeq(sh, 1, n - 1)) IN
                      Cat([i \in 1..Len(sh[n]) |-> [j \in 1..Len(front) |-> Append(front[j], sh[n][i])]])
Shapes == UNION {[1..k -> Doms] : k \in 0..MaxProps}

\* ---------------------------------------------------------------- variables
VARIABLES decl,      \* registry: the shapes of the blocks declared so far (block b = decl[b]; its name is b)
          file,      \* registry: states written to the embedded file and not yet loaded: <<b, assignment>>
          list,      \* registry: StateList
          toid,      \* registry: ToStateID (function state -> id)
          sealed,    \* registry: init() has returned (BitsPerBlock is set)
          panicked,  \* registry: init() panicked ("state already exists")
          texts,     \* codec: the table of the type under test (value v has text texts[v + 1])
          dest,      \* codec: the destination of UnmarshalText
          cact,      \* codec: the last call
          eids,      \* entities: ids of EntityList (entity i = position i, type number i - 1)
          evalid,    \* entities: evalid[i] = the blocks IsValidBlock of entity i accepts
          etypes,    \* entities: the map EntityTypes
          ei         \* entities: next index of init()'s loop
rvars == <<decl, file, list, toid, sealed, panicked>>
cvars == <<texts, dest, cact>>
evars == <<eids, evalid, etypes, ei>>
vars == <<rvars, cvars, evars>>

N == Len(list)
BitsPerBlock == BitLen(N)                                          \* block.go: bits.Len(uint(len(StateList)))
Bind(f, x, v) == [y \in DOMAIN f \cup {x} |-> IF y = x THEN v ELSE f[y]]
NoFn == [x \in {} |-> 0]
BlockIds(b) == {i \in 1..N : list[i][1] = b}
Base(b) == (CHOOSE i \in BlockIds(b) : \A j \in BlockIds(b) : i <= j) - 1
Loaded(b) == b \in 1..Len(decl) /\ (b < Len(decl) \/ file = <<>>)  \* every state of block b has been through the loop

\* ---------------------------------------------------------------- 1 registry: the machine
RegIdle == texts = <<>> /\ dest = 0 /\ cact = 0 /\ eids = <<>> /\ evalid = <<>> /\ etypes = NoFn /\ ei = 0
FileOf(b, sh) ==
  LET rows == IF Order = "first" THEN EnumFirst(sh) ELSE Enum(sh)
      sts  == [i \in 1..Len(rows) |-> <<b, rows[i]>>]
  IN IF Fault = "dup" /\ Len(sts) >= 2 THEN Append(sts, sts[1]) ELSE sts
Declare(sh) ==
  /\ ~sealed /\ ~panicked /\ file = <<>> /\ Len(decl) < MaxBlocks
  /\ decl' = Append(decl, sh) /\ file' = FileOf(Len(decl) + 1, sh)
  /\ UNCHANGED <<list, toid, sealed, panicked, cvars, evars>>
NextId == IF Fault = "gap" /\ Len(decl) >= 2 THEN N + 1 ELSE N
Load ==
  /\ file # <<>> /\ ~panicked
  /\ LET s == Head(file) IN
       IF s \in DOMAIN toid
       THEN panicked' = TRUE /\ UNCHANGED <<list, toid, file>>
       ELSE toid' = Bind(toid, s, NextId) /\ list' = Append(list, s) /\ file' = Tail(file) /\ UNCHANGED panicked
  /\ UNCHANGED <<decl, sealed, cvars, evars>>
Seal ==
  /\ file = <<>> /\ ~sealed /\ ~panicked /\ Len(decl) >= 1
  /\ sealed' = TRUE /\ UNCHANGED <<decl, file, list, toid, panicked, cvars, evars>>
RegInit == decl = <<>> /\ file = <<>> /\ list = <<>> /\ toid = NoFn /\ sealed = FALSE /\ panicked = FALSE /\ RegIdle
RegNext == (\E sh \in Shapes : Declare(sh)) \/ Load \/ Seal
RegSpec == RegInit /\ [][RegNext]_vars

\* ---------------------------------------------------------------- 1 registry: the laws (every prefix of the load)
RegTypeOK == /\ \A i \in 1..N : list[i][1] \in 1..Len(decl) /\ Len(list[i][2]) = Len(decl[list[i][1]])
             /\ DOMAIN toid = Range(list)
(* StateList and ToStateID are inverse bijections over 0..N-1 *)
Inverse == /\ \A i \in 1..N : toid[list[i]] = i - 1
           /\ \A s \in DOMAIN toid : toid[s] \in 0..(N - 1) /\ list[toid[s] + 1] = s
NoDupStates == Cardinality(Range(list)) = N
NoPanic == ~panicked
(* the ids of one block are contiguous *)
Contiguous == \A i, j \in 1..N : (i < j /\ list[i][1] = list[j][1]) => \A k \in i..j : list[k][1] = list[i][1]
(* a loaded block holds exactly the cartesian product of its domains ... *)
Complete == \A b \in 1..Len(decl) : Loaded(b) =>
              /\ Cardinality(BlockIds(b)) = Prod(decl[b])
              /\ \A i \in BlockIds(b) : InShape(decl[b], list[i][2])
(* ... numbered in mixed-radix order with the last declared property varying fastest *)
MixedRadix == \A b \in 1..Len(decl) : Loaded(b) =>
                \A i \in BlockIds(b) : /\ InShape(decl[b], list[i][2])
                                       /\ toid[list[i]] - Base(b) = Offset(decl[b], list[i][2])
                                       /\ list[i][2] = RowAt(decl[b], (i - 1) - Base(b))
(* BitsPerBlock is the bit length of N (enough for the ids 0..N, one more than vanilla's ceillog2 exactly when N is a power of two) *)
BitsLaw == sealed => /\ Pow2(BitsPerBlock) > N /\ (BitsPerBlock > 0 => Pow2(BitsPerBlock - 1) <= N)
                     /\ BitsPerBlock >= CeilLog2(N)
                     /\ (BitsPerBlock # CeilLog2(N) <=> \E k \in 0..BitsPerBlock : N = Pow2(k))
(* the default state of a block is the Go zero value of its struct (FromID[name]); it is a state of the table exactly *)
(* when every domain holds the ordinal 0 *)
DefaultLaw == sealed => \A b \in 1..Len(decl) : (<<b, ZeroOf(decl[b])>> \in DOMAIN toid) <=> ZeroInShape(decl[b])
DefaultInTable == (Intent /\ sealed) => \A b \in 1..Len(decl) : <<b, ZeroOf(decl[b])>> \in DOMAIN toid     \* INTENT

\* ---------------------------------------------------------------- 2 State.Block()
(* A compound is a sequence of entries [key, c, val].  key: p > 0 the name of property p, -p the same name in another *)
(* letter case (nbt falls back to strings.EqualFold), 0 a name the block does not have.  c: "v" a TAG_String holding    *)
(* the text of the value with ordinal val (of the property's TYPE; it need not be in the block's domain), "bad" a       *)
(* TAG_String no value of the type has, "ill" any other tag.  pt is the tag type of State.Properties: "end" (no         *)
(* properties), "compound", "other".                                                                                    *)
Ent(k, c, v) == [key |-> k, c |-> c, val |-> v]
PropOf(sh, e) == LET p == IF e.key < 0 THEN 0 - e.key ELSE e.key IN IF p \in 1..Len(sh) THEN p ELSE 0
RECURSIVE Fold(_, _, _)
(* entries are applied in order; an unknown key is skipped whatever it holds; the first bad value ends the call *)
Fold(sh, a, ents) ==
  IF ents = <<>> THEN [ok |-> TRUE, vals |-> a]
  ELSE LET e == Head(ents)  p == PropOf(sh, e) IN
       IF p = 0 THEN Fold(sh, a, Tail(ents))
       ELSE IF e.c # "v" THEN [ok |-> FALSE, vals |-> <<>>]
       ELSE Fold(sh, [a EXCEPT ![p] = e.val], Tail(ents))
Res(r, v) == [res |-> r, vals |-> v]
(* known: FromID has the name.  res: "unknown" (UnknownBlockErr), "err" (any other error), "ok" with the values *)
BlockOf(known, sh, pt, ents) ==
  IF ~known THEN Res("unknown", <<>>)
  ELSE IF pt = "end" THEN Res("ok", ZeroOf(sh))
  ELSE IF pt # "compound" THEN Res("err", <<>>)
  ELSE LET f == Fold(sh, ZeroOf(sh), ents) IN IF f.ok THEN Res("ok", f.vals) ELSE Res("err", <<>>)
IdOf(b, r) == IF r.res = "ok" /\ <<b, r.vals>> \in DOMAIN toid THEN toid[<<b, r.vals>>] ELSE -1
CompOf(a) == [p \in DOMAIN a |-> Ent(p, "v", a[p])]                       \* what the NBT encoder writes for a block
Keys(sh) == (0 - Len(sh))..Len(sh)
EntsOf(sh) == {Ent(k, "v", v) : k \in Keys(sh), v \in 0..TypeMax} \cup {Ent(k, c, 0) : k \in Keys(sh), c \in {"bad", "ill"}}
(* laws of State.Block() over the block of a sealed one-block table (every shape is the only block of some table) *)
LastB == Len(decl)
Single == sealed /\ Len(decl) = 1
BlockIdentity ==      \* ToStateID[State.Block()] over the embedded table is the identity on indices
  sealed => \A i \in 1..N : LET b == list[i][1]  r == BlockOf(TRUE, decl[b], "compound", CompOf(list[i][2])) IN
                              r = Res("ok", list[i][2]) /\ IdOf(b, r) = i - 1
BlockLaws ==
  Single => LET sh == decl[LastB]  B(es) == BlockOf(TRUE, sh, "compound", es) IN
    /\ B(<<>>) = Res("ok", ZeroOf(sh)) /\ BlockOf(TRUE, sh, "end", <<>>) = B(<<>>)          \* missing properties: zero value
    /\ BlockOf(FALSE, sh, "compound", <<>>).res = "unknown"
    /\ \A es \in SeqsUpTo(EntsOf(sh), MaxEnts) :
         LET r == B(es) IN
         /\ r.res \in {"ok", "err"}
         /\ (r.res = "err" <=> \E i \in DOMAIN es : PropOf(sh, es[i]) # 0 /\ es[i].c # "v")    \* only a value of a KNOWN key can fail
         /\ \A u \in EntsOf(<<>>) : B(Append(es, u)) = r /\ B(<<u>> \o es) = r  \* unknown keys are ignored
         /\ (r.res = "ok" => \A p \in DOMAIN sh :                                                \* the last entry of a key wins, absent = 0
               LET hits == {i \in DOMAIN es : PropOf(sh, es[i]) = p} IN
               r.vals[p] = IF hits = {} THEN 0 ELSE es[CHOOSE i \in hits : \A j \in hits : j <= i].val)
         /\ B([i \in DOMAIN es |-> Ent(0 - es[i].key, es[i].c, es[i].val)]) = r                            \* letter case of keys does not matter
         /\ (r.res = "ok" => (IdOf(LastB, r) >= 0 <=> InShape(sh, r.vals)))                      \* in the table iff inside the domains
AcceptedInTable ==    \* INTENT: what State.Block() accepts is a state of the table
  (Intent /\ Single) => \A es \in SeqsUpTo(EntsOf(decl[LastB]), MaxEnts) :
      LET r == BlockOf(TRUE, decl[LastB], "compound", es) IN r.res = "ok" => IdOf(LastB, r) >= 0

\* ---------------------------------------------------------------- 3 text codecs
NV == Len(texts)
Enc(tab, v) == IF v \in 0..(Len(tab) - 1) THEN [err |-> FALSE, text |-> tab[v + 1]] ELSE [err |-> TRUE, text |-> ""]
Matches(tab, t) == {i \in DOMAIN tab : tab[i] = t}
(* UnmarshalText: the first value whose text this is; text outside the table is an error *)
Dec(tab, t, d) == LET m == Matches(tab, t) IN
  IF m # {} THEN [err |-> FALSE, post |-> (CHOOSE i \in m : \A j \in m : i <= j) - 1]
  ELSE [err |-> TRUE, post |-> IF ErrDest = "keep" THEN d ELSE 0]
CAct(op, v, t, err) == [op |-> op, v |-> v, text |-> t, err |-> err]
CodecIdle == decl = <<>> /\ file = <<>> /\ list = <<>> /\ toid = NoFn /\ sealed = FALSE /\ panicked = FALSE
             /\ eids = <<>> /\ evalid = <<>> /\ etypes = NoFn /\ ei = 0
CodecInit == /\ texts \in UNION {[1..k -> TextTokens] : k \in 1..MaxVals}
             /\ dest \in 0..(Len(texts) - 1) /\ cact = CAct("new", 0, "", FALSE) /\ CodecIdle
Marshal(v) == /\ cact' = CAct("enc", v, Enc(texts, v).text, Enc(texts, v).err)
              /\ UNCHANGED <<texts, dest, rvars, evars>>
Unmarshal(t) == LET r == Dec(texts, t, dest) IN
                /\ dest' = r.post /\ cact' = CAct("dec", r.post, t, r.err)
                /\ UNCHANGED <<texts, rvars, evars>>
CodecNext == (\E v \in (-1)..(MaxVals + 1) : Marshal(v)) \/ (\E t \in TextTokens \cup {"?"} : Unmarshal(t))
CodecSpec == CodecInit /\ [][CodecNext]_vars
Injective == Distinct(texts)
(* UnmarshalText(MarshalText(v)) = v for every value - exactly when distinct values have distinct texts *)
RoundTripHolds == \A v \in 0..(NV - 1) : ~Enc(texts, v).err /\ Dec(texts, Enc(texts, v).text, dest) = [err |-> FALSE, post |-> v]
RoundTrip == IF Strict THEN RoundTripHolds ELSE (RoundTripHolds <=> Injective)
DestValid == dest \in 0..(NV - 1)                                  \* a decode never leaves an invalid value behind
EncTotal == \A v \in (-1)..(MaxVals + 1) : Enc(texts, v).err <=> v \notin 0..(NV - 1)
DecodeStrict == \A t \in TextTokens \cup {"?"} : Dec(texts, t, dest).err <=> t \notin Range(texts)
ErrLeavesDest == [][(cact'.op = "dec" /\ cact'.err) => dest' = (IF ErrDest = "keep" THEN dest ELSE 0)]_vars
EncReadOnly == [][cact'.op = "enc" => dest' = dest]_vars

\* ---------------------------------------------------------------- 4 block entities
EntIdle == decl = <<>> /\ file = <<>> /\ list = <<>> /\ toid = NoFn /\ sealed = FALSE /\ panicked = FALSE
           /\ texts = <<>> /\ dest = 0 /\ cact = 0
EntInit == /\ eids \in UNION {[1..k -> EIdTokens] : k \in 1..MaxEntities}
           /\ evalid \in [1..Len(eids) -> SUBSET EBlocks]
           /\ etypes = NoFn /\ ei = 1 /\ EntIdle
(* blockentity.go init(): for i, v := range EntityList { EntityTypes[v.ID()] = EntityType(i) } - a later entry overwrites *)
EntStep == /\ ei <= Len(eids) /\ etypes' = Bind(etypes, eids[ei], ei - 1) /\ ei' = ei + 1
           /\ UNCHANGED <<eids, evalid, rvars, cvars>>
EntSpec == EntInit /\ [][EntStep]_vars
EntDone == ei > Len(eids)
TypeOfId(id) == IF id \in DOMAIN etypes THEN etypes[id] ELSE -1       \* the answer of the map (absent: the harness records -1)
EntitiesOf(b) == {i \in DOMAIN evalid : b \in evalid[i]}             \* lookup by block
EntInverseHolds == \A i \in DOMAIN eids : TypeOfId(eids[i]) = i - 1
EntInverse == EntDone => IF Strict THEN EntInverseHolds ELSE (EntInverseHolds <=> Distinct(eids))
EntTypesDense == EntDone => /\ DOMAIN etypes = Range(eids)
                            /\ \A id \in DOMAIN etypes : etypes[id] \in 0..(Len(eids) - 1) /\ eids[etypes[id] + 1] = id
EntOnePerBlockHolds == \A b \in EBlocks : Cardinality(EntitiesOf(b)) <= 1
EntDisjoint == EntOnePerBlockHolds <=> \A i, j \in DOMAIN evalid : i # j => evalid[i] \cap evalid[j] = {}
EntOnePerBlock == Strict => EntOnePerBlockHolds

\* ---------------------------------------------------------------- constants of the exhaustive configurations
MC_Doms == {<<1, 0>>, <<0, 1>>, <<0, 1, 2>>}                         \* Boolean, a two-valued and a three-valued property
MC_Doms_thorough == {<<1, 0>>, <<0, 1, 2>>, <<2, 0, 1>>}
MC_Doms_wide == {<<1, 0>>, <<0, 1, 2>>, <<2, 3>>, <<1, 2, 3>>}        \* with domains that do not hold the ordinal 0
MC_Doms_default == {<<1, 0>>, <<1, 2>>}                              \* a domain without the ordinal 0 (layers 1..8, horizontal facing)
MC_Texts == {"a", "b", "c"}
MC_EIds == {"x", "y", "z"}
MC_EBlocks == {"p", "q"}
=============================================================================
