SPECIFICATION Spec
CONSTANTS
  Owned = {1}
  Member = {2}
  Other = {3}
  Ghost = {9}
  Players = {1, 2}
  FaultSet <- MC_FaultsQ
  Variant = "intent"
VIEW View
INVARIANTS TypeOK Agree
PROPERTIES TosRule ViewAgrees NoSilentSuccess OwnerOnly InviteRule UnprocessedNoEffect OneRequest BodiesClosed
CHECK_DEADLOCK FALSE
