------------------------------ MODULE Cmd_MC ------------------------------
(* Model-checking constants of X03/Cmd (cfg files accept no tuples).  Literal names a, b (in the deeper configuration *)
(* also a name with a blank and the empty name, which can never be typed).  Lines = all byte strings over Alphabet up  *)
(* to LineLen, and up to LineToks tokens of the menu joined by single blanks.                                           *)
EXTENDS Cmd
CONSTANTS Alphabet, LineLen, LineToks
MC_Name1 == {<<120>>}
MC_Names2 == {<<97>>, <<98>>}
MC_Names4 == {<<97>>, <<98>>, <<97, 32>>, <<>>}
MC_Toks == {<<97>>, <<98>>, <<34, 98, 34>>, <<34, 34>>, <<34, 97>>, <<98, 34>>, <<92>>}      \* a  b  "b"  ""  "a  b"  \
RECURSIVE TokLines(_)
TokLines(k) == IF k = 0 THEN {<<>>} ELSE LET S == TokLines(k - 1) IN S \cup {IF l = <<>> THEN t ELSE l \o <<32>> \o t : l \in S, t \in MC_Toks}
MC_Lines == UNION {[1..k -> Alphabet] : k \in 0..LineLen} \cup TokLines(LineToks)
=============================================================================
