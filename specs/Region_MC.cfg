SPECIFICATION Spec
CONSTANTS
  Chunks = {0,1,2}
  MaxNeed = 2
  MaxSector = 6
  MaxWrites = 3
  FirstFit = FALSE
  AnyOrder = FALSE
  WithCrash = TRUE
  Lens = {1}
VIEW View
INVARIANTS TypeOK NoOverlapMem NoOverlapDisk UsedExact HeaderSync ReadBack CrashSafe
PROPERTIES ReopenIdempotent
CHECK_DEADLOCK FALSE
