------------------------------ MODULE BotMsg_Gen ------------------------------
(* Behaviour generator for leg A of X06/BotMsg: the model of the code (Variant = "code") with players joining and      *)
(* leaving, chat sessions, every signature kind, packed last-seen ids, known and unknown chat types with and without   *)
(* target name, messages of up to 300 characters of one and two bytes.  Last-seen entries with a full signature are    *)
(* not generated (the code layer is unspecified there).  This module only chooses which behaviours are replayed on     *)
(* the real Manager; it proves nothing.                                                                                *)
EXTENDS BotMsg

VARIABLE n
gvars == <<vars, n>>
G_Lsts == {<<"sys", "chat", "dis", "probe">>, <<"chat", "probe">>, <<"sys", "dis">>, <<"chat">>}
GUs == {1, 2, 3}
GFails == IF n % 5 = 2 THEN {<<1>>, <<2>>} ELSE {<<>>}
GDo(p) == Do(p) /\ n' = n + 1
GenNext ==
  \/ \E ov \in {0, 1}, f \in GFails : GDo(P("system", 0, ov, 0, "none", 0, n + 1, <<>>, 0, 0, 0, 0, 0, 0, 0, f))
  \/ \E ct \in {0, 1, 2, 3, 7}, ht \in {0, 1}, f \in GFails :
       GDo(P("disguised", 0, 0, 0, "none", 0, n + 1, <<>>, 0, 0, ct, n % 4, ht, ht * (1 + (n % 3)), 0, f))
  \/ \E u \in GUs \cup {4}, sg \in {"none", "bad", "valid"} : \E ls \in {<<>>, <<0>>, <<-1, 0>>, <<-5>>}, un \in {0, n + 1},
        ct \in {0, 1, 2, 3}, ht \in {0, 1}, f \in GFails : (ls = <<>> \/ n % 3 = 0) /\ (ct # 3 \/ n % 4 = 1) /\ (u # 4 \/ n % 4 = 2) /\
       GDo(P("chat", u, 0, n, sg, IF sg = "none" THEN 0 ELSE 100 + n, n + 1, ls, un, n % 3, ct, u, ht, ht * 2, 0, f))
  \/ \E nn \in {0, 1, n, 255, 256, 257, 300}, w \in {1, 2} : n % 3 = 0 /\ GDo(P("send", 0, nn, 0, "none", 0, 0, <<>>, 0, 0, 0, 0, 0, 0, w, <<>>))
  \/ \E nn \in {0, 1, n, 255, 256, 257, 300}, w \in {1, 2} : n % 3 = 1 /\ GDo(P("cmd", 0, nn, 0, "none", 0, 0, <<>>, 0, 0, 0, 0, 0, 0, w, <<>>))
  \/ \E u \in GUs, se \in {0, 1, 2} : (n % 4 = 0 \/ (u \notin DOMAIN s.players /\ n % 2 = 0)) /\ GDo(P0("padd", u, se, <<>>))
  \/ \E u \in GUs : n % 6 = 5 /\ GDo(P0("premove", u, 0, <<>>))
  \/ \E b \in {0, 1} : n % 7 = b /\ GDo(P0("setfull", 0, b, <<>>))
GenSpec == Init /\ n = 0 /\ [][GenNext]_gvars
=============================================================================
