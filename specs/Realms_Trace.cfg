SPECIFICATION TraceSpec
CONSTANTS
  Owned = {1, 2}
  Member = {3, 4}
  Other = {5}
  Ghost = {9}
  Players = {1, 2, 3, 4}
  FaultSet = {}
  Variant = "intent"
INVARIANTS Check
CHECK_DEADLOCK FALSE
