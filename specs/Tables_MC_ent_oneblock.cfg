SPECIFICATION EntSpec
CONSTANTS
  Doms <- MC_Doms
  MaxProps = 0
  MaxBlocks = 0
  Order = "last"
  Fault = "none"
  MaxEnts = 0
  TypeMax = 0
  Intent = FALSE
  TextTokens <- MC_Texts
  MaxVals = 3
  ErrDest = "keep"
  EIdTokens <- MC_EIds
  EBlocks <- MC_EBlocks
  MaxEntities = 3
  Strict = TRUE
INVARIANTS EntTypesDense EntDisjoint EntOnePerBlock

CHECK_DEADLOCK FALSE
