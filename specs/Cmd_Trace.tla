----------------------------- MODULE Cmd_Trace -----------------------------
(* Trace validation for X03/Cmd.  Every line is one call on a real command.Graph (through the exported builder API,   *)
(* Graph.Execute or Graph.WriteTo) together with the projection of the graph AFTER the call: `nodes` = the node table    *)
(* as <<kind, name, parser, children, run>> (kind/index/Children/Name/Parser read from the real nodes, run = 0 nil,      *)
(* -1 the package's unhandled function, h the harness handler h - found by calling Run), `stage` = the type state of the *)
(* builder value the harness holds for each node (the Go type of that value).  The state BEFORE a call is the projection *)
(* on the previous line, so every line is an independent initial state l; the numbers of the failed checks of a line are *)
(* printed as <<"X2FAIL", l, {checks}>>; the harness only maps them back to events.                                      *)
(*                                                                                                                       *)
(* checks:  1 Fresh  2 NoPanic  3 NewNode  4 AppendLiteral  5 AppendArgument  6 Handle  7 Unhandle                       *)
(*          8 WellFormed (state predicate of the builder discipline, reported at the step that breaks it)                *)
(*          9 ReadOnly (Execute / WriteTo leave the graph alone)                                                         *)
(*          10 ExecPlain (line closing no quoted phrase: outcome = Exec)   11 ExecQuoted (line closing a quoted phrase:   *)
(*          outcome = Exec, INTENT)   12 ExecModelled (such a line: outcome is the intent or the code as modelled)        *)
(*          13 ErrClass (which error)   14 HandlerReturn (Execute returns what the handler returned, same context)        *)
(*          15 WireBytes (the body is Enc of the table in one of the readings, n = length)                               *)
(*          16 WireDecodes (the independent decoder gives the table back)                                                *)
(*          17 WireParserId (... in the form of the current protocol: VarInt parser id)                                  *)
(*          18 WireExecutable (a node finished with Unhandle is not announced as executable)                             *)
EXTENDS Cmd, Json

Trace == ndJsonDeserialize("trace.ndjson")

VARIABLE l
tvars == <<vars, l>>
NChecks == 18

G(e) == [i \in 1..Len(e.nodes) |-> Node(e.nodes[i][1], e.nodes[i][2], e.nodes[i][3], e.nodes[i][4], e.nodes[i][5])]
(* the discipline of the table: every node knows its position and its graph, and what the builder type states guarantee *)
Good(e) == /\ e.own = TRUE /\ e.idx = [i \in 1..Len(e.nodes) |-> i - 1]
           /\ WellFormedOn(G(e), e.stage) /\ StageMatchesOn(G(e), e.stage)
(* does the recorded outcome of Execute equal the result r of the specification? *)
Outcome(ev, r) ==
  IF r.kind = "ran" THEN ev.calls = << <<r.h, r.args>> >> /\ ev.ecls \in {"none", "handler"}
  ELSE ev.calls = <<>> /\ ev.ecls \notin {"none", "handler"}
Readings == {<<f, x>> : f \in {"name", "id"}, x \in {"handler", "run"}}
(* the table a decoded body describes, without the executable flags *)
Shape(ns) == [i \in 1..Len(ns) |-> [kind |-> ns[i].kind, name |-> ns[i].name, parser |-> ns[i].parser, children |-> ns[i].children]]

Failed ==
  LET ev     == Trace[l]
      hasPre == l > 1 /\ ev.k # "reset"
      pre    == IF hasPre THEN Trace[l - 1] ELSE ev
      g0     == G(pre)
      g1     == G(ev)
      n0     == Len(g0)
      Is(k)  == ev.k = k /\ hasPre
      same   == g1 = g0 /\ ev.stage = pre.stage
      ri     == Exec(g0, ev.line, "intent")
      rw     == IF ri.q THEN Exec(g0, ev.line, "aswritten") ELSE ri
      dn     == Dec(ev.bytes, "name")
      di     == Dec(ev.bytes, "id")
      d      == IF dn.ok THEN dn ELSE di
      Ok(c) ==
        CASE c = 1 -> ev.k = "reset" => (g1 = <<Root>> /\ ev.stage = <<"root">>)
          [] c = 2 -> ev.panicked = FALSE
          [] c = 3 -> (Is("lit") \/ Is("arg")) =>
                        /\ g1 = Append(g0, Node(IF ev.k = "lit" THEN 1 ELSE 2, ev.name, ev.parser, <<>>, 0))
                        /\ ev.stage = Append(pre.stage, "fresh") /\ ev.p = n0
          [] c = 4 -> Is("applit") =>
                        /\ ev.p \in 0..(n0 - 1) /\ g1 = [g0 EXCEPT ![ev.p + 1].children = Append(@, ev.c)]
                        /\ ev.stage = [pre.stage EXCEPT ![ev.p + 1] = IF ev.p = 0 THEN "root" ELSE "lits"]
          [] c = 5 -> Is("apparg") =>
                        /\ ev.p \in 1..(n0 - 1) /\ g1 = [g0 EXCEPT ![ev.p + 1].children = Append(@, ev.c)]
                        /\ ev.stage = [pre.stage EXCEPT ![ev.p + 1] = "arg"]
          [] c = 6 -> Is("handle") =>
                        /\ ev.p \in 1..(n0 - 1) /\ g1 = [g0 EXCEPT ![ev.p + 1].run = ev.h]
                        /\ ev.stage = [pre.stage EXCEPT ![ev.p + 1] = "done"]
          [] c = 7 -> Is("unhandle") =>
                        /\ ev.p \in 1..(n0 - 1) /\ g1 = [g0 EXCEPT ![ev.p + 1].run = -1]
                        /\ ev.stage = [pre.stage EXCEPT ![ev.p + 1] = "done"]
          [] c = 8 -> (ev.k \notin {"exec", "wire"} /\ (~hasPre \/ Good(pre))) => Good(ev)
          [] c = 9 -> (Is("exec") \/ Is("wire")) => same
          [] c = 10 -> (Is("exec") /\ ~ri.q) => Outcome(ev, ri)
          [] c = 11 -> (Is("exec") /\ ri.q) => Outcome(ev, ri)
          [] c = 12 -> (Is("exec") /\ ri.q) => (Outcome(ev, ri) \/ Outcome(ev, rw))
          [] c = 13 -> (Is("exec") /\ ev.calls = <<>> /\ ev.ecls \notin {"none", "handler"}) =>
                         \/ ri.kind # "err" /\ rw.kind # "err"          \* an error where none is specified: checks 10-12
                         \/ \E r \in {ri, rw} : r.kind = "err" /\ ev.ecls = r.cls /\ (r.cls = "extra" => ev.left = r.left)
          [] c = 14 -> (Is("exec") /\ ev.calls # <<>>) => (ev.retown = TRUE /\ ev.ctxok = TRUE)
          [] c = 15 -> Is("wire") => (/\ ev.werr = FALSE /\ ev.wn = Len(ev.bytes)
                                      /\ \E r \in Readings : ev.bytes = Enc(g0, r[1], r[2]))
          [] c = 16 -> Is("wire") =>
                         /\ d.ok /\ d.root = 0 /\ Shape(d.nodes) = Shape(WireView(g0, "run"))
                         /\ \A i \in 1..n0 : (g0[i].run > 0 => d.nodes[i].exec) /\ (g0[i].run = 0 => ~d.nodes[i].exec)
          [] c = 17 -> Is("wire") => (di.ok /\ Shape(di.nodes) = Shape(WireView(g0, "run")))
          [] c = 18 -> (Is("wire") /\ d.ok /\ Len(d.nodes) = n0) => \A i \in 1..n0 : g0[i].run < 0 => ~d.nodes[i].exec
          [] OTHER -> TRUE
  IN {c \in 1..NChecks : ~Ok(c)}

Check == LET f == Failed IN f = {} \/ PrintT(<<"X2FAIL", l, f>>)

TraceInit == /\ l \in 1..Len(Trace)
             /\ nodes = <<>> /\ stage = <<>> /\ act = 0 /\ nops = 0
TraceSpec == TraceInit /\ [][UNCHANGED tvars]_tvars
=============================================================================
