SPECIFICATION GenSpec
CONSTANTS
  Chunks = {0, 1, 2}
  MaxNeed = 3
  MaxSector = 12
  MaxWrites = 8
  FirstFit = TRUE
  AnyOrder = FALSE
  WithCrash = TRUE
  Lens = {1}
CHECK_DEADLOCK FALSE
