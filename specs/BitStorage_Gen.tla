--------------------------- MODULE BitStorage_Gen ---------------------------
(* Behaviour generator for leg A of C11: the BitStorage specification simulated by TLC with the      *)
(* rejected calls thinned (a uniform walk over Next would consist mostly of out-of-range values).    *)
(* This module only chooses which behaviours are replayed; it proves nothing.                        *)
EXTENDS BitStorage
GenNext == \/ \E i \in IdxOf, v \in InVals(b) : Set(i, v) \/ Swap(i, v)
           \/ \E i \in IdxOf : Get(i)
           \/ \E op \in {"set", "swap", "get"}, i \in {-1, n, n + 1, 2147483647, -2147483647} :
                 BadIndex(op, i, IF op = "get" THEN Zero ELSE MaxVal(b))
           \/ \E op \in {"set", "swap"}, i \in {0, n - 1}, v \in OutVals(b) : BadValue(op, i, v)
           \/ \E op \in {"set", "swap", "get"}, i \in {-1, 0, n - 1, n}, v \in {Zero, <<0, 0, 0, 1>>} :
                 ZeroBits(op, i, IF op = "get" THEN Zero ELSE v)
           \/ Renew
           \/ \E d \in {-1, 1} : NewWrong(NLongs + d)
           \/ \E tb \in {0, b, 32} : Wire(tb)
           \/ \E b2 \in {1, b + 1, 32} : FixWrong(b2)
GenSpec == Init /\ [][GenNext]_vars
=============================================================================
