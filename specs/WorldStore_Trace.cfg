SPECIFICATION TraceSpec
CONSTANTS
  Coords = {}
  Levels = {}
  Dsts = {}
  CTypes = {}
  Lens = {}
  SectorSize = 4096
  MaxNeed = 255
  Variant = "intent"
  MaxOps = 0
INVARIANTS Check
CHECK_DEADLOCK FALSE
