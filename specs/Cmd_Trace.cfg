SPECIFICATION TraceSpec
CONSTANTS
  LitNames = {}
  ArgNames = {}
  Parsers = {}
  Handlers = {}
  OwnHandler = FALSE
  SymBreak = FALSE
  Unhandles = TRUE
  MaxNodes = 0
  MaxKids = 0
  Lines = {}
  Variant = "intent"
  WireBreak = "none"
INVARIANTS Check
CHECK_DEADLOCK FALSE
