SPECIFICATION RegSpec
CONSTANTS
  Doms <- MC_Doms
  MaxProps = 2
  MaxBlocks = 2
  Order = "last"
  Fault = "dup"
  MaxEnts = 1
  TypeMax = 2
  Intent = FALSE
  TextTokens <- MC_Texts
  MaxVals = 3
  ErrDest = "keep"
  EIdTokens <- MC_EIds
  EBlocks <- MC_EBlocks
  MaxEntities = 3
  Strict = FALSE
INVARIANTS RegTypeOK Inverse NoDupStates Contiguous NoPanic

CHECK_DEADLOCK FALSE
