SPECIFICATION Spec
CONSTANTS
  Alphabet = {0, 1, 15, 16, 127, 128, 129, 240, 255}
  ShortMax = 4
  LongLen = 20
  EndMax = 2
  MidRuns = 2
  EmitJson = TRUE
INVARIANTS TypeOK Agree AgreeInt WellFormed ReadBack UuidShape Emit
CHECK_DEADLOCK FALSE
