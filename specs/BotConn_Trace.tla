---------------------------- MODULE BotConn_Trace ----------------------------
(* start/end histories of concurrent bot.Conn.ReadPacket calls against one writing-then-closing peer; TLC searches *)
(* for the instants at which the calls took effect (high-water mark idiom, like PlayerList_Trace)                *)
EXTENDS BotConn, Json
Trace == ndJsonDeserialize("trace.ndjson")
VARIABLE l
Ev == Trace[l]
IsEvent(k) == l <= Len(Trace) /\ Trace[l].k = k /\ l' = l + 1
TReset == IsEvent("reset") /\ sent' = 0 /\ closing' = FALSE /\ delivered' = 0 /\ pend' = [g \in Procs |-> NoCall]
TSend == IsEvent("send") /\ Ev.v = sent + 1 /\ Send
TClose == IsEvent("close") /\ CloseStart
TStart == IsEvent("start") /\ Call(Ev.g)
\* a nil error with packet id v, or a non-nil error (v is then ignored)
TEnd == IsEvent("end") /\ Return(Ev.g, IF Ev.err THEN -1 ELSE Ev.v)
TLin == \E g \in Procs : Lin(g) /\ UNCHANGED l
TQuiesce == IsEvent("quiesce") /\ (\A g \in Procs : pend[g].st = "none") /\ closing /\ delivered = sent /\ UNCHANGED bvars
TraceInit == BInit /\ l = 1
TraceNext == TReset \/ TSend \/ TClose \/ TStart \/ TEnd \/ TLin \/ TQuiesce
TraceSpec == TraceInit /\ [][TraceNext]_<<bvars, l>>
ASSUME TLCSet(1, 0)
HWM == TLCSet(1, IF TLCGet(1) < l THEN l ELSE TLCGet(1))
Accepted == PrintT(<<"HWM", TLCGet(1), Len(Trace) + 1>>) /\ TLCGet(1) = Len(Trace) + 1
=============================================================================
