-------------------------- MODULE PlayerList_Ind ---------------------------
(***************************************************************************)
(* X09: an inductive invariant for PlayerList.tla (C20), valid for         *)
(* arbitrary Procs, Clients, MaxCap.  The original module is INSTANCEd     *)
(* unchanged; this module only re-declares its CONSTANTS / VARIABLES with  *)
(* the @type annotations Apalache needs (comments for TLC and TLAPS).      *)
(*   IndInv            constrains every variable, is inductive for PNext   *)
(*   Safety            what C20 states about the model                     *)
(*   IndInvWeak        IndInv without the capacity conjunct - NOT          *)
(*                     inductive (self-test: Apalache must reject it)      *)
(*   PNextMut          PNext with an admission that skips the capacity     *)
(*                     test - IndInv is NOT inductive for it (self-test)   *)
(* Obligations (Apalache, specs/ind/PlayerList_IndApa.tla; TLAPS,          *)
(* specs/ind/PlayerList_IndProof.tla): PInit => IndInv,                    *)
(* IndInv /\ [PNext]_pvars => IndInv', IndInv => Safety.                   *)
(***************************************************************************)
EXTENDS Integers, Sequences, FiniteSets, TLC
CONSTANTS
  \* @type: Set(Int);
  Procs,
  \* @type: Set(Int);
  Clients,
  \* @type: Int;
  MaxCap
VARIABLES
  \* @type: Set(Int);
  players,
  \* @type: Int;
  cap,
  \* @type: Int -> {op: Str, c: Int, lin: Bool, r: Int};
  pend

INSTANCE PlayerList

Ops == {"none", "join", "left", "len", "check"}

\* Written field by field: Apalache accepts neither `r : 0..MaxCap` (a non-constant range) nor `r : Int` inside a
\* set of records.  The first conjunct under \A says "pend[g] is a record with exactly these four fields" in a
\* form all three tools can read (for Apalache it is a consequence of the type annotation).
TypeOK == /\ players \in SUBSET Clients
          /\ IsFiniteSet(players)
          /\ cap \in 0..MaxCap
          /\ DOMAIN pend = Procs
          /\ \A g \in Procs :
                /\ pend[g] = [op |-> pend[g].op, c |-> pend[g].c, lin |-> pend[g].lin, r |-> pend[g].r]
                /\ pend[g].op \in Ops /\ pend[g].c \in Clients \cup {0}
                /\ pend[g].lin \in BOOLEAN /\ pend[g].r \in 0..MaxCap
                /\ pend[g].op \in {"join", "left"} => pend[g].c \in Clients   \* (found as a counterexample to induction)

IndInv == /\ TypeOK
          /\ NeverOverCapacity
          /\ LenNeverOverCapacity

\* "an admitted player is listed exactly once": the model keeps the admitted players as a SET, so the
\* statement is the type of `players`; what is left to prove is the capacity bound (for the list and
\* for every answer Len() gives)
Safety == NeverOverCapacity /\ LenNeverOverCapacity /\ players \in SUBSET Clients

\* ---- self-test 1: a weakened invariant (the capacity conjunct dropped; only what Len() answered is kept)
IndInvWeak == TypeOK /\ LenNeverOverCapacity

\* ---- self-test 2: a mutated action - admission without the capacity test
LinMut(g) == /\ pend[g].op = "join" /\ ~pend[g].lin
             /\ players' = players \cup {pend[g].c} /\ pend' = [pend EXCEPT ![g].lin = TRUE, ![g].r = 1]
             /\ UNCHANGED cap
PNextMut == PNext \/ \E g \in Procs : LinMut(g)
=============================================================================
