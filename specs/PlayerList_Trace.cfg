SPECIFICATION TraceSpec
CONSTANTS
  Procs = {0, 1, 2, 3, 4, 5, 6, 7}
  Clients = {}
  MaxCap = 100
CONSTRAINT HWM
POSTCONDITION Accepted
CHECK_DEADLOCK FALSE
