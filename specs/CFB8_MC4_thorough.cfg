SPECIFICATION Spec
CONSTANTS
  BS = 4
  Keys = {0, 3}
  IVs <- MCIVs
  Msgs <- MCMsgs
  Lens <- MCLens
  MaxCalls = 4
  EmitJson = TRUE
INVARIANTS TypeOK SplitInvariance RegIsWindow RoundTrip Emit
CHECK_DEADLOCK FALSE
