---------------------------- MODULE BotBasic_Trace ----------------------------
(* Trace validation for X06/BotBasic.  Every line is one clientbound packet handed to the handlers of a real         *)
(* basic.Player through bot.Client.Events (or a call of Player.Respawn / AcceptTeleportation, or the harness acting  *)
(* as the environment: mkcookies, setfull, setsettings) with what was observed: evs (callbacks in order), out (the   *)
(* packets found on the send queue, decoded by the harness with the field order of protocol 767), dl (socket        *)
(* deadline resets), err (class of the returned error), pan (the handler panicked) and the projection AFTER it:      *)
(* li, wo (PlayerInfo / WorldInfo), set (Settings), cookies as rows <<key, payload>>, cinit, tags as rows            *)
(* <<registry, tag, ids>>, full, lst.  The state before a packet is the projection on the previous line: every line  *)
(* is an independent initial state l; failed checks are printed as <<"X2FAIL", l, {checks}>>.                        *)
(* checks:  1 NoPanic  2 Fresh  3 WellFormed  4 Login  5 Respawn  6 Echo (keepalive, ping)  7 Cookie  8 Tags          *)
(*          9 Events (disconnect, health, position)  10 Calls  11 Env    (4-11: outside the named classes)            *)
(*          12 GameStartOrder  13 StoreCookieNilMap  14 EmptyCookie  15 TagsUnknownRegistry (judged against the       *)
(*          intent)  16 AsCoded (.. and if the intent is not met, against Step(TRUE, ..))                             *)
(*          17 RespawnKeeps (a Respawn changed a field that only Login sets)  18 ErrorClass                           *)
EXTENDS BotBasic, Json

Trace == ndJsonDeserialize("trace.ndjson")
VARIABLE l
tvars == <<vars, l>>
NChecks == 18

StateOf(e) == [li |-> e.li, wo |-> e.wo, set |-> e.set,
               cookies |-> [k \in {e.cookies[i][1] : i \in 1..Len(e.cookies)} |->
                              e.cookies[CHOOSE i \in 1..Len(e.cookies) : e.cookies[i][1] = k][2]],
               cinit |-> e.cinit,
               tags |-> [rt \in {<<e.tags[i][1], e.tags[i][2]>> : i \in 1..Len(e.tags)} |->
                           e.tags[CHOOSE i \in 1..Len(e.tags) : <<e.tags[i][1], e.tags[i][2]>> = rt][3]],
               full |-> e.full, lst |-> e.lst]
PacketOf(e) == P(e.k, e.n, e.key, e.pay, e.v, e.pli, e.pwo, e.secs, e.plst, e.fail)
WellFormedOn(st) == /\ \A k \in DOMAIN st.cookies : k >= 0 /\ st.cookies[k] >= 0
                    /\ \A i \in 1..Len(st.set) : st.set[i] >= 0
                    /\ \A i \in 1..Len(st.li.dns) : st.li.dns[i] >= 0
                    /\ st.wo.dn >= 0
                    /\ \A rt \in DOMAIN st.tags : \A i \in 1..Len(st.tags[rt]) : st.tags[rt][i] >= 0
OutOK(e) == \A i \in 1..Len(e.out) : e.out[i][1] # "garbage"

Failed ==
  LET ev     == Trace[l]
      hasPre == l > 1 /\ ev.k \notin {"reset", "new"}
      post   == StateOf(ev)
      pre    == IF hasPre THEN StateOf(Trace[l - 1]) ELSE post
      p      == PacketOf(ev)
      ok0    == hasPre /\ WellFormedOn(pre) /\ WellFormedOn(post) /\ OutOK(ev) /\ ~ev.panicked
      obs    == Res(post, ev.evs, ev.out, ev.dl, ev.err, ev.pan)
      I      == Step(FALSE, pre, p)
      C      == Step(TRUE, pre, p)
      cls    == IF hasPre THEN Class(pre, p) ELSE "none"
      Plain(ks) == (ok0 /\ ev.k \in ks /\ cls = "none") => obs = I
      InClass(c) == (ok0 /\ cls = c) => obs = I
      Ok(c) ==
        CASE c = 1 -> cls = "none" => (~ev.pan /\ ~ev.panicked)
          [] c = 2 -> ev.k \in {"reset", "new"} => (post = Fresh(ev.plst) /\ ev.evs = <<>> /\ ev.out = <<>>)
          [] c = 3 -> WellFormedOn(post) /\ OutOK(ev)
          [] c = 4 -> Plain({"login"})
          [] c = 5 -> Plain({"respawn"})
          [] c = 6 -> Plain({"keepalive", "ping"})
          [] c = 7 -> Plain({"cookiereq", "cookiestore"})
          [] c = 8 -> Plain({"tags"})
          [] c = 9 -> Plain({"disconnect", "health", "position"})
          [] c = 10 -> Plain({"callrespawn", "accepttp"})
          [] c = 11 -> Plain({"mkcookies", "setfull", "setsettings"})
          [] c = 12 -> InClass("GameStartOrder")
          [] c = 13 -> InClass("StoreCookieNilMap")
          [] c = 14 -> InClass("EmptyCookie")
          [] c = 15 -> InClass("TagsUnknownRegistry")
          [] c = 16 -> (ok0 /\ cls # "none" /\ obs # I) => obs = C
          [] c = 17 -> (hasPre /\ ev.k = "respawn") => post.li = pre.li
          [] c = 18 -> ev.err \in {"none", "cb", "own"}
          [] OTHER -> TRUE
  IN {c \in 1..NChecks : ~Ok(c)}

Check == LET f == Failed IN f = {} \/ PrintT(<<"X2FAIL", l, f>>)
TraceInit == l \in 1..Len(Trace) /\ s = 0 /\ hist = 0 /\ act = 0
TraceSpec == TraceInit /\ [][UNCHANGED tvars]_tvars
=============================================================================
