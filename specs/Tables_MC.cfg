SPECIFICATION RegSpec
CONSTANTS
  Doms <- MC_Doms
  MaxProps = 2
  MaxBlocks = 3
  Order = "last"
  Fault = "none"
  MaxEnts = 2
  TypeMax = 2
  Intent = FALSE
  TextTokens <- MC_Texts
  MaxVals = 3
  ErrDest = "keep"
  EIdTokens <- MC_EIds
  EBlocks <- MC_EBlocks
  MaxEntities = 3
  Strict = FALSE
INVARIANTS RegTypeOK Inverse NoDupStates NoPanic Contiguous Complete MixedRadix BitsLaw DefaultLaw DefaultInTable BlockIdentity BlockLaws AcceptedInTable

CHECK_DEADLOCK FALSE
