SPECIFICATION Spec
CONSTANTS
  SecsSet = {1, 2, 24}
  BlockPos = {0, 4095}
  BiomePos = {63}
  BlockIds = {0, 1, 2, 3, 4}
  AirIds = {0, 1, 2}
  BiomeIds = {0, 5}
  BlockFills <- StdBlockFills
  BiomeFills <- StdBiomeFills
  Tokens = {2}
  YPosSet <- StdYPos
  MaxSteps = 4
  Ops = {"setblock", "fillblocks", "setbiome", "fillbiomes", "heightmap", "light", "blockentity", "status", "net", "data", "save"}
VIEW View
INVARIANTS TypeOK CountOK NetLaw DataLaw SaveLaw
CHECK_DEADLOCK FALSE
