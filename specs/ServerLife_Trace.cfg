SPECIFICATION TraceSpec
CONSTANTS
  Clients = {1, 2, 3, 4, 5, 6, 7, 8}
  K = 1
  Layer = "code"
  Broken = "none"
  Intents = {1, 2, 3}
  CfgModes = {"real", "wait"}
CONSTRAINT HWM
POSTCONDITION Report
CHECK_DEADLOCK FALSE
