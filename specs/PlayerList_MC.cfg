SPECIFICATION PSpec
CONSTANTS
  Procs = {1, 2}
  Clients = {1, 2, 3}
  MaxCap = 2
INVARIANTS NeverOverCapacity LenNeverOverCapacity
CHECK_DEADLOCK FALSE
