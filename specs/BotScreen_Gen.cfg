SPECIFICATION GenSpec
CONSTANTS
  RowLen = 9
  MaxChestType = 5
  NCraft = 5
  NArmor = 4
  NMain = 27
  NHot = 9
  Wins = {}
  Types = {}
  Items = {}
  Sids = {}
  Titles = {}
  FullContent = FALSE
  Variant = "code"
CHECK_DEADLOCK FALSE
