SPECIFICATION BSpec
CONSTANTS
  Procs = {1, 2, 3}
  MaxItems = 3
INVARIANTS InOrderOnce NothingInvented LossOnlyAfterAll
PROPERTIES Answered
CHECK_DEADLOCK FALSE
