SPECIFICATION Spec
CONSTANTS
  SecsSet = {1, 2, 24}
  BlockPos = {0, 4095}
  BiomePos = {0}
  BlockIds = {0, 1, 2, 3, 4}
  AirIds = {0, 1, 2}
  BiomeIds = {0}
  BlockFills <- CountBlockFills
  BiomeFills <- SmallBiomeFills
  Tokens = {1}
  YPosSet = {0}
  MaxSteps = 5
  Ops = {"setblock", "fillblocks"}
VIEW View
INVARIANTS TypeOK CountOK
CHECK_DEADLOCK FALSE
