SPECIFICATION TraceSpec
CONSTANTS
  MaxIds = 0
  MaxKids = 0
  ListChecked = TRUE
  SetMode = "first"
  Wide = FALSE
INVARIANTS Check
CHECK_DEADLOCK FALSE
