------------------------------ MODULE Realms_Gen ------------------------------
(* Behaviour generator for leg A of X12/Realms: the model of the code (Variant = "code"), two owned worlds, two member *)
(* worlds, one foreign and one missing world, four player names, every fault on a third of the calls; the client is   *)
(* re-made (New) and the pending flag toggled now and then.  A running hash `r` of the randomly chosen arguments      *)
(* selects the class of the next call.  It only chooses which behaviours are replayed.                                *)
EXTENDS Realms

VARIABLE r
gvars == <<vars, r>>
sel == r % 14
fsel == (r \div 14) % 3
(* the selectors of the next call follow from a running hash of the (randomly chosen) arguments of this one *)
H(p) == p.w + 3 * p.n + 5 * p.v + 11 * p.f.st + (IF p.b THEN 13 ELSE 0)
        + (CASE p.f.b = "errdoc" -> 17 [] p.f.b = "empty" -> 19 [] p.f.b = "html" -> 23 [] p.f.b = "json" -> 29 [] p.f.b = "neterr" -> 31
             [] OTHER -> (IF p.f.k = "transport" THEN 43 ELSE 0))
        + (CASE p.k = "available" -> 1 [] p.k = "compatible" -> 2 [] p.k = "worlds" -> 3 [] p.k = "server" -> 4 [] p.k = "sublife" -> 5
             [] p.k = "backups" -> 6 [] OTHER -> 0)
GDo(p) == Do(p) /\ r' = (r * 31 + H(p) + 7) % 1009
Fs == IF fsel = 0 THEN AllFaults ELSE {NoF}
GenNext ==
  \/ \E b \in BOOLEAN, v \in 1..3 : sel = 0 /\ GDo(P("new", 0, 0, b \/ fsel # 0, v, NoF))
  \/ \E w \in Owned \cup Member, b \in BOOLEAN : sel = 1 /\ GDo(P("pending", w, 0, b, 0, NoF))
  \/ \E k \in {"available", "compatible", "worlds"}, f \in Fs : sel \in {2, 3} /\ GDo(P(k, 0, 0, FALSE, 0, f))
  \/ \E f \in Fs : sel \in {4, 5} /\ GDo(P("tos", 0, 0, FALSE, 0, f))
  \/ \E w \in Worlds \cup Ghost, f \in Fs : sel \in {6, 7} /\ GDo(P("address", w, 0, FALSE, 0, f))
  \/ \E k \in {"server", "sublife"}, w \in Worlds \cup Ghost, f \in Fs : sel \in {8, 9} /\ GDo(P(k, w, 0, FALSE, 0, f))
  \/ \E k \in {"backups", "ops"}, w \in Worlds \cup Ghost, f \in Fs : sel = 10 /\ GDo(P(k, w, 0, FALSE, 0, f))
  \/ \E w \in Owned, nm \in Players, f \in Fs : sel \in {11, 12} /\ GDo(P("invite", w, nm, FALSE, 0, f))
  \/ \E w \in Worlds \cup Ghost, nm \in Players, f \in Fs : sel = 13 /\ GDo(P("invite", w, nm, FALSE, 0, f))
GenSpec == Init /\ r \in 0..1008 /\ [][GenNext]_gvars
=============================================================================
