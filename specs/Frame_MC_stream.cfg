SPECIFICATION Spec
CONSTANTS
  Thrs <- ST_Thrs
  Ids <- ST_Ids
  Sizes = {0, 63, 64, 300}
  MaxFrames = 3
  BadPlen = {}
  BadDlen = {}
  EmitJson = FALSE
INVARIANTS FIFO AllConformant RoundTrip
CHECK_DEADLOCK FALSE
