----------------------------- MODULE Tables_Gen -----------------------------
(* Vector generator for leg A of X14/Tables.  Every initial state is one vector, printed as JSON:                   *)
(*   shape  the rows TLC enumerates for a block of that shape (Enum, the writer of the embedded file) and whether    *)
(*          the zero value is inside the domains - compared with every real block of the same shape;                 *)
(*   call   a State.Block() call on a block of that shape (tag type of Properties, entries) with the result BlockOf  *)
(*          computes and the offset of the answered state inside the block (-1: not a state of the table);           *)
(*   idx    an index into the real table (GenN = len(StateList) is written into the configuration by the harness);   *)
(*   codec  a value / hostile-text class pair applied to every text codec.                                           *)
(* The shapes are shapes of real blocks (domains in table order).  This module only chooses what is replayed.        *)
EXTENDS Tables, Json

CONSTANTS GenN, GenK, GenVals, GenMaxV, GenHostile

VARIABLE g
gvars == <<vars, g>>

B == <<1, 0>>                 \* Boolean
E2 == <<0, 1>>                \* half, hinge, part ...
E3 == <<0, 1, 2>>             \* axis, slab type, attach face
E5 == <<0, 1, 2, 3, 4>>       \* stairs shape
H == <<2, 3, 4, 5>>           \* horizontal facing
F6 == <<2, 5, 3, 4, 1, 0>>    \* facing of six directions
I13 == <<1, 2, 3>>            \* cauldron level
I14 == <<1, 2, 3, 4>>         \* candles, pickles, eggs, delay
I03 == <<0, 1, 2, 3>>
X02 == <<0, 2>>               \* horizontal axis
GenShapes == { <<>>, <<B>>, <<E2>>, <<E3>>, <<H>>, <<F6>>, <<I13>>, <<X02>>, <<I03>>,
               <<E3, B>>, <<H, B>>, <<B, B>>, <<E3, H>>, <<I14, B>>, <<I14, E3>>, <<F6, B>>, <<B, F6>>, <<B, H>>,
               <<H, B, E2>>, <<E3, H, B>>, <<I14, B, B>>, <<B, B, B>>, <<H, E2, B>>, <<H, E3, B>>, <<F6, B, E2>>,
               <<H, E2, E5, B>>, <<H, B, B, B>> }

GEnts(sh) == {Ent(k, "v", v) : k \in Keys(sh), v \in GenVals} \cup {Ent(k, c, 0) : k \in Keys(sh), c \in {"bad", "ill"}}
OffOf(sh, r) == IF r.res = "ok" /\ InShape(sh, r.vals) THEN Offset(sh, r.vals) ELSE -1
CallVec(sh, pt, es) == LET r == BlockOf(TRUE, sh, pt, es) IN
  [k |-> "call", sh |-> sh, pt |-> pt, ents |-> es, res |-> r.res, vals |-> r.vals, off |-> OffOf(sh, r)]
ShapeVec(sh) == [k |-> "shape", sh |-> sh, rows |-> Enum(sh), zero |-> ZeroInShape(sh), n |-> Prod(sh)]
GenIdx == {i \in {0, 1, 2, GenN \div 2, GenN - 2, GenN - 1} : i >= 0 /\ i < GenN} \cup {(j * 7919 + 13) % GenN : j \in 1..GenK}
(* the vectors are enumerated by quantifiers, not collected into one set (TLC would sort 20,000 records) *)
GenInit == /\ RegInit
           /\ \/ \E sh \in GenShapes : g = ShapeVec(sh)
              \/ \E sh \in GenShapes : \E k \in 0..MaxEnts : \E es \in [1..k -> GEnts(sh)] : g = CallVec(sh, "compound", es)
              \/ \E sh \in GenShapes : \E pt \in {"end", "other"} : \E k \in 0..1 : \E es \in [1..k -> GEnts(sh)] : g = CallVec(sh, pt, es)
              \/ \E i \in GenIdx : g = [k |-> "idx", i |-> i]
              \/ \E v \in (-1)..GenMaxV, h \in 0..GenHostile : g = [k |-> "codec", v |-> v, h |-> h]
GenSpec == GenInit /\ [][UNCHANGED gvars]_gvars
Emit == PrintT(ToJson(g))
=============================================================================
