------------------------------ MODULE Queue_Gen ------------------------------
(* Behaviour generator for leg A of C20: Queue.tla plus a history variable    *)
(* naming the process of every step, so that TLC -simulate files can be       *)
(* turned into gate schedules for the real goroutines.                        *)
EXTENDS Queue
VARIABLE act
GenInit == Init /\ act = <<"init", 0>>
GenNext == \/ \E p \in Prod : Push(p) /\ act' = <<"push", p>>
           \/ \E c \in Cons : \/ Take(c) /\ act' = <<"take", c>>
                              \/ Wait(c) /\ act' = <<"wait", c>>
                              \/ ClosedExit(c) /\ act' = <<"exit", c>>
           \/ CloseWhenProducersDone /\ act' = <<"close", 0>>
GenSpec == GenInit /\ [][GenNext]_<<vars, act>>
=============================================================================
