SPECIFICATION TraceSpec
CONSTANTS
  Coords = {}
  Toks = {}
  NDims = 2
  Dims = {}
  Variant = "intent"
INVARIANTS Check
CHECK_DEADLOCK FALSE
