SPECIFICATION Spec
CONSTANTS
  Ids = {5}
  Keys = {}
  Pays = {}
  Uuids = {}
  RpToks = {}
  StackMax = 0
  KnownRegs = {1, 2}
  Regs = {1, 2, 3}
  RKeys = {1, 2}
  TagToks = {1}
  MaxEnt = 2
  MaxSecs = 1
  FeatLists = {}
  PackLists = {}
  DetailLists = {}
  UnknownIds = {}
  Handlers <- MC_Handlers0
  LateKinds = {"finish"}
  LateMax = 1
  Variant = "code"
VIEW View
INVARIANTS TypeOK
PROPERTIES RegistryRule
CHECK_DEADLOCK FALSE
