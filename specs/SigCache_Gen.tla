---------------------------- MODULE SigCache_Gen ----------------------------
(* Behaviour generator for leg A of X02/SigCache: the specification with Cap = 128 (the real constant),  *)
(* simulated by TLC.  Queues are built from a few shapes (length, every k-th entry a cached signature   *)
(* taken `shift` slots behind its queue position, the others fresh); fresh signatures come from a       *)
(* cyclic counter so that evicted signatures return later.  GenNext stays on hazard-free queues and     *)
(* follows the INTENT; GenAlgoNext adds the hazard shapes (the most recent signatures as lastSeen, self  *)
(* repeated in lastSeen) and follows the ALGORITHM layer.  This module only chooses which behaviours    *)
(* are replayed; it proves nothing.                                                                     *)
EXTENDS SigCache

VARIABLE tok
gvars == <<vars, tok>>
N == Cardinality(Sigs)                       \* Sigs = 1..N in the generator configurations
Cached == Range(slots) \ {Empty}
Cyc(i) == ((tok + i - 2) % N) + 1
FreshSeq(k) == SelectSeq([i \in 1..k |-> Cyc(i)], LAMBDA x : x \notin Cached)
Used == Len(Content(slots))

(* lastSeen of length <= n: entry p sits at queue position p + off; every `every`-th entry is the cached *)
(* signature `shift` slots behind that position (never in front of it), the rest is fresh                *)
Shape(off, n, every, shift) ==
  LET f == FreshSeq(n + 1)
      raw == [p \in 1..n |->
                IF every > 0 /\ p % every = 0 /\ p + off + shift <= Cap /\ slots[p + off + shift] # Empty
                THEN slots[p + off + shift]
                ELSE IF p + 1 <= Len(f) THEN f[p + 1] ELSE Empty]
  IN SelectSeq(raw, LAMBDA x : x # Empty)
SelfOf(w) == IF w = 1 /\ FreshSeq(1) # <<>> THEN FreshSeq(1)[1] ELSE Empty
Advance(n) == tok' = ((tok + n) % N) + 1

Lens == {0, 1, 3, 20, 45, 127, 130}
Mixes == {<<0, 0>>, <<2, 0>>, <<3, 5>>, <<1, 0>>, <<1, 40>>}
(* references to used slots and to ids outside the row (a reference to an empty slot is a class of its own: leg B) *)
LookupIds == {id \in {-2147483647, -2, -1, 0, 1, 2, Used \div 2, Used - 2, Used - 1, Cap - 2, Cap - 1, Cap, Cap + 1, 2147483647} :
                InCache(slots, id) \/ id < 0 \/ id >= Cap}

GenPush == \E w \in {0, 1}, n \in Lens, m \in Mixes :
             LET self == SelfOf(w)  ls == Shape(IF self = Empty THEN 0 ELSE 1, n, m[1], m[2]) IN
             /\ (nops + n + m[1]) % 3 = 0                       \* thinning (cost of one simulation step)
             /\ ~Hazard(slots, Queue(self, ls))
             /\ Push(self, ls) /\ Advance(n)
GenNext == \/ GenPush
           \/ \E id \in LookupIds : Lookup(id) /\ UNCHANGED tok
GenInit == Init /\ tok = 1
GenSpec == GenInit /\ [][GenNext]_gvars

(* hazard shapes: the m most recent signatures (slots 0..m-1) as lastSeen of a new message, in cache order *)
(* or reversed; self named again in lastSeen                                                              *)
Front(m) == SubSeq(Content(slots), 1, IF Used < m THEN Used ELSE m)
Rev(s) == [i \in 1..Len(s) |-> s[Len(s) + 1 - i]]
GenHazard == \/ \E m \in {1, 2, 5, 20}, r \in {0, 1} :
                  LET self == SelfOf(1)  ls == IF r = 0 THEN Front(m) ELSE Rev(Front(m)) IN
                  /\ Used >= 1 /\ self # Empty
                  /\ PushAlgo(self, ls) /\ Advance(1)
             \/ LET self == SelfOf(1) IN
                  /\ self # Empty /\ PushAlgo(self, <<self>> \o Shape(2, 2, 0, 0)) /\ Advance(3)
GenAlgoPush == \E w \in {0, 1}, n \in Lens \ {130, 127}, m \in Mixes :
             LET self == SelfOf(w)  ls == Shape(IF self = Empty THEN 0 ELSE 1, n, m[1], m[2]) IN
             /\ (nops + n + m[1]) % 2 # 0
             /\ PushAlgo(self, ls) /\ Advance(n)
GenAlgoNext == \/ GenHazard \/ GenAlgoPush
               \/ \E id \in LookupIds : Lookup(id) /\ UNCHANGED tok
GenAlgoSpec == GenInit /\ [][GenAlgoNext]_gvars
=============================================================================
