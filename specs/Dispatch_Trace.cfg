SPECIFICATION TraceSpec
CONSTANTS
  Handlers = {}
  PrioOf <- PrioQuick
  Ids = {}
  MaxPk = 0
  DVariant = "none"
POSTCONDITION Accepted
CHECK_DEADLOCK FALSE
