SPECIFICATION Spec
CONSTANTS
  Coords = {0, 1}
  Toks = {1, 2}
  NDims = 2
  Dims = {0, 1, 2}
  Variant = "intent"
VIEW View
INVARIANTS TypeOK LoadedExactly SecsOK Agree
PROPERTIES LoadRule ForgetRule SpawnRule
CHECK_DEADLOCK FALSE
