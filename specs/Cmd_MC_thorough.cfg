SPECIFICATION Spec
CONSTANTS
  LitNames <- MC_Names2
  ArgNames <- MC_Name1
  Parsers = {0, 1, 2}
  Handlers = {1, 2}
  OwnHandler = FALSE
  SymBreak = FALSE
  Unhandles = TRUE
  MaxNodes = 3
  MaxKids = 2
  Lines = {}
  Alphabet = {}
  LineLen = 0
  LineToks = 0
  Variant = "intent"
  WireBreak = "none"
VIEW View
INVARIANTS TypeOK WellFormed StageMatches RootOnlyLiterals RoundTrip FormsDiffer ExecComplete
PROPERTIES BuildRule
CHECK_DEADLOCK FALSE
