SPECIFICATION TraceSpec
CONSTANTS
  Menu = {}
  EmitJson = FALSE
INVARIANTS EncOK DecOK
CHECK_DEADLOCK FALSE
