----------------------------- MODULE Queue_Apa ------------------------------
\* X09: COPY of Queue.tla for Apalache.  Differences (checked by the X09 driver line by line and by TLC through
\* Queue_ApaEq.tla): one type annotation comment in front of SignalOne; the RECURSIVE operator SumPushed and the
\* invariant ExactlyOnce that uses it are left out (Apalache rejects RECURSIVE).  Nothing else differs.
(***************************************************************************)
(* net/queue.LinkedListQueue (C20): a mutex + condition variable queue.    *)
(* One action per critical section (= per hook event of the real code):    *)
(*   Push(p)      lock; append; Signal (wakes ONE arbitrary waiter); unlock*)
(*   Take(c)      lock (first entry or after wake-up); remove head; unlock *)
(*   Wait(c)      lock; queue empty and open -> cond.Wait (release+park)   *)
(*   ClosedExit(c) lock; queue empty and closed -> report closure          *)
(*   Close        lock; closed := TRUE; Broadcast; unlock                  *)
(* A parked consumer can only run again after a Signal/Broadcast moved it  *)
(* to `woken` (sync.Cond has no spurious wake-ups; a woken consumer        *)
(* re-checks the queue, so it may well go back to Wait).                   *)
(***************************************************************************)
EXTENDS Integers, Sequences, FiniteSets, TLC

CONSTANTS Prod, Cons, ItemsPer,
          SignalOnPush,   \* FALSE models the lost-wake-up bug (for the self-test of the liveness property)
          WithClose       \* TRUE: a closer closes the queue once all producers are done

VARIABLES items,      \* queue content: sequence of <<producer, k>>
          closed,
          cstate,     \* consumer -> "run" | "parked" | "woken" | "done"
          pushed,     \* producer -> number of items pushed
          delivered   \* sequence of <<consumer, <<producer, k>>>> in take order
vars == <<items, closed, cstate, pushed, delivered>>

Total == Cardinality(Prod) * ItemsPer
Parked == {c \in Cons : cstate[c] = "parked"}
CanRun(c) == cstate[c] \in {"run", "woken"}

Init == /\ items = <<>> /\ closed = FALSE
        /\ cstate = [c \in Cons |-> "run"]
        /\ pushed = [p \in Prod |-> 0]
        /\ delivered = <<>>

\* the effect of cond.Signal(): at most one parked consumer becomes runnable
\* @type: (Int -> Str) => Set(Int -> Str);
SignalOne(cs) == IF Parked = {} \/ ~SignalOnPush THEN {cs}
                 ELSE {[cs EXCEPT ![w] = "woken"] : w \in Parked}

PushItem(p, it) ==
  /\ ~closed                                   \* pushing on a closed queue panics; producers finish first
  /\ items' = Append(items, it)
  /\ cstate' \in SignalOne(cstate)
  /\ pushed' = [pushed EXCEPT ![p] = @ + 1]
  /\ UNCHANGED <<closed, delivered>>
Push(p) == pushed[p] < ItemsPer /\ PushItem(p, <<p, pushed[p] + 1>>)

Take(c) ==
  /\ CanRun(c) /\ items # <<>>
  /\ delivered' = Append(delivered, <<c, Head(items)>>)
  /\ items' = Tail(items)
  /\ cstate' = [cstate EXCEPT ![c] = "run"]
  /\ UNCHANGED <<closed, pushed>>

Wait(c) ==
  /\ CanRun(c) /\ items = <<>> /\ ~closed
  /\ cstate' = [cstate EXCEPT ![c] = "parked"]
  /\ UNCHANGED <<items, closed, pushed, delivered>>

ClosedExit(c) ==
  /\ CanRun(c) /\ items = <<>> /\ closed
  /\ cstate' = [cstate EXCEPT ![c] = "done"]
  /\ UNCHANGED <<items, closed, pushed, delivered>>

Close ==
  /\ ~closed
  /\ closed' = TRUE
  /\ cstate' = [c \in Cons |-> IF cstate[c] = "parked" THEN "woken" ELSE cstate[c]]   \* Broadcast
  /\ UNCHANGED <<items, pushed, delivered>>
CloseWhenProducersDone == WithClose /\ (\A p \in Prod : pushed[p] = ItemsPer) /\ Close

Next == \/ \E p \in Prod : Push(p)
        \/ \E c \in Cons : Take(c) \/ Wait(c) \/ ClosedExit(c)
        \/ CloseWhenProducersDone
Fairness == /\ \A p \in Prod : WF_vars(Push(p))
            /\ \A c \in Cons : WF_vars(Take(c) \/ Wait(c) \/ ClosedExit(c))
            /\ WF_vars(CloseWhenProducersDone)
Spec == Init /\ [][Next]_vars /\ Fairness

\* ---------------------------------------------------------------- properties
Delivered == {delivered[i][2] : i \in 1..Len(delivered)}
PerProducerOrder ==   \* FIFO: the global take order respects each producer's push order
  \A i, j \in 1..Len(delivered) :
     (i < j /\ delivered[i][2][1] = delivered[j][2][1]) => delivered[i][2][2] < delivered[j][2][2]
DrainBeforeClosed == \A c \in Cons : cstate[c] = "done" => (closed /\ items = <<>>)
NoParkedWithWork ==   \* a consumer is never left parked while an item is available and nobody was woken for it
  (items # <<>> /\ SignalOnPush) => (\E c \in Cons : CanRun(c)) \/ Parked = {}
\* liveness: no lost wake-up
AllDelivered == <>(Len(delivered) = Total)
AllDone      == WithClose => <>(\A c \in Cons : cstate[c] = "done")
=============================================================================
