-------------------------- MODULE ChanQueue_Trace ---------------------------
(* start/end histories of real ChannelQueue calls; TLC searches a linearization *)
EXTENDS ChanQueue, Json
Trace == ndJsonDeserialize("trace.ndjson")
VARIABLES l, cap
Ev == Trace[l]
IsEvent(k) == l <= Len(Trace) /\ Trace[l].k = k /\ l' = l + 1
TReset == IsEvent("reset") /\ buf' = <<>> /\ closed' = FALSE /\ pend' = [g \in Procs |-> NoCall] /\ cap' = Ev.cap
TStart == IsEvent("start") /\ Start(Ev.g, Ev.op, Ev.v) /\ UNCHANGED cap
TEnd == IsEvent("end") /\ End(Ev.g, Ev.ok, Ev.r) /\ UNCHANGED cap
\* Lin with the capacity of the running scenario (Cap is the configuration's upper bound)
TLin == \E g \in Procs : LinCap(g, cap) /\ UNCHANGED <<l, cap>>
TQuiesce == IsEvent("quiesce") /\ (\A g \in Procs : pend[g].op = "none") /\ Len(buf) = Ev.left /\ UNCHANGED <<cvars, cap>>
TraceInit == CInit /\ l = 1 /\ cap = 0
TraceNext == TReset \/ TStart \/ TEnd \/ TLin \/ TQuiesce
TraceSpec == TraceInit /\ [][TraceNext]_<<cvars, l, cap>>
ASSUME TLCSet(1, 0)
HWM == TLCSet(1, IF TLCGet(1) < l THEN l ELSE TLCGet(1))
Accepted == PrintT(<<"HWM", TLCGet(1), Len(Trace) + 1>>) /\ TLCGet(1) = Len(Trace) + 1
=============================================================================
