---------------------------- MODULE BotScreen_Gen ----------------------------
(* Behaviour generator for leg A of X04/BotScreen: the model of the code (Variant = "code") with the real layout   *)
(* (rows of 9, 46 inventory slots), simulated by TLC.  Window ids, types, slot indexes and content lengths are     *)
(* taken from a few interesting values (boundaries of the areas of the inventory and of chests with 1..6 rows);    *)
(* state ids come from a step counter.  This module only chooses which behaviours are replayed on the real         *)
(* manager; it proves nothing.                                                                                     *)
EXTENDS BotScreen

VARIABLE n
gvars == <<vars, n>>
GW == {0, 1, 2, 100}
GIdx == {-1, 0, 1, 8, 9, 17, 18, 26, 27, 35, 36, 40, 41, 44, 45, 46, 53, 54, 62, 63, 89, 90}
Fails == IF n % 7 = 3 THEN {FALSE, TRUE} ELSE {FALSE}
Content(len, a) == [i \in 1..len |-> IF a = 0 THEN 0 ELSE ((i * a + n) % 7)]
GDo(p) == Do(p) /\ n' = n + 1
GenNext ==
  \/ \E w \in GW, t \in {0, 1, 2, 5, 6, 20}, ti \in {1, 2}, f \in Fails : GDo(P("open", w, t, ti, 0, 0, 0, <<>>, 0, f))
  \/ \E w \in GW, c \in {0, 3, cursor}, f \in Fails : \E len \in Lens(S, w) \cup {9, 27, 46, 63, 64}, a \in {0, 1, 5} :
        GDo(P("content", w, 0, 0, n + 1, 0, 0, Content(len, a), c, f))
  \/ \E w \in GW, f \in Fails : (w # 0 \/ n % 3 = 0) /\ GDo(P("close", w, 0, 0, 0, 0, 0, <<>>, 0, f))
  \/ \E w \in GW \cup {CursorWin, PlayerInvWin}, x \in GIdx, it \in 0..5, f \in Fails : GDo(P("slot", w, 0, 0, n + 1, x, it, <<>>, 0, f))
  \/ \E w \in {0, 1, 255}, x \in {0, 5}, it \in {0, 2}, c \in {0, 3} : n % 2 = 0 /\ GDo(P("click", w, 0, 0, 0, x, it, <<>>, c, FALSE))
GenSpec == Init /\ n = 0 /\ [][GenNext]_gvars
=============================================================================
