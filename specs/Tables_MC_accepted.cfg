SPECIFICATION RegSpec
CONSTANTS
  Doms <- MC_Doms
  MaxProps = 2
  MaxBlocks = 2
  Order = "last"
  Fault = "none"
  MaxEnts = 1
  TypeMax = 2
  Intent = TRUE
  TextTokens <- MC_Texts
  MaxVals = 3
  ErrDest = "keep"
  EIdTokens <- MC_EIds
  EBlocks <- MC_EBlocks
  MaxEntities = 3
  Strict = FALSE
INVARIANTS RegTypeOK Inverse MixedRadix BlockLaws DefaultInTable AcceptedInTable

CHECK_DEADLOCK FALSE
