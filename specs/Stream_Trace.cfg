SPECIFICATION TraceSpec
CONSTANTS
  MaxTotal = 0
  EmitJson = FALSE
INVARIANTS ReadOK WriteOK
CHECK_DEADLOCK FALSE
