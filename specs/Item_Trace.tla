----------------------------- MODULE Item_Trace -----------------------------
(* Trace validation for X07/Item.  Every line is one call on the real code (level/component, bot/screen.Slot, or the   *)
(* stack codec the harness composes from the package's own pieces: pk.VarInt, component.NewComponent, the component's  *)
(* ReadFrom / WriteTo) with the bytes it produced / consumed and the projection of the Go values through their exported *)
(* fields.  Lines are independent (every line is its own initial state l); the numbers of the failed checks of a line   *)
(* are printed as <<"X2FAIL", l, {numbers}>>, number = 100 * check + index, index = the component type id the check     *)
(* blames (0..56), 97 = an NBT document consisting of the End tag, 98 = a type id outside the table, 99 = none.          *)
(*                                                                                                                       *)
(* kinds:  tbl  (registryid.DataComponentType)                fac (NewComponent(id): nil?, ID())                        *)
(*         cw   (component WriteTo)   cr (component ReadFrom of input into a fresh / used value)   crt (WriteTo ->        *)
(*         ReadFrom -> WriteTo)       sw / sr / srt (the same three for screen.Slot)                                     *)
(*         stw  (composed stack writer: header by the harness, every payload by the component's WriteTo)                 *)
(*         str  (composed stack reader: VarInts by pk.VarInt, every payload by NewComponent(type).ReadFrom)              *)
(* checks: 1 Factory     the factory knows every id of the table and nothing else, ID() is the table's name               *)
(*         2 NoPanic                                                                                                     *)
(*         3 Write       payload = EncC (767), n = its length, no error                                                  *)
(*         4 WriteAsCoded  ... or at least the form the code is known to write today (EncCAW)                            *)
(*         5 Read        a valid payload (followed by a tail) is accepted, value = DecC (767), n exact, tail left         *)
(*         6 ReadAsCoded   ... or at least consumed as LayoutAW says                                                     *)
(*         7 ReadShort   an input no reading accepts is refused                                                          *)
(*         8 RoundTrip   WriteTo -> ReadFrom -> WriteTo: everything consumed, same bytes                                 *)
(*         9 SlotWrite  10 SlotWriteAsCoded  11 SlotRead (stack without components)  12 SlotReadComponents (the whole     *)
(*         stack is consumed)  13 SlotReadAsCoded (header right; consumed = the header or the stack)  14 SlotReadShort    *)
(*         15 SlotRoundTrip  16 StackFrame (composed codec: header, removed list, total)  17 StackReadShort               *)
(*         18 Table  19 Harness (the event itself is ill-formed: an infrastructure problem, never a finding)              *)
EXTENDS Item

Trace == ndJsonDeserialize("trace.ndjson")
VARIABLE l
tvars == <<vars, l>>

K(c, i) == 100 * c + i
InTable(id) == id \in 0..(NTypes - 1)
Idx(id) == IF InTable(id) THEN id ELSE 98
EndDocTypes == {0, 27, 37, 38, 39, 43}            \* held in a dynbt.Value
Blame(id, v) == IF id \in EndDocTypes /\ v = <<0>> THEN 97 ELSE id
AwIds == {19, 40, 44}                             \* types with a modelled form as written (LayoutAW, EncCAW)
NoModel == {36}                                   \* the Go type is a block state, not the document: no model of what it takes
If(c, S) == IF c THEN S ELSE {}
MinOf(S) == CHOOSE x \in S : \A y \in S : x <= y

FTbl(ev) == If(ev.names # TypeNames, {K(18, 99)})
FFac(ev) ==
  If(ev.panicked, {K(2, Idx(ev.id))})
  \cup If(~ev.panicked /\ InTable(ev.id) /\ (ev.isnil \/ ev.name # TypeNames[ev.id + 1]), {K(1, ev.id)})
  \cup If(~ev.panicked /\ ~InTable(ev.id) /\ ~ev.isnil, {K(1, 98)})
FCw(ev) ==
  LET id == ev.id
      mod == id \in Modelled /\ ~ev.opaque          \* opaque: the Go type has no field that could hold a value
      wf == mod /\ WF(Layout(id), ev.val)
      good(e) == ev.err = FALSE /\ ev.bytes = e /\ ev.wn = Len(e)
      ok7 == good(EncC("p767", id, ev.val))
      okA == id \in NoModel \/ ~AwKnown(id, ev.val) \/ good(EncC("aswritten", id, ev.val))
  IN If(ev.panicked, {K(2, Idx(id))})
     \cup If(mod /\ ~wf, {K(19, 99)})
     \cup If(wf /\ ~ev.panicked /\ ~ok7, {K(3, Blame(id, ev.val))})
     \cup If(wf /\ ~ev.panicked /\ ~ok7 /\ ~okA, {K(4, Blame(id, ev.val))})
FCr(ev) ==
  LET id == ev.id
      mod == id \in Modelled
      d == DecC("p767", id, ev.input, 1)
      da == DecC("aswritten", id, ev.input, 1)
      good(r) == ev.ok /\ ev.rn = r.p - 1 /\ ev.left = Len(ev.input) - (r.p - 1)
      ok7 == good(d) /\ ev.cmp /\ ev.val = d.v
      okA == id \in NoModel \/ (id \in AwIds /\ ((da.ok /\ good(da)) \/ (~da.ok /\ ~ev.ok)))
      b == IF d.ok THEN Blame(id, d.v) ELSE id
      judged == mod /\ ~ev.panicked
  IN If(ev.panicked, {K(2, Idx(id))})
     \cup If(judged /\ d.ok /\ ~ok7, {K(5, b)})
     \cup If(judged /\ d.ok /\ ~ok7 /\ ~okA, {K(6, b)})
     \cup If(judged /\ ~d.ok /\ ev.ok /\ ~okA, {K(7, id)})
FCrt(ev) ==
  LET id == ev.id
      b == IF id \in Modelled /\ ~ev.opaque THEN Blame(id, ev.val) ELSE Idx(id)
  IN If(ev.panicked, {K(2, Idx(id))})
     \cup If(~ev.panicked /\ ~(ev.w1err = FALSE /\ ev.rok /\ ev.rn = Len(ev.b1) /\ ev.w2err = FALSE /\ ev.b2 = ev.b1), {K(8, b)})
FSw(ev) ==
  LET s == Stack(ev.count, IF IsPos(ev.count) THEN ev.id ELSE Z4, <<>>, <<>>)
      good(e) == ev.err = FALSE /\ ev.bytes = e /\ ev.wn = Len(e)
      ok7 == good(EncS(s))
  IN If(ev.panicked, {K(2, 99)})
     \cup If(~ev.panicked /\ ~ok7, {K(9, 99)})
     \cup If(~ev.panicked /\ ~ok7 /\ ~good(EncSlotAW([count |-> ev.count, id |-> ev.id])), {K(10, 99)})
FSr(ev) ==
  LET d == DecS(ev.input, 1)
      h == DecHeader(ev.input, 1)
      value(c, i) == ev.count = c /\ (IsPos(c) => ev.id = i)
      goodn(p) == ev.rn = p - 1 /\ ev.left = Len(ev.input) - (p - 1)
      plain == d.ok /\ d.v.add = <<>> /\ d.v.rem = <<>>
      ok7 == d.ok /\ ev.ok /\ value(d.v.count, d.v.id) /\ goodn(d.p)
  IN If(ev.panicked, {K(2, 99)})
     \cup If(~ev.panicked /\ plain /\ ~ok7, {K(11, 99)})
     \cup If(~ev.panicked /\ d.ok /\ ~plain /\ ~ok7, {K(12, 99)})
     \cup If(~ev.panicked /\ h.ok /\ ~(ev.ok /\ value(h.v[1], h.v[2]) /\ (goodn(h.p) \/ (d.ok /\ goodn(d.p)))), {K(13, 99)})
     \cup If(~ev.panicked /\ ~h.ok /\ ev.ok, {K(14, 99)})
FSrt(ev) ==
  If(ev.panicked, {K(2, 99)})
  \cup If(~ev.panicked /\ ~(ev.rok /\ ev.rn = Len(ev.b1) /\ ev.count2 = ev.count /\ (IsPos(ev.count) => ev.id2 = ev.id)), {K(15, 99)})
FStw(ev) ==
  LET s == ev.stack
      wf == WFS(s)
      n == IF Len(ev.parts) < Len(s.add) THEN Len(ev.parts) ELSE Len(s.add)
      bad7 == {i \in 1..n : ev.parts[i] # EncC("p767", s.add[i].t, s.add[i].v)}
      badA == {i \in bad7 : s.add[i].t \notin NoModel /\ AwKnown(s.add[i].t, s.add[i].v)
                             /\ ev.parts[i] # EncC("aswritten", s.add[i].t, s.add[i].v)}
      clean == ev.pant < 0 /\ ev.errt < 0
  IN If(~wf, {K(19, 99)})
     \cup If(ev.pant >= 0, {K(2, Idx(ev.pant))})
     \cup If(wf /\ ev.errt >= 0, {K(3, Idx(ev.errt))} \cup If(ev.errt \notin NoModel, {K(4, Idx(ev.errt))}))
     \cup If(wf, {K(3, Blame(s.add[i].t, s.add[i].v)) : i \in bad7})
     \cup If(wf, {K(4, Blame(s.add[i].t, s.add[i].v)) : i \in badA})
     \cup If(wf /\ clean /\ bad7 = {} /\ (ev.bytes # EncS(s) \/ ev.wn # Len(ev.bytes)), {K(16, 99)})
FStr(ev) ==
  LET d == DecS(ev.input, 1)
      clean == ev.pant < 0 /\ ev.nofac < 0
      n == IF d.ok THEN Len(d.v.add) ELSE 0
      badi == {i \in 1..n : \/ i > Len(ev.add) \/ i > Len(ev.cn)
                            \/ ev.add[i].t # d.v.add[i].t          \* (values of different types are not comparable)
                            \/ ev.add[i].v # d.v.add[i].v
                            \/ ev.cn[i] # Len(EncC("p767", d.v.add[i].t, d.v.add[i].v))}
      first == MinOf(badi)
      \* behind a component that is read in a form of its own the walk is out of step: what happens there is that
      \* component's finding (judged exactly by the cr lines), nothing is claimed about the rest of such a walk
      awSeen == \E i \in 1..Len(ev.add) : ev.add[i].t \in AwIds \cup NoModel
      frame == /\ ev.ok /\ ev.count = d.v.count /\ ev.id = d.v.id /\ Len(ev.add) = n /\ ev.rem = d.v.rem
               /\ ev.rn = d.p - 1 /\ ev.left = Len(ev.input) - (d.p - 1)
  IN If(ev.pant >= 0, {K(2, Idx(ev.pant))})
     \cup If(InTable(ev.nofac), {K(1, ev.nofac)})
     \cup If(clean /\ d.ok /\ badi # {}, {K(5, Blame(d.v.add[first].t, d.v.add[first].v))})
     \cup If(clean /\ d.ok /\ badi # {} /\ d.v.add[first].t \notin AwIds \cup NoModel, {K(6, Blame(d.v.add[first].t, d.v.add[first].v))})
     \cup If(clean /\ d.ok /\ badi = {} /\ ~frame, {K(16, 99)})
     \cup If(clean /\ ~d.ok /\ ev.ok /\ ~awSeen, {K(17, 99)})

Failed ==
  LET ev == Trace[l] IN
  CASE ev.k = "tbl" -> FTbl(ev) [] ev.k = "fac" -> FFac(ev)
    [] ev.k = "cw" -> FCw(ev) [] ev.k = "cr" -> FCr(ev) [] ev.k = "crt" -> FCrt(ev)
    [] ev.k = "sw" -> FSw(ev) [] ev.k = "sr" -> FSr(ev) [] ev.k = "srt" -> FSrt(ev)
    [] ev.k = "stw" -> FStw(ev) [] ev.k = "str" -> FStr(ev)
    [] OTHER -> {K(19, 99)}

Check == LET f == Failed IN f = {} \/ PrintT(<<"X2FAIL", l, f>>)

TraceInit == /\ l \in 1..Len(Trace)
             /\ what = "trace" /\ cid = -1 /\ cval = <<>> /\ st = EmptyStack /\ phase = 2
TraceSpec == TraceInit /\ [][UNCHANGED tvars]_tvars
=============================================================================
