----------------------------- MODULE Chat_Trace -----------------------------
(* Per-call trace validation for C17: every recorded call of the real chat     *)
(* package is judged by Chat.tla (ToNBT / FromNBT / ToJSON / FromJSON / Plain /*)
(* DecHdr) and NBT.tla (DecDoc, Same).  Lines are independent.                  *)
(* Events (every event of a kind carries all fields of that kind):             *)
(*  enc    c argkind entry fmt dup bytes n err panicked        real NBT encoder *)
(*  dec    entry fmt bytes ok n back panicked                  real NBT decoder *)
(*  rt     c argkind entry ok back panicked stage              encode -> decode *)
(*  jenc   c argkind entry jtree parsed err panicked           real JSON output *)
(*  jdec   entry jtree ok back panicked                        real JSON input  *)
(*  jrt    c argkind ok back panicked                                           *)
(*  agree  nin jin nok nback jok jback                         both forms       *)
(*  tenc   hd dup bytes n err panicked                         chat.Type writer *)
(*  tdec   bytes ok n id sender has target panicked            chat.Type reader *)
(*  trt    hd ok back panicked stage                                            *)
(*  render c argkind plain ansi ppanic apanic                                   *)
(* dup = TRUE marks a diagnostic copy of an enc / tenc event from which the     *)
(* harness removed the duplicated compound headers (0a 00 00 at an entry        *)
(* position), so that the inner encoding is judged although the header defect   *)
(* rejects the real bytes (the unmodified event is always judged as well).      *)
EXTENDS Chat
Trace == ndJsonDeserialize("trace.ndjson")
VARIABLE l
TraceInit == l \in 1..Len(Trace) /\ comp = Base /\ alt = "trace" /\ hd = NoHdr
TraceSpec == TraceInit /\ [][UNCHANGED <<vars, l>>]_<<vars, l>>
E == Trace[l]
Both(a, b) == N!Same(a, b) /\ N!Same(b, a)
BothJ(a, b) == SameJ(a, b) /\ SameJ(b, a)

\* ---------------------------------------------------------------- NBT encoder
EncDocOf == N!DecDoc(E.fmt, E.bytes)
EncTree == ExpandN(EncDocOf.tree)
EncRan == E.k = "enc" /\ E.err = FALSE /\ E.panicked = FALSE
EncNoErr == E.k = "enc" => E.panicked = FALSE /\ E.err = FALSE
\* a single well-formed value of compound type and nothing else, byte count reported
EncOneDoc == EncRan => LET d == EncDocOf IN d.ok /\ d.n = Len(E.bytes) /\ E.n = Len(E.bytes) /\ d.tree.t = 10 /\ d.name = <<>>
\* exactly the expected keys with the expected values (compound entries in any order)
EncKeys == (EncRan /\ EncDocOf.ok) => Both(EncTree, ToNBT(E.c))
\* the independent reader gets the component back from the real bytes
EncReads == (EncRan /\ EncDocOf.ok) => FromNBT(EncTree) = E.c

\* ---------------------------------------------------------------- NBT decoder
DecOK == E.k = "dec" =>
  LET d == N!DecDoc(E.fmt, E.bytes)  want == FromNBT(d.tree) IN
  /\ E.panicked = FALSE
  /\ (~d.ok /\ d.why \in {"short", "neg", "tag"}) => ~E.ok
  /\ (d.ok /\ ~IsErr(want)) => (E.ok /\ E.back = want /\ E.n = d.n)
RtOK == E.k = "rt" => E.panicked = FALSE /\ E.ok /\ E.back = E.c

\* ---------------------------------------------------------------- JSON
JEncOK == E.k = "jenc" => E.panicked = FALSE /\ E.err = FALSE /\ E.parsed /\ E.jtree.j = "o" /\ BothJ(ExpandJ(E.jtree), ToJSON(E.c))
JEncReads == (E.k = "jenc" /\ E.parsed) => FromJSON(E.jtree) = E.c
JDecOK == E.k = "jdec" => /\ E.panicked = FALSE
                          /\ ~IsErr(FromJSON(E.jtree)) => (E.ok /\ E.back = FromJSON(E.jtree))
JRtOK == E.k = "jrt" => E.panicked = FALSE /\ E.ok /\ E.back = E.c
\* both inputs denote the same component for the specification => both real decoders succeed with equal values
AgreeOK == E.k = "agree" =>
  LET d == N!DecDoc("network", E.nin)  a == FromNBT(d.tree)  b == FromJSON(E.jin) IN
  (d.ok /\ ~IsErr(a) /\ a = b) => (E.nok /\ E.jok /\ E.nback = E.jback)

\* ---------------------------------------------------------------- chat-type header
HU(x) == ExpandN(x)
TEncOK == E.k = "tenc" =>
  LET d == DecHdr(E.bytes) IN
  /\ E.panicked = FALSE /\ E.err = FALSE
  /\ d.ok /\ d.n = Len(E.bytes) /\ E.n = Len(E.bytes) /\ d.id = E.hd.id
  /\ Both(HU(d.sender), ToNBT(E.hd.sender)) /\ FromNBT(HU(d.sender)) = E.hd.sender
  /\ d.has = (E.hd.target # <<>>)
  /\ d.has => (Both(HU(d.target), ToNBT(E.hd.target[1])) /\ FromNBT(HU(d.target)) = E.hd.target[1])
TDecOK == E.k = "tdec" =>
  LET d == DecHdr(E.bytes)
      s == FromNBT(d.sender)
      t == IF d.has THEN FromNBT(d.target) ELSE Base IN
  /\ E.panicked = FALSE
  /\ (d.ok /\ ~IsErr(s) /\ ~IsErr(t)) => (E.ok /\ E.n = d.n /\ E.id = d.id /\ E.sender = s /\ E.has = d.has /\ E.target = t)
TRtOK == E.k = "trt" => E.panicked = FALSE /\ E.ok /\ E.back = E.hd

\* ---------------------------------------------------------------- rendering
Plains == {Plain(E.c, "key"), Plain(E.c, "empty")}
RenderNoPanic == E.k = "render" => E.ppanic = FALSE /\ E.apanic = FALSE
RenderPlain == (E.k = "render" /\ E.ppanic = FALSE /\ Renderable(E.c)) => E.plain \in Plains
\* the ANSI rendering with its escape sequences removed (projection) is the same text
RenderAnsi == (E.k = "render" /\ E.apanic = FALSE /\ Renderable(E.c)) => E.ansi \in Plains
\* (concatenating stripped pieces can itself spell a code, e.g. a lone section sign followed by "a": silent then)
RenderNoCode == (E.k = "render" /\ E.ppanic = FALSE /\ Renderable(E.c) /\ \A p \in Plains : NoCode(p)) => NoCode(E.plain)
=============================================================================
