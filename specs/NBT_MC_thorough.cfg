SPECIFICATION Spec
CONSTANTS
  Fmts = {"file", "network"}
  EmitJson = TRUE
  Quick = FALSE
INVARIANTS RoundTrip PrefixFree Emit
CHECK_DEADLOCK FALSE
