SPECIFICATION RegSpec
CONSTANTS
  Doms <- MC_Doms
  MaxProps = 2
  MaxBlocks = 2
  Order = "first"
  Fault = "none"
  MaxEnts = 1
  TypeMax = 2
  Intent = FALSE
  TextTokens <- MC_Texts
  MaxVals = 3
  ErrDest = "keep"
  EIdTokens <- MC_EIds
  EBlocks <- MC_EBlocks
  MaxEntities = 3
  Strict = FALSE
INVARIANTS RegTypeOK Inverse NoDupStates NoPanic Contiguous Complete MixedRadix

CHECK_DEADLOCK FALSE
