SPECIFICATION Spec
CONSTANTS
  Clients = {1, 2}
  K = 1
  Layer = "code"
  Broken = "sharedslot"
  Intents = {1, 2}
  CfgModes = {"real", "wait"}
INVARIANTS TypeOK ListBound InsideList RefusedNeverAccepted AcceptedWasChecked NoCrossTalk StatusValue StatusSampleReal NoLeak LoopAlive

CHECK_DEADLOCK FALSE
