SPECIFICATION Spec
CONSTANTS
  Senders = {1, 2}
  Sessions = {1, 2}
  MaxIdx = 2
  Bodies = {1, 2}
  Layer = "intent"
  Desc = "ge"
  SameLastOK = TRUE
  Inject = FALSE
VIEW View
INVARIANTS TypeOK
PROPERTIES AcceptSound Monotone BrokenSticky UpdateRule FirstAccepted NextAccepted InitRule
CHECK_DEADLOCK FALSE
