----------------------------- MODULE PlayerList -----------------------------
(***************************************************************************)
(* server.PlayerList (C20): a set of clients with a capacity.  Calls are   *)
(* linearised between start and end (the mutex is internal).               *)
(***************************************************************************)
EXTENDS Integers, Sequences, FiniteSets, TLC
CONSTANTS Procs, Clients, MaxCap
VARIABLES players, cap, pend
pvars == <<players, cap, pend>>
NoCall == [op |-> "none", c |-> 0, lin |-> FALSE, r |-> 0]
PInit == players = {} /\ cap \in 0..MaxCap /\ pend = [g \in Procs |-> NoCall]
Start(g, op, c) == /\ pend[g].op = "none"
                   /\ pend' = [pend EXCEPT ![g] = [op |-> op, c |-> c, lin |-> FALSE, r |-> 0]]
                   /\ UNCHANGED <<players, cap>>
\* r: join 1 = accepted, 0 = refused (SendDisconnect called); len/check: the number / 1 = room, 0 = full
Lin(g) == /\ pend[g].op # "none" /\ ~pend[g].lin
          /\ \/ /\ pend[g].op = "join"
                /\ IF Cardinality(players) >= cap
                     THEN players' = players /\ pend' = [pend EXCEPT ![g].lin = TRUE, ![g].r = 0]
                     ELSE players' = players \cup {pend[g].c} /\ pend' = [pend EXCEPT ![g].lin = TRUE, ![g].r = 1]
             \/ /\ pend[g].op = "left" /\ players' = players \ {pend[g].c}
                /\ pend' = [pend EXCEPT ![g].lin = TRUE, ![g].r = 0]
             \/ /\ pend[g].op = "len" /\ players' = players
                /\ pend' = [pend EXCEPT ![g].lin = TRUE, ![g].r = Cardinality(players)]
             \/ /\ pend[g].op = "check" /\ players' = players
                /\ pend' = [pend EXCEPT ![g].lin = TRUE, ![g].r = IF Cardinality(players) >= cap THEN 0 ELSE 1]
          /\ UNCHANGED cap
End(g, r) == /\ pend[g].op # "none" /\ pend[g].lin /\ pend[g].r = r
             /\ pend' = [pend EXCEPT ![g] = NoCall] /\ UNCHANGED <<players, cap>>
PNext == \E g \in Procs : \/ \E c \in Clients : Start(g, "join", c) \/ Start(g, "left", c)
                          \/ Start(g, "len", 0) \/ Start(g, "check", 0)
                          \/ Lin(g) \/ \E r \in 0..MaxCap : End(g, r)
PSpec == PInit /\ [][PNext]_pvars
NeverOverCapacity == Cardinality(players) <= cap
LenNeverOverCapacity == \A g \in Procs : (pend[g].op = "len" /\ pend[g].lin) => pend[g].r <= cap
=============================================================================
