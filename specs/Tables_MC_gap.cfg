SPECIFICATION RegSpec
CONSTANTS
  Doms <- MC_Doms
  MaxProps = 2
  MaxBlocks = 2
  Order = "last"
  Fault = "gap"
  MaxEnts = 1
  TypeMax = 2
  Intent = FALSE
  TextTokens <- MC_Texts
  MaxVals = 3
  ErrDest = "keep"
  EIdTokens <- MC_EIds
  EBlocks <- MC_EBlocks
  MaxEntities = 3
  Strict = FALSE
INVARIANTS RegTypeOK NoDupStates NoPanic Contiguous Complete Inverse

CHECK_DEADLOCK FALSE
