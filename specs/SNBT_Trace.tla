----------------------------- MODULE SNBT_Trace -----------------------------
\* Per-call trace validation for C04.  Every line is one recorded call of the real code:
\*  "parse": nbt.Marshal(StringifiedMessage(text)) -> err / panicked / bytes, and TagType() -> tagtype
\*  "print": document bytes doc (file format, empty root name) -> text by Unmarshal into a StringifiedMessage
\*           or by RawMessage.String(); then that text through the real parser -> back
\* TLC evaluates Parse (SNBT.tla) on the logged text and DecDoc (NBT.tla) on the logged bytes.
\* Lines are independent (each is its own initial state); invariants are split so that the violated
\* one names the kind of failure.
EXTENDS SNBT
Trace == ndJsonDeserialize("trace.ndjson")
VARIABLE l
TraceInit == l \in 1..Len(Trace) /\ doc = [t |-> 0] /\ fmt = "file" /\ text = <<>>
TraceSpec == TraceInit /\ [][UNCHANGED <<svars, l>>]_<<svars, l>>
E == Trace[l]
IsParse == E.k = "parse"
IsPrint == E.k = "print"
Eq(a, b) == Same(a, b) /\ Same(b, a)
OneDoc(b) == LET d == DecDoc("file", b) IN d.ok /\ d.n = Len(b) /\ d.name = <<>>

\* ---- text -> binary   (the invariants are mutually exclusive: the violated one names the failure kind)
PT == Parse(E.text)
Malformed == PT.st \in {"err", "short"}
ParseNoPanic == IsParse => E.panicked = FALSE
ParseTagNoPanic == (IsParse /\ ~E.panicked) => E.ttpanic = FALSE
Quiet == IsParse /\ ~E.panicked /\ ~E.err                 \* the real parser returned a nil error
\* whatever the text: a nil error comes with exactly one well-formed document (never a truncated one)
ParseTruncated == Quiet => OneDoc(E.bytes)
\* malformed text yields an error
ParseRejects == (Quiet /\ OneDoc(E.bytes)) => ~Malformed
\* a value of the listed grammar is converted
ParseAccepts == (IsParse /\ ~E.panicked /\ E.err) => PT.st # "ok"
\* ... to the document that the independent reading of the text describes
ParseTree == (Quiet /\ OneDoc(E.bytes) /\ PT.st = "ok") => Eq(DecDoc("file", E.bytes).tree, PT.tree)
\* the announced tag type is that of the reading (accepted texts), and in any case that of the document produced
ParseTagType == (Quiet /\ ~E.ttpanic /\ OneDoc(E.bytes) /\ PT.st = "ok" /\ Eq(DecDoc("file", E.bytes).tree, PT.tree)) => E.tagtype = PT.tree.t
\* an integer literal that does not fit its type: the text is rejected or the token is a string - never a wrapped value
ParseRange == (Quiet /\ OneDoc(E.bytes) /\ PT.st = "grey" /\ PT.why = "range") =>
              LET q == ParseM(E.text, "range-as-string") IN
              /\ q.st \notin {"err", "short"}
              /\ q.st = "ok" => Eq(DecDoc("file", E.bytes).tree, q.tree)
ParseTagDoc == (Quiet /\ ~E.ttpanic /\ OneDoc(E.bytes) /\ PT.st = "grey") => E.tagtype = E.bytes[1]

\* ---- binary -> text -> binary
PDoc == DecDoc("file", E.doc)
PrintTotal == IsPrint => /\ E.panicked = FALSE
                         /\ (PDoc.ok /\ PDoc.tree.t # 0) => ~E.perr
Undecided(p) == p.st = "grey" /\ p.why # "range"     \* exponent forms etc.: the property does not fix the number format
PrintFaithful == (IsPrint /\ ~E.panicked /\ ~E.perr /\ PDoc.ok) =>
                 LET p == Parse(E.text) IN Undecided(p) \/ (p.st = "ok" /\ Eq(SNorm(p.tree), SNorm(PDoc.tree)))
\* a printed text the listed grammar does not decide (e.g. an escape other than \\ and \q) must at least come back through
\* the real parser as the same value ("converting to text and parsing that text back yields the identical value")
PrintRound == (IsPrint /\ ~E.panicked /\ ~E.perr /\ PDoc.ok /\ Undecided(Parse(E.text))) =>
              /\ ~E.backpanicked /\ ~E.backerr /\ OneDoc(E.back)
              /\ Eq(SNorm(DecDoc("file", E.back).tree), SNorm(PDoc.tree))
PrintDecided == (IsPrint /\ ~E.panicked /\ ~E.perr /\ PDoc.ok) => ~Undecided(Parse(E.text))
\* the real parser reads the (faithful) text back to the same value
PrintBack == (IsPrint /\ ~E.panicked /\ ~E.perr /\ PDoc.ok) =>
             LET p == Parse(E.text) IN
             (p.st = "ok" /\ Eq(SNorm(p.tree), SNorm(PDoc.tree))) =>
                /\ ~E.backpanicked /\ ~E.backerr /\ OneDoc(E.back)
                /\ Eq(SNorm(DecDoc("file", E.back).tree), SNorm(PDoc.tree))
\* C02: the text as a carrier value: encoded and decoded again (at the root, through a pointer, in a field, map or
\* list) it is the same text; the real encoder accepts it (PrintBack / PrintRound above say what it is worth)
PrintStable == (IsPrint /\ ~E.panicked /\ ~E.perr /\ PDoc.ok) => (~E.rterr /\ E.text2 = E.text)
=============================================================================
