SPECIFICATION Spec
CONSTANTS
  Bs = {0, 1, 2, 3, 4, 5, 6, 7, 8, 9, 12, 13, 15, 16, 17, 21, 22, 31, 32}
  NSel = "small"
  ISel = "all"
  VSel = {"zero", "one", "max", "alt"}
  MaxOps = 0
  EmitJson = TRUE
INVARIANTS TypeOK ZeroWidth Layout Emit
PROPERTIES Frame RejectedIsNoop Results PanicRule
CHECK_DEADLOCK FALSE
