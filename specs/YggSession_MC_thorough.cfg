SPECIFICATION Spec
CONSTANTS
  Users = {1, 2}
  Slots = {1, 2}
  SIds = {1}
  Inject = {7}
  Garble = {8}
  MaxTok = 2
  MaxCt = 2
  FaultSet <- MC_FaultsQ
  Variant = "intent"
VIEW View
INVARIANTS TypeOK ValidUnique RevokedStays Agree
PROPERTIES ViewAgrees FailedKeeps NoSilentSuccess UnprocessedNoEffect RefreshRotates GrantRule EndRule JoinRule HasJoinedRule OneRequest
CHECK_DEADLOCK FALSE
