------------------------------ MODULE Dispatch ------------------------------
(***************************************************************************)
(* C19, second half: the bot's packet dispatch (bot/event.go Events,       *)
(* bot/ingame.go HandleGame).                                              *)
(*   registration log : AddGeneric(h, prio) / AddListener(h, id, prio)     *)
(*   Expected(id)     : generic handlers by descending priority (ties:     *)
(*                      registration order), then the handlers of that id  *)
(*                      likewise                                           *)
(*   bundles          : between two delimiter packets (id Delim) packets   *)
(*                      are collected; at the closing delimiter they are   *)
(*                      dispatched together, in order                      *)
(*   failure          : the first failing handler stops everything; its    *)
(*                      error is what HandleGame returns                   *)
(* Expected is defined constructively (selection by priority); the         *)
(* invariants below state the property declaratively and TLC checks that   *)
(* the two agree on every registration order / packet sequence.            *)
(***************************************************************************)
EXTENDS Integers, Sequences, FiniteSets, TLC

CONSTANTS Handlers,   \* handler identities (positive integers)
          PrioOf,     \* sequence / function: handler -> priority   (model checking only)
          Ids,        \* packet ids other than the delimiter
          MaxPk,      \* packets delivered (model checking only)
          DVariant    \* "none" | "ascending" | "unstable" | "specificFirst" | "earlyFlush" | "reverseBundle" | "swallow"
                      \* (defect models: each must make TLC reject DSafety - self-test of the invariants)
Delim == 0

VARIABLES regs,      \* registration log: sequence of [kind, h, id, prio]
          fail,      \* the handler that returns an error (0 = none)
          phase,     \* "reg" | "run"
          stream,    \* ids of the packets received so far
          open,      \* inside a bundle?
          pending,   \* packets collected in the open bundle: sequence of <<idx, id>>
          calls,     \* handler invocations so far: sequence of <<h, idx>>
          stopped    \* 0, or the handler whose error ended HandleGame
dvars == <<regs, fail, phase, stream, open, pending, calls, stopped>>

RegIdx == 1..Len(regs)
Generic == {i \in RegIdx : regs[i].kind = "generic"}
ForId(id) == {i \in RegIdx : regs[i].kind = "id" /\ regs[i].id = id}

\* stable descending sort of a set of registration indices, by selection
First(S) == CHOOSE i \in S : \A j \in S :
              IF DVariant = "ascending" THEN regs[j].prio > regs[i].prio \/ (regs[j].prio = regs[i].prio /\ i <= j)
              ELSE IF DVariant = "unstable" THEN regs[j].prio < regs[i].prio \/ (regs[j].prio = regs[i].prio /\ i >= j)
              ELSE regs[j].prio < regs[i].prio \/ (regs[j].prio = regs[i].prio /\ i <= j)
RECURSIVE Sorted(_)
Sorted(S) == IF S = {} THEN <<>> ELSE LET i == First(S) IN <<regs[i].h>> \o Sorted(S \ {i})
Expected(id) == IF DVariant = "specificFirst" THEN Sorted(ForId(id)) \o Sorted(Generic)
                ELSE Sorted(Generic) \o Sorted(ForId(id))
Reverse(s) == [k \in 1..Len(s) |-> s[Len(s) + 1 - k]]

RECURSIVE CallsFor(_)
CallsFor(pkts) ==      \* pkts: sequence of <<idx, id>>
  IF pkts = <<>> THEN <<>>
  ELSE LET e == Expected(Head(pkts)[2]) IN [k \in 1..Len(e) |-> <<e[k], Head(pkts)[1]>>] \o CallsFor(Tail(pkts))

FailPos(cs) == IF \E k \in 1..Len(cs) : cs[k][1] = fail /\ fail # 0
               THEN CHOOSE k \in 1..Len(cs) : cs[k][1] = fail /\ \A j \in 1..(k - 1) : cs[j][1] # fail
               ELSE 0
\* dispatch a sequence of packets: all their calls, cut after the first failing one
Run(pkts) == LET cs == CallsFor(pkts)  p == FailPos(cs) IN
             IF p = 0 \/ DVariant = "swallow" THEN calls' = calls \o cs /\ UNCHANGED stopped
                      ELSE calls' = calls \o SubSeq(cs, 1, p) /\ stopped' = fail

Register(kind, h, id, prio) ==
  /\ phase = "reg"
  /\ regs' = Append(regs, [kind |-> kind, h |-> h, id |-> id, prio |-> prio])
  /\ UNCHANGED <<fail, phase, stream, open, pending, calls, stopped>>
Start == phase = "reg" /\ phase' = "run" /\ UNCHANGED <<regs, fail, stream, open, pending, calls, stopped>>

\* HandleGame reads one packet
Deliver(id) ==
  /\ phase = "run"
  /\ stream' = Append(stream, id)
  /\ UNCHANGED <<regs, fail, phase>>
  /\ LET idx == Len(stream) + 1 IN
     IF stopped # 0 THEN UNCHANGED <<open, pending, calls, stopped>>      \* HandleGame has returned: never read
     ELSE IF id = Delim /\ ~open THEN open' = TRUE /\ pending' = <<>> /\ UNCHANGED <<calls, stopped>>
     ELSE IF id = Delim THEN open' = FALSE /\ pending' = <<>>
                             /\ Run(IF DVariant = "reverseBundle" THEN Reverse(pending) ELSE pending)
     ELSE IF open /\ DVariant # "earlyFlush" THEN pending' = Append(pending, <<idx, id>>) /\ UNCHANGED <<open, calls, stopped>>
     ELSE Run(<<<<idx, id>>>>) /\ UNCHANGED <<open, pending>>

DInit == /\ regs = <<>> /\ fail \in Handlers \cup {0} /\ phase = "reg" /\ stream = <<>>
         /\ open = FALSE /\ pending = <<>> /\ calls = <<>> /\ stopped = 0
Registered == {regs[i].h : i \in RegIdx}
DNext == \/ \E h \in Handlers \ Registered :
              \/ Register("generic", h, 0, PrioOf[h])
              \/ \E id \in Ids : Register("id", h, id, PrioOf[h])
         \/ Start
         \/ Len(stream) < MaxPk /\ stopped = 0 /\ \E id \in Ids \cup {Delim} : Deliver(id)
DSpec == DInit /\ [][DNext]_dvars

PrioQuick == <<-1, 0, 0, 5>>
PrioFive == <<-1, 0, 0, 5, 5>>

\* ------------------------------------------------------------------ the property, declaratively
RegOf(h) == CHOOSE i \in RegIdx : regs[i].h = h
Eligible(idx) == {regs[i].h : i \in Generic \cup ForId(stream[idx])}
\* packets inside a bundle that is still open: an odd number of delimiters before them, none after
NDelim(i) == Cardinality({j \in 1..i : stream[j] = Delim})
PendingIdx == {i \in 1..Len(stream) : stream[i] # Delim /\ NDelim(i) % 2 = 1 /\ NDelim(Len(stream)) = NDelim(i)}
\* packets that have been dispatched completely (not a delimiter, not waiting in an open bundle)
CallIdx == {calls[k][2] : k \in 1..Len(calls)}
Before(a, b) ==      \* handler a must run before handler b for one packet
  LET ra == regs[RegOf(a)]  rb == regs[RegOf(b)] IN
  \/ ra.kind = "generic" /\ rb.kind = "id"
  \/ ra.kind = rb.kind /\ (ra.prio > rb.prio \/ (ra.prio = rb.prio /\ RegOf(a) < RegOf(b)))

WellFormed == \A k \in 1..Len(calls) : /\ calls[k][2] \in 1..Len(stream) /\ stream[calls[k][2]] # Delim
                                       /\ calls[k][1] \in Eligible(calls[k][2])
OrderPerPacket == \A k1, k2 \in 1..Len(calls) :
                    (k1 < k2 /\ calls[k1][2] = calls[k2][2]) => Before(calls[k1][1], calls[k2][1])
PacketOrder == \A k1, k2 \in 1..Len(calls) : k1 < k2 => calls[k1][2] <= calls[k2][2]
BundleHeld == \A i \in PendingIdx : i \notin CallIdx
\* without a failure every received packet outside an open bundle has been given to every eligible handler
Complete == stopped = 0 =>
              \A i \in 1..Len(stream) : (stream[i] # Delim /\ i \notin PendingIdx) =>
                  \A h \in Eligible(i) : Cardinality({k \in 1..Len(calls) : calls[k] = <<h, i>>}) = 1
StopAtFailure == /\ stopped # 0 => /\ stopped = fail /\ calls # <<>> /\ calls[Len(calls)][1] = fail
                                   /\ \A k \in 1..(Len(calls) - 1) : calls[k][1] # fail
                 /\ stopped = 0 => \A k \in 1..Len(calls) : calls[k][1] # fail
PendingAgrees == PendingIdx = {pending[k][1] : k \in 1..Len(pending)}
DSafety == WellFormed /\ OrderPerPacket /\ PacketOrder /\ BundleHeld /\ Complete /\ StopAtFailure /\ PendingAgrees
=============================================================================
