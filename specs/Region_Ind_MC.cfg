SPECIFICATION Spec
CONSTANTS
  Chunks = {0,1,2}
  MaxNeed = 2
  MaxSector = 6
  MaxWrites = 4
  FirstFit = FALSE
  AnyOrder = FALSE
  WithCrash = FALSE
  Lens = {1}
VIEW View
INVARIANTS IndInv Safety
CHECK_DEADLOCK FALSE
