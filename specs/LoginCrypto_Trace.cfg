SPECIFICATION TraceSpec
CONSTANTS
  Alphabet = {}
  ShortMax = 0
  LongLen = 20
  EndMax = 0
  MidRuns = 2
  EmitJson = FALSE
INVARIANTS Shape Mirror DigestBot DigestSrv Uuid Sig Twos
CHECK_DEADLOCK FALSE
