SPECIFICATION GenSpec
CONSTANTS
  Senders = {1, 2}
  Sessions = {1, 2}
  MaxIdx = 40
  Bodies = {1, 2, 3}
  Layer = "code"
  Desc = "gt"
  SameLastOK = TRUE
  Inject = TRUE
CHECK_DEADLOCK FALSE
