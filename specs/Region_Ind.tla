----------------------------- MODULE Region_Ind ------------------------------
(***************************************************************************)
(* X09: an inductive invariant for the sector allocator of Region.tla      *)
(* (C14) WITHOUT crashes (WithCrash = FALSE), for an arbitrary set of      *)
(* chunks, any number of sectors, any MaxNeed / MaxWrites / Lens and both  *)
(* settings of FirstFit and AnyOrder.  Region is INSTANCEd unchanged.      *)
(*   Safety = NoOverlapMem /\ UsedExact /\ HeaderSync                      *)
(* The allocator's two properties are not inductive alone: Reopen reloads  *)
(* the in-memory header from the disk header, so IndInv also says how far  *)
(* the disk header lags behind while a write is in flight (FlOK).          *)
(***************************************************************************)
EXTENDS Integers, Sequences, FiniteSets, TLC
CONSTANTS Chunks, MaxNeed, MaxSector, MaxWrites, FirstFit, AnyOrder, WithCrash, Lens
VARIABLES memOff, memTs, memUsed, diskOff, diskTs, diskSec, model, fl, taint, nver

INSTANCE Region

OffType == [sec : Nat, cnt : Nat]
Parts == {"hoff", "hts", "len", "data"}
FlType == [c : Chunks \cup {0}, v : Nat, need : Nat, at : Nat, pend : SUBSET Parts, done : Nat, ts : Nat, len : Lens \cup {0}]
SecType == [c : Chunks \cup {-1, -2}, v : Nat, i : Int, n : Nat, lenv : Lens \cup {0}, dlen : Lens \cup {0}]

TypeOKI == /\ memOff \in [Chunks -> OffType] /\ diskOff \in [Chunks -> OffType]
           /\ memTs \in [Chunks -> Nat] /\ diskTs \in [Chunks -> Nat]
           /\ memUsed \in SUBSET Nat
           /\ diskSec \in [Sectors -> SecType]
           /\ model \in [Chunks -> Nat]
           /\ fl \in FlType
           /\ taint \in SUBSET Chunks
           /\ nver \in Nat

\* a write in flight: the memory header already names the new run; the disk header of the chunk catches up
\* with the physical header writes; every other chunk is in sync
FlOK == /\ Idle => fl = NoFl
        /\ ~Idle => /\ fl.c \in Chunks /\ fl.need >= 1 /\ fl.at >= 2
                    /\ memOff[fl.c] = [sec |-> fl.at, cnt |-> fl.need]
                    /\ fl.ts = memTs[fl.c]
                    /\ \A c \in Chunks \ {fl.c} : diskOff[c] = memOff[c] /\ diskTs[c] = memTs[c]
                    /\ "hoff" \notin fl.pend => diskOff[fl.c] = memOff[fl.c]
                    /\ "hts" \notin fl.pend => diskTs[fl.c] = memTs[fl.c]

IndInv == TypeOKI /\ FlOK /\ HeaderSync /\ NoOverlapMem /\ UsedExact
Safety == NoOverlapMem /\ UsedExact /\ HeaderSync

\* ---- self-test 1: the allocator's properties alone (what Region_MC checks) are not inductive
IndInvWeak == TypeOKI /\ NoOverlapMem /\ UsedExact

\* ---- self-test 2: an allocation that does not give the old run back first (tests the new run against ALL used
\* sectors but forgets to release the old ones)
WriteBeginMut(c, need, len) ==
  /\ Idle /\ nver < MaxWrites /\ need \in 1..MaxNeed
  /\ LET old == memOff[c] IN
     /\ ~(old.sec # 0 /\ old.cnt = need)
     /\ \E n \in Sectors :
            /\ n >= 2 /\ n + need - 1 <= MaxSector /\ FreeRun(memUsed, n, need)
            /\ memUsed' = memUsed \cup (n..(n + need - 1))
            /\ memOff' = [memOff EXCEPT ![c] = [sec |-> n, cnt |-> need]]
            /\ memTs' = [memTs EXCEPT ![c] = nver + 1]
            /\ fl' = [c |-> c, v |-> nver + 1, need |-> need, at |-> n, pend |-> {"hoff", "hts", "len", "data"}, done |-> 0, ts |-> nver + 1, len |-> len]
  /\ nver' = nver + 1
  /\ UNCHANGED <<diskOff, diskTs, diskSec, model, taint>>
NextMut == Next \/ \E c \in Chunks, need \in 1..MaxNeed, len \in Lens : WriteBeginMut(c, need, len)
=============================================================================
