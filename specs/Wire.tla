-------------------------------- MODULE Wire --------------------------------
(***************************************************************************)
(* Minecraft packet field codecs (C06, C08): a small type algebra with an  *)
(* encoder Enc(T, v) and an independently written recursive-descent        *)
(* decoder Dec(T, bytes, pos).  Fixed-width values are their big-endian    *)
(* byte pattern (TLC integers are 32-bit); VarInt/VarLong values are the   *)
(* 4/8-byte pattern of the integer, encoded in 7-bit groups; Position is   *)
(* <<x, y, z>> packed 26/26/12 (x, z, y from the high bits).               *)
(*                                                                         *)
(* Types:  [t |-> "bool"|"i8"|"u8"|"i16"|"u16"|"i32"|"i64"|"f32"|"f64"|    *)
(*               "angle"|"uuid"|"varint"|"varlong"|"str"|"bytes"|"rest"|   *)
(*               "bitset"|"pos"]                                           *)
(*         [t |-> "fixedbits", n]   [t |-> "option", e]                    *)
(*         [t |-> "opt", has, e]    [t |-> "ary", l, e]   [t |-> "tuple", es] *)
(***************************************************************************)
EXTENDS Integers, Sequences, SequencesExt, FiniteSets, TLC, Json

Width(t) == CASE t \in {"bool", "i8", "u8", "angle"} -> 1 [] t \in {"i16", "u16"} -> 2
              [] t \in {"i32", "f32"} -> 4 [] t \in {"i64", "f64"} -> 8 [] t = "uuid" -> 16
              [] t = "pos" -> 8
Fixed == {"bool", "i8", "u8", "angle", "i16", "u16", "i32", "f32", "i64", "f64", "uuid"}

\* ---------------------------------------------------------------- bits
ByteBits(x) == [i \in 1..8 |-> (x \div (2^(8-i))) % 2]                    \* MSB first
BitsMSB(bs) == FlattenSeq([k \in 1..Len(bs) |-> ByteBits(bs[k])])        \* MSB first
RECURSIVE BitsVal(_)
BitsVal(bits) == IF bits = <<>> THEN 0 ELSE 2 * BitsVal(SubSeq(bits, 1, Len(bits) - 1)) + bits[Len(bits)]
BytesOfBits(bits) == [k \in 1..(Len(bits) \div 8) |-> BitsVal(SubSeq(bits, 8*k - 7, 8*k))]
\* two's complement pattern of a small signed integer in w bits (w <= 30)
Pattern(x, w) == LET u == IF x < 0 THEN x + 2^w ELSE x IN [i \in 1..w |-> (u \div (2^(w-i))) % 2]
SignedOf(bits) == LET w == Len(bits) IN IF bits[1] = 1 THEN BitsVal(bits) - 2^w ELSE BitsVal(bits)

\* ---------------------------------------------------------------- VarInt / VarLong on byte patterns
VarGroups(bs) ==   \* 7-bit groups, least significant first, of the pattern bs (MSB-first bytes)
  LET bits == BitsMSB(bs)  nb == Len(bits)  ng == (nb + 6) \div 7 IN
  [g \in 1..ng |-> LET hi == nb - 7*(g-1)  lo == IF hi - 6 < 1 THEN 1 ELSE hi - 6 IN BitsVal(SubSeq(bits, lo, hi))]
VarEnc(bs) ==
  LET gs == VarGroups(bs)
      nz == {g \in 1..Len(gs) : gs[g] # 0}
      m == IF nz = {} THEN 1 ELSE CHOOSE g \in nz : \A h \in nz : h <= g
  IN [g \in 1..m |-> gs[g] + (IF g < m THEN 128 ELSE 0)]
\* decoder: at most maxlen bytes; returns [ok, v (pattern of nbytes bytes), p]
RECURSIVE VarDecFrom(_, _, _, _, _)
VarDecFrom(b, p, k, maxlen, acc) ==
  IF k = maxlen \/ p > Len(b) THEN [ok |-> FALSE, v |-> <<>>, p |-> p]
  ELSE IF b[p] < 128 THEN [ok |-> TRUE, v |-> Append(acc, b[p]), p |-> p + 1]
  ELSE VarDecFrom(b, p + 1, k + 1, maxlen, Append(acc, b[p] - 128))
VarDec(b, p, nbytes) ==
  LET r == VarDecFrom(b, p, 0, (8 * nbytes + 6) \div 7, <<>>) IN
  IF ~r.ok THEN r
  ELSE LET nb == 8 * nbytes
           bits == [i \in 1..nb |->       \* bit i (MSB first) of the value = bit (nb - i) counted from the LSB
                      LET j == nb - i  g == j \div 7 + 1 IN
                      IF g <= Len(r.v) THEN (r.v[g] \div (2^(j % 7))) % 2 ELSE 0]
       IN [ok |-> TRUE, v |-> BytesOfBits(bits), p |-> r.p]

\* ---------------------------------------------------------------- length prefixes (Ary)
LenWidth(l) == CASE l = "i8" -> 1 [] l = "u8" -> 1 [] l = "i16" -> 2 [] l = "u16" -> 2 [] l = "i32" -> 4 [] l = "i64" -> 8
LenSigned(l) == l \in {"i8", "i16", "i32", "i64", "varint", "varlong"}
NumBytes(k, w) == [i \in 1..w |-> IF w - i >= 3 THEN 0 ELSE (k \div (256^(w-i))) % 256]   \* 0 <= k < 2^24
EncLen(l, k) == CASE l = "varint" -> VarEnc(NumBytes(k, 4)) [] l = "varlong" -> VarEnc(NumBytes(k, 8))
                  [] OTHER -> NumBytes(k, LenWidth(l))
Huge == 16777216
\* value of a pattern as [neg, k] with k saturated at Huge
PatVal(bs, signed) ==
  LET bits == BitsMSB(bs) IN
  IF signed /\ bits[1] = 1 THEN [neg |-> TRUE, k |-> 0]
  ELSE LET hiZero == \A i \in 1..(Len(bits) - 24) : bits[i] = 0 IN
       IF Len(bits) > 24 /\ ~hiZero THEN [neg |-> FALSE, k |-> Huge]
       ELSE [neg |-> FALSE, k |-> BitsVal(SubSeq(bits, IF Len(bits) > 24 THEN Len(bits) - 23 ELSE 1, Len(bits)))]
DecLen(l, b, p) ==
  IF l \in {"varint", "varlong"}
  THEN LET r == VarDec(b, p, IF l = "varint" THEN 4 ELSE 8) IN
       IF ~r.ok THEN [ok |-> FALSE, neg |-> FALSE, k |-> 0, p |-> p]
       ELSE LET pv == PatVal(r.v, TRUE) IN [ok |-> TRUE, neg |-> pv.neg, k |-> pv.k, p |-> r.p]
  ELSE LET w == LenWidth(l) IN
       IF p + w - 1 > Len(b) THEN [ok |-> FALSE, neg |-> FALSE, k |-> 0, p |-> p]
       ELSE LET pv == PatVal(SubSeq(b, p, p + w - 1), LenSigned(l)) IN [ok |-> TRUE, neg |-> pv.neg, k |-> pv.k, p |-> p + w]

\* ---------------------------------------------------------------- Position
PosEnc(v) == BytesOfBits(Pattern(v[1], 26) \o Pattern(v[3], 26) \o Pattern(v[2], 12))
PosDec(bs) == LET bits == BitsMSB(bs) IN
              <<SignedOf(SubSeq(bits, 1, 26)), SignedOf(SubSeq(bits, 53, 64)), SignedOf(SubSeq(bits, 27, 52))>>

\* ---------------------------------------------------------------- encoder
RECURSIVE Enc(_, _)
Enc(T, v) ==
  CASE T.t \in Fixed -> v
    [] T.t = "varint" -> VarEnc(v)
    [] T.t = "varlong" -> VarEnc(v)
    [] T.t = "str" -> VarEnc(NumBytes(Len(v), 4)) \o v
    [] T.t = "bytes" -> VarEnc(NumBytes(Len(v), 4)) \o v
    [] T.t = "rest" -> v
    [] T.t = "bitset" -> VarEnc(NumBytes(Len(v), 4)) \o FlattenSeq(v)
    [] T.t = "fixedbits" -> v
    [] T.t = "pos" -> PosEnc(v)
    [] T.t = "option" -> IF v.has THEN <<1>> \o Enc(T.e, v.v) ELSE <<0>>
    [] T.t = "opt" -> IF T.has THEN Enc(T.e, v) ELSE <<>>
    [] T.t = "ary" -> EncLen(T.l, Len(v)) \o FlattenSeq([i \in 1..Len(v) |-> Enc(T.e, v[i])])
    [] T.t = "tuple" -> FlattenSeq([i \in 1..Len(v) |-> Enc(T.es[i], v[i])])

\* ---------------------------------------------------------------- decoder (independent formulation)
Err(p) == [ok |-> FALSE, v |-> <<>>, p |-> p]
Take(b, p, n) == IF p + n - 1 > Len(b) THEN Err(p) ELSE [ok |-> TRUE, v |-> SubSeq(b, p, p + n - 1), p |-> p + n]
RECURSIVE Dec(_, _, _), DecMany(_, _, _, _, _), DecTuple(_, _, _, _, _)
Dec(T, b, p) ==
  CASE T.t = "bool" -> LET r == Take(b, p, 1) IN IF r.ok THEN [r EXCEPT !.v = IF r.v[1] = 0 THEN <<0>> ELSE <<1>>] ELSE r
    [] T.t \in Fixed \ {"bool"} -> Take(b, p, Width(T.t))
    [] T.t = "varint" -> VarDec(b, p, 4)
    [] T.t = "varlong" -> VarDec(b, p, 8)
    [] T.t \in {"str", "bytes"} ->
         LET l == DecLen("varint", b, p) IN
         IF ~l.ok \/ l.neg THEN Err(p) ELSE Take(b, l.p, l.k)
    [] T.t = "rest" -> [ok |-> TRUE, v |-> SubSeq(b, p, Len(b)), p |-> Len(b) + 1]
    [] T.t = "bitset" ->
         LET l == DecLen("varint", b, p) IN
         IF ~l.ok \/ l.neg \/ l.k >= Huge THEN Err(p)
         ELSE LET r == Take(b, l.p, 8 * l.k) IN
              IF ~r.ok THEN r ELSE [r EXCEPT !.v = [i \in 1..l.k |-> SubSeq(r.v, 8*i - 7, 8*i)]]
    [] T.t = "fixedbits" -> Take(b, p, (T.n + 7) \div 8)
    [] T.t = "pos" -> LET r == Take(b, p, 8) IN IF r.ok THEN [r EXCEPT !.v = PosDec(r.v)] ELSE r
    [] T.t = "option" ->
         LET h == Take(b, p, 1) IN
         IF ~h.ok THEN h
         ELSE IF h.v[1] = 0 THEN [ok |-> TRUE, v |-> [has |-> FALSE, v |-> <<>>], p |-> h.p]
         ELSE LET r == Dec(T.e, b, h.p) IN IF r.ok THEN [r EXCEPT !.v = [has |-> TRUE, v |-> r.v]] ELSE r
    [] T.t = "opt" -> IF T.has THEN Dec(T.e, b, p) ELSE [ok |-> TRUE, v |-> <<>>, p |-> p]
    [] T.t = "ary" ->
         LET l == DecLen(T.l, b, p) IN
         IF ~l.ok \/ l.neg \/ l.k >= Huge THEN Err(p) ELSE DecMany(T.e, b, l.p, l.k, <<>>)
    [] T.t = "tuple" -> DecTuple(T.es, b, p, 1, <<>>)
    \* paletted container [t |-> "palcont", kind |-> "blocks"|"biomes", n |-> entries, rb |-> registry bits]:
    \* bits-per-entry byte, palette (single value / VarInt-prefixed VarInts / nothing), VarInt-prefixed longs whose
    \* number must be what the effective width needs for n entries.  The value is not modelled (C12 does that).
    [] T.t = "palcont" ->
         LET h == Take(b, p, 1) IN
         IF ~h.ok THEN h
         ELSE LET bits == h.v[1]
                  direct == (T.kind = "blocks" /\ bits >= 9) \/ (T.kind = "biomes" /\ bits >= 4)
                  eff == IF bits = 0 THEN 0 ELSE IF direct THEN T.rb
                         ELSE IF T.kind = "blocks" /\ bits <= 4 THEN 4 ELSE bits
                  pal == IF bits = 0 THEN VarDec(b, h.p, 4)
                         ELSE IF direct THEN [ok |-> TRUE, v |-> <<>>, p |-> h.p]
                         ELSE Dec([t |-> "ary", l |-> "varint", e |-> [t |-> "varint"]], b, h.p)
              IN IF ~pal.ok THEN Err(p)
                 ELSE LET d == Dec([t |-> "bitset"], b, pal.p)
                          vpl == IF eff = 0 THEN 1 ELSE 64 \div eff
                          want == IF eff = 0 THEN 0 ELSE (T.n + vpl - 1) \div vpl
                      IN \* a single-valued container (width 0) ignores its data array: any length is tolerated, as vanilla does
                         IF ~d.ok \/ (eff # 0 /\ Len(d.v) # want) THEN Err(p) ELSE [ok |-> TRUE, v |-> <<>>, p |-> d.p]
DecMany(E, b, p, k, acc) ==
  IF k = 0 THEN [ok |-> TRUE, v |-> acc, p |-> p]
  ELSE IF p > Len(b) /\ E.t # "opt" /\ E.t # "rest" /\ E.t # "tuple" THEN Err(p)     \* out of input: stop early
  ELSE LET r == Dec(E, b, p) IN IF ~r.ok THEN r ELSE DecMany(E, b, r.p, k - 1, Append(acc, r.v))
DecTuple(es, b, p, i, acc) ==
  IF i > Len(es) THEN [ok |-> TRUE, v |-> acc, p |-> p]
  ELSE LET r == Dec(es[i], b, p) IN IF ~r.ok THEN r ELSE DecTuple(es, b, r.p, i + 1, Append(acc, r.v))

\* ---------------------------------------------------------------- generator machine (leg A) and round-trip law
CONSTANTS Menu,       \* set of type expressions
          EmitJson
VARIABLES ty, val, bytes, dest, phase
vars == <<ty, val, bytes, dest, phase>>

B1 == {<<0>>, <<1>>, <<127>>, <<128>>, <<255>>}
Pat(w) == {[i \in 1..w |-> 0], [i \in 1..w |-> 255], [i \in 1..w |-> IF i = 1 THEN 128 ELSE 0],
           [i \in 1..w |-> IF i = 1 THEN 127 ELSE 255], [i \in 1..w |-> i], [i \in 1..w |-> IF i = w THEN 1 ELSE 0]}
VarPats(w) == Pat(w) \cup {[i \in 1..w |-> IF i = w THEN 127 ELSE 0], [i \in 1..w |-> IF i = w THEN 128 ELSE 0],
                           [i \in 1..w |-> IF i = w - 1 THEN 64 ELSE 0], [i \in 1..w |-> IF i >= w - 1 THEN 255 ELSE 0],
                           [i \in 1..w |-> IF i = 2 THEN 32 ELSE 0]}
Strs == {<<>>, <<97>>, <<0, 255, 128>>, [i \in 1..130 |-> 65 + (i % 26)]}
PosVals == {<<x, y, z>> : x \in {-33554432, 33554431, 0}, y \in {-2048, 2047, -1}, z \in {-33554432, 33554431, 1}}
             \cup {<<-1, 0, -1>>, <<1, 2, 3>>, <<-33554431, -2047, 33554430>>}
RECURSIVE Values(_)
Seqs(S) == {<<>>} \cup {<<a>> : a \in S} \cup {<<a, b>> : a, b \in S}
Rep(a, n) == [i \in 1..n |-> a]
Values(T) ==
  CASE T.t = "bool" -> {<<0>>, <<1>>}
    [] T.t \in {"i8", "u8", "angle"} -> B1
    [] T.t \in Fixed \ {"bool", "i8", "u8", "angle"} -> Pat(Width(T.t))
    [] T.t = "varint" -> VarPats(4)
    [] T.t = "varlong" -> VarPats(8)
    [] T.t \in {"str", "bytes", "rest"} -> Strs
    [] T.t = "bitset" -> {<<>>, <<Rep(255, 8)>>, <<Rep(0, 8), [i \in 1..8 |-> i]>>}
    [] T.t = "fixedbits" -> {Rep(0, (T.n + 7) \div 8), Rep(255, (T.n + 7) \div 8)}
    [] T.t = "pos" -> PosVals
    [] T.t = "option" -> {[has |-> FALSE, v |-> <<>>]} \cup {[has |-> TRUE, v |-> x] : x \in Values(T.e)}
    [] T.t = "opt" -> IF T.has THEN Values(T.e) ELSE {<<>>}
    [] T.t = "ary" -> LET S == Values(T.e) IN
                      {<<>>} \cup {<<a>> : a \in S} \cup {<<a, a, a>> : a \in S}
                      \cup (IF T.l \in {"i8"} THEN {} ELSE {Rep(CHOOSE a \in S : TRUE, 130)})
    [] T.t = "tuple" -> LET n == Len(T.es) IN     \* the k-th boundary value of every component together (bounded product)
                        {[i \in 1..n |-> LET q == SetToSeq(Values(T.es[i])) IN q[(k % Len(q)) + 1]] : k \in 0..5}

Init == /\ ty \in Menu /\ val \in Values(ty) /\ bytes = <<>> /\ dest = "none" /\ phase = "new"
Encode == /\ phase = "new" /\ bytes' = Enc(ty, val) /\ phase' = "encoded" /\ UNCHANGED <<ty, val, dest>>
\* reading into a destination that held anything before yields exactly the decoded value
ReadInto(prior) == /\ phase = "encoded" /\ dest' = prior /\ phase' = "decoded" /\ UNCHANGED <<ty, val, bytes>>
Next == Encode \/ \E prior \in {"nil", "shorter", "longer", "sparecap"} : ReadInto(prior)
Spec == Init /\ [][Next]_vars

Tail2 == <<255, 128>>
RoundTrip == phase # "new" =>
  LET r == Dec(ty, bytes \o (IF ty.t = "rest" \/ (ty.t = "tuple" /\ ty.es[Len(ty.es)].t = "rest") THEN <<>> ELSE Tail2), 1) IN
  r.ok /\ r.v = val /\ r.p = Len(bytes) + 1
PrefixFails == phase = "encoded" /\ Len(bytes) > 0 /\ ty.t \notin {"rest", "opt"} =>
  \/ ~Dec(ty, SubSeq(bytes, 1, Len(bytes) - 1), 1).ok
  \/ (ty.t = "tuple" /\ ty.es[Len(ty.es)].t \in {"rest", "opt"})
Emit == (EmitJson /\ phase = "encoded") => PrintT(ToJson([ty |-> ty, val |-> val, bytes |-> bytes]))

\* ---------------------------------------------------------------- the menu of type expressions
Sc(t) == [t |-> t]
Scalars == {Sc(t) : t \in Fixed \cup {"varint", "varlong", "str", "bytes", "rest", "bitset", "pos"}}
LenTypes == {"varint", "varlong", "i8", "u8", "i16", "u16", "i32", "i64"}
MC_Menu == Scalars
  \cup {[t |-> "fixedbits", n |-> n] : n \in {1, 8, 9, 20}}
  \cup {[t |-> "option", e |-> Sc(e)] : e \in {"varint", "str", "pos", "i64", "uuid"}}
  \cup {[t |-> "opt", has |-> h, e |-> Sc(e)] : h \in BOOLEAN, e \in {"str", "varint"}}
  \cup {[t |-> "ary", l |-> l, e |-> Sc("varint")] : l \in LenTypes}
  \cup {[t |-> "ary", l |-> l, e |-> Sc(e)] : l \in {"varint", "u8", "i16"}, e \in {"str", "pos", "bool", "i64", "uuid", "f32"}}
  \cup {[t |-> "tuple", es |-> <<Sc("bool"), Sc("varint"), Sc("str")>>],
        [t |-> "tuple", es |-> <<[t |-> "option", e |-> Sc("varint")], [t |-> "ary", l |-> "varint", e |-> Sc("i16")], Sc("pos")>>],
        [t |-> "tuple", es |-> <<[t |-> "opt", has |-> TRUE, e |-> [t |-> "ary", l |-> "i32", e |-> Sc("str")]], Sc("f64"), Sc("rest")>>],
        [t |-> "tuple", es |-> <<[t |-> "opt", has |-> FALSE, e |-> [t |-> "ary", l |-> "i32", e |-> Sc("str")]], Sc("u16")>>],
        [t |-> "tuple", es |-> <<Sc("varlong"), Sc("bytes"), Sc("bitset"), [t |-> "fixedbits", n |-> 9]>>],
        [t |-> "tuple", es |-> <<[t |-> "tuple", es |-> <<Sc("i8"), [t |-> "option", e |-> Sc("str")]>>], [t |-> "ary", l |-> "u16", e |-> Sc("pos")]>>]}
=============================================================================
