--------------------------- MODULE BotScreen_Trace ---------------------------
(* Trace validation for X04/BotScreen.  Every line is one packet handed to the handlers of a real screen.Manager   *)
(* (through bot.Client.Events) - or one ContainerClick call - together with what the user's callbacks saw (evs),   *)
(* whether the handler returned an error, and the projection of the manager AFTER it: inv = Inventory.Slots,      *)
(* screens = Screens as rows <<id, type, title, slots>> (type -1 = the entry that is &Manager.Inventory), cursor, *)
(* stateid (read from the packet a ContainerClick writes).  The state BEFORE a packet is the projection on the    *)
(* previous line, so every line is an independent initial state l; the numbers of the failed checks of a line are *)
(* printed as <<"X2FAIL", l, {checks}>>; the harness only maps them back to events.                               *)
(*                                                                                                                 *)
(* checks:  1 NoPanic  2 Fresh  3 WellFormed (the projection consists of known tokens)                             *)
(*          4 Open  5 SetContent  6 Close  7 SetSlot   (packets outside the named classes: state, callbacks and   *)
(*            error as the specification computes them; chest windows are compared modulo their player area)      *)
(*          8 ClickHeader (window id and last state id, no state change)  9 ClickSlots (ClickBody)                  *)
(*          10 InventoryAlways  11 ChestLayout   (state predicates, reported at the step that breaks them)         *)
(*          12 InventoryClosed  13 ChestPlayerArea  14 PlayerInvIndex  15 ContentCarried   (packets of a class in  *)
(*            which the code is known to part from the intent: judged against the intent)                          *)
(*          16 AsCoded (a packet of such a class that does not follow the intent must follow Step(TRUE, ..))        *)
(*          17 ClickNilCarried (ContainerClick with a nil carried slot = nothing carried: no panic)                 *)
EXTENDS BotScreen, Json

Trace == ndJsonDeserialize("trace.ndjson")
VARIABLE l
tvars == <<vars, l>>
NChecks == 17

StateOf(e) == [inv |-> e.inv,
               screens |-> [w \in {e.screens[i][1] : i \in 1..Len(e.screens)} |->
                              LET r == e.screens[CHOOSE i \in 1..Len(e.screens) : e.screens[i][1] = w] IN
                              [type |-> r[2], title |-> r[3], slots |-> r[4]]],
               cursor |-> e.cursor, sid |-> e.stateid]
PacketOf(e) == P(e.k, e.win, e.type, e.title, e.sid, e.idx, e.item, e.slots, e.carried, e.fail)
InvAlwaysOn(s) == 0 \in DOMAIN s.screens /\ s.screens[0] = InvRef /\ \A w \in DOMAIN s.screens \ {0} : s.screens[w] # InvRef
LayoutOn(s) == \A w \in DOMAIN s.screens : s.screens[w] # InvRef =>
                 Len(s.screens[w].slots) = ChestPart(s.screens[w].type) + NMain + NHot
WellFormedOn(s) == /\ Len(s.inv) = InvSize /\ \A i \in 1..Len(s.inv) : s.inv[i] >= 0
                   /\ s.cursor >= 0
                   /\ \A w \in DOMAIN s.screens : LET c == s.screens[w] IN
                        c = InvRef \/ (IsChest(c.type) /\ c.title >= 0 /\ \A i \in 1..Len(c.slots) : c.slots[i] >= 0)
FreshS == [inv |-> Blank(InvSize), screens |-> (0 :> InvRef), cursor |-> 0, sid |-> 0]

Failed ==
  LET ev     == Trace[l]
      hasPre == l > 1 /\ ev.k # "reset"
      nilClick == ev.k = "click" /\ ev.carried < 0        \* ContainerClick with a nil carried slot
      post   == StateOf(ev)
      pre    == IF hasPre THEN StateOf(Trace[l - 1]) ELSE post
      p      == PacketOf(ev)
      ok0    == hasPre /\ WellFormedOn(pre) /\ WellFormedOn(post) /\ ~ev.panicked     \* the step can be judged at all
      obs    == Res(post, ev.evs, ev.err, ev.out)
      I      == Step(FALSE, pre, p)
      C      == Step(TRUE, pre, p)
      cls    == Class(pre, p)
      okI    == NormRes(obs) = I
      okC    == obs = C
      Plain(k) == (ok0 /\ ev.k = k /\ cls = "none") => okI
      InClass(c) == (ok0 /\ cls = c) => okI
      Ok(c) ==
        CASE c = 1 -> nilClick \/ ev.panicked = FALSE
          [] c = 2 -> ev.k = "reset" => post = FreshS
          [] c = 3 -> WellFormedOn(post)
          [] c = 4 -> Plain("open")
          [] c = 5 -> Plain("content")
          [] c = 6 -> Plain("close")
          [] c = 7 -> Plain("slot")
          [] c = 8 -> (ok0 /\ ev.k = "click") => (post = pre /\ ev.out = I.out /\ ev.evs = <<>> /\ ~ev.err)
          [] c = 9 -> (ok0 /\ ev.k = "click") => ev.codec = ClickBody(p)
          [] c = 10 -> (~hasPre \/ InvAlwaysOn(pre)) => InvAlwaysOn(post)
          [] c = 11 -> (~hasPre \/ LayoutOn(pre)) => LayoutOn(post)
          [] c = 12 -> InClass("InventoryClosed")
          [] c = 13 -> InClass("ChestPlayerArea")
          [] c = 14 -> InClass("PlayerInvIndex")
          [] c = 15 -> InClass("ContentCarried")
          [] c = 16 -> (ok0 /\ cls # "none" /\ ~okI) => okC
          [] c = 17 -> nilClick => ev.panicked = FALSE
          [] OTHER -> TRUE
  IN {c \in 1..NChecks : ~Ok(c)}

Check == LET f == Failed IN f = {} \/ PrintT(<<"X2FAIL", l, f>>)

TraceInit == /\ l \in 1..Len(Trace)
             /\ inv = <<>> /\ screens = <<>> /\ cursor = 0 /\ sid = 0 /\ act = 0
TraceSpec == TraceInit /\ [][UNCHANGED tvars]_tvars
=============================================================================
