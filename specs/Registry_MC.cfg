SPECIFICATION Spec
CONSTANTS
  Keys = {1, 2}
  Vals = {1, 2}
  Tags = {1}
  MaxN = 3
  MaxMsg = 2
  MaxOps = 0
VIEW View
INVARIANTS TypeOK KeysValid LastPutWins KeysInjective TagsValid StaleMeansDuplicate RoundTrip
PROPERTIES PutRule ReadOnly ClearRule
CHECK_DEADLOCK FALSE
