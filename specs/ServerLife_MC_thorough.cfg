SPECIFICATION Spec
CONSTANTS
  Clients = {1, 2, 3, 4}
  K = 2
  Layer = "intent"
  Broken = "none"
  Intents = {1, 2}
  CfgModes = {"real"}
INVARIANTS Common IntentOnly

CHECK_DEADLOCK FALSE
