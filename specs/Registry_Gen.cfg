SPECIFICATION GenSpec
CONSTANTS
  Keys = {1, 2, 3, 4, 5, 6}
  Vals = {1, 2, 3, 4, 5}
  Tags = {1, 2, 3}
  MaxN = 14
  MaxMsg = 8
  MaxOps = 1000000
INVARIANTS TypeOK KeysValid TagsValid
CHECK_DEADLOCK FALSE
