-------------------------------- MODULE CFB8 --------------------------------
(***************************************************************************)
(* CFB8 (8-bit cipher feedback) as used by the Minecraft protocol (C10).   *)
(*                                                                         *)
(* State of a stream: the shift register `reg` = the last BS ciphertext    *)
(* bytes (initially the IV) and the direction.  One byte:                  *)
(*     ks  = E(reg)[1]          first byte of the encrypted register       *)
(*     out = src XOR ks                                                    *)
(*     c   = out (encrypting) / src (decrypting)      the ciphertext byte  *)
(*     reg' = Tail(reg) \o <<c>>                                           *)
(* A call XORKeyStream(dst, src) performs that for every byte of src.      *)
(* The result depends neither on how a message is cut into calls nor on    *)
(* where dst lies (in place, disjoint, longer than src).                   *)
(*                                                                         *)
(* The block function is a parameter of CallWith (an operator giving the   *)
(* keystream byte for a register): the model-checking configuration uses   *)
(* the toy cipher E below (defined identically in the Go harness), trace   *)
(* validation uses the (register, AES(register)[0]) pairs logged by the    *)
(* harness, so AES itself is trusted input and TLC judges the mode.        *)
(***************************************************************************)
EXTENDS Integers, Sequences, SequencesExt, Bitwise, TLC, Json

CONSTANTS BS,        \* block size of the block function
          Keys,      \* toy keys
          IVs,       \* set of initial registers (BS bytes each)
          Msgs,      \* set of message streams the generator cuts its calls from
          Lens,      \* call lengths
          MaxCalls,
          EmitJson

\* ---------------------------------------------------------------- toy block function (also in c10.go: cfbToy)
\* E_k(b)[j] = (sum_i (i+j+1)*b[i] + 7j + 5 + k*(2j+1)) mod 256   for 0-based i, j
SumTo(f(_), n) == LET RECURSIVE S(_)
                      S(i) == IF i = 0 THEN 0 ELSE f(i) + S(i - 1)
                  IN S(n)
E(k, b) == [j \in 1..BS |-> (SumTo(LAMBDA i : (i + j - 1) * b[i], BS) + 7 * (j - 1) + 5 + k * (2 * j - 1)) % 256]

\* ---------------------------------------------------------------- the mode
StepByte(d, reg, s, ks) ==
  LET o == s ^^ ks IN [o |-> o, reg |-> Tail(reg) \o << IF d = "enc" THEN o ELSE s >>]

\* one call; KS(i, reg) is the keystream byte for the i-th byte of the call when the register is reg.
\* returns the new register, the output and the register seen by every byte.
CallWith(KS(_, _), d, reg0, src) ==
  FoldLeft(LAMBDA acc, i :
             LET st == StepByte(d, acc.reg, src[i], KS(i, acc.reg)) IN
             [reg |-> st.reg, out |-> Append(acc.out, st.o), regs |-> Append(acc.regs, acc.reg)],
           [reg |-> reg0, out |-> <<>>, regs |-> <<>>],
           [i \in 1..Len(src) |-> i])

ToyCall(k, d, reg0, src) == CallWith(LAMBDA i, r : E(k, r)[1], d, reg0, src)

\* ---------------------------------------------------------------- reference: the definition over whole messages
\* (window = last BS bytes of IV \o ciphertext so far; no shift register, no calls)
LastN(s, n) == SubSeq(s, Len(s) - n + 1, Len(s))
RECURSIVE EncRef(_, _, _, _)
EncRef(k, iv, m, i) ==       \* ciphertext of the first i bytes of m
  IF i = 0 THEN <<>>
  ELSE LET c == EncRef(k, iv, m, i - 1) IN Append(c, m[i] ^^ E(k, LastN(iv \o c, BS))[1])
WholeEnc(k, iv, m) == EncRef(k, iv, m, Len(m))
WholeDec(k, iv, c) == [i \in 1..Len(c) |-> c[i] ^^ E(k, LastN(iv \o SubSeq(c, 1, i - 1), BS))[1]]
Whole(d, k, iv, m) == IF d = "enc" THEN WholeEnc(k, iv, m) ELSE WholeDec(k, iv, m)

\* ---------------------------------------------------------------- generator state machine
VARIABLES dir, key, iv, msg, reg, pos, calls
vars == <<dir, key, iv, msg, reg, pos, calls>>

Init == /\ dir \in {"enc", "dec"} /\ key \in Keys /\ iv \in IVs /\ msg \in Msgs
        /\ reg = iv /\ pos = 0 /\ calls = <<>>

Call(n) ==
  /\ Len(calls) < MaxCalls /\ pos + n <= Len(msg)
  /\ LET src == SubSeq(msg, pos + 1, pos + n)
         r == ToyCall(key, dir, reg, src) IN
       /\ reg' = r.reg
       /\ calls' = Append(calls, [src |-> src, out |-> r.out])
  /\ pos' = pos + n
  /\ UNCHANGED <<dir, key, iv, msg>>

Next == \E n \in Lens : Call(n)
Spec == Init /\ [][Next]_vars

\* ---------------------------------------------------------------- properties
IsByteSeq(s) == \A i \in 1..Len(s) : s[i] \in 0..255
TypeOK == Len(reg) = BS /\ IsByteSeq(reg) /\ \A i \in 1..Len(calls) : IsByteSeq(calls[i].out)
AllOut == FlattenSeq([i \in 1..Len(calls) |-> calls[i].out])
Fed == SubSeq(msg, 1, pos)
\* however the message was cut into calls, the concatenated output is the one-call / whole-message result
SplitInvariance == /\ AllOut = Whole(dir, key, iv, Fed)
                   /\ AllOut = ToyCall(key, dir, iv, Fed).out
\* the register is the window of the definition
RegIsWindow == reg = LastN(iv \o (IF dir = "enc" THEN AllOut ELSE Fed), BS)
\* decrypting an encryption (and encrypting a decryption) returns the message
RoundTrip == /\ WholeDec(key, iv, WholeEnc(key, iv, Fed)) = Fed
             /\ WholeEnc(key, iv, WholeDec(key, iv, Fed)) = Fed
             /\ ToyCall(key, IF dir = "enc" THEN "dec" ELSE "enc", iv, AllOut).out = Fed

Emit == (EmitJson /\ (Len(calls) = MaxCalls \/ pos = Len(msg)) /\ calls # <<>>) =>
          PrintT(ToJson([bs |-> BS, dir |-> dir, key |-> key, iv |-> iv, calls |-> calls]))

\* ---------------------------------------------------------------- model values
MCMsg(a, b, n) == [i \in 1..n |-> (a * i * i + b * i + (i \div 5) * 131) % 256]
MCMsgs == {MCMsg(37, 11, 4 * (2 * BS + 2)), [i \in 1..(4 * (2 * BS + 2)) |-> IF i % 3 = 0 THEN 255 ELSE 0]}
MCIVs  == {[i \in 1..BS |-> (i * 83 + 7) % 256], [i \in 1..BS |-> 0]}
MCLens == 0..(2 * BS + 2)
MCMsgs1 == {MCMsg(37, 11, 4 * (2 * BS + 2))}
MCIVs1  == {[i \in 1..BS |-> (i * 83 + 7) % 256]}
MCMsgs5 == {MCMsg(37, 11, 5 * (2 * BS + 2))}
=============================================================================
