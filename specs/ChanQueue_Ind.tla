--------------------------- MODULE ChanQueue_Ind ----------------------------
(***************************************************************************)
(* X09: an inductive invariant for ChanQueue.tla (C20), for arbitrary      *)
(* Procs, Values, Cap.  ChanQueue is INSTANCEd unchanged.  Its state has   *)
(* no memory of what was pushed and delivered, so the statement "every     *)
(* pushed element is delivered at most once and in FIFO order, nothing is  *)
(* delivered that was not pushed, nothing is accepted after Close" needs   *)
(* history variables; they are written from the INTERFACE of the calls     *)
(* (argument of an accepted Push, result of a successful Pull) and never   *)
(* read by CNext:                                                          *)
(*   hpush  the values of all accepted pushes, in linearization order      *)
(*   hpull  the values handed out by all successful pulls, in order        *)
(*   hcl    Len(hpush) at the moment Close took effect (-1: still open)    *)
(* The core of IndInv is  hpush = hpull \o buf.                            *)
(* IndInvWeak / HNextMut: the self-tests (see PlayerList_Ind).             *)
(***************************************************************************)
EXTENDS Integers, Sequences, FiniteSets, TLC
CONSTANTS
  \* @type: Set(Int);
  Procs,
  \* @type: Int;
  Cap,
  \* @type: Set(Int);
  Values
VARIABLES
  \* @type: Seq(Int);
  buf,
  \* @type: Bool;
  closed,
  \* @type: Int -> {op: Str, v: Int, lin: Bool, ok: Bool, r: Int};
  pend,
  \* @type: Seq(Int);
  hpush,
  \* @type: Seq(Int);
  hpull,
  \* @type: Int;
  hcl
hvars == <<buf, closed, pend, hpush, hpull, hcl>>

INSTANCE ChanQueue

HInit == CInit /\ hpush = <<>> /\ hpull = <<>> /\ hcl = -1

\* the history of one step of goroutine g, read off the call record before and after
Hist(g) ==
  /\ hpush' = IF pend[g].op = "push" /\ ~pend[g].lin /\ pend'[g].lin /\ pend'[g].ok
                THEN Append(hpush, pend[g].v) ELSE hpush
  /\ hpull' = IF pend[g].op = "pull" /\ ~pend[g].lin /\ pend'[g].lin /\ pend'[g].ok
                THEN Append(hpull, pend'[g].r) ELSE hpull
  /\ hcl'   = IF pend[g].op = "close" /\ ~pend[g].lin /\ pend'[g].lin THEN Len(hpush) ELSE hcl

Step(g) == \/ \E v \in Values : Start(g, "push", v)
           \/ Start(g, "pull", 0) \/ Start(g, "close", 0)
           \/ Lin(g)
           \/ \E ok \in BOOLEAN, r \in Values \cup {0} : End(g, ok, r)
\* CNext == \E g \in Procs : Step(g)   (checked by TLC: StepIsCNext)
HNext == \E g \in Procs : Step(g) /\ Hist(g)
HSpec == HInit /\ [][HNext]_hvars
StepIsCNext == [][CNext <=> \E g \in Procs : Step(g)]_cvars

Ops == {"none", "push", "pull", "close"}
\* Apalache rejects `s \in Seq(Values)` (even as a test): the element type is stated index by index, and "is a
\* sequence" - which Apalache knows from the type annotation of the variable - is the separate conjunct SeqTyped that only TLC and
\* TLAPS read (IndInvT).
\* @type: Seq(Int) => Bool;
ElemOK(s) == \A i \in DOMAIN s : s[i] \in Values      \* (DOMAIN s, not 1..Len(s): Apalache wants constant ranges)
SeqTyped == buf \in Seq(Values) /\ hpush \in Seq(Values) /\ hpull \in Seq(Values)
TypeOK == /\ ElemOK(buf) /\ ElemOK(hpush) /\ ElemOK(hpull)
          /\ closed \in BOOLEAN /\ hcl \in Int
          /\ DOMAIN pend = Procs
          /\ \A g \in Procs :
                /\ pend[g] = [op |-> pend[g].op, v |-> pend[g].v, lin |-> pend[g].lin, ok |-> pend[g].ok, r |-> pend[g].r]
                /\ pend[g].op \in Ops /\ pend[g].v \in Values \cup {0} /\ pend[g].r \in Values \cup {0}
                /\ pend[g].lin \in BOOLEAN /\ pend[g].ok \in BOOLEAN
                /\ pend[g].op = "push" => pend[g].v \in Values

Conserved == hpush = hpull \o buf
ClosedFrozen == /\ closed => hcl = Len(hpush)
                /\ ~closed => hcl = -1

IndInv == TypeOK /\ Bounded /\ Conserved /\ ClosedFrozen
IndInvT == IndInv /\ SeqTyped

\* what C20 says about the model
\* @type: (Seq(Int), Seq(Int)) => Bool;
IsPrefix(s, t) == Len(s) <= Len(t) /\ \A i \in DOMAIN s : s[i] = t[i]
Safety == /\ Bounded
          /\ IsPrefix(hpull, hpush)          \* the k-th delivered value is the k-th accepted one: FIFO, at most once, none invented
          /\ closed => hcl = Len(hpush)      \* no push is accepted after Close took effect

\* ---- self-test 1: the conservation law replaced by its consequence (the prefix property alone is not inductive)
IndInvWeak == TypeOK /\ Bounded /\ IsPrefix(hpull, hpush) /\ ClosedFrozen

\* ---- self-test 2: a Pull that hands out the head without removing it
LinMut(g) == /\ pend[g].op = "pull" /\ ~pend[g].lin /\ buf # <<>>
             /\ pend' = [pend EXCEPT ![g].lin = TRUE, ![g].ok = TRUE, ![g].r = Head(buf)]
             /\ UNCHANGED <<buf, closed>>
\* TLC only: the histories grow without bound
HistBound == Len(hpush) <= 3
HNextMut == HNext \/ \E g \in Procs : LinMut(g) /\ Hist(g)
=============================================================================
