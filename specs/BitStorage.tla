----------------------------- MODULE BitStorage -----------------------------
(***************************************************************************)
(* C11: level.BitStorage is an array of n unsigned b-bit integers in the   *)
(* Minecraft >= 1.16 packing.                                              *)
(*                                                                         *)
(* Abstract state: the array.  It is kept as the function `arr` on its     *)
(* non-zero support (At(i) = 0 elsewhere), so that the same module serves  *)
(* the exhaustive small configurations and n = 4096 in trace validation.   *)
(* `act` is a history variable: the last call with the result the          *)
(* specification prescribes (it is what the replay leg compares).          *)
(***************************************************************************)
EXTENDS BitPack, TLC, Json

CONSTANTS Bs,        \* widths the generator starts from
          NSel,      \* which lengths the generator tries for a width (see NsOf)
          ISel,      \* which indices the generator uses (see IdxOf)
          VSel,      \* which in-range value classes the generator uses
          MaxOps,    \* bound on the number of calls of one behaviour (0: unbounded)
          EmitJson   \* TRUE: print one JSON vector per state (replay leg)

VARIABLES b, n, arr, act, nops
vars == <<b, n, arr, act, nops>>

AtIn(a, i) == IF i \in DOMAIN a THEN a[i] ELSE Zero
At(i) == AtIn(arr, i)
Put(a, i, v) == IF v = Zero THEN [j \in DOMAIN a \ {i} |-> a[j]]
                ELSE [j \in DOMAIN a \cup {i} |-> IF j = i THEN v ELSE a[j]]
InIdx(i) == i >= 0 /\ i <= n - 1
NLongs == CalcSize(b, n)

\* ---------------------------------------------------------------- the raw longs (projection)
(* long c as the tuple of its slots; slots past the end of the array and the padding are zero *)
RawLong(c) == [k \in 1..VPL(b) |-> At(c * VPL(b) + k - 1)]
TouchedLongs == {LongOf(b, i) : i \in DOMAIN arr}
(* reading the slots back gives the array: the layout is a bijection between indices and (long, slot) *)
Unpack(i) == RawLong(LongOf(b, i))[SlotOf(b, i) + 1]

\* ---------------------------------------------------------------- calls
Act(op, i, v, ret, old, panic, aux) == [op |-> op, i |-> i, v |-> v, ret |-> ret, old |-> old, panic |-> panic, aux |-> aux]
Count == IF MaxOps = 0 THEN nops' = 0 ELSE nops < MaxOps /\ nops' = nops + 1

Set(i, v) ==
  /\ b >= 1 /\ InIdx(i) /\ InRange(b, v) /\ Count
  /\ arr' = Put(arr, i, v)
  /\ act' = Act("set", i, v, Zero, At(i), "no", 0)
  /\ UNCHANGED <<b, n>>

Swap(i, v) ==
  /\ b >= 1 /\ InIdx(i) /\ InRange(b, v) /\ Count
  /\ arr' = Put(arr, i, v)
  /\ act' = Act("swap", i, v, At(i), At(i), "no", 0)
  /\ UNCHANGED <<b, n>>

Get(i) ==
  /\ b >= 1 /\ InIdx(i) /\ Count
  /\ act' = Act("get", i, Zero, At(i), At(i), "no", 0)
  /\ UNCHANGED <<b, n, arr>>

(* b = 1..32: an out-of-range index or value panics and nothing is modified *)
BadIndex(op, i, v) ==
  /\ b >= 1 /\ ~InIdx(i) /\ op \in {"set", "swap", "get"} /\ Count
  /\ act' = Act(op, i, v, Zero, Zero, "yes", 0)
  /\ UNCHANGED <<b, n, arr>>

BadValue(op, i, v) ==
  /\ b >= 1 /\ ~InRange(b, v) /\ op \in {"set", "swap"} /\ Count
  /\ act' = Act(op, i, v, Zero, Zero, "yes", 0)
  /\ UNCHANGED <<b, n, arr>>

(* b = 0: every Get is 0, nothing can be stored; whether odd arguments panic is not specified *)
ZeroBits(op, i, v) ==
  /\ b = 0 /\ op \in {"set", "swap", "get"} /\ Count
  /\ act' = Act(op, i, v, Zero, Zero, IF InIdx(i) /\ v = Zero THEN "no" ELSE "any", 0)
  /\ UNCHANGED <<b, n, arr>>

(* the constructor takes the raw longs back: same array *)
Renew ==
  /\ Count
  /\ act' = Act("renew", 0, Zero, Zero, Zero, "no", NLongs)
  /\ UNCHANGED <<b, n, arr>>

(* ... and refuses any other number of longs *)
NewWrong(given) ==
  /\ b >= 1 /\ given >= 0 /\ given # NLongs /\ Count
  /\ act' = Act("newwrong", 0, Zero, Zero, Zero, "yes", given)
  /\ UNCHANGED <<b, n, arr>>

(* WriteTo, ReadFrom into another storage of the same length, Fix(b): same array, same bytes consumed *)
Wire(tb) ==
  /\ Count
  /\ act' = Act("wire", 0, Zero, Zero, Zero, "no", tb)
  /\ UNCHANGED <<b, n, arr>>

(* Fix with a width whose size rule does not fit the longs at hand is an error *)
FixWrong(b2) ==
  /\ b2 >= 1 /\ CalcSize(b2, n) # NLongs /\ Count
  /\ act' = Act("fixwrong", 0, Zero, Zero, Zero, "no", b2)
  /\ UNCHANGED <<b, n, arr>>

\* ---------------------------------------------------------------- generator shape
InVals(bb) == LET all == [zero |-> Zero, one |-> <<0, 0, 0, 1>>, max |-> MaxVal(bb), half |-> Pow2(bb - 1), alt |-> AltVal(bb)]
              IN {all[c] : c \in VSel}
OutVals(bb) == {Pow2(bb),                                   \* 2^b
                [Pow2(bb) EXCEPT ![4] = @ + 1],             \* 2^b + 1 (a masking store would keep 1)
                <<65535, 65535, 65535, 65535>>,             \* -1
                <<0, 1, 0, 1>>} \ {v \in {<<0, 1, 0, 1>>} : bb = 0}   \* 2^32 + 1 (a 32-bit truncation would keep 1)
NsOf(bb) == LET v == VPL(bb) IN
            IF NSel = "small" THEN {0, 1, 2, 3} \cup {k \in {v + 1} : v \in 1..4}
            ELSE IF NSel = "edge" THEN {k \in {v - 1, v, v + 1, 2 * v, 2 * v + 1, 130} : k >= 0} \cup {k \in {3} : bb = 0}
            ELSE {k \in {v - 1, v, v + 1, 2 * v, 2 * v + 1, 130, 256, 4096} : k >= 0} \cup {k \in {3} : bb = 0}
IdxOf == LET v == VPL(b) IN
         IF ISel = "all" THEN (-1)..n
         ELSE {-1, 0, v - 1, v, n - 1, n} \cup (IF ISel = "wide" THEN {1, v + 1, 2 * v - 1, 2 * v, n - 2, n + 1, -2147483647, 2147483647} ELSE {})

Init == /\ b \in Bs /\ n \in NsOf(b)
        /\ arr = <<>> /\ nops = 0
        /\ act = Act("new", 0, Zero, Zero, Zero, "no", -1)

Next == \/ \E i \in IdxOf, v \in InVals(b) : Set(i, v) \/ Swap(i, v)
        \/ \E i \in IdxOf : Get(i)
        \/ \E op \in {"set", "swap", "get"}, i \in IdxOf : BadIndex(op, i, IF op = "get" THEN Zero ELSE MaxVal(b))
        \/ \E op \in {"set", "swap"}, i \in IdxOf, v \in OutVals(b) : BadValue(op, i, v)
        \/ \E op \in {"set", "swap", "get"}, i \in IdxOf, v \in {Zero, <<0, 0, 0, 1>>} : ZeroBits(op, i, IF op = "get" THEN Zero ELSE v)
        \/ Renew
        \/ \E d \in {-1, 1} : NewWrong(NLongs + d)
        \/ \E tb \in {0, b, 32} : Wire(tb)
        \/ \E b2 \in {1, b + 1, 32} : FixWrong(b2)
Spec == Init /\ [][Next]_vars

\* ---------------------------------------------------------------- properties
TypeOK == /\ b \in 0..32 /\ n >= 0
          /\ \A i \in DOMAIN arr : InIdx(i) /\ IsLimbs(arr[i]) /\ InRange(b, arr[i]) /\ arr[i] # Zero
ZeroWidth == b = 0 => arr = <<>>
Layout == /\ PackingOK(b, n)
          /\ \A i \in DOMAIN arr : Unpack(i) = arr[i] /\ LongOf(b, i) \in 0..(NLongs - 1) /\ SlotOf(b, i) \in 0..(VPL(b) - 1)
          /\ \A c \in TouchedLongs : \A k \in 1..VPL(b) :
               c * VPL(b) + k - 1 >= n => RawLong(c)[k] = Zero          \* unused tail slots stay zero
(* frame condition: a call changes at most the index it names *)
Frame == [][\A j \in DOMAIN arr \cup DOMAIN arr' : j # act'.i => AtIn(arr', j) = At(j)]_vars
RejectedIsNoop == [][act'.panic # "no" => arr' = arr]_vars
Results == [][/\ (act'.op = "get" /\ act'.panic = "no") => (act'.ret = At(act'.i) /\ arr' = arr)
              /\ (act'.op = "swap" /\ act'.panic = "no") => (act'.ret = At(act'.i) /\ AtIn(arr', act'.i) = act'.v)
              /\ (act'.op = "set" /\ act'.panic = "no") => AtIn(arr', act'.i) = act'.v
              /\ act'.op \in {"renew", "newwrong", "wire", "fixwrong"} => arr' = arr]_vars
PanicRule == [][act'.op \in {"set", "swap", "get"} /\ b >= 1 =>
                 ((act'.panic = "yes") <=> (~InIdx(act'.i) \/ (act'.op # "get" /\ ~InRange(b, act'.v))))]_vars

(* the size rule on the whole range the property quantifies over *)
SizeRule == \A bb \in 0..32 : \A nn \in (0..130) \cup {256, 4096} : PackingOK(bb, nn)
ASSUME SizeRule

Emit == EmitJson => PrintT(ToJson([b |-> b, n |-> n, nl |-> NLongs, vpl |-> VPL(b), step |-> nops, act |-> act,
                                    arr |-> {<<i, arr[i]>> : i \in DOMAIN arr},
                                    raw |-> {<<c, RawLong(c)>> : c \in TouchedLongs}]))
=============================================================================
