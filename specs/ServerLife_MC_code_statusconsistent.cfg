SPECIFICATION Spec
CONSTANTS
  Clients = {1, 2}
  K = 1
  Layer = "code"
  Broken = "none"
  Intents = {1, 2}
  CfgModes = {"real"}
INVARIANTS StatusConsistent

CHECK_DEADLOCK FALSE
