----------------------------- MODULE Palette_Gen -----------------------------
(* Behaviour generator for leg A of C12: the Palette specification on containers of the real lengths  *)
(* (4096 block states / 64 biomes), started just below every palette-upgrade threshold, simulated by  *)
(* TLC.  Containers built from save data are thinned (they reset the history).  This module only      *)
(* chooses which behaviours are replayed; it proves nothing.                                          *)
EXTENDS Palette
TargetSeq == <<"fresh", "one", "few", "many", "huge">>
GenNext == \/ \E p \in {0, k0}, v \in GenIds : Set(p, v)
           \/ \E p \in {k0 + 1, len - 1}, v \in GenIds : Set(p, v)
           \/ \E p \in {0, len - 1} : Get(p)
           \/ Wire(TargetSeq[((Cardinality(DOMAIN arr) + act.p + act.v) % 5) + 1])
           \/ \E L \in {x \in SaveLens(kind) : x % 3 = Cardinality(DOMAIN arr) % 3} :
                /\ act.op = "get"
                /\ FromSave([j \in 1..L |-> PalBase(kind) + j], [q \in 1..len |-> IF q - 1 < 2 * L THEN (q - 1) % L ELSE 0])
GenSpec == Init /\ [][GenNext]_vars
=============================================================================
