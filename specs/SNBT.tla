-------------------------------- MODULE SNBT --------------------------------
(***************************************************************************)
(* C04: stringified NBT.  An independent recursive-descent reader of the   *)
(* SNBT grammar as listed in the property, over sequences of character     *)
(* codes, producing the node records of NBT.tla:                           *)
(*   value    ::= compound | list | array | quoted | token                 *)
(*   compound ::= '{' [ key ':' value { ',' key ':' value } ] '}'          *)
(*   key      ::= quoted | token          (a token key is its own text)    *)
(*   list     ::= '[' ']'  (empty list of End)                             *)
(*              | '[' value { ',' value } ']'    (all of one tag type)     *)
(*   array    ::= '[B;' bytes ']' | '[I;' ints ']' | '[L;' longs ']'       *)
(*   quoted   ::= '"' { char | '\"' | '\\' } '"'                           *)
(*              | "'" { char | "\'" | '\\' } "'"                           *)
(*   token    ::= run of [0-9A-Za-z_.+-]; classified:                      *)
(*                -?D+ -> Int; -?D+[bB] Byte; [sS] Short; [lL] Long;       *)
(*                -?D+[fF] Float; -?D+[dD] Double; -?D+.D+ Double;         *)
(*                -?D+.D+[fF] Float; -?D+.D+[dD] Double; otherwise String  *)
(*   white space (SP TAB CR LF) between tokens, not inside '[B;'.          *)
(* Parse(text) = [st, why, tree] with st in                                 *)
(*   "ok"    the text is a value of the listed grammar, tree is its reading *)
(*   "err"   malformed                                                      *)
(*   "short" malformed because it ends early (used by the generator too)    *)
(*   "grey"  outside the listed grammar but plausibly meant as something    *)
(*           (exponents, .5, 5., leading +, true/false, out-of-range or     *)
(*           zero-padded integers, a sign with nothing but a suffix or dot, *)
(*           decimals whose exact bits are not in                           *)
(*           FloatTab, other escapes, blanks inside '[B;', duplicate keys): *)
(*           only well-formedness of the output is judged.                  *)
(* Integer literals become big-endian two's-complement byte patterns by     *)
(* byte-wise arithmetic (TLC integers are 32 bit); decimals are looked up   *)
(* in a table of exactly representable values.                              *)
(***************************************************************************)
EXTENDS NBT

IsSp(c) == c \in {32, 9, 10, 13}
IsDig(c) == c \in 48..57
IsUnq(c) == c \in 48..57 \/ c \in 65..90 \/ c \in 97..122 \/ c \in {95, 45, 46, 43}

\* ---------------------------------------------------------------- integers on byte sequences
RECURSIVE MulAdd(_, _, _)
MulAdd(b, i, carry) == IF i = 0 THEN b ELSE LET t == b[i] * 10 + carry IN MulAdd([b EXCEPT ![i] = t % 256], i - 1, t \div 256)
Zero8 == [i \in 1..8 |-> 0]
RECURSIVE Mag(_, _)
Mag(digs, acc) == IF digs = <<>> THEN acc ELSE Mag(Tail(digs), MulAdd(acc, 8, digs[1] - 48))   \* <= 19 digits < 2^64
RECURSIVE Inc(_, _)
Inc(b, i) == IF i = 0 THEN b ELSE IF b[i] = 255 THEN Inc([b EXCEPT ![i] = 0], i - 1) ELSE [b EXCEPT ![i] = b[i] + 1]
Neg2(b) == Inc([i \in 1..Len(b) |-> 255 - b[i]], Len(b))
IntPat(digs, neg, w) ==
  IF Len(digs) > 19 THEN [ok |-> FALSE, v |-> <<>>]
  ELSE LET m == Mag(digs, Zero8)
           lo == SubSeq(m, 9 - w, 8)
       IN IF (\A i \in 1..(8 - w) : m[i] = 0) /\ (lo[1] < 128 \/ (neg /\ lo = [i \in 1..w |-> IF i = 1 THEN 128 ELSE 0]))
          THEN [ok |-> TRUE, v |-> IF neg THEN Neg2(lo) ELSE lo]
          ELSE [ok |-> FALSE, v |-> <<>>]
\* signed decimal text of a pattern
RECURSIVE D10(_, _, _, _)
D10(b, i, rem, q) == IF i > Len(b) THEN [q |-> q, r |-> rem] ELSE LET cur == rem * 256 + b[i] IN D10(b, i + 1, cur % 10, Append(q, cur \div 10))
IsZero(b) == \A i \in 1..Len(b) : b[i] = 0
RECURSIVE DecDigits(_)
DecDigits(b) == IF IsZero(b) THEN <<>> ELSE LET d == D10(b, 1, 0, <<>>) IN Append(DecDigits(d.q), 48 + d.r)
DecU(b) == IF IsZero(b) THEN <<48>> ELSE DecDigits(b)
DecS(b) == IF b[1] >= 128 THEN <<45>> \o DecU(Neg2(b)) ELSE DecU(b)

\* ---------------------------------------------------------------- decimals: a table of values (16 exactly representable, 5 long spellings, 6 one-digit spellings of large / small magnitude)
\* i = integer digits, f = fraction digits without trailing zeros, p32/p64 = IEEE-754 patterns of the value
FloatTab == <<
  [i |-> <<48>>, f |-> <<>>, p32 |-> <<0, 0, 0, 0>>, p64 |-> <<0, 0, 0, 0, 0, 0, 0, 0>>],
  [i |-> <<49>>, f |-> <<>>, p32 |-> <<63, 128, 0, 0>>, p64 |-> <<63, 240, 0, 0, 0, 0, 0, 0>>],
  [i |-> <<50>>, f |-> <<>>, p32 |-> <<64, 0, 0, 0>>, p64 |-> <<64, 0, 0, 0, 0, 0, 0, 0>>],
  [i |-> <<51>>, f |-> <<>>, p32 |-> <<64, 64, 0, 0>>, p64 |-> <<64, 8, 0, 0, 0, 0, 0, 0>>],
  [i |-> <<48>>, f |-> <<53>>, p32 |-> <<63, 0, 0, 0>>, p64 |-> <<63, 224, 0, 0, 0, 0, 0, 0>>],
  [i |-> <<49>>, f |-> <<53>>, p32 |-> <<63, 192, 0, 0>>, p64 |-> <<63, 248, 0, 0, 0, 0, 0, 0>>],
  [i |-> <<48>>, f |-> <<50, 53>>, p32 |-> <<62, 128, 0, 0>>, p64 |-> <<63, 208, 0, 0, 0, 0, 0, 0>>],
  [i |-> <<50>>, f |-> <<50, 53>>, p32 |-> <<64, 16, 0, 0>>, p64 |-> <<64, 2, 0, 0, 0, 0, 0, 0>>],
  [i |-> <<48>>, f |-> <<49, 50, 53>>, p32 |-> <<62, 0, 0, 0>>, p64 |-> <<63, 192, 0, 0, 0, 0, 0, 0>>],
  [i |-> <<49, 48, 48>>, f |-> <<>>, p32 |-> <<66, 200, 0, 0>>, p64 |-> <<64, 89, 0, 0, 0, 0, 0, 0>>],
  [i |-> <<49, 48, 50, 52>>, f |-> <<>>, p32 |-> <<68, 128, 0, 0>>, p64 |-> <<64, 144, 0, 0, 0, 0, 0, 0>>],
  [i |-> <<48>>, f |-> <<55, 53>>, p32 |-> <<63, 64, 0, 0>>, p64 |-> <<63, 232, 0, 0, 0, 0, 0, 0>>],
  [i |-> <<49, 48>>, f |-> <<>>, p32 |-> <<65, 32, 0, 0>>, p64 |-> <<64, 36, 0, 0, 0, 0, 0, 0>>],
  [i |-> <<49, 50>>, f |-> <<53>>, p32 |-> <<65, 72, 0, 0>>, p64 |-> <<64, 41, 0, 0, 0, 0, 0, 0>>],
  [i |-> <<51>>, f |-> <<53>>, p32 |-> <<64, 96, 0, 0>>, p64 |-> <<64, 12, 0, 0, 0, 0, 0, 0>>],
  [i |-> <<49, 50, 55>>, f |-> <<>>, p32 |-> <<66, 254, 0, 0>>, p64 |-> <<64, 95, 192, 0, 0, 0, 0, 0>>],
  \* shortest decimal spellings of values that need many digits; the patterns are the correctly rounded ones
  \* (computed with strconv.ParseFloat; the decimal is in general not exactly representable)
  [i |-> <<48>>, f |-> <<48, 48, 48, 48, 48, 48, 48, 48, 48, 48, 48, 48, 57, 48, 57, 52, 57, 52, 55, 48, 49, 55, 55, 50, 57, 50, 56, 50>>, p32 |-> <<43, 128, 0, 0>>, p64 |-> <<61, 112, 0, 0, 0, 0, 0, 0>>],  \* 0.0000000000009094947017729282 = 2^-40 as a double
  [i |-> <<48>>, f |-> <<48, 48, 48, 48, 48, 48, 48, 48, 48, 48, 52, 51, 54, 53, 53, 55, 52, 54>>, p32 |-> <<46, 64, 0, 0>>, p64 |-> <<61, 200, 0, 0, 2, 231, 137, 9>>],  \* 0.000000000043655746 = 3*2^-36 as a float
  [i |-> <<49>>, f |-> <<48, 48, 48, 48, 48, 48, 48, 48, 48, 48, 48, 48, 48, 48, 48, 57>>, p32 |-> <<63, 128, 0, 0>>, p64 |-> <<63, 240, 0, 0, 0, 0, 0, 4>>],  \* 1.0000000000000009 = 1+2^-50 as a double
  [i |-> <<48>>, f |-> <<48, 48, 48, 48, 48, 48, 48, 48, 48, 48, 48, 48, 57, 48, 57, 52, 57, 52, 55>>, p32 |-> <<43, 128, 0, 0>>, p64 |-> <<61, 111, 255, 255, 254, 244, 21, 41>>],  \* 0.0000000000009094947 = 2^-40 as a float
  [i |-> <<48>>, f |-> <<48, 48, 48, 48, 48, 48, 48, 48, 48, 48, 52, 51, 54, 53, 53, 55, 52, 53, 54, 56, 53, 49, 48, 48, 53, 53, 53>>, p32 |-> <<46, 64, 0, 0>>, p64 |-> <<61, 200, 0, 0, 0, 0, 0, 0>>],
  \* values whose shortest spelling has ONE significant digit and a large or small magnitude (where an exponent form
  \* would be the shorter text): the same text is the shortest spelling of the float and of the double
  [i |-> <<49, 48, 48, 48, 48, 48, 48>>, f |-> <<>>, p32 |-> <<73, 116, 36, 0>>, p64 |-> <<65, 46, 132, 128, 0, 0, 0, 0>>],  \* 1000000
  [i |-> <<54, 48, 48, 48, 48, 48, 48, 48>>, f |-> <<>>, p32 |-> <<76, 100, 225, 192>>, p64 |-> <<65, 140, 156, 56, 0, 0, 0, 0>>],  \* 60000000
  [i |-> <<48>>, f |-> <<48, 48, 48, 48, 50>>, p32 |-> <<55, 167, 197, 172>>, p64 |-> <<62, 244, 248, 181, 136, 227, 104, 241>>],  \* 0.00002
  [i |-> <<49, 48, 48, 48, 48, 48, 48, 48, 48, 48, 48, 48, 48, 48, 48, 48, 48, 48, 48, 48, 48, 48>>, f |-> <<>>, p32 |-> <<98, 88, 215, 39>>, p64 |-> <<68, 75, 26, 228, 214, 226, 239, 80>>],  \* 1000000000000000000000
  [i |-> <<48>>, f |-> <<48, 48, 48, 48, 49>>, p32 |-> <<55, 39, 197, 172>>, p64 |-> <<62, 228, 248, 181, 136, 227, 104, 241>>],  \* 0.00001
  [i |-> <<48>>, f |-> <<48, 48, 48, 49>>, p32 |-> <<56, 209, 183, 23>>, p64 |-> <<63, 26, 54, 226, 235, 28, 67, 45>>] >>  \* 0.0001  \* 0.000000000043655745685100555 = 3*2^-36 as a double
RECURSIVE StripTZ(_)
StripTZ(f) == IF f # <<>> /\ f[Len(f)] = 48 THEN StripTZ(SubSeq(f, 1, Len(f) - 1)) ELSE f
FloatPat(ip, fp, neg, t) ==
  LET f == StripTZ(fp)  hits == {k \in 1..Len(FloatTab) : FloatTab[k].i = ip /\ FloatTab[k].f = f} IN
  IF hits = {} THEN [ok |-> FALSE, v |-> <<>>]
  ELSE LET e == FloatTab[CHOOSE k \in hits : TRUE]  p == IF t = 5 THEN e.p32 ELSE e.p64 IN
       [ok |-> TRUE, v |-> IF neg THEN [p EXCEPT ![1] = p[1] + 128] ELSE p]
FloatKnown(p, t) == LET a == IF p[1] >= 128 THEN [p EXCEPT ![1] = p[1] - 128] ELSE p IN
  \E k \in 1..Len(FloatTab) : (IF t = 5 THEN FloatTab[k].p32 ELSE FloatTab[k].p64) = a
FloatTxt(p, t) ==
  LET neg == p[1] >= 128  a == IF neg THEN [p EXCEPT ![1] = p[1] - 128] ELSE p
      e == FloatTab[CHOOSE k \in 1..Len(FloatTab) : (IF t = 5 THEN FloatTab[k].p32 ELSE FloatTab[k].p64) = a]
  IN (IF neg THEN <<45>> ELSE <<>>) \o e.i \o <<46>> \o (IF e.f = <<>> THEN <<48>> ELSE e.f)

\* ---------------------------------------------------------------- classification of an unquoted token
RECURSIVE DigRun(_, _)
DigRun(s, p) == IF p <= Len(s) /\ IsDig(s[p]) THEN 1 + DigRun(s, p + 1) ELSE 0
IntSuf(c) == CASE c \in {98, 66} -> 1 [] c \in {115, 83} -> 2 [] c \in {108, 76} -> 4 [] OTHER -> 0
FltSuf(c) == CASE c \in {102, 70} -> 5 [] c \in {100, 68} -> 6 [] OTHER -> 0
\* [eE][+-]?D*[fFdD]?
ExpTail(r) == /\ r # <<>> /\ r[1] \in {101, 69}
              /\ LET a == IF Len(r) >= 2 /\ r[2] \in {43, 45} THEN 3 ELSE 2
                     z == SubSeq(r, a + DigRun(r, a), Len(r))
                 IN z = <<>> \/ (Len(z) = 1 /\ FltSuf(z[1]) # 0)
Str(tok) == [g |-> "", n |-> [t |-> 8, v |-> tok]]
Grey(why, tok) == [g |-> why, n |-> [t |-> 8, v |-> tok]]
Classify(tok) ==
  IF tok \in {<<116, 114, 117, 101>>, <<102, 97, 108, 115, 101>>} THEN Grey("bool", tok)
  ELSE IF tok \in {<<45>>, <<43>>} THEN Grey("sign", tok)
  ELSE IF tok[1] \in {43, 45} /\ (  (Len(tok) = 2 /\ (tok[2] = 46 \/ IntSuf(tok[2]) # 0 \/ FltSuf(tok[2]) # 0))
                          \/ (Len(tok) = 3 /\ tok[2] = 46 /\ FltSuf(tok[3]) # 0)) THEN Grey("sign", tok)   \* -b  -.  -.f  +d
  ELSE IF tok[1] = 43 THEN (IF IsDig(tok[2]) \/ tok[2] = 46 THEN Grey("plus", tok) ELSE Str(tok))
  ELSE LET neg == tok[1] = 45
           body == IF neg THEN Tail(tok) ELSE tok
           n1 == DigRun(body, 1)
           ip == SubSeq(body, 1, n1)
           r == SubSeq(body, n1 + 1, Len(body))
           lz == n1 > 1 /\ body[1] = 48
           mkInt(t) == IF lz THEN Grey("leading-zero", tok)
                       ELSE LET q == IntPat(ip, neg, W(t)) IN IF q.ok THEN [g |-> "", n |-> [t |-> t, v |-> q.v]] ELSE Grey("range", tok)
           mkFlt(t, fp) == IF lz THEN Grey("leading-zero", tok)
                           ELSE LET q == FloatPat(ip, fp, neg, t) IN IF q.ok THEN [g |-> "", n |-> [t |-> t, v |-> q.v]] ELSE Grey("float-table", tok)
       IN
       IF n1 > 0 /\ r = <<>> THEN mkInt(3)
       ELSE IF n1 > 0 /\ Len(r) = 1 /\ IntSuf(r[1]) # 0 THEN mkInt(IntSuf(r[1]))
       ELSE IF n1 > 0 /\ Len(r) = 1 /\ FltSuf(r[1]) # 0 THEN mkFlt(FltSuf(r[1]), <<>>)
       ELSE IF n1 > 0 /\ ExpTail(r) THEN Grey("exp", tok)
       ELSE IF r # <<>> /\ r[1] = 46
            THEN LET n2 == DigRun(r, 2)
                     fp == SubSeq(r, 2, n2 + 1)
                     z == SubSeq(r, n2 + 2, Len(r))
                     zsuf == Len(z) = 1 /\ FltSuf(z[1]) # 0
                 IN IF n1 > 0 /\ n2 > 0 /\ z = <<>> THEN mkFlt(6, fp)
                    ELSE IF n1 > 0 /\ n2 > 0 /\ zsuf THEN mkFlt(FltSuf(z[1]), fp)
                    ELSE IF n1 > 0 /\ n2 > 0 /\ ExpTail(z) THEN Grey("exp", tok)
                    ELSE IF n1 + n2 > 0 /\ (z = <<>> \/ zsuf \/ ExpTail(z)) THEN Grey("bare-dot", tok)
                    ELSE Str(tok)
       ELSE Str(tok)

ClassifyM(tok, m) == LET k == Classify(tok) IN IF m = "range-as-string" /\ k.g = "range" THEN Str(tok) ELSE k

\* ---------------------------------------------------------------- the reader
R(st, g, v, p) == [st |-> st, g |-> g, v |-> v, p |-> p]
Bad(st, p) == R(st, "", [t |-> 0], p)
G2(a, b) == IF a # "" THEN a ELSE b
RECURSIVE SkipWs(_, _), TokEnd(_, _)
SkipWs(s, p) == IF p <= Len(s) /\ IsSp(s[p]) THEN SkipWs(s, p + 1) ELSE p
TokEnd(s, p) == IF p <= Len(s) /\ IsUnq(s[p]) THEN TokEnd(s, p + 1) ELSE p

\* quoted string body from position i (after the opening quote q)
RECURSIVE PQ(_, _, _, _, _)
PQ(s, i, q, acc, g) ==
  IF i > Len(s) THEN R("short", g, acc, i)
  ELSE IF s[i] = q THEN R("ok", g, acc, i + 1)
  ELSE IF s[i] = 92
       THEN IF i + 1 > Len(s) THEN R("short", g, acc, i)
            ELSE PQ(s, i + 2, q, Append(acc, s[i + 1]), IF s[i + 1] \in {q, 92} THEN g ELSE G2(g, "escape"))
  ELSE PQ(s, i + 1, q, Append(acc, s[i]), g)

PKey(s, p) ==
  IF p > Len(s) THEN R("short", "", <<>>, p)
  ELSE IF s[p] \in {34, 39} THEN PQ(s, p + 1, s[p], <<>>, "")
  ELSE IF IsUnq(s[p]) THEN LET e == TokEnd(s, p) IN R("ok", "", SubSeq(s, p, e - 1), e)
  ELSE R("err", "", <<>>, p)

ArrT(c) == CASE c = 66 -> 7 [] c = 73 -> 11 [] c = 76 -> 12
ElT(c) == CASE c = 66 -> 1 [] c = 73 -> 3 [] c = 76 -> 4
MkArr(c, els) == IF c = 66 THEN [t |-> 7, v |-> [i \in 1..Len(els) |-> els[i][1]]] ELSE [t |-> ArrT(c), v |-> els]

RECURSIVE PValue(_, _, _), PComp(_, _, _, _, _), PList(_, _, _, _, _), PArr(_, _, _, _, _, _)
PArr(s, p0, c, acc, g, m) ==              \* an element is expected at p0
  LET p == SkipWs(s, p0) IN
  IF p > Len(s) THEN Bad("short", p)
  ELSE IF ~IsUnq(s[p]) THEN Bad("err", p)
  ELSE LET e == TokEnd(s, p)  p2 == SkipWs(s, e) IN
       IF p2 > Len(s) THEN Bad("short", p2)
       ELSE LET k == ClassifyM(SubSeq(s, p, e - 1), m)  acc2 == Append(acc, k.n.v)  g2 == G2(g, k.g) IN
            IF k.g = "" /\ k.n.t # ElT(c) THEN Bad("err", p)
            ELSE IF s[p2] = 93 THEN R("ok", g2, MkArr(c, acc2), p2 + 1)
            ELSE IF s[p2] = 44 THEN PArr(s, p2 + 1, c, acc2, g2, m)
            ELSE Bad("err", p2)
PList(s, p0, acc, g, m) ==                \* an element is expected at p0
  LET v == PValue(s, p0, m) IN
  IF v.st # "ok" THEN Bad(v.st, v.p)
  ELSE LET p2 == SkipWs(s, v.p)  acc2 == Append(acc, v.v)  g2 == G2(g, v.g) IN
       IF p2 > Len(s) THEN Bad("short", p2)
       ELSE IF g2 = "" /\ v.v.t # acc2[1].t THEN Bad("err", p2)
       ELSE IF s[p2] = 93 THEN R("ok", g2, [t |-> 9, et |-> acc2[1].t, v |-> acc2], p2 + 1)
       ELSE IF s[p2] = 44 THEN PList(s, p2 + 1, acc2, g2, m)
       ELSE Bad("err", p2)
PComp(s, p0, acc, g, m) ==                \* a key is expected at p0
  LET k == PKey(s, SkipWs(s, p0)) IN
  IF k.st # "ok" THEN Bad(k.st, k.p)
  ELSE LET p1 == SkipWs(s, k.p) IN
       IF p1 > Len(s) THEN Bad("short", p1)
       ELSE IF s[p1] # 58 THEN Bad("err", p1)
       ELSE LET v == PValue(s, p1 + 1, m) IN
            IF v.st # "ok" THEN Bad(v.st, v.p)
            ELSE LET p2 == SkipWs(s, v.p)
                     dup == \E i \in 1..Len(acc) : acc[i].k = k.v
                     g2 == G2(G2(g, k.g), G2(v.g, IF dup THEN "dup-key" ELSE ""))
                     acc2 == Append(acc, [k |-> k.v, n |-> v.v])
                 IN IF p2 > Len(s) THEN Bad("short", p2)
                    ELSE IF s[p2] = 125 THEN R("ok", g2, [t |-> 10, v |-> acc2], p2 + 1)
                    ELSE IF s[p2] = 44 THEN PComp(s, p2 + 1, acc2, g2, m)
                    ELSE Bad("err", p2)
PValue(s, p0, m) ==
  LET p == SkipWs(s, p0) IN
  IF p > Len(s) THEN Bad("short", p)
  ELSE LET c == s[p] IN
    IF c = 123
    THEN LET q == SkipWs(s, p + 1) IN
         IF q > Len(s) THEN Bad("short", q)
         ELSE IF s[q] = 125 THEN R("ok", "", [t |-> 10, v |-> <<>>], q + 1)
         ELSE PComp(s, q, <<>>, "", m)
    ELSE IF c = 91
    THEN LET q == SkipWs(s, p + 1) IN
         IF q > Len(s) THEN Bad("short", q)
         ELSE IF s[q] = 93 THEN R("ok", "", [t |-> 9, et |-> 0, v |-> <<>>], q + 1)
         ELSE LET semi == SkipWs(s, q + 1) IN
              IF s[q] \in {66, 73, 76} /\ TokEnd(s, q) = q + 1 /\ semi <= Len(s) /\ s[semi] = 59
              THEN LET g == IF q > p + 1 \/ semi > q + 1 THEN "array-prefix-space" ELSE ""
                       a == SkipWs(s, semi + 1) IN
                   IF a > Len(s) THEN Bad("short", a)
                   ELSE IF s[a] = 93 THEN R("ok", g, MkArr(s[q], <<>>), a + 1)
                   ELSE PArr(s, a, s[q], <<>>, g, m)
              ELSE PList(s, q, <<>>, "", m)
    ELSE IF c \in {34, 39} THEN LET r == PQ(s, p + 1, c, <<>>, "") IN R(r.st, r.g, [t |-> 8, v |-> r.v], r.p)
    ELSE IF IsUnq(c) THEN LET e == TokEnd(s, p)  k == ClassifyM(SubSeq(s, p, e - 1), m) IN R("ok", k.g, k.n, e)
    ELSE Bad("err", p)

\* m = "": the reading described above.  m = "range-as-string": an integer literal that does not fit its type is
\* read as a string instead (the other admissible reading of such a token besides rejecting the text)
ParseM(s, m) ==
  LET r == PValue(s, 1, m)  no == [t |-> 0] IN
  IF r.st # "ok" THEN [st |-> r.st, why |-> "", tree |-> no]
  ELSE IF SkipWs(s, r.p) <= Len(s) THEN [st |-> "err", why |-> "trailing", tree |-> no]
  ELSE IF r.g # "" THEN [st |-> "grey", why |-> r.g, tree |-> no]
  ELSE [st |-> "ok", why |-> "", tree |-> r.v]
Parse(s) == ParseM(s, "")

\* ---------------------------------------------------------------- the specification's own printer
RECURSIVE Join(_, _)
Join(parts, sep) == IF parts = <<>> THEN <<>> ELSE IF Len(parts) = 1 THEN parts[1] ELSE parts[1] \o sep \o Join(Tail(parts), sep)
QuoteStr(s, q) == <<q>> \o FlattenSeq([i \in 1..Len(s) |-> IF s[i] \in {q, 92} THEN <<92, s[i]>> ELSE <<s[i]>>]) \o <<q>>
Bare(s) == s # <<>> /\ (\A i \in 1..Len(s) : IsUnq(s[i])) /\ Classify(s) = Str(s)
PrintStr(s, q) == IF q = 39 /\ Bare(s) THEN s ELSE QuoteStr(s, q)
\* ws = white space put between all tokens; q = 34: double quotes, lower-case suffixes, unsuffixed doubles;
\* q = 39: single quotes, bare strings where possible, upper-case suffixes
RECURSIVE Show(_, _, _)
Show(x, ws, q) ==
  LET up == q = 39
      sep == ws \o <<44>> \o ws
      arr(pre, els) == <<91, pre, 59>> \o ws \o Join(els, sep) \o ws \o <<93>>
  IN
  CASE x.t = 1 -> DecS(x.v) \o <<IF up THEN 66 ELSE 98>>
    [] x.t = 2 -> DecS(x.v) \o <<IF up THEN 83 ELSE 115>>
    [] x.t = 3 -> DecS(x.v)
    [] x.t = 4 -> DecS(x.v) \o <<IF up THEN 76 ELSE 108>>
    [] x.t = 5 -> FloatTxt(x.v, 5) \o <<IF up THEN 70 ELSE 102>>
    [] x.t = 6 -> FloatTxt(x.v, 6) \o (IF up THEN <<68>> ELSE <<>>)
    [] x.t = 7 -> arr(66, [i \in 1..Len(x.v) |-> DecS(<<x.v[i]>>) \o <<IF up THEN 66 ELSE 98>>])
    [] x.t = 8 -> PrintStr(x.v, q)
    [] x.t = 9 -> <<91>> \o ws \o Join([i \in 1..Len(x.v) |-> Show(x.v[i], ws, q)], sep) \o ws \o <<93>>
    [] x.t = 10 -> <<123>> \o ws \o Join([i \in 1..Len(x.v) |-> PrintStr(x.v[i].k, q) \o ws \o <<58>> \o ws \o Show(x.v[i].n, ws, q)], sep) \o ws \o <<125>>
    [] x.t = 11 -> arr(73, [i \in 1..Len(x.v) |-> DecS(x.v[i])])
    [] x.t = 12 -> arr(76, [i \in 1..Len(x.v) |-> DecS(x.v[i]) \o <<IF up THEN 76 ELSE 108>>])

\* SNBT cannot say which element type an EMPTY list has: it reads back as a list of End
RECURSIVE SNorm(_)
SNorm(x) == CASE x.t = 9 -> [t |-> 9, et |-> IF x.v = <<>> THEN 0 ELSE x.et, v |-> [i \in 1..Len(x.v) |-> SNorm(x.v[i])]]
              [] x.t = 10 -> [t |-> 10, v |-> [i \in 1..Len(x.v) |-> [k |-> x.v[i].k, n |-> SNorm(x.v[i].n)]]]
              [] OTHER -> x
RECURSIVE Printable(_)
Printable(x) == CASE x.t \in {5, 6} -> FloatKnown(x.v, x.t)
                  [] x.t = 9 -> \A i \in 1..Len(x.v) : Printable(x.v[i])
                  [] x.t = 10 -> \A i \in 1..Len(x.v) : Printable(x.v[i].n)
                  [] x.t = 0 -> FALSE
                  [] OTHER -> TRUE

\* ---------------------------------------------------------------- universe of trees (NBT.tla's, with table floats)
FT(k, t) == IF t = 5 THEN FloatTab[k].p32 ELSE FloatTab[k].p64
NegP(p) == [p EXCEPT ![1] = p[1] + 128]
SLeaves == {x \in Leaves : x.t \notin {5, 6}}
           \cup UNION {{[t |-> t, v |-> FT(k, t)] : k \in {1, 2, 6, 8, 10}} : t \in {5, 6}}
           \cup UNION {{[t |-> t, v |-> NegP(FT(k, t))] : k \in {1, 6}} : t \in {5, 6}}
           \cup {[t |-> 8, v |-> <<34, 39, 92>>], [t |-> 8, v |-> <<39, 32, 44>>], [t |-> 8, v |-> <<49, 98>>], [t |-> 8, v |-> <<45, 49>>]}
           \cup {[t |-> 1, v |-> <<5>>], [t |-> 3, v |-> <<0, 0, 48, 57>>], [t |-> 4, v |-> <<255, 255, 255, 255, 255, 255, 255, 254>>]}
SD1 == SLeaves
SD2 == Lists(SD1) \cup Comps(SD1)
SRep2 == {x \in SD2 : (x.t = 9 => Len(x.v) <= 1 /\ (x.v = <<>> => x.et \in {0, 10}) /\ (x.v # <<>> => x.v[1].t \in {3, 8, 11}))
                      /\ (x.t = 10 => Len(x.v) <= 1 /\ (x.v # <<>> => x.v[1].k = <<97>> /\ x.v[1].n.t \in {1, 8, 12}))}
SD3 == Lists(SRep2) \cup Comps(SRep2)

\* ---------------------------------------------------------------- model
CONSTANTS Mode,      \* "texts": enumerate character strings ; "trees": the tree universe ; "none": trace validation
          MaxLen,    \* texts: longest string
          Alpha,     \* texts: characters appended outside quoted strings
          QAlpha     \* texts: characters appended inside quoted strings
VARIABLE text
svars == <<doc, fmt, text>>

\* generator only: is the (alive) text currently inside a quoted string?
RECURSIVE InQ(_, _, _)
InQ(s, i, q) == IF i > Len(s) THEN q # 0
                ELSE IF q = 0 THEN InQ(s, i + 1, IF s[i] \in {34, 39} THEN s[i] ELSE 0)
                ELSE IF s[i] = 92 THEN (IF i + 1 > Len(s) THEN TRUE ELSE InQ(s, i + 2, q))
                ELSE InQ(s, i + 1, IF s[i] = q THEN 0 ELSE q)

SInit == /\ fmt = "file" /\ text = <<>>
         /\ IF Mode = "trees" THEN doc \in (IF Quick THEN SD1 \cup SD2 ELSE SD1 \cup SD2 \cup SD3) ELSE doc = [t |-> 0]
SNext == /\ Mode = "texts" /\ Len(text) < MaxLen /\ Parse(text).st # "err"
         /\ \E c \in (IF InQ(text, 1, 0) THEN QAlpha ELSE Alpha) : text' = Append(text, c)
         /\ UNCHANGED <<doc, fmt>>
SSpec == SInit /\ [][SNext]_svars

Layouts == {<<>>, <<32>>, <<10, 9>>}
\* S-level laws -------------------------------------------------------------------------------------
\* (a) reading the specification's own print of a tree gives the tree, in every layout and quoting style
PrintParse == Mode = "trees" =>
  \A ws \in Layouts, q \in {34, 39} :
     LET p == Parse(ws \o Show(doc, ws, q) \o ws) IN p.st = "ok" /\ p.tree = SNorm(doc)
\* (b) on every enumerated text: surrounding blanks do not matter; an accepted text prints back to a text that
\*     reads as the same tree; its binary form is one document (EncDoc/DecDoc of NBT.tla)
TextLaws == Mode = "texts" =>
  LET p == Parse(text) IN
  /\ Parse(<<32>> \o text \o <<10>>).st = (IF text = <<>> THEN "short" ELSE p.st)
  /\ p.st = "ok" => /\ Printable(p.tree) /\ SNorm(p.tree) = p.tree
                    /\ \A q \in {34, 39} : LET b == Parse(Show(p.tree, <<32>>, q)) IN b.st = "ok" /\ b.tree = p.tree
                    /\ LET e == EncDoc("file", <<>>, p.tree)  d == DecDoc("file", e) IN d.ok /\ d.n = Len(e) /\ d.tree = p.tree
  /\ p.st # "ok" => p.tree = [t |-> 0]
SEmit == EmitJson =>
  IF Mode = "texts" THEN LET p == Parse(text) IN PrintT(ToJson([text |-> text, st |-> p.st, why |-> p.why, tree |-> p.tree]))
  ELSE PrintT(ToJson([tree |-> doc, bytes |-> EncDoc("file", <<>>, doc), text |-> Show(doc, <<>>, 34)]))
=============================================================================
