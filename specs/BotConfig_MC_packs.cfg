SPECIFICATION Spec
CONSTANTS
  Ids = {5}
  Keys = {}
  Pays = {}
  Uuids = {1, 2}
  RpToks = {1, 3}
  StackMax = 2
  KnownRegs = {}
  Regs = {}
  RKeys = {}
  TagToks = {}
  MaxEnt = 0
  MaxSecs = 0
  FeatLists <- MC_FeatLists
  PackLists <- MC_PackListsQ
  DetailLists = {}
  UnknownIds = {}
  Handlers <- MC_Handlers
  LateKinds = {"finish", "rppop", "rppush"}
  LateMax = 1
  Variant = "intent"
VIEW View
INVARIANTS TypeOK NothingWaiting RegsValid Agree
PROPERTIES EndRule FinishRule NothingAfterEnd QueueRule DisconnectRule AnsweredOnceInOrder EchoRule CookieRule StoreRule UnknownIdRule RegistryRule TagsRule PushRule PopRule PopAllRule HandlerRule SelectRule FrameRule DetailsRule WriteFailRule NoPanic
CHECK_DEADLOCK FALSE
