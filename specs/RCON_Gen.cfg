SPECIFICATION Spec
CONSTANTS
  Passwords <- MCPasswords
  Cmds <- MCCmds
  Resps <- MCResps
  ReqIDs = {5}
  Modes = {"real", "advs", "advc"}
  MaxCmds = 2
  MaxResps = 2
  MaxAdv = 2
  AdvIds = {"same", "plus1", "minus1"}
  AdvTypes = {0, 2, 3}
  AdvResps <- MCAdvResps
  WithHist = "all"
  EmitJson = TRUE
INVARIANTS TypeOK LoginIff ServerLoginIff VerbatimInOrder ResponsesInOrder Quiescent WholeFrames AcceptOnlyMatching Emit
CHECK_DEADLOCK FALSE
