------------------------------ MODULE BVH_Gen -------------------------------
(* Behaviour generator for leg A of X05/BVH: the BVH specification simulated by TLC with a history variable.      *)
(* Boxes, values and tests are pseudo-random functions of the step counter (a handful of candidates per step     *)
(* instead of all boxes).  Insert is only generated where stage 1 has ONE cost-minimal sibling: the specification *)
(* leaves the choice between several open, the replay compares the whole projected tree and needs the successor   *)
(* to be determined (ties are exercised by leg B, judged by BVH_Trace).  This module only chooses which           *)
(* behaviours are replayed; it proves nothing.                                                                    *)
(*   act = <<"ins", box, value, leaf id>> | <<"del", leaf id>> | <<"find", test, stop, answers>> | <<"init">>      *)
EXTENDS BVH
VARIABLES act, step
gvars == <<vars, act, step>>

Hash(a, b) == (a * 7919 + b * 10007 + ((a * b) % 97) + 13) % 65521
Span == 24
GenBox(k, j) ==         \* even coordinates: odd points lie strictly inside or outside
  LET h1 == Hash(k, j)  h2 == Hash(k + 1, j + 31)  h3 == Hash(k + 2, j + 67)
      kind == h3 % 5
      x == h1 % Span  y == h2 % Span
      w == 1 + ((h1 \div 32) % 6)  h == 1 + ((h2 \div 32) % 6)
      D(q) == <<2 * q[1], 2 * q[2], 2 * q[3], 2 * q[4]>>
  IN CASE kind = 0 -> <<2 * x, 0, 2 * (x + w), 2>>                        \* one dimension
       [] kind = 1 -> D(<<(x \div 2) * 2, (y \div 2) * 2, (x \div 2) * 2 + 2, (y \div 2) * 2 + 2>>)   \* grid cells
       [] kind = 2 -> D(<<x % 6, y % 6, (x % 6) + 3 * w, (y % 6) + 3 * h>>)   \* large, overlapping
       [] OTHER   -> D(<<x, y, x + w, y + h>>)
(* tests aimed at a leaf box b *)
GenTests(b, k) == {<<"all", <<>>>>, <<"pt", <<b[1] + 1, b[2] + 1>>>>, <<"pt", <<b[3], b[2] + 1>>>>,
                   <<"pt", <<b[3] - 1, b[4] - 1 + (k % 2)>>>>,
                   <<"bd", <<b[1] + 1, b[2] - 3, b[3] + 5, b[4] + 1>>>>, <<"bd", <<b[3], b[2], b[3] + 4, b[4]>>>>}

GenInit == Init /\ act = <<"init">> /\ step = 0
GenIns == \E j \in 1..4 :
            LET b == GenBox(step, j)  best == IF tree.r = 0 THEN {0} ELSE Best(tree, b) IN
            /\ Cardinality(best) = 1
            /\ Insert(b, 100 + step, CHOOSE s \in best : TRUE)
            /\ act' = <<"ins", b, 100 + step, NewLeafId(tree)>>
GenDel == /\ (step % 3 = 0 \/ Cardinality(leaves) >= MaxLeaves - 1)
          /\ \E x \in leaves : Delete(x[1]) /\ act' = <<"del", x[1]>>
GenFind == /\ step % 4 = 1 /\ leaves # {}
           /\ LET x == CHOOSE y \in leaves : \A z \in leaves : ((y[1] + step) % 17) <= ((z[1] + step) % 17) IN   \* one leaf to aim at
              \E stop \in {0, 2} : \E t \in GenTests(x[2], step + x[1]) :
                /\ act' = <<"find", t, stop, FindSeq(tree, t, stop)>>
                /\ UNCHANGED vars
GenNext == (GenIns \/ GenDel \/ GenFind) /\ step' = step + 1
GenSpec == GenInit /\ [][GenNext]_gvars
GenInv == InvBinary /\ InvParents /\ InvConnected /\ InvContains /\ Refines
=============================================================================
