SPECIFICATION TraceSpec
CONSTANTS
  EmitJson = FALSE
  Form = "p767"
  Wide = FALSE
INVARIANTS Check
CHECK_DEADLOCK FALSE
