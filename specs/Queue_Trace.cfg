SPECIFICATION TraceSpec
CONSTANTS
  Prod = {1, 2, 3, 4, 5, 6, 7, 8}
  Cons = {11, 12, 13, 14, 15, 16, 17, 18}
  ItemsPer = 1000000
  SignalOnPush = TRUE
  WithClose = TRUE
CONSTRAINT HWM
POSTCONDITION Accepted
CHECK_DEADLOCK FALSE
