SPECIFICATION Spec
CONSTANTS
  Clients = {1, 2, 3}
  K = 2
  Layer = "code"
  Broken = "none"
  Intents = {1, 2, 3}
  CfgModes = {"real", "wait"}
INVARIANTS Common
PROPERTIES Terminates
CHECK_DEADLOCK FALSE
