---------------------------- MODULE Region_Trace ----------------------------
(* Trace validation for C14/C15: every recorded step of the real save/region  *)
(* code (allocation decision, each physical write, reads, reopen, crash       *)
(* probes, independent Anvil parse of the image) must be a step of Region.tla.*)
(* The invariants of Region are evaluated on the successor of every step      *)
(* (as a guard, so that a rejection is a short "no successor", not a 10^4-    *)
(* state counterexample).                                                      *)
EXTENDS Region, Json

Trace == ndJsonDeserialize("trace.ndjson")

VARIABLES l, curLen
tvars == <<vars, l, curLen>>

Ev == Trace[l]
IsEvent(k) == l <= Len(Trace) /\ Trace[l].k = k /\ l' = l + 1

NeedOf(len) == (len + 4 + 4095) \div 4096

InvAll == /\ NoOverlapMem /\ NoOverlapDisk /\ UsedExact /\ HeaderSync /\ ReadBack /\ CrashSafe

TReset == /\ IsEvent("reset")
          /\ memOff' = [c \in Chunks |-> NoRun] /\ diskOff' = [c \in Chunks |-> NoRun]
          /\ memTs' = [c \in Chunks |-> 0] /\ diskTs' = [c \in Chunks |-> 0]
          /\ memUsed' = {0, 1}
          /\ diskSec' = [s \in Sectors |-> Empty]
          /\ model' = [c \in Chunks |-> 0]
          /\ fl' = NoFl /\ taint' = {} /\ nver' = 0 /\ curLen' = 0

TWriteBegin ==
  /\ IsEvent("wbegin")
  /\ Ev.need = NeedOf(Ev.len) /\ Ev.len >= 1
  /\ WriteBeginAt(Ev.c, Ev.need, Ev.memts, Ev.len, {Ev.sec})
  /\ memOff'[Ev.c] = [sec |-> Ev.sec, cnt |-> Ev.cnt]      \* the header the code holds after the call
  /\ memTs'[Ev.c] = Ev.memts
  /\ curLen' = Ev.len

\* length word and data in ONE write call: PhysLen followed by PhysData(fl.need - 1), written out as one action (TLC does
\* not evaluate \cdot)
PhysLenData ==
  /\ MayDo("len") /\ "data" \in fl.pend /\ fl.done <= fl.need - 1
  /\ (AnyOrder \/ \A q \in fl.pend \ {"len"} : Rank("data") <= Rank(q))
  /\ diskSec' = [s \in Sectors |->
                   IF s \in (fl.at + fl.done)..(fl.at + fl.need - 1)
                   THEN [c |-> fl.c, v |-> fl.v, i |-> s - fl.at, n |-> fl.need,
                         lenv |-> IF s = fl.at THEN fl.len ELSE diskSec[s].lenv, dlen |-> fl.len]
                   ELSE IF s = fl.at THEN [diskSec[s] EXCEPT !.lenv = fl.len] ELSE diskSec[s]]
  /\ fl' = [fl EXCEPT !.done = fl.need, !.pend = @ \ {"len", "data"}]
  /\ UNCHANGED <<memOff, memTs, memUsed, diskOff, diskTs, model, taint, nver>>

TPhys ==
  /\ IsEvent("phys") /\ UNCHANGED curLen
  /\ \/ /\ Ev.kind = "hoff" /\ Ev.slotc = fl.c /\ Ev.sec = fl.at /\ Ev.cnt = fl.need /\ PhysHdrOff
     \/ /\ Ev.kind = "hts" /\ Ev.slotc = fl.c /\ Ev.ts = fl.ts /\ PhysHdrTs
     \/ /\ Ev.kind = "len" /\ Ev.at = fl.at /\ Ev.lenword = curLen /\ PhysLen
     \/ /\ Ev.kind = "data" /\ Ev.at = fl.at /\ Ev.n = curLen /\ PhysData(fl.need - 1)
     \/ /\ Ev.kind = "lendata" /\ Ev.at = fl.at /\ Ev.lenword = curLen /\ Ev.n = curLen + 4
        /\ PhysLenData

\* a torn data write covering `n` bytes (0 < n < curLen): whole sectors before the torn one are new
TPhysTorn ==
  /\ IsEvent("torn") /\ UNCHANGED curLen
  /\ Ev.at = fl.at /\ Ev.n > 0 /\ Ev.n < curLen
  /\ PhysDataTorn((Ev.n + 4) \div 4096)

TWriteEnd == IsEvent("wend") /\ Ev.err = FALSE /\ WriteEnd /\ UNCHANGED curLen

TRefuse == /\ IsEvent("refuse") /\ NeedOf(Ev.len) >= 256 /\ Ev.changed = FALSE
           /\ WriteRefused(Ev.c) /\ UNCHANGED curLen

TRead == /\ IsEvent("read") /\ Idle
         /\ (Settled(Ev.c) => Ev.st = ReadVia(memOff, Ev.c))
         /\ UNCHANGED <<vars, curLen>>

TExist == /\ IsEvent("exist") /\ Idle
          /\ Ev.r = (memOff[Ev.c].sec # 0)
          /\ UNCHANGED <<vars, curLen>>

TPad == /\ IsEvent("pad") /\ Idle /\ Ev.sizeok /\ Ev.same /\ Ev.err = FALSE
        /\ UNCHANGED <<vars, curLen>>

\* Load on the current image (the driver continues with the loaded object)
TReopen ==
  /\ IsEvent("reopen") /\ Ev.err = FALSE /\ Ev.extra = 0 /\ Ev.tseq /\ Ev.offeq
  /\ \A i \in 1..Len(Ev.hdr) : LET h == Ev.hdr[i] IN
        /\ diskOff[h[1]] = [sec |-> h[2], cnt |-> h[3]]
        /\ diskTs[h[1]] = h[4]
  /\ Len(Ev.hdr) = Cardinality(Chunks)
  /\ Reopen /\ UNCHANGED curLen

\* independent Anvil parse of the image after a completed operation
TAnvil ==
  /\ IsEvent("anvil") /\ Idle /\ Ev.extra = 0
  /\ Len(Ev.ent) = Cardinality(Live(diskOff))
  /\ \A i \in 1..Len(Ev.ent) : LET h == Ev.ent[i] IN     \* <<chunk, sec, cnt, lenword, inside>>
        /\ h[1] \in Chunks /\ diskOff[h[1]] = [sec |-> h[2], cnt |-> h[3]]
        /\ Settled(h[1]) => /\ h[5] = 1 /\ h[4] >= 1 /\ NeedOf(h[4]) = h[3]
                            /\ diskSec[h[2]].lenv = h[4]
  /\ UNCHANGED <<vars, curLen>>

\* the process is stopped here: image materialised, Load + ReadSector of every tracked chunk
TProbe ==
  /\ IsEvent("probe") /\ Ev.loaderr = FALSE
  /\ \A i \in 1..Len(Ev.obs) : LET c == Ev.obs[i][1]  st == Ev.obs[i][2] IN
        Settled(c) => st = Expected(c) /\ st = ReadVia(diskOff, c)
  /\ UNCHANGED <<vars, curLen>>

TCrash == IsEvent("crash") /\ Crash /\ UNCHANGED curLen

TraceInit == Init /\ l = 1 /\ curLen = 0
TraceNext == /\ \/ TReset \/ TWriteBegin \/ TPhys \/ TPhysTorn \/ TWriteEnd \/ TRefuse \/ TRead \/ TExist
                \/ TPad \/ TReopen \/ TAnvil \/ TProbe \/ TCrash
             /\ InvAll'
TraceSpec == TraceInit /\ [][TraceNext]_tvars

Accepted == LET d == TLCGet("stats").diameter IN
            /\ PrintT(<<"HWM", d, Len(Trace) + 1>>)
            /\ d = Len(Trace) + 1
=============================================================================
