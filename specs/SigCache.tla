------------------------------ MODULE SigCache ------------------------------
(***************************************************************************)
(* X02 (specification extension): chat/sign.SignatureCache.                *)
(*                                                                         *)
(* The cache is a row of Cap slots (Cap = 128 in go-mc and in the vanilla  *)
(* protocol) holding the message signatures both peers have seen, most     *)
(* recent first, and an index map from a signature to its slot.  A packed  *)
(* message refers to a cached signature by its slot number, so both peers  *)
(* must shift their rows identically.                                      *)
(*                                                                         *)
(* INTENT layer (what is specified): `slots` is a dense row of distinct    *)
(* signatures; Push(self, lastSeen) puts the queue self ++ lastSeen (first *)
(* occurrences) in front, keeps every other cached signature behind it in  *)
(* its old order and drops what no longer fits; `index` is exactly the     *)
(* inverse of `slots`; Lookup(id) answers from the row.                    *)
(*                                                                         *)
(* ALGORITHM layer (a model of the implementation, AlgoPush): the loop of  *)
(* PopOrInsert as written in cache.go.  TLC checks that it refines the     *)
(* intent for every queue without a Hazard, and finds that it does not for *)
(* the others (see SigCache_MC_algo*.cfg).                                 *)
(***************************************************************************)
EXTENDS Integers, Sequences, FiniteSets, TLC

CONSTANTS Cap,      \* number of slots
          Sigs,     \* signature tokens (positive integers)
          MaxQ,     \* generator: longest lastSeen list
          Dups,     \* generator: TRUE = also queues that name a signature twice
          MaxOps    \* generator: bound on calls per behaviour (0: unbounded)

Empty == 0
ASSUME Cap >= 1 /\ Empty \notin Sigs

VARIABLES slots,    \* tuple of Cap entries over Sigs \cup {Empty}; slot id i (0-based) is slots[i + 1]
          index,    \* function: cached signature -> slot id
          act,      \* history variable: the last call and the answer the specification prescribes
          nops
vars == <<slots, index, act, nops>>

\* ---------------------------------------------------------------- sequences
Range(s) == {s[i] : i \in 1..Len(s)}
Content(s) == SelectSeq(s, LAMBDA x : x # Empty)            \* the cached signatures, most recent first
Pad(c) == [i \in 1..Cap |-> IF i <= Len(c) THEN c[i] ELSE Empty]
Take(s, k) == SubSeq(s, 1, IF Len(s) < k THEN Len(s) ELSE k)
RECURSIVE Dedup(_)
Dedup(q) == IF q = <<>> THEN <<>>
            ELSE LET r == Dedup(SubSeq(q, 1, Len(q) - 1)) IN
                 IF q[Len(q)] \in Range(r) THEN r ELSE Append(r, q[Len(q)])
PosOf(s, x) == CHOOSE i \in 1..Len(s) : s[i] = x
InverseOf(s) == [x \in Range(s) \ {Empty} |-> PosOf(s, x) - 1]
Queue(self, ls) == (IF self = Empty THEN <<>> ELSE <<self>>) \o ls

\* ---------------------------------------------------------------- state predicates (the invariants)
IndexInverseOn(s, ix) ==                                     \* every cached signature maps to its slot, nothing else is mapped
  /\ DOMAIN ix = Range(s) \ {Empty}
  /\ \A x \in DOMAIN ix : ix[x] \in 0..(Len(s) - 1) /\ s[ix[x] + 1] = x
DenseOn(s) == \A i \in 1..(Len(s) - 1) : s[i] = Empty => s[i + 1] = Empty   \* no empty slot in front of a used one
NoDupOn(s) == Cardinality(Range(Content(s))) = Len(Content(s))              \* no signature in two slots
CapOn(s, ix) == Len(s) = Cap /\ Cardinality(DOMAIN ix) <= Cap

TypeOK == /\ slots \in [1..Cap -> Sigs \cup {Empty}]
          /\ DOMAIN index \subseteq Sigs /\ \A x \in DOMAIN index : index[x] \in 0..(Cap - 1)
IndexInverse == IndexInverseOn(slots, index)
Dense == DenseOn(slots)
NoDup == NoDupOn(slots)
CapOK == CapOn(slots, index)

\* ---------------------------------------------------------------- INTENT
(* most recent first: the queue, then what was cached and is not in the queue, cut at Cap *)
PushSeq(c, q) == LET d == Dedup(q)  rd == Range(d) IN Take(d \o SelectSeq(c, LAMBDA x : x \notin rd), Cap)
IntendedSlots(s, q) == Pad(PushSeq(Content(s), q))
Intended(s, q) == LET t == IntendedSlots(s, q) IN [slots |-> t, index |-> InverseOf(t)]

InCache(s, id) == id >= 0 /\ id <= Cap - 1 /\ s[id + 1] # Empty

\* ---------------------------------------------------------------- ALGORITHM (cache.go, PopOrInsert)
Drop(f, x) == [y \in DOMAIN f \ {x} |-> f[y]]
Bind(f, x, v) == [y \in DOMAIN f \cup {x} |-> IF y = x THEN v ELSE f[y]]
RECURSIVE Loop(_, _, _, _)
Loop(s, ix, buf, i) ==
  IF i >= Len(buf) \/ i >= Cap THEN [slots |-> s, index |-> ix]
  ELSE LET v   == buf[i + 1]
           s1  == IF v \in DOMAIN ix THEN [s EXCEPT ![ix[v] + 1] = Empty] ELSE s   \* signatures[old] = nil
           tmp == s1[i + 1]
           s2  == [s1 EXCEPT ![i + 1] = v]                                         \* tmp, signatures[i] = signatures[i], v
           ix1 == Bind(ix, v, i)                                                   \* signIndexes[*v] = i
       IN IF tmp = Empty THEN Loop(s2, ix1, buf, i + 1)
          ELSE Loop(s2, Drop(ix1, tmp), Append(buf, tmp), i + 1)                   \* re-queue the displaced signature
AlgoPush(s, ix, q) == Loop(s, ix, q, 0)

(* the same loop on the slots alone, for caches whose index map is the inverse of the slots (then `v \in DOMAIN ix` *)
(* is `v is in a slot`); used by the trace specification, equivalence checked by AlgoSlotsOnly                     *)
RECURSIVE LoopS(_, _, _)
LoopS(s, buf, i) ==
  IF i >= Len(buf) \/ i >= Cap THEN s
  ELSE LET v   == buf[i + 1]
           at  == {j \in 1..Len(s) : s[j] = v}
           s1  == IF at # {} THEN [s EXCEPT ![CHOOSE j \in at : TRUE] = Empty] ELSE s
           tmp == s1[i + 1]
           s2  == [s1 EXCEPT ![i + 1] = v]
       IN IF tmp = Empty THEN LoopS(s2, buf, i + 1) ELSE LoopS(s2, Append(buf, tmp), i + 1)
AlgoSlots(s, q) == LoopS(s, q, 0)

(* The queues on which the loop is NOT the intent: an element of the queue is processed at loop step p - 1  *)
(* but already sits in a slot in front of that step (it is displaced and re-queued before its turn, and the *)
(* second copy then blanks the first), or it occurs twice within the first Cap elements.                    *)
Hazard(s, q) == \E p \in 1..(IF Len(q) < Cap THEN Len(q) ELSE Cap) :
                   \/ \E j \in 1..(p - 1) : s[j] = q[p]
                   \/ \E j \in 1..(p - 1) : q[j] = q[p]

\* ---------------------------------------------------------------- calls
Act(op, self, ls, hz, id, ret, err) == [op |-> op, self |-> self, ls |-> ls, hazard |-> hz, id |-> id, ret |-> ret, err |-> err]
Count == IF MaxOps = 0 THEN nops' = 0 ELSE nops < MaxOps /\ nops' = nops + 1

Push(self, ls) ==
  LET q == Queue(self, ls)  r == Intended(slots, q) IN
  /\ Count
  /\ slots' = r.slots /\ index' = r.index
  /\ act' = Act("push", self, ls, Hazard(slots, q), -1, Empty, FALSE)

(* the model of the implementation as a step (used by SigCache_MC_algo*.cfg and the hazard generator) *)
PushAlgo(self, ls) ==
  LET q == Queue(self, ls)  r == AlgoPush(slots, index, q) IN
  /\ Count
  /\ slots' = r.slots /\ index' = r.index
  /\ act' = Act("push", self, ls, Hazard(slots, q), -1, Empty, FALSE)

(* a packed reference to slot `id`: the signature in that slot, or "uncached" *)
Lookup(id) ==
  /\ Count
  /\ act' = Act("lookup", Empty, <<>>, FALSE, id, IF InCache(slots, id) THEN slots[id + 1] ELSE Empty, ~InCache(slots, id))
  /\ UNCHANGED <<slots, index>>

\* ---------------------------------------------------------------- generator shape
SeqsUpTo(S, n) == UNION {[1..k -> S] : k \in 0..n}
DupFree(q) == \A i, j \in 1..Len(q) : i # j => q[i] # q[j]
GenQ(self, ls) == Dups \/ DupFree(Queue(self, ls))
Ids == (-1)..Cap

Init == /\ slots = Pad(<<>>) /\ index = <<>> /\ nops = 0
        /\ act = Act("new", Empty, <<>>, FALSE, -1, Empty, FALSE)
Next == \/ \E self \in Sigs \cup {Empty}, ls \in SeqsUpTo(Sigs, MaxQ) : GenQ(self, ls) /\ Push(self, ls)
        \/ \E id \in Ids : Lookup(id)
Spec == Init /\ [][Next]_vars

AlgoNext == \/ \E self \in Sigs \cup {Empty}, ls \in SeqsUpTo(Sigs, MaxQ) : GenQ(self, ls) /\ PushAlgo(self, ls)
            \/ \E id \in Ids : Lookup(id)
AlgoSpec == Init /\ [][AlgoNext]_vars
View == <<slots, index>>     \* `act` only records the call: states are explored per cache content

\* ---------------------------------------------------------------- properties
(* shift semantics, stated on the transition: the queue is in front, survivors keep their relative order, *)
(* only the oldest are dropped                                                                            *)
MostRecentFirst == [][act'.op = "push" =>
   LET q == Queue(act'.self, act'.ls)  d == Dedup(q)  c == Content(slots)  c2 == Content(slots') IN
   /\ Take(c2, Len(d)) = Take(d, Cap)
   /\ LET rest == SubSeq(c2, Len(d) + 1, Len(c2))  old == SelectSeq(c, LAMBDA x : x \notin Range(d)) IN
        rest = Take(old, Len(rest))                                   \* a prefix of the survivors: eviction at the old end
   /\ Len(c2) = (IF Len(d) + Len(SelectSeq(c, LAMBDA x : x \notin Range(d))) < Cap
                 THEN Len(d) + Len(SelectSeq(c, LAMBDA x : x \notin Range(d))) ELSE Cap)]_vars
LookupFrame == [][act'.op = "lookup" => (slots' = slots /\ index' = index)]_vars

(* the loop refines the intent on every hazard-free queue (checked for every reachable state and every queue) *)
AlgoRefines == \A self \in Sigs \cup {Empty}, ls \in SeqsUpTo(Sigs, MaxQ) :
                 LET q == Queue(self, ls) IN ~Hazard(slots, q) => AlgoPush(slots, index, q) = Intended(slots, q)
AlgoSlotsOnly == IndexInverse => \A self \in Sigs \cup {Empty}, ls \in SeqsUpTo(Sigs, MaxQ) :
                   AlgoSlots(slots, Queue(self, ls)) = AlgoPush(slots, index, Queue(self, ls)).slots
(* ... and not on all queues: SigCache_MC_algo_all.cfg expects this one to be violated *)
AlgoRefinesAll == \A self \in Sigs \cup {Empty}, ls \in SeqsUpTo(Sigs, MaxQ) :
                    AlgoPush(slots, index, Queue(self, ls)) = Intended(slots, Queue(self, ls))
=============================================================================
