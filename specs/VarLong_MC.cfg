SPECIFICATION Spec
CONSTANTS
  W = 4
  Alphabet = {0, 1, 127, 128, 255}
  FreePrefix = 4
  EmitJson = TRUE
INVARIANTS TypeOK BoundedConsumption MachineAgreesWithFunction Minimal RoundTrip Emit
CHECK_DEADLOCK FALSE
