SPECIFICATION Spec
CONSTANTS
  Prod = {1, 2}
  Cons = {11, 12}
  ItemsPer = 2
  SignalOnPush = FALSE
  WithClose = FALSE
INVARIANTS ExactlyOnce PerProducerOrder DrainBeforeClosed NoParkedWithWork
PROPERTIES AllDelivered AllDone
CHECK_DEADLOCK FALSE
