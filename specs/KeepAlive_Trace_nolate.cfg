SPECIFICATION TraceSpec
CONSTANTS
  Players = {1, 2, 3, 4, 5, 6}
  P = 2
  W = 4
  MaxId = 1000000
  Variant = "code"
  AsyncChan = TRUE
  Urgent = FALSE
  AllowEarlyKick = TRUE
  AllowResurrect = FALSE
CONSTRAINT HWM
POSTCONDITION Accepted
CHECK_DEADLOCK FALSE
