SPECIFICATION PSpec
CONSTANTS
  Procs = {1, 2}
  Clients = {1, 2, 3}
  MaxCap = 2
INVARIANTS IndInv Safety
CHECK_DEADLOCK FALSE
