SPECIFICATION Spec
CONSTANTS
  Us = {1, 2}
  Sess = {0, 1}
  Idxs = {0, 1, 2}
  Msgs = {1}
  Sigs = {"none", "bad", "valid"}
  LSs <- MC_LSs
  Cts = {0, 1, 2, 3}
  NTypes = 3
  Cap = 2
  Lens <- MC_Lens
  FailSets <- MC_Fails
  Lsts <- MC_Lsts
  Variant = "intent"
VIEW View
INVARIANTS TypeOK CacheOK Agree
PROPERTIES NoPanic UnknownIsError ValidatedRule ChainRule FirstSignedRule DecorRule SendRule EventRule SystemRule
CHECK_DEADLOCK FALSE
