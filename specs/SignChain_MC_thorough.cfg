SPECIFICATION Spec
CONSTANTS
  Senders = {1, 2, 3}
  Sessions = {1, 2}
  MaxIdx = 5
  Bodies = {1, 2, 3}
  Layer = "intent"
  Desc = "gt"
  SameLastOK = TRUE
  Inject = FALSE
VIEW View
INVARIANTS TypeOK
PROPERTIES AcceptSound Monotone BrokenSticky UpdateRule FirstAccepted NextAccepted InitRule
CHECK_DEADLOCK FALSE
