SPECIFICATION Spec
CONSTANTS
  Players = {1, 2}
  P = 2
  W = 4
  MaxId = 2
  Variant = "lazy"
  AsyncChan = TRUE
  Urgent = FALSE
INVARIANTS TypeOK InOneList
PROPERTIES EventuallyPinged
CHECK_DEADLOCK TRUE
