SPECIFICATION Spec
CONSTANTS
  Users = {1}
  Slots = {1}
  SIds = {1}
  Inject = {7}
  Garble = {8}
  MaxTok = 2
  MaxCt = 1
  FaultSet <- MC_FaultsB
  Variant = "broken"
VIEW View
INVARIANTS RevokedStays
PROPERTIES RefreshRotates
CHECK_DEADLOCK FALSE
