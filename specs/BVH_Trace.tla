----------------------------- MODULE BVH_Trace ------------------------------
(* Trace validation for X05/BVH.  Every line is one call on the real server/internal/bvh objects together with    *)
(* the projection of the tree AFTER the call (`tree` = [r, n] exactly as in BVH.tla: node ids are pointer          *)
(* identities numbered smallest free id first, a node is <<kind, parent, child0, child1, lx, ly, ux, uy, value>>,  *)
(* read through the export shim).  The state BEFORE a call is the projection on the previous line, so every line   *)
(* is an independent initial state l; the numbers of the failed checks of a line are printed as                   *)
(* <<"X2FAIL", l, {checks}>> (the harness only maps them back to events).                                         *)
(*   k = "reset"                         a new Tree                                                               *)
(*   k = "ins"   box val leaf            Insert(box, val) returned the node with id leaf                          *)
(*   k = "del"   h ret                   Delete(node h) returned ret                                              *)
(*   k = "find"  test stop out           Find(test, callback): the callback was given out = <<id, box, value>>..,  *)
(*                                       it answered false at its stop-th call (0: never)                         *)
(*   k = "b2" / "b3" / "sph"  op a b outb outv outi bad     one call of a bound method (AABB over Vec2, AABB over  *)
(*                                       Vec3, Sphere over Vec2); Sphere results are given in 1/100 units, rounded *)
(* checks (state predicates are reported at the step that breaks them):                                           *)
(*   1 Binary  2 Parents  3 Connected  4 Contains  5 TightInsert  6 TightDelete                                   *)
(*   7 InsertLeaves  8 InsertShape (the tree is InsertAt for SOME sibling)  9 InsertBest (... a cost-minimal one)  *)
(*   10 DeleteLeaves  11 DeleteShape  12 FindSet  13 FindOrder  14 FindFrame  15 NoPanic  16 Fresh                *)
(*   17 AABBWithIn  18 AABBTouch  19 AABBUnion  20 AABBSurface   (two dimensions)                                 *)
(*   21 AABB3WithIn  22 AABB3Touch  23 AABB3Union  24 AABB3Surface   (three dimensions: every axis counts)         *)
(*   25 SphereWithIn  26 SphereTouch  27 SphereUnion (the union contains both operands)                           *)
EXTENDS BVH, Json

Trace == ndJsonDeserialize("trace.ndjson")

VARIABLE l
tvars == <<vars, l>>
NChecks == 27

SameTree(A, B) == A.r = B.r /\ Ids(A) = Ids(B) /\ \A i \in Ids(A) : A.n[i] = B.n[i]
WF(T) == Binary(T) /\ Parents(T) /\ Connected(T)

(* three dimensions: <<lx, ly, lz, ux, uy, uz>> *)
WithIn3(a, p)  == a[1] < p[1] /\ a[2] < p[2] /\ a[3] < p[3] /\ p[1] < a[4] /\ p[2] < a[5] /\ p[3] < a[6]
Touch3(a, b)   == a[1] < b[4] /\ a[2] < b[5] /\ a[3] < b[6] /\ b[1] < a[4] /\ b[2] < a[5] /\ b[3] < a[6]
Union3(a, b)   == <<Min2(a[1], b[1]), Min2(a[2], b[2]), Min2(a[3], b[3]), Max2(a[4], b[4]), Max2(a[5], b[5]), Max2(a[6], b[6])>>
Surface3(a)    == ((a[4] - a[1]) + (a[5] - a[2]) + (a[6] - a[3])) * 2
(* spheres <<cx, cy, r>>, r >= 0 *)
Sq(x) == x * x
Dist2(a, b) == Sq(a[1] - b[1]) + Sq(a[2] - b[2])
SWithIn(s, p) == Dist2(s, p) < Sq(s[3])
STouch(s, o)  == Dist2(s, o) < Sq(s[3] + o[3])
Tol == 2
(* u (in 1/100 units) contains s (in units) *)
SHolds(u, s) == LET d == u[3] - 100 * s[3] + Tol IN d >= 0 /\ Dist2(u, <<100 * s[1], 100 * s[2]>>) <= Sq(d)

Failed ==
  LET ev     == Trace[l]
      hasPre == l > 1 /\ ev.k # "reset"
      post   == ev.tree
      pre    == IF hasPre THEN Trace[l - 1].tree ELSE post
      Is(k)  == ev.k = k /\ hasPre
      Keeps(P(_)) == (~hasPre \/ P(pre)) => P(post)
      preL   == LeafSet(pre)
      postL  == LeafSet(post)
      newIds == Ids(post) \ (Ids(pre) \cup {ev.leaf})        \* the new inner node (rotations may move the leaf away from it)
      np     == IF Cardinality(newIds) = 1 THEN CHOOSE i \in newIds : TRUE ELSE 0
      idsOK  == ev.leaf > 0 /\ ~Valid(pre, ev.leaf) /\ (pre.r # 0 => np > 0 /\ np # ev.leaf /\ ~Valid(pre, np))
      Match(s) == SameTree(post, InsertAt(pre, s, ev.box, ev.val, ev.leaf, np))
      fits   == IF ~idsOK THEN {} ELSE IF pre.r = 0 THEN (IF Match(0) THEN {0} ELSE {}) ELSE {s \in Ids(pre) : Match(s)}
      all    == FindAbs(preL, ev.test)
      Ok(c) ==
        CASE c = 1 -> Keeps(Binary)
          [] c = 2 -> Keeps(Parents)
          [] c = 3 -> Keeps(Connected)
          [] c = 4 -> Keeps(Contains)
          [] c = 5 -> Is("ins") => Keeps(Tight)
          [] c = 6 -> Is("del") => Keeps(Tight)
          [] c = 7 -> Is("ins") => (idsOK /\ postL = preL \cup {<<ev.leaf, ev.box, ev.val>>})
          [] c = 8 -> (Is("ins") /\ WF(pre)) => fits # {}
          [] c = 9 -> (Is("ins") /\ WF(pre) /\ pre.r # 0 /\ fits # {}) => fits \cap Best(pre, ev.box) # {}
          [] c = 10 -> Is("del") => (postL = {x \in preL : x[1] # ev.h} /\ (Valid(pre, ev.h) => ev.ret = ValOf(pre, ev.h)))
          [] c = 11 -> (Is("del") /\ WF(pre) /\ Valid(pre, ev.h) /\ IsLeaf(pre, ev.h)) => SameTree(post, DeleteAt(pre, ev.h))
          [] c = 12 -> Is("find") => /\ NoDupSeq(ev.out) /\ Range(ev.out) \subseteq all
                                     /\ (ev.stop = 0 => Range(ev.out) = all)
                                     /\ (ev.stop > 0 => Len(ev.out) = Min2(ev.stop, Cardinality(all)))
          [] c = 13 -> (Is("find") /\ WF(pre)) => ev.out = FindSeq(pre, ev.test, ev.stop)
          [] c = 14 -> (Is("find") \/ ev.k \in {"b2", "b3", "sph"}) => SameTree(post, pre)
          [] c = 15 -> ev.panicked = FALSE
          [] c = 16 -> ev.k = "reset" => (post.r = 0 /\ Ids(post) = {})
          [] c = 17 -> (ev.k = "b2" /\ ev.op = "within") => ev.outb = WithIn(ev.a, ev.b)
          [] c = 18 -> (ev.k = "b2" /\ ev.op = "touch") => ev.outb = Touch(ev.a, ev.b)
          [] c = 19 -> (ev.k = "b2" /\ ev.op = "union") => ev.outv = Union(ev.a, ev.b)
          [] c = 20 -> (ev.k = "b2" /\ ev.op = "surface") => ev.outi = Surface(ev.a)
          [] c = 21 -> (ev.k = "b3" /\ ev.op = "within") => ev.outb = WithIn3(ev.a, ev.b)
          [] c = 22 -> (ev.k = "b3" /\ ev.op = "touch") => ev.outb = Touch3(ev.a, ev.b)
          [] c = 23 -> (ev.k = "b3" /\ ev.op = "union") => ev.outv = Union3(ev.a, ev.b)
          [] c = 24 -> (ev.k = "b3" /\ ev.op = "surface") => ev.outi = Surface3(ev.a)
          [] c = 25 -> (ev.k = "sph" /\ ev.op = "within") => ev.outb = SWithIn(ev.a, ev.b)
          [] c = 26 -> (ev.k = "sph" /\ ev.op = "touch") => ev.outb = STouch(ev.a, ev.b)
          [] c = 27 -> (ev.k = "sph" /\ ev.op = "union") => (ev.bad = FALSE /\ SHolds(ev.outv, ev.a) /\ SHolds(ev.outv, ev.b))
          [] OTHER -> TRUE
  IN {c \in 1..NChecks : ~Ok(c)}

Check == LET f == Failed IN f = {} \/ PrintT(<<"X2FAIL", l, f>>)

TraceInit == /\ l \in 1..Len(Trace)
             /\ tree = [r |-> 0, n |-> <<>>] /\ leaves = {}
TraceSpec == TraceInit /\ [][UNCHANGED tvars]_tvars
=============================================================================
