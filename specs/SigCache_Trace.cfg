SPECIFICATION TraceSpec
CONSTANTS
  Cap = 128
  Sigs = {}
  MaxQ = 0
  Dups = TRUE
  MaxOps = 0
INVARIANTS Check
CHECK_DEADLOCK FALSE
