----------------------------- MODULE Queue_Ind ------------------------------
(***************************************************************************)
(* X09: an inductive invariant for Queue.tla (C20, LinkedListQueue), for   *)
(* arbitrary Prod, Cons, ItemsPer, SignalOnPush, WithClose.  Queue is      *)
(* INSTANCEd unchanged (its state already carries the history: `delivered` *)
(* and `pushed`).                                                          *)
(* The sequence of everything pushed so far, in push order, is             *)
(* (items of delivered) \o items.  IndInv says about it                    *)
(*   ItemsOK    every entry <<p, k>> has p \in Prod, 1 <= k <= pushed[p]   *)
(*   Ord..      entries of one producer appear with increasing k (three    *)
(*              conjuncts: inside delivered, inside items, across)         *)
(*   Count      its length is the number of ids <<p, k>>, k <= pushed[p]   *)
(* plus the two control invariants of the module as they are.              *)
(* Deviation: the module's ExactlyOnce counts with the RECURSIVE operator  *)
(* SumPushed (CHOOSE-based; neither Apalache nor TLAPS take it).  Count /  *)
(* Safety use Cardinality(ValidIds) instead; Queue_ApaEq.tla has TLC check   *)
(* SumPushed(Prod) = Cardinality(ValidIds) on the bounded configuration,   *)
(* and that Queue_Apa (the annotated copy INSTANCEd here) has the same     *)
(* Init and Next as Queue.                                                 *)
(***************************************************************************)
EXTENDS Integers, Sequences, FiniteSets, TLC
CONSTANTS
  \* @type: Set(Int);
  Prod,
  \* @type: Set(Int);
  Cons,
  \* @type: Int;
  ItemsPer,
  \* @type: Bool;
  SignalOnPush,
  \* @type: Bool;
  WithClose
VARIABLES
  \* @type: Seq(<<Int, Int>>);
  items,
  \* @type: Bool;
  closed,
  \* @type: Int -> Str;
  cstate,
  \* @type: Int -> Int;
  pushed,
  \* @type: Seq(<<Int, <<Int, Int>>>>);
  delivered

INSTANCE Queue_Apa

CStates == {"run", "parked", "woken", "done"}
\* @type: <<Int, Int>> => Bool;
ItemOK(it) == it[1] \in Prod /\ it[2] >= 1 /\ it[2] <= pushed[it[1]]
ValidIds == {pk \in Prod \X (1..ItemsPer) : pk[2] <= pushed[pk[1]]}

TypeOK == /\ closed \in BOOLEAN
          /\ DOMAIN cstate = Cons /\ \A c \in Cons : cstate[c] \in CStates
          /\ DOMAIN pushed = Prod /\ \A p \in Prod : pushed[p] \in 0..ItemsPer
          /\ \A i \in DOMAIN items : items[i] = <<items[i][1], items[i][2]>> /\ ItemOK(items[i])
          /\ \A i \in DOMAIN delivered :
                /\ delivered[i] = <<delivered[i][1], <<delivered[i][2][1], delivered[i][2][2]>>>>
                /\ delivered[i][1] \in Cons /\ ItemOK(delivered[i][2])
\* "is a sequence": known to Apalache from the type annotations, stated for TLC and TLAPS only (see ChanQueue_Ind)
\* (and "ValidIds is finite": every set is finite for Apalache)
SeqTyped == /\ items \in Seq(Prod \X (1..ItemsPer)) /\ delivered \in Seq(Cons \X (Prod \X (1..ItemsPer)))
            /\ IsFiniteSet(ValidIds)

OrdDD == \A i, j \in DOMAIN delivered :
           (i < j /\ delivered[i][2][1] = delivered[j][2][1]) => delivered[i][2][2] < delivered[j][2][2]
OrdII == \A i, j \in DOMAIN items : (i < j /\ items[i][1] = items[j][1]) => items[i][2] < items[j][2]
OrdDI == \A i \in DOMAIN delivered : \A j \in DOMAIN items :
           delivered[i][2][1] = items[j][1] => delivered[i][2][2] < items[j][2]
Count == Len(delivered) + Len(items) = Cardinality(ValidIds)

IndInv == /\ TypeOK /\ OrdDD /\ OrdII /\ OrdDI /\ Count
          /\ DrainBeforeClosed /\ NoParkedWithWork
IndInvT == IndInv /\ SeqTyped

\* the module's ExactlyOnce with the sum written as a cardinality
ExactlyOnceC == /\ \A i, j \in DOMAIN delivered : i # j => delivered[i][2] # delivered[j][2]
                /\ \A i \in DOMAIN delivered : delivered[i][2][1] \in Prod
                                               /\ delivered[i][2][2] >= 1 /\ delivered[i][2][2] <= pushed[delivered[i][2][1]]
                /\ Len(delivered) + Len(items) = Cardinality(ValidIds)
Safety == ExactlyOnceC /\ OrdDD /\ DrainBeforeClosed /\ NoParkedWithWork
\* ---- self-test 1: the cross-ordering conjunct dropped
IndInvWeak == /\ TypeOK /\ OrdDD /\ OrdII /\ Count
              /\ DrainBeforeClosed /\ NoParkedWithWork

\* ---- self-test 2: a Take that removes the head but hands out the LAST element (LIFO for a queue of two)
TakeMut(c) ==
  /\ CanRun(c) /\ items # <<>>
  /\ delivered' = Append(delivered, <<c, items[Len(items)]>>)
  /\ items' = Tail(items)
  /\ cstate' = [cstate EXCEPT ![c] = "run"]
  /\ UNCHANGED <<closed, pushed>>
NextMut == Next \/ \E c \in Cons : TakeMut(c)
=============================================================================
