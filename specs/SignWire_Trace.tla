--------------------------- MODULE SignWire_Trace ---------------------------
(* Trace validation for the wire forms of chat/sign (X10).  Every line is one value of one kind: `val` the abstract value *)
(* the harness asked for, `wbytes` what the real WriteTo wrote (`wn` bytes reported), `input` = protocol bytes (from a    *)
(* TLC vector or written by the harness' own concretiser) followed by `tail` foreign bytes, and what the real ReadFrom     *)
(* made of them (`rval` re-projected, `rn` bytes reported, `left` bytes unread); short: the same value with `cut` bytes    *)
(* removed from its end (`serr`).  Every line is an independent initial state; failed checks are printed as                *)
(* <<"X2FAIL", l, {10 * kind + check}>> with kind 1 body, 2 hupd, 3 hmsg, 4 fmask, 5 session, 6 sig, 7 hupdz.              *)
(* checks: 1 NoPanic  2 Write  3 Read  4 ReadShort  5 Concretiser (the harness' own bytes are not Enc(val): harness bug)   *)
(*         6 FilterMaskType (a type above 2 is no filter mask: reading of the protocol)                                    *)
EXTENDS SignWire
Trace == ndJsonDeserialize("trace.ndjson")
VARIABLE l
NChecks == 6
KindIx(k) == CASE k = "body" -> 1 [] k = "hupd" -> 2 [] k = "hmsg" -> 3 [] k = "fmask" -> 4 [] k = "session" -> 5 [] k = "sig" -> 6 [] k = "hupdz" -> 7
Failed ==
  LET ev == Trace[l]
      proper == ~(ev.k = "fmask" /\ ev.val.type > 2)
      e  == IF proper THEN EncOf(ev.k, ev.val) ELSE W!VarEnc(W!NumBytes(ev.val.type, 4))
      Ok(c) ==
        CASE c = 1 -> ev.panicked = FALSE
          [] c = 2 -> (proper /\ ev.wrote) => (ev.werr = FALSE /\ ev.wbytes = e /\ ev.wn = Len(e))
          [] c = 3 -> (proper /\ ev.input = e \o ev.tail) => (ev.rerr = FALSE /\ ev.rval = ev.val /\ ev.rn = Len(e) /\ ev.left = Len(ev.tail))
          [] c = 4 -> (proper /\ ev.cut > 0 /\ ev.cut <= Len(e)) => ev.serr = TRUE
          [] c = 5 -> ev.input = e \o ev.tail
          [] c = 6 -> ~proper => ev.rerr = TRUE
          [] OTHER -> TRUE
  IN {10 * KindIx(ev.k) + c : c \in {c \in 1..NChecks : ~Ok(c)}}
Check == LET f == Failed IN f = {} \/ PrintT(<<"X2FAIL", l, f>>)
TraceInit == l \in 1..Len(Trace) /\ vec = [kind |-> "none"]
TraceSpec == TraceInit /\ [][UNCHANGED <<vec, l>>]_<<vec, l>>
=============================================================================
