--------------------------- MODULE WorldStore_Gen ---------------------------
(* Behaviour generator for leg A of X13: WorldStore simulated by TLC with Variant = "code" (the layers as go-mc *)
(* has them: Data(1|2) leaves the compressed stream open, ChunkToSave leaves block_entities alone, Data fails  *)
(* on unset RawMessage fields), so that `seen` - the abstraction of what the layers hold after every step - is *)
(* what the real pipeline is expected to show.  Level contents are built from a few shape parameters instead   *)
(* of a set of records; lengths are the sector boundaries (one sector, 255 sectors) and one "natural" length   *)
(* (100: no ballast).  This module only chooses which behaviours are replayed; it proves nothing.              *)
EXTENDS WorldStore

VARIABLES arg, seen
gvars == <<vars, arg, seen>>

SV == << [b |-> <<0>>, m |-> <<0>>], [b |-> <<1>>, m |-> <<2>>], [b |-> <<1, 0>>, m |-> <<1>>], [b |-> <<2, 3, 1>>, m |-> <<0, 3>>],
         [b |-> <<4, 0, 5, 6>>, m |-> <<1, 2, 3, 4>>], [b |-> <<7, 8, 9, 10, 11, 12, 13, 14, 15, 16, 17, 18, 19, 20, 21, 22, 23>>, m |-> <<5>>] >>
EntSets == << <<>>, << <<3, 15, -7, 2, 1>> >>, << <<0, 0, 64, 5, 2>>, <<15, 1, 300, 9, 3>> >> >>
HMs == << <<0, 0, 0, 0, 0, 0>>, <<1, 2, 3, 4, 5, 6>>, <<2, 2, 1, 1, 7, 8>> >>
Shape(n, a, b, st, h, e) ==
  [ents |-> EntSets[e], hm |-> HMs[h], secs |-> [k \in 1..n |-> SV[((a + k * b) % Len(SV)) + 1]], status |-> st]
DstOf(y, k, r) == [bents |-> <<>>, bulk |-> k, dv |-> IF y = 0 THEN 0 ELSE 3700 + y, raws |-> r, ypos |-> y]
NatLen == 100
GenLens(k) == IF k = 0 THEN {NatLen} ELSE {4092, 4093, 1044476, 1044477}
Note(c, d, kind) == arg' = [c |-> c, d |-> d, kind |-> kind] /\ seen' = [j \in Idx |-> Abs(sect'[j])]

GenNext ==
  \/ \E i \in Idx, n \in {1, 2, 3, 24}, b \in 0..2, e \in 1..3, y \in {0, -4}, k \in {0, 0, 1, 2}, r \in {TRUE, TRUE, TRUE, FALSE}, ct \in {0, 1, 2, 3, 3, 3, 4} :
        \E len \in GenLens(k) :
          LET c == Shape(n, nops % 6, b, 1 + (nops % 5), 1 + (nops % 3), e)  d == DstOf(y, k, r) IN
          /\ (ct # 3 => len # 1044477)
          /\ PutChunk(i, c, d, ct, len) /\ Note(c, d, "")
  \/ \E i \in Idx, n \in {1, 2, 5}, b \in 0..2, e \in 1..3, y \in {0, -4, 3}, k \in {0, 1}, ct \in ValidCT :
        \E len \in GenLens(k) :
          LET c == Shape(n, (nops + 1) % 6, b, 1 + (nops % 5), 1 + (nops % 3), e)  d == DstOf(y, k, TRUE) IN
          ExtPut(i, Visible(c, d, Coords[i]), ct, len) /\ Note(c, d, "")
  \/ \E i \in Idx, kind \in {"unknownct", "cut", "mismatch", "empty"} : nops % 4 = 3 /\ Corrupt(i, kind) /\ Note(None, None, kind)
  \/ \E i \in Idx : GetChunk(i) /\ Note(None, None, "")
  \/ \E i \in Idx : Relay(i) /\ Note(None, None, "")
  \/ (nops % 3 = 1 /\ Reopen /\ Note(None, None, ""))
GenInit == Init /\ arg = [c |-> None, d |-> None, kind |-> ""] /\ seen = [j \in Idx |-> Absent]
GenSpec == GenInit /\ [][GenNext]_gvars
(* what the generator relies on: the layers never hold more than the limits allow *)
GenOK == SizeOK
=============================================================================
