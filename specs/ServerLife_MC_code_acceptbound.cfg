SPECIFICATION Spec
CONSTANTS
  Clients = {1, 2}
  K = 1
  Layer = "code"
  Broken = "none"
  Intents = {2}
  CfgModes = {"real"}
INVARIANTS AcceptBound

CHECK_DEADLOCK FALSE
