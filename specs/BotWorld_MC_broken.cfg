SPECIFICATION Spec
CONSTANTS
  Coords = {0, 1}
  Toks = {1, 2}
  NDims = 2
  Dims = {0, 1, 2}
  Variant = "broken"
VIEW View
INVARIANTS TypeOK
PROPERTIES SpawnRule
CHECK_DEADLOCK FALSE
