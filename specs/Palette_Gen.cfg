SPECIFICATION GenSpec
CONSTANTS
  Kinds = {"blocks", "biomes"}
  RegBitsBlocks = 15
  RegBitsBiomes = 6
  PrefillBlocks = {0, 14, 15, 30, 31, 62, 63, 126, 127, 254, 255}
  PrefillBiomes = {0, 1, 2, 3, 6, 7}
  LenSel = "real"
  SaveLensBlocks = {1, 2, 3, 15, 16, 17, 32, 33, 100, 256}
  SaveLensBiomes = {1, 2, 3, 4}
INVARIANTS TypeOK
CHECK_DEADLOCK FALSE
