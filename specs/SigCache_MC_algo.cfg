\* the loop of PopOrInsert as a state machine, every queue (hazards included): the index map stays the exact
\* inverse of the slots and no signature is cached twice - expected to hold
SPECIFICATION AlgoSpec
CONSTANTS
  Cap = 3
  Sigs = {1, 2, 3, 4, 5}
  MaxQ = 3
  Dups = TRUE
  MaxOps = 0
VIEW View
INVARIANTS TypeOK IndexInverse NoDup CapOK AlgoSlotsOnly
CHECK_DEADLOCK FALSE
