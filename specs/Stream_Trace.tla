---------------------------- MODULE Stream_Trace ----------------------------
(* Per-schedule trace validation for C09: the real decoder/encoder was run under  *)
(* a scripted transport; `need`, the contiguous result and its byte count come     *)
(* from the contiguous run of the same real code (the property's own oracle).      *)
EXTENDS Stream
Trace == ndJsonDeserialize("trace.ndjson")
VARIABLE l
TraceInit == /\ l \in 1..Len(Trace)
             /\ total = 0 /\ need = 0 /\ segs = <<>> /\ fault = NoFault /\ pos = 0 /\ got = 0 /\ status = "trace"
TraceSpec == TraceInit /\ [][UNCHANGED <<vars, l>>]_<<vars, l>>
E == Trace[l]
ReadOK == E.k = "read" =>
  LET want == Demand(E.need, E.fault, E.len) IN
  /\ E.panicked = FALSE
  /\ Sum(E.segs) = E.len
  /\ want = "ok" => /\ E.ok /\ E.same               \* same value as the contiguous read
                    /\ E.n = E.cn                    \* same reported byte count
                    /\ E.cn >= 0 => E.cn = E.need   \* ... which is the number of bytes the value occupies
                    /\ E.consumed = E.need           \* same residual stream
  /\ want = "error" => ~E.ok                         \* a failure before the end of the value is never swallowed
WriteOK == E.k = "write" =>
  /\ E.panicked = FALSE
  /\ WriterDemand(E.size, E.limit) = "error" => ~E.ok
  /\ WriterDemand(E.size, E.limit) = "ok" => E.ok /\ E.same
=============================================================================
