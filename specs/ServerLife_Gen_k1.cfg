SPECIFICATION GSpec
CONSTANTS
  Clients = {1, 2, 3, 4}
  K = 1
  Layer = "code"
  Broken = "none"
  Intents = {1, 2, 3}
  CfgModes = {"real", "wait"}
CHECK_DEADLOCK FALSE
