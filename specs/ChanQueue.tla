----------------------------- MODULE ChanQueue ------------------------------
(***************************************************************************)
(* net/queue.ChannelQueue (C20): a bounded FIFO buffer.  Push never blocks *)
(* (it refuses when the buffer is full), Pull blocks until an item or the  *)
(* close arrives, Close lets the remaining items drain first.  The object  *)
(* has no lock to hook, so calls are modelled with an explicit             *)
(* linearization step between their start and their end.                   *)
(***************************************************************************)
EXTENDS Integers, Sequences, FiniteSets, TLC

CONSTANTS Procs, Cap, Values
VARIABLES buf, closed, pend   \* pend[g] = [op, v, lin, ok, r]  (op = "none" when idle)
cvars == <<buf, closed, pend>>
NoCall == [op |-> "none", v |-> 0, lin |-> FALSE, ok |-> FALSE, r |-> 0]

CInit == buf = <<>> /\ closed = FALSE /\ pend = [g \in Procs |-> NoCall]

Start(g, op, v) == /\ pend[g].op = "none"
                   /\ pend' = [pend EXCEPT ![g] = [op |-> op, v |-> v, lin |-> FALSE, ok |-> FALSE, r |-> 0]]
                   /\ UNCHANGED <<buf, closed>>

LinCap(g, k) ==
          /\ pend[g].op # "none" /\ ~pend[g].lin
          /\ \/ /\ pend[g].op = "push" /\ ~closed
                /\ IF Len(buf) < k
                     THEN buf' = Append(buf, pend[g].v) /\ pend' = [pend EXCEPT ![g].lin = TRUE, ![g].ok = TRUE]
                     ELSE buf' = buf /\ pend' = [pend EXCEPT ![g].lin = TRUE, ![g].ok = FALSE]   \* refuses, never blocks
                /\ UNCHANGED closed
             \/ /\ pend[g].op = "pull" /\ buf # <<>>
                /\ buf' = Tail(buf) /\ pend' = [pend EXCEPT ![g].lin = TRUE, ![g].ok = TRUE, ![g].r = Head(buf)]
                /\ UNCHANGED closed
             \/ /\ pend[g].op = "pull" /\ buf = <<>> /\ closed          \* closure only after the buffer drained
                /\ pend' = [pend EXCEPT ![g].lin = TRUE, ![g].ok = FALSE]
                /\ UNCHANGED <<buf, closed>>
             \/ /\ pend[g].op = "close" /\ ~closed
                /\ closed' = TRUE /\ pend' = [pend EXCEPT ![g].lin = TRUE, ![g].ok = TRUE]
                /\ UNCHANGED buf

Lin(g) == LinCap(g, Cap)

End(g, ok, r) == /\ pend[g].op # "none" /\ pend[g].lin
                 /\ pend[g].ok = ok /\ (pend[g].op = "pull" /\ ok => pend[g].r = r)
                 /\ pend' = [pend EXCEPT ![g] = NoCall]
                 /\ UNCHANGED <<buf, closed>>

CNext == \E g \in Procs :
           \/ \E v \in Values : Start(g, "push", v)
           \/ Start(g, "pull", 0) \/ Start(g, "close", 0)
           \/ Lin(g)
           \/ \E ok \in BOOLEAN, r \in Values \cup {0} : End(g, ok, r)
CSpec == CInit /\ [][CNext]_cvars

Bounded == Len(buf) <= Cap
NoDup == \A i, j \in 1..Len(buf) : i # j => buf[i] # buf[j]
=============================================================================
