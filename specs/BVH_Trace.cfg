SPECIFICATION TraceSpec
CONSTANTS
  Boxes = {}
  Tests = {}
  Vals = {}
  MaxLeaves = 1
  AnySibling = FALSE
  RefitRootOnDelete = FALSE
  Bug = 0
INVARIANTS Check
CHECK_DEADLOCK FALSE
