SPECIFICATION Spec
CONSTANTS
  Kinds = {"blocks", "biomes"}
  RegBitsBlocks = 15
  RegBitsBiomes = 6
  PrefillBlocks = {0, 14, 15, 30, 31}
  PrefillBiomes = {0, 1, 2, 3, 6, 7}
  LenSel = "tight"
  SaveLensBlocks = {1, 2, 16, 17}
  SaveLensBiomes = {1, 2, 4, 5}
VIEW View
INVARIANTS TypeOK CanonOK SomeFits
PROPERTIES Frame Results
CHECK_DEADLOCK FALSE
