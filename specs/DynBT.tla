------------------------------- MODULE DynBT --------------------------------
(***************************************************************************)
(* X10 (a): nbt/dynbt as a value-BUILDING API (types.go, update.go,         *)
(* encode.go, decode.go).  As a byte-exact carrier of decoded documents     *)
(* dynbt.Value is the subject of C02; here the constructors, the accessors,  *)
(* Get / Set / Compound and the Marshaler / Unmarshaler pair are specified   *)
(* as ONE object: a heap of values.                                         *)
(*                                                                         *)
(* The package documents that it does not copy ("tries its best to not copy *)
(* data ... returns the underlying data"): NewList keeps the *Value it is    *)
(* given, Set stores the pointer, Get / List / Visit hand out the pointers   *)
(* that are stored.  So the abstract state is a HEAP: id -> node, a node    *)
(* being a node of NBT.tla whose children are ids:                          *)
(*   [t |-> 1..8 | 11 | 12, v |-> payload as in NBT.tla]                    *)
(*   [t |-> 9, et |-> element type the list was DECODED with (0 for a list  *)
(*                    made by NewList), v |-> sequence of ids]              *)
(*   [t |-> 10, v |-> sequence of [k |-> name bytes, n |-> id]]             *)
(*   [t |-> 0]   the zero Value (only as a decode target)                   *)
(* Tree(h, i) unfolds a value into a tree of NBT.tla; what the real encoder *)
(* writes for value i must be N!EncDoc(fmt, name, Tree(h, i)) - TLC computes*)
(* the bytes.  The element type in a list header is the tag of the FIRST    *)
(* element (encode.go), `et` only when the list is empty.                   *)
(*                                                                         *)
(* One action per public operation: NewLeaf (NewBoolean .. NewLongArray,    *)
(* NewString), NewList, NewCompound, Set (Value.Set / Compound.Set:         *)
(* replaces the FIRST entry of that name in place, else appends), Decode    *)
(* (UnmarshalNBT into a fresh or an EXISTING value: the value is            *)
(* overwritten in place, all descendants are new), and the read-only        *)
(* operations as functions (GetId, Acc, Tree/EncDoc).                       *)
(*                                                                         *)
(* INTENT vs CODE.  NBT lists are homogeneous.  NewList takes any elements  *)
(* and MarshalNBT writes the first element's tag over all of them, so a     *)
(* mixed list is written as a document that is not NBT (nil error).         *)
(* ListChecked = TRUE is the intent (mixed lists are not constructible: the *)
(* constructor / the encoder refuses them), FALSE is the code as written -  *)
(* TLC must then reject AllWellFormed (DynBT_MC_code.cfg).  Decoding INTO   *)
(* an element of a list (possible, every *Value is an Unmarshaler) can      *)
(* change its tag under the list: under the intent only values that are not *)
(* list elements are decode targets.                                        *)
(* SetMode = "first" is the behaviour; "append" (Set always appends) and    *)
(* "last" (replaces the last entry of that name) are broken on purpose      *)
(* (vacuity guards: TLC must reject SetRule).                               *)
(*                                                                         *)
(* Deliberately not modelled: a value set into itself or into one of its    *)
(* descendants (MarshalNBT then recurses for ever - not generated, named in *)
(* the notes); Set with a nil *Value; modifying the slices handed out by    *)
(* List / ByteArray ("Don't modify them!"); strings above 32767 bytes.      *)
(***************************************************************************)
EXTENDS Integers, Sequences, SequencesExt, FiniteSets, TLC

CONSTANTS MaxIds,       \* bound on the heap (exhaustive configurations)
          MaxKids,      \* longest list NewList is given
          ListChecked,  \* TRUE: intent (homogeneous lists only) ; FALSE: the code as written
          SetMode,      \* "first" | "append" | "last"
          Wide          \* larger universe of leaves (thorough / generator)

N == INSTANCE NBT WITH Fmts <- {}, Quick <- TRUE, EmitJson <- FALSE, doc <- [t |-> 0], fmt <- "network"

VARIABLES heap,   \* sequence of nodes; id = position
          act     \* history: the last operation and what it answered
vars == <<heap, act>>
View == heap

Ids(h) == DOMAIN h
Kids(x) == CASE x.t = 9 -> x.v
             [] x.t = 10 -> [j \in 1..Len(x.v) |-> x.v[j].n]
             [] OTHER -> <<>>

\* ---------------------------------------------------------------- unfolding
RECURSIVE Tree(_, _)
Tree(h, i) ==
  LET x == h[i] IN
  CASE x.t = 9  -> [t |-> 9, et |-> IF x.v = <<>> THEN x.et ELSE h[x.v[1]].t, v |-> [j \in 1..Len(x.v) |-> Tree(h, x.v[j])]]
    [] x.t = 10 -> [t |-> 10, v |-> [j \in 1..Len(x.v) |-> [k |-> x.v[j].k, n |-> Tree(h, x.v[j].n)]]]
    [] OTHER    -> x

\* ids reachable from i (i included)
RECURSIVE ReachFrom(_, _, _)
ReachFrom(h, todo, seen) ==
  IF todo = {} THEN seen
  ELSE LET i == CHOOSE j \in todo : TRUE
           ks == {Kids(h[i])[j] : j \in 1..Len(Kids(h[i]))} IN
       ReachFrom(h, (todo \cup ks) \ (seen \cup {i}), seen \cup {i})
Reach(h, i) == ReachFrom(h, {i}, {})
Acyclic(h) == \A i \in Ids(h) : \A j \in 1..Len(Kids(h[i])) : i \notin Reach(h, Kids(h[i])[j])
ChildOK(h) == \A i \in Ids(h) : \A j \in 1..Len(Kids(h[i])) : Kids(h[i])[j] \in Ids(h)

\* a tree that IS an NBT document: every list holds elements of one tag (and no End values), no End value under a name
RECURSIVE WF(_)
WF(x) == CASE x.t = 9  -> /\ \A j \in 1..Len(x.v) : x.v[j].t = x.et /\ x.v[j].t # 0 /\ WF(x.v[j])
                          /\ x.et \in 0..12
        [] x.t = 10 -> \A j \in 1..Len(x.v) : x.v[j].n.t # 0 /\ WF(x.v[j].n)
        [] OTHER    -> TRUE
Homogeneous(h, s) == \A a, b \in 1..Len(s) : h[s[a]].t = h[s[b]].t
InSomeList(h, i) == \E p \in Ids(h) : h[p].t = 9 /\ \E j \in 1..Len(h[p].v) : h[p].v[j] = i

\* ---------------------------------------------------------------- Get / Set
FirstPos(kvs, k) == LET S == {j \in 1..Len(kvs) : kvs[j].k = k} IN IF S = {} THEN 0 ELSE CHOOSE j \in S : \A q \in S : j <= q
LastPos(kvs, k) == LET S == {j \in 1..Len(kvs) : kvs[j].k = k} IN IF S = {} THEN 0 ELSE CHOOSE j \in S : \A q \in S : j >= q
\* Value.Get(keys...): 0 = nil.  No key: the value itself; a key on a value that is no compound: nil
RECURSIVE GetId(_, _, _)
GetId(h, i, keys) ==
  IF keys = <<>> THEN i
  ELSE IF h[i].t # 10 THEN 0
  ELSE LET p == FirstPos(h[i].v, keys[1]) IN IF p = 0 THEN 0 ELSE GetId(h, h[i].v[p].n, Tail(keys))
SetKV(kvs, k, x) ==
  LET p == IF SetMode = "first" THEN FirstPos(kvs, k) ELSE IF SetMode = "last" THEN LastPos(kvs, k) ELSE 0 IN
  IF p = 0 THEN Append(kvs, [k |-> k, n |-> x]) ELSE [kvs EXCEPT ![p].n = x]

\* ---------------------------------------------------------------- accessors (all of them, on any node)
Zero(w) == [i \in 1..w |-> 0]
IsNaN(p) ==   \* a float32 / float64 pattern that is a NaN (which one is not specified)
  IF Len(p) = 4 THEN (p[1] % 128 = 127 /\ p[2] >= 128) /\ (p[2] % 128 # 0 \/ p[3] # 0 \/ p[4] # 0)
  ELSE (p[1] % 128 = 127 /\ p[2] >= 240) /\ (p[2] % 16 # 0 \/ \E i \in 3..8 : p[i] # 0)
Acc(x) == [tag |-> x.t,
           boolean |-> (x.t = 1 /\ x.v[1] # 0),
           byte  |-> IF x.t = 1 THEN x.v ELSE Zero(1),
           short |-> IF x.t = 2 THEN x.v ELSE Zero(2),
           int   |-> IF x.t = 3 THEN x.v ELSE Zero(4),
           long  |-> IF x.t = 4 THEN x.v ELSE Zero(8),
           float |-> IF x.t = 5 THEN x.v ELSE <<"nan">>,
           double |-> IF x.t = 6 THEN x.v ELSE <<"nan">>,
           str   |-> IF x.t = 8 THEN x.v ELSE <<>>,
           ba    |-> IF x.t = 7 THEN x.v ELSE <<>>,   banil |-> x.t # 7,
           ia    |-> IF x.t = 11 THEN x.v ELSE <<>>,  ianil |-> x.t # 11,
           la    |-> IF x.t = 12 THEN x.v ELSE <<>>,  lanil |-> x.t # 12,
           list  |-> IF x.t = 9 THEN x.v ELSE <<>>,
           compnil |-> x.t # 10]
\* comparison of a real accessor record with the abstract one: wrong-type Float / Double answer SOME NaN
AccSame(real, want) ==
  /\ \A f \in DOMAIN want \ {"float", "double"} : real[f] = want[f]
  /\ \A f \in {"float", "double"} : IF want[f] = <<"nan">> THEN IsNaN(real[f]) ELSE real[f] = want[f]

\* ---------------------------------------------------------------- decoding into a value
\* Install(h, i, x): value i becomes the root of tree x; the children of a node get consecutive new ids when the node
\* is installed, then every child is installed in order (the harness numbers the new *Value objects the same way).
RECURSIVE Install(_, _, _), InstallSeq(_, _, _, _)
Install(h, i, x) ==
  LET n == IF x.t \in {9, 10} THEN Len(x.v) ELSE 0
      base == Len(h)
      grown == h \o [j \in 1..n |-> [t |-> 0]] IN
  CASE x.t = 9  -> InstallSeq([grown EXCEPT ![i] = [t |-> 9, et |-> x.et, v |-> [j \in 1..n |-> base + j]]], base, x.v, 1)
    [] x.t = 10 -> InstallSeq([grown EXCEPT ![i] = [t |-> 10, v |-> [j \in 1..n |-> [k |-> x.v[j].k, n |-> base + j]]]],
                              base, [j \in 1..n |-> x.v[j].n], 1)
    [] OTHER    -> [h EXCEPT ![i] = x]
InstallSeq(h, base, xs, j) == IF j > Len(xs) THEN h ELSE InstallSeq(Install(h, base + j, xs[j]), base, xs, j + 1)
RECURSIVE Size(_), SizeSeq(_)
SizeSeq(s) == IF s = <<>> THEN 0 ELSE Size(Head(s)) + SizeSeq(Tail(s))
Size(x) == CASE x.t = 9  -> 1 + SizeSeq(x.v)
             [] x.t = 10 -> 1 + SizeSeq([j \in 1..Len(x.v) |-> x.v[j].n])
             [] OTHER -> 1

\* ---------------------------------------------------------------- universe of the exhaustive configurations
Leaves == IF Wide
          THEN {[t |-> 1, v |-> <<1>>], [t |-> 2, v |-> <<128, 7>>], [t |-> 8, v |-> <<97>>], [t |-> 7, v |-> <<>>],
                [t |-> 11, v |-> <<<<255, 0, 0, 1>>>>]}
          ELSE {[t |-> 1, v |-> <<1>>], [t |-> 2, v |-> <<128, 7>>], [t |-> 8, v |-> <<97>>]}
KeySet == {<<97>>, <<>>}
Name == <<110>>
Fmts == {"network", "file"}
KidSeqs(h) == UNION {[1..n -> Ids(h)] : n \in 0..MaxKids}

Init == heap = <<>> /\ act = [op |-> "init"]

NewLeaf(x) == /\ Len(heap) < MaxIds
              /\ heap' = Append(heap, x)
              /\ act' = [op |-> "new", id |-> Len(heap) + 1, node |-> x]
NewList(s) == /\ Len(heap) < MaxIds
              /\ ListChecked => Homogeneous(heap, s)
              /\ heap' = Append(heap, [t |-> 9, et |-> 0, v |-> s])
              /\ act' = [op |-> "newlist", id |-> Len(heap) + 1, kids |-> s]
NewCompound == /\ Len(heap) < MaxIds
               /\ heap' = Append(heap, [t |-> 10, v |-> <<>>])
               /\ act' = [op |-> "newcomp", id |-> Len(heap) + 1]
\* Value.Set panics on a value that is no compound ("cannot set non-Compound Tag"): nothing changes
Set(c, k, x) == /\ c \notin Reach(heap, x)                       \* no value inside itself (not modelled)
                /\ heap[x].t # 0
                /\ IF heap[c].t = 10
                   THEN heap' = [heap EXCEPT ![c].v = SetKV(@, k, x)]
                   ELSE UNCHANGED heap
                /\ act' = [op |-> "set", c |-> c, key |-> k, x |-> x, panic |-> heap[c].t # 10]
\* UnmarshalNBT of document b (format f) into value i (i = Len(heap) + 1: a fresh zero Value)
DecodeDoc(i, f, b) ==
  LET d == N!DecDoc(f, b)
      h0 == IF i = Len(heap) + 1 THEN Append(heap, [t |-> 0]) ELSE heap IN
  /\ d.ok /\ d.tree.t # 0
  /\ Len(h0) + Size(d.tree) - 1 <= MaxIds
  /\ (ListChecked /\ i <= Len(heap)) => ~InSomeList(heap, i)
  /\ heap' = Install(h0, i, d.tree)
  /\ act' = [op |-> "dec", id |-> i, fmt |-> f, bytes |-> b]
\* documents that no history of constructors writes: a compound that names one key twice (the decoder keeps both)
DupDoc == [t |-> 10, v |-> <<[k |-> <<97>>, n |-> [t |-> 1, v |-> <<1>>]], [k |-> <<97>>, n |-> [t |-> 8, v |-> <<97>>]]>>]
ExtraDocs(f) == {N!EncDoc(f, Name, DupDoc)}

Next == \/ \E x \in Leaves : NewLeaf(x)
        \/ \E s \in KidSeqs(heap) : NewList(s)
        \/ NewCompound
        \/ \E c, x \in Ids(heap), k \in KeySet : Set(c, k, x)
        \/ \E i \in 1..(Len(heap) + 1), s \in Ids(heap) :        \* (both formats decode to the same tree: RoundTrip; one is enough here)
              heap[s].t # 0 /\ DecodeDoc(i, "network", N!EncDoc("network", Name, Tree(heap, s)))
        \/ \E i \in 1..(Len(heap) + 1), f \in Fmts : \E b \in ExtraDocs(f) : DecodeDoc(i, f, b)
Spec == Init /\ [][Next]_vars

\* ---------------------------------------------------------------- properties
TypeOK == ChildOK(heap) /\ Acyclic(heap)
AllWellFormed == \A i \in Ids(heap) : WF(Tree(heap, i))
\* what is written for a well-formed value reads back as the same tree and nothing else; written again it is the same bytes
RoundTrip == \A i \in Ids(heap), f \in Fmts :
  LET t == Tree(heap, i) IN
  (WF(t) /\ t.t # 0) =>
     LET e == N!EncDoc(f, Name, t)  d == N!DecDoc(f, e \o <<10, 0>>) IN
     /\ d.ok /\ d.n = Len(e) /\ d.tree = t
     /\ N!EncDoc(f, Name, d.tree) = e
\* what is written for a value that is NOT well-formed is not a document of that tree (this is why the intent forbids them)
IllFormedIsGarbage == \A i \in Ids(heap) :
  LET t == Tree(heap, i) IN
  (~WF(t) /\ t.t # 0) => LET d == N!DecDoc("network", N!EncDoc("network", Name, t)) IN ~(d.ok /\ d.tree = t /\ d.n = Len(N!EncDoc("network", Name, t)))

\* Set: the first entry of that name is replaced IN PLACE (position and all other entries kept), else the entry is appended;
\* afterwards Get answers the value that was set; nothing else in the heap changes
SetRule == [][(act'.op = "set" /\ ~act'.panic) =>
                LET c == act'.c  k == act'.key  x == act'.x  old == heap[c].v  new == heap'[c].v  p == FirstPos(old, k) IN
                /\ (p # 0 => /\ Len(new) = Len(old)
                             /\ \A j \in 1..Len(old) : new[j].k = old[j].k /\ new[j].n = (IF j = p THEN x ELSE old[j].n))
                /\ (p = 0 => /\ Len(new) = Len(old) + 1 /\ SubSeq(new, 1, Len(old)) = old
                             /\ new[Len(new)] = [k |-> k, n |-> x])
                /\ GetId(heap', c, <<k>>) = x
                /\ \A i \in Ids(heap) \ {c} : heap'[i] = heap[i]
                /\ Len(heap') = Len(heap)]_vars
SetPanicRule == [][(act'.op = "set" /\ act'.panic) => heap' = heap]_vars
\* constructors: one new value, nothing else changes; a list holds exactly the values it was given (no copy)
NewRule == [][act'.op \in {"new", "newlist", "newcomp"} =>
                /\ Len(heap') = Len(heap) + 1 /\ SubSeq(heap', 1, Len(heap)) = heap /\ act'.id = Len(heap')
                /\ (act'.op = "new" => heap'[act'.id] = act'.node)
                /\ (act'.op = "newlist" => heap'[act'.id].t = 9 /\ heap'[act'.id].v = act'.kids)
                /\ (act'.op = "newcomp" => heap'[act'.id] = [t |-> 10, v |-> <<>>])]_vars
\* decode: the target IS the decoded tree, every descendant is a new value held exactly once, the rest is untouched -
\* so every holder of the target sees the new content (the target was overwritten in place)
DecodeRule == [][act'.op = "dec" =>
                LET i == act'.id  d == N!DecDoc(act'.fmt, act'.bytes)
                    old == Ids(heap)  new == Ids(heap') \ (old \cup {i}) IN
                /\ Tree(heap', i) = d.tree
                /\ \A j \in old \ {i} : heap'[j] = heap[j]
                /\ Reach(heap', i) \ {i} = new
                /\ \A j \in new : Cardinality({p \in Ids(heap') : \E q \in 1..Len(Kids(heap'[p])) : Kids(heap'[p])[q] = j}) = 1
                /\ \A j \in new \cup {i} : \A q1, q2 \in 1..Len(Kids(heap'[j])) : q1 # q2 => Kids(heap'[j])[q1] # Kids(heap'[j])[q2]]_vars
=============================================================================
