SPECIFICATION TraceSpec
POSTCONDITION Accepted
CHECK_DEADLOCK FALSE
