---------------------------- MODULE DynBT_Trace -----------------------------
(* Trace validation for X10/DynBT.  Every line of the trace is ONE call on real dynbt values together with the        *)
(* projection of the heap AFTER the call: `heap` = <<id, node>> pairs for every value reachable from the handles the   *)
(* harness holds (ids are the harness' names of *Value pointers: pointer identity is part of the projection; the node  *)
(* is read from the unexported fields, read-only).  The state BEFORE a call is the projection on the previous line,   *)
(* so every line is an independent initial state l; all checks of a line are evaluated together and the numbers of the *)
(* failed ones are printed as <<"X2FAIL", l, {checks}>>; the harness only maps them back to events.                    *)
(*                                                                                                                    *)
(* kinds: reset | new (ctor, arg) | newlist (kids) | newcomp | set (c, key, x, via) | get (id, keys, ret) |            *)
(*        comp (id: Compound() then Get(key) / Len / Visit) | acc (id, a) | enc (id, fmt, name, bytes, err) |          *)
(*        dec (id, fmt, input, ok, n) | redec (id, fmt: Marshal, Unmarshal into a new Value, Marshal again) | drop     *)
(* checks:  1 NoPanic   2 Fresh   3 Frame   4 NewLeaf   5 NewList   6 NewCompound   7 SetReplace   8 SetAppend          *)
(*          9 SetPanic   10 Get   11 CompoundAPI   12 NilCompound   13 Accessors   14 Encode   15 WellFormedOut           *)
(*          16 DecodeOK   17 DecodeInPlace   18 DecodeBad   19 ReEncode   20 Closed                                        *)
EXTENDS DynBT, Json

Trace == ndJsonDeserialize("trace.ndjson")

VARIABLE l
tvars == <<vars, l>>
NChecks == 20

HeapOf(e) == LET prs == {e.heap[i] : i \in 1..Len(e.heap)} IN
             [i \in {p[1] : p \in prs} |-> (CHOOSE p \in prs : p[1] = i)[2]]
UniqueIds(e) == Cardinality({e.heap[i][1] : i \in 1..Len(e.heap)}) = Len(e.heap)

CtorNode(ctor, arg) ==
  CASE ctor = "bool"      -> [t |-> 1, v |-> <<IF arg[1] = 0 THEN 0 ELSE 1>>]
    [] ctor = "byte"      -> [t |-> 1, v |-> arg]
    [] ctor = "short"     -> [t |-> 2, v |-> arg]
    [] ctor = "int"       -> [t |-> 3, v |-> arg]
    [] ctor = "long"      -> [t |-> 4, v |-> arg]
    [] ctor = "float"     -> [t |-> 5, v |-> arg]
    [] ctor = "double"    -> [t |-> 6, v |-> arg]
    [] ctor = "bytearray" -> [t |-> 7, v |-> arg]
    [] ctor = "string"    -> [t |-> 8, v |-> arg]
    [] ctor = "intarray"  -> [t |-> 11, v |-> arg]
    [] ctor = "longarray" -> [t |-> 12, v |-> arg]
    [] ctor = "zero"      -> [t |-> 0]

Reads == {"get", "comp", "acc", "enc", "redec"}

Failed ==
  LET ev     == Trace[l]
      hasPre == l > 1 /\ ev.k # "reset"
      pre    == IF hasPre THEN Trace[l - 1] ELSE ev
      shaped == UniqueIds(ev) /\ UniqueIds(pre)
      P      == IF shaped THEN HeapOf(pre) ELSE <<>>
      Q      == IF shaped THEN HeapOf(ev) ELSE <<>>
      dP     == DOMAIN P
      dQ     == DOMAIN Q
      closedP == ChildOK(P)
      known(i) == i \in dP
      \* --- set
      isSet  == ev.k = "set" /\ hasPre /\ shaped /\ closedP /\ known(ev.c) /\ known(ev.x)
      setC   == isSet /\ P[ev.c].t = 10
      \* --- dec
      isDec  == ev.k = "dec" /\ hasPre /\ shaped /\ closedP
      d      == IF ev.k = "dec" THEN N!DecDoc(ev.fmt, ev.input) ELSE [ok |-> FALSE, why |-> "none"]
      goodDoc == isDec /\ d.ok /\ d.tree.t # 0
      \* --- ids that may change / appear
      touched == IF ev.k = "set" THEN {ev.c} ELSE IF ev.k = "dec" THEN {ev.id} ELSE {}
      newWant == CASE ev.k \in {"new", "newlist", "newcomp"} -> {ev.id}
                   [] ev.k = "dec" /\ ev.ok /\ ev.id \in dQ -> (Reach(Q, ev.id) \ dP) \cup ({ev.id} \ dP)
                   [] ev.k = "dec" -> dQ \ dP                          \* a failed decode leaves whatever it built
                   [] OTHER -> {}
      rdTree == IF ev.k \in {"enc", "redec"} /\ hasPre /\ shaped /\ closedP /\ known(ev.id) /\ Acyclic(P) THEN Tree(P, ev.id) ELSE [t |-> 0]
      rdOK   == ev.k \in {"enc", "redec"} /\ hasPre /\ shaped /\ closedP /\ known(ev.id) /\ Acyclic(P) /\ rdTree.t # 0
      Ok(c) ==
        CASE c = 1 -> ev.panicked = (ev.k = "set" /\ isSet /\ ~setC /\ ev.via = "value")     \* the one documented panic
          [] c = 2 -> ev.k = "reset" => ev.heap = <<>>
          [] c = 3 -> (hasPre /\ shaped) =>
                        /\ \A i \in (dP \cap dQ) \ touched : Q[i] = P[i]
                        /\ dQ \ dP = newWant
                        /\ (ev.k \in Reads => dQ = dP)
                        /\ (ev.k \in {"set", "drop"} /\ ~(isSet /\ ~setC /\ ev.via = "compound") => dQ \subseteq dP)
          [] c = 4 -> (ev.k = "new" /\ shaped /\ ev.id \in dQ) => Q[ev.id] = CtorNode(ev.ctor, ev.arg)
          [] c = 5 -> (ev.k = "newlist" /\ shaped /\ ev.id \in dQ) => Q[ev.id] = [t |-> 9, et |-> 0, v |-> ev.kids]
          [] c = 6 -> (ev.k = "newcomp" /\ shaped /\ ev.id \in dQ) => Q[ev.id] = [t |-> 10, v |-> <<>>]
          [] c = 7 -> (setC /\ FirstPos(P[ev.c].v, ev.key) # 0 /\ ev.c \in dQ) =>
                        LET old == P[ev.c].v  p == FirstPos(old, ev.key) IN
                        /\ Q[ev.c].t = 10 /\ Len(Q[ev.c].v) = Len(old)
                        /\ \A j \in 1..Len(old) : Q[ev.c].v[j].k = old[j].k /\ Q[ev.c].v[j].n = (IF j = p THEN ev.x ELSE old[j].n)
          [] c = 8 -> (setC /\ FirstPos(P[ev.c].v, ev.key) = 0 /\ ev.c \in dQ) =>
                        Q[ev.c] = [t |-> 10, v |-> Append(P[ev.c].v, [k |-> ev.key, n |-> ev.x])]
          [] c = 9 -> (isSet /\ ~setC /\ ev.via = "value" /\ ev.c \in dQ) => (ev.panicked /\ Q[ev.c] = P[ev.c])
          [] c = 10 -> (ev.k = "get" /\ hasPre /\ shaped /\ closedP /\ known(ev.id)) => ev.ret = GetId(P, ev.id, ev.keys)
          [] c = 11 -> (ev.k = "comp" /\ hasPre /\ shaped /\ closedP /\ known(ev.id) /\ P[ev.id].t = 10) =>
                        LET kvs == P[ev.id].v  p == FirstPos(kvs, ev.key) IN
                        /\ ev.nil = FALSE /\ ev.len = Len(kvs)
                        /\ ev.ret = (IF p = 0 THEN 0 ELSE kvs[p].n)
                        /\ ev.visit = [j \in 1..Len(kvs) |-> <<kvs[j].k, kvs[j].n>>]
          [] c = 12 -> (ev.k = "comp" /\ hasPre /\ shaped /\ known(ev.id) /\ P[ev.id].t # 10) =>
                        (ev.nil = TRUE /\ ev.len = 0 /\ ev.ret = 0 /\ ev.visit = <<>> /\ ev.cpanics = <<>>)
          [] c = 13 -> (ev.k = "acc" /\ hasPre /\ shaped /\ known(ev.id)) => AccSame(ev.a, Acc(P[ev.id]))
          [] c = 14 -> rdOK /\ ev.k = "enc" => (ev.err = FALSE /\ ev.bytes = N!EncDoc(ev.fmt, ev.name, rdTree))
          [] c = 15 -> (rdOK /\ ev.k = "enc" /\ ev.err = FALSE) =>
                        LET dd == N!DecDoc(ev.fmt, ev.bytes) IN dd.ok /\ dd.n = Len(ev.bytes) /\ dd.tree = rdTree
          [] c = 16 -> (goodDoc /\ ev.id \in dQ /\ ChildOK(Q) /\ Acyclic(Q)) =>
                        /\ ev.ok /\ ev.n = d.n /\ Tree(Q, ev.id) = d.tree
                        /\ (ev.fmt = "file" => ev.name = d.name)
          [] c = 17 -> (goodDoc /\ ev.ok /\ ev.id \in dQ /\ ChildOK(Q)) =>
                        LET fresh == Reach(Q, ev.id) \ {ev.id} IN
                        /\ fresh \cap dP = {}                                                   \* every descendant is a new value
                        /\ \A j \in fresh : Cardinality({p \in dQ : \E q \in 1..Len(Kids(Q[p])) : Kids(Q[p])[q] = j}) = 1
                        /\ \A j \in fresh \cup {ev.id} : \A q1, q2 \in 1..Len(Kids(Q[j])) : q1 # q2 => Kids(Q[j])[q1] # Kids(Q[j])[q2]
          [] c = 18 -> (isDec /\ ~d.ok /\ d.why \in {"short", "neg", "tag"}) => ~ev.ok
          [] c = 19 -> (rdOK /\ ev.k = "redec" /\ WF(rdTree)) =>
                        /\ ev.err = FALSE /\ ev.ok /\ ev.bytes2 = ev.bytes /\ ev.bytes = N!EncDoc(ev.fmt, ev.name, rdTree)
          [] c = 20 -> shaped => (ChildOK(Q) /\ Acyclic(Q))
          [] OTHER -> TRUE
  IN {c \in 1..NChecks : ~Ok(c)}

Check == LET f == Failed IN f = {} \/ PrintT(<<"X2FAIL", l, f>>)

TraceInit == l \in 1..Len(Trace) /\ heap = <<>> /\ act = [op |-> "init"]
TraceSpec == TraceInit /\ [][UNCHANGED tvars]_tvars
=============================================================================
