------------------------------ MODULE SignWire -------------------------------
(***************************************************************************)
(* X10 (b), wire forms of chat/sign (sign.go, session.go) in terms of the   *)
(* field algebra of Wire.tla:                                               *)
(*   body     PackedMessageBody: String text, Long timestamp (ms), Long     *)
(*            salt, VarInt count, count x packed signature                  *)
(*            packed signature: VarInt(id + 1); 0 = 256 signature bytes     *)
(*            follow (vanilla MessageSignature.Packed)                      *)
(*   hupd     HistoryUpdate (LastSeenMessages.Update): VarInt offset,       *)
(*            FixedBitSet(20)  (kind hupdz: the same, read into the zero       *)
(*            value of HistoryUpdate instead of one with 20 bits allocated) *)
(*   hmsg     HistoryMessage: UUID sender, ByteArray signature              *)
(*   fmask    FilterMask: VarInt type (0 pass through, 1 fully filtered,    *)
(*            2 partially filtered + BitSet); any other type is no filter   *)
(*            mask (vanilla reads an enum: from memory)                     *)
(*   session  Session (RemoteChatSession.Data): UUID session id, Long key   *)
(*            expiry (ms), ByteArray key (X.509 DER), ByteArray key         *)
(*            signature                                                     *)
(*   sig      Signature: 256 raw bytes (value [raw |-> bytes])              *)
(* Values: VarInt = 4-byte pattern, Long = 8-byte pattern, strings / byte   *)
(* arrays = byte sequences, BitSet = sequence of 8-byte patterns.           *)
(* Enc* compose Wire!Enc; Dec* are written separately on Wire!Dec and TLC   *)
(* checks them against each other on the vector universe (RoundTrip,        *)
(* Consumes) before either is used as an oracle.  Every state of the        *)
(* generator machine is one vector [kind, val, bytes] for leg A.            *)
(***************************************************************************)
EXTENDS Integers, Sequences, SequencesExt, FiniteSets, TLC, Json
CONSTANTS EmitJson, Big
W == INSTANCE Wire WITH Menu <- {}, EmitJson <- FALSE, ty <- 0, val <- 0, bytes <- 0, dest <- 0, phase <- 0

Sc(t) == [t |-> t]
TBodyHead == [t |-> "tuple", es |-> <<Sc("str"), Sc("i64"), Sc("i64")>>]
THupd == [t |-> "tuple", es |-> <<Sc("varint"), [t |-> "fixedbits", n |-> 20]>>]
THmsg == [t |-> "tuple", es |-> <<Sc("uuid"), Sc("bytes")>>]
TSession == [t |-> "tuple", es |-> <<Sc("uuid"), Sc("i64"), Sc("bytes"), Sc("bytes")>>]
SigLen == 256

\* ---------------------------------------------------------------- encoders
\* a packed signature [full, id, sig]: id in 0..2^24-2 when not full
EncPS(p) == IF p.full THEN <<0>> \o p.sig ELSE W!VarEnc(W!NumBytes(p.id + 1, 4))
EncBody(b) == W!Enc(TBodyHead, <<b.text, b.ts, b.salt>>) \o W!VarEnc(W!NumBytes(Len(b.seen), 4))
              \o FlattenSeq([i \in 1..Len(b.seen) |-> EncPS(b.seen[i])])
EncHupd(h) == W!Enc(THupd, <<h.offset, h.ack>>)
EncHmsg(h) == W!Enc(THmsg, <<h.sender, h.sig>>)
EncFmask(f) == W!VarEnc(W!NumBytes(f.type, 4)) \o (IF f.type = 2 THEN W!Enc(Sc("bitset"), f.mask) ELSE <<>>)
EncSession(s) == W!Enc(TSession, <<s.id, s.expires, s.key, s.ksig>>)
EncOf(kind, v) == CASE kind = "body" -> EncBody(v) [] kind \in {"hupd", "hupdz"} -> EncHupd(v) [] kind = "hmsg" -> EncHmsg(v)
                    [] kind = "fmask" -> EncFmask(v) [] kind = "session" -> EncSession(v) [] kind = "sig" -> v.raw

\* ---------------------------------------------------------------- decoders: [ok, v, p]
Bad(p) == [ok |-> FALSE, v |-> <<>>, p |-> p]
RECURSIVE DecSeen(_, _, _, _)
DecSeen(b, p, k, acc) ==
  IF k = 0 THEN [ok |-> TRUE, v |-> acc, p |-> p]
  ELSE LET h == W!DecLen("varint", b, p) IN
       IF ~h.ok \/ h.neg THEN Bad(p)
       ELSE IF h.k = 0
            THEN LET r == W!Take(b, h.p, SigLen) IN
                 IF ~r.ok THEN Bad(p) ELSE DecSeen(b, r.p, k - 1, Append(acc, [full |-> TRUE, id |-> -1, sig |-> r.v]))
            ELSE DecSeen(b, h.p, k - 1, Append(acc, [full |-> FALSE, id |-> h.k - 1, sig |-> <<>>]))
DecBody(b) ==
  LET r == W!Dec(TBodyHead, b, 1) IN
  IF ~r.ok THEN Bad(1)
  ELSE LET c == W!DecLen("varint", b, r.p) IN
       IF ~c.ok \/ c.neg \/ c.k >= W!Huge THEN Bad(r.p)
       ELSE LET s == DecSeen(b, c.p, c.k, <<>>) IN
            IF ~s.ok THEN Bad(c.p) ELSE [ok |-> TRUE, v |-> [text |-> r.v[1], ts |-> r.v[2], salt |-> r.v[3], seen |-> s.v], p |-> s.p]
DecHupd(b) == LET r == W!Dec(THupd, b, 1) IN IF r.ok THEN [r EXCEPT !.v = [offset |-> r.v[1], ack |-> r.v[2]]] ELSE r
DecHmsg(b) == LET r == W!Dec(THmsg, b, 1) IN IF r.ok THEN [r EXCEPT !.v = [sender |-> r.v[1], sig |-> r.v[2]]] ELSE r
DecFmask(b) ==
  LET t == W!DecLen("varint", b, 1) IN
  IF ~t.ok \/ t.neg \/ t.k > 2 THEN Bad(1)                                  \* not one of the three filter mask types
  ELSE IF t.k # 2 THEN [ok |-> TRUE, v |-> [type |-> t.k, mask |-> <<>>], p |-> t.p]
  ELSE LET m == W!Dec(Sc("bitset"), b, t.p) IN
       IF ~m.ok THEN Bad(t.p) ELSE [ok |-> TRUE, v |-> [type |-> 2, mask |-> m.v], p |-> m.p]
DecSession(b) == LET r == W!Dec(TSession, b, 1) IN
                 IF r.ok THEN [r EXCEPT !.v = [id |-> r.v[1], expires |-> r.v[2], key |-> r.v[3], ksig |-> r.v[4]]] ELSE r
DecSig(b) == LET r == W!Take(b, 1, SigLen) IN IF r.ok THEN [r EXCEPT !.v = [raw |-> r.v]] ELSE r
DecOf(kind, b) == CASE kind = "body" -> DecBody(b) [] kind \in {"hupd", "hupdz"} -> DecHupd(b) [] kind = "hmsg" -> DecHmsg(b)
                    [] kind = "fmask" -> DecFmask(b) [] kind = "session" -> DecSession(b) [] kind = "sig" -> DecSig(b)

\* ---------------------------------------------------------------- vector universe
SigOf(t) == [i \in 1..SigLen |-> (t * 31 + i) % 256]
L8(s) == {[i \in 1..8 |-> 0], [i \in 1..8 |-> 255], [i \in 1..8 |-> IF i = 1 THEN 128 ELSE 0], [i \in 1..8 |-> (s * 17 + i) % 256],
          <<0, 0, 1, 141, 31, 22, 208, 0>>}
Texts == {<<>>, <<104, 105>>, <<195, 133, 32, 226, 130, 172>>} \cup (IF Big THEN {[i \in 1..256 |-> 97 + (i % 26)]} ELSE {})
Seens == {<<>>, <<[full |-> FALSE, id |-> 0, sig |-> <<>>]>>, <<[full |-> TRUE, id |-> -1, sig |-> SigOf(3)]>>,
          <<[full |-> FALSE, id |-> 127, sig |-> <<>>], [full |-> TRUE, id |-> -1, sig |-> SigOf(9)], [full |-> FALSE, id |-> 5, sig |-> <<>>]>>}
         \cup (IF Big THEN {[i \in 1..20 |-> IF i % 3 = 0 THEN [full |-> TRUE, id |-> -1, sig |-> SigOf(i)] ELSE [full |-> FALSE, id |-> 6 * i, sig |-> <<>>]]} ELSE {})
Bodies == {[text |-> t, ts |-> a, salt |-> b, seen |-> s] : t \in Texts, a \in {<<0, 0, 1, 141, 31, 22, 208, 0>>, [i \in 1..8 |-> 0]}, b \in L8(1), s \in Seens}
Hupds == {[offset |-> o, ack |-> a] : o \in {<<0, 0, 0, 0>>, <<0, 0, 0, 5>>, <<0, 0, 1, 0>>, <<127, 255, 255, 255>>},
                                     a \in {<<0, 0, 0>>, <<255, 255, 15>>, <<1, 128, 8>>}}
Hmsgs == {[sender |-> [i \in 1..16 |-> (i * s) % 256], sig |-> g] : s \in {0, 7}, g \in {<<>>, SigOf(1), <<1, 2, 3>>}}
Fmasks == {[type |-> 0, mask |-> <<>>], [type |-> 1, mask |-> <<>>], [type |-> 2, mask |-> <<>>],
           [type |-> 2, mask |-> <<[i \in 1..8 |-> 255]>>], [type |-> 2, mask |-> <<[i \in 1..8 |-> 0], [i \in 1..8 |-> i]>>]}
\* X.509 SubjectPublicKeyInfo of the harness' fixed RSA-2048 test key (c18.go lcOwnServicesPEM): Session.WriteTo marshals a parsed key
KeyDER == <<48, 130, 1, 34, 48, 13, 6, 9, 42, 134, 72, 134, 247, 13, 1, 1, 1, 5, 0, 3, 130, 1, 15, 0, 
           48, 130, 1, 10, 2, 130, 1, 1, 0, 221, 19, 117, 92, 250, 4, 104, 130, 182, 24, 144, 215, 162, 62, 207, 
           52, 237, 251, 201, 14, 33, 13, 40, 221, 245, 71, 58, 143, 181, 120, 213, 141, 54, 68, 149, 31, 81, 30, 141, 
           16, 99, 125, 164, 185, 7, 175, 157, 228, 56, 139, 70, 33, 206, 184, 9, 111, 201, 200, 148, 27, 157, 153, 196, 
           60, 75, 100, 157, 99, 48, 25, 47, 210, 164, 139, 125, 66, 162, 249, 184, 224, 117, 98, 199, 98, 123, 23, 6, 
           175, 10, 167, 173, 133, 11, 140, 231, 0, 244, 69, 202, 77, 67, 12, 243, 21, 214, 231, 155, 174, 129, 106, 170, 
           200, 115, 46, 163, 171, 252, 78, 47, 144, 97, 43, 49, 176, 168, 111, 7, 224, 202, 121, 202, 133, 121, 229, 226, 
           249, 217, 124, 229, 44, 193, 162, 76, 216, 79, 244, 88, 192, 61, 6, 205, 196, 90, 72, 178, 106, 165, 1, 93, 
           115, 143, 230, 107, 221, 22, 127, 47, 8, 147, 240, 143, 42, 167, 40, 106, 227, 45, 13, 97, 205, 188, 97, 19, 
           17, 240, 216, 102, 221, 158, 57, 142, 130, 226, 91, 89, 179, 16, 170, 118, 129, 40, 236, 222, 197, 183, 191, 120, 
           129, 50, 15, 181, 254, 182, 173, 244, 177, 97, 24, 237, 77, 26, 21, 18, 161, 231, 97, 115, 69, 21, 86, 214, 
           224, 236, 80, 40, 2, 93, 184, 196, 170, 171, 79, 141, 187, 184, 17, 65, 75, 104, 232, 90, 169, 24, 104, 155, 
           185, 2, 3, 1, 0, 1>>
Sessions == {[id |-> [i \in 1..16 |-> (i * 11) % 256], expires |-> e, key |-> KeyDER, ksig |-> g] :
               e \in L8(2), g \in {<<>>, SigOf(2)}}
Universe == {[kind |-> "body", val |-> v] : v \in Bodies} \cup {[kind |-> "hupd", val |-> v] : v \in Hupds}
            \cup {[kind |-> "hmsg", val |-> v] : v \in Hmsgs} \cup {[kind |-> "fmask", val |-> v] : v \in Fmasks}
            \cup {[kind |-> "session", val |-> v] : v \in Sessions} \cup {[kind |-> "sig", val |-> [raw |-> SigOf(4)]]}

VARIABLE vec
Init == vec \in Universe
Next == UNCHANGED vec
Spec == Init /\ [][Next]_vec

Tail2 == <<255, 128>>
RoundTrip == LET e == EncOf(vec.kind, vec.val)  d == DecOf(vec.kind, e \o Tail2) IN d.ok /\ d.v = vec.val /\ d.p = Len(e) + 1
PrefixFails == LET e == EncOf(vec.kind, vec.val) IN Len(e) > 0 => ~DecOf(vec.kind, SubSeq(e, 1, Len(e) - 1)).ok
Emit == EmitJson => PrintT(ToJson([kind |-> vec.kind, val |-> vec.val, bytes |-> EncOf(vec.kind, vec.val)]))
=============================================================================
