----------------------------- MODULE WorldStore -----------------------------
(***************************************************************************)
(* X13 (specification extension): the world store as a COMPOSITION of the  *)
(* layers that C13 / C14 / C15 / X05 specify one by one:                   *)
(*                                                                         *)
(*   level.Chunk --ChunkToSave--> save.Chunk --Data(ct)--> payload         *)
(*        --WriteSector--> region file --ReadSector--> payload --Load-->   *)
(*        save.Chunk --ChunkFromSave--> level.Chunk --WriteTo/ReadFrom-->  *)
(*        a second level.Chunk (network form)                              *)
(*                                                                         *)
(* Abstract state: `store`, a function from the coordinates of one region  *)
(* to Absent, Bad (something is stored that cannot be read as a chunk) or  *)
(* an abstract chunk [secs, status, hm, ents, pos, ypos, dv, bulk]:        *)
(*   secs   sections, each [b |-> block state index per cell, m |-> biome  *)
(*          index per cell group]  (cell c = the positions p with          *)
(*          p % Len(b) = c of the 4096, group g = the q with q % Len(m) = g*)
(*          of the 64)                                                     *)
(*   status index of the status string        hm   six height-map tokens   *)
(*   ents   block entities <<x, z, y, type, tag>> (x, z inside the chunk)  *)
(*   pos    <<xPos, zPos>>   ypos  Y of the lowest section                 *)
(*   dv     DataVersion      bulk  token of the opaque `entities` ballast  *)
(* `sect` is what the layers actually hold for each coordinate: the        *)
(* payload in the region file (compression byte, the save document inside, *)
(* whether the compressed stream is complete, the length WriteSector was   *)
(* given and the length its 4-byte prefix announces).  Each layer is an    *)
(* operator (ToSave / FromSave, Encode / Decode, Stored / Fetched,         *)
(* NetWire / NetRead); each exported pipeline is one action.               *)
(*                                                                         *)
(* The refinement statement is the invariant Refines: the abstract map is  *)
(* the abstraction of what the layers hold, store[i] = Abs(sect[i]).       *)
(* Variant = "intent" is the specification the real pipeline is held to;   *)
(* "code_*" describe go-mc as it is (TLC rejects them: model-level form of *)
(* the findings) and drive the behaviour generator; "broken_*" are         *)
(* deliberately wrong layers (vacuity guards).                             *)
(*                                                                         *)
(* Deliberate deviations: the sector allocator, the header tables and the  *)
(* timestamps are NOT restated (Region.tla, C14/C15): the region layer is  *)
(* its chunk-store abstraction (last payload written per coordinate,       *)
(* refusal above MaxNeed sectors); Reopen is therefore the identity here   *)
(* and is checked on the real file.  The region API has no removal, so     *)
(* there is no DeleteChunk.  Compressed sizes are unspecified: the payload *)
(* length is a parameter of Put chosen by the environment.  Light arrays,  *)
(* the other fields of the save document and the non-air counters are not *)
(* part of the abstraction.                                                *)
(***************************************************************************)
(* (Record constructors list their fields in alphabetical order on purpose: TLC normalises a record lazily *)
(* and in place, and with several workers a record of a shared state was met half-sorted - "nonexistent    *)
(* field dv" on a record that has it.  A constructor that is already sorted makes that pass a no-op.)       *)
EXTENDS Integers, Sequences, FiniteSets, TLC

CONSTANTS Coords,      \* sequence of the <<x, z>> this configuration touches (x, z in 0..31)
          Levels,      \* level-side contents offered to Put: [secs, status, hm, ents]
          Dsts,        \* destination documents a Put starts from: [ypos, dv, bulk, bents, raws]
          CTypes,      \* compression bytes offered
          Lens,        \* payload lengths (bytes, compression byte included) the encoder may produce
          SectorSize,  \* 4096
          MaxNeed,     \* 255: a payload needing more sectors is refused
          Variant,
          MaxOps       \* generator bound (0: unbounded)

VARIABLES store, sect, act, nops
vars == <<store, sect, act, nops>>

(* Absent, Bad and a layer's "error" answer are records too: TLC refuses to compare a record with a number *)
Absent == [k |-> "absent"]
Bad    == [k |-> "bad"]
Err    == [k |-> "error"]
None   == [k |-> "none"]
ValidCT == {1, 2, 3}               \* gzip, zlib, uncompressed - everything else is "unknown compression"
NC == Len(Coords)
Idx == 1..NC
Is(v) == Variant = v
CodeNoClose == Is("code_noclose") \/ Is("code")     \* Data(1|2) never closes the compressor
CodeEnts    == Is("code_ents")    \/ Is("code")     \* ChunkToSave leaves block_entities alone
CodeRaws    == Is("code_raws")    \/ Is("code")     \* Data fails on a document whose RawMessage fields are unset

Need(len) == (len + 4 + SectorSize - 1) \div SectorSize

\* ---------------------------------------------------------------- level.Chunk <-> save.Chunk
AbsEnt(e, xz) == <<xz[1] * 16 + e[1], xz[2] * 16 + e[2], e[3], e[4], e[5]>>
RelEnt(e, xz) == <<e[1] - xz[1] * 16, e[2] - xz[2] * 16, e[3], e[4], e[5]>>
MapSeq(s, F(_)) == [k \in 1..Len(s) |-> F(s[k])]

(* ChunkToSave(c, dst): sections, height maps and status are replaced; position, yPos, DataVersion and *)
(* everything else stay what the destination held.                                                     *)
ToSave(c, dst, xz) ==
  [bents |-> IF CodeEnts THEN dst.bents ELSE LET A(e) == AbsEnt(e, xz) IN MapSeq(c.ents, A),
   bulk |-> dst.bulk, dv |-> dst.dv, hm |-> c.hm, raws |-> dst.raws,
   sections |-> [k \in 1..Len(c.secs) |-> [b |-> c.secs[k].b, m |-> c.secs[k].m, y |-> k - 1 + dst.ypos]],
   status |-> c.status, xpos |-> xz[1], ypos |-> dst.ypos, zpos |-> xz[2]]

(* ChunkFromSave(d): a section goes to index Y - yPos; block entities become chunk-relative *)
FromSave(d) ==
  LET n == Len(d.sections)
      xz == <<d.xpos, d.zpos>>
      At(k) == IF Is("broken_ypos") THEN d.sections[k].y ELSE d.sections[k].y - d.ypos
      R(e) == RelEnt(e, xz)
      rel == MapSeq(d.bents, R)
  IN IF \E k \in 1..n : At(k) < 0 \/ At(k) >= n THEN Err
     ELSE IF \E k \in 1..Len(rel) : rel[k][1] \notin 0..15 \/ rel[k][2] \notin 0..15 THEN Err
     ELSE IF \E j, k \in 1..n : j # k /\ At(j) = At(k) THEN Err                        \* (not generated)
     ELSE [bulk |-> d.bulk, dv |-> d.dv, ents |-> rel, hm |-> d.hm, pos |-> xz,
           secs |-> [j \in 1..n |-> LET k == CHOOSE k \in 1..n : At(k) = j - 1 IN [b |-> d.sections[k].b, m |-> d.sections[k].m]],
           status |-> d.status, ypos |-> d.ypos]

(* the abstract chunk a Put of level content c into destination dst at xz is meant to store *)
Visible(c, dst, xz) ==
  [bulk |-> dst.bulk, dv |-> dst.dv, ents |-> c.ents, hm |-> c.hm, pos |-> xz, secs |-> c.secs, status |-> c.status, ypos |-> dst.ypos]
(* the document an independent, correct writer (the game) stores for the abstract chunk v *)
ExtDoc(v) == [bents |-> LET A(e) == AbsEnt(e, v.pos) IN MapSeq(v.ents, A),
              bulk |-> v.bulk, dv |-> v.dv, hm |-> v.hm, raws |-> TRUE,
              sections |-> [k \in 1..Len(v.secs) |-> [b |-> v.secs[k].b, m |-> v.secs[k].m, y |-> k - 1 + v.ypos]],
              status |-> v.status, xpos |-> v.pos[1], ypos |-> v.ypos, zpos |-> v.pos[2]]

\* ---------------------------------------------------------------- save.Chunk <-> payload (Data / Load)
Encode(d, ct, len) ==
  IF ct \notin ValidCT THEN Err
  ELSE IF CodeRaws /\ ~d.raws THEN Err
  ELSE [codec |-> ct, ct |-> IF Is("broken_ct") /\ ct = 1 THEN 2 ELSE ct, doc |-> d, len |-> len, whole |-> ~(CodeNoClose /\ ct # 3)]
Decode(p) ==
  IF p.len = 0 THEN Err                        \* "data is missing" (ReadSector refuses a zero length)
  ELSE IF p.ct \notin ValidCT THEN Err         \* unknown compression
  ELSE IF p.ct # p.codec THEN Err              \* the byte names another compression than the one the body has
  ELSE IF ~p.whole THEN Err                    \* the stream / the document ends early
  ELSE p.doc

\* ---------------------------------------------------------------- payload <-> region file (WriteSector / ReadSector)
NoSector == [codec |-> 0, ct |-> 0, doc |-> None, len |-> -1, whole |-> FALSE]
(* the 4-byte length in front of the payload counts the compression byte: exactly `len` bytes come back *)
Stored(p) == IF Is("broken_len") THEN [p EXCEPT !.whole = FALSE] ELSE p
Fits(len) == Need(len) <= MaxNeed

Abs(s) == IF s = NoSector THEN Absent
          ELSE LET d == Decode(s) IN
               IF d = Err THEN Bad
               ELSE LET c == FromSave(d) IN IF c = Err THEN Bad ELSE c

\* ---------------------------------------------------------------- level.Chunk <-> network form
NetWire(c) == [data |-> c.secs, ents |-> c.ents, hmmb |-> c.hm[5], hmws |-> c.hm[2]]
NetRead(w, n) == IF Len(w.data) # n THEN Err
                 ELSE [ents |-> IF Is("broken_relay") THEN <<>> ELSE w.ents,
                       hm |-> <<0, w.hmws, 0, 0, w.hmmb, 0>>, secs |-> w.data]
(* what the network form carries of a chunk: block states, biomes, WORLD_SURFACE, MOTION_BLOCKING, block entities *)
NetView(c) == [ents |-> c.ents, hm |-> <<0, c.hm[2], 0, 0, c.hm[5], 0>>, secs |-> c.secs]

\* ---------------------------------------------------------------- the exported pipelines
Act(op, i, ct, len, err, ret) == [ct |-> ct, err |-> err, i |-> i, len |-> len, op |-> op, ret |-> ret]
Count == IF MaxOps = 0 THEN nops' = 0 ELSE nops < MaxOps /\ nops' = nops + 1
Set(f, i, v) == [f EXCEPT ![i] = v]

(* PutChunk(x, z, c) = ChunkToSave ; Data(ct) ; WriteSector.  `len` is the length of what Data returned. *)
PutChunk(i, c, dst, ct, len) ==
  LET xz  == Coords[i]
      enc == Encode(ToSave(c, dst, xz), ct, len)
      ok  == enc # Err /\ Fits(len)
  IN /\ Count
     /\ sect'  = IF ok THEN Set(sect, i, Stored(enc)) ELSE sect
     /\ store' = IF ct \in ValidCT /\ Fits(len) THEN Set(store, i, Visible(c, dst, xz)) ELSE store
     /\ act' = Act("put", i, ct, len, ~ok, None)

(* a payload written by an independent, correct writer (the game, another tool) for the abstract chunk v *)
ExtPut(i, v, ct, len) ==
  LET ok == Fits(len) IN
  /\ Count /\ ct \in ValidCT /\ v.pos = Coords[i]
  /\ sect'  = IF ok THEN Set(sect, i, Stored([codec |-> ct, ct |-> ct, doc |-> ExtDoc(v), len |-> len, whole |-> TRUE])) ELSE sect
  /\ store' = IF ok THEN Set(store, i, v) ELSE store
  /\ act' = Act("ext", i, ct, len, ~ok, None)

(* something unreadable ends up in the sector: an unknown compression byte, a payload cut short, a body compressed *)
(* otherwise than the byte says, a zero length                                                                      *)
Corrupt(i, kind) ==
  /\ Count /\ sect[i] # NoSector
  /\ sect' = Set(sect, i, CASE kind = "unknownct" -> [sect[i] EXCEPT !.ct = 0]
                            [] kind = "cut"       -> [sect[i] EXCEPT !.whole = FALSE]
                            [] kind = "mismatch"  -> [sect[i] EXCEPT !.codec = 0]
                            [] kind = "empty"     -> [sect[i] EXCEPT !.len = 0])
  /\ store' = Set(store, i, Bad)
  /\ act' = Act("corrupt", i, 0, 0, FALSE, None)

(* GetChunk(x, z) = ReadSector ; Load ; ChunkFromSave *)
GetChunk(i) ==
  LET r == Abs(sect[i]) IN
  /\ Count
  /\ act' = Act("get", i, 0, 0, r \in {Absent, Bad}, r)
  /\ UNCHANGED <<store, sect>>

(* Close + Open: the header is read again (identity in this abstraction, see the deviations above) *)
Reopen == Count /\ act' = Act("reopen", 0, 0, 0, FALSE, None) /\ UNCHANGED <<store, sect>>

(* Relay(x, z) = GetChunk ; WriteTo ; ReadFrom of a second level.Chunk with the same number of sections *)
Relay(i) ==
  LET r == Abs(sect[i])
      n == IF r \in {Absent, Bad} THEN Err ELSE NetRead(NetWire(r), Len(r.secs))
  IN /\ Count
     /\ act' = Act("relay", i, 0, 0, n = Err, n)
     /\ UNCHANGED <<store, sect>>

Init == /\ store = [i \in Idx |-> Absent] /\ sect = [i \in Idx |-> NoSector] /\ nops = 0
        /\ act = Act("new", 0, 0, 0, FALSE, None)
Next == \/ \E i \in Idx, c \in Levels, d \in Dsts, ct \in CTypes, len \in Lens : PutChunk(i, c, d, ct, len)
        \/ \E i \in Idx, c \in Levels, d \in Dsts, ct \in CTypes, len \in Lens : ExtPut(i, Visible(c, d, Coords[i]), ct, len)
        \/ \E i \in Idx, k \in {"unknownct", "cut", "mismatch", "empty"} : Corrupt(i, k)
        \/ \E i \in Idx : GetChunk(i) \/ Relay(i)
        \/ Reopen
Spec == Init /\ [][Next]_vars
View == store

\* ---------------------------------------------------------------- properties
IsChunk(v) == v \notin {Absent, Bad}
TypeOK == /\ DOMAIN store = Idx /\ DOMAIN sect = Idx
          /\ \A i \in Idx : IsChunk(store[i]) => store[i].pos = Coords[i]
(* THE refinement statement: the composed layers hold exactly the abstract map - Get after Put answers the chunk *)
(* that was put for every compression type, nothing else moves, errors stay errors                               *)
Refines == \A i \in Idx : store[i] = Abs(sect[i])
(* what the region holds always fits its limits *)
SizeOK == \A i \in Idx : sect[i] # NoSector => Fits(sect[i].len)
(* only the coordinate of the call may change *)
Frame == [][\A i \in Idx : i # act'.i => (store'[i] = store[i] /\ sect'[i] = sect[i])]_vars
ReadOnly == [][act'.op \in {"get", "relay", "reopen"} => (store' = store /\ sect' = sect)]_vars
(* a refused Put (unknown compression byte, more than MaxNeed sectors) changes nothing and says so *)
RefusedNoop == [][(act'.op \in {"put", "ext"} /\ (act'.ct \notin ValidCT \/ ~Fits(act'.len))) =>
                    (act'.err /\ store' = store /\ sect' = sect)]_vars
AcceptedPut == [][(act'.op \in {"put", "ext"} /\ act'.ct \in ValidCT /\ Fits(act'.len)) => ~act'.err]_vars
(* Get answers the abstract map; Absent and Bad surface as errors, never as a chunk *)
GetLaw == [][act'.op = "get" => (act'.ret = store[act'.i] /\ act'.err = ~IsChunk(store[act'.i]))]_vars
(* the network form carries blocks, biomes, two height maps and the block entities of what is stored *)
RelayLaw == [][act'.op = "relay" =>
                 IF IsChunk(store[act'.i]) THEN ~act'.err /\ act'.ret = NetView(store[act'.i]) ELSE act'.err]_vars

\* ---------------------------------------------------------------- constants of the bounded configurations (.cfg files hold no records)
H0 == <<0, 0, 0, 0, 0, 0>>
H1 == <<1, 2, 3, 4, 5, 6>>
S0 == [b |-> <<0>>, m |-> <<0>>]
S1 == [b |-> <<1, 0>>, m |-> <<1>>]
E1 == <<3, 15, -7, 2, 1>>
MC_Coords2 == <<<<0, 0>>, <<31, 5>>>>
MC_Coords3 == <<<<0, 0>>, <<31, 5>>, <<1, 0>>>>
MC_Coords1 == <<<<7, 30>>>>
MC_CoordsGen == <<<<0, 0>>, <<31, 31>>, <<1, 0>>, <<17, 4>>>>
MkLevels(SS, ST, HM, EN) == {[ents |-> e, hm |-> h, secs |-> s, status |-> st] : s \in SS, st \in ST, h \in HM, e \in EN}
MkDsts(YD, BK, RW, BE) == {[bents |-> be, bulk |-> k, dv |-> yd[2], raws |-> r, ypos |-> yd[1]] : yd \in YD, k \in BK, r \in RW, be \in BE}
MC_Levels == MkLevels({<<S0>>, <<S1>>, <<S0, S1>>}, {1, 2}, {H1}, {<<>>, <<E1>>})
MC_Dsts == MkDsts({<<0, 0>>, <<-4, 3700>>}, {0}, {TRUE, FALSE}, {<<>>})
MC_LevelsT == MkLevels({<<S0>>, <<S1>>, <<S0, S1>>, <<S1, S1, S0>>}, {1, 2}, {H0, H1}, {<<>>, <<E1>>})
(* the wide configuration: a destination that already holds a block entity of the chunk at MC_Coords1 (load - modify - save) *)
MC_DstsT == MkDsts({<<0, 0>>, <<-4, 3700>>}, {0, 1}, {TRUE, FALSE}, {<<>>, <<<<7 * 16 + 9, 30 * 16, 70, 4, 2>>>>})
MC_Lens == {100, 1044476, 1044477}      \* one sector; exactly 255 sectors; one byte more
=============================================================================
