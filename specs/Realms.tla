-------------------------------- MODULE Realms --------------------------------
(***************************************************************************)
(* X12 (specification extension): the Realms client of go-mc               *)
(* (realms/realms.go, mco.go, server.go, invite.go) against a small model  *)
(* of the Realms endpoints.                                                *)
(*                                                                         *)
(* State `s`:                                                              *)
(*  server  tos   the account agreed to the terms of service               *)
(*          inv   world -> set of invited player names                     *)
(*          pend  worlds whose join answer says "pendingUpdate"            *)
(*  client  cl    [cred, ver]: the realms.Realms object was made (New) with *)
(*                a session the server accepts / a stale one; the version  *)
(*                class of its `version` cookie (1 current, 2 outdated,    *)
(*                3 snapshot)                                              *)
(* Worlds: Owned by the account, Member (invited to), Other (exist, no     *)
(* access); any other id does not exist.                                   *)
(*                                                                         *)
(* Every request must carry the cookies sid=token:<astk>:<uuid>,           *)
(* user=<name>, version=<ver> (any order) and nothing else (ck = 1).       *)
(* A stale session is answered 401 with an empty body; a refused call with *)
(* 403 / 404 and {"errorCode":..,"errorMsg":..}.  Faults as in YggSession  *)
(* (http(st, b) and transport: not processed; lost(neterr): processed, the *)
(* reply never arrives).  A call is ONE request: Address does not retry    *)
(* (a world that is starting up is answered by the real service with 503 + *)
(* Retry-After, which is http(5, html) here) and maps "pendingUpdate":true *)
(* to an error.                                                            *)
(*                                                                         *)
(* Result R(state, ok, ret (a tuple of tokens; <<>> when an error is       *)
(* returned), error kind (realms = a *realms.Error with the code and text  *)
(* of the document), requests, open = response bodies left unclosed).      *)
(*                                                                         *)
(* Layers: Step(FALSE, ..) intent, Step(TRUE, ..) as coded; Named says     *)
(* where they may part:                                                    *)
(*  TOSStatus           TOS never looks at the answer: 401 / 403 / 5xx are *)
(*                      "agreed"                                           *)
(*  CompatibleStatus    Compatible returns the body of any answer as the   *)
(*                      compatibility string, without error                *)
(*  JsonStatus          the status is never looked at: an error status     *)
(*                      with a JSON object that is no error document is an *)
(*                      empty success (Worlds, Server, Address,            *)
(*                      SubscriptionLife)                                  *)
(*  SubscriptionErrDoc  SubscriptionLife has no place for the error        *)
(*                      document: a refusal is (0, 0, "", nil)             *)
(*  InviteResult        Invite decodes the answer into a non-pointer:      *)
(*                      every invite the server accepted is reported as an *)
(*                      error                                              *)
(*  InviteBodyLeak      post() never closes the response body              *)
(***************************************************************************)
EXTENDS Integers, Sequences, FiniteSets, TLC

CONSTANTS Owned, Member, Other, Ghost,   \* world ids
          Players,                       \* names that can be invited
          FaultSet, Variant
Code == Variant = "code"
Broken == Variant = "broken"             \* vacuity guard: the join address is handed out without the terms of service

VARIABLES s, act
vars == <<s, act>>
View == s

Worlds == Owned \cup Member \cup Other
F(k, st, b) == [k |-> k, st |-> st, b |-> b]
NoF == F("none", 0, "none")
HttpFaults == {F("http", st, b) : st \in {4, 5}, b \in {"errdoc", "empty", "html", "json"}}
AllFaults == HttpFaults \cup {F("transport", 0, "none"), F("lost", 0, "neterr")}
MC_FaultsQ == {F("http", 4, "errdoc"), F("http", 5, "json"), F("http", 5, "empty"), F("http", 5, "html"), F("transport", 0, "none"), F("lost", 0, "neterr")}
Processed(f) == f.k \in {"none", "lost"}

P(k, w, n, b, v, f) == [k |-> k, w |-> w, n |-> n, b |-> b, v |-> v, f |-> f]
Req(m, path, wid, keys, name, uu, ctype, ck) ==
  [m |-> m, path |-> path, wid |-> wid, keys |-> keys, name |-> name, uu |-> uu, ctype |-> ctype, ck |-> ck]
R(st, ok, ret, ek, reqs, open) == [s |-> st, ok |-> ok, ret |-> ret, ek |-> ek, reqs |-> reqs, open |-> open]

RECURSIVE SortedSeq(_)
SortedSeq(A) == IF A = {} THEN <<>> ELSE LET m == CHOOSE x \in A : \A y \in A : x <= y IN <<m>> \o SortedSeq(A \ {m})

Get(path, w) == Req("GET", path, w, <<>>, 0, 0, 0, 1)
ReqOf(p) ==
  CASE p.k = "available" -> Get("/mco/available", 0)
    [] p.k = "compatible" -> Get("/mco/client/compatible", 0)
    [] p.k = "tos" -> Req("POST", "/mco/tos/agreed", 0, <<>>, 0, 0, 1, 1)
    [] p.k = "worlds" -> Get("/worlds", 0)
    [] p.k = "server" -> Get("/worlds/{id}", p.w)
    [] p.k = "address" -> Get("/worlds/v1/{id}/join/pc", p.w)
    [] p.k = "backups" -> Get("/worlds/{id}/backups", p.w)
    [] p.k = "ops" -> Get("/ops/{id}", p.w)
    [] p.k = "sublife" -> Get("/subscriptions/{id}", p.w)
    [] p.k = "invite" -> Req("POST", "/invites/{id}", p.w, <<"name", "uuid">>, p.n, p.n, 1, 1)

WithDoc == {"worlds", "server", "address"}          \* the calls that look for an error document
Zero(k) == CASE k \in {"available", "compatible", "server", "address"} -> <<0>>
             [] k = "sublife" -> <<0, 0, 0>>
             [] OTHER -> <<>>

(* what the service does with a processed request of an accepted session: <<allowed, new state, answer>> *)
Serve(st, p) ==
  CASE p.k = "available" -> <<TRUE, st, <<IF st.cl.ver = 2 THEN 0 ELSE 1>>>>      \* model choice: an outdated client is told `false`
    [] p.k = "compatible" -> <<TRUE, st, <<st.cl.ver>>>>
    [] p.k = "tos" -> <<TRUE, [st EXCEPT !.tos = TRUE], <<>>>>
    [] p.k = "worlds" -> <<TRUE, st, SortedSeq(Owned \cup Member)>>
    [] p.k = "server" -> <<p.w \in Owned, st, IF p.w \in Owned THEN <<p.w>> \o SortedSeq(st.inv[p.w]) ELSE <<>>>>
    [] p.k = "address" -> <<p.w \in Owned \cup Member /\ (st.tos \/ Broken), st, <<p.w>>>>
    [] p.k = "backups" -> <<p.w \in Owned, st, <<10 * p.w + 1, 10 * p.w + 2>>>>
    [] p.k = "ops" -> <<p.w \in Owned, st, <<100 + p.w>>>>
    [] p.k = "sublife" -> <<p.w \in Owned, st, <<p.w, 10 * p.w, 1>>>>
    [] p.k = "invite" -> <<p.w \in Owned, IF p.w \in Owned THEN [st EXCEPT !.inv[p.w] = @ \cup {p.n}] ELSE st, <<>>>>

StepCall(code, st, p) ==
  LET f == p.f
      k == p.k
      sv == Serve(st, p)
      reach == Processed(f) /\ st.cl.cred              \* the request reaches the service logic
      st1 == IF reach THEN sv[2] ELSE st
      (* the answer the client gets: "ok" the documented one, "pending", "denied" 403/404 + document, "unauth" 401 empty, *)
      (* "http" the fault, "none" no answer at all                                                                         *)
      ans == IF f.k = "http" THEN "http" ELSE IF f.k \in {"transport", "lost"} THEN "none"
             ELSE IF ~st.cl.cred THEN "unauth" ELSE IF ~sv[1] THEN "denied"
             ELSE IF k = "address" /\ p.w \in st.pend THEN "pending" ELSE "ok"
      doc == ans = "denied" \/ (ans = "http" /\ f.b = "errdoc")
      json == ans = "http" /\ f.b = "json"
      iok == ans = "ok"
      (* as coded *)
      cok == CASE k = "tos" -> ans # "none"
               [] k = "compatible" -> ans # "none"
               [] k = "invite" -> FALSE
               [] k = "sublife" -> iok \/ doc \/ json
               [] k \in WithDoc -> iok \/ json
               [] OTHER -> iok
      cret == CASE ~cok -> <<>>
                [] iok -> sv[3]
                [] k = "compatible" -> IF ans = "unauth" \/ (ans = "http" /\ f.b = "empty") THEN <<0>> ELSE <<9>>
                [] OTHER -> Zero(k)
      ok == IF code THEN cok ELSE iok
      ret == IF code THEN cret ELSE IF iok THEN sv[3] ELSE <<>>
      ek == IF ok THEN "none" ELSE IF doc /\ k \in WithDoc THEN "realms" ELSE "other"
      open == IF code /\ k = "invite" /\ ans # "none" THEN 1 ELSE 0
  IN R(st1, ok, ret, ek, <<ReqOf(p)>>, open)

Step(code, st, p) ==
  CASE p.k = "new" -> R([st EXCEPT !.cl = [cred |-> p.b, ver |-> p.v]], TRUE, <<>>, "none", <<>>, 0)
    [] p.k = "pending" -> R([st EXCEPT !.pend = IF p.b THEN @ \cup {p.w} ELSE @ \ {p.w}], TRUE, <<>>, "none", <<>>, 0)
    [] OTHER -> StepCall(code, st, p)

Named(st, p) ==
  LET got == p.f.k = "http" \/ (p.f.k = "none" /\ ~st.cl.cred) IN        \* an answer that is not the documented one
  CASE p.k = "tos" /\ got -> "TOSStatus"
    [] p.k = "compatible" /\ got -> "CompatibleStatus"
    [] p.k \in {"worlds", "server", "address", "sublife"} /\ p.f.k = "http" /\ p.f.b = "json" -> "JsonStatus"
    [] p.k = "sublife" /\ ((p.f.k = "http" /\ p.f.b = "errdoc") \/ (p.f.k = "none" /\ st.cl.cred /\ p.w \notin Owned)) -> "SubscriptionErrDoc"
    [] p.k = "invite" /\ p.f.k = "none" /\ st.cl.cred /\ p.w \in Owned -> "InviteResult"
    [] p.k = "invite" /\ (got \/ p.f.k = "none") -> "InviteBodyLeak"
    [] OTHER -> "none"
Class(st, p) == IF Step(TRUE, st, p) = Step(FALSE, st, p) THEN "none" ELSE Named(st, p)

\* ---------------------------------------------------------------- generator
Init0 == [tos |-> FALSE, inv |-> [w \in Owned |-> {}], pend |-> {}, cl |-> [cred |-> TRUE, ver |-> 1]]
WorldOps == {"server", "address", "backups", "ops", "sublife"}
Some(Q(_)) ==
  \/ \E b \in BOOLEAN, v \in 1..3 : Q(P("new", 0, 0, b, v, NoF))
  \/ \E w \in Owned \cup Member, b \in BOOLEAN : Q(P("pending", w, 0, b, 0, NoF))
  \/ \E f \in FaultSet \cup {NoF} :
       \/ \E k \in {"available", "compatible", "tos", "worlds"} : Q(P(k, 0, 0, FALSE, 0, f))
       \/ \E k \in WorldOps, w \in Worlds \cup Ghost : Q(P(k, w, 0, FALSE, 0, f))
       \/ \E w \in Worlds \cup Ghost, n \in Players : Q(P("invite", w, n, FALSE, 0, f))
All(Q(_)) == ~Some(LAMBDA p : ~Q(p))

Do(p) == LET r == Step(Code, s, p) IN
         /\ s' = r.s
         /\ act' = [p |-> p, ok |-> r.ok, ret |-> r.ret, ek |-> r.ek, reqs |-> r.reqs, open |-> r.open]
Init == s = Init0 /\ act = [p |-> P("reset", 0, 0, FALSE, 0, NoF), ok |-> TRUE, ret |-> <<>>, ek |-> "none", reqs |-> <<>>, open |-> 0]
Next == Some(Do)
Spec == Init /\ [][Next]_vars

\* ---------------------------------------------------------------- properties (of the intent)
Net(p) == p.k \notin {"new", "pending", "reset"}
TypeOK == /\ s.tos \in BOOLEAN /\ s.pend \subseteq Owned \cup Member
          /\ DOMAIN s.inv = Owned /\ \A w \in Owned : s.inv[w] \subseteq Players
          /\ s.cl.cred \in BOOLEAN /\ s.cl.ver \in 1..3
Agree == All(LAMBDA p : Named(s, p) = "none" => Step(TRUE, s, p) = Step(FALSE, s, p))
(* the agreement is never taken back; only TOS gives it *)
TosRule == [][/\ (s.tos => s'.tos)
              /\ (s'.tos /\ ~s.tos => act'.p.k = "tos" /\ s.cl.cred /\ Processed(act'.p.f))]_vars
(* the client's view: what a call reports as done is done *)
ViewOK(p, pre, post, ok, ret) ==
  /\ (p.k = "tos" /\ ok) => post.tos
  /\ (p.k = "invite" /\ ok) => (p.w \in Owned /\ p.n \in post.inv[p.w])
  /\ (p.k = "invite" /\ p.f.k = "none" /\ pre.cl.cred /\ p.w \in Owned) => ok          \* .. and what is done is reported as done
  /\ (p.k = "address" /\ ok) => (pre.tos /\ p.w \in Owned \cup Member /\ p.w \notin pre.pend /\ ret = <<p.w>>)
  /\ (p.k = "compatible" /\ ok) => ret = <<pre.cl.ver>>
  /\ (p.k = "server" /\ ok) => (p.w \in Owned /\ ret = <<p.w>> \o SortedSeq(pre.inv[p.w]))
ViewAgrees == [][ViewOK(act'.p, s, s', act'.ok, act'.ret)]_vars
(* every fault, and every answer to a stale session, surfaces as an error *)
NoSilentSuccess == [][(Net(act'.p) /\ (act'.p.f.k # "none" \/ ~s.cl.cred)) => ~act'.ok]_vars
(* the owner's calls succeed for the owner only *)
OwnerOnly == [][(act'.p.k \in {"server", "backups", "ops", "sublife", "invite"} /\ act'.ok) => act'.p.w \in Owned]_vars
(* invitations change by an invite of the owner only *)
InviteRule == [][(s'.inv # s.inv) => (act'.p.k = "invite" /\ act'.p.w \in Owned /\ s.cl.cred /\ Processed(act'.p.f)
                                      /\ s'.inv = [s.inv EXCEPT ![act'.p.w] = @ \cup {act'.p.n}])]_vars
UnprocessedNoEffect == [][(Net(act'.p) /\ ~Processed(act'.p.f)) => s' = s]_vars
(* one request per call, with the cookies; every response body is closed *)
OneRequest == [][Len(act'.reqs) = (IF Net(act'.p) THEN 1 ELSE 0) /\ \A i \in 1..Len(act'.reqs) : act'.reqs[i].ck = 1]_vars
BodiesClosed == [][act'.open = 0]_vars
=============================================================================
