------------------------------- MODULE BotConn -------------------------------
(***************************************************************************)
(* bot.Conn (bot/client.go warpConn), receive side - C20.  A goroutine     *)
(* reads packets from the socket and pushes them into a queue; any number  *)
(* of consumers call ReadPacket concurrently.  One peer writes packets     *)
(* 1, 2, 3, ... in order and then closes the socket.                       *)
(*   sent       packets whose write the peer has STARTED                   *)
(*   closing    the peer has started to close the socket                   *)
(*   delivered  packets handed to consumers so far (a counter: they are    *)
(*              handed out in order, each exactly once)                    *)
(*   pend[g]    the ReadPacket call of consumer g: none / called / done    *)
(* A call takes effect at one instant between its start and its end:       *)
(*   it returns packet delivered+1 if that packet has been sent, or        *)
(*   it reports the loss of the connection (a NON-NIL error) - only after  *)
(*   the peer started closing and every sent packet has been handed out.   *)
(* A nil error with a packet that was not the next one (e.g. a zero        *)
(* packet on closure) has no explanation.                                  *)
(***************************************************************************)
EXTENDS Integers, Sequences, FiniteSets, TLC
CONSTANTS Procs, MaxItems
VARIABLES sent, closing, delivered, pend
bvars == <<sent, closing, delivered, pend>>
NoCall == [st |-> "none", r |-> 0]
BInit == sent = 0 /\ closing = FALSE /\ delivered = 0 /\ pend = [g \in Procs |-> NoCall]
Send == ~closing /\ sent < MaxItems /\ sent' = sent + 1 /\ UNCHANGED <<closing, delivered, pend>>
CloseStart == ~closing /\ closing' = TRUE /\ UNCHANGED <<sent, delivered, pend>>
Call(g) == pend[g].st = "none" /\ pend' = [pend EXCEPT ![g] = [st |-> "called", r |-> 0]] /\ UNCHANGED <<sent, closing, delivered>>
\* r > 0: that packet, with a nil error; r = -1: connection lost (non-nil error)
Lin(g) == /\ pend[g].st = "called"
          /\ \/ /\ delivered < sent /\ delivered' = delivered + 1
                /\ pend' = [pend EXCEPT ![g] = [st |-> "done", r |-> delivered + 1]]
             \/ /\ closing /\ delivered = sent /\ delivered' = delivered
                /\ pend' = [pend EXCEPT ![g] = [st |-> "done", r |-> -1]]
          /\ UNCHANGED <<sent, closing>>
Return(g, r) == pend[g].st = "done" /\ pend[g].r = r /\ pend' = [pend EXCEPT ![g] = NoCall] /\ UNCHANGED <<sent, closing, delivered>>
BNext == Send \/ CloseStart \/ \E g \in Procs : Call(g) \/ Lin(g) \/ \E r \in (1..MaxItems) \cup {-1} : Return(g, r)
BSpec == BInit /\ [][BNext]_bvars /\ \A g \in Procs : WF_bvars(Lin(g))
\* what a user relies on
InOrderOnce == \A g, h \in Procs : (g # h /\ pend[g].st = "done" /\ pend[h].st = "done" /\ pend[g].r > 0 /\ pend[h].r > 0) => pend[g].r # pend[h].r
NothingInvented == \A g \in Procs : (pend[g].st = "done" /\ pend[g].r > 0) => pend[g].r <= sent
LossOnlyAfterAll == \A g \in Procs : (pend[g].st = "done" /\ pend[g].r = -1) => (closing /\ delivered = sent)
\* a parked consumer is always answered once the peer has closed (no lost wake-up)
Answered == \A g \in Procs : (pend[g].st = "called" /\ closing) ~> (pend[g].st # "called")
=============================================================================
