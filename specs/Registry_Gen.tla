---------------------------- MODULE Registry_Gen ----------------------------
(* Behaviour generator for leg A of X02/Registry: the Registry specification simulated by TLC with the   *)
(* network messages built from a few shapes (length, first key, key stride - stride 0 repeats one key -, *)
(* tag and id-list selectors) instead of all sequences, and Clear thinned.  Every entry carries data     *)
(* (entries without data are exercised by leg B only).  A message with an invalid id binds the tags in   *)
(* front of it (k = bad - 1): that is what the implementation does; the specification allows any prefix. *)
(* This module only chooses which behaviours are replayed; it proves nothing.                            *)
EXTENDS Registry
NK == Cardinality(Keys)
NV == Cardinality(Vals)
NT == Cardinality(Tags)
MsgShape(n, a, b) == [i \in 1..n |-> <<((a + i * b) % NK) + 1, TRUE, ((a * 3 + i + nops) % NV) + 1>>]
IdList(s) == LET c == s % 8 IN
             IF c = 0 THEN <<>> ELSE IF c = 1 THEN <<0>> ELSE IF c = 2 THEN <<N - 1, 0>> ELSE IF c = 3 THEN <<N - 1>>
             ELSE IF c = 4 THEN <<N>> ELSE IF c = 5 THEN <<-1>> ELSE IF c = 6 THEN <<0, N \div 2, N - 1>> ELSE <<0, N>>
(* on an empty row every non-empty id list is invalid; valid lists are preferred by the selector 0..3, 6 *)
TagShape(n, t0, s) == [i \in 1..n |-> <<((t0 + i) % NT) + 1, IdList(IF N = 0 /\ i < n THEN 0 ELSE s + 5 * i)>>]
GenNext == \/ \E k \in Keys : N < MaxN /\ Put(k, ((k + nops) % NV) + 1)
           \/ \E k \in Keys : Get(k)
           \/ \E id \in {-1, 0, N - 1, N, 2147483647, -2147483647} : GetByID(id)
           \/ (nops % 7 = 3 /\ Clear)
           \/ (nops % 5 = 2 /\ ClearTags)
           \/ \E t \in Tags : Tag(t)
           \/ \E n \in {0, 1, 3, MaxMsg}, b \in 0..2 : nops % 3 = 1 /\ ReadFrom(MsgShape(n, nops % 4, b))
           \/ \E n \in {0, 1, 2, 3}, s \in {nops % 8, (3 * nops + 1) % 8} :
                LET tm == TagShape(n, nops % 2, s)  bad == BadAt(N, tm) IN ReadTags(tm, IF bad = 0 THEN 0 ELSE bad - 1)
GenSpec == Init /\ [][GenNext]_vars
=============================================================================
