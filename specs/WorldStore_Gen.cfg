SPECIFICATION GenSpec
CONSTANTS
  Coords <- MC_CoordsGen
  Levels = {}
  Dsts = {}
  CTypes = {}
  Lens = {}
  SectorSize = 4096
  MaxNeed = 255
  Variant = "code"
  MaxOps = 1000000
INVARIANTS GenOK
CHECK_DEADLOCK FALSE
