SPECIFICATION Spec
CONSTANTS
  Coords <- MC_Coords2
  Levels <- MC_Levels
  Dsts <- MC_Dsts
  CTypes = {0, 1, 2, 3, 4}
  Lens <- MC_Lens
  SectorSize = 4096
  MaxNeed = 255
  Variant = "code_ents"
  MaxOps = 0
VIEW View
INVARIANTS TypeOK Refines SizeOK
PROPERTIES Frame ReadOnly RefusedNoop AcceptedPut GetLaw RelayLaw
CHECK_DEADLOCK FALSE
