SPECIFICATION Spec
CONSTANTS
  Boxes <- MC_BoxesQ
  Tests <- MC_Tests
  Vals = {7}
  MaxLeaves = 4
  AnySibling = TRUE
  RefitRootOnDelete = TRUE
  Bug = 0
VIEW View
INVARIANTS TypeOK InvBinary InvParents InvConnected InvContains InvTight Refines FindExact
CHECK_DEADLOCK FALSE
