---------------------------- MODULE Frame_Trace -----------------------------
(* Trace validation for C07: real Pack output projected by an independent     *)
(* frame reader, real UnPack results, and hostile headers, judged by Frame.   *)
EXTENDS Frame
Trace == ndJsonDeserialize("trace.ndjson")
VARIABLES l, shas      \* shas: payload digests of the frames on the wire (parallel to `wire`)
tvars == <<vars, l, shas>>
Ev == Trace[l]
IsEvent(k) == l <= Len(Trace) /\ Trace[l].k = k /\ l' = l + 1

TReset == /\ IsEvent("reset") /\ thr' = Ev.thr /\ wire' = <<>> /\ sent' = <<>> /\ recv' = <<>> /\ bad' = NoBad /\ shas' = <<>>
TSetThr == IsEvent("setthr") /\ wire = <<>> /\ thr' = Ev.thr /\ UNCHANGED <<wire, sent, recv, bad, shas>>
\* Pack was called with (id, n, sha); the independent reader found frame f with payload digest fsha in `total` bytes
TPack == /\ IsEvent("pack") /\ Ev.err = FALSE
         /\ Conformant(thr, Ev.id, Ev.n, Ev.f)
         /\ Ev.fsha = Ev.sha /\ Ev.total = WireBytes(Ev.f) /\ Ev.parsed
         /\ wire' = Append(wire, Ev.f) /\ shas' = Append(shas, Ev.sha)
         /\ sent' = Append(sent, <<Ev.id, Ev.n>>)
         /\ UNCHANGED <<thr, recv, bad>>
\* UnPack returned (id, n, sha) having consumed `consumed` bytes of the stream
TUnpack == /\ IsEvent("unpack") /\ wire # <<>>
           /\ LET f == Head(wire)  d == Decide(thr, HeaderOf(f)) IN
              /\ d = "accept" => Ev.err = FALSE
              /\ Ev.err = FALSE => /\ Ev.id = f.id /\ Ev.n = f.n /\ Ev.sha = Head(shas)
                                   /\ Ev.consumed = WireBytes(f)
           /\ Ev.panicked = FALSE
           /\ recv' = Append(recv, <<Head(wire).id, Head(wire).n>>)
           /\ wire' = Tail(wire) /\ shas' = Tail(shas)
           /\ UNCHANGED <<thr, sent, bad>>
\* a hostile header (built byte-wise by the harness; h = what is actually on the wire)
TBad == /\ IsEvent("bad")
        /\ LET d == Decide(Ev.thr, Ev.h) IN
           /\ d = "reject" => Ev.err
           /\ d = "accept" => ~Ev.err
        /\ Ev.panicked = FALSE
        /\ UNCHANGED <<vars, shas>>
\* a packet unpacked earlier into its own Packet value and held by the caller while later packets were unpacked:
\* it still is what it was (id, length, payload digest as recorded when it was unpacked)
THeld == /\ IsEvent("held") /\ Ev.idx \in 1..Len(recv)
         /\ Ev.id = recv[Ev.idx][1] /\ Ev.n = recv[Ev.idx][2] /\ Ev.sha = Ev.sha0
         /\ UNCHANGED <<vars, shas>>
TraceInit == Init /\ l = 1 /\ shas = <<>>
TraceNext == (TReset \/ TSetThr \/ TPack \/ TUnpack \/ TBad \/ THeld) /\ FIFO'
TraceSpec == TraceInit /\ [][TraceNext]_tvars
Accepted == LET d == TLCGet("stats").diameter IN PrintT(<<"HWM", d, Len(Trace) + 1>>) /\ d = Len(Trace) + 1
=============================================================================
