SPECIFICATION Spec
CONSTANTS
  Clients = {1, 2, 3, 4}
  K = 2
  Layer = "code"
  Broken = "none"
  Intents = {1, 2}
  CfgModes = {"wait"}
INVARIANTS Common

CHECK_DEADLOCK FALSE
