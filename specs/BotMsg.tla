-------------------------------- MODULE BotMsg --------------------------------
(***************************************************************************)
(* X06 (specification extension): bot/msg.Manager - system chat, disguised *)
(* chat, player chat (sender lookup in bot/playerlist, packed signature    *)
(* ids resolved through the embedded chat/sign.SignatureCache, the chat    *)
(* session's signature chain) and the two calls that send: SendMessage and *)
(* SendCommand.                                                            *)
(*                                                                         *)
(* Abstract state `s`:                                                     *)
(*   players  uuid token -> [sess, valid, last]: PlayerList.PlayerInfos;   *)
(*            sess = chat session token (0 = none), valid / last = the     *)
(*            session's chain state (Session.valid, index of the last      *)
(*            accepted message, -1 = none).  Changed by the player list's  *)
(*            own packets ("padd", "premove": the environment here, X04    *)
(*            specifies them) and by player chat.                          *)
(*   cache    Manager.SignatureCache: signature tokens, most recent first  *)
(*   full     the send queue refuses packets                               *)
(*   lst      which callbacks were given to msg.New ("sys", "chat", "dis") *)
(*            plus "probe" (a user handler at priority 0 registered after) *)
(* Chat types 0..NTypes-1 are registered; Params(ct) are the decoration    *)
(* parameters.  A decorated message is projected as <<ct, args..>>:        *)
(* sender name n -> 1000+n, target name -> 2000+n, plain content m ->      *)
(* 3000+m, unsigned content -> 4000+m, a parameter that is neither -> -1,  *)
(* a missing target -> -3 (empty component).                               *)
(*                                                                         *)
(* Player chat packet: u sender, idx index, sig "none" | "bad" | "valid"   *)
(* (valid = signed by the session key as protocol 767 prescribes), st the  *)
(* signature's token, m plain text, ls the last-seen list (e > 0: the full *)
(* signature e, e <= 0: packed id -e), un unsigned content (0 = none),     *)
(* filt filter mask type, ct / sn / ht / tn the bound chat type.           *)
(*                                                                         *)
(* Two layers, Step(FALSE, ..) INTENT (what a vanilla client does, as far  *)
(* as the callbacks can show) and Step(TRUE, ..) AS CODED; Class names the *)
(* packets on which they part:                                             *)
(*   FullSig           a last-seen entry with a full signature: the entry  *)
(*                     decoder does not consume the 256 bytes, the rest of *)
(*                     the packet is misread (code layer: UNSPECIFIED)     *)
(*   PackedId          last-seen entries that are packed ids: all decoded  *)
(*                     as id 0 (value receiver) and looked up without the  *)
(*                     -1 offset; an empty slot is a nil signature, not an *)
(*                     error                                               *)
(*   SignedNoSignature a player with a chat session sends a message        *)
(*                     without signature: nil dereference                  *)
(*   SignedChain       the first correctly signed message of a session:    *)
(*                     the chain test wants a previous message, so no      *)
(*                     message is ever accepted                            *)
(*   TargetMissing     a chat type with a "target" parameter bound without *)
(*                     target name: nil dereference                        *)
(*   NonAsciiLength    SendMessage / SendCommand count bytes, the protocol *)
(*                     counts characters                                   *)
(*   SendCommandLayout SendCommand writes the signed-command fields under  *)
(*                     the id of the unsigned ChatCommand packet           *)
(* Following the code elsewhere: the order of the tests (last-seen,        *)
(* sender, chat type, signature), a message from a player without session  *)
(* is delivered as not validated whatever signature it carries, the chat   *)
(* type id is read as a plain VarInt, commands longer than 256 are refused.*)
(***************************************************************************)
EXTENDS Integers, Sequences, FiniteSets, TLC

CONSTANTS Us, Sess, Idxs, Msgs, Sigs, LSs, Cts, NTypes, Cap, Lens, FailSets, Lsts, Variant

Code == Variant = "code"
Broken == Variant = "broken"        \* vacuity guard: a message of an unknown sender is delivered

VARIABLES s, act
vars == <<s, act>>

MC_Lsts == {<<"sys", "chat", "dis", "probe">>, <<"chat">>, <<"sys", "probe">>, <<"probe">>}
MC_LstsQ == {<<"sys", "chat", "dis", "probe">>, <<"probe">>}
MC_Fails == {<<>>, <<1>>, <<2>>}
MC_LSs == {<<>>, <<0>>, <<-1>>, <<2>>, <<1, 0>>}
MC_LSsQ == {<<>>, <<0>>, <<2>>}
MC_Lens == {<<3, 1>>, <<256, 1>>, <<257, 1>>, <<200, 2>>, <<128, 2>>}

Has(l, x) == \E i \in 1..Len(l) : l[i] = x
Fl(p, i) == \E j \in 1..Len(p.fail) : p.fail[j] = i
Bind(f, x, v) == [y \in DOMAIN f \cup {x} |-> IF y = x THEN v ELSE f[y]]
Drop(f, x) == [y \in DOMAIN f \ {x} |-> f[y]]

P(k, u, n, idx, sig, st, m, ls, un, filt, ct, sn, ht, tn, w, fail) ==
  [k |-> k, u |-> u, n |-> n, idx |-> idx, sig |-> sig, st |-> st, m |-> m, ls |-> ls, un |-> un, filt |-> filt,
   ct |-> ct, sn |-> sn, ht |-> ht, tn |-> tn, w |-> w, fail |-> fail]
P0(k, u, n, fail) == P(k, u, n, 0, "none", 0, 0, <<>>, 0, 0, 0, 0, 0, 0, 0, fail)
Ev(name, args) == <<name, args>>
Out(kind, args) == <<kind, args>>
Res(st, evs, out, err, pan) == [s |-> st, evs |-> evs, out |-> out, err |-> err, pan |-> pan]
Fresh(lst) == [players |-> <<>>, cache |-> <<>>, full |-> FALSE, lst |-> lst]

PacketKinds == {"system", "disguised", "chat"}

\* ---------------------------------------------------------------- chat types
Params(ct) == CASE ct = 0 -> <<"sender", "content">>
                [] ct = 1 -> <<"sender", "target", "content">>
                [] ct = 2 -> <<"content", "other">>
                [] OTHER -> <<>>
KnownType(ct) == ct >= 0 /\ ct < NTypes
NeedsTarget(ct) == Has(Params(ct), "target")
Decor(ct, sn, ht, tn, content) ==
  <<ct>> \o [i \in 1..Len(Params(ct)) |->
               CASE Params(ct)[i] = "sender" -> 1000 + sn
                 [] Params(ct)[i] = "target" -> (IF ht = 1 THEN 2000 + tn ELSE -3)
                 [] Params(ct)[i] = "content" -> content
                 [] OTHER -> -1]

\* ---------------------------------------------------------------- signature cache (intent: most recent first, no repeats)
RECURSIVE Dedup(_)
Dedup(q) == IF q = <<>> THEN <<>>
            ELSE LET r == Dedup(SubSeq(q, 1, Len(q) - 1)) IN
                 IF \E i \in 1..Len(r) : r[i] = q[Len(q)] THEN r ELSE Append(r, q[Len(q)])
Take(q, n) == SubSeq(q, 1, IF Len(q) < n THEN Len(q) ELSE n)
Push(cache, self, seen) == Take(Dedup(<<self>> \o seen \o cache), Cap)
Cached(cache, e) == e > 0 \/ (-e) < Len(cache)                  \* a full signature, or a packed id of a used slot
Resolve(cache, ls) == [i \in 1..Len(ls) |-> IF ls[i] > 0 THEN ls[i] ELSE cache[1 - ls[i]]]
AllCached(cache, ls) == \A i \in 1..Len(ls) : Cached(cache, ls[i])
HasFull(ls) == \E i \in 1..Len(ls) : ls[i] > 0

\* ---------------------------------------------------------------- dispatch (the manager's handlers run at priority 64, the probe at 0)
(* the handler's callback is number 1, the probe number 2 (1 if the handler has no callback to call) *)
Deliver(s1, p, ev, out) ==
  LET pr == IF Has(s1.lst, "probe") THEN <<Ev("probe", <<>>)>> ELSE <<>> IN
  IF Len(ev) = 1 /\ Fl(p, 1) THEN Res(s1, ev, out, "cb", FALSE)
  ELSE IF Len(pr) = 1 /\ Fl(p, Len(ev) + 1) THEN Res(s1, ev \o pr, out, "cb", FALSE)
  ELSE Res(s1, ev \o pr, out, "none", FALSE)
Refuse(s1, err) == Res(s1, <<>>, <<>>, err, FALSE)
Panic(s1) == Res(s1, <<>>, <<>>, "none", TRUE)

StepChat(code, s0, p) ==
  LET known == p.u \in DOMAIN s0.players
      pl    == s0.players[p.u]
      content == IF p.un # 0 THEN 4000 + p.un ELSE 3000 + p.m
      deliver(s1, validated) ==
        IF code /\ NeedsTarget(p.ct) /\ p.ht = 0 THEN Panic(s1)
        ELSE Deliver(s1, p, <<Ev("chat", <<validated>> \o Decor(p.ct, p.sn, p.ht, p.tn, content))>>, <<>>)
  IN
  IF ~Has(s0.lst, "chat") THEN Deliver(s0, p, <<>>, <<>>)                         \* no handler registered
  ELSE IF code /\ HasFull(p.ls) THEN Refuse(s0, "invalid")                         \* UNSPECIFIED (misread packet), never compared
  ELSE IF ~code /\ ~AllCached(s0.cache, p.ls) THEN Refuse(s0, "invalid")           \* uncached signature
  ELSE IF ~known THEN (IF Broken THEN deliver(s0, 0) ELSE Refuse(s0, "invalid"))   \* unknown player
  ELSE IF ~KnownType(p.ct) THEN Refuse(s0, "invalid")                              \* unknown chat type
  ELSE IF pl.sess = 0 THEN deliver(s0, 0)
  ELSE IF ~code THEN
    IF pl.valid /\ p.sig = "valid" /\ p.idx > pl.last
    THEN deliver([s0 EXCEPT !.players[p.u].last = p.idx, !.cache = Push(@, p.st, Resolve(s0.cache, p.ls))], 1)
    ELSE Refuse([s0 EXCEPT !.players[p.u].valid = FALSE], "validation")
  ELSE \* as coded: valid && verifyHash && verifyChain, and verifyChain is false while there is no previous message
    IF ~pl.valid THEN Refuse(s0, "validation")
    ELSE IF p.sig = "none" THEN Panic(s0)                                           \* msg.Signature[:] of a nil pointer
    ELSE IF Len(p.ls) > 0 THEN Panic(s0)                                            \* (*v)[:] of the nil signatures Unpack answered
    ELSE Refuse([s0 EXCEPT !.players[p.u].valid = FALSE], "validation")

Wd(p) == IF p.n = 0 THEN 1 ELSE p.w                             \* the empty text has no character width
SendOut(s0, pkt) == IF s0.full THEN Res(s0, <<>>, <<>>, "own", FALSE) ELSE Res(s0, <<>>, <<pkt>>, "none", FALSE)

Step(code, s0, p) ==
  CASE p.k = "system" ->
         Deliver(s0, p, IF Has(s0.lst, "sys") THEN <<Ev("system", <<p.m, p.n>>)>> ELSE <<>>, <<>>)
    [] p.k = "disguised" ->
         IF ~Has(s0.lst, "dis") THEN Deliver(s0, p, <<>>, <<>>)
         ELSE IF ~KnownType(p.ct) THEN Refuse(s0, "invalid")
         ELSE IF code /\ NeedsTarget(p.ct) /\ p.ht = 0 THEN Panic(s0)
         ELSE Deliver(s0, p, <<Ev("disguised", Decor(p.ct, p.sn, p.ht, p.tn, 3000 + p.m))>>, <<>>)
    [] p.k = "chat" -> StepChat(code, s0, p)
    \* calls of the user; n characters of w bytes each
    [] p.k = "send" ->
         IF (IF code THEN p.n * p.w ELSE p.n) > 256 THEN Refuse(s0, "own")
         ELSE SendOut(s0, Out("chatmsg", <<p.n, Wd(p), 1, 0, 0, 0, 0>>))        \* text, timestamp ok, unsigned, offset 0, 0 bits of 20 set, nothing behind
    [] p.k = "cmd" ->
         IF (IF code THEN p.n * p.w ELSE p.n) > 256 THEN Refuse(s0, "own")
         ELSE SendOut(s0, Out("chatcmd", <<p.n, Wd(p), IF code THEN 21 ELSE 0>>)) \* text, bytes behind the command string
    \* the environment: the player list's packets, the queue
    [] p.k = "padd" -> Res([s0 EXCEPT !.players = Bind(@, p.u, [sess |-> p.n, valid |-> p.n # 0, last |-> -1])], <<>>, <<>>, "none", FALSE)
    [] p.k = "premove" -> Res([s0 EXCEPT !.players = Drop(@, p.u)], <<>>, <<>>, "none", FALSE)
    [] p.k = "setfull" -> Res([s0 EXCEPT !.full = (p.n = 1)], <<>>, <<>>, "none", FALSE)
    [] OTHER -> Res(s0, <<>>, <<>>, "none", FALSE)

Class(s0, p) ==
  IF p.k = "chat" /\ Has(s0.lst, "chat") THEN
    IF HasFull(p.ls) THEN "FullSig"
    ELSE IF Len(p.ls) > 0 THEN "PackedId"
    ELSE IF p.u \notin DOMAIN s0.players \/ ~KnownType(p.ct) THEN "none"
    ELSE IF s0.players[p.u].sess # 0 /\ s0.players[p.u].valid /\ p.sig = "none" THEN "SignedNoSignature"
    ELSE IF s0.players[p.u].sess # 0 /\ s0.players[p.u].valid /\ p.sig = "valid" /\ p.idx > s0.players[p.u].last THEN "SignedChain"
    ELSE IF s0.players[p.u].sess # 0 THEN "none"
    ELSE IF NeedsTarget(p.ct) /\ p.ht = 0 THEN "TargetMissing"
    ELSE "none"
  ELSE IF p.k = "disguised" /\ Has(s0.lst, "dis") /\ KnownType(p.ct) /\ NeedsTarget(p.ct) /\ p.ht = 0 THEN "TargetMissing"
  ELSE IF p.k \in {"send", "cmd"} /\ p.n <= 256 /\ p.n * p.w > 256 THEN "NonAsciiLength"
  ELSE IF p.k = "cmd" /\ p.n * p.w <= 256 /\ ~s0.full THEN "SendCommandLayout"
  ELSE "none"

\* ---------------------------------------------------------------- the machine
Some(Q(_)) ==
  \/ \E m \in Msgs, ov \in {0, 1}, f \in FailSets : Q(P("system", 0, ov, 0, "none", 0, m, <<>>, 0, 0, 0, 0, 0, 0, 0, f))
  \/ \E m \in Msgs, ct \in Cts, ht \in {0, 1}, f \in FailSets : Q(P("disguised", 0, 0, 0, "none", 0, m, <<>>, 0, 0, ct, 5, ht, 6 * ht, 0, f))
  \/ \E u \in Us, idx \in Idxs, sg \in Sigs, m \in Msgs, ls \in LSs, un \in {0, 9}, ct \in Cts, ht \in {0, 1}, f \in FailSets :
       Q(P("chat", u, 0, idx, sg, IF sg = "none" THEN 0 ELSE 10 + idx, m, ls, un, idx % 3, ct, u, ht, 6 * ht, 0, f))
  \/ \E l \in Lens : Q(P("send", 0, l[1], 0, "none", 0, 0, <<>>, 0, 0, 0, 0, 0, 0, l[2], <<>>))
  \/ \E l \in Lens : Q(P("cmd", 0, l[1], 0, "none", 0, 0, <<>>, 0, 0, 0, 0, 0, 0, l[2], <<>>))
  \/ \E u \in Us, se \in Sess : Q(P0("padd", u, se, <<>>))
  \/ \E u \in Us : Q(P0("premove", u, 0, <<>>))
  \/ \E b \in {0, 1} : Q(P0("setfull", 0, b, <<>>))
All(Q(_)) == ~Some(LAMBDA p : ~Q(p))

Do(p) == LET r == Step(Code, s, p) IN
         /\ s' = r.s
         /\ act' = [p |-> p, evs |-> r.evs, out |-> r.out, err |-> r.err, pan |-> r.pan]
Init == /\ \E l \in Lsts : s = Fresh(l)
        /\ act = [p |-> P0("new", 0, 0, <<>>), evs |-> <<>>, out |-> <<>>, err |-> "none", pan |-> FALSE]
Next == Some(Do)
Spec == Init /\ [][Next]_vars
View == s

\* ---------------------------------------------------------------- properties (of the intent)
TypeOK == /\ DOMAIN s.players \subseteq Us /\ s.full \in BOOLEAN
          /\ \A u \in DOMAIN s.players : s.players[u].sess \in Sess /\ s.players[u].last \in {-1} \cup Idxs
                                         /\ (s.players[u].sess = 0 => ~s.players[u].valid /\ s.players[u].last = -1)
CacheOK == Len(s.cache) <= Cap /\ \A i, j \in 1..Len(s.cache) : (i # j => s.cache[i] # s.cache[j]) /\ s.cache[i] > 0
Agree == All(LAMBDA p : Class(s, p) = "none" => Step(TRUE, s, p) = Step(FALSE, s, p))

Act == act'
IsK(ks) == Act.p.k \in ks
Delivered == \E i \in 1..Len(Act.evs) : Act.evs[i][1] = "chat"
NoPanic == [][~Act.pan]_vars
(* a player chat that names an unknown sender, an unknown chat type or an uncached signature is an error: nothing is *)
(* delivered, nothing changes                                                                                        *)
UnknownIsError == [][(IsK({"chat"}) /\ Has(s.lst, "chat") /\
                       (Act.p.u \notin DOMAIN s.players \/ ~KnownType(Act.p.ct) \/ ~AllCached(s.cache, Act.p.ls)))
                      => (Act.err = "invalid" /\ ~Delivered /\ s' = s /\ ~Act.pan)]_vars
(* validated = 1 only for a correctly signed message that continues the chain; the chain only moves forward; a       *)
(* session that failed once stays failed until the player list replaces it                                           *)
ValidatedRule == [][(IsK({"chat"}) /\ Delivered) =>
                     LET pl == s.players[Act.p.u]
                         v  == Act.evs[1][2][1] IN
                     /\ Act.p.u \in DOMAIN s.players
                     /\ v = (IF pl.sess # 0 THEN 1 ELSE 0)
                     /\ (v = 1 => pl.valid /\ Act.p.sig = "valid" /\ Act.p.idx > pl.last /\ s'.players[Act.p.u].last = Act.p.idx
                                  /\ s'.cache[1] = Act.p.st)
                     /\ (v = 0 => s' = s)]_vars
ChainRule == [][IsK({"chat"}) => \A u \in DOMAIN s.players :
                  /\ u \in DOMAIN s'.players /\ s'.players[u].sess = s.players[u].sess
                  /\ s'.players[u].last >= s.players[u].last
                  /\ (~s.players[u].valid => ~s'.players[u].valid)]_vars
(* the first correctly signed message of a session is accepted *)
FirstSignedRule == [][(IsK({"chat"}) /\ Has(s.lst, "chat") /\ Act.p.u \in DOMAIN s.players /\ KnownType(Act.p.ct) /\ Act.p.ls = <<>>
                       /\ s.players[Act.p.u].sess # 0 /\ s.players[Act.p.u].valid /\ s.players[Act.p.u].last = -1 /\ Act.p.sig = "valid")
                      => Delivered]_vars
DecorRule == [][(IsK({"chat", "disguised"}) /\ Len(Act.evs) > 0 /\ Act.evs[1][1] \in {"chat", "disguised"}) =>
                 LET args == Act.evs[1][2]
                     d == IF Act.p.k = "chat" THEN SubSeq(args, 2, Len(args)) ELSE args IN
                 /\ d[1] = Act.p.ct /\ Len(d) = 1 + Len(Params(Act.p.ct))
                 /\ \A i \in 1..Len(Params(Act.p.ct)) :
                      (Params(Act.p.ct)[i] = "sender" => d[i + 1] = 1000 + Act.p.sn)
                      /\ (Params(Act.p.ct)[i] = "content" => d[i + 1] = (IF Act.p.k = "chat" /\ Act.p.un # 0 THEN 4000 + Act.p.un ELSE 3000 + Act.p.m))]_vars
(* SendMessage / SendCommand: more than 256 characters are refused, everything else is one packet of the unsigned form *)
SendRule == [][IsK({"send", "cmd"}) =>
                /\ s' = s
                /\ IF Act.p.n > 256 THEN Act.out = <<>> /\ Act.err = "own"
                   ELSE IF s.full THEN Act.out = <<>> /\ Act.err = "own"
                   ELSE Act.out = <<IF Act.p.k = "send" THEN Out("chatmsg", <<Act.p.n, Wd(Act.p), 1, 0, 0, 0, 0>>)
                                                        ELSE Out("chatcmd", <<Act.p.n, Wd(Act.p), 0>>)>>]_vars
EventRule == [][IsK(PacketKinds) =>
                 /\ (Act.err = "cb" => Fl(Act.p, Len(Act.evs)))
                 /\ (Act.err = "none" => \A i \in 1..Len(Act.evs) : ~Fl(Act.p, i))
                 /\ Len(Act.evs) <= 2
                 /\ \A i \in 1..Len(Act.evs) : (Act.evs[i][1] = "probe" => i = Len(Act.evs))
                 /\ ((Has(s.lst, "probe") /\ Act.err = "none" /\ ~Act.pan) => (Len(Act.evs) > 0 /\ Act.evs[Len(Act.evs)][1] = "probe"))]_vars
SystemRule == [][IsK({"system"}) => s' = s /\ (Has(s.lst, "sys") => (Len(Act.evs) > 0 /\ Act.evs[1] = Ev("system", <<Act.p.m, Act.p.n>>)))]_vars
=============================================================================
