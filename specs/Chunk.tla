-------------------------------- MODULE Chunk --------------------------------
(***************************************************************************)
(* C13: a chunk column and its conversions.                                *)
(*                                                                         *)
(* Abstract chunk: `secs` sections; per section the block states and the   *)
(* biomes as abstract arrays, the non-air counter, the two light arrays as *)
(* tokens (0 = absent); six height maps as tokens (0 = all zero); the list *)
(* of block entities (tuples <<x, z, y, type, tag>>); a status token.      *)
(*                                                                         *)
(* An abstract array (4096 block states / 64 biomes) is a background       *)
(* pattern plus exceptions: `pal` is a non-empty sequence of ids, position *)
(* p holds pal[(p % Len(pal)) + 1] unless p is in the domain of `arr`.     *)
(* A fill of 1, 2, 17, 300 ... distinct ids is one value of `pal`, so the  *)
(* palette representation class of the real container is driven by the     *)
(* model without 4096-entry functions.  (Palette.tla is the special case   *)
(* Len(pal) = 1.)                                                          *)
(*                                                                         *)
(* The conversions are given as functions on the abstract chunk: NetWire / *)
(* NetRead (protocol chunk data: height maps, section data, block          *)
(* entities, light), DataRead (section data alone), SaveForm / SaveRead    *)
(* (the save form: sections named by Y = index + yPos, block states        *)
(* translated to (name, properties) and back, height maps keyed by name).  *)
(* The round-trip laws are theorems of the model (checked by TLC) and the  *)
(* obligations the recorded executions of the real code are held to by     *)
(* Chunk_Trace.                                                            *)
(***************************************************************************)
EXTENDS Integers, Sequences, FiniteSets, TLC

CONSTANTS SecsSet,      \* section counts the generator starts from
          BlockPos,     \* block positions the generator touches (subset of 0..4095)
          BiomePos,     \* biome positions the generator touches (subset of 0..63)
          BlockIds,     \* block state ids the generator writes
          AirIds,       \* the ids of air, cave_air, void_air
          BiomeIds,     \* biome ids the generator writes
          BlockFills,   \* background patterns (sequences of block state ids) the generator fills with
          BiomeFills,   \* background patterns of biome ids
          Tokens,       \* tokens for height maps, light arrays, status, block-entity tags (positive)
          YPosSet,      \* yPos values of the save form
          MaxSteps,     \* bound on the length of generated histories
          Ops           \* names of the calls the generator may use

VARIABLES secs, blocks, biomes, count, sky, blt, hm, ents, status, act, steps
vars == <<secs, blocks, biomes, count, sky, blt, hm, ents, status, act, steps>>

HMNames == <<"WORLD_SURFACE_WG", "WORLD_SURFACE", "OCEAN_FLOOR_WG", "OCEAN_FLOOR", "MOTION_BLOCKING", "MOTION_BLOCKING_NO_LEAVES">>
HMSet == {HMNames[i] : i \in 1..6}
HMIndex(n) == CHOOSE i \in 1..6 : HMNames[i] = n
NetHM == {"MOTION_BLOCKING", "WORLD_SURFACE"}       \* the two height maps the protocol carries
SecIdx(n) == 0..(n - 1)

\* ---------------------------------------------------------------- abstract arrays
Filled(pal) == [pal |-> pal, arr |-> <<>>]
BgAt(a, p) == a.pal[(p % Len(a.pal)) + 1]
At(a, p) == IF p \in DOMAIN a.arr THEN a.arr[p] ELSE BgAt(a, p)
Put(a, p, v) == [pal |-> a.pal,
                 arr |-> IF v = BgAt(a, p) THEN [q \in DOMAIN a.arr \ {p} |-> a.arr[q]]
                         ELSE [q \in DOMAIN a.arr \cup {p} |-> IF q = p THEN v ELSE a.arr[q]]]
MapArr(a, F(_)) == [pal |-> [j \in 1..Len(a.pal) |-> F(a.pal[j])], arr |-> [p \in DOMAIN a.arr |-> F(a.arr[p])]]

\* ---------------------------------------------------------------- the non-air count of a section
NA(v) == IF v \in AirIds THEN 0 ELSE 1
CountMod(n, k, j) == (n - j + k - 1) \div k       \* number of p in 0..n-1 with p % k = j (0 <= j < k)
(* non-air positions of a pure pattern: all n, less the positions of the pattern entries that are air *)
RECURSIVE AirPositions(_, _, _)
AirPositions(n, k, J) == IF J = {} THEN 0
                         ELSE LET j == CHOOSE x \in J : TRUE IN CountMod(n, k, j - 1) + AirPositions(n, k, J \ {j})
PalNonAir(pal, n) == n - AirPositions(n, Len(pal), {j \in 1..Len(pal) : pal[j] \in AirIds})
RECURSIVE ExcDelta(_, _)
ExcDelta(a, S) == IF S = {} THEN 0
                  ELSE LET p == CHOOSE x \in S : TRUE IN NA(a.arr[p]) - NA(BgAt(a, p)) + ExcDelta(a, S \ {p})
NonAir(a) == PalNonAir(a.pal, 4096) + ExcDelta(a, DOMAIN a.arr)

\* ---------------------------------------------------------------- calls
Act(op, s, p, v, name, t, pal, e) == [op |-> op, s |-> s, p |-> p, v |-> v, name |-> name, t |-> t, pal |-> pal, e |-> e]
Step == steps' = steps + 1

SetBlock(s, p, v) ==
  /\ s \in SecIdx(secs) /\ p \in 0..4095
  /\ blocks' = [blocks EXCEPT ![s] = Put(@, p, v)]
  /\ count' = [count EXCEPT ![s] = @ - NA(At(blocks[s], p)) + NA(v)]      \* the incremental counter
  /\ act' = Act("setblock", s, p, v, "", 0, <<>>, <<>>) /\ Step
  /\ UNCHANGED <<secs, biomes, sky, blt, hm, ents, status>>

(* 4096 SetBlock calls writing the pattern (one step of the model) *)
FillBlocks(s, pal) ==
  /\ s \in SecIdx(secs) /\ Len(pal) >= 1
  /\ blocks' = [blocks EXCEPT ![s] = Filled(pal)]
  /\ count' = [count EXCEPT ![s] = PalNonAir(pal, 4096)]
  /\ act' = Act("fillblocks", s, 0, 0, "", 0, pal, <<>>) /\ Step
  /\ UNCHANGED <<secs, biomes, sky, blt, hm, ents, status>>

SetBiome(s, p, v) ==
  /\ s \in SecIdx(secs) /\ p \in 0..63
  /\ biomes' = [biomes EXCEPT ![s] = Put(@, p, v)]
  /\ act' = Act("setbiome", s, p, v, "", 0, <<>>, <<>>) /\ Step
  /\ UNCHANGED <<secs, blocks, count, sky, blt, hm, ents, status>>

FillBiomes(s, pal) ==
  /\ s \in SecIdx(secs) /\ Len(pal) >= 1
  /\ biomes' = [biomes EXCEPT ![s] = Filled(pal)]
  /\ act' = Act("fillbiomes", s, 0, 0, "", 0, pal, <<>>) /\ Step
  /\ UNCHANGED <<secs, blocks, count, sky, blt, hm, ents, status>>

SetHeightMap(n, t) ==
  /\ n \in HMSet /\ t >= 0
  /\ hm' = [hm EXCEPT ![n] = t]
  /\ act' = Act("heightmap", 0, 0, 0, n, t, <<>>, <<>>) /\ Step
  /\ UNCHANGED <<secs, blocks, biomes, count, sky, blt, ents, status>>

SetLight(s, kind, t) ==
  /\ s \in SecIdx(secs) /\ kind \in {"sky", "block"} /\ t >= 0
  /\ IF kind = "sky" THEN sky' = [sky EXCEPT ![s] = t] /\ UNCHANGED blt
                     ELSE blt' = [blt EXCEPT ![s] = t] /\ UNCHANGED sky
  /\ act' = Act("light", s, 0, 0, kind, t, <<>>, <<>>) /\ Step
  /\ UNCHANGED <<secs, blocks, biomes, count, hm, ents, status>>

AddBlockEntity(e) ==
  /\ Len(e) = 5 /\ e[1] \in 0..15 /\ e[2] \in 0..15
  /\ ents' = Append(ents, e)
  /\ act' = Act("blockentity", 0, 0, 0, "", 0, <<>>, e) /\ Step
  /\ UNCHANGED <<secs, blocks, biomes, count, sky, blt, hm, status>>

SetStatus(t) ==
  /\ t >= 0
  /\ status' = t
  /\ act' = Act("status", 0, 0, 0, "", t, <<>>, <<>>) /\ Step
  /\ UNCHANGED <<secs, blocks, biomes, count, sky, blt, hm, ents>>

(* the conversions are observations: the chunk itself is unchanged; what they must produce is below *)
Convert(op, y) ==
  /\ act' = Act(op, 0, 0, 0, "", y, <<>>, <<>>) /\ Step
  /\ UNCHANGED <<secs, blocks, biomes, count, sky, blt, hm, ents, status>>
NetRoundTrip == Convert("net", 0)
DataRoundTrip == Convert("data", 0)
SaveRoundTrip(y) == Convert("save", y)

\* ---------------------------------------------------------------- network form
(* the chunk data as the sequence of protocol fields *)
NetWire == << [f |-> "heightmaps", mb |-> hm["MOTION_BLOCKING"], ws |-> hm["WORLD_SURFACE"]],
              [f |-> "data", sec |-> [s \in SecIdx(secs) |-> [cnt |-> count[s], b |-> blocks[s], m |-> biomes[s]]]],
              [f |-> "block_entities", list |-> ents],
              [f |-> "light", sky |-> sky, blt |-> blt] >>
(* reading a wire into a chunk of n sections: what the listed components become, how many fields stay unread *)
NetRead(w, n) == [blocks |-> [s \in SecIdx(n) |-> w[2].sec[s].b],
                  biomes |-> [s \in SecIdx(n) |-> w[2].sec[s].m],
                  count |-> [s \in SecIdx(n) |-> w[2].sec[s].cnt],
                  hm |-> [x \in NetHM |-> IF x = "MOTION_BLOCKING" THEN w[1].mb ELSE w[1].ws],
                  ents |-> w[3].list,
                  left |-> Len(w) - 4]
DataRead(w, n) == [blocks |-> [s \in SecIdx(n) |-> w[2].sec[s].b],
                   biomes |-> [s \in SecIdx(n) |-> w[2].sec[s].m],
                   count |-> [s \in SecIdx(n) |-> w[2].sec[s].cnt]]

\* ---------------------------------------------------------------- save form
(* the registry translation block state id <-> (name, properties); in the model a tagged id, i.e. a
   bijection by construction - that the real registry is one is checked on the recorded registry events *)
NameProps(v) == <<"np", v>>
IdOf(np) == np[2]
BiomeName(v) == <<"biome", v>>
BiomeOf(bn) == bn[2]

SaveForm(y) == [ypos |-> y,
                sections |-> [j \in 1..secs |-> [y |-> (j - 1) + y,
                                                 b |-> MapArr(blocks[j - 1], NameProps),
                                                 m |-> MapArr(biomes[j - 1], BiomeName),
                                                 sky |-> sky[j - 1], blt |-> blt[j - 1]]],
                hm |-> hm, status |-> status]
SaveRead(f) == LET n == Len(f.sections)
                   at(s) == f.sections[CHOOSE j \in 1..n : f.sections[j].y - f.ypos = s]
               IN IF \E s \in SecIdx(n) : \A j \in 1..n : f.sections[j].y - f.ypos # s
                  THEN [ok |-> FALSE]
                  ELSE [ok |-> TRUE,
                        blocks |-> [s \in SecIdx(n) |-> MapArr(at(s).b, IdOf)],
                        biomes |-> [s \in SecIdx(n) |-> MapArr(at(s).m, BiomeOf)],
                        count |-> [s \in SecIdx(n) |-> NonAir(MapArr(at(s).b, IdOf))],     \* recounted on load
                        sky |-> [s \in SecIdx(n) |-> at(s).sky],
                        blt |-> [s \in SecIdx(n) |-> at(s).blt],
                        hm |-> f.hm, status |-> f.status]

\* ---------------------------------------------------------------- generator
TrackedSecs == {0, secs \div 2, secs - 1}
Init == /\ secs \in SecsSet
        /\ blocks = [s \in SecIdx(secs) |-> Filled(<<0>>)]
        /\ biomes = [s \in SecIdx(secs) |-> Filled(<<0>>)]
        /\ count = [s \in SecIdx(secs) |-> 0]
        /\ sky = [s \in SecIdx(secs) |-> 0] /\ blt = [s \in SecIdx(secs) |-> 0]
        /\ hm = [n \in HMSet |-> 0]
        /\ ents = <<>> /\ status = 0
        /\ act = Act("new", 0, 0, 0, "", 0, <<>>, <<>>) /\ steps = 0

GenEnts == {<<0, 0, 0, 0, 1>>, <<15, 7, 319, 3, 2>>}
(* background patterns for the configurations (a cfg file cannot spell sequences): ids >= 1000 are distinct non-air states *)
FillOf(k, first) == [j \in 1..k |-> IF j = 1 THEN first ELSE 1000 + j]
SmallBlockFills == {<<0>>, <<0, 3>>, FillOf(17, 1)}
StdBlockFills == {<<0>>, <<3>>, <<0, 3>>, FillOf(17, 1), FillOf(300, 2)}
CountBlockFills == {<<0>>, <<3, 1>>, FillOf(300, 2)}
StdYPos == {-4, 0, 3}
SmallBiomeFills == {<<0>>, <<1, 2>>}
StdBiomeFills == {<<0>>, <<1, 2>>, [j \in 1..9 |-> 10 + j]}
Next == /\ steps < MaxSteps
        /\ \/ "setblock" \in Ops /\ \E s \in TrackedSecs, p \in BlockPos, v \in BlockIds : SetBlock(s, p, v)
           \/ "fillblocks" \in Ops /\ \E s \in TrackedSecs, pal \in BlockFills : FillBlocks(s, pal)
           \/ "setbiome" \in Ops /\ \E s \in TrackedSecs, p \in BiomePos, v \in BiomeIds : SetBiome(s, p, v)
           \/ "fillbiomes" \in Ops /\ \E s \in TrackedSecs, pal \in BiomeFills : FillBiomes(s, pal)
           \/ "heightmap" \in Ops /\ \E n \in HMSet, t \in Tokens : SetHeightMap(n, t)
           \/ "light" \in Ops /\ \E s \in TrackedSecs, kind \in {"sky", "block"}, t \in Tokens \cup {0} : SetLight(s, kind, t)
           \/ "blockentity" \in Ops /\ Len(ents) < 2 /\ \E e \in GenEnts : AddBlockEntity(e)
           \/ "status" \in Ops /\ \E t \in Tokens : SetStatus(t)
           \/ "net" \in Ops /\ NetRoundTrip
           \/ "data" \in Ops /\ DataRoundTrip
           \/ "save" \in Ops /\ \E y \in YPosSet : SaveRoundTrip(y)
Spec == Init /\ [][Next]_vars

\* ---------------------------------------------------------------- properties
TypeOK == /\ secs \in 1..24
          /\ \A s \in SecIdx(secs) :
               /\ Len(blocks[s].pal) >= 1 /\ DOMAIN blocks[s].arr \subseteq 0..4095
               /\ \A p \in DOMAIN blocks[s].arr : blocks[s].arr[p] # BgAt(blocks[s], p)
               /\ Len(biomes[s].pal) >= 1 /\ DOMAIN biomes[s].arr \subseteq 0..63
               /\ \A p \in DOMAIN biomes[s].arr : biomes[s].arr[p] # BgAt(biomes[s], p)
               /\ sky[s] >= 0 /\ blt[s] >= 0
          /\ DOMAIN hm = HMSet

(* (d) after every history the counter is the number of non-air blocks the section holds *)
CountOK == \A s \in SecIdx(secs) : count[s] = NonAir(blocks[s]) /\ count[s] \in 0..4096

(* (a) a chunk read from its network form agrees on block states, biomes, counters, the two height maps
   the protocol carries and the block entities; nothing is left unread *)
NetHolds == LET r == NetRead(NetWire, secs) IN
            /\ r.blocks = blocks /\ r.biomes = biomes /\ r.count = count
            /\ \A n \in NetHM : r.hm[n] = hm[n]
            /\ r.ents = ents /\ r.left = 0
DataHolds == LET r == DataRead(NetWire, secs) IN r.blocks = blocks /\ r.biomes = biomes /\ r.count = count

(* (b) the save form carries every section under Y = index + yPos, every height map under its own name,
   and loading it gives the chunk back *)
SaveHolds(y) == LET f == SaveForm(y)  r == SaveRead(f) IN
                /\ \A j \in 1..secs : f.sections[j].y = (j - 1) + y
                /\ r.ok
                /\ r.blocks = blocks /\ r.biomes = biomes /\ r.count = count
                /\ r.sky = sky /\ r.blt = blt /\ r.status = status
                /\ \A n \in HMSet : r.hm[n] = hm[n]

(* the laws are evaluated in the states the conversions are taken in (every reachable chunk is one) *)
NetLaw == act.op = "net" => NetHolds
DataLaw == act.op = "data" => DataHolds
SaveLaw == act.op = "save" => SaveHolds(act.t)

(* the arithmetic the counter law rests on *)
ASSUME \A k \in 1..20 : \A j \in 0..(k - 1) : CountMod(4096, k, j) = Cardinality({p \in 0..4095 : p % k = j})
ASSUME CountMod(4096, 300, 0) = 14 /\ CountMod(4096, 300, 195) = 14 /\ CountMod(4096, 300, 196) = 13
View == <<secs, blocks, biomes, count, sky, blt, hm, ents, status, steps, act.op, IF act.op = "save" THEN act.t ELSE 0>>
=============================================================================
