SPECIFICATION TraceSpec
CONSTANTS
  RowLen = 9
  MaxChestType = 5
  NCraft = 5
  NArmor = 4
  NMain = 27
  NHot = 9
  Wins = {}
  Types = {}
  Items = {}
  Sids = {}
  Titles = {}
  FullContent = FALSE
  Variant = "intent"
INVARIANTS Check
CHECK_DEADLOCK FALSE
