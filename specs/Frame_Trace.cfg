SPECIFICATION TraceSpec
CONSTANTS
  Thrs = {0}
  Ids = {}
  Sizes = {}
  MaxFrames = 0
  BadPlen = {}
  BadDlen = {}
  EmitJson = FALSE
POSTCONDITION Accepted
CHECK_DEADLOCK FALSE
