------------------------------- MODULE BotWorld -------------------------------
(***************************************************************************)
(* X04 (specification extension): bot/world.World - the chunk columns kept *)
(* from LevelChunkWithLight / ForgetLevelChunk and dropped on Login and    *)
(* Respawn.                                                                *)
(*                                                                         *)
(* Abstract state: `cols` = World.Columns as a function from <<x, z>> to   *)
(* [tok, secs] (tok identifies the chunk body that was sent, secs is the   *)
(* number of sections of the stored chunk), `dim` = Player.DimensionType   *)
(* (the harness sets the exported field as basic.Player's Login / Respawn  *)
(* handlers would: the "setdim" step), `loaded` a history variable: the    *)
(* positions loaded since the last spawn and not forgotten.  Dimension     *)
(* type d is known for d in 0..NDims-1 and has Secs(d) sections.           *)
(*                                                                         *)
(* A packet names its position as the two ints ON THE WIRE, a then b.      *)
(* LevelChunkWithLight writes x then z.  ForgetLevelChunk writes the       *)
(* position as one long with z in the upper half (protocol 767), so a = z, *)
(* b = x.  Two layers: Step(FALSE, ..) decodes a forget as the protocol    *)
(* does, Step(TRUE, ..) as the code does (a = x, b = z): the one point     *)
(* where they differ (ForgetWireOrder; silent when a = b).                 *)
(* Following the code: the UnloadChunk callback fires for every forget,    *)
(* loaded or not, and before the column is removed (LoadChunk after it is   *)
(* stored: `seen`); Login / Respawn drop   *)
(* every column without UnloadChunk callbacks; a chunk for an unknown      *)
(* dimension type is an error.  `fail` = the user's callback answers with  *)
(* an error: the handler reports it, the column is stored / removed anyway.*)
(***************************************************************************)
EXTENDS Integers, Sequences, FiniteSets, TLC

CONSTANTS Coords, Toks, NDims, Dims,        \* generator universe (Dims: values offered to setdim)
          Variant                            \* "intent" | "code" | "broken"
MC_Coords3 == {-1, 0, 1}
Code == Variant = "code"
Broken == Variant = "broken"                 \* vacuity guard: Respawn keeps the columns

VARIABLES cols, dim, loaded, act
vars == <<cols, dim, loaded, act>>
View == <<cols, dim, loaded>>
S == [cols |-> cols, dim |-> dim]

Bind(f, x, v) == [y \in DOMAIN f \cup {x} |-> IF y = x THEN v ELSE f[y]]
Drop(f, x) == [y \in DOMAIN f \ {x} |-> f[y]]
Known(d) == d >= 0 /\ d < NDims
Secs(d) == 2 * (d + 1)
P(k, a, b, tok, d, fail) == [k |-> k, a |-> a, b |-> b, tok |-> tok, d |-> d, fail |-> fail]
Ev(k, x, z, seen) == <<k, x, z, seen>>      \* seen: 1 if Columns holds (x, z) while the callback runs
Res(s, evs, err) == [s |-> s, evs |-> evs, err |-> err]
ForgetPos(code, p) == IF code THEN <<p.a, p.b>> ELSE <<p.b, p.a>>

Step(code, s, p) ==
  IF p.k = "load" THEN
    IF ~Known(s.dim) THEN Res(s, <<>>, TRUE)
    ELSE Res([s EXCEPT !.cols = Bind(@, <<p.a, p.b>>, [tok |-> p.tok, secs |-> Secs(s.dim)])], <<Ev("load", p.a, p.b, 1)>>, p.fail)
  ELSE IF p.k = "forget" THEN
    LET pos == ForgetPos(code, p) IN Res([s EXCEPT !.cols = Drop(@, pos)], <<Ev("unload", pos[1], pos[2], IF pos \in DOMAIN s.cols THEN 1 ELSE 0)>>, p.fail)
  ELSE IF p.k \in {"login", "respawn"} THEN
    Res(IF Broken /\ p.k = "respawn" THEN s ELSE [s EXCEPT !.cols = <<>>], <<>>, FALSE)
  ELSE Res([s EXCEPT !.dim = p.d], <<>>, FALSE)                       \* setdim

Class(s, p) == IF p.k = "forget" /\ p.a # p.b THEN "ForgetWireOrder" ELSE "none"

Some(Q(_)) ==
  \/ \E a \in Coords, b \in Coords, t \in Toks, f \in BOOLEAN : Q(P("load", a, b, t, 0, f))
  \/ \E a \in Coords, b \in Coords, f \in BOOLEAN : Q(P("forget", a, b, 0, 0, f))
  \/ Q(P("login", 0, 0, 0, 0, FALSE)) \/ Q(P("respawn", 0, 0, 0, 0, FALSE))
  \/ \E d \in Dims : Q(P("setdim", 0, 0, 0, d, FALSE))
All(Q(_)) == ~Some(LAMBDA p : ~Q(p))

Do(p) == LET r == Step(Code, S, p) IN
         /\ cols' = r.s.cols /\ dim' = r.s.dim
         /\ loaded' = IF p.k = "load" THEN (IF Known(dim) THEN loaded \cup {<<p.a, p.b>>} ELSE loaded)
                      ELSE IF p.k = "forget" THEN loaded \ {<<p.b, p.a>>}       \* the position the server means
                      ELSE IF p.k \in {"login", "respawn"} THEN {} ELSE loaded
         /\ act' = [p |-> p, evs |-> r.evs, err |-> r.err]
Init == cols = <<>> /\ dim = 0 /\ loaded = {} /\ act = [p |-> P("new", 0, 0, 0, 0, FALSE), evs |-> <<>>, err |-> FALSE]
Next == Some(Do)
Spec == Init /\ [][Next]_vars

\* ---------------------------------------------------------------- properties (of the intent)
TypeOK == DOMAIN cols \subseteq Coords \X Coords /\ dim \in Dims \cup {0}
(* the keys of Columns are exactly the chunks the server has sent and not taken back *)
LoadedExactly == DOMAIN cols = loaded
SecsOK == \A pos \in DOMAIN cols : \E d \in 0..(NDims - 1) : cols[pos].secs = Secs(d)
Agree == All(LAMBDA p : Class(S, p) = "none" => Step(TRUE, S, p) = Step(FALSE, S, p))
LoadRule == [][act'.p.k = "load" =>
                LET p == act'.p IN
                IF Known(dim)
                THEN /\ cols' = Bind(cols, <<p.a, p.b>>, [tok |-> p.tok, secs |-> Secs(dim)])
                     /\ act'.evs = <<Ev("load", p.a, p.b, 1)>> /\ act'.err = p.fail /\ dim' = dim
                ELSE cols' = cols /\ act'.evs = <<>> /\ act'.err /\ dim' = dim]_vars
(* a forget removes exactly the named column (x = second int on the wire) and fires UnloadChunk exactly once *)
ForgetRule == [][act'.p.k = "forget" =>
                  LET p == act'.p IN
                  /\ cols' = Drop(cols, <<p.b, p.a>>) /\ dim' = dim
                  /\ act'.evs = <<Ev("unload", p.b, p.a, IF <<p.b, p.a>> \in DOMAIN cols THEN 1 ELSE 0)>> /\ act'.err = p.fail]_vars
SpawnRule == [][act'.p.k \in {"login", "respawn"} => (cols' = <<>> /\ dim' = dim /\ act'.evs = <<>> /\ ~act'.err)]_vars
=============================================================================
