SPECIFICATION GenSpec
CONSTANTS
  MaxIds = 26
  MaxKids = 3
  ListChecked = FALSE
  SetMode = "first"
  Wide = TRUE
CHECK_DEADLOCK FALSE
