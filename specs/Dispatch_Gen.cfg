SPECIFICATION DSpec
CONSTANTS
  Handlers = {1, 2, 3, 4, 5, 6}
  PrioOf <- PrioGen
  Ids = {1, 2, 3}
  MaxPk = 8
  DVariant = "none"
INVARIANTS EmitVec
CHECK_DEADLOCK FALSE
