---------------------------- MODULE BotPlayerList ----------------------------
(***************************************************************************)
(* X04 (specification extension): bot/playerlist.PlayerList - the tab list *)
(* kept from PlayerInfoUpdate / PlayerInfoRemove packets.                  *)
(*                                                                         *)
(* Abstract state: `players` = PlayerList.PlayerInfos as a function from   *)
(* the uuid (a token, 1..) to [id, name, props, chat, gm, listed, lat, dn]:*)
(* id = GameProfile.ID (0 = the zero uuid), name / dn / chat tokens with   *)
(* 0 = "" / no display name / no chat session, props = number of profile   *)
(* properties.  `added` is a history variable: the uuids named by an       *)
(* add-player action and not removed since.                                *)
(*                                                                         *)
(* PlayerInfoUpdate = a set of actions (bits 0 add player, 1 initialize    *)
(* chat, 2 game mode, 3 listed, 4 latency, 5 display name; here the sorted *)
(* tuple `acts`) and a list of entries; every entry carries the uuid and   *)
(* the fields of exactly the actions of the packet, entries are applied in *)
(* order.  PlayerInfoRemove = a list of uuids.  The handlers have no       *)
(* callbacks and a well-formed packet is never an error.                   *)
(*                                                                         *)
(* Two layers: Step(TRUE, ..) as coded, Step(FALSE, ..) the intent.  They  *)
(* differ in one point, UpdateUnknown: an entry for a uuid that is not     *)
(* listed, in a packet WITHOUT the add-player action, is skipped (the      *)
(* vanilla client ignores it); the code creates an entry with an empty     *)
(* profile (id = zero uuid, no name) under that key, which then never      *)
(* satisfies "the key is the profile id" and is not told from a player.    *)
(* Following the code where vanilla differs: an add-player action for a    *)
(* uuid that is already listed replaces the profile (vanilla keeps it).    *)
(***************************************************************************)
EXTENDS Integers, Sequences, FiniteSets, TLC

CONSTANTS Uuids, Vals, MaxEnts, ActSets,     \* generator universe
          Variant                            \* "intent" | "code" | "broken"
Code == Variant = "code"
Broken == Variant = "broken"                 \* vacuity guard: the latency action writes the game mode

VARIABLES players, added, act
vars == <<players, added, act>>
View == <<players, added>>

Bind(f, x, v) == [y \in DOMAIN f \cup {x} |-> IF y = x THEN v ELSE f[y]]
Range(s) == {s[i] : i \in 1..Len(s)}
Zero == [id |-> 0, name |-> 0, props |-> 0, chat |-> 0, gm |-> 0, listed |-> FALSE, lat |-> 0, dn |-> 0]
Entry(u, name, props, chat, gm, listed, lat, dn) ==
  [u |-> u, name |-> name, props |-> props, chat |-> chat, gm |-> gm, listed |-> listed, lat |-> lat, dn |-> dn]
P(k, acts, ents, ids) == [k |-> k, acts |-> acts, ents |-> ents, ids |-> ids]
Res(s, err) == [s |-> s, err |-> err]

ApplyOne(A, info, e) ==
  LET r0 == IF 0 \in A THEN [info EXCEPT !.id = e.u, !.name = e.name, !.props = e.props] ELSE info
      r1 == IF 1 \in A THEN [r0 EXCEPT !.chat = e.chat] ELSE r0
      r2 == IF 2 \in A THEN [r1 EXCEPT !.gm = e.gm] ELSE r1
      r3 == IF 3 \in A THEN [r2 EXCEPT !.listed = e.listed] ELSE r2
      r4 == IF 4 \in A THEN (IF Broken THEN [r3 EXCEPT !.gm = e.lat] ELSE [r3 EXCEPT !.lat = e.lat]) ELSE r3
  IN IF 5 \in A THEN [r4 EXCEPT !.dn = e.dn] ELSE r4

RECURSIVE ApplyEnts(_, _, _, _)
ApplyEnts(code, pl, A, ents) ==
  IF ents = <<>> THEN pl
  ELSE LET e == Head(ents)
           known == e.u \in DOMAIN pl
           next == IF ~known /\ 0 \notin A /\ ~code THEN pl           \* intent: not listed and not being added - skipped
                   ELSE Bind(pl, e.u, ApplyOne(A, IF known THEN pl[e.u] ELSE Zero, e))
       IN ApplyEnts(code, next, A, Tail(ents))

RECURSIVE RemoveAll(_, _)
RemoveAll(pl, ids) == IF ids = <<>> THEN pl ELSE RemoveAll([u \in DOMAIN pl \ {Head(ids)} |-> pl[u]], Tail(ids))

Step(code, s, p) ==
  IF p.k = "update" THEN Res(ApplyEnts(code, s, Range(p.acts), p.ents), FALSE)
  ELSE Res(RemoveAll(s, p.ids), FALSE)

Class(s, p) == IF p.k = "update" /\ Step(TRUE, s, p) # Step(FALSE, s, p) THEN "UpdateUnknown" ELSE "none"

\* ---------------------------------------------------------------- generator
(* an entry whose fields all follow from one value token *)
Ent(u, v) == Entry(u, v, v % 2, v - 1, v, v = 1, v, (v + 1) % 2)
SeqsUpTo(X, n) == UNION {[1..k -> X] : k \in 0..n}
SortedSeq(A) == CHOOSE s \in [1..Cardinality(A) -> A] : \A i, j \in 1..Cardinality(A) : i < j => s[i] < s[j]
AllActSets == {SortedSeq(A) : A \in SUBSET (0..5)}
SomeActSets == {<<>>, <<0>>, <<1>>, <<2>>, <<3>>, <<4>>, <<5>>, <<0, 1, 2, 3, 4, 5>>, <<0, 3>>, <<2, 4, 5>>}
Some(Q(_)) ==
  \/ \E a \in ActSets, es \in SeqsUpTo({Ent(u, v) : u \in Uuids, v \in Vals}, MaxEnts) : Q(P("update", a, es, <<>>))
  \/ \E ids \in SeqsUpTo(Uuids, MaxEnts) : Q(P("remove", <<>>, <<>>, ids))
All(Q(_)) == ~Some(LAMBDA p : ~Q(p))

Do(p) == LET r == Step(Code, players, p) IN
         /\ players' = r.s
         /\ added' = IF p.k = "update" THEN (IF 0 \in Range(p.acts) THEN added \cup {p.ents[i].u : i \in 1..Len(p.ents)} ELSE added)
                     ELSE added \ Range(p.ids)
         /\ act' = [p |-> p, err |-> r.err]
Init == players = <<>> /\ added = {} /\ act = [p |-> P("new", <<>>, <<>>, <<>>), err |-> FALSE]
Next == Some(Do)
Spec == Init /\ [][Next]_vars

\* ---------------------------------------------------------------- properties (of the intent)
TypeOK == DOMAIN players \subseteq Uuids /\ added \subseteq Uuids
(* the key of an entry is the id of its profile *)
KeyIsId == \A u \in DOMAIN players : players[u].id = u
(* an entry exists exactly for the players added and not removed *)
ExistsIffAdded == DOMAIN players = added
Agree == All(LAMBDA p : Class(players, p) = "none" => Step(TRUE, players, p) = Step(FALSE, players, p))

Named(p) == {p.ents[i].u : i \in 1..Len(p.ents)}
LastOf(p, u) == p.ents[CHOOSE i \in 1..Len(p.ents) : p.ents[i].u = u /\ \A j \in (i + 1)..Len(p.ents) : p.ents[j].u # u]
(* an update never removes, touches only the players it names and only the fields of its actions; the last *)
(* entry of a player decides; it lists new players only with the add-player action                        *)
UpdateRule == [][act'.p.k = "update" =>
                  LET p == act'.p  A == Range(p.acts) IN
                  /\ ~act'.err
                  /\ DOMAIN players \subseteq DOMAIN players'
                  /\ DOMAIN players' \ DOMAIN players = (IF 0 \in A THEN Named(p) \ DOMAIN players ELSE {})
                  /\ \A u \in DOMAIN players \ Named(p) : players'[u] = players[u]
                  /\ \A u \in Named(p) \cap DOMAIN players' :
                       LET old == IF u \in DOMAIN players THEN players[u] ELSE Zero  new == players'[u]  e == LastOf(p, u) IN
                       /\ (IF 0 \in A THEN new.id = u /\ new.name = e.name /\ new.props = e.props
                                      ELSE new.id = old.id /\ new.name = old.name /\ new.props = old.props)
                       /\ new.chat = (IF 1 \in A THEN e.chat ELSE old.chat)
                       /\ new.gm = (IF 2 \in A THEN e.gm ELSE old.gm)
                       /\ new.listed = (IF 3 \in A THEN e.listed ELSE old.listed)
                       /\ new.lat = (IF 4 \in A THEN e.lat ELSE old.lat)
                       /\ new.dn = (IF 5 \in A THEN e.dn ELSE old.dn)]_vars
(* a remove deletes exactly the listed ones of the uuids it names; unknown uuids are no error *)
RemoveRule == [][act'.p.k = "remove" =>
                  /\ ~act'.err
                  /\ DOMAIN players' = DOMAIN players \ Range(act'.p.ids)
                  /\ \A u \in DOMAIN players' : players'[u] = players[u]]_vars
=============================================================================
