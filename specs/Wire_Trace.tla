----------------------------- MODULE Wire_Trace -----------------------------
(* Per-call trace validation for C06 / C08: every recorded WriteTo / ReadFrom  *)
(* of a real packet field is judged by Wire.tla's Enc / Dec.  Lines are        *)
(* independent: each is its own initial state (parallel over TLC workers).     *)
EXTENDS Wire
Trace == ndJsonDeserialize("trace.ndjson")
VARIABLE l
TraceInit == l \in 1..Len(Trace) /\ ty = [t |-> "bool"] /\ val = <<>> /\ bytes = <<>> /\ dest = "none" /\ phase = "trace"
TraceSpec == TraceInit /\ [][UNCHANGED <<vars, l>>]_<<vars, l>>
E == Trace[l]
\* WriteTo produced exactly the specified bytes and reported their number
EncOK == E.k = "enc" => /\ E.panicked = FALSE /\ E.err = FALSE
                        /\ E.bytes = Enc(E.ty, E.val) /\ E.wn = Len(E.bytes)
\* ReadFrom: value, byte count, error exactly as the specified decoder - whatever the destination held before
DecOK == E.k = "dec" =>
  LET d == Dec(E.ty, E.input, 1) IN
  /\ E.panicked = FALSE
  /\ d.ok => (E.ok /\ (E.cmpval => E.val = d.v) /\ E.rn = d.p - 1 /\ E.left = Len(E.input) - (d.p - 1))
  /\ ~d.ok => ~E.ok
=============================================================================
