SPECIFICATION Spec
CONSTANTS
  Chunks = {0,1}
  MaxNeed = 2
  MaxSector = 6
  MaxWrites = 2
  FirstFit = FALSE
  AnyOrder = TRUE
  WithCrash = TRUE
  Lens = {1}
VIEW View
INVARIANTS TypeOK NoOverlapMem NoOverlapDisk UsedExact HeaderSync ReadBack CrashSafe
PROPERTIES ReopenIdempotent
CHECK_DEADLOCK FALSE
