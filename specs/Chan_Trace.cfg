SPECIFICATION Spec
INVARIANT PrefixInv
POSTCONDITION Accepted
CHECK_DEADLOCK FALSE
