SPECIFICATION Spec
CONSTANTS
  Bs = {0, 1, 2, 3, 5, 7, 16, 31, 32}
  NSel = "small"
  ISel = "all"
  VSel = {"zero", "max", "alt"}
  MaxOps = 0
  EmitJson = TRUE
INVARIANTS TypeOK ZeroWidth Layout Emit
PROPERTIES Frame RejectedIsNoop Results PanicRule
CHECK_DEADLOCK FALSE
