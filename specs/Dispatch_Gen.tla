---------------------------- MODULE Dispatch_Gen -----------------------------
(* Vector generator for leg A of C19 (dispatch): TLC -simulate walks of       *)
(* Dispatch.tla; every state in which packets have been delivered is printed  *)
(* as a JSON vector (registration log, failing handler, packet ids).          *)
EXTENDS Dispatch, Json
PrioGen == <<-1, 0, 0, 5, 5, 2>>
EmitVec == (phase = "run" /\ (Len(stream) = MaxPk \/ stopped # 0)) =>
             PrintT(ToJson([regs |-> regs, fail |-> fail, stream |-> stream]))
=============================================================================
