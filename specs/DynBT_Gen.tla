----------------------------- MODULE DynBT_Gen ------------------------------
(* Behaviour generator for leg A of X10/DynBT: the DynBT specification with a larger universe (every leaf   *)
(* kind with boundary patterns, three names, documents with repeated names and typed empty lists), simulated *)
(* by TLC.  The read-only operations are steps of their own whose answer TLC computes into `act`: Get with a  *)
(* path, all accessors of a value, the bytes the encoder must write.  ListChecked = TRUE follows the intent   *)
(* (homogeneous lists only), FALSE follows the code as written (mixed lists, decode into list elements: the   *)
(* heap and the bytes are still predicted exactly, the trace specification reports what is written).         *)
(* This module only chooses which behaviours are replayed; it proves nothing.                                *)
EXTENDS DynBT

GLeaves == {[t |-> 1, v |-> <<x>>] : x \in {0, 1, 127, 128, 255}}
     \cup {[t |-> 2, v |-> x] : x \in {<<128, 0>>, <<127, 255>>, <<0, 7>>}}
     \cup {[t |-> 3, v |-> x] : x \in {<<128, 0, 0, 0>>, <<0, 1, 2, 3>>, <<255, 255, 255, 255>>}}
     \cup {[t |-> 4, v |-> x] : x \in {<<128, 0, 0, 0, 0, 0, 0, 0>>, <<127, 255, 255, 255, 255, 255, 255, 255>>, <<0, 0, 0, 0, 0, 0, 1, 0>>}}
     \cup {[t |-> 5, v |-> x] : x \in {<<0, 0, 0, 0>>, <<128, 0, 0, 0>>, <<63, 128, 0, 0>>, <<127, 192, 0, 1>>, <<255, 128, 0, 0>>}}
     \cup {[t |-> 6, v |-> x] : x \in {<<0, 0, 0, 0, 0, 0, 0, 0>>, <<191, 240, 0, 0, 0, 0, 0, 0>>, <<127, 248, 0, 0, 0, 0, 0, 1>>, <<0, 0, 0, 0, 0, 0, 0, 1>>}}
     \cup {[t |-> 7, v |-> x] : x \in {<<>>, <<0, 255, 128>>, [i \in 1..33 |-> (7 * i) % 256]}}
     \cup {[t |-> 8, v |-> x] : x \in {<<>>, <<97>>, <<0, 255, 128, 34, 92>>, [i \in 1..40 |-> 200 + (i % 50)]}}
     \cup {[t |-> 11, v |-> x] : x \in {<<>>, <<<<255, 255, 255, 255>>, <<0, 0, 1, 0>>>>}}
     \cup {[t |-> 12, v |-> x] : x \in {<<>>, <<<<128, 0, 0, 0, 0, 0, 0, 1>>>>}}
GKeys == {<<97>>, <<>>, <<98, 32, 255>>}
\* documents no constructor history writes: repeated names, typed empty lists, a list of lists, a list of compounds
GDocs == {DupDoc,
          [t |-> 10, v |-> <<[k |-> <<97>>, n |-> [t |-> 9, et |-> 10, v |-> <<>>]], [k |-> <<>>, n |-> [t |-> 9, et |-> 1, v |-> <<>>]],
                             [k |-> <<97>>, n |-> [t |-> 10, v |-> <<[k |-> <<97>>, n |-> [t |-> 2, v |-> <<0, 7>>]]>>]]>>],
          [t |-> 9, et |-> 9, v |-> <<[t |-> 9, et |-> 0, v |-> <<>>], [t |-> 9, et |-> 8, v |-> <<[t |-> 8, v |-> <<97>>], [t |-> 8, v |-> <<>>]>>]>>],
          [t |-> 9, et |-> 10, v |-> <<[t |-> 10, v |-> <<>>], [t |-> 10, v |-> <<[k |-> <<98, 32, 255>>, n |-> [t |-> 12, v |-> <<>>]]>>]>>]}

Comps == {i \in Ids(heap) : heap[i].t = 10}
\* paths that lead somewhere, and a few that do not
Paths == {<<>>, <<<<97>>>>, <<<<>>>>, <<<<122>>>>, <<<<97>>, <<97>>>>, <<<<97>>, <<98, 32, 255>>>>, <<<<98, 32, 255>>, <<97>>, <<>>>>}
ListShapes == {<<>>} \cup {<<a>> : a \in Ids(heap)} \cup {<<a, b>> : a, b \in Ids(heap)} \cup {<<a, b, a>> : a, b \in Ids(heap)}
N0 == Len(heap)
Targets == {N0 + 1} \cup {j \in Ids(heap) : j % 4 = N0 % 4}        \* a fresh value, or some of the existing ones (thinning)

NLeaves == Cardinality({i \in Ids(heap) : heap[i].t \notin {9, 10}})
GenNext ==
  \/ \E x \in GLeaves : (NLeaves < 4 \/ (N0 % 2 = 1 /\ NLeaves < 11)) /\ NewLeaf(x)
  \/ \E s \in ListShapes : NewList(s)
  \/ \E s \in ListShapes : Len(s) >= 2 /\ NewList(s)
  \/ N0 % 2 = 0 /\ NewCompound
  \/ NewCompound /\ Cardinality(Comps) < 2
  \/ \E c \in Comps, x \in Ids(heap), k \in GKeys : Set(c, k, x)
  \/ \E c \in Comps, x \in Ids(heap), k \in GKeys : FirstPos(heap[c].v, k) # 0 /\ Set(c, k, x)          \* replacing: weighted up
  \/ \E c \in Ids(heap) \ Comps, x \in Ids(heap) : Set(c, <<97>>, x)                                    \* the documented panic
  \/ \E i \in Targets, s \in {j \in Ids(heap) : j % 3 = N0 % 3}, f \in Fmts :
        heap[s].t # 0 /\ (ListChecked => WF(Tree(heap, s))) /\ DecodeDoc(i, f, N!EncDoc(f, Name, Tree(heap, s)))
  \/ \E i \in Targets, f \in Fmts, t \in GDocs : DecodeDoc(i, f, N!EncDoc(f, Name, t))
  \/ \E i \in Ids(heap), p \in Paths :
        /\ act' = [op |-> "get", id |-> i, keys |-> p, ret |-> GetId(heap, i, p)] /\ UNCHANGED heap
  \/ \E i \in Ids(heap) : act' = [op |-> "acc", id |-> i, a |-> Acc(heap[i])] /\ UNCHANGED heap
  \/ \E i \in Ids(heap), f \in Fmts :
        /\ heap[i].t # 0
        /\ act' = [op |-> "enc", id |-> i, fmt |-> f, name |-> Name, wf |-> WF(Tree(heap, i)), bytes |-> N!EncDoc(f, Name, Tree(heap, i))]
        /\ UNCHANGED heap
GenSpec == Init /\ [][GenNext]_vars
=============================================================================
