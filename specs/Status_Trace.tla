---------------------------- MODULE Status_Trace ----------------------------
(* C19, status clause over a HISTORY: "a status ping returns the JSON produced  *)
(* from its status handler" - every ping, not only the first on a server.  The *)
(* harness changes what the status handler answers (players leave and join,     *)
(* with and without a change of the online count) between pings of one server;  *)
(* "set" logs what the handler would answer now (name, protocol, max, online,   *)
(* description, sorted sample names - computed from the handler's own exported  *)
(* methods), "ping" what a client's PingAndList received.  Scenarios are        *)
(* concatenated with "reset".                                                   *)
EXTENDS Integers, Sequences, TLC, Json
Trace == ndJsonDeserialize("trace.ndjson")
VARIABLES l, cur
vars == <<l, cur>>
Ev == Trace[l]
IsEvent(k) == l <= Len(Trace) /\ Trace[l].k = k /\ l' = l + 1
TReset == IsEvent("reset") /\ cur' = <<>>
TSet == IsEvent("set") /\ cur' = Ev.st
\* the response is the handler's answer at the time of the request
TPing == IsEvent("ping") /\ Ev.err = FALSE /\ Ev.st = cur /\ UNCHANGED cur
TraceInit == l = 1 /\ cur = <<>>
TraceNext == TReset \/ TSet \/ TPing
TraceSpec == TraceInit /\ [][TraceNext]_vars
Accepted == LET d == TLCGet("stats").diameter IN PrintT(<<"HWM", d, Len(Trace) + 1>>) /\ d = Len(Trace) + 1
=============================================================================
