SPECIFICATION TraceSpec
CONSTANTS
  Users = {1, 2, 3, 4, 5, 6}
  Slots = {}
  SIds = {}
  Inject = {70, 71, 72, 73}
  Garble = {80, 81, 82, 83}
  MaxTok = 0
  MaxCt = 0
  FaultSet = {}
  Variant = "intent"
INVARIANTS Check
CHECK_DEADLOCK FALSE
