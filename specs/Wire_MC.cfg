SPECIFICATION Spec
CONSTANTS
  Menu <- MC_Menu
  EmitJson = TRUE
INVARIANTS RoundTrip PrefixFails Emit
CHECK_DEADLOCK FALSE
