SPECIFICATION DSpec
CONSTANTS
  Handlers = {1, 2, 3, 4}
  PrioOf <- PrioQuick
  Ids = {1, 2}
  MaxPk = 4
  DVariant = "none"
INVARIANTS DSafety
CHECK_DEADLOCK FALSE
