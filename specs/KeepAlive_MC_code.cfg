SPECIFICATION Spec
CONSTANTS
  Players = {1, 2, 3}
  P = 2
  W = 4
  MaxId = 2
  Variant = "code"
  AsyncChan = TRUE
  Urgent = TRUE
INVARIANTS TypeOK InOneList TimeOrder TimersAlive PingTimerNotLate KickTimerNotLate PingOnTime KickOnTime PingTargetsWaiting KickTargetsKicked LeaveRemoves

CHECK_DEADLOCK TRUE
