-------------------------- MODULE SignChain_Trace ---------------------------
(* Trace validation for X10/SignChain.  Every line is ONE call on a real sign.Session together with the projection of   *)
(* the object AFTER the call (own = SessionID, expired = PublicKey.ExpiresAt in the past, valid, has = lastMsg # nil,     *)
(* last = the message lastMsg points to, identified by the harness' table of the messages it built).  The state BEFORE   *)
(* a call is the projection on the previous line: every line is an independent initial state l; the numbers of the      *)
(* failed checks are printed as <<"X2FAIL", l, {checks}>>.  Desc = "gt", SameLastOK = TRUE (the reading of the notes).   *)
(*                                                                                                                      *)
(* kinds: reset (new Session + InitValidate) | init | expire | msg (VerifyAndUpdate) | inject (export shim: lastMsg := m,*)
(*        valid := TRUE) | hash (verifyHash alone) | chain (verifyChain alone)                                           *)
(* checks, INTENT:  1 NoPanic  2 Fresh  3 FirstAccepted  4 NextAccepted  5 GapAccepted (reading)  6 ReplayOlderRejected  *)
(*          7 ReplayLastAccepted (reading)  8 LinkRejected  9 SessionFixed (reading)  10 BadSignatureRejected             *)
(*          11 ExpiredRejected  12 NoSignature  13 BrokenSticky  14 UpdateRule  16 HashGenuine  17 HashBinds              *)
(*          18 ChainFirst  19 ChainDescends  20 ChainReading (reading)  21 Frame  23 HashIndexBound                        *)
(*         CODE layer (the model of session.go as written; silent on the unchanged tree): 15 AsCoded  22 AsCodedPredicates *)
(* inj: the state the call starts from stems from an injection (lastMsg set through the shim): 100 is added to the number *)
EXTENDS SignChain, Json

Trace == ndJsonDeserialize("trace.ndjson")
VARIABLE l
tvars == <<vars, l>>
NChecks == 23

StOf(e) == [own |-> e.own, expired |-> e.expired, valid |-> e.valid, has |-> e.has, last |-> e.last]
Tampered == Rels \ {"ok", "none"}
StateFree == {1, 2, 12, 16, 17, 21, 23}      \* checks that do not depend on the predecessor

Failed ==
  LET ev     == Trace[l]
      hasPre == l > 1 /\ ev.k # "reset"
      pre    == IF hasPre THEN StOf(Trace[l - 1]) ELSE StOf(ev)
      post   == StOf(ev)
      m      == ev.m
      isMsg  == ev.k = "msg" /\ hasPre
      live   == isMsg /\ pre.valid /\ ~pre.expired                       \* chain intact, key in date
      genuine == live /\ m.sv = "ok" /\ m.ses = pre.own                   \* ... and a genuine message of this session
      linked == pre.has /\ m.snd = pre.last.snd /\ m.ses = pre.last.ses
      isHash == ev.k = "hash" /\ hasPre
      isChain == ev.k = "chain" /\ hasPre
      Ok(c) ==
        CASE c = 1 -> (ev.panicked = FALSE) \/ (ev.k \in {"msg", "hash"} /\ m.sv = "none")
          [] c = 2 -> ev.k \in {"reset", "init"} => (post.valid /\ ~post.has /\ post.last = NoMsg)
          [] c = 3 -> (genuine /\ ~pre.has) => ev.ret
          [] c = 4 -> (genuine /\ linked /\ m.idx = pre.last.idx + 1) => ev.ret
          [] c = 5 -> (genuine /\ linked /\ m.idx > pre.last.idx + 1) => ev.ret
          [] c = 6 -> (genuine /\ linked /\ m.idx <= pre.last.idx /\ m # pre.last) => ~ev.ret
          [] c = 7 -> (genuine /\ pre.has /\ m = pre.last) => ev.ret
          [] c = 8 -> (live /\ pre.has /\ ~linked) => ~ev.ret
          [] c = 9 -> (live /\ m.ses # pre.own) => ~ev.ret
          [] c = 10 -> (isMsg /\ m.sv \in Tampered) => ~ev.ret
          [] c = 11 -> (isMsg /\ pre.expired) => ~ev.ret
          [] c = 12 -> (isMsg /\ m.sv = "none") => (~ev.ret /\ ~ev.panicked)
          [] c = 13 -> (isMsg /\ ~pre.valid) => ~ev.ret
          [] c = 14 -> (isMsg /\ ~ev.panicked) =>
                         IF ev.ret THEN post.valid /\ post.has /\ post.last = m
                                   ELSE ~post.valid /\ post.has = pre.has /\ post.last = pre.last
          [] c = 15 -> isMsg => IF CodePanics(pre, m) THEN ev.panicked /\ post = pre
                                ELSE /\ ~ev.panicked /\ ev.ret = CodeAccepts(pre, m)
                                     /\ post = After(pre, m, CodeAccepts(pre, m))
          [] c = 16 -> (isHash /\ m.sv = "ok") => ev.ret
          [] c = 17 -> (isHash /\ m.sv \in Tampered \ {"coded"}) => ~ev.ret
          [] c = 18 -> (isChain /\ ~pre.has) => ev.ret
          [] c = 19 -> (isChain /\ pre.has /\ m # pre.last /\ ~(linked /\ m.idx > pre.last.idx + 1)) =>
                         ev.ret = (linked /\ m.idx = pre.last.idx + 1)
          [] c = 20 -> (isChain /\ pre.has /\ (m = pre.last \/ (linked /\ m.idx > pre.last.idx + 1))) => ev.ret
          [] c = 21 -> /\ (hasPre => post.own = pre.own)
                       /\ (ev.k \in {"hash", "chain"} /\ hasPre => post = pre)
                       /\ (ev.k = "expire" /\ hasPre => (post.expired /\ post = [pre EXCEPT !.expired = TRUE]))
                       /\ (ev.k = "inject" /\ hasPre => post = [pre EXCEPT !.valid = TRUE, !.has = TRUE, !.last = m])
                       /\ (isMsg => post.expired = pre.expired)
          [] c = 22 -> /\ (isHash => IF m.sv = "none" THEN ev.panicked ELSE (~ev.panicked /\ ev.ret = CodeSigValid(m)))
                       /\ (isChain => (~ev.panicked /\ ev.ret = CodeChainOK(pre.has, pre.last, m)))
          [] c = 23 -> (isHash /\ m.sv = "coded") => ~ev.ret
          [] OTHER -> TRUE
  IN {(IF ev.inj /\ c \notin StateFree THEN 100 ELSE 0) + c : c \in {c \in 1..NChecks : ~Ok(c)}}

Check == LET f == Failed IN f = {} \/ PrintT(<<"X2FAIL", l, f>>)

TraceInit == /\ l \in 1..Len(Trace)
             /\ own = 0 /\ expired = FALSE /\ valid = TRUE /\ has = FALSE /\ last = NoMsg /\ act = [op |-> "new", ret |-> FALSE]
TraceSpec == TraceInit /\ [][UNCHANGED tvars]_tvars
=============================================================================
