--------------------------- MODULE SignChain_Gen ----------------------------
(* Behaviour generator for leg A of X10/SignChain: the specification simulated by TLC with the deliveries steered  *)
(* into the classes that matter (first message, successor, gap, the last message again, an older index, another   *)
(* sender / session in the link, every relation of the signature to the message, expiry, re-initialisation) so     *)
(* that chains grow before they break.  Layer = "intent" follows the protocol reading; Layer = "code" follows      *)
(* session.go as written, with Inject = TRUE also from states only the export shim can set up (lastMsg given).     *)
(* `n` counts steps (thinning only).  This module only chooses which behaviours are replayed; it proves nothing.   *)
EXTENDS SignChain
VARIABLE n
gvars == <<vars, n>>

Base == IF has THEN last ELSE [snd |-> 1 + (n % 2), ses |-> own, idx |-> n % 3, body |-> 1, sv |-> "ok"]
Body2 == 1 + ((n + 1) % Cardinality(Bodies))
Good(i) == [snd |-> Base.snd, ses |-> own, idx |-> i, body |-> Body2, sv |-> IF Layer = "code" THEN "coded" ELSE "ok"]
NextIdx == IF has THEN last.idx + 1 ELSE Base.idx
Step(a) == a /\ n' = n + 1

GenNext ==
  \/ Step(NextIdx <= MaxIdx /\ Deliver(Good(NextIdx)))                                             \* first / successor
  \/ Step(NextIdx <= MaxIdx /\ Deliver(Good(NextIdx)))
  \/ Step(\E g \in {2, 3, 7} : has /\ last.idx + g <= MaxIdx /\ Deliver(Good(last.idx + g)))       \* gap
  \/ Step(has /\ Deliver(last))                                                                    \* the last message again
  \/ Step(\E i \in 0..MaxIdx : has /\ i <= last.idx /\ n % 3 = 0 /\ Deliver(Good(i)))              \* older or equal index, new body
  \/ Step(\E s \in Senders, z \in Sessions : n % 4 = 1 /\ (s # Base.snd \/ z # own)               \* link of another sender / session
              /\ NextIdx <= MaxIdx /\ Deliver([Good(NextIdx) EXCEPT !.snd = s, !.ses = z]))
  \/ Step(\E r \in Rels \ {"none"} : n % 2 = 1 /\ NextIdx <= MaxIdx /\ Deliver([Good(NextIdx) EXCEPT !.sv = r]))
  \/ Step(n % 5 = 2 /\ NextIdx <= MaxIdx /\ (Deliver([Good(NextIdx) EXCEPT !.sv = "none"]) \/ DeliverPanics([Good(NextIdx) EXCEPT !.sv = "none"])))
  \/ Step(~valid /\ InitValidate)
  \/ Step(n % 7 = 3 /\ InitValidate)
  \/ Step(n % 11 = 6 /\ Expire)
  \/ Step(\E i \in {1, 4, MaxIdx - 1}, r \in {"coded", "ok"} : n % 3 = 1 /\ InjectLast([Good(i) EXCEPT !.sv = r]))
GenInit == Init /\ n = 0
GenSpec == GenInit /\ [][GenNext]_gvars
=============================================================================
