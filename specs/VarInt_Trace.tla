---------------------------- MODULE VarInt_Trace ----------------------------
(* Trace validation for C05: every recorded call of the real VarInt/VarLong   *)
(* codec is judged by the VarInt specification.  Lines are independent, so    *)
(* each line is its own initial state (parallel over TLC workers); decoder    *)
(* lines drive the specification's Feed action with the logged input bytes.   *)
EXTENDS VarInt

Trace == ndJsonDeserialize("trace.ndjson")

VARIABLE l
tvars == <<vars, l>>

TraceInit == /\ l \in 1..Len(Trace)
             /\ mode = "dec" /\ val = Zero /\ fed = <<>> /\ status = "more"

TraceNext == /\ Trace[l].k = "dec"
             /\ Len(fed) < Len(Trace[l].input)
             /\ Feed(Trace[l].input[Len(fed) + 1])
             /\ UNCHANGED l
TraceSpec == TraceInit /\ [][TraceNext]_tvars

Settled == status # "more" \/ Len(fed) = Len(Trace[l].input)

EncOK == Trace[l].k = "enc" =>
  LET e == Trace[l] IN
  /\ e.wbytes = Enc(e.val)              \* WriteTo output
  /\ e.wtb = Enc(e.val)                 \* WriteToBytes output
  /\ e.mirror = Enc(e.val)              \* the Go mirror used for the exhaustive sweep
  /\ e.wn = Len(e.wbytes) /\ e.wtbn = Len(e.wtb)
  /\ e.len = LenRule(e.val)
  /\ e.err = FALSE

DecOK == (Trace[l].k = "dec" /\ Settled) =>
  LET e == Trace[l] IN
  /\ e.ok <=> (status = "done")
  /\ status = "done" => e.rn = Len(fed) /\ e.rv = val /\ e.left = Len(e.input) - Len(fed)
  /\ e.rn <= MaxLen /\ e.consumed <= MaxLen          \* bounded consumption, also on the error paths
  /\ e.rn = e.consumed                               \* the count reported (with or without an error) is what was taken
  /\ e.panicked = FALSE
=============================================================================
