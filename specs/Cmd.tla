-------------------------------- MODULE Cmd --------------------------------
(***************************************************************************)
(* X03 (specification extension): the server command graph                 *)
(* (server/command: builders.go, command.go, parsers.go, serialize.go).    *)
(*                                                                         *)
(* Abstract state: `nodes` is the node table of a command.Graph (the index *)
(* of a node is its position, 0-based, node 0 is the root); a node is      *)
(* [kind, name, parser, children, run]: kind 0 root / 1 literal /          *)
(* 2 argument, name a byte string, parser -1 (none) or the StringParser    *)
(* mode 0 single word / 1 quotable phrase / 2 greedy phrase, children the  *)
(* list of node indices in insertion order, run 0 (no handler), -1 (the    *)
(* package's `unhandled` handler), h > 0 (handler h of the caller).        *)
(* `stage` is the type state of the builder value the caller holds for a   *)
(* node: "fresh" LiteralBuilder/ArgumentBuilder, "lits" ...WithLiteral,    *)
(* "arg" ...WithArgument, "done" *Literal/*Argument, "root" the Graph.     *)
(*                                                                         *)
(* Three parts:                                                            *)
(*  (1) the builder API as actions (one per exported method),              *)
(*  (2) the DECLARE_COMMANDS body as a function Enc of the node table and  *)
(*      an independent byte-walking decoder Dec,                           *)
(*  (3) Graph.Execute as a function Exec of (node table, line).            *)
(* Strings are sequences of bytes.  Exec and Enc have an INTENT reading    *)
(* and an AS-WRITTEN reading (`v` / `form` / `fv` parameters); the two     *)
(* are compared by TLC (AsWrittenRefines) and by the trace specification.  *)
(***************************************************************************)
EXTENDS Integers, Sequences, FiniteSets, TLC

CONSTANTS LitNames,   \* names of literal nodes offered to the builder (byte strings)
          ArgNames,   \* names of argument nodes offered (they matter on the wire only)
          Parsers,    \* StringParser modes offered (subset of 0..2)
          Handlers,   \* handler tokens (positive integers)
          SymBreak,   \* TRUE: nodes are created in ascending order of (kind, parser, name) - every graph still occurs up to renumbering
          Unhandles,  \* FALSE: the builder action Unhandle is not offered (fewer states)
          OwnHandler, \* TRUE: node p is only ever given handler p (fewer states, still one handler per node)
          MaxNodes,   \* builder: nodes besides the root
          MaxKids,    \* builder: children per node
          Lines,      \* command lines over which the Exec properties are quantified
          Variant,    \* which Exec the properties talk about: "intent" | "aswritten" | "lastmatch" (broken on purpose)
          WireBreak   \* "none" | "dropexec" (Enc forgets the executable bit: broken on purpose)

VARIABLES nodes, stage, act, nops
vars == <<nodes, stage, act, nops>>

\* ---------------------------------------------------------------- byte strings
WS == {9, 10, 11, 12, 13, 32}        \* what StringParser splits on; also trimmed
USp2 == {133, 160}                   \* U+0085, U+00A0 (bytes 194 133 / 194 160): trimmed by strings.TrimSpace, never split on
Quote == 34
BSlash == 92

RECURSIVE TrimL(_)
TrimL(s) == IF s = <<>> THEN s
            ELSE IF s[1] \in WS THEN TrimL(Tail(s))
            ELSE IF Len(s) >= 2 /\ s[1] = 194 /\ s[2] \in USp2 THEN TrimL(SubSeq(s, 3, Len(s)))
            ELSE s
RECURSIVE TrimR(_)
TrimR(s) == LET n == Len(s) IN
            IF n = 0 THEN s
            ELSE IF s[n] \in WS THEN TrimR(SubSeq(s, 1, n - 1))
            ELSE IF n >= 2 /\ s[n - 1] = 194 /\ s[n] \in USp2 THEN TrimR(SubSeq(s, 1, n - 2))
            ELSE s
Trim(s) == TrimR(TrimL(s))
IsPrefix(p, s) == Len(p) <= Len(s) /\ SubSeq(s, 1, Len(p)) = p
FirstWS(s) == LET I == {i \in 1..Len(s) : s[i] \in WS} IN IF I = {} THEN 0 ELSE CHOOSE i \in I : \A j \in I : i <= j
MinOf(S) == CHOOSE x \in S : \A y \in S : x <= y
MaxOf(S) == CHOOSE x \in S : \A y \in S : y <= x
RECURSIVE Concat(_)
Concat(ss) == IF ss = <<>> THEN <<>> ELSE ss[1] \o Concat(Tail(ss))

\* ---------------------------------------------------------------- nodes
Node(k, nm, p, ch, r) == [kind |-> k, name |-> nm, parser |-> p, children |-> ch, run |-> r]
Root == Node(0, <<>>, -1, <<>>, 0)
N == Len(nodes)
At(g, i) == g[i + 1]                                   \* node with index i (0-based, as in the implementation)
Open == {"fresh", "lits", "arg"}

\* ================================================================ (3) StringParser and Graph.Execute
(* the scan of a quotable phrase behind the opening quote: \\ and \" are the escapes, a backslash in front of any  *)
(* other character swallows both (brigadier reports an invalid escape there: named deviation, specified as written);  *)
(* the loop of parsers.go walks runes, so a swallowed non-ASCII character goes with all its continuation bytes          *)
RECURSIVE SkipCont(_, _)
SkipCont(s, i) == IF i <= Len(s) /\ s[i] \in 128..191 THEN SkipCont(s, i + 1) ELSE i
RECURSIVE QScan(_, _, _, _)
QScan(s, i, esc, acc) ==
  IF i > Len(s) THEN [ok |-> FALSE, val |-> <<>>, close |-> 0]
  ELSE LET c == s[i] IN
       IF esc THEN QScan(s, IF c >= 192 THEN SkipCont(s, i + 1) ELSE i + 1, FALSE, IF c \in {BSlash, Quote} THEN Append(acc, c) ELSE acc)
       ELSE IF c = BSlash THEN QScan(s, i + 1, TRUE, acc)
       ELSE IF c = Quote THEN [ok |-> TRUE, val |-> acc, close |-> i]
       ELSE QScan(s, i + 1, FALSE, Append(acc, c))

(* StringParser(p).Parse(s) = [ok, val, left, q]; q: a quoted phrase was closed (the only place where the two        *)
(* readings differ).  INTENT: `left` is the text behind the closing quote.  AS WRITTEN: parsers.go returns cmd[:i]   *)
(* with i the offset of the closing quote inside cmd[1:], i.e. the text IN FRONT of the last character of the phrase. *)
ParseStr(p, s, v) ==
  IF p = 2 THEN [ok |-> TRUE, val |-> s, left |-> <<>>, q |-> FALSE]
  ELSE IF p = 1 /\ s # <<>> /\ s[1] = Quote THEN
    LET r == QScan(s, 2, FALSE, <<>>) IN
    IF ~r.ok THEN [ok |-> FALSE, val |-> <<>>, left |-> s, q |-> FALSE]
    ELSE [ok |-> TRUE, val |-> r.val, q |-> TRUE,
          left |-> IF v = "aswritten" THEN SubSeq(s, 1, r.close - 2) ELSE SubSeq(s, r.close + 1, Len(s))]
  ELSE LET i == FirstWS(s) IN
       IF i = 0 THEN [ok |-> TRUE, val |-> s, left |-> <<>>, q |-> FALSE]
       ELSE [ok |-> TRUE, val |-> SubSeq(s, 1, i - 1), left |-> SubSeq(s, i, Len(s)), q |-> FALSE]

(* result of Execute: kind "ran" (handler h was called with args, Execute returns what the handler returned) or      *)
(* "err" of class incomplete (nothing typed / node without handler) | unhandled (node finished with Unhandle) |      *)
(* extra (text left that no child takes: unknown literal or trailing text; `left` is that text) | parse (quoted      *)
(* phrase not closed) | panic (literal not a prefix: unreachable on graphs built by the builder).                     *)
(* args: one entry per node on the path, <<0, "">> for the root, <<1, name>> for a literal, <<2, value>> for an argument *)
Res(kind, cls, h, args, path, q, left) == [kind |-> kind, cls |-> cls, h |-> h, args |-> args, path |-> path, q |-> q, left |-> left]
NoRes == Res("none", "", 0, <<>>, <<>>, FALSE, <<>>)

(* node.next: a node whose first child is an argument passes everything to that child; otherwise the first word of   *)
(* the text selects the FIRST child with that name *)
NextNode(g, v, n, left) ==
  IF n.children = <<>> THEN 0
  ELSE LET first == At(g, n.children[1]) IN
       IF first.kind = 2 THEN n.children[1]
       ELSE IF first.kind = 1 THEN
         LET w == ParseStr(0, left, v).val
             M == {i \in 1..Len(n.children) : At(g, n.children[i]).name = w} IN
         IF M = {} THEN 0 ELSE n.children[IF v = "lastmatch" THEN MaxOf(M) ELSE MinOf(M)]
       ELSE 0

RECURSIVE Walk(_, _, _, _, _, _, _)
Walk(g, v, ni, cmd, args, path, q) ==
  LET n == At(g, ni)
      pr == IF n.kind = 0 THEN [ok |-> TRUE, val |-> <<>>, left |-> cmd, q |-> FALSE]
            ELSE IF n.kind = 1 THEN
              IF IsPrefix(n.name, cmd) THEN [ok |-> TRUE, val |-> n.name, left |-> SubSeq(cmd, Len(n.name) + 1, Len(cmd)), q |-> FALSE]
              ELSE [ok |-> FALSE, val |-> <<>>, left |-> cmd, q |-> FALSE]
            ELSE ParseStr(n.parser, cmd, v)
      args2 == Append(args, <<n.kind, pr.val>>)
      path2 == Append(path, ni)
      q2    == q \/ pr.q
      left  == Trim(pr.left)
  IN IF ~pr.ok THEN Res("err", IF n.kind = 1 THEN "panic" ELSE "parse", 0, args, path2, q2, cmd)
     ELSE IF left = <<>> THEN
       IF n.run = 0 THEN Res("err", "incomplete", 0, args2, path2, q2, <<>>)
       ELSE IF n.run < 0 THEN Res("err", "unhandled", 0, args2, path2, q2, <<>>)
       ELSE Res("ran", "", n.run, args2, path2, q2, <<>>)
     ELSE LET nx == NextNode(g, v, n, left) IN
          IF nx = 0 THEN Res("err", "extra", 0, args2, path2, q2, left)
          ELSE Walk(g, v, nx, left, args2, path2, q2)

Exec(g, line, v) == Walk(g, v, 0, line, <<>>, <<>>, FALSE)

\* ================================================================ (2) wire form (body of DECLARE_COMMANDS)
(* VarInt count, nodes, VarInt root index (0).  Node: flags byte (bits 0-1 kind, 0x04 executable, 0x08 redirect,     *)
(* 0x10 suggestions type), VarInt count + VarInt child indices, [redirect], [name: String] for literal/argument,      *)
(* [parser + properties] for argument.  Parser, `form`:                                                               *)
(*   "id"   (INTENT, protocol 759 and later, server.ProtocolVersion is 764): VarInt parser id, brigadier:string = 5,   *)
(*          then its property VarInt mode;                                                                             *)
(*   "name" (AS WRITTEN): Identifier "brigadier:string", then VarInt mode (the form of protocols before 759).          *)
(* Executable bit, `fv`: "handler" (INTENT: a node finished with Unhandle is not executable) | "run" (AS WRITTEN: any   *)
(* node whose Run is set, including Unhandle).                                                                          *)
RECURSIVE EncVar(_)
EncVar(x) == IF x < 128 THEN <<x>> ELSE <<(x % 128) + 128>> \o EncVar(x \div 128)
EncStr(s) == EncVar(Len(s)) \o s
ParserName == <<98, 114, 105, 103, 97, 100, 105, 101, 114, 58, 115, 116, 114, 105, 110, 103>>     \* "brigadier:string"
StringParserId == 5
ExecBit(n, fv) == IF WireBreak = "dropexec" THEN FALSE ELSE IF fv = "handler" THEN n.run > 0 ELSE n.run # 0
EncNode(n, form, fv) ==
  <<n.kind + (IF ExecBit(n, fv) THEN 4 ELSE 0)>>
  \o EncVar(Len(n.children)) \o Concat([i \in 1..Len(n.children) |-> EncVar(n.children[i])])
  \o (IF n.kind \in {1, 2} THEN EncStr(n.name) ELSE <<>>)
  \o (IF n.kind = 2 THEN (IF form = "name" THEN EncStr(ParserName) ELSE EncVar(StringParserId)) \o EncVar(n.parser) ELSE <<>>)
Enc(g, form, fv) == EncVar(Len(g)) \o Concat([i \in 1..Len(g) |-> EncNode(g[i], form, fv)]) \o EncVar(0)

(* what a reader of the body learns about a node *)
WireView(g, fv) == [i \in 1..Len(g) |-> [kind |-> g[i].kind, name |-> g[i].name, parser |-> g[i].parser,
                                          children |-> g[i].children, exec |-> IF fv = "handler" THEN g[i].run > 0 ELSE g[i].run # 0]]

(* independent decoder: walks the bytes with a cursor p; every reader answers [ok, v, p] *)
Pow128(k) == CASE k = 0 -> 1 [] k = 1 -> 128 [] k = 2 -> 16384 [] OTHER -> 2097152
RECURSIVE RdVarFrom(_, _, _, _)
RdVarFrom(b, i, k, acc) ==
  IF i > Len(b) \/ k >= 4 THEN [ok |-> FALSE, v |-> 0, p |-> i]          \* lengths of 2^28 and more are not read
  ELSE LET a == acc + (b[i] % 128) * Pow128(k) IN
       IF b[i] < 128 THEN [ok |-> TRUE, v |-> a, p |-> i + 1] ELSE RdVarFrom(b, i + 1, k + 1, a)
RdVar(b, p) == RdVarFrom(b, p, 0, 0)
RdStr(b, p) == LET l == RdVar(b, p) IN
               IF ~l.ok \/ l.p + l.v - 1 > Len(b) THEN [ok |-> FALSE, v |-> <<>>, p |-> p]
               ELSE [ok |-> TRUE, v |-> SubSeq(b, l.p, l.p + l.v - 1), p |-> l.p + l.v]
RECURSIVE RdVars(_, _, _, _)
RdVars(b, p, k, acc) == IF k = 0 THEN [ok |-> TRUE, v |-> acc, p |-> p]
                        ELSE LET r == RdVar(b, p) IN IF ~r.ok THEN [ok |-> FALSE, v |-> acc, p |-> p] ELSE RdVars(b, r.p, k - 1, Append(acc, r.v))
BadNode == [ok |-> FALSE, v |-> [kind |-> 0, name |-> <<>>, parser |-> -1, children |-> <<>>, exec |-> FALSE], p |-> 0]
RdNode(b, p, form) ==
  IF p > Len(b) THEN BadNode ELSE
  LET fl == b[p]
      kind == fl % 4
      cn == RdVar(b, p + 1)
      ch == IF cn.ok THEN RdVars(b, cn.p, cn.v, <<>>) ELSE [ok |-> FALSE, v |-> <<>>, p |-> p]
      rd == IF ~ch.ok THEN ch ELSE IF (fl \div 8) % 2 = 1 THEN RdVar(b, ch.p) ELSE [ok |-> TRUE, v |-> 0, p |-> ch.p]
      nm == IF ~rd.ok THEN [ok |-> FALSE, v |-> <<>>, p |-> p]
            ELSE IF kind \in {1, 2} THEN RdStr(b, rd.p) ELSE [ok |-> TRUE, v |-> <<>>, p |-> rd.p]
      pid == IF ~nm.ok THEN [ok |-> FALSE, v |-> 0, p |-> p]
             ELSE IF kind # 2 THEN [ok |-> TRUE, v |-> -1, p |-> nm.p]
             ELSE IF form = "name" THEN LET s == RdStr(b, nm.p) IN [ok |-> s.ok /\ s.v = ParserName, v |-> 0, p |-> s.p]
             ELSE LET i == RdVar(b, nm.p) IN [ok |-> i.ok /\ i.v = StringParserId, v |-> 0, p |-> i.p]
      pm == IF ~pid.ok THEN [ok |-> FALSE, v |-> -1, p |-> p]
            ELSE IF kind # 2 THEN [ok |-> TRUE, v |-> -1, p |-> pid.p] ELSE RdVar(b, pid.p)
      sg == IF ~pm.ok THEN [ok |-> FALSE, v |-> <<>>, p |-> p]
            ELSE IF (fl \div 16) % 2 = 1 THEN RdStr(b, pm.p) ELSE [ok |-> TRUE, v |-> <<>>, p |-> pm.p]
  IN IF kind = 3 \/ fl >= 32 \/ ~sg.ok THEN BadNode
     ELSE [ok |-> TRUE, p |-> sg.p,
           v |-> [kind |-> kind, name |-> nm.v, parser |-> pm.v, children |-> ch.v, exec |-> (fl \div 4) % 2 = 1]]
RECURSIVE RdNodes(_, _, _, _, _)
RdNodes(b, p, k, form, acc) == IF k = 0 THEN [ok |-> TRUE, v |-> acc, p |-> p]
                               ELSE LET r == RdNode(b, p, form) IN
                                    IF ~r.ok THEN [ok |-> FALSE, v |-> acc, p |-> p] ELSE RdNodes(b, r.p, k - 1, form, Append(acc, r.v))
Dec(b, form) ==
  LET c == RdVar(b, 1)
      ns == IF c.ok THEN RdNodes(b, c.p, c.v, form, <<>>) ELSE [ok |-> FALSE, v |-> <<>>, p |-> 1]
      rt == IF ns.ok THEN RdVar(b, ns.p) ELSE [ok |-> FALSE, v |-> 0, p |-> 1]
  IN [ok |-> rt.ok /\ rt.p = Len(b) + 1, nodes |-> ns.v, root |-> rt.v]

\* ================================================================ (1) builder API
Act(op, p, c, nm, ps, h, line, res, resw, bytes) ==
  [op |-> op, p |-> p, c |-> c, name |-> nm, parser |-> ps, h |-> h, line |-> line, res |-> res, resw |-> resw, bytes |-> bytes]
Plain(op, p, c, nm, ps, h) == Act(op, p, c, nm, ps, h, <<>>, NoRes, NoRes, <<>>)
Count == nops' = nops + 1

(* g.Literal(name) / g.Argument(name, parser): a new node at the end of the table, the caller holds its builder *)
TypeCode(n) == n.kind * 1000 + (n.parser + 1) * 100 + (IF n.name = <<>> THEN 0 ELSE n.name[1] % 100)
Ascending(n) == SymBreak => TypeCode(nodes[N]) <= TypeCode(n)
NewLiteral(nm) ==
  /\ N <= MaxNodes /\ Count /\ Ascending(Node(1, nm, -1, <<>>, 0))
  /\ nodes' = Append(nodes, Node(1, nm, -1, <<>>, 0)) /\ stage' = Append(stage, "fresh")
  /\ act' = Plain("lit", N, 0, nm, -1, 0)
NewArgument(nm, ps) ==
  /\ N <= MaxNodes /\ Count /\ Ascending(Node(2, nm, ps, <<>>, 0))
  /\ nodes' = Append(nodes, Node(2, nm, ps, <<>>, 0)) /\ stage' = Append(stage, "fresh")
  /\ act' = Plain("arg", N, 0, nm, ps, 0)
(* builder.AppendLiteral(child): offered by a fresh builder or one that only has literal children; the child is a    *)
(* finished *Literal.  Graph.AppendLiteral is the same on the root.                                                    *)
AppendLiteral(p, c) ==
  /\ p \in 0..(N - 1) /\ c \in 1..(N - 1) /\ Count
  /\ stage[p + 1] \in {"fresh", "lits", "root"} /\ stage[c + 1] = "done" /\ At(nodes, c).kind = 1
  /\ Len(At(nodes, p).children) < MaxKids
  /\ nodes' = [nodes EXCEPT ![p + 1].children = Append(@, c)]
  /\ stage' = [stage EXCEPT ![p + 1] = IF p = 0 THEN "root" ELSE "lits"]
  /\ act' = Plain("applit", p, c, <<>>, -1, 0)
(* builder.AppendArgument(child): only a fresh builder offers it, and nothing can be appended afterwards *)
AppendArgument(p, c) ==
  /\ p \in 1..(N - 1) /\ c \in 1..(N - 1) /\ Count
  /\ stage[p + 1] = "fresh" /\ stage[c + 1] = "done" /\ At(nodes, c).kind = 2
  /\ nodes' = [nodes EXCEPT ![p + 1].children = Append(@, c)]
  /\ stage' = [stage EXCEPT ![p + 1] = "arg"]
  /\ act' = Plain("apparg", p, c, <<>>, -1, 0)
(* builder.HandleFunc(f) / builder.Unhandle(): finishes the node *)
Handle(p, h) ==
  /\ p \in 1..(N - 1) /\ stage[p + 1] \in Open /\ Count
  /\ nodes' = [nodes EXCEPT ![p + 1].run = h] /\ stage' = [stage EXCEPT ![p + 1] = "done"]
  /\ act' = Plain("handle", p, 0, <<>>, -1, h)
Unhandle(p) ==
  /\ p \in 1..(N - 1) /\ stage[p + 1] \in Open /\ Count
  /\ nodes' = [nodes EXCEPT ![p + 1].run = -1] /\ stage' = [stage EXCEPT ![p + 1] = "done"]
  /\ act' = Plain("unhandle", p, 0, <<>>, -1, 0)
(* Graph.Execute(ctx, line) and Graph.WriteTo(w) read the graph only *)
Execute(line) ==
  /\ Count
  /\ act' = Act("exec", 0, 0, <<>>, -1, 0, line, Exec(nodes, line, "intent"), Exec(nodes, line, "aswritten"), <<>>)
  /\ UNCHANGED <<nodes, stage>>
Serialize ==
  /\ Count
  /\ act' = Act("wire", 0, 0, <<>>, -1, 0, <<>>, NoRes, NoRes, Enc(nodes, "name", "run"))
  /\ UNCHANGED <<nodes, stage>>

Init == nodes = <<Root>> /\ stage = <<"root">> /\ nops = 0 /\ act = Plain("new", 0, 0, <<>>, -1, 0)
Build == \/ \E nm \in LitNames : NewLiteral(nm)
         \/ \E nm \in ArgNames, ps \in Parsers : NewArgument(nm, ps)
         \/ \E p \in 0..(N - 1), c \in 1..(N - 1) : AppendLiteral(p, c) \/ AppendArgument(p, c)
         \/ \E p \in 1..(N - 1) : (Unhandles /\ Unhandle(p)) \/ \E h \in (IF OwnHandler THEN {p} ELSE Handlers) : Handle(p, h)
Next == Build \/ Serialize \/ \E line \in {<<>>} : Execute(line)
Spec == Init /\ [][Next]_vars
View == <<nodes, stage>>

\* ================================================================ properties
KidsIn(g, i) == At(g, i).children
KidSetIn(g, i) == {KidsIn(g, i)[k] : k \in 1..Len(KidsIn(g, i))}
Kids(i) == KidsIn(nodes, i)
KidSet(i) == KidSetIn(nodes, i)
TypeOK ==
  /\ Len(stage) = N /\ N >= 1 /\ nodes[1].kind = 0 /\ stage[1] = "root"
  /\ \A i \in 2..N : /\ nodes[i].kind \in {1, 2} /\ stage[i] \in Open \cup {"done"}
                     /\ nodes[i].name \in (IF nodes[i].kind = 1 THEN LitNames ELSE ArgNames)
                     /\ (nodes[i].kind = 2 => nodes[i].parser \in Parsers) /\ (nodes[i].kind = 1 => nodes[i].parser = -1)
                     /\ nodes[i].run \in Handlers \cup {0, -1}
(* nodes reachable from the set S along children (S included) *)
RECURSIVE ReachIn(_, _)
ReachIn(g, S) == LET T == S \cup UNION {KidSetIn(g, i) \cap (0..(Len(g) - 1)) : i \in S} IN IF T = S THEN S ELSE ReachIn(g, T)
ReachFrom(S, k) == ReachIn(nodes, S)
(* what the type states of the builder guarantee about the table *)
WellFormedOn(g, st) ==
  /\ Len(st) = Len(g) /\ Len(g) >= 1
  /\ g[1] = [Root EXCEPT !.children = g[1].children] /\ st[1] = "root"
  /\ \A i \in 0..(Len(g) - 1) :
       /\ i > 0 => At(g, i).kind \in {1, 2} /\ st[i + 1] \in Open \cup {"done"}
       /\ \A c \in KidSetIn(g, i) : c \in 1..(Len(g) - 1) /\ st[c + 1] = "done"          \* children exist and are finished
       /\ \/ \A c \in KidSetIn(g, i) : c \in 1..(Len(g) - 1) /\ At(g, c).kind = 1        \* only literals
          \/ Len(KidsIn(g, i)) = 1 /\ KidsIn(g, i)[1] \in 1..(Len(g) - 1) /\ At(g, KidsIn(g, i)[1]).kind = 2   \* or exactly one argument
       /\ (i > 0 => (At(g, i).run = 0 <=> st[i + 1] \in Open))                            \* finished = has a handler (or Unhandle)
       /\ (i > 0 /\ At(g, i).kind = 1) => At(g, i).parser = -1
       /\ i \notin ReachIn(g, KidSetIn(g, i))                                            \* no cycle
StageMatchesOn(g, st) ==
  \A i \in 1..(Len(g) - 1) :
    /\ st[i + 1] = "fresh" => KidsIn(g, i) = <<>>
    /\ st[i + 1] = "lits" => KidsIn(g, i) # <<>> /\ \A c \in KidSetIn(g, i) : At(g, c).kind = 1
    /\ st[i + 1] = "arg" => Len(KidsIn(g, i)) = 1 /\ At(g, KidsIn(g, i)[1]).kind = 2
WellFormed == WellFormedOn(nodes, stage)
StageMatches == StageMatchesOn(nodes, stage)
RootOnlyLiterals == \A c \in KidSet(0) : At(nodes, c).kind = 1
BuildRule == [][/\ act'.op \in {"lit", "arg"} => (Len(nodes') = N + 1 /\ SubSeq(nodes', 1, N) = nodes /\ act'.p = N)
                /\ act'.op \in {"applit", "apparg", "handle", "unhandle"} =>
                     (Len(nodes') = N /\ \A i \in 1..N : i # act'.p + 1 => nodes'[i] = nodes[i])
                /\ act'.op \in {"exec", "wire"} => (nodes' = nodes /\ stage' = stage)]_vars

(* the body decodes to the table, in both forms *)
RoundTrip == \A form \in {"name", "id"}, fv \in {"handler", "run"} :
               LET d == Dec(Enc(nodes, form, fv), form) IN d.ok /\ d.nodes = WireView(nodes, fv) /\ d.root = 0
(* a reader of the current protocol does not get the table back from the form written today as soon as there is an   *)
(* argument node (model-level statement of the ParserId finding) *)
FormsDiffer == (\E i \in 1..N : nodes[i].kind = 2) =>
                 LET d == Dec(Enc(nodes, "name", "run"), "id") IN ~(d.ok /\ d.nodes = WireView(nodes, "run"))

(* ---- Exec: quantified over Lines in every state without an open builder ---- *)
Complete == (\A i \in 1..N : stage[i] \notin Open) /\ ReachFrom({0}, N) = 0..(N - 1)     \* nothing open, nothing unreachable
GoodName(nm) == nm # <<>> /\ \A i \in 1..Len(nm) : nm[i] \notin WS /\ nm[i] < 128
FirstOfName(i, k) == \A j \in 1..(k - 1) : At(nodes, Kids(i)[j]).name # At(nodes, Kids(i)[k]).name
(* the step i -> c is the one node.next takes for the canonical token of c *)
Selects(i, c) == /\ Kids(i) # <<>>
                 /\ IF At(nodes, Kids(i)[1]).kind = 2 THEN c = Kids(i)[1]
                    ELSE \E k \in 1..Len(Kids(i)) : Kids(i)[k] = c /\ FirstOfName(i, k) /\ GoodName(At(nodes, c).name)
IsPath(p) == Len(p) >= 1 /\ p[1] = 0 /\ \A k \in 1..(Len(p) - 1) : p[k + 1] \in KidSet(p[k])
(* Soundness: whatever line runs a handler ran it along a path of the graph, the handler is the one of the last node, *)
(* literal steps took the first child of that name, and the arguments are one per node in path order                  *)
SoundRes(r) ==
  r.kind = "ran" =>
    /\ IsPath(r.path) /\ Len(r.args) = Len(r.path)
    /\ r.h > 0 /\ r.h = At(nodes, r.path[Len(r.path)]).run
    /\ r.args[1] = <<0, <<>>>>
    /\ \A k \in 2..Len(r.path) : LET n == At(nodes, r.path[k]) IN
         /\ r.args[k][1] = n.kind
         /\ n.kind = 1 => r.args[k][2] = n.name
         /\ n.kind = 1 => \E j \in 1..Len(Kids(r.path[k - 1])) : Kids(r.path[k - 1])[j] = r.path[k] /\ FirstOfName(r.path[k - 1], j)
         /\ n.kind = 2 => r.path[k] = Kids(r.path[k - 1])[1]
SameOutcome(r, s) == r.kind = s.kind /\ r.cls = s.cls /\ r.h = s.h /\ r.args = s.args /\ r.path = s.path
Pad(line) == <<32>> \o line \o <<9, 32>>
ExecSound == Complete => \A line \in Lines : LET r == Exec(nodes, line, Variant) IN
               r.kind \in {"ran", "err"} /\ SoundRes(r) /\ (r.kind = "err" => r.cls \in {"incomplete", "unhandled", "extra", "parse"})
(* surrounding white space does not matter *)
TrimInvariant == Complete => \A line \in Lines : SameOutcome(Exec(nodes, line, Variant), Exec(nodes, Pad(line), Variant))
(* the code as written equals the intent on every line that closes no quoted phrase *)
AsWrittenRefines == Complete => \A line \in Lines : LET r == Exec(nodes, line, "intent") IN
                      ~r.q => Exec(nodes, line, "aswritten") = r
(* the three statements above in one pass over Lines (one evaluation of Exec per reading and line) *)
ExecAll == Complete => \A line \in Lines :
             LET r == Exec(nodes, line, Variant) IN
             /\ r.kind \in {"ran", "err"} /\ SoundRes(r) /\ (r.kind = "err" => r.cls \in {"incomplete", "unhandled", "extra", "parse"})
             /\ SameOutcome(r, Exec(nodes, Pad(line), Variant))
             /\ (Variant = "intent" /\ ~r.q) => Exec(nodes, line, "aswritten") = r
(* Completeness: the canonical spelling of every selectable path runs the handler of its last node with the expected *)
(* arguments.  Tokens: a literal is its name; a single-word argument any word; a quotable argument a bare word or a  *)
(* quoted phrase (value = the phrase); a greedy argument (last on the path) any trimmed text.                          *)
Words0 == {<<98>>, <<34, 98>>, <<98, 92>>}                              \* b  "b  b\      (single word: no white space)
Phrases == {<<>>, <<98>>, <<98, 32, 99>>, <<34>>, <<92, 98>>}           \* values of quoted phrases: empty, b, "b c", a quote, \b
Greedy == {<<98>>, <<98, 32, 32, 34, 99>>}                              \* b   and   b  "c
RECURSIVE Escape(_)
Escape(s) == IF s = <<>> THEN <<>> ELSE (IF s[1] \in {Quote, BSlash} THEN <<BSlash, s[1]>> ELSE <<s[1]>>) \o Escape(Tail(s))
Quoted(s) == <<Quote>> \o Escape(s) \o <<Quote>>
(* <<token text, value>> choices of a node *)
Tokens(n, last) ==
  IF n.kind = 1 THEN {<<n.name, n.name>>}
  ELSE IF n.parser = 0 THEN {<<w, w>> : w \in Words0}
  ELSE IF n.parser = 1 THEN {<<w, w>> : w \in {<<98>>, <<98, 92>>}} \cup {<<Quoted(s), s>> : s \in Phrases}
  ELSE IF last THEN {<<w, w>> : w \in Greedy} ELSE {}
RECURSIVE PathsFrom(_, _)
PathsFrom(p, d) ==                \* selectable paths extending p by at most d steps
  {p} \cup (IF d = 0 THEN {} ELSE UNION {PathsFrom(Append(p, c), d - 1) : c \in {c \in KidSet(p[Len(p)]) : Selects(p[Len(p)], c)}})
RECURSIVE Spellings(_, _)
Spellings(p, k) ==                \* set of <<line, args>> for the nodes p[k..]
  IF k > Len(p) THEN {<<<<>>, <<>>>>}
  ELSE {<<(IF k = 2 THEN <<>> ELSE <<32>>) \o t[1] \o rest[1], <<<<At(nodes, p[k]).kind, t[2]>>>> \o rest[2]>> :
          t \in Tokens(At(nodes, p[k]), k = Len(p)), rest \in Spellings(p, k + 1)}
ExecComplete ==
  Complete => \A p \in PathsFrom(<<0>>, MaxNodes) : Len(p) >= 2 =>
    \A sp \in Spellings(p, 2) :
      LET r == Exec(nodes, sp[1], Variant)  last == At(nodes, p[Len(p)]) IN
      IF last.run > 0 THEN r.kind = "ran" /\ r.h = last.run /\ r.path = p /\ r.args = <<<<0, <<>>>>>> \o sp[2]
      ELSE r.kind = "err" /\ r.cls = "unhandled" /\ r.path = p
=============================================================================
