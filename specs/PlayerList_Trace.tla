-------------------------- MODULE PlayerList_Trace --------------------------
EXTENDS PlayerList, Json
Trace == ndJsonDeserialize("trace.ndjson")
VARIABLE l
Ev == Trace[l]
IsEvent(k) == l <= Len(Trace) /\ Trace[l].k = k /\ l' = l + 1
TReset == IsEvent("reset") /\ players' = {} /\ cap' = Ev.cap /\ pend' = [g \in Procs |-> NoCall]
TStart == IsEvent("start") /\ Start(Ev.g, Ev.op, Ev.c)
TEnd == IsEvent("end") /\ End(Ev.g, Ev.r)
TLin == \E g \in Procs : Lin(g) /\ UNCHANGED l
\* a sample of Len() taken by an observer goroutine at any time: never above the capacity
TSample == IsEvent("sample") /\ Ev.n <= cap /\ Ev.n >= 0 /\ UNCHANGED pvars
TQuiesce == IsEvent("quiesce") /\ (\A g \in Procs : pend[g].op = "none") /\ Cardinality(players) = Ev.n /\ UNCHANGED pvars
TraceInit == players = {} /\ cap = 0 /\ pend = [g \in Procs |-> NoCall] /\ l = 1
TraceNext == (TReset \/ TStart \/ TEnd \/ TLin \/ TSample \/ TQuiesce) /\ NeverOverCapacity'
TraceSpec == TraceInit /\ [][TraceNext]_<<pvars, l>>
ASSUME TLCSet(1, 0)
HWM == TLCSet(1, IF TLCGet(1) < l THEN l ELSE TLCGet(1))
Accepted == PrintT(<<"HWM", TLCGet(1), Len(Trace) + 1>>) /\ TLCGet(1) = Len(Trace) + 1
=============================================================================
