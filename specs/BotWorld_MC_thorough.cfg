SPECIFICATION Spec
CONSTANTS
  Coords <- MC_Coords3
  Toks = {1}
  NDims = 2
  Dims = {0, 1, 2}
  Variant = "intent"
VIEW View
INVARIANTS TypeOK LoadedExactly SecsOK Agree
PROPERTIES LoadRule ForgetRule SpawnRule
CHECK_DEADLOCK FALSE
