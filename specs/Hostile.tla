------------------------------- MODULE Hostile ------------------------------
(***************************************************************************)
(* C08 for the decoders whose payload grammar is not modelled field by     *)
(* field here (whole chunks, block entities, text components, registry     *)
(* and tag data, command lines).  Inputs are generated from a valid        *)
(* encoding by a NAMED mutation, so what the property demands is known by  *)
(* construction:                                                           *)
(*   valid          the decoder's own encoding, untouched -> a value       *)
(*   truncated      a strict prefix that cuts a field      -> an error     *)
(*   neglen         a length prefix overwritten with a negative VarInt /   *)
(*                  a negative NBT length                   -> an error    *)
(*   overlen        a length prefix larger than what follows -> an error   *)
(*   other          bit flips, random bytes, tag substitution: value or    *)
(*                  error                                                  *)
(* and in every case: no panic, and the call returns.                      *)
(***************************************************************************)
EXTENDS Integers, Sequences, TLC, Json
Trace == ndJsonDeserialize("trace.ndjson")
VARIABLE l
TraceInit == l \in 1..Len(Trace)
TraceSpec == TraceInit /\ [][UNCHANGED l]_l
E == Trace[l]
Classes == {"valid", "truncated", "neglen", "overlen", "other"}
Allowed(class) == CASE class = "valid" -> {"value"}
                    [] class \in {"truncated", "neglen", "overlen"} -> {"error"}
                    [] OTHER -> {"value", "error"}
Total == /\ E.class \in Classes
         /\ E.outcome \in Allowed(E.class)          \* "panic" and "hang" are in no Allowed set
=============================================================================
