SPECIFICATION GenSpec
CONSTANTS
  Boxes = {}
  Tests = {}
  Vals = {}
  MaxLeaves = 10
  AnySibling = FALSE
  RefitRootOnDelete = FALSE
  Bug = 0
INVARIANTS InvContains
CHECK_DEADLOCK FALSE
