SPECIFICATION TraceSpec
CONSTANTS
  Senders = {}
  Sessions = {}
  MaxIdx = 0
  Bodies = {}
  Layer = "intent"
  Desc = "gt"
  SameLastOK = TRUE
  Inject = FALSE
INVARIANTS Check
CHECK_DEADLOCK FALSE
