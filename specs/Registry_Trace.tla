--------------------------- MODULE Registry_Trace ---------------------------
(* Trace validation for X02/Registry.  Every line is one call on a real registry.Registry[E] together with the *)
(* projection of the registry AFTER the call, taken through the exported API (GetByID for 0, 1, ... until nil: *)
(* `vals`; Get for every key of the universe: `keys` as <<key, id, value, same pointer as GetByID(id)>>; Tag   *)
(* for every tag of the universe with each pointer mapped back to the id whose GetByID is that pointer, -1 if  *)
(* none: `tags`) plus a read-only look at the unexported pointer map `indices` (idxn entries, idxbad of the    *)
(* ids 0..n-1 not mapped to themselves).  The state BEFORE a call is the projection on the previous line, so   *)
(* every line is an independent initial state l; the numbers of the failed checks of a line are printed as     *)
(* <<"X2FAIL", l, {checks}>>; the harness only maps them back to events.                                       *)
(*                                                                                                             *)
(* checks:  1 DenseIds  2 KeysValid  3 TagsValid  4 IndicesInverse   (state predicates, rows of <= Grow entries)*)
(*          5 Put  6 Get  7 GetByID  8 Clear  9 ClearTags  10 Tag                                              *)
(*          11 ReadFromData (every entry with data)  12 ReadFromNoData (an entry without data keeps its id)    *)
(*          13 ReadFromShort (truncated body)  14 ReadTagsOk  15 ReadTagsBad  16 Fresh  17 NoPanic             *)
(*          18 TagsValidGrown  19 IndicesInverseGrown   (the same predicates on rows of more than Grow entries: *)
(*             Grow = 256 is the capacity NewRegistry reserves, beyond it Put moves the row)                    *)
(*          20 ByteCount (a successful read reports exactly the bytes of the body and leaves the rest unread)   *)
(*          21 Wire (round trip: the content written as network bodies and read by a new registry is the same)  *)
(* A state predicate is reported at the step that breaks it, not on every later line.                          *)
EXTENDS Registry, Json

CONSTANT Grow
Trace == ndJsonDeserialize("trace.ndjson")

VARIABLE l
tvars == <<vars, l>>
NChecks == 21

ValsOf(e) == e.vals
(* the key map of a line as a relation {<<key, id>>} (a line of a large row carries hundreds of keys) *)
KeysOf(e) == {<<e.keys[i][1], e.keys[i][2]>> : i \in 1..Len(e.keys)}
Rel(f) == {<<x, f[x]>> : x \in DOMAIN f}
TagsOf(e) == Norm([t \in {e.tags[i][1] : i \in 1..Len(e.tags)} |-> e.tags[CHOOSE i \in 1..Len(e.tags) : e.tags[i][1] = t][2]])
KeysValidOn(e) == \A i \in 1..Len(e.keys) : LET r == e.keys[i] IN
                     InIds(Len(e.vals), r[2]) /\ e.vals[r[2] + 1] = r[3] /\ r[4] = 1
TagsValidOn(e) == \A i \in 1..Len(e.tags) : \A j \in 1..Len(e.tags[i][2]) : InIds(Len(e.vals), e.tags[i][2][j])
IndicesOn(e) == e.idxn = Len(e.vals) /\ e.idxbad = 0
Small(e) == Len(e.vals) <= Grow
ValAt(e, id) == IF InIds(Len(e.vals), id) THEN e.vals[id + 1] ELSE Nil    \* total: a broken projection must not stop TLC

Failed ==
  LET ev     == Trace[l]
      hasPre == l > 1 /\ ev.k # "reset"
      pre    == IF hasPre THEN Trace[l - 1] ELSE ev
      pn     == Len(pre.vals)
      preK   == KeysOf(pre)
      postK  == KeysOf(ev)
      preT   == TagsOf(pre)
      postT  == TagsOf(ev)
      same   == ValsOf(ev) = ValsOf(pre) /\ postK = preK /\ postT = preT
      Is(k)  == ev.k = k /\ hasPre
      bad    == BadAt(pn, ev.msg)
      (* the row a truncated body may leave behind: the old content, or the entries read so far *)
      prefix == \E n \in 0..Len(ev.msg) : LET p == SubSeq(ev.msg, 1, n) IN
                   ValsOf(ev) = MsgVals(p) /\ postK = Rel(MsgKeys(p)) /\ postT = <<>>
      asMsg  == ValsOf(ev) = MsgVals(ev.msg) /\ postK = Rel(MsgKeys(ev.msg)) /\ postT = <<>>
      Ok(c) ==
        CASE c = 1 -> ev.outnil = TRUE
          [] c = 2 -> (~hasPre \/ KeysValidOn(pre)) => KeysValidOn(ev)             \* reported at the step that breaks it
          [] c = 3 -> (Small(ev) /\ (~hasPre \/ TagsValidOn(pre))) => TagsValidOn(ev)
          [] c = 4 -> (Small(ev) /\ (~hasPre \/ IndicesOn(pre))) => IndicesOn(ev)
          [] c = 5 -> Is("put") =>
                        /\ ValsOf(ev) = Append(ValsOf(pre), ev.val)
                        /\ postK = {p \in preK : p[1] # ev.key} \cup {<<ev.key, pn>>}
                        /\ (Small(ev) => postT = preT)
                        /\ ev.id = pn /\ ev.ret = ev.val /\ ev.retsame = 1
          [] c = 6 -> Is("get") =>
                        /\ same
                        /\ IF \E p \in preK : p[1] = ev.key
                           THEN /\ ev.id = (CHOOSE p \in preK : p[1] = ev.key)[2]
                                /\ ev.ret = ValAt(pre, ev.id) /\ ev.retsame = 1
                           ELSE ev.id = Nil /\ ev.ret = Nil
          [] c = 7 -> Is("byid") => (same /\ ev.ret = ValAt(pre, ev.id))
          [] c = 8 -> Is("clear") => (ValsOf(ev) = <<>> /\ postK = {} /\ postT = <<>>)
          [] c = 9 -> Is("cleartags") => (ValsOf(ev) = ValsOf(pre) /\ postK = preK /\ postT = <<>>)
          [] c = 10 -> Is("tag") => (same /\ ev.ids = TagIdsIn(preT, ev.key) /\ ev.cloned = TRUE)
          [] c = 11 -> (Is("readfrom") /\ ev.cut = 0 /\ AllData(ev.msg)) => (ev.err = FALSE /\ asMsg)
          [] c = 12 -> (Is("readfrom") /\ ev.cut = 0 /\ ~AllData(ev.msg)) => (ev.err = FALSE /\ asMsg)
          [] c = 13 -> (Is("readfrom") /\ ev.cut > 0) => (ev.err = TRUE /\ (same \/ prefix))
          [] c = 14 -> (Is("readtags") /\ ev.cut = 0 /\ bad = 0) =>
                        /\ ev.err = FALSE /\ ValsOf(ev) = ValsOf(pre) /\ postK = preK
                        /\ postT = Norm(ApplyTags(preT, ev.msg))
          [] c = 15 -> (Is("readtags") /\ (ev.cut > 0 \/ bad # 0)) =>
                        /\ ev.err = TRUE /\ ValsOf(ev) = ValsOf(pre) /\ postK = preK
                        /\ LET lim == IF bad # 0 THEN bad - 1 ELSE Len(ev.msg) IN
                             \E n \in 0..lim : postT = Norm(ApplyTags(preT, SubSeq(ev.msg, 1, n)))
          [] c = 16 -> ev.k = "reset" => (ev.vals = <<>> /\ ev.keys = <<>> /\ postT = <<>>)
          [] c = 17 -> ev.panicked = FALSE
          [] c = 18 -> (~Small(ev) /\ (~hasPre \/ TagsValidOn(pre))) => TagsValidOn(ev)
          [] c = 19 -> (~Small(ev) /\ (~hasPre \/ IndicesOn(pre))) => IndicesOn(ev)
          [] c = 20 -> (ev.k \in {"readfrom", "readtags"} /\ ev.err = FALSE) => (ev.rn = ev.nbytes /\ ev.left = ev.tail)
          [] c = 21 -> (Is("wire") /\ Cardinality(preK) = pn) =>      \* the content written as the two network bodies, read by a NEW registry
                        /\ same
                        /\ Len(ev.msg) = pn
                        /\ \A i \in 1..Len(ev.msg) : LET m == ev.msg[i] IN
                              m[2] = TRUE /\ m[3] = ValAt(pre, i - 1) /\ <<m[1], i - 1>> \in preK
                        /\ Norm(ApplyTags(<<>>, ev.tmsg)) = preT            \* the harness wrote what the projection shows
                        /\ ev.err = FALSE /\ ev.terr = FALSE
                        /\ ev.vals2 = ValsOf(pre)
                        /\ KeysOf([keys |-> ev.keys2]) = preK
                        /\ TagsOf([tags |-> ev.tags2]) = preT
          [] OTHER -> TRUE
  IN {c \in 1..NChecks : ~Ok(c)}

Check == LET f == Failed IN f = {} \/ PrintT(<<"X2FAIL", l, f>>)

TraceInit == /\ l \in 1..Len(Trace)
             /\ vals = <<>> /\ keys = <<>> /\ tags = <<>> /\ last = <<>> /\ act = 0 /\ nops = 0
TraceSpec == TraceInit /\ [][UNCHANGED tvars]_tvars
=============================================================================
