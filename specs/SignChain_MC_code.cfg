SPECIFICATION Spec
CONSTANTS
  Senders = {1, 2}
  Sessions = {1, 2}
  MaxIdx = 2
  Bodies = {1, 2}
  Layer = "code"
  Desc = "gt"
  SameLastOK = TRUE
  Inject = FALSE
VIEW View
INVARIANTS TypeOK
PROPERTIES BrokenSticky UpdateRule InitRule FirstAccepted
CHECK_DEADLOCK FALSE
