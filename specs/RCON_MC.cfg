SPECIFICATION Spec
CONSTANTS
  Passwords <- MCPasswords
  Cmds <- MCCmds
  Resps <- MCResps
  ReqIDs <- MCReqIDs
  Modes = {"real", "advs", "advc", "codec"}
  MaxCmds = 2
  MaxResps = 2
  MaxAdv = 3
  AdvIds = {"same", "plus1", "minus1"}
  AdvTypes = {0, 2, 3}
  AdvResps <- MCAdvResps
  WithHist = "none"
  EmitJson = TRUE
INVARIANTS TypeOK LoginIff ServerLoginIff VerbatimInOrder ResponsesInOrder Quiescent WholeFrames CodecOK LE32RoundTrip Emit
CHECK_DEADLOCK FALSE
