SPECIFICATION Spec
CONSTANTS
  Thresholds <- ThrQuick
  Names <- NamesQuick
  Refusals = {TRUE, FALSE}
  Intentions = {1, 2}
  MaxPlay = 3
  Variant = "none"
INVARIANTS EmitCfg
CHECK_DEADLOCK FALSE
