------------------------------ MODULE Join_Gen -------------------------------
(* Vector generator for leg A of C19: one JSON record per configuration of    *)
(* Join.tla (= per initial state), with the size classes of the play packets. *)
EXTENDS Join, Json
EmitCfg == (bpc = "start" /\ spc = "start" /\ c2s = <<>>) =>
             PrintT(ToJson([cfg |-> cfg, sizes |-> [k \in 1..MaxPlay |-> SizeOf(k)]]))
=============================================================================
