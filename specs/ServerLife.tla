----------------------------- MODULE ServerLife ------------------------------
(***************************************************************************)
(* X08: the connection life cycle of go-mc/server ACROSS components, for   *)
(* several concurrent connections:                                         *)
(*   Server.AcceptConn -> handshake -> [ acceptListPing                    *)
(*        | MojangLoginHandler.AcceptLogin (offline) -> LoginChecker       *)
(*          -> ConfigHandler.AcceptConfig -> GamePlay.AcceptPlayer ]       *)
(* with ONE server.PlayerList of capacity K in three roles: LoginChecker   *)
(* (CheckPlayer), the list a GamePlay joins / leaves (ClientJoin /         *)
(* ClientLeft) and the player count / sample of the status response        *)
(* (OnlinePlayer / PlayerSamples).  The gate of ONE connection is Join.tla *)
(* (C19), the list alone PlayerList.tla (C20), KeepAlive.tla is X01; this  *)
(* module is their composition.                                            *)
(*                                                                         *)
(* Granularity: every action is one segment of a connection's goroutine    *)
(* between two blocking points (a read from the client, a callback of the  *)
(* embedding program); every segment touches the shared list at most once, *)
(* so the segments are atomic (the list's mutex makes the single access    *)
(* atomic, everything else is connection-local).  One action per client    *)
(* operation (Connect, Handshake, LoginStart, Ack, FinishAck, StatusReq,   *)
(* Ping, CClose) and per segment of the server (Check, Config, Accept,     *)
(* Join, Decline, Leave, StatusOnline, StatusSample).                      *)
(*                                                                         *)
(* Two layers.  Layer = "intent": admission is atomic (a passed check      *)
(* reserves the slot until the player joined or the connection ended), the *)
(* status response is one snapshot, a failed configuration ends the        *)
(* connection.  Layer = "code": what server.go / playerlist.go / ping.go   *)
(* do: CheckPlayer and ClientJoin are separate looks at the list, the      *)
(* status response reads the list twice, the result of AcceptConfig is     *)
(* dropped.  The classes where they part are AcceptBound, StatusConsistent *)
(* and ConfigGate.  Broken # "none" are deliberately wrong variants for    *)
(* the vacuity guard.                                                      *)
(***************************************************************************)
EXTENDS Integers, Sequences, FiniteSets, TLC

CONSTANTS Clients,    \* set of connection numbers 1..N (identity = name = offline UUID = protocol number = net.Conn)
          K,          \* capacity of the PlayerList
          Layer,      \* "intent" | "code"
          Broken,     \* "none" | "leak" | "sharedslot" | "nojoincheck" | "countinside" | "acceptrefused" | "loopdown"
          Intents,    \* subset of {1, 2, 3}: status, login, anything else
          CfgModes    \* subset of {"real", "wait"}: server.Configurations (never reads) / a handler that awaits the client's finish

VARIABLES cmode,      \* the configuration handler of this behaviour
          intent,     \* intent[i]: what connection i asks for in its handshake
          pc,         \* pc[i]: where connection i's goroutine is blocked
          alive,      \* alive[i]: the client has not closed its socket
          list,       \* the PlayerList (set of connections)
          resv,       \* intent layer: slots reserved by a passed check
          inside,     \* connections inside GamePlay.AcceptPlayer
          acc,        \* acc[i]: whose name / uuid / protocol / conn AcceptPlayer of connection i was given
          chk,        \* chk[i]: "none" | "ok" | "full": the checker's answer
          cres,       \* cres[i]: "none" | "succ" | "disc": what the client was sent at the end of login
          kicked,     \* kicked[i]: ClientJoin refused (SendDisconnect)
          cfgok,      \* cfgok[i]: AcceptConfig returned nil
          son, ssam,  \* status: online count read (-1 none), sample read
          cst,        \* cst[i]: status response delivered: <<online, sample>> or <<>>
          lens,       \* history: the sizes the list had since the status request was read
          slot,       \* Broken = "sharedslot": the connection whose login start was read last
          down        \* Broken = "loopdown": the accept loop ended
vars == <<cmode, intent, pc, alive, list, resv, inside, acc, chk, cres, kicked, cfgok, son, ssam, cst, lens, slot, down>>

NoId == [name |-> 0, uuid |-> 0, proto |-> 0, conn |-> 0]
Own(i) == [name |-> i, uuid |-> i, proto |-> i, conn |-> i]
PCs == {"idle", "hs", "login", "check", "waitack", "cfg", "config", "cfgret", "accept", "play", "st", "online", "sample", "st2", "closed"}
AtRead == {"hs", "login", "waitack", "config", "st", "st2"}     \* blocked in conn.ReadPacket
Pinging == {"online", "sample"}

Init == /\ cmode \in CfgModes
        /\ intent \in [Clients -> Intents]
        /\ pc = [i \in Clients |-> "idle"] /\ alive = [i \in Clients |-> TRUE]
        /\ list = {} /\ resv = {} /\ inside = {}
        /\ acc = [i \in Clients |-> NoId] /\ chk = [i \in Clients |-> "none"] /\ cres = [i \in Clients |-> "none"]
        /\ kicked = [i \in Clients |-> FALSE] /\ cfgok = [i \in Clients |-> FALSE]
        /\ son = [i \in Clients |-> -1] /\ ssam = [i \in Clients |-> {}] /\ cst = [i \in Clients |-> <<>>]
        /\ lens = [i \in Clients |-> {}] /\ slot = 0 /\ down = FALSE

\* every change of the list is seen by the pings in progress
Track(nl) == lens' = [j \in Clients |-> IF pc[j] \in Pinging THEN lens[j] \cup {Cardinality(nl)} ELSE lens[j]]
Taken == IF Layer = "intent" THEN list \cup resv ELSE list

\* the connection's goroutine leaves AcceptConn (deferred conn.Close)
Closed(i) == /\ pc' = [pc EXCEPT ![i] = "closed"]
             /\ resv' = resv \ {i}
             /\ down' = (down \/ Broken = "loopdown")

\* GamePlay.AcceptPlayer(name, id, .., protocol, conn) is entered
EnterAccept(i) == /\ pc' = [pc EXCEPT ![i] = "accept"]
                  /\ inside' = inside \cup {i}
                  /\ acc' = [acc EXCEPT ![i] = IF Broken = "sharedslot" /\ slot # 0 THEN [Own(slot) EXCEPT !.conn = i] ELSE Own(i)]

\* ---- client operations
Connect(i) ==         \* the accept loop hands the connection to a new goroutine: go s.AcceptConn(conn)
  /\ pc[i] = "idle" /\ ~down
  /\ pc' = [pc EXCEPT ![i] = "hs"]
  /\ UNCHANGED <<cmode, intent, alive, list, resv, inside, acc, chk, cres, kicked, cfgok, son, ssam, cst, lens, slot, down>>

Handshake(i) ==       \* handshake packet with the intention
  /\ pc[i] = "hs" /\ alive[i]
  /\ IF intent[i] = 3 THEN Closed(i)
     ELSE pc' = [pc EXCEPT ![i] = IF intent[i] = 2 THEN "login" ELSE "st"] /\ UNCHANGED <<resv, down>>
  /\ UNCHANGED <<cmode, intent, alive, list, inside, acc, chk, cres, kicked, cfgok, son, ssam, cst, lens, slot>>

LoginStart(i) ==      \* login hello; AcceptLogin computes the offline UUID and calls the checker
  /\ pc[i] = "login" /\ alive[i]
  /\ pc' = [pc EXCEPT ![i] = "check"] /\ slot' = i
  /\ UNCHANGED <<cmode, intent, alive, list, resv, inside, acc, chk, cres, kicked, cfgok, son, ssam, cst, lens, down>>

Check(i) ==           \* LoginChecker.CheckPlayer = PlayerList.CheckPlayer, then login success / login disconnect
  /\ pc[i] = "check"
  /\ IF Cardinality(Taken) >= K /\ Broken # "acceptrefused"
     THEN /\ chk' = [chk EXCEPT ![i] = "full"]
          /\ cres' = [cres EXCEPT ![i] = IF alive[i] THEN "disc" ELSE @]
          /\ Closed(i)
     ELSE /\ chk' = [chk EXCEPT ![i] = IF Cardinality(Taken) >= K THEN "full" ELSE "ok"]
          /\ IF alive[i]
             THEN /\ cres' = [cres EXCEPT ![i] = "succ"] /\ pc' = [pc EXCEPT ![i] = "waitack"]
                  /\ resv' = (IF Layer = "intent" THEN resv \cup {i} ELSE resv) /\ UNCHANGED down
             ELSE UNCHANGED cres /\ Closed(i)           \* the login success cannot be written
  /\ UNCHANGED <<cmode, intent, alive, list, inside, acc, kicked, cfgok, son, ssam, cst, lens, slot>>

GiveUp(i) ==          \* the client went away before the login handler got as far as the checker (with compression enabled
                      \* Set Compression is written first): AcceptLogin fails without asking
  /\ pc[i] = "check" /\ ~alive[i]
  /\ Closed(i)
  /\ UNCHANGED <<cmode, intent, alive, list, inside, acc, chk, cres, kicked, cfgok, son, ssam, cst, lens, slot>>

Ack(i) ==             \* login acknowledged: AcceptLogin returns, Server.AcceptConn calls ConfigHandler.AcceptConfig
  /\ pc[i] = "waitack" /\ alive[i]
  /\ pc' = [pc EXCEPT ![i] = "cfg"]
  /\ UNCHANGED <<cmode, intent, alive, list, resv, inside, acc, chk, cres, kicked, cfgok, son, ssam, cst, lens, slot, down>>

Config(i) ==          \* AcceptConfig: server.Configurations writes the registries and the finish packet and returns;
                      \* a handler that waits reads the client's acknowledgement
  /\ pc[i] = "cfg"
  /\ IF cmode = "real" \/ ~alive[i]
     THEN cfgok' = [cfgok EXCEPT ![i] = alive[i]] /\ pc' = [pc EXCEPT ![i] = "cfgret"]
     ELSE pc' = [pc EXCEPT ![i] = "config"] /\ UNCHANGED cfgok
  /\ UNCHANGED <<cmode, intent, alive, list, resv, inside, acc, chk, cres, kicked, son, ssam, cst, lens, slot, down>>

FinishAck(i) ==       \* the client acknowledges the end of the configuration (handlers that wait for it)
  /\ pc[i] = "config" /\ alive[i]
  /\ cfgok' = [cfgok EXCEPT ![i] = TRUE] /\ pc' = [pc EXCEPT ![i] = "cfgret"]
  /\ UNCHANGED <<cmode, intent, alive, list, resv, inside, acc, chk, cres, kicked, son, ssam, cst, lens, slot, down>>

Accept(i) ==          \* AcceptConfig has returned: Server.AcceptConn goes on to GamePlay.AcceptPlayer
  /\ pc[i] = "cfgret"
  /\ IF cfgok[i] \/ Layer = "code"                       \* server.go drops the error of AcceptConfig
     THEN EnterAccept(i) /\ UNCHANGED <<resv, down>>
     ELSE Closed(i) /\ UNCHANGED <<inside, acc>>
  /\ UNCHANGED <<cmode, intent, alive, list, chk, cres, kicked, cfgok, son, ssam, cst, lens, slot>>

CClose(i) ==          \* the client closes its socket; a goroutine blocked in a read returns
  /\ alive[i] /\ pc[i] \notin {"idle", "closed"}
  /\ alive' = [alive EXCEPT ![i] = FALSE]
  /\ IF pc[i] = "config" THEN pc' = [pc EXCEPT ![i] = "cfgret"] /\ UNCHANGED <<resv, down>>     \* AcceptConfig fails
     ELSE IF pc[i] \in AtRead THEN Closed(i)
     ELSE UNCHANGED <<pc, resv, down>>
  /\ UNCHANGED <<cmode, intent, list, inside, acc, chk, cres, kicked, cfgok, son, ssam, cst, lens, slot>>

\* ---- the GamePlay of the embedding program: ClientJoin on entry, ClientLeft when the session ends
Join(i) ==
  /\ pc[i] = "accept"
  /\ IF Cardinality(list) >= K /\ Broken # "nojoincheck"
     THEN /\ kicked' = [kicked EXCEPT ![i] = TRUE]        \* SendDisconnect(server_full); AcceptPlayer returns
          /\ inside' = inside \ {i} /\ Closed(i) /\ UNCHANGED <<list, lens>>
     ELSE /\ list' = list \cup {i} /\ Track(list \cup {i})
          /\ resv' = resv \ {i} /\ pc' = [pc EXCEPT ![i] = "play"]
          /\ UNCHANGED <<kicked, inside, down>>
  /\ UNCHANGED <<cmode, intent, alive, acc, chk, cres, cfgok, son, ssam, cst, slot>>

Decline(i) ==         \* a GamePlay that returns at once, without joining the list
  /\ pc[i] = "accept"
  /\ inside' = inside \ {i} /\ Closed(i)
  /\ UNCHANGED <<cmode, intent, alive, list, acc, chk, cres, kicked, cfgok, son, ssam, cst, lens, slot>>

Leave(i) ==           \* the session ends (either side): ClientLeft, AcceptPlayer returns, the connection is closed
  /\ pc[i] = "play"
  /\ LET nl == IF Broken = "leak" /\ ~alive[i] THEN list ELSE list \ {i} IN list' = nl /\ Track(nl)
  /\ inside' = inside \ {i} /\ Closed(i)
  /\ UNCHANGED <<cmode, intent, alive, acc, chk, cres, kicked, cfgok, son, ssam, cst, slot>>

\* ---- status
StatusReq(i) ==
  /\ pc[i] = "st" /\ alive[i]
  /\ pc' = [pc EXCEPT ![i] = "online"] /\ lens' = [lens EXCEPT ![i] = {Cardinality(list)}]
  /\ UNCHANGED <<cmode, intent, alive, list, resv, inside, acc, chk, cres, kicked, cfgok, son, ssam, cst, slot, down>>

StatusOnline(i) ==    \* ListPingHandler.OnlinePlayer
  /\ pc[i] = "online"
  /\ son' = [son EXCEPT ![i] = IF Broken = "countinside" THEN Cardinality(inside) ELSE Cardinality(list)]
  /\ ssam' = IF Layer = "intent" THEN [ssam EXCEPT ![i] = list] ELSE ssam
  /\ pc' = [pc EXCEPT ![i] = "sample"]
  /\ UNCHANGED <<cmode, intent, alive, list, resv, inside, acc, chk, cres, kicked, cfgok, cst, lens, slot, down>>

StatusSample(i) ==    \* ListPingHandler.PlayerSamples, then the response is written
  /\ pc[i] = "sample"
  /\ LET sm == IF Layer = "intent" THEN ssam[i] ELSE list IN
     /\ ssam' = [ssam EXCEPT ![i] = sm]
     /\ IF alive[i] THEN /\ cst' = [cst EXCEPT ![i] = <<son[i], sm>>]
                         /\ pc' = [pc EXCEPT ![i] = "st2"] /\ UNCHANGED <<resv, down>>
                    ELSE UNCHANGED cst /\ Closed(i)
  /\ UNCHANGED <<cmode, intent, alive, list, inside, acc, chk, cres, kicked, cfgok, son, lens, slot>>

Ping(i) ==            \* ping -> pong; acceptListPing has served its two packets
  /\ pc[i] = "st2" /\ alive[i]
  /\ Closed(i)
  /\ UNCHANGED <<cmode, intent, alive, list, inside, acc, chk, cres, kicked, cfgok, son, ssam, cst, lens, slot>>

ClientStep(i) == Connect(i) \/ Handshake(i) \/ LoginStart(i) \/ Ack(i) \/ FinishAck(i) \/ CClose(i)
                 \/ StatusReq(i) \/ Ping(i)
ServerStep(i) == Check(i) \/ GiveUp(i) \/ Config(i) \/ Accept(i) \/ Join(i) \/ Decline(i) \/ Leave(i) \/ StatusOnline(i) \/ StatusSample(i)
Next == \E i \in Clients : ClientStep(i) \/ ServerStep(i)
Spec == Init /\ [][Next]_vars /\ \A i \in Clients : WF_vars(ClientStep(i) \/ ServerStep(i))

\* ------------------------------------------------------------------ properties
TypeOK == /\ pc \in [Clients -> PCs] /\ list \subseteq Clients /\ inside \subseteq Clients /\ resv \subseteq Clients
          /\ \A i \in Clients : chk[i] \in {"none", "ok", "full"} /\ cres[i] \in {"none", "succ", "disc"} /\ son[i] \in -1..Cardinality(Clients)
AllDone == \A i \in Clients : pc[i] \in {"closed"}

ListBound == Cardinality(list) <= K                                 \* the list never holds more than K players
AcceptBound == Cardinality(inside) <= K                             \* never more than K players inside AcceptPlayer
InsideList == list \subseteq inside /\ (Layer = "intent" => resv \cap list = {})
RefusedNeverAccepted == \A i \in Clients : chk[i] = "full" =>
                          /\ acc[i] = NoId /\ i \notin inside /\ i \notin list /\ cres[i] # "succ"
                          /\ (alive[i] /\ pc[i] = "closed" => cres[i] = "disc")
AcceptedWasChecked == \A i \in Clients : acc[i] # NoId => chk[i] = "ok" /\ cres[i] = "succ"
NoCrossTalk == \A i \in Clients : acc[i] \in {NoId, Own(i)}
ConfigGate == \A i \in Clients : acc[i] # NoId => cfgok[i]
StatusValue == \A i \in Clients : son[i] >= 0 => son[i] \in lens[i] /\ son[i] <= K
StatusConsistent == \A i \in Clients : cst[i] # <<>> => cst[i][1] = Cardinality(cst[i][2])
StatusSampleReal == \A i \in Clients : cst[i] # <<>> => Cardinality(cst[i][2]) \in lens[i]
NoLeak == AllDone => list = {} /\ inside = {} /\ resv = {}
LoopAlive == \A i \in Clients : pc[i] = "idle" => ENABLED Connect(i)  \* a connection that failed never stops the accept loop

Common == TypeOK /\ ListBound /\ InsideList /\ RefusedNeverAccepted /\ AcceptedWasChecked /\ NoCrossTalk /\ StatusValue
          /\ StatusSampleReal /\ NoLeak /\ LoopAlive
IntentOnly == AcceptBound /\ ConfigGate /\ StatusConsistent

Terminates == <>[]AllDone                                           \* every goroutine leaves AcceptConn
=============================================================================
