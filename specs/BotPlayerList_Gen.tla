-------------------------- MODULE BotPlayerList_Gen --------------------------
(* Behaviour generator for leg A of X04/BotPlayerList: the model of the code (Variant = "code") with six uuids and  *)
(* entries whose fields vary independently (derived from the uuid, the position in the packet and a step counter), *)
(* every set of actions, packets that name a player twice, removes of unknown players.  This module only chooses    *)
(* which behaviours are replayed on the real PlayerList; it proves nothing.                                         *)
EXTENDS BotPlayerList

VARIABLE n
gvars == <<vars, n>>
U == 1..6
GEnt(u, j) == Entry(u, ((n + j) % 3) + 1, (n + u) % 3, (n + j + u) % 3, (n + u + j) % 4, (n + j) % 2 = 0, ((n * 7 + u) % 3) * 150, (n + u) % 3)
Lists == {<<>>} \cup {<<u>> : u \in U} \cup {<<u, v>> : u \in U, v \in U} \cup {<<u, v, u>> : u \in {1, 2}, v \in {3, 4}}
GDo(p) == Do(p) /\ n' = n + 1
GenNext ==
  \/ \E a \in AllActSets, us \in Lists : (Len(us) + Len(a) + n) % 2 = 0 /\ GDo(P("update", a, [j \in 1..Len(us) |-> GEnt(us[j], j)], <<>>))
  \/ \E us \in Lists : n % 3 # 0 /\ GDo(P("update", <<0, 1, 2, 3, 4, 5>>, [j \in 1..Len(us) |-> GEnt(us[j], j)], <<>>))
  \/ \E us \in Lists : n % 3 = 0 /\ GDo(P("remove", <<>>, <<>>, us))
GenSpec == Init /\ n = 0 /\ [][GenNext]_gvars
=============================================================================
