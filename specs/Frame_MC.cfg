SPECIFICATION Spec
CONSTANTS
  Thrs <- MC_Thrs
  Ids <- MC_Ids
  Sizes <- MC_Sizes
  MaxFrames = 1
  BadPlen <- MC_BadPlen
  BadDlen <- MC_BadDlen
  EmitJson = TRUE
INVARIANTS FIFO AllConformant RoundTrip RejectRules Emit
CHECK_DEADLOCK FALSE
