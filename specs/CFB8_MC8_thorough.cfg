SPECIFICATION Spec
CONSTANTS
  BS = 8
  Keys = {3}
  IVs <- MCIVs1
  Msgs <- MCMsgs
  Lens <- MCLens
  MaxCalls = 3
  EmitJson = TRUE
INVARIANTS TypeOK SplitInvariance RegIsWindow RoundTrip Emit
CHECK_DEADLOCK FALSE
