SPECIFICATION SSpec
CONSTANTS
  Fmts = {}
  EmitJson = TRUE
  Quick = FALSE
  Mode = "texts"
  MaxLen = 7
  Alpha = {123, 125, 91, 93, 44, 58, 59, 32, 49, 97, 66, 34, 98, 46}
  QAlpha = {34, 97, 92}
INVARIANTS TextLaws SEmit
CHECK_DEADLOCK FALSE
