SPECIFICATION Spec
CONSTANTS
  Prod = {1, 2, 3}
  Cons = {11, 12, 13}
  ItemsPer = 2
  SignalOnPush = TRUE
  WithClose = TRUE
INVARIANTS ExactlyOnce PerProducerOrder DrainBeforeClosed NoParkedWithWork
PROPERTIES AllDelivered AllDone
CHECK_DEADLOCK FALSE
