------------------------------- MODULE Palette -------------------------------
(***************************************************************************)
(* C12: level.PaletteContainer is an array of state ids, whatever its      *)
(* internal representation (single value, indirect palettes of growing     *)
(* width, direct ids) happens to be.                                       *)
(*                                                                         *)
(* Abstract state: the array of length len over ids, kept as the default   *)
(* value `dflt` plus the function `arr` on the positions that differ from  *)
(* it (so that len = 4096 costs nothing).  The representation is NOT part  *)
(* of the state: the specification only says which wire forms are valid    *)
(* paletted containers (WireValid) and which array such a form denotes     *)
(* (WireVal); any valid form denoting the array is accepted.               *)
(***************************************************************************)
EXTENDS BitPack, TLC, Json

CONSTANTS Kinds,          \* kinds the generator starts from, subset of {"blocks", "biomes"}
          RegBitsBlocks,  \* bits of a direct block-state id (15 for the pinned registry)
          RegBitsBiomes,  \* bits of a direct biome id (6)
          PrefillBlocks, PrefillBiomes,    \* sets of k0: the generator starts from k0 + 1 distinct values
          LenSel,         \* "tight": len = k0 + 3 (dense checks affordable) ; "real": 4096 / 64
          SaveLensBlocks, SaveLensBiomes   \* palette lengths the generator uses for containers built from save data

VARIABLES kind, len, dflt, arr, act, k0
vars == <<kind, len, dflt, arr, act, k0>>

AtIn(a, d, p) == IF p \in DOMAIN a THEN a[p] ELSE d
At(p) == AtIn(arr, dflt, p)
Put(a, d, p, v) == IF v = d THEN [q \in DOMAIN a \ {p} |-> a[q]]
                   ELSE [q \in DOMAIN a \cup {p} |-> IF q = p THEN v ELSE a[q]]
InPos(p) == p >= 0 /\ p <= len - 1
Distinct == {arr[p] : p \in DOMAIN arr} \cup (IF Cardinality(DOMAIN arr) < len THEN {dflt} ELSE {})

\* ---------------------------------------------------------------- the protocol's paletted container
RegBits(k) == IF k = "blocks" THEN RegBitsBlocks ELSE RegBitsBiomes
MaxIndirect(k) == IF k = "blocks" THEN 8 ELSE 3
EffBits(k, bpe) == IF bpe = 0 THEN 0
                   ELSE IF bpe > MaxIndirect(k) THEN RegBits(k)
                   ELSE IF k = "blocks" /\ bpe < 4 THEN 4 ELSE bpe
Mode(k, bpe) == IF bpe = 0 THEN "single" ELSE IF bpe <= MaxIndirect(k) THEN "indirect" ELSE "direct"
ValidId(k, v) == v >= 0 /\ v < 2^RegBits(k)

(* w = [bpe, bits, pal, nlongs, idx]: bits-per-entry byte, the width the reader used to cut the longs,
   the palette entries, the number of longs, the len entries read out of the longs (none if single) *)
WireValid(k, n, w) ==
  /\ w.bpe \in 0..255
  /\ w.bits = EffBits(k, w.bpe)
  /\ w.nlongs = CalcSize(w.bits, n)
  /\ LET m == Mode(k, w.bpe) IN
     /\ m = "single" => Len(w.pal) = 1 /\ Len(w.idx) = 0
     /\ m = "indirect" => Len(w.idx) = n /\ \A q \in 1..n : w.idx[q] >= 0 /\ w.idx[q] < Len(w.pal)
     /\ m = "direct" => Len(w.pal) = 0 /\ Len(w.idx) = n
WireVal(k, w, p) == LET m == Mode(k, w.bpe) IN
                    IF m = "single" THEN w.pal[1]
                    ELSE IF m = "indirect" THEN w.pal[w.idx[p + 1] + 1]
                    ELSE w.idx[p + 1]
RECURSIVE SumVarIntLen(_, _)
SumVarIntLen(s, j) == IF j > Len(s) THEN 0 ELSE VarIntLen(s[j]) + SumVarIntLen(s, j + 1)
PalBytes(k, w) == LET m == Mode(k, w.bpe) IN
                  IF m = "single" THEN VarIntLen(w.pal[1])
                  ELSE IF m = "indirect" THEN VarIntLen(Len(w.pal)) + SumVarIntLen(w.pal, 1)
                  ELSE 0
WireBytes(k, w) == 1 + PalBytes(k, w) + VarIntLen(w.nlongs) + 8 * w.nlongs

(* one canonical encoding per bits-per-entry value: used to show that the validity predicate admits
   every representation that is wide enough and that decoding inverts it *)
RECURSIVE AscSeq(_)
AscSeq(S) == IF S = {} THEN <<>> ELSE LET m == CHOOSE x \in S : \A y \in S : x <= y IN <<m>> \o AscSeq(S \ {m})
IndexIn(s, v) == CHOOSE j \in 1..Len(s) : s[j] = v
Fits(k, bpe) == LET m == Mode(k, bpe) IN
                IF m = "single" THEN Cardinality(Distinct) = 1
                ELSE IF m = "indirect" THEN Cardinality(Distinct) <= 2^EffBits(k, bpe)
                ELSE \A v \in Distinct : ValidId(k, v)
Canon(k, bpe) == LET m == Mode(k, bpe)
                     pal == IF m = "direct" THEN <<>> ELSE AscSeq(Distinct)
                 IN [bpe |-> bpe, bits |-> EffBits(k, bpe), pal |-> pal, nlongs |-> CalcSize(EffBits(k, bpe), len),
                     idx |-> IF m = "single" THEN <<>>
                             ELSE [q \in 1..len |-> IF m = "direct" THEN At(q - 1) ELSE IndexIn(pal, At(q - 1)) - 1]]

(* save data: a palette of distinct ids and one palette index per position, packed at the width the
   palette length dictates; only the widths whose reading coincides with the wire reading are specified *)
RECURSIVE CeilLog2(_)
CeilLog2(x) == IF x <= 1 THEN 0 ELSE 1 + CeilLog2((x + 1) \div 2)
SaveBits(k, L) == IF L = 1 THEN 0 ELSE IF k = "blocks" /\ CeilLog2(L) < 4 THEN 4 ELSE CeilLog2(L)
SaveOK(k, L) == L >= 1 /\ SaveBits(k, L) <= MaxIndirect(k)

\* ---------------------------------------------------------------- calls
Act(op, p, v, ret, t, pal) == [op |-> op, p |-> p, v |-> v, ret |-> ret, t |-> t, pal |-> pal]

Set(p, v) ==
  /\ InPos(p) /\ ValidId(kind, v)
  /\ arr' = Put(arr, dflt, p, v)
  /\ act' = Act("set", p, v, 0, "", <<>>)
  /\ UNCHANGED <<kind, len, dflt, k0>>

Get(p) ==
  /\ InPos(p)
  /\ act' = Act("get", p, 0, At(p), "", <<>>)
  /\ UNCHANGED <<kind, len, dflt, arr, k0>>

(* WriteTo, then ReadFrom into a container of the same kind and length that was used before as class t
   says; the array is the same afterwards, and the history continues on the container that was read *)
Wire(t) ==
  /\ act' = Act("wire", 0, 0, 0, t, <<>>)
  /\ UNCHANGED <<kind, len, dflt, arr, k0>>

(* a container built from saved palette + index data *)
FromSave(pal, idx) ==
  /\ SaveOK(kind, Len(pal)) /\ Len(idx) = len
  /\ Cardinality({pal[j] : j \in 1..Len(pal)}) = Len(pal)          \* distinct entries
  /\ LET val(q) == pal[idx[q + 1] + 1]
         d == val(0) IN
     /\ dflt' = d
     /\ arr' = [p \in {q \in 0..(len - 1) : val(q) # d} |-> val(p)]
  /\ act' = Act("fromsave", 0, 0, 0, "", pal)
  /\ UNCHANGED <<kind, len, k0>>

\* ---------------------------------------------------------------- generator shape
NewIds(k) == IF k = "blocks" THEN {2001, 2002, 2003} ELSE {41, 42, 43}
PalBase(k) == IF k = "blocks" THEN 1000 ELSE 50
GenPos == {0, k0, k0 + 1, len - 1}
GenIds == NewIds(kind) \cup {dflt, At(0)}
Targets == {"fresh", "one", "few", "many", "huge"}
Prefill(k) == IF k = "blocks" THEN PrefillBlocks ELSE PrefillBiomes
SaveLens(k) == IF k = "blocks" THEN SaveLensBlocks ELSE SaveLensBiomes

Init == /\ kind \in Kinds /\ k0 \in Prefill(kind)
        /\ len = (IF LenSel = "tight" THEN k0 + 3 ELSE IF kind = "blocks" THEN 4096 ELSE 64)
        /\ dflt = 0 /\ arr = [p \in 0..(k0 - 1) |-> p + 1]
        /\ act = Act("new", 0, 0, 0, "", <<>>)

Next == \/ \E p \in GenPos, v \in GenIds : Set(p, v)
        \/ \E p \in GenPos : Get(p)
        \/ \E t \in Targets : Wire(t)
        \/ \E L \in SaveLens(kind) :
             FromSave([j \in 1..L |-> PalBase(kind) + j], [q \in 1..len |-> IF q - 1 < 2 * L THEN (q - 1) % L ELSE 0])
Spec == Init /\ [][Next]_vars

\* ---------------------------------------------------------------- properties
TypeOK == /\ kind \in {"blocks", "biomes"} /\ len >= 1 /\ ValidId(kind, dflt)
          /\ \A p \in DOMAIN arr : InPos(p) /\ ValidId(kind, arr[p]) /\ arr[p] # dflt
Frame == [][\A q \in DOMAIN arr \cup DOMAIN arr' :
              (act'.op # "fromsave" /\ q # act'.p) => AtIn(arr', dflt', q) = At(q)]_vars
Results == [][/\ act'.op = "get" => (act'.ret = At(act'.p) /\ arr' = arr /\ dflt' = dflt)
              /\ act'.op = "set" => AtIn(arr', dflt', act'.p) = act'.v
              /\ act'.op = "wire" => (arr' = arr /\ dflt' = dflt)]_vars
(* every representation that is wide enough has a valid wire form, and reading it gives the array back *)
CanonOK == \A bpe \in 0..(MaxIndirect(kind) + 1) :
             Fits(kind, bpe) => LET w == Canon(kind, bpe) IN
                                /\ WireValid(kind, len, w)
                                /\ \A p \in 0..(len - 1) : WireVal(kind, w, p) = At(p)
SomeFits == \E bpe \in 0..(MaxIndirect(kind) + 1) : Fits(kind, bpe)
(* the widths of the protocol table *)
BitsTable == /\ \A bpe \in 0..255 : EffBits("blocks", bpe) = (CASE bpe = 0 -> 0 [] bpe \in 1..4 -> 4 [] bpe \in 5..8 -> bpe [] OTHER -> RegBitsBlocks)
             /\ \A bpe \in 0..255 : EffBits("biomes", bpe) = (CASE bpe = 0 -> 0 [] bpe \in 1..3 -> bpe [] OTHER -> RegBitsBiomes)
             /\ \A L \in 1..256 : SaveOK("blocks", L) /\ (L >= 2 => 2^SaveBits("blocks", L) >= L /\ (SaveBits("blocks", L) > 4 => 2^(SaveBits("blocks", L) - 1) < L))
             /\ \A L \in 1..8 : SaveOK("biomes", L) /\ (L >= 2 => 2^SaveBits("biomes", L) >= L /\ 2^(SaveBits("biomes", L) - 1) < L)
             /\ ~SaveOK("blocks", 257) /\ ~SaveOK("biomes", 9)
ASSUME BitsTable
View == <<kind, len, dflt, arr, k0>>
=============================================================================
