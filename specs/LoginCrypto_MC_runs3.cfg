SPECIFICATION Spec
CONSTANTS
  Alphabet = {0, 1, 15, 16, 127, 128, 255}
  ShortMax = 1
  LongLen = 20
  EndMax = 2
  MidRuns = 3
  EmitJson = TRUE
INVARIANTS TypeOK Agree AgreeInt WellFormed ReadBack UuidShape Emit
CHECK_DEADLOCK FALSE
