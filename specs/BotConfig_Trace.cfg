SPECIFICATION TraceSpec
CONSTANTS
  Ids = {}
  Keys = {}
  Pays = {}
  Uuids = {}
  RpToks = {}
  StackMax = 0
  KnownRegs = {1, 2, 3, 4, 5, 6, 7, 8, 9, 10, 11}
  Regs = {}
  RKeys = {}
  TagToks = {}
  MaxEnt = 0
  MaxSecs = 0
  FeatLists = {}
  PackLists = {}
  DetailLists = {}
  UnknownIds = {}
  Handlers = {}
  LateKinds = {}
  LateMax = 0
  Variant = "intent"
INVARIANTS Check
CHECK_DEADLOCK FALSE
