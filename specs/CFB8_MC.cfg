SPECIFICATION Spec
CONSTANTS
  BS = 2
  Keys = {3}
  IVs <- MCIVs
  Msgs <- MCMsgs
  Lens <- MCLens
  MaxCalls = 4
  EmitJson = TRUE
INVARIANTS TypeOK SplitInvariance RegIsWindow RoundTrip Emit
CHECK_DEADLOCK FALSE
