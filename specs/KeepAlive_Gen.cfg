SPECIFICATION GenSpec
CONSTANTS
  Players = {1, 2, 3}
  P = 2
  W = 4
  MaxId = 1000000
  Variant = "code"
  AsyncChan = TRUE
  Urgent = TRUE
CHECK_DEADLOCK FALSE
