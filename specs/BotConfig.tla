------------------------------- MODULE BotConfig -------------------------------
(***************************************************************************)
(* X11 (specification extension): the bot's configuration stage            *)
(* (bot/configuration.go: Client.joinConfiguration, ConfigHandler,         *)
(* DefaultConfigHandler) and the routing of REGISTRY_DATA / UPDATE_TAGS    *)
(* packets to the registries of registry.Registries (registry/codec.go).   *)
(* The content of ONE registry is specs/Registry.tla (X02); its network    *)
(* operators (MsgVals, MsgKeys, ApplyTags, BadAt) are instantiated here.   *)
(*                                                                         *)
(* joinConfiguration is a loop on the connection: read a packet, handle    *)
(* it, maybe answer, until FinishConfiguration / Disconnect / an error.    *)
(* The machine has one action per clientbound configuration packet (the    *)
(* server writes it to the socket), plus:                                  *)
(*   join     the client calls joinConfiguration (the loop starts and      *)
(*            first consumes what is already waiting on the socket)        *)
(*   eof      the server closes its side                                   *)
(*   hpush / hpop / hpopall   calls on the DefaultConfigHandler            *)
(*   mkcookies, setwfail      environment: the user makes Client.Cookies,  *)
(*            the socket starts / stops refusing writes                    *)
(*                                                                         *)
(* Abstract state (one record `s`, everything projectable):                *)
(*   run      joinConfiguration is running (has not returned)              *)
(*   inq      packets written by the server and not yet read by the        *)
(*            client (bytes waiting on the socket, cut into frames)        *)
(*   packs    DefaultConfigHandler's resource packs, oldest first, each    *)
(*            <<uuid, url, hash, forced, prompt>> (prompt 0 = none)        *)
(*   feats    the list last given to ConfigHandler.EnableFeature           *)
(*   offered  the list last given to ConfigHandler.SelectDataPacks         *)
(*   cookies / cinit   Client.Cookies and whether the map exists           *)
(*   regs     registry id -> [vals, keys, tags] (Registry.tla) for the     *)
(*            registries the client keeps (KnownRegs)                      *)
(*   details  Client.CustomReportDetails                                   *)
(*   wfail    the socket refuses writes;  eof  the server closed           *)
(*   h        the ConfigHandler the user installed: rec = a recording      *)
(*            wrapper around DefaultConfigHandler (its calls are seen as   *)
(*            events and SelectDataPacks answers the offered packs it      *)
(*            `known`s); ~rec = the plain DefaultConfigHandler             *)
(*                                                                         *)
(* Result of one action: Res(s, evs, out, ret, pan, nh)                    *)
(*   evs  ConfigHandler calls seen by the recording handler, in order      *)
(*   out  serverbound packets written to the socket, in order              *)
(*   ret  what joinConfiguration returned in this step: <<"none", 0>> (it  *)
(*        did not return), <<"ok", 0>>, <<"disconnect", reason>>,          *)
(*        <<"unknownreg", r>>, <<"unknownid", id>>, <<"badtag", 0>>,       *)
(*        <<"io", 0>> (socket error: refused write, EOF)                   *)
(*   pan  the loop panicked                                                *)
(*   nh   number of packets taken from the socket in this step             *)
(*                                                                         *)
(* Two layers: Step(FALSE, ..) the INTENT, Step(TRUE, ..) the loop AS      *)
(* CODED; Class names the packets on which they part:                      *)
(*   PopIgnored         RESOURCE_PACK_POP is decoded and dropped: neither  *)
(*                      PopResourcePack nor PopAllResourcePack is called   *)
(*   PushNoStatus       RESOURCE_PACK_PUSH is handed to the handler but no *)
(*                      ServerboundResourcePack status is ever sent (the   *)
(*                      handler has no way to send it either); a vanilla   *)
(*                      server waits for it before it finishes the stage   *)
(*   StoreCookieNilMap  STORE_COOKIE on a client made by NewClient: the    *)
(*                      Cookies map is nil, the assignment panics          *)
(*   EmptyCookie        a cookie stored with an empty payload is answered  *)
(*                      as absent                                          *)
(*   UnknownPacketId    a packet id outside the table is skipped silently  *)
(*                      (intent: an error that names the id)               *)
(*   RegistryNoData     REGISTRY_DATA entries without data are skipped,    *)
(*                      later entries get smaller ids (X02 ReadFromNoData) *)
(* Following the code elsewhere (deliberate): TRANSFER, RESET_CHAT,        *)
(* SERVER_LINKS and CUSTOM_PAYLOAD are read and dropped; CUSTOM_REPORT_    *)
(* DETAILS are merged into the map; REGISTRY_DATA for a registry the       *)
(* client does not keep ends the stage with an error naming it, while      *)
(* UPDATE_TAGS sections for such registries are skipped; an UPDATE_TAGS    *)
(* with an id outside the registry ends the stage, the tags in front of    *)
(* the offending one stay bound.                                           *)
(***************************************************************************)
EXTENDS Integers, Sequences, FiniteSets, TLC

CONSTANTS Ids,                         \* keep-alive / ping ids, disconnect reasons
          Keys, Pays,                  \* cookie keys and payload tokens (0 = empty payload)
          Uuids, RpToks, StackMax,     \* resource packs: ids, templates (RpOf), generator bound on the stack
          KnownRegs, Regs,             \* registries the client keeps / named in packets
          RKeys, TagToks, MaxEnt, MaxSecs,   \* entry keys, tags, entries per REGISTRY_DATA, sections per UPDATE_TAGS
          FeatLists, PackLists, DetailLists, \* generator universes (MC_* below)
          UnknownIds,                  \* packet ids outside the table
          Handlers,                    \* handler set-ups offered in Init
          LateKinds, LateMax,          \* generator: packets offered while the loop is not running, and how many
          Variant                      \* "intent" | "code" | "broken"

Code == Variant = "code"
Broken == Variant = "broken"           \* vacuity guard: FinishConfiguration is acknowledged but the loop goes on

VARIABLES s, act
vars == <<s, act>>

(* the network operators of one registry (X02) *)
R == INSTANCE Registry WITH Keys <- RKeys, Vals <- {}, Tags <- TagToks, MaxN <- 0, MaxMsg <- 0, MaxOps <- 0,
                            vals <- <<>>, keys <- <<>>, tags <- <<>>, last <- <<>>, act <- 0, nops <- 0

\* ---------------------------------------------------------------- values
MC_Handlers == {[rec |-> FALSE, known |-> {}], [rec |-> TRUE, known |-> {1}]}
MC_Handlers0 == {[rec |-> FALSE, known |-> {}]}
MC_HandlersT == {[rec |-> FALSE, known |-> {}], [rec |-> TRUE, known |-> {}], [rec |-> TRUE, known |-> {1, 3}]}
MC_FeatLists == {<<>>, <<2, 1>>}
MC_PackLists == {<<>>, <<2, 1>>, <<1, 3, 1>>}
MC_PackListsQ == {<<>>, <<2, 1>>}
MC_DetailLists == {<<>>, <<<<1, 1>>>>, <<<<1, 2>>, <<2, 1>>>>}
None == <<"none", 0>>

Bind(f, x, v) == [y \in DOMAIN f \cup {x} |-> IF y = x THEN v ELSE f[y]]
RpOf(u, t) == <<u, 100 + t, 200 + t, t % 2, IF t % 3 = 0 THEN 0 ELSE 300 + t>>
EmptyReg == [vals |-> <<>>, keys |-> <<>>, tags |-> <<>>]

P(k, n, key, pay, u, t, r, m, secs, l, ld) ==
  [k |-> k, n |-> n, key |-> key, pay |-> pay, u |-> u, t |-> t, r |-> r, m |-> m, secs |-> secs, l |-> l, ld |-> ld]
P0(k, n) == P(k, n, 0, 0, 0, 0, 0, <<>>, <<>>, <<>>, <<>>)
Ev(name, args) == <<name, args>>
Out(kind, args) == <<kind, args>>
Res(st, evs, out, ret, pan, nh) == [s |-> st, evs |-> evs, out |-> out, ret |-> ret, pan |-> pan, nh |-> nh]
Fx(st, evs, out, ret, pan) == [s |-> st, evs |-> evs, out |-> out, ret |-> ret, pan |-> pan]

Fresh(h) == [run |-> FALSE, inq |-> <<>>, packs |-> <<>>, feats |-> <<>>, offered |-> <<>>, cookies |-> <<>>, cinit |-> FALSE,
             regs |-> [r \in KnownRegs |-> EmptyReg], details |-> <<>>, wfail |-> FALSE, eof |-> FALSE, h |-> h]

PacketKinds == {"cookiereq", "payload", "disconnect", "finish", "keepalive", "ping", "resetchat", "regdata", "rppop", "rppush",
                "cookiestore", "transfer", "features", "tags", "select", "details", "links", "unknown"}
CallKinds == {"join", "eof", "hpush", "hpop", "hpopall"}
EnvKinds == {"mkcookies", "setwfail"}
IsPacket(p) == p.k \in PacketKinds

\* ---------------------------------------------------------------- pieces
Known(r) == r \in KnownRegs
(* the registry a REGISTRY_DATA body describes; the code skips entries without data *)
FromMsg(code, m) == LET mm == IF code THEN SelectSeq(m, LAMBDA e : e[2]) ELSE m IN
                    [vals |-> R!MsgVals(mm), keys |-> R!MsgKeys(mm), tags |-> <<>>]
(* UPDATE_TAGS: sections <<registry, tag message>> applied in order; a section of a registry the client does not keep is *)
(* skipped; an id outside the row ends the packet, the tags in front of the offending one are bound                      *)
RECURSIVE ApplySecs(_, _, _)
ApplySecs(rg, secs, i) ==
  IF i > Len(secs) THEN [regs |-> rg, bad |-> FALSE]
  ELSE LET r == secs[i][1]
           tm == secs[i][2] IN
       IF ~Known(r) THEN ApplySecs(rg, secs, i + 1)
       ELSE LET bad == R!BadAt(Len(rg[r].vals), tm) IN
            IF bad = 0 THEN ApplySecs([rg EXCEPT ![r].tags = R!Norm(R!ApplyTags(@, tm))], secs, i + 1)
            ELSE [regs |-> [rg EXCEPT ![r].tags = R!Norm(R!ApplyTags(@, SubSeq(tm, 1, bad - 1)))], bad |-> TRUE]
(* the resource packs without the first one that carries the id *)
HasPack(ps, u) == \E i \in 1..Len(ps) : ps[i][1] = u
FirstPack(ps, u) == CHOOSE i \in 1..Len(ps) : ps[i][1] = u /\ \A j \in 1..(i - 1) : ps[j][1] # u
DropPack(ps, u) == IF HasPack(ps, u) THEN LET i == FirstPack(ps, u) IN SubSeq(ps, 1, i - 1) \o SubSeq(ps, i + 1, Len(ps)) ELSE ps
RECURSIVE Merge(_, _)
Merge(f, l) == IF l = <<>> THEN f ELSE Merge(Bind(f, l[1][1], l[1][2]), Tail(l))
SelectReply(h, l) == IF h.rec THEN SelectSeq(l, LAMBDA x : x \in h.known) ELSE <<>>

\* ---------------------------------------------------------------- the loop body: one packet taken from the socket
Go(st, evs, out) == Fx(st, evs, out, None, FALSE)
End(st, evs, out, ret) == Fx([st EXCEPT !.run = FALSE], evs, out, ret, FALSE)
Write(st, evs, pkts) == IF st.wfail THEN End(st, evs, <<>>, <<"io", 0>>) ELSE Go(st, evs, pkts)
HEv(st, e) == IF st.h.rec THEN <<e>> ELSE <<>>

Handle(code, st, p) ==
  CASE p.k = "cookiereq" ->
         LET has == p.key \in DOMAIN st.cookies /\ (code => st.cookies[p.key] # 0) IN
         Write(st, <<>>, <<Out("cookie", <<p.key, IF has THEN 1 ELSE 0, IF has THEN st.cookies[p.key] ELSE -1>>)>>)
    [] p.k = "cookiestore" ->
         IF code /\ ~st.cinit THEN Fx([st EXCEPT !.run = FALSE], <<>>, <<>>, None, TRUE)
         ELSE Go([st EXCEPT !.cookies = Bind(@, p.key, p.pay), !.cinit = TRUE], <<>>, <<>>)
    [] p.k = "disconnect" -> End(st, <<>>, <<>>, <<"disconnect", p.n>>)
    [] p.k = "finish" ->
         IF st.wfail THEN End(st, <<>>, <<>>, <<"io", 0>>)
         ELSE IF Broken THEN Go(st, <<>>, <<Out("finish", <<>>)>>)
         ELSE End(st, <<>>, <<Out("finish", <<>>)>>, <<"ok", 0>>)
    [] p.k = "keepalive" -> Write(st, <<>>, <<Out("keepalive", <<p.n>>)>>)
    [] p.k = "ping" -> Write(st, <<>>, <<Out("pong", <<p.n>>)>>)
    [] p.k = "regdata" ->
         IF Known(p.r) THEN Go([st EXCEPT !.regs[p.r] = FromMsg(code, p.m)], <<>>, <<>>)
         ELSE End(st, <<>>, <<>>, <<"unknownreg", p.r>>)
    [] p.k = "tags" ->
         LET a == ApplySecs(st.regs, p.secs, 1)
             s1 == [st EXCEPT !.regs = a.regs] IN
         IF a.bad THEN End(s1, <<>>, <<>>, <<"badtag", 0>>) ELSE Go(s1, <<>>, <<>>)
    [] p.k = "rppush" ->
         LET pack == RpOf(p.u, p.t)
             s1 == [st EXCEPT !.packs = Append(@, pack)] IN
         IF code THEN Go(s1, HEv(st, Ev("push", pack)), <<>>)
         ELSE Write(s1, HEv(st, Ev("push", pack)), <<Out("rpstatus", <<p.u>>)>>)
    [] p.k = "rppop" ->
         IF code THEN Go(st, <<>>, <<>>)
         ELSE IF p.u = 0 THEN Go([st EXCEPT !.packs = <<>>], HEv(st, Ev("popall", <<>>)), <<>>)
         ELSE Go([st EXCEPT !.packs = DropPack(@, p.u)], HEv(st, Ev("pop", <<p.u>>)), <<>>)
    [] p.k = "features" -> Go(IF st.h.rec THEN [st EXCEPT !.feats = p.l] ELSE st, HEv(st, Ev("features", p.l)), <<>>)
    [] p.k = "select" ->
         Write(IF st.h.rec THEN [st EXCEPT !.offered = p.l] ELSE st, HEv(st, Ev("select", p.l)), <<Out("select", SelectReply(st.h, p.l))>>)
    [] p.k = "details" -> Go([st EXCEPT !.details = Merge(@, p.ld)], <<>>, <<>>)
    [] p.k = "unknown" -> IF code THEN Go(st, <<>>, <<>>) ELSE End(st, <<>>, <<>>, <<"unknownid", p.n>>)
    [] OTHER -> Go(st, <<>>, <<>>)       \* payload, resetchat, transfer, links: read and dropped

(* the running loop takes packets from the socket until it returns or nothing is waiting; an empty socket the server *)
(* has closed is a read error                                                                                       *)
RECURSIVE Drain(_, _)
Drain(code, r) ==
  IF r.s.inq = <<>> THEN (IF r.s.eof THEN Res([r.s EXCEPT !.run = FALSE], r.evs, r.out, <<"io", 0>>, FALSE, r.nh) ELSE r)
  ELSE LET f == Handle(code, [r.s EXCEPT !.inq = Tail(@)], Head(r.s.inq))
           r2 == Res(f.s, r.evs \o f.evs, r.out \o f.out, f.ret, f.pan, r.nh + 1) IN
       IF f.ret # None \/ f.pan THEN r2 ELSE Drain(code, r2)

Quiet(st) == Res(st, <<>>, <<>>, None, FALSE, 0)
Loop(code, st) == IF st.run THEN Drain(code, Quiet(st)) ELSE Quiet(st)

\* ---------------------------------------------------------------- one step
Step(code, s0, p) ==
  IF IsPacket(p) THEN (IF s0.eof THEN Quiet(s0) ELSE Loop(code, [s0 EXCEPT !.inq = Append(@, p)]))
  ELSE CASE p.k = "join" -> IF s0.run THEN Quiet(s0) ELSE Loop(code, [s0 EXCEPT !.run = TRUE])
         [] p.k = "eof" -> IF s0.eof THEN Quiet(s0) ELSE Loop(code, [s0 EXCEPT !.eof = TRUE])
         \* calls on the DefaultConfigHandler (not through the recording wrapper)
         [] p.k = "hpush" -> Quiet([s0 EXCEPT !.packs = Append(@, RpOf(p.u, p.t))])
         [] p.k = "hpop" -> Quiet([s0 EXCEPT !.packs = DropPack(@, p.u)])
         [] p.k = "hpopall" -> Quiet([s0 EXCEPT !.packs = <<>>])
         \* the environment
         [] p.k = "mkcookies" -> Quiet([s0 EXCEPT !.cinit = TRUE])
         [] p.k = "setwfail" -> Quiet([s0 EXCEPT !.wfail = (p.n = 1)])
         [] OTHER -> Quiet(s0)

PotClass(p) == \/ p.k \in {"rppop", "rppush", "unknown", "cookiestore", "cookiereq"}
               \/ (p.k = "regdata" /\ ~R!AllData(p.m))
Class(s0, p) ==
  IF IsPacket(p) THEN
    IF ~s0.run \/ s0.eof THEN "none"
    ELSE IF p.k = "rppop" THEN "PopIgnored"
    ELSE IF p.k = "rppush" THEN "PushNoStatus"
    ELSE IF p.k = "cookiestore" /\ ~s0.cinit THEN "StoreCookieNilMap"
    ELSE IF p.k = "cookiereq" /\ p.key \in DOMAIN s0.cookies /\ s0.cookies[p.key] = 0 /\ ~s0.wfail THEN "EmptyCookie"
    ELSE IF p.k = "unknown" THEN "UnknownPacketId"
    ELSE IF p.k = "regdata" /\ Known(p.r) /\ ~R!AllData(p.m) THEN "RegistryNoData"
    ELSE "none"
  ELSE IF p.k = "join" /\ ~s0.run /\ (\E i \in 1..Len(s0.inq) : PotClass(s0.inq[i])) THEN "Mixed"
  ELSE "none"

\* ---------------------------------------------------------------- the machine
SeqsUpTo(S, n) == UNION {[1..k -> S] : k \in 0..n}
Entries == {<<k, TRUE, 10 + k>> : k \in RKeys} \cup {<<k, FALSE, 0>> : k \in RKeys}
Msgs == SeqsUpTo(Entries, MaxEnt)
TagMsgs == SeqsUpTo({<<t, ids>> : t \in TagToks, ids \in {<<>>, <<0>>, <<1, 0>>}}, 1)
TagPackets == SeqsUpTo({<<r, tm>> : r \in Regs, tm \in TagMsgs}, MaxSecs)

Some(Q(_)) ==
  \/ \E k \in {"keepalive", "ping", "disconnect"}, n \in Ids : Q(P0(k, n))
  \/ \E k \in {"finish", "resetchat", "links", "payload", "transfer"} : Q(P0(k, 0))
  \/ \E key \in Keys : Q(P("cookiereq", 0, key, 0, 0, 0, 0, <<>>, <<>>, <<>>, <<>>))
  \/ \E key \in Keys, pay \in Pays : Q(P("cookiestore", 0, key, pay, 0, 0, 0, <<>>, <<>>, <<>>, <<>>))
  \/ \E u \in Uuids \cup {0} : Uuids # {} /\ Q(P("rppop", 0, 0, 0, u, 0, 0, <<>>, <<>>, <<>>, <<>>))
  \/ \E u \in Uuids, t \in RpToks : Q(P("rppush", 0, 0, 0, u, t, 0, <<>>, <<>>, <<>>, <<>>))
  \/ \E r \in Regs, m \in Msgs : Q(P("regdata", 0, 0, 0, 0, 0, r, m, <<>>, <<>>, <<>>))
  \/ \E secs \in TagPackets : Regs # {} /\ Q(P("tags", 0, 0, 0, 0, 0, 0, <<>>, secs, <<>>, <<>>))
  \/ \E l \in FeatLists : Q(P("features", 0, 0, 0, 0, 0, 0, <<>>, <<>>, l, <<>>))
  \/ \E l \in PackLists : Q(P("select", 0, 0, 0, 0, 0, 0, <<>>, <<>>, l, <<>>))
  \/ \E ld \in DetailLists : Q(P("details", 0, 0, 0, 0, 0, 0, <<>>, <<>>, <<>>, ld))
  \/ \E n \in UnknownIds : Q(P0("unknown", n))
  \/ Q(P0("join", 0)) \/ Q(P0("eof", 0))
  \/ \E u \in Uuids, t \in RpToks : Q(P("hpush", 0, 0, 0, u, t, 0, <<>>, <<>>, <<>>, <<>>))
  \/ \E u \in Uuids : Q(P("hpop", 0, 0, 0, u, 0, 0, <<>>, <<>>, <<>>, <<>>))
  \/ (Uuids # {} /\ Q(P0("hpopall", 0)))
  \/ (Keys # {} /\ Q(P0("mkcookies", 0)))
  \/ \E b \in {0, 1} : Q(P0("setwfail", b))
All(Q(_)) == ~Some(LAMBDA p : ~Q(p))

(* what the generator offers: while the loop is not running only a few kinds of packets, and only LateMax of them, are *)
(* left on the socket; nothing is written to a closed socket; the stack stays small; refused writes and the server's   *)
(* close are explored in the universes that have keep-alive / ping packets                                              *)
Offered(p) == /\ IsPacket(p) => (~s.eof /\ (s.run \/ (p.k \in LateKinds /\ Len(s.inq) < LateMax)))
              /\ p.k \in {"rppush", "hpush"} => Len(s.packs) < StackMax
              /\ p.k = "join" => ~s.run
              /\ p.k = "eof" => ~s.eof
              /\ p.k \in {"eof", "setwfail"} => Ids # {}        \* a universe without echo packets leaves the socket's failures out

Do(p) == LET r == Step(Code, s, p) IN
         /\ s' = r.s
         /\ act' = [p |-> p, evs |-> r.evs, out |-> r.out, ret |-> r.ret, pan |-> r.pan, nh |-> r.nh]
Init == /\ \E h \in Handlers : s = Fresh(h)
        /\ act = [p |-> P0("new", 0), evs |-> <<>>, out |-> <<>>, ret |-> None, pan |-> FALSE, nh |-> 0]
Next == Some(LAMBDA p : Offered(p) /\ Do(p))
Spec == Init /\ [][Next]_vars
View == s

\* ---------------------------------------------------------------- properties (of the intent)
TypeOK == /\ s.run \in BOOLEAN /\ s.cinit \in BOOLEAN /\ s.wfail \in BOOLEAN /\ s.eof \in BOOLEAN
          /\ DOMAIN s.cookies \subseteq Keys /\ (DOMAIN s.cookies # {} => s.cinit)
          /\ DOMAIN s.regs = KnownRegs
          /\ \A i \in 1..Len(s.packs) : s.packs[i][1] \in Uuids
          /\ (~s.h.rec => (s.feats = <<>> /\ s.offered = <<>>))
(* a running loop has read everything that was written; a loop does not survive the end of the stream *)
NothingWaiting == s.run => (s.inq = <<>> /\ ~s.eof)
(* every registry holds what Registry.tla calls a valid content: keys and tags name existing ids *)
RegsValid == \A r \in KnownRegs : LET g == s.regs[r] IN
               /\ \A k \in DOMAIN g.keys : R!InIds(Len(g.vals), g.keys[k])
               /\ \A t \in DOMAIN g.tags : \A i \in 1..Len(g.tags[t]) : R!InIds(Len(g.vals), g.tags[t][i])
Agree == All(LAMBDA p : Class(s, p) = "none" => Step(TRUE, s, p) = Step(FALSE, s, p))

Act == act'
IsK(ks) == Act.p.k \in ks
(* the packets this step took from the socket, in order *)
Handled == SubSeq(IF IsPacket(Act.p) /\ ~s.eof THEN Append(s.inq, Act.p) ELSE s.inq, 1, Act.nh)
(* a packet handled alone by a running loop (the common case: the loop waits, the server writes one packet) *)
Single(ks) == IsK(ks) /\ s.run
LastHandled == Handled[Act.nh]
Ended == Act.ret # None \/ Act.pan

(* the stage ends exactly when joinConfiguration returns or panics; it starts only by a call *)
EndRule == [][/\ (Ended => (~s'.run /\ (s.run \/ IsK({"join"}))))
              /\ ((s.run /\ ~Ended) => s'.run)
              /\ ((~s.run /\ s'.run) => IsK({"join"}))
              /\ ((~s.run /\ ~IsK({"join"})) => Act.nh = 0)]_vars
(* FinishConfiguration ends the stage exactly once: it is acknowledged by exactly one packet, the last one written, the call *)
(* returns nil, and nothing behind it is read                                                                              *)
FinishRule == [][/\ (Act.ret = <<"ok", 0>> <=> (Act.nh > 0 /\ LastHandled.k = "finish" /\ ~s.wfail))
                 /\ (Act.ret = <<"ok", 0>> => (Act.out # <<>> /\ Act.out[Len(Act.out)] = Out("finish", <<>>)))
                 /\ \A i \in 1..(Act.nh - 1) : Handled[i].k \notin {"finish", "disconnect"}
                 /\ Cardinality({i \in 1..Len(Act.out) : Act.out[i][1] = "finish"}) <= 1]_vars
(* packets written while no loop runs stay on the socket, untouched, in order: nothing is handled after the stage ended *)
NothingAfterEnd == [][(IsPacket(Act.p) /\ ~s.run /\ ~s.eof) =>
                        (s' = [s EXCEPT !.inq = Append(@, Act.p)] /\ Act.nh = 0 /\ Act.out = <<>> /\ Act.evs = <<>> /\ Act.ret = None)]_vars
QueueRule == [][LET q == IF IsPacket(Act.p) /\ ~s.eof THEN Append(s.inq, Act.p) ELSE s.inq IN
                s'.inq = SubSeq(q, Act.nh + 1, Len(q))]_vars
DisconnectRule == [][/\ (Act.nh > 0 /\ LastHandled.k = "disconnect") => Act.ret = <<"disconnect", LastHandled.n>>
                     /\ Act.ret[1] = "disconnect" => (Act.nh > 0 /\ LastHandled.k = "disconnect")]_vars
(* every request is answered exactly once, in the order of the requests, with the request's id (a refused write ends the stage: *)
(* the last answer is then missing); nothing else is written                                                                   *)
IsReq(p) == p.k \in {"keepalive", "ping", "cookiereq", "select", "finish", "rppush"}
AnsKey(p) == CASE p.k = "keepalive" -> <<"keepalive", p.n>> [] p.k = "ping" -> <<"pong", p.n>> [] p.k = "cookiereq" -> <<"cookie", p.key>>
               [] p.k = "select" -> <<"select", 0>> [] p.k = "finish" -> <<"finish", 0>> [] p.k = "rppush" -> <<"rpstatus", p.u>>
               [] OTHER -> <<"?", 0>>
OutKey(o) == <<o[1], IF o[1] \in {"keepalive", "pong", "cookie", "rpstatus"} THEN o[2][1] ELSE 0>>
AnsweredOnceInOrder ==
  [][LET reqs == SelectSeq(Handled, IsReq)
         want == [i \in 1..Len(reqs) |-> AnsKey(reqs[i])]
         got  == [i \in 1..Len(Act.out) |-> OutKey(Act.out[i])]
     IN \/ got = want
        \/ (s.wfail /\ Act.ret = <<"io", 0>> /\ want # <<>> /\ got = SubSeq(want, 1, Len(want) - 1))]_vars
EchoRule == [][Single({"keepalive", "ping"}) =>
                IF s.wfail THEN Act.out = <<>> /\ Act.ret = <<"io", 0>> /\ s' = [s EXCEPT !.run = FALSE]
                ELSE s' = s /\ Act.ret = None /\ Act.out = <<Out(IF Act.p.k = "keepalive" THEN "keepalive" ELSE "pong", <<Act.p.n>>)>>]_vars
CookieRule == [][(Single({"cookiereq"}) /\ ~s.wfail) =>
                  /\ s' = s
                  /\ Act.out = <<Out("cookie", IF Act.p.key \in DOMAIN s.cookies THEN <<Act.p.key, 1, s.cookies[Act.p.key]>> ELSE <<Act.p.key, 0, -1>>)>>]_vars
StoreRule == [][Single({"cookiestore"}) => s' = [s EXCEPT !.cookies = Bind(@, Act.p.key, Act.p.pay), !.cinit = TRUE] /\ Act.out = <<>>]_vars
UnknownIdRule == [][Single({"unknown"}) => (Act.ret = <<"unknownid", Act.p.n>> /\ s' = [s EXCEPT !.run = FALSE] /\ Act.out = <<>>)]_vars
(* REGISTRY_DATA: the registry named in the packet holds exactly the packet's entries (ids = positions, no tags), every other *)
(* registry is untouched; a registry the client does not keep ends the stage with an error that names it                      *)
RegistryRule == [][Single({"regdata"}) =>
                    IF Known(Act.p.r)
                    THEN /\ s'.regs[Act.p.r] = [vals |-> R!MsgVals(Act.p.m), keys |-> R!MsgKeys(Act.p.m), tags |-> <<>>]
                         /\ \A q \in KnownRegs \ {Act.p.r} : s'.regs[q] = s.regs[q]
                         /\ [s' EXCEPT !.regs = s.regs] = s /\ Act.ret = None
                    ELSE Act.ret = <<"unknownreg", Act.p.r>> /\ s' = [s EXCEPT !.run = FALSE]]_vars
(* UPDATE_TAGS: rows and keys never change; a registry no section names keeps its tags; without an invalid id the tags of a   *)
(* kept registry are what its sections say, applied in order, and sections of other registries are no error                   *)
RECURSIVE Mine(_, _)
Mine(secs, r) == IF secs = <<>> THEN <<>> ELSE (IF secs[1][1] = r THEN secs[1][2] ELSE <<>>) \o Mine(Tail(secs), r)
TagsRule == [][Single({"tags"}) =>
                /\ \A r \in KnownRegs : /\ s'.regs[r].vals = s.regs[r].vals /\ s'.regs[r].keys = s.regs[r].keys
                                        /\ (Mine(Act.p.secs, r) = <<>> => s'.regs[r].tags = s.regs[r].tags)
                /\ [s' EXCEPT !.regs = s.regs, !.run = s.run] = s
                /\ IF \A r \in KnownRegs : R!BadAt(Len(s.regs[r].vals), Mine(Act.p.secs, r)) = 0
                   THEN /\ Act.ret = None
                        /\ \A r \in KnownRegs : s'.regs[r].tags = R!Norm(R!ApplyTags(s.regs[r].tags, Mine(Act.p.secs, r)))
                   ELSE Act.ret = <<"badtag", 0>>]_vars
(* resource packs are a stack keyed by uuid: push appends; pop(uuid) removes exactly the oldest pack with that id and keeps   *)
(* the order of the others; pop without id empties the stack; the handler is told                                             *)
PushRule == [][(Single({"rppush"}) \/ IsK({"hpush"})) => s'.packs = Append(s.packs, RpOf(Act.p.u, Act.p.t))]_vars
PopRule == [][((Single({"rppop"}) /\ Act.p.u # 0) \/ IsK({"hpop"})) =>
                IF HasPack(s.packs, Act.p.u)
                THEN \E i \in 1..Len(s.packs) : /\ s.packs[i][1] = Act.p.u /\ \A j \in 1..(i - 1) : s.packs[j][1] # Act.p.u
                                                 /\ s'.packs = SubSeq(s.packs, 1, i - 1) \o SubSeq(s.packs, i + 1, Len(s.packs))
                ELSE s'.packs = s.packs]_vars
PopAllRule == [][((Single({"rppop"}) /\ Act.p.u = 0) \/ IsK({"hpopall"})) => s'.packs = <<>>]_vars
HandlerRule == [][/\ (~s.h.rec => Act.evs = <<>>)
                  /\ ((s.h.rec /\ Single({"rppush"})) => Act.evs = <<Ev("push", RpOf(Act.p.u, Act.p.t))>>)
                  /\ ((s.h.rec /\ Single({"rppop"})) => Act.evs = <<IF Act.p.u = 0 THEN Ev("popall", <<>>) ELSE Ev("pop", <<Act.p.u>>)>>)
                  /\ ((s.h.rec /\ Single({"features"})) => (Act.evs = <<Ev("features", Act.p.l)>> /\ s'.feats = Act.p.l))
                  /\ ((s.h.rec /\ Single({"select"})) => (Act.evs = <<Ev("select", Act.p.l)>> /\ s'.offered = Act.p.l))
                  /\ (IsK({"hpush", "hpop", "hpopall"}) => Act.evs = <<>>)]_vars
(* the answer to SELECT_KNOWN_PACKS is what the handler chose: offered packs only, in the offered order *)
SelectRule == [][(Single({"select"}) /\ ~s.wfail) =>
                  /\ Len(Act.out) = 1 /\ Act.out[1][1] = "select"
                  /\ LET rep == Act.out[1][2] IN
                       /\ \A i \in 1..Len(rep) : rep[i] \in s.h.known /\ \E j \in 1..Len(Act.p.l) : Act.p.l[j] = rep[i]
                       /\ (~s.h.rec => rep = <<>>)
                       /\ Len(rep) = Cardinality({j \in 1..Len(Act.p.l) : Act.p.l[j] \in s.h.known /\ s.h.rec})]_vars
(* packets the bot only reads leave everything alone and are not answered *)
FrameRule == [][Single({"payload", "resetchat", "links", "transfer"}) => (s' = s /\ Act.out = <<>> /\ Act.evs = <<>> /\ Act.ret = None)]_vars
DetailsRule == [][Single({"details"}) =>
                   /\ \A i \in 1..Len(Act.p.ld) : (~\E j \in (i + 1)..Len(Act.p.ld) : Act.p.ld[j][1] = Act.p.ld[i][1])
                                                   => s'.details[Act.p.ld[i][1]] = Act.p.ld[i][2]
                   /\ \A k \in DOMAIN s.details : (~\E j \in 1..Len(Act.p.ld) : Act.p.ld[j][1] = k) => s'.details[k] = s.details[k]]_vars
WriteFailRule == [][s.wfail => Act.out = <<>>]_vars
NoPanic == [][~Act.pan]_vars
=============================================================================
