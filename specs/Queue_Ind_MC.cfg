SPECIFICATION Spec
CONSTANTS
  Prod = {1, 2}
  Cons = {11, 12}
  ItemsPer = 2
  SignalOnPush = TRUE
  WithClose = TRUE
INVARIANTS IndInv IndInvT Safety
CHECK_DEADLOCK FALSE
