-------------------------------- MODULE Item --------------------------------
(***************************************************************************)
(* X07 (specification extension): item stacks and data components on the   *)
(* wire, protocol 767 (level/component: the Type table, NewComponent and   *)
(* one ReadFrom / WriteTo per component; bot/screen.Slot).                 *)
(*                                                                         *)
(* An abstract item stack is a record                                      *)
(*   [count, id, add, rem]                                                 *)
(* count, id = 4-byte patterns of the VarInts (Wire.tla's representation), *)
(* add = sequence of [t |-> type id (0..56), v |-> abstract value],        *)
(* rem = sequence of type ids.  A stack whose count is not positive is the *)
(* empty stack: nothing follows the count on the wire.                     *)
(*                                                                         *)
(* The abstract value of a component follows its LAYOUT, a type expression *)
(*   leaves of Wire.tla: bool i32 f32 f64 varint str pos uuid  (patterns)  *)
(*   [t |-> "nbt", kind]   an NBT sub-document = the bytes it spans        *)
(*                         (network form, delimited by NBT.tla's DecDoc)   *)
(*   [t |-> "tuple", es]   sequence of values                              *)
(*   [t |-> "ary", e]      VarInt count + elements                         *)
(*   [t |-> "option", e]   Boolean + value : <<>> or <<v>>                 *)
(*   [t |-> "holder", e]   VarInt k; 0 = inline value follows, else the    *)
(*                         registry id k - 1 : <<k, <<>>>> or <<0, <<v>>>> *)
(*   [t |-> "stack"]       a nested item stack                             *)
(*   [t |-> "unspec"]      layout not specified here (nothing is judged    *)
(*                         but "does not panic")                           *)
(* EncV / EncS are functions of the abstract value; DecV / DecS are an     *)
(* independently written cursor walk over the byte sequence.               *)
(*                                                                         *)
(* Two readings: form "p767" is the protocol (the INTENT), form "aswritten"*)
(* is what level/component and bot/screen.Slot speak today where they part *)
(* from it (EncCAW, LayoutAW, EncSlotAW, DecSlotAW), form "dropremoved" is *)
(* broken on purpose (vacuity guard).                                      *)
(***************************************************************************)
EXTENDS Integers, Sequences, SequencesExt, FiniteSets, TLC, Json
CONSTANTS EmitJson,   \* print vectors
          Form,       \* "p767" | "aswritten" | "dropremoved"
          Wide        \* larger universe
W == INSTANCE Wire WITH Menu <- {}, ty <- 0, val <- 0, bytes <- 0, dest <- 0, phase <- 0
N == INSTANCE NBT WITH Fmts <- {"network"}, Quick <- TRUE, doc <- [t |-> 0], fmt <- "network"

\* ---------------------------------------------------------------- the Type table (registry minecraft:data_component_type, 767)
TypeNames == <<
  "minecraft:custom_data", "minecraft:max_stack_size", "minecraft:max_damage", "minecraft:damage", "minecraft:unbreakable",
  "minecraft:custom_name", "minecraft:item_name", "minecraft:lore", "minecraft:rarity", "minecraft:enchantments",
  "minecraft:can_place_on", "minecraft:can_break", "minecraft:attribute_modifiers", "minecraft:custom_model_data",
  "minecraft:hide_additional_tooltip", "minecraft:hide_tooltip", "minecraft:repair_cost", "minecraft:creative_slot_lock",
  "minecraft:enchantment_glint_override", "minecraft:intangible_projectile", "minecraft:food", "minecraft:fire_resistant",
  "minecraft:tool", "minecraft:stored_enchantments", "minecraft:dyed_color", "minecraft:map_color", "minecraft:map_id",
  "minecraft:map_decorations", "minecraft:map_post_processing", "minecraft:charged_projectiles", "minecraft:bundle_contents",
  "minecraft:potion_contents", "minecraft:suspicious_stew_effects", "minecraft:writable_book_content",
  "minecraft:written_book_content", "minecraft:trim", "minecraft:debug_stick_state", "minecraft:entity_data",
  "minecraft:bucket_entity_data", "minecraft:block_entity_data", "minecraft:instrument", "minecraft:ominous_bottle_amplifier",
  "minecraft:jukebox_playable", "minecraft:recipes", "minecraft:lodestone_tracker", "minecraft:firework_explosion",
  "minecraft:fireworks", "minecraft:profile", "minecraft:note_block_sound", "minecraft:banner_patterns", "minecraft:base_color",
  "minecraft:pot_decorations", "minecraft:container", "minecraft:block_state", "minecraft:bees", "minecraft:lock",
  "minecraft:container_loot" >>
NTypes == Len(TypeNames)          \* 57 ; type id = position - 1

\* ---------------------------------------------------------------- layouts
Sc(t) == [t |-> t]
Leaf == {"bool", "i32", "f32", "f64", "varint", "str", "pos", "uuid"}
NbtData == [t |-> "nbt", kind |-> "data"]      \* any document (custom data, entity data ..)
NbtText == [t |-> "nbt", kind |-> "text"]      \* a text component in its NBT form
NbtUnit == [t |-> "nbt", kind |-> "unit"]      \* always the empty compound
NbtComp == [t |-> "nbt", kind |-> "compound"]  \* a compound (debug_stick_state: block id -> property name)
Tup(es) == [t |-> "tuple", es |-> es]
Ary(e) == [t |-> "ary", e |-> e]
Opt(e) == [t |-> "option", e |-> e]
Hold(e) == [t |-> "holder", e |-> e]
Stk == [t |-> "stack"]
Unspec == [t |-> "unspec"]
Unit == Tup(<<>>)
VI == Sc("varint")
Enchants == Tup(<<Ary(Tup(<<VI, VI>>)), Sc("bool")>>)                    \* (enchantment id, level)*, show in tooltip
SoundEvent == Hold(Tup(<<Sc("str"), Opt(Sc("f32"))>>))                   \* id or (name, fixed range)
Explosion == Tup(<<VI, Ary(Sc("i32")), Ary(Sc("i32")), Sc("bool"), Sc("bool")>>)
Layout(id) ==
  CASE id \in {0, 27, 37, 38, 39, 43, 55, 56} -> NbtData
    [] id = 36 -> NbtComp
    [] id \in {1, 2, 3, 8, 13, 16, 26, 28, 41, 50} -> VI
    [] id \in {4, 18} -> Sc("bool")
    [] id \in {5, 6} -> NbtText
    [] id = 7 -> Ary(NbtText)
    [] id \in {9, 23} -> Enchants
    [] id = 12 -> Tup(<<Ary(Tup(<<VI, Sc("str"), Sc("f64"), VI, VI>>)), Sc("bool")>>)   \* attribute, modifier id, amount, operation, slot
    [] id \in {14, 15, 17, 21} -> Unit
    [] id = 19 -> NbtUnit        \* no network codec of its own in 767: sent as the NBT form of Unit, the empty compound
    [] id = 24 -> Tup(<<Sc("i32"), Sc("bool")>>)
    [] id = 25 -> Sc("i32")
    [] id \in {29, 30, 52} -> Ary(Stk)
    [] id = 32 -> Ary(Tup(<<VI, VI>>))
    [] id = 33 -> Ary(Tup(<<Sc("str"), Opt(Sc("str"))>>))
    [] id = 34 -> Tup(<<Sc("str"), Opt(Sc("str")), Sc("str"), VI, Ary(Tup(<<NbtText, Opt(NbtText)>>)), Sc("bool")>>)
    [] id = 40 -> Hold(Tup(<<SoundEvent, VI, Sc("f32")>>))                \* sound, use duration (ticks), range
    [] id = 44 -> Tup(<<Opt(Tup(<<Sc("str"), Sc("pos")>>)), Sc("bool")>>)  \* [dimension, position], tracked
    [] id = 45 -> Explosion
    [] id = 46 -> Tup(<<VI, Ary(Explosion)>>)
    [] id = 47 -> Tup(<<Opt(Sc("str")), Opt(Sc("uuid")), Ary(Tup(<<Sc("str"), Sc("str"), Opt(Sc("str"))>>))>>)
    [] id = 48 -> Sc("str")
    [] id = 51 -> Ary(VI)
    [] id = 53 -> Ary(Tup(<<Sc("str"), Sc("str")>>))
    [] id = 54 -> Ary(Tup(<<NbtData, VI, VI>>))
    [] OTHER -> Unspec           \* 10 can_place_on, 11 can_break, 20 food, 22 tool, 31 potion_contents, 35 trim, 42 jukebox_playable, 49 banner_patterns
Modelled == {i \in 0..(NTypes - 1) : Layout(i).t # "unspec"}
\* what level/component reads and writes today where it is not Layout(id)
LayoutAW(id) ==
  CASE id = 19 -> Unit
    [] id = 40 -> Hold(Tup(<<SoundEvent, Sc("f32"), Sc("f32")>>))          \* use duration as a Float
    [] id = 44 -> Tup(<<Sc("bool"), Sc("str"), Sc("pos"), Sc("bool")>>)     \* dimension and position unconditionally
    [] OTHER -> Layout(id)

\* ---------------------------------------------------------------- helpers
Z4 == <<0, 0, 0, 0>>
DocEmpty == <<10, 0>>                      \* the empty compound (network form)
Num(k) == W!NumBytes(k, 4)                 \* pattern of a small natural
VarOf(k) == W!VarEnc(Num(k))
IsPos(c) == c[1] < 128 /\ c # Z4
Stack(c, i, a, r) == [count |-> c, id |-> i, add |-> a, rem |-> r]
EmptyStack == Stack(Z4, Z4, <<>>, <<>>)
Comp(t, v) == [t |-> t, v |-> v]
Cat(ss) == FlattenSeq(ss)
\* IEEE-754 single pattern of a natural below 2^24 (exactly representable): the use duration in ticks as a Float
RECURSIVE Log2(_)
Log2(k) == IF k < 2 THEN 0 ELSE 1 + Log2(k \div 2)
F32Bits(k) == IF k = 0 THEN 0 ELSE LET e == Log2(k) IN (127 + e) * 8388608 + (k - 2^e) * 2^(23 - e)
F32Of(k) == LET n == F32Bits(k) IN [i \in 1..4 |-> (n \div (256^(4 - i))) % 256]
SmallOf(p) == p[2] * 65536 + p[3] * 256 + p[4]           \* of a pattern whose first byte is 0
\* is the form as written of this value modelled?  (an instrument's use duration of 2^24 ticks or more, or a negative one, is not)
AwKnown(id, v) == id # 40 \/ v[1] # <<0, 0, 0, 0>> \/ v[2][1][2][1] = 0

\* ---------------------------------------------------------------- encoder
RECURSIVE EncV(_, _, _), EncSF(_, _)
EncCAW(id, v) ==       \* the component payload as level/component writes it today
  CASE id = 19 -> <<>>
    [] id = 40 -> W!VarEnc(v[1]) \o (IF v[1] = Z4
                    THEN LET x == v[2][1] IN EncV("p767", SoundEvent, x[1]) \o F32Of(SmallOf(x[2])) \o x[3] ELSE <<>>)
    [] id = 44 -> (IF v[1] = <<>> THEN <<0, 0>> \o W!PosEnc(<<0, 0, 0>>)
                   ELSE <<1>> \o W!Enc(Sc("str"), v[1][1][1]) \o W!PosEnc(v[1][1][2])) \o v[2]
    [] id \in {0, 27, 37, 38, 39, 43} /\ v = <<0>> -> <<0, 0>>   \* a dynbt.Value of tag End: the tag, then MarshalNBT's 0
    [] OTHER -> EncV("p767", Layout(id), v)
EncC(form, id, v) == IF form = "aswritten" THEN EncCAW(id, v) ELSE EncV(form, Layout(id), v)
EncV(form, T, v) ==
  CASE T.t \in Leaf -> W!Enc(T, v)
    [] T.t = "nbt" -> v
    [] T.t = "tuple" -> Cat([i \in 1..Len(T.es) |-> EncV(form, T.es[i], v[i])])
    [] T.t = "ary" -> VarOf(Len(v)) \o Cat([i \in 1..Len(v) |-> EncV(form, T.e, v[i])])
    [] T.t = "option" -> IF v = <<>> THEN <<0>> ELSE <<1>> \o EncV(form, T.e, v[1])
    [] T.t = "holder" -> W!VarEnc(v[1]) \o (IF v[1] = Z4 THEN EncV(form, T.e, v[2][1]) ELSE <<>>)
    [] T.t = "stack" -> EncSF(form, v)
EncSF(form, s) ==
  W!VarEnc(s.count) \o
  (IF ~IsPos(s.count) THEN <<>>
   ELSE W!VarEnc(s.id) \o VarOf(Len(s.add)) \o VarOf(Len(s.rem))
        \o Cat([i \in 1..Len(s.add) |-> VarOf(s.add[i].t) \o EncC(form, s.add[i].t, s.add[i].v)])
        \o (IF form = "dropremoved" THEN <<>> ELSE Cat([i \in 1..Len(s.rem) |-> VarOf(s.rem[i])])))
EncS(s) == EncSF("p767", s)
\* bot/screen.Slot.WriteTo today (a non-nil Slot): present flag, id, count, NBT (an empty RawMessage) - the layout before 1.20.5
EncSlotAW(s) == <<1>> \o W!VarEnc(s.id) \o W!VarEnc(s.count) \o <<0>>

\* ---------------------------------------------------------------- decoder (independent formulation: a cursor walk)
Err(p) == [ok |-> FALSE, v |-> <<>>, p |-> p]
Ok(v, p) == [ok |-> TRUE, v |-> v, p |-> p]
RdNum(b, p) == W!DecLen("varint", b, p)           \* [ok, neg, k (saturated at W!Huge), p]
LayoutOf(aw, id) == IF aw THEN LayoutAW(id) ELSE Layout(id)
RECURSIVE DecVL(_, _, _, _), DecMany(_, _, _, _, _, _), DecTup(_, _, _, _, _, _), DecSL(_, _, _), DecAdds(_, _, _, _, _), DecRems(_, _, _, _)
DecVL(L, T, b, p) ==          \* L = TRUE: the layouts as written (LayoutAW) are in force for nested stacks
  CASE T.t \in Leaf -> W!Dec(T, b, p)
    [] T.t = "nbt" -> LET d == N!DecDoc("network", SubSeq(b, p, Len(b))) IN
                      IF ~d.ok \/ (T.kind = "unit" /\ SubSeq(b, p, p + d.n - 1) # DocEmpty) \/ (T.kind = "compound" /\ b[p] # 10) THEN Err(p) ELSE Ok(SubSeq(b, p, p + d.n - 1), p + d.n)
    [] T.t = "tuple" -> DecTup(L, T.es, b, p, 1, <<>>)
    [] T.t = "ary" -> LET l == RdNum(b, p) IN
                      IF ~l.ok \/ l.neg \/ l.k >= W!Huge THEN Err(p) ELSE DecMany(L, T.e, b, l.p, l.k, <<>>)
    [] T.t = "option" -> IF p > Len(b) THEN Err(p)
                         ELSE IF b[p] = 0 THEN Ok(<<>>, p + 1)
                         ELSE LET r == DecVL(L, T.e, b, p + 1) IN IF r.ok THEN Ok(<<r.v>>, r.p) ELSE Err(p)
    [] T.t = "holder" -> LET k == W!VarDec(b, p, 4) IN
                         IF ~k.ok THEN Err(p)
                         ELSE IF k.v # Z4 THEN Ok(<<k.v, <<>>>>, k.p)
                         ELSE LET r == DecVL(L, T.e, b, k.p) IN IF r.ok THEN Ok(<<k.v, <<r.v>>>>, r.p) ELSE Err(p)
    [] T.t = "stack" -> DecSL(L, b, p)
    [] OTHER -> Err(p)
DecMany(L, E, b, p, k, acc) ==
  IF k = 0 THEN Ok(acc, p)
  ELSE IF p > Len(b) THEN Err(p)                                    \* every element type here takes at least one byte
  ELSE LET r == DecVL(L, E, b, p) IN IF ~r.ok THEN Err(p) ELSE DecMany(L, E, b, r.p, k - 1, Append(acc, r.v))
DecTup(L, es, b, p, i, acc) ==
  IF i > Len(es) THEN Ok(acc, p)
  ELSE LET r == DecVL(L, es[i], b, p) IN IF ~r.ok THEN Err(p) ELSE DecTup(L, es, b, r.p, i + 1, Append(acc, r.v))
DecSL(L, b, p) ==
  LET c == W!VarDec(b, p, 4) IN
  IF ~c.ok THEN Err(p)
  ELSE IF ~IsPos(c.v) THEN Ok(Stack(c.v, Z4, <<>>, <<>>), c.p)
  ELSE LET i == W!VarDec(b, c.p, 4) IN
       IF ~i.ok THEN Err(p)
       ELSE LET na == RdNum(b, i.p) IN
            IF ~na.ok \/ na.neg \/ na.k >= W!Huge THEN Err(p)
            ELSE LET nr == RdNum(b, na.p) IN
                 IF ~nr.ok \/ nr.neg \/ nr.k >= W!Huge THEN Err(p)
                 ELSE LET a == DecAdds(L, b, nr.p, na.k, <<>>) IN
                      IF ~a.ok THEN Err(p)
                      ELSE LET r == DecRems(b, a.p, nr.k, <<>>) IN
                           IF ~r.ok THEN Err(p) ELSE Ok(Stack(c.v, i.v, a.v, r.v), r.p)
DecAdds(L, b, p, k, acc) ==
  IF k = 0 THEN Ok(acc, p)
  ELSE LET t == RdNum(b, p) IN
       IF ~t.ok \/ t.neg \/ t.k >= NTypes THEN Err(p)                 \* a type id outside the table cannot be skipped: no length
       ELSE LET r == DecVL(L, LayoutOf(L, t.k), b, t.p) IN
            IF ~r.ok THEN Err(p) ELSE DecAdds(L, b, r.p, k - 1, Append(acc, Comp(t.k, r.v)))
DecRems(b, p, k, acc) ==
  IF k = 0 THEN Ok(acc, p)
  ELSE LET t == RdNum(b, p) IN
       IF ~t.ok \/ t.neg \/ t.k >= NTypes THEN Err(p) ELSE DecRems(b, t.p, k - 1, Append(acc, t.k))
DecV(T, b, p) == DecVL(FALSE, T, b, p)
DecS(b, p) == DecSL(FALSE, b, p)
DecC(form, id, b, p) == IF form = "aswritten" THEN DecVL(TRUE, LayoutAW(id), b, p) ELSE DecV(Layout(id), b, p)
\* the header of a stack: count [id, number added, number removed]; v = <<count, id, na, nr>> (patterns)
DecHeader(b, p) ==
  LET c == W!VarDec(b, p, 4) IN
  IF ~c.ok THEN Err(p)
  ELSE IF ~IsPos(c.v) THEN Ok(<<c.v, Z4, Z4, Z4>>, c.p)
  ELSE LET i == W!VarDec(b, c.p, 4) IN
       IF ~i.ok THEN Err(p)
       ELSE LET na == W!VarDec(b, i.p, 4) IN
            IF ~na.ok THEN Err(p)
            ELSE LET nr == W!VarDec(b, na.p, 4) IN
                 IF ~nr.ok THEN Err(p) ELSE Ok(<<c.v, i.v, na.v, nr.v>>, nr.p)
\* bot/screen.Slot.ReadFrom today: the header, the component lists are not read
DecSlotAW(b, p) == LET h == DecHeader(b, p) IN IF h.ok THEN Ok(Stack(h.v[1], h.v[2], <<>>, <<>>), h.p) ELSE h

\* ---------------------------------------------------------------- well-formed values
RECURSIVE WF(_, _), WFS(_)
IsPat(v, w) == Len(v) = w /\ \A i \in 1..w : v[i] \in 0..255
IsBytes(v) == \A i \in 1..Len(v) : v[i] \in 0..255
WF(T, v) ==
  CASE T.t = "bool" -> v \in {<<0>>, <<1>>}
    [] T.t \in {"i32", "f32", "varint"} -> IsPat(v, 4)
    [] T.t = "f64" -> IsPat(v, 8)
    [] T.t = "uuid" -> IsPat(v, 16)
    [] T.t = "str" -> IsBytes(v)
    [] T.t = "pos" -> Len(v) = 3 /\ v[1] \in -33554432..33554431 /\ v[2] \in -2048..2047 /\ v[3] \in -33554432..33554431
    [] T.t = "nbt" -> IsBytes(v) /\ (T.kind = "unit" => v = DocEmpty) /\ (T.kind = "compound" => v # <<>> /\ v[1] = 10)
                     /\ LET d == N!DecDoc("network", v) IN d.ok /\ d.n = Len(v)
    [] T.t = "tuple" -> Len(v) = Len(T.es) /\ \A i \in 1..Len(v) : WF(T.es[i], v[i])
    [] T.t = "ary" -> \A i \in 1..Len(v) : WF(T.e, v[i])
    [] T.t = "option" -> v = <<>> \/ (Len(v) = 1 /\ WF(T.e, v[1]))
    [] T.t = "holder" -> Len(v) = 2 /\ IsPat(v[1], 4) /\ IF v[1] = Z4 THEN Len(v[2]) = 1 /\ WF(T.e, v[2][1]) ELSE v[2] = <<>>
    [] T.t = "stack" -> WFS(v)
    [] OTHER -> FALSE
WFS(s) == /\ IsPat(s.count, 4) /\ IsPat(s.id, 4)
          /\ (~IsPos(s.count) => s.id = Z4 /\ s.add = <<>> /\ s.rem = <<>>)
          /\ \A i \in 1..Len(s.add) : s.add[i].t \in Modelled /\ WF(Layout(s.add[i].t), s.add[i].v)
          /\ \A i \in 1..Len(s.rem) : s.rem[i] \in 0..(NTypes - 1)

\* ---------------------------------------------------------------- bounded universe
VarVals == {Z4, Num(1), Num(127), Num(128), Num(300), <<127, 255, 255, 255>>, <<255, 255, 255, 255>>, <<128, 0, 0, 0>>}
VarThin == {Z4, Num(5), Num(300)}
Strs == {<<>>, <<97>>, <<109, 58, 120>>, <<195, 169, 0, 255>>}                                   \* "" a m:x (non-ASCII, NUL, 0xff)
\* tiny documents (network form): {} {a:1b} "a" End ; text components {text:""} {text:"a"} {text:"<e-acute>"}
DocData == {DocEmpty, <<10, 1, 0, 1, 97, 1, 0>>, <<8, 0, 1, 97>>, <<0>>, <<10, 9, 0, 1, 108, 3, 0, 0, 0, 1, 0, 0, 0, 7, 0>>}
DocState == <<10, 8, 0, 4, 78, 97, 109, 101, 0, 1, 98, 0>>                                              \* {Name:"b"}
TextDoc(s) == <<10, 8, 0, 4, 116, 101, 120, 116, 0, Len(s)>> \o s \o <<0>>
DocText == {TextDoc(<<>>), TextDoc(<<97>>), TextDoc(<<195, 169>>)}
PosVals == {<<0, 0, 0>>, <<-33554432, 2047, 33554431>>, <<1, -2, 3>>}
BasicStacks == {EmptyStack, Stack(Num(1), Num(1), <<>>, <<>>), Stack(Num(64), Num(300), <<Comp(3, Num(5))>>, <<4>>)}
Nth(S, k) == LET q == SetToSeq(S) IN q[(k % Len(q)) + 1]
RECURSIVE Vals(_)
Vals(T) ==
  CASE T.t = "bool" -> {<<0>>, <<1>>}
    [] T.t = "varint" -> IF Wide THEN VarVals ELSE VarThin \cup {<<255, 255, 255, 255>>}
    [] T.t = "i32" -> {Z4, <<0, 255, 128, 64>>, <<255, 255, 255, 255>>}
    [] T.t = "f32" -> {Z4, <<63, 128, 0, 0>>, <<127, 192, 0, 0>>}
    [] T.t = "f64" -> {<<0, 0, 0, 0, 0, 0, 0, 0>>, <<191, 240, 0, 0, 0, 0, 0, 1>>}
    [] T.t = "uuid" -> {[i \in 1..16 |-> 0], [i \in 1..16 |-> 16 * i - 1]}
    [] T.t = "str" -> Strs
    [] T.t = "pos" -> PosVals
    [] T.t = "nbt" -> IF T.kind = "text" THEN DocText ELSE IF T.kind = "unit" THEN {DocEmpty}
                     ELSE IF T.kind = "compound" THEN {x \in DocData : x[1] = 10} \cup {DocState} ELSE DocData
    [] T.t = "tuple" -> LET n == Len(T.es) IN {[i \in 1..n |-> Nth(Vals(T.es[i]), k)] : k \in 0..(IF Wide THEN 5 ELSE 3)}
    [] T.t = "ary" -> LET S == Vals(T.e) IN {<<>>, <<Nth(S, 0)>>, <<Nth(S, 1), Nth(S, 2)>>} \cup (IF Wide THEN {<<a>> : a \in S} ELSE {})
    [] T.t = "option" -> {<<>>} \cup {<<x>> : x \in Vals(T.e)}
    [] T.t = "holder" -> {<<Num(1), <<>>>>, <<Num(300), <<>>>>} \cup {<<Z4, <<x>>>> : x \in Vals(T.e)}
    [] T.t = "stack" -> BasicStacks
    [] OTHER -> {}
Pairs == UNION {{Comp(t, v) : v \in Vals(Layout(t))} : t \in Modelled}
ThinTypes == IF Wide THEN Modelled ELSE {0, 3, 5, 7, 14, 19, 24, 30, 33, 40, 44, 47}
Thin == {Comp(t, Nth(Vals(Layout(t)), t)) : t \in ThinTypes}
Counts == {Z4, Num(1), Num(64), Num(128), <<255, 255, 255, 255>>}
Ids == {Z4, Num(1), Num(300)}
RemSets == {<<>>, <<3>>, <<0, 56>>}
Stacks ==
  {IF IsPos(c) THEN Stack(c, i, <<>>, <<>>) ELSE Stack(c, Z4, <<>>, <<>>) : c \in Counts, i \in Ids}
  \cup {Stack(Num(1), Num(1), <<a>>, <<>>) : a \in Pairs}
  \cup {Stack(Num(64), Num(300), <<q[1], q[2]>>, r) : q \in {x \in Thin \X Thin : x[1].t < x[2].t}, r \in RemSets}
  \cup {Stack(Num(1), Num(1), <<>>, r) : r \in {<<0>>, <<56>>, <<5, 7, 9>>}}
  \cup (IF Wide
        THEN {Stack(Num(2), Num(2), <<a, b, c>>, <<1>>) : a \in {x \in Thin : x.t % 3 = 0}, b \in {x \in Thin : x.t % 3 = 1}, c \in {x \in Thin : x.t % 3 = 2}}
             \cup {Stack(c, i, <<a>>, r) : a \in Pairs, r \in RemSets \ {<<>>}, c \in {Num(128)}, i \in {Num(70000)}}
             \cup {Stack(c, IF IsPos(c) THEN i ELSE Z4, <<>>, <<>>) : c \in VarVals, i \in VarVals}
        ELSE {})

\* ---------------------------------------------------------------- state machine of the model check
VARIABLES what,     \* "comp" | "stack"
          cid, cval, st,
          phase     \* 0 chosen, 1 judged (the invariants speak about phase 1, so that TLC's workers share the work)
vars == <<what, cid, cval, st, phase>>
Init == /\ phase = 0
        /\ \/ what = "comp" /\ cid \in Modelled /\ cval \in Vals(Layout(cid)) /\ st = EmptyStack
           \/ what = "stack" /\ cid = -1 /\ cval = <<>> /\ st \in Stacks
Next == phase = 0 /\ phase' = 1 /\ UNCHANGED <<what, cid, cval, st>>
Spec == Init /\ [][Next]_vars

Tail2 == <<255, 128>>
TypeOK == phase = 1 => IF what = "comp" THEN WF(Layout(cid), cval) ELSE WFS(st)
CompRoundTrip == (phase = 1 /\ what = "comp") =>
  LET e == EncC(Form, cid, cval)  d == DecC("p767", cid, e \o Tail2, 1) IN d.ok /\ d.v = cval /\ d.p = Len(e) + 1
CompPrefixFails == (phase = 1 /\ what = "comp") =>
  LET e == EncC(Form, cid, cval) IN \A k \in 0..(Len(e) - 1) : ~DecC("p767", cid, SubSeq(e, 1, k), 1).ok
StackRoundTrip == (phase = 1 /\ what = "stack") =>
  LET e == EncSF(Form, st)  d == DecS(e \o Tail2, 1) IN d.ok /\ d.v = st /\ d.p = Len(e) + 1
StackPrefixFails == (phase = 1 /\ what = "stack") =>
  LET e == EncSF(Form, st) IN \A k \in 0..(Len(e) - 1) : ~DecS(SubSeq(e, 1, k), 1).ok
\* the header walk agrees with the full decoder on where the header ends and what it says
HeaderAgrees == (phase = 1 /\ what = "stack") =>
  LET e == EncS(st)  h == DecHeader(e, 1) IN
  h.ok /\ h.v[1] = st.count /\ h.v[2] = st.id /\ h.v[3] = Num(Len(st.add)) /\ h.v[4] = Num(Len(st.rem))
\* the code's own forms: reading what level/component writes today with its own layout gives the payload back
AsWrittenSelf == (phase = 1 /\ what = "comp") =>
  LET e == EncCAW(cid, cval)  d == DecC("aswritten", cid, e \o Tail2, 1) IN
  (Layout(cid).t = "nbt" /\ cval = <<0>>) \/ (d.ok /\ d.p = Len(e) + 1)
\* model-level list of the components whose form as written a 767 reader does not get back (Item_MC_aswritten.cfg, -continue)
AwReport == (phase = 1 /\ what = "comp") =>
  LET e == EncCAW(cid, cval)  d == DecC("p767", cid, e \o Tail2, 1) IN
  (d.ok /\ d.v = cval /\ d.p = Len(e) + 1) \/ PrintT(<<"AWDIFF", cid>>)
\* bot/screen.Slot: what WriteTo writes is not what ReadFrom reads (violated on purpose by Item_MC_slot.cfg)
SlotSelf == (phase = 1 /\ what = "stack" /\ st.add = <<>> /\ st.rem = <<>> /\ IsPos(st.count)) =>
  LET e == EncSlotAW(st)  d == DecSlotAW(e, 1) IN d.ok /\ d.v = st /\ d.p = Len(e) + 1
Emit == (EmitJson /\ phase = 1) =>
  PrintT(ToJson(IF what = "comp" THEN [what |-> what, id |-> cid, val |-> cval, bytes |-> EncC("p767", cid, cval)]
                ELSE [what |-> what, stack |-> st, bytes |-> EncS(st)]))
=============================================================================
