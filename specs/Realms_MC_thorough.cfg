SPECIFICATION Spec
CONSTANTS
  Owned = {1, 2}
  Member = {3, 4}
  Other = {5}
  Ghost = {9}
  Players = {1, 2}
  FaultSet <- AllFaults
  Variant = "intent"
VIEW View
INVARIANTS TypeOK Agree
PROPERTIES TosRule ViewAgrees NoSilentSuccess OwnerOnly InviteRule UnprocessedNoEffect OneRequest BodiesClosed
CHECK_DEADLOCK FALSE
