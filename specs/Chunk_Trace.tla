----------------------------- MODULE Chunk_Trace -----------------------------
(* Trace validation for C13.  Every recorded call on a real level.Chunk is bound to the action of   *)
(* Chunk.tla it claims to be; the model state is rebuilt from the logged arguments alone.  What the   *)
(* harness observed (projections: positions that differ from the background pattern found by an       *)
(* exhaustive scan, counters, scanned non-air numbers, height-map / light / status tokens recognised  *)
(* from the raw arrays, block-entity tuples, byte counts) is compared here with what the model and    *)
(* its conversion functions (NetRead(NetWire), DataRead, SaveForm, SaveRead) say.                     *)
(*                                                                                                   *)
(* A chunk conversion touches many components; each law is evaluated on its own and a failed one is  *)
(* printed as a JSON record (rej = line, law, clause) and counted (TLC register 2) instead of        *)
(* blocking the step, so that one defect does not hide the verdicts on the other components or on    *)
(* later events.  The trace is accepted iff every line is a step and no law failed (POSTCONDITION;   *)
(* one worker).                                                                                      *)
EXTENDS Chunk, Json

Trace == ndJsonDeserialize("trace.ndjson")
(* the ids of air, cave_air, void_air by name, as the first line (k = "reg") reports them *)
TraceAirIds == {Trace[1].air[i] : i \in 1..Len(Trace[1].air)}

VARIABLES l, seen, nextId, cexp
tvars == <<vars, l, seen, nextId, cexp>>
ASSUME TLCSet(2, 0)
Ev == Trace[l]
IsEvent(k) == l <= Len(Trace) /\ Trace[l].k = k /\ l' = l + 1
Same == UNCHANGED vars
RegSame == UNCHANGED <<seen, nextId>>
(* report the laws that failed on this line *)
Judge(fails) == /\ \A f \in fails : PrintT(ToJson([rej |-> l, law |-> f[1], clause |-> f[2]]))
                /\ (fails # {} => TLCSet(2, TLCGet(2) + Cardinality(fails)))
Failing(checks) == {c[1] : c \in {x \in checks : ~x[2]}}

\* ---------------------------------------------------------------- projections
(* o = [n |-> number of positions differing from the background, x |-> <<position, value>> ascending (capped)] *)
ArrIs(o, a) == /\ o.n = Cardinality(DOMAIN a.arr)
               /\ Len(o.x) = o.n
               /\ \A i \in 1..Len(o.x) : /\ o.x[i][1] \in DOMAIN a.arr
                                        /\ a.arr[o.x[i][1]] = o.x[i][2]
                                        /\ (i > 1 => o.x[i - 1][1] < o.x[i][1])
HMObs(n, t) == IF t = 0 THEN <<0, 0>> ELSE <<HMIndex(n), t>>
Shape(P, n) == P.ok /\ Len(P.sec) = n /\ Len(P.hm) = 6

(* component c of projection P agrees with the expected chunk r (n sections) *)
CompOK(c, P, r, n) ==
  CASE c = "block states" -> \A s \in SecIdx(n) : ArrIs(P.sec[s + 1].b, r.blocks[s])
    [] c = "biomes" -> \A s \in SecIdx(n) : ArrIs(P.sec[s + 1].m, r.biomes[s])
    [] c = "block counts" -> \A s \in SecIdx(n) : P.sec[s + 1].cnt = r.count[s]
    [] c = "scanned non-air numbers" -> \A s \in SecIdx(n) : P.sec[s + 1].scan = r.count[s]
    [] c = "sky light" -> \A s \in SecIdx(n) : P.sec[s + 1].sky = r.sky[s]
    [] c = "block light" -> \A s \in SecIdx(n) : P.sec[s + 1].blt = r.blt[s]
    [] c = "status" -> P.status = r.status
    [] c = "block entities" -> P.ents = r.ents
    [] OTHER -> P.hm[HMIndex(c)] = HMObs(c, r.hm[c])
Differs(comps, P, r, n, what) ==
  IF Shape(P, n) THEN {<<c, what>> : c \in {x \in comps : ~CompOK(x, P, r, n)}}
  ELSE {<<"result unusable (call failed or wrong number of sections)", what>>}

Whole == [blocks |-> blocks, biomes |-> biomes, count |-> count, sky |-> sky, blt |-> blt, hm |-> hm, ents |-> ents, status |-> status]
AllComps == {"block states", "biomes", "block counts", "scanned non-air numbers", "sky light", "block light", "status", "block entities"} \cup HMSet
NetComps == {"block states", "biomes", "block counts", "block entities"} \cup NetHM
DataComps == {"block states", "biomes", "block counts"}
SaveComps == {"block states", "biomes", "block counts", "sky light", "block light", "status"} \cup HMSet

\* ---------------------------------------------------------------- registry events
TReg == /\ IsEvent("reg") /\ l = 1
        /\ Judge(Failing({<<<<"air, cave_air, void_air are not three state ids with air = 0", "registry">>, Cardinality(AirIds) = 3 /\ 0 \in AirIds>>}))
        /\ Same /\ RegSame /\ UNCHANGED cexp

TRegStart == /\ IsEvent("regstart") /\ seen' = {} /\ nextId' = 0
             /\ Same /\ UNCHANGED cexp

(* a batch of consecutive state ids: where each id comes back to, and the hash of its (name, properties) *)
TRegBatch ==
  /\ IsEvent("regb")
  /\ Len(Ev.back) = Len(Ev.h) /\ Len(Ev.h) >= 1
  /\ seen' = seen \cup {Ev.h[i] : i \in 1..Len(Ev.h)}
  /\ nextId' = nextId + Len(Ev.h)
  /\ Ev.from = nextId
  /\ Judge(Failing({ <<<<"id -> (name, properties) -> id does not return to the same id", Ev.what>>,
                       \A i \in 1..Len(Ev.back) : Ev.back[i] = Ev.from + i - 1>> }))
  /\ Same /\ UNCHANGED cexp

TRegEnd ==
  /\ IsEvent("regend")
  /\ Judge(Failing({ <<<<"not every state id of the registry was visited", Ev.what>>, nextId = Ev.n /\ Ev.n = Trace[1].nstates>>,
                     <<<<"distinct state ids share one (name, properties)", Ev.what>>, Cardinality(seen) = nextId>> }))
  /\ Same /\ RegSame /\ UNCHANGED cexp

\* ---------------------------------------------------------------- building a chunk
TNew ==
  /\ IsEvent("new") /\ Ev.secs \in 1..24
  /\ secs' = Ev.secs
  /\ blocks' = [s \in SecIdx(Ev.secs) |-> Filled(<<0>>)] /\ biomes' = [s \in SecIdx(Ev.secs) |-> Filled(<<0>>)]
  /\ count' = [s \in SecIdx(Ev.secs) |-> 0]
  /\ sky' = [s \in SecIdx(Ev.secs) |-> 0] /\ blt' = [s \in SecIdx(Ev.secs) |-> 0]
  /\ hm' = [n \in HMSet |-> 0] /\ ents' = <<>> /\ status' = 0 /\ steps' = 0
  /\ act' = Act("new", 0, 0, 0, "", 0, <<>>, <<>>)
  /\ RegSame /\ UNCHANGED cexp

TSetBlock ==
  /\ IsEvent("setblock") /\ SetBlock(Ev.s, Ev.p, Ev.v)
  /\ Judge(Failing({ <<<<"call panicked", "SetBlock">>, ~Ev.panicked>>,
                     <<<<"BlockCount differs from the number of non-air blocks set so far", "SetBlock">>, Ev.cnt = count'[Ev.s]>> }))
  /\ RegSame /\ UNCHANGED cexp

TFillBlocks ==
  /\ IsEvent("fillblocks") /\ FillBlocks(Ev.s, Ev.pal)
  /\ Judge(Failing({ <<<<"call panicked", "SetBlock">>, ~Ev.panicked>>,
                     <<<<"BlockCount differs from the number of non-air blocks set so far", "SetBlock">>, Ev.cnt = count'[Ev.s]>> }))
  /\ RegSame /\ UNCHANGED cexp

TSetBiome == /\ IsEvent("setbiome") /\ SetBiome(Ev.s, Ev.p, Ev.v)
             /\ Judge(Failing({ <<<<"call panicked", "biome Set">>, ~Ev.panicked>> })) /\ RegSame /\ UNCHANGED cexp
TFillBiomes == /\ IsEvent("fillbiomes") /\ FillBiomes(Ev.s, Ev.pal)
               /\ Judge(Failing({ <<<<"call panicked", "biome Set">>, ~Ev.panicked>> })) /\ RegSame /\ UNCHANGED cexp
THeightMap == IsEvent("heightmap") /\ SetHeightMap(Ev.name, Ev.t) /\ RegSame /\ UNCHANGED cexp
TLight == IsEvent("light") /\ SetLight(Ev.s, Ev.kind, Ev.t) /\ RegSame /\ UNCHANGED cexp
TBlockEntity == IsEvent("blockentity") /\ AddBlockEntity(Ev.e) /\ RegSame /\ UNCHANGED cexp
TStatus == IsEvent("status") /\ SetStatus(Ev.t) /\ RegSame /\ UNCHANGED cexp

(* all components of the chunk under construction, observed *)
TDump ==
  /\ IsEvent("dump") /\ Same
  /\ Judge(Differs(AllComps, Ev.c, Whole, secs, "edit history"))
  /\ RegSame /\ UNCHANGED cexp

\* ---------------------------------------------------------------- conversions
(* Chunk.WriteTo, then Chunk.ReadFrom into EmptyChunk(secs) on the bytes written plus `tail` foreign bytes *)
TNet ==
  /\ IsEvent("net") /\ NetRoundTrip
  /\ LET r == NetRead(NetWire, secs) IN
     Judge(Failing({ <<<<"WriteTo fails", "net round trip">>, ~Ev.werr>>,
                     <<<<"WriteTo reports a byte count other than the bytes written", "net round trip">>, Ev.werr \/ Ev.wn = Ev.nbytes>>,
                     <<<<"ReadFrom fails on the bytes WriteTo produced", "net round trip">>, Ev.werr \/ ~Ev.rerr>>,
                     <<<<"bytes left unread", "net round trip">>, Ev.werr \/ Ev.rerr \/ Ev.left - Ev.tail <= r.left>>,
                     <<<<"ReadFrom consumes bytes behind the chunk", "net round trip">>, Ev.werr \/ Ev.rerr \/ Ev.left - Ev.tail >= r.left>>,
                     <<<<"ReadFrom reports a byte count other than the bytes consumed", "net round trip">>,
                       Ev.werr \/ Ev.rerr \/ Ev.rn + Ev.left = Ev.nbytes + Ev.tail>>,
                     \* what a destination held before the read must not show afterwards, not even in arrays no Get
                     \* reaches: written again it gives the bytes a fresh destination gives after reading the same chunk
                     <<<<"a destination used before writes other bytes than a fresh one after reading the same chunk", "net round trip">>,
                       Ev.werr \/ Ev.rerr \/ Ev.rewire>> })
           \cup (IF Ev.werr \/ Ev.rerr THEN {} ELSE Differs(NetComps, Ev.d, r, secs, "net round trip")))
  /\ RegSame /\ UNCHANGED cexp

(* Chunk.Data, then PutData into EmptyChunk(secs) *)
TData ==
  /\ IsEvent("data") /\ DataRoundTrip
  /\ LET r == DataRead(NetWire, secs) IN
     Judge(Failing({ <<<<"Data fails", "section data round trip">>, ~Ev.werr>>,
                     <<<<"PutData fails on the bytes Data produced", "section data round trip">>, Ev.werr \/ ~Ev.rerr>> })
           \cup (IF Ev.werr \/ Ev.rerr THEN {} ELSE Differs(DataComps, Ev.d, r, secs, "section data round trip")))
  /\ RegSame /\ UNCHANGED cexp

(* ChunkToSave into a save.Chunk with yPos = ypos (projection sv), then ChunkFromSave (projection d) *)
SaveFormOK(c, sv, f) ==
  CASE c = "section Y values" -> Len(sv.ys) = secs /\ \A j \in 1..secs : sv.ys[j] = f.sections[j].y
    [] c = "sky light" -> Len(sv.sky) = secs /\ \A j \in 1..secs : sv.sky[j] = f.sections[j].sky
    [] c = "block light" -> Len(sv.blt) = secs /\ \A j \in 1..secs : sv.blt[j] = f.sections[j].blt
    [] c = "status" -> sv.status = f.status
    [] c = "height-map keys (other than the six names)" -> sv.extra = 0
    [] OTHER -> sv.hm[HMIndex(c)] = HMObs(c, f.hm[c])
BlockComps == {"block states", "block counts"}
BiomeComps == {"biomes"}
(* a class of inputs with an open finding is judged as a whole: one law instead of the component laws *)
Coarse(flag, comps, P, r, law, what, plain) ==
  IF flag THEN (IF Differs(comps, P, r, secs, what) = {} THEN {} ELSE {<<law, what>>})
  ELSE Differs(comps, P, r, secs, plain)

TSave ==
  /\ IsEvent("save") /\ SaveRoundTrip(Ev.ypos)
  /\ LET f == SaveForm(Ev.ypos)
         r == SaveRead(f)
         rest == SaveComps \ (BlockComps \cup BiomeComps)
     IN Judge(Failing({ <<<<"ChunkToSave fails", "save round trip">>, ~Ev.terr>> })
              \cup (IF Ev.terr THEN {} ELSE
                      {<<c, "ChunkToSave">> : c \in {x \in {"section Y values", "sky light", "block light", "status", "height-map keys (other than the six names)"} \cup HMSet : ~SaveFormOK(x, Ev.sv, f)}}
                      \cup Failing({ <<<<"ChunkFromSave fails on the save form ChunkToSave produced", Ev.what>>, ~Ev.ferr>> })
                      \cup (IF Ev.ferr THEN {} ELSE
                              \* the chunk ChunkFromSave returned is a value of its own: editing it changes neither the
                              \* chunk that was saved nor what a second conversion of the same save form returns
                              Failing({ <<<<"editing the chunk ChunkFromSave returned changes the chunk ChunkToSave was given", "save round trip">>, Ev.srcsame>>,
                                        <<<<"editing the chunk ChunkFromSave returned changes what converting the same save form again returns", "save round trip">>, Ev.againsame>> })
                              \cup
                              Differs(rest, Ev.d, r, secs, "save round trip")
                              \cup Coarse(Ev.direct, BlockComps, Ev.d, r, "ChunkFromSave misreads the block states of the save form ChunkToSave produced",
                                          "save round trip of a section held as direct ids (more than 256 block states seen)", "save round trip")
                              \cup Coarse(Ev.loose, BiomeComps, Ev.d, r, "ChunkFromSave misreads the biomes of the save form ChunkToSave produced",
                                          "save round trip of a biome section whose indices are wider than its palette length needs", "save round trip"))))
  /\ RegSame /\ UNCHANGED cexp

(* ChunkFromSave of a save form the harness wrote from the model in the layout of the game's save files
   (every section an indirect palette of its distinct values, indices packed with the width the palette
   length gives, sections in any order); the chunk is unchanged *)
VanillaClause == "loading a save form laid out as the game writes it"
TVanilla ==
  /\ IsEvent("vanilla") /\ Convert("vanilla", Ev.ypos)
  /\ LET r == SaveRead(SaveForm(Ev.ypos))
         rest == SaveComps \ (BlockComps \cup BiomeComps)
     IN Judge(Failing({ <<<<"ChunkFromSave fails", Ev.what>>, ~Ev.ferr>> })
              \cup (IF Ev.ferr THEN {} ELSE
                      Differs(rest, Ev.d, r, secs, VanillaClause)
                      \cup Coarse(Ev.wideb, BlockComps, Ev.d, r, "ChunkFromSave misreads the block states",
                                  "loading a save form laid out as the game writes it (a section palette of more than 256 block states)", VanillaClause)
                      \cup Coarse(Ev.widem, BiomeComps, Ev.d, r, "ChunkFromSave misreads the biomes",
                                  "loading a save form laid out as the game writes it (a section palette of more than 8 biomes)", VanillaClause)))
  /\ RegSame /\ UNCHANGED cexp

\* ---------------------------------------------------------------- long SetBlock histories on one section (counter only)
(* the section starts with `scan` non-air blocks (scanned) and BlockCount cnt *)
TCNew == /\ IsEvent("cnew") /\ cexp' = Ev.scan
         /\ Judge(Failing({ <<<<"BlockCount differs from the scanned number of non-air blocks", Ev.what>>, Ev.cnt = Ev.scan>> }))
         /\ Same /\ RegSame

RECURSIVE Delta(_, _, _)
Delta(olds, news, i) == IF i > Len(olds) THEN 0 ELSE NA(news[i]) - NA(olds[i]) + Delta(olds, news, i + 1)
(* a batch of SetBlock(p, news[i]) calls; olds[i] is what GetBlock(p) returned just before the call *)
TCBatch == /\ IsEvent("cbatch") /\ Len(Ev.olds) = Len(Ev.news)
           /\ cexp' = cexp + Delta(Ev.olds, Ev.news, 1)
           /\ Judge(Failing({ <<<<"BlockCount differs from the number of non-air blocks the SetBlock history leaves", Ev.what>>, Ev.cnt = cexp'>>,
                              <<<<"scanned number of non-air blocks differs from the number the SetBlock history leaves", Ev.what>>, Ev.scan = cexp'>> }))
           /\ Same /\ RegSame

\* ----------------------------------------------------------------
TraceInit == /\ secs = 1 /\ blocks = [s \in {0} |-> Filled(<<0>>)] /\ biomes = [s \in {0} |-> Filled(<<0>>)]
             /\ count = [s \in {0} |-> 0] /\ sky = [s \in {0} |-> 0] /\ blt = [s \in {0} |-> 0]
             /\ hm = [n \in HMSet |-> 0] /\ ents = <<>> /\ status = 0 /\ steps = 0
             /\ act = Act("new", 0, 0, 0, "", 0, <<>>, <<>>)
             /\ l = 1 /\ seen = {} /\ nextId = 0 /\ cexp = 0
TraceNext == \/ TReg \/ TRegStart \/ TRegBatch \/ TRegEnd
             \/ TNew \/ TSetBlock \/ TFillBlocks \/ TSetBiome \/ TFillBiomes \/ THeightMap \/ TLight \/ TBlockEntity \/ TStatus \/ TDump
             \/ TNet \/ TData \/ TSave \/ TVanilla \/ TCNew \/ TCBatch
TraceSpec == TraceInit /\ [][TraceNext]_tvars

Accepted == LET d == TLCGet("stats").diameter IN
            /\ PrintT(<<"HWM", d, Len(Trace) + 1>>)
            /\ PrintT(<<"NREJ", TLCGet(2)>>)
            /\ d = Len(Trace) + 1
            /\ TLCGet(2) = 0
=============================================================================
