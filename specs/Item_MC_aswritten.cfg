SPECIFICATION Spec
CONSTANTS
  EmitJson = FALSE
  Form = "aswritten"
  Wide = FALSE
INVARIANTS AwReport CompRoundTrip
CHECK_DEADLOCK FALSE
