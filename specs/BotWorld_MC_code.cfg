SPECIFICATION Spec
CONSTANTS
  Coords = {0, 1}
  Toks = {1, 2}
  NDims = 2
  Dims = {0, 1, 2}
  Variant = "code"
VIEW View
INVARIANTS LoadedExactly
CHECK_DEADLOCK FALSE
