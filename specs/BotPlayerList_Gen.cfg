SPECIFICATION GenSpec
CONSTANTS
  Uuids = {}
  Vals = {}
  MaxEnts = 0
  ActSets = {}
  Variant = "code"
CHECK_DEADLOCK FALSE
