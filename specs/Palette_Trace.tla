---------------------------- MODULE Palette_Trace ----------------------------
(* Trace validation for C12: every recorded call on a real level.PaletteContainer must be a step of  *)
(* Palette.tla.  The harness projects: results, panics, snapshot differences (all Get(p) before and   *)
(* after every Set), the bytes of WriteTo cut by an independent paletted-container reader into       *)
(* (bits-per-entry, palette, longs -> entries), byte counts of ReadFrom, all Get(p) of the container  *)
(* that was read.  Validity of the wire form and the array it denotes are judged here.                *)
EXTENDS Palette

Trace == ndJsonDeserialize("trace.ndjson")

VARIABLE l
tvars == <<vars, l>>
Ev == Trace[l]
IsEvent(k) == l <= Len(Trace) /\ Trace[l].k = k /\ l' = l + 1

(* a dense listing of all positions (as reported by Get; -1 stands for a panic) is the array (a, d) *)
IsAll(list, a, d, n) == Len(list) = n /\ \A p \in 0..(n - 1) : list[p + 1] = AtIn(a, d, p)

TNew ==
  /\ IsEvent("new")
  /\ Ev.kind \in {"blocks", "biomes"} /\ Ev.len >= 1 /\ ValidId(Ev.kind, Ev.dflt)
  /\ kind' = Ev.kind /\ len' = Ev.len /\ dflt' = Ev.dflt /\ arr' = <<>>
  /\ UNCHANGED <<act, k0>>

TSet ==
  /\ IsEvent("set") /\ Set(Ev.p, Ev.v)
  /\ Ev.panicked = FALSE
  /\ LET changed == At(Ev.p) # Ev.v IN                       \* snapshot difference: only the named position
       /\ Ev.ndiff = (IF changed THEN 1 ELSE 0)
       /\ Ev.diff = (IF changed THEN << <<Ev.p, Ev.v>> >> ELSE <<>>)

TGet ==
  /\ IsEvent("get") /\ Get(Ev.p)
  /\ Ev.panicked = FALSE /\ Ev.ret = act'.ret

TDump ==
  /\ IsEvent("dump") /\ UNCHANGED vars
  /\ IsAll(Ev.vals, arr, dflt, len)

TWire ==
  /\ IsEvent("wire") /\ Wire(Ev.t)
  /\ Ev.werr = FALSE /\ Ev.ok = TRUE /\ Ev.left = 0          \* the independent reader consumed exactly the bytes written
  /\ WireValid(kind, len, Ev.w)
  /\ \A p \in 0..(len - 1) : WireVal(kind, Ev.w, p) = At(p)
  /\ Ev.nbytes = WireBytes(kind, Ev.w) /\ Ev.wn = Ev.nbytes
  /\ Ev.rerr = FALSE /\ Ev.rn = Ev.nbytes /\ Ev.rleft = Ev.tail
  /\ IsAll(Ev.tgot, arr, dflt, len)                          \* the container that was read, however it was used before

TFromSave ==
  /\ IsEvent("fromsave") /\ FromSave(Ev.pal, Ev.idx)
  /\ Ev.bits = SaveBits(kind, Len(Ev.pal))                   \* the width the harness packed the indices with
  /\ \A j \in 1..Len(Ev.pal) : ValidId(kind, Ev.pal[j])
  /\ Ev.panicked = FALSE
  /\ IsAll(Ev.got, arr', dflt', len)

TraceInit == /\ kind = "blocks" /\ len = 1 /\ dflt = 0 /\ arr = <<>> /\ k0 = 0 /\ l = 1
             /\ act = Act("new", 0, 0, 0, "", <<>>)
TraceNext == TNew \/ TSet \/ TGet \/ TDump \/ TWire \/ TFromSave
TraceSpec == TraceInit /\ [][TraceNext]_tvars

Accepted == LET d == TLCGet("stats").diameter IN
            /\ PrintT(<<"HWM", d, Len(Trace) + 1>>)
            /\ d = Len(Trace) + 1
=============================================================================
