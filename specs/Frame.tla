------------------------------- MODULE Frame --------------------------------
(***************************************************************************)
(* Minecraft packet framing (C07).  A frame on the wire is abstracted to   *)
(*   [mode, plen, dlen, id, n, zlen, infl]                                 *)
(* plen = value of the leading VarInt, dlen = value of the data-length     *)
(* VarInt (compression enabled), n = payload bytes, zlen = bytes of the    *)
(* zlib stream, infl = bytes it inflates to.  Payload identity is a token  *)
(* (sha) carried next to the record.  The sender may choose ANY conformant *)
(* frame (compressed or marked-uncompressed, any zlib level).              *)
(***************************************************************************)
EXTENDS Integers, Sequences, FiniteSets, TLC, Json

Max == 2097152     \* protocol maximum for id + payload (2 MiB)
VLen(v) == IF v < 0 THEN 5 ELSE IF v < 128 THEN 1 ELSE IF v < 16384 THEN 2
           ELSE IF v < 2097152 THEN 3 ELSE IF v < 268435456 THEN 4 ELSE 5

Conformant(thr, id, n, f) ==
  /\ f.id = id /\ f.n = n
  /\ IF thr < 0
       THEN f.mode = "plain" /\ f.plen = VLen(id) + n
       ELSE \/ f.mode = "marked" /\ f.dlen = 0 /\ f.plen = 1 + VLen(id) + n
            \/ /\ f.mode = "z" /\ f.dlen = VLen(id) + n /\ f.dlen >= thr /\ f.dlen > 0
               /\ f.zlen > 0 /\ f.plen = VLen(f.dlen) + f.zlen /\ f.infl = f.dlen
WireBytes(f) == VLen(f.plen) + f.plen          \* a frame is self-delimiting: length prefix + plen bytes

(* What a receiver with threshold thr must do with a header as found on the wire.
   h = [plen, dlen, idlen, infl]: dlen is the data-length field (only when thr >= 0), idlen the bytes of
   the id VarInt, infl the bytes the zlib stream inflates to (only when dlen > 0).
   "reject" / "accept" / "grey" (sizes between Max and Max + 5: the maximum is counted with or
   without the id by different implementations; not generated). *)
Decide(thr, h) ==
  IF thr < 0
  THEN LET size == h.plen - h.idlen IN
       IF size < 0 \/ size > Max + 5 THEN "reject" ELSE IF size + h.idlen > Max THEN "grey" ELSE "accept"
  ELSE IF h.dlen < 0 THEN "reject"
  ELSE IF h.dlen = 0 THEN
       LET size == h.plen - 1 - h.idlen IN
       IF size < 0 \/ size > Max + 5 THEN "reject" ELSE IF size + h.idlen > Max THEN "grey" ELSE "accept"
  ELSE IF h.dlen > Max + 5 THEN "reject"
  ELSE IF h.dlen > Max THEN "grey"
  ELSE IF h.dlen < thr THEN "reject"
  ELSE IF h.dlen < h.idlen THEN "reject"          \* declared size cannot even hold the packet id
  ELSE IF h.infl < h.dlen THEN "reject"           \* the stream inflates to fewer bytes than declared
  ELSE "accept"

\* ---------------------------------------------------------------- stream machine (generator + FIFO property)
CONSTANTS Thrs, Ids, Sizes, MaxFrames, BadPlen, BadDlen, EmitJson
VARIABLES thr, wire, sent, recv, bad
vars == <<thr, wire, sent, recv, bad>>
NoBad == [plen |-> 0, dlen |-> 0, idlen |-> 0, infl |-> 0, verdict |-> "none"]

Init == thr \in Thrs /\ wire = <<>> /\ sent = <<>> /\ recv = <<>> /\ bad = NoBad

Frames(id, n) ==
  IF thr < 0 THEN {[mode |-> "plain", plen |-> VLen(id) + n, dlen |-> -1, id |-> id, n |-> n, zlen |-> 0, infl |-> 0]}
  ELSE {[mode |-> "marked", plen |-> 1 + VLen(id) + n, dlen |-> 0, id |-> id, n |-> n, zlen |-> 0, infl |-> 0]}
       \cup (IF VLen(id) + n >= thr /\ VLen(id) + n > 0
             THEN {[mode |-> "z", plen |-> VLen(VLen(id) + n) + z, dlen |-> VLen(id) + n, id |-> id, n |-> n, zlen |-> z, infl |-> VLen(id) + n] : z \in {9, 300}}
             ELSE {})

Send(id, n) == /\ Len(sent) < MaxFrames /\ bad = NoBad
               /\ VLen(id) + n <= Max            \* the sender's side of the protocol maximum (id plus payload)
               /\ \E f \in Frames(id, n) : wire' = Append(wire, f)
               /\ sent' = Append(sent, <<id, n>>)
               /\ UNCHANGED <<thr, recv, bad>>
HeaderOf(f) == [plen |-> f.plen, dlen |-> f.dlen, idlen |-> VLen(f.id), infl |-> f.infl]
Recv == /\ wire # <<>> /\ Decide(thr, HeaderOf(Head(wire))) = "accept"
        /\ recv' = Append(recv, <<Head(wire).id, Head(wire).n>>)
        /\ wire' = Tail(wire) /\ UNCHANGED <<thr, sent, bad>>
\* a malformed header arrives (adversarial peer)
Inject(p, d, il) == /\ bad = NoBad /\ sent = <<>>
                    /\ LET h == [plen |-> p, dlen |-> IF thr < 0 THEN -1 ELSE d, idlen |-> il, infl |-> d] IN
                       bad' = [plen |-> h.plen, dlen |-> h.dlen, idlen |-> il, infl |-> h.infl, verdict |-> Decide(thr, h)]
                    /\ UNCHANGED <<thr, wire, sent, recv>>
Next == \/ \E id \in Ids, n \in Sizes : Send(id, n)
        \/ Recv
        \/ \E p \in BadPlen, d \in BadDlen, il \in {1, 5} : Inject(p, d, il)
Spec == Init /\ [][Next]_vars

\* ---------------------------------------------------------------- properties
IsPrefix(a, b) == Len(a) <= Len(b) /\ \A i \in 1..Len(a) : a[i] = b[i]
FIFO == IsPrefix(recv, sent) /\ Len(recv) + Len(wire) = Len(sent)
AllConformant == \A i \in 1..Len(wire) : Conformant(thr, wire[i].id, wire[i].n, wire[i])
\* every conformant frame whose size is within the maximum is accepted by a receiver with the same setting
RoundTrip == \A i \in 1..Len(wire) : (VLen(wire[i].id) + wire[i].n <= Max) => Decide(thr, HeaderOf(wire[i])) = "accept"
RejectRules == bad.verdict # "none" =>
   /\ (thr >= 0 /\ bad.dlen < 0 => bad.verdict = "reject")
   /\ (thr >= 0 /\ bad.dlen > Max + 5 => bad.verdict = "reject")
   /\ (thr >= 0 /\ bad.dlen > 0 /\ bad.dlen < thr => bad.verdict = "reject")
   /\ (thr < 0 /\ bad.plen - bad.idlen < 0 => bad.verdict = "reject")
Emit == EmitJson => PrintT(ToJson([thr |-> thr, wire |-> wire, nsent |-> Len(sent), bad |-> bad]))

\* constant sets for the configurations (negative numbers cannot be written in a .cfg)
MC_Thrs == {-1, 0, 1, 64, 256}
MC_Ids == {0, 127, 128, -1, 2147483647}
MC_Sizes == {0, 1, 62, 63, 64, 65, 127, 128, 255, 256, 257, 16383, 16384, 2097146, 2097147, 2097150, 2097151}
MC_BadPlen == {-1, 0, 1, 2, 5, 6, 70, 2097160, 2097170}
MC_BadDlen == {-1, -2147483647, 0, 1, 4, 5, 63, 64, 255, 256, 2097152, 2097158, 2147483647}
ST_Thrs == {-1, 0, 64}
ST_Ids == {0, 128, -1}
=============================================================================
