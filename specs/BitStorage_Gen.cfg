SPECIFICATION GenSpec
CONSTANTS
  Bs = {0,1,2,3,4,5,6,7,8,9,10,11,12,13,14,15,16,17,18,19,20,21,22,23,24,25,26,27,28,29,30,31,32}
  NSel = "wide"
  ISel = "wide"
  VSel = {"zero", "one", "max", "half", "alt"}
  MaxOps = 0
  EmitJson = FALSE
INVARIANTS TypeOK
CHECK_DEADLOCK FALSE
