------------------------------- MODULE BotBasic -------------------------------
(***************************************************************************)
(* X06 (specification extension): bot/basic.Player - the player state kept *)
(* from Login / Respawn, the keep-alive and ping responders, the cookie    *)
(* store, tag updates, the user's event callbacks (GameStart, Disconnect,  *)
(* HealthChange, Death, Teleported) and the two calls that send a packet   *)
(* (Respawn, AcceptTeleportation).                                         *)
(*                                                                         *)
(* Abstract state (one record `s`, everything projectable from exported    *)
(* fields):                                                                *)
(*   li   the fields only a Login packet sets: PlayerInfo.EID, .Hardcore,  *)
(*        WorldInfo.DimensionNames, .MaxPlayers, .ViewDistance,            *)
(*        .SimulationDistance, .ReducedDebugInfo, .EnableRespawnScreen,    *)
(*        .DoLimitCrafting                                                 *)
(*   wo   the fields Login AND Respawn set: WorldInfo.DimensionType,       *)
(*        .DimensionName, .HashedSeed, PlayerInfo.Gamemode, .PrevGamemode, *)
(*        WorldInfo.IsDebug, .IsFlat                                       *)
(*   set  Player.Settings as <<locale, viewDistance, chatMode, chatColors, *)
(*        skinParts, mainHand, textFiltering, allowListing, brand>>        *)
(*   cookies / cinit   Client.Cookies (key -> payload token; 0 = the empty *)
(*        payload) and whether the map exists (NewClient leaves it nil)    *)
(*   tags <<registry, tag>> -> ids bound by UpdateTags                     *)
(*   full the send queue refuses packets (Conn.WritePacket fails)          *)
(*   lst  which listeners were given to NewPlayer ("gs" GameStart, "dc"    *)
(*        Disconnect, "hc" HealthChange, "death", "tp" Teleported) and     *)
(*        "probe": a user handler registered AFTER NewPlayer at priority 0 *)
(*        for every packet id of this module.                              *)
(*                                                                         *)
(* Result of one packet / call:  Res(s, evs, out, dl, err, pan)            *)
(*   evs  callbacks fired, in order, as <<name, args>>; gamestart and      *)
(*        probe carry what the callback SEES: <<Player.EID, number of      *)
(*        packets this packet has put on the send queue so far>>           *)
(*   out  packets put on the send queue, in order, as <<kind, args>>       *)
(*   dl   number of socket deadline resets (keep-alive watchdog)           *)
(*   err  "none" | "cb" (a user callback's error came back through         *)
(*        PacketHandlerError) | "own" (the package's own error)            *)
(*   pan  the handler panicked                                             *)
(* p.fail = the indices (1-based, in firing order) of the callbacks that   *)
(* answer with an error.                                                   *)
(*                                                                         *)
(* Two layers: Step(FALSE, ..) the INTENT, Step(TRUE, ..) the handlers AS  *)
(* CODED; Class names the packets on which they part:                      *)
(*   GameStartOrder      GameStart is registered at priority 64, the Login *)
(*                       handler at 0: the callback runs BEFORE the packet *)
(*                       is stored and before brand / settings are sent;   *)
(*                       if it fails the Login packet is never stored.     *)
(*                       Intent (doc: "called when the login process is    *)
(*                       completed and the player is ready to play"): after*)
(*   StoreCookieNilMap   StoreCookie on a client whose Cookies map was     *)
(*                       never made (NewClient): assignment to a nil map   *)
(*   EmptyCookie         a cookie stored with an empty payload is answered *)
(*                       as "no cookie" (nil slice test)                   *)
(*   TagsUnknownRegistry UpdateTags naming a registry the client does not  *)
(*                       keep: error (configuration state skips them)      *)
(* Following the code elsewhere: the keep-alive deadline is reset before   *)
(* the answer is queued (also when the queue is full); Login stores the    *)
(* packet before it sends; a full queue makes Login stop after the first   *)
(* refused packet; HealthChange and Death are both called even if the      *)
(* first fails; any handler error ends the dispatch of that packet.        *)
(***************************************************************************)
EXTENDS Integers, Sequences, FiniteSets, TLC

CONSTANTS LoginToks, SpawnToks,     \* packet templates (LiOf / WoOf)
          Ids,                      \* keep-alive / ping / teleport ids, disconnect reasons
          Keys, Pays,               \* cookie keys and payload tokens (0 = empty payload)
          KnownRegs, Regs, TagToks, NEnt, MaxSecs,   \* registries the client keeps / offered in packets, tags, entries per registry
          SetVals, Healths, FailSets, Lsts,          \* generator universes (defined below as MC_*)
          Variant                                    \* "intent" | "code" | "broken"

Code == Variant = "code"
Broken == Variant = "broken"        \* vacuity guard: Respawn also clears Hardcore

VARIABLES s, hist, act
vars == <<s, hist, act>>

\* ---------------------------------------------------------------- values
ZeroLi == [eid |-> 0, hc |-> FALSE, dns |-> <<>>, maxp |-> 0, vd |-> 0, sd |-> 0, rdi |-> FALSE, ers |-> FALSE, lc |-> FALSE]
ZeroWo == [dt |-> 0, dn |-> 0, seed |-> 0, gm |-> 0, pgm |-> 0, dbg |-> FALSE, flat |-> FALSE]
ZeroSet == <<0, 0, 0, 0, 0, 0, 0, 0, 0>>
(* templates: every field differs from its neighbours so that a swapped or dropped field shows *)
LiOf(t) == [eid |-> 100 + t, hc |-> t % 2 = 1, dns |-> [i \in 1..(t % 3) |-> 10 * t + i], maxp |-> 20 + t, vd |-> 2 + t,
            sd |-> 12 + t, rdi |-> (t \div 2) % 2 = 1, ers |-> t % 2 = 0, lc |-> (t \div 2) % 2 = 0]
WoOf(t) == [dt |-> t, dn |-> 1 + t, seed |-> 7000 + t, gm |-> t % 4, pgm |-> (t % 3) - 1, dbg |-> t % 2 = 1, flat |-> (t \div 2) % 2 = 1]

MC_Lsts == {<<>>, <<"probe">>, <<"gs">>, <<"gs", "probe">>, <<"gs", "dc", "hc", "death", "tp", "probe">>, <<"death", "probe">>, <<"hc">>}
MC_LstsQ == {<<"probe">>, <<"gs", "dc", "hc", "death", "tp", "probe">>, <<"death">>}
MC_Fails == {<<>>, <<1>>, <<2>>, <<1, 2>>, <<3>>}
MC_FailsQ == {<<>>, <<1>>, <<2>>}
MC_Healths == {<<40, 20, 10>>, <<0, 3, 0>>, <<-2, 0, 0>>, <<1, 0, 0>>}
MC_HealthsQ == {<<40, 20, 10>>, <<0, 3, 0>>}
MC_Sets == {<<1, 8, 0, 1, 127, 1, 0, 1, 1>>, <<2, 12, 2, 0, 64, 0, 1, 0, 2>>}
MC_SetsQ == {<<2, 12, 2, 0, 64, 0, 1, 0, 2>>}

Has(l, x) == \E i \in 1..Len(l) : l[i] = x
Fl(p, i) == \E j \in 1..Len(p.fail) : p.fail[j] = i
Bind(f, x, v) == [y \in DOMAIN f \cup {x} |-> IF y = x THEN v ELSE f[y]]

P(k, n, key, pay, v, li, wo, secs, lst, fail) ==
  [k |-> k, n |-> n, key |-> key, pay |-> pay, v |-> v, li |-> li, wo |-> wo, secs |-> secs, lst |-> lst, fail |-> fail]
P0(k, n, fail) == P(k, n, 0, 0, <<>>, ZeroLi, ZeroWo, <<>>, <<>>, fail)
Ev(name, args) == <<name, args>>
Out(kind, args) == <<kind, args>>
Res(st, evs, out, dl, err, pan) == [s |-> st, evs |-> evs, out |-> out, dl |-> dl, err |-> err, pan |-> pan]
Fx(st, out, dl, err, pan) == [s |-> st, out |-> out, dl |-> dl, err |-> err, pan |-> pan]

Fresh(lst) == [li |-> ZeroLi, wo |-> ZeroWo, set |-> ZeroSet, cookies |-> <<>>, cinit |-> FALSE, tags |-> <<>>, full |-> FALSE, lst |-> lst]

PacketKinds == {"login", "respawn", "keepalive", "ping", "cookiereq", "cookiestore", "tags", "disconnect", "health", "position"}
CallKinds == {"callrespawn", "accepttp"}
EnvKinds == {"mkcookies", "setfull", "setsettings"}

\* ---------------------------------------------------------------- dispatch of one packet
(* A: callbacks in front of the handler body, fx: the body, B: callbacks behind it.  A callback that fails ends the *)
(* dispatch; so does an error (or panic) of the body.  Callbacks are numbered in firing order.                      *)
FirstFail(p, from, n) == IF \E i \in from..(from + n - 1) : Fl(p, i)
                         THEN CHOOSE i \in from..(from + n - 1) : Fl(p, i) /\ \A j \in from..(i - 1) : ~Fl(p, j)
                         ELSE 0
Chain(s0, p, A, fx, B) ==
  LET fa == FirstFail(p, 1, Len(A)) IN
  IF fa # 0 THEN Res(s0, SubSeq(A, 1, fa), <<>>, 0, "cb", FALSE)
  ELSE IF fx.pan \/ fx.err # "none" THEN Res(fx.s, A, fx.out, fx.dl, fx.err, fx.pan)
  ELSE LET fb == FirstFail(p, Len(A) + 1, Len(B)) IN
       IF fb # 0 THEN Res(fx.s, A \o SubSeq(B, 1, fb - Len(A)), fx.out, fx.dl, "cb", FALSE)
       ELSE Res(fx.s, A \o B, fx.out, fx.dl, "none", FALSE)

Probe(s0, fx) == IF Has(s0.lst, "probe") THEN <<Ev("probe", <<fx.s.li.eid, Len(fx.out)>>)>> ELSE <<>>
Send(s0, pkts, dl) == IF s0.full THEN Fx(s0, <<>>, dl, "own", FALSE) ELSE Fx(s0, pkts, dl, "none", FALSE)
Idle(s0) == Fx(s0, <<>>, 0, "none", FALSE)

Brand(set) == Out("brand", <<set[9]>>)
Settings(set) == Out("settings", SubSeq(set, 1, 8))

\* ---------------------------------------------------------------- tags
Known(r) == r \in KnownRegs
RECURSIVE ApplyTags(_, _, _, _)
(* sections <<registry, tag, ids>> applied in order; answers [tags, err] *)
ApplyTags(code, tg, secs, i) ==
  IF i > Len(secs) THEN [tags |-> tg, err |-> "none"]
  ELSE LET sec == secs[i] IN
       IF Known(sec[1]) THEN ApplyTags(code, Bind(tg, <<sec[1], sec[2]>>, sec[3]), secs, i + 1)
       ELSE IF code THEN [tags |-> tg, err |-> "own"]          \* "unknown registry": the sections in front of it stay bound
       ELSE ApplyTags(code, tg, secs, i + 1)                    \* skipped, as the configuration-state handler does
UnknownSec(p) == \E i \in 1..Len(p.secs) : ~Known(p.secs[i][1])

\* ---------------------------------------------------------------- one step
StepLogin(code, s0, p) ==
  LET s1 == [s0 EXCEPT !.li = p.li, !.wo = p.wo]
      fx == IF s0.full THEN Fx(s1, <<>>, 0, "own", FALSE)
            ELSE Fx(s1, <<Brand(s0.set), Settings(s0.set)>>, 1, "none", FALSE)
      gs == Has(s0.lst, "gs")
  IN IF code
     THEN Chain(s0, p, IF gs THEN <<Ev("gamestart", <<s0.li.eid, 0>>)>> ELSE <<>>, fx, Probe(s0, fx))
     ELSE Chain(s0, p, <<>>, fx, (IF gs THEN <<Ev("gamestart", <<s1.li.eid, Len(fx.out)>>)>> ELSE <<>>) \o Probe(s0, fx))

StepHealth(s0, p) ==
  (* one handler calls HealthChange and then Death (health <= 0), whatever the first answered *)
  LET hc == Has(s0.lst, "hc")
      de == Has(s0.lst, "death") /\ p.v[1] <= 0
      A  == (IF hc THEN <<Ev("health", p.v)>> ELSE <<>>) \o (IF de THEN <<Ev("death", <<>>)>> ELSE <<>>)
      bad == \E i \in 1..Len(A) : Fl(p, i)
      fx == Idle(s0)
      B  == Probe(s0, fx)
  IN IF ~(Has(s0.lst, "hc") \/ Has(s0.lst, "death")) THEN Chain(s0, p, <<>>, fx, B)    \* no handler registered
     ELSE IF bad THEN Res(s0, A, <<>>, 0, "cb", FALSE)
     ELSE IF Len(B) > 0 /\ Fl(p, Len(A) + 1) THEN Res(s0, A \o B, <<>>, 0, "cb", FALSE)
     ELSE Res(s0, A \o B, <<>>, 0, "none", FALSE)

Step(code, s0, p) ==
  CASE p.k = "login" -> StepLogin(code, s0, p)
    [] p.k = "respawn" ->
         LET s1 == IF Broken THEN [s0 EXCEPT !.wo = p.wo, !.li.hc = FALSE] ELSE [s0 EXCEPT !.wo = p.wo]
             fx == Idle(s1) IN Chain(s0, p, <<>>, fx, Probe(s0, fx))
    [] p.k = "keepalive" -> LET fx == Send(s0, <<Out("keepalive", <<p.n>>)>>, 1) IN Chain(s0, p, <<>>, fx, Probe(s0, fx))
    [] p.k = "ping" -> LET fx == Send(s0, <<Out("pong", <<p.n>>)>>, 0) IN Chain(s0, p, <<>>, fx, Probe(s0, fx))
    [] p.k = "cookiereq" ->
         LET has == p.key \in DOMAIN s0.cookies /\ (code => s0.cookies[p.key] # 0)
             fx == Send(s0, <<Out("cookie", <<p.key, IF has THEN 1 ELSE 0, IF has THEN s0.cookies[p.key] ELSE -1>>)>>, 0)
         IN Chain(s0, p, <<>>, fx, Probe(s0, fx))
    [] p.k = "cookiestore" ->
         LET fx == IF code /\ ~s0.cinit THEN Fx(s0, <<>>, 0, "none", TRUE)
                   ELSE Fx([s0 EXCEPT !.cookies = Bind(@, p.key, p.pay), !.cinit = TRUE], <<>>, 0, "none", FALSE)
         IN Chain(s0, p, <<>>, fx, Probe(s0, fx))
    [] p.k = "tags" ->
         LET r == ApplyTags(code, s0.tags, p.secs, 1)
             fx == Fx([s0 EXCEPT !.tags = r.tags], <<>>, 0, r.err, FALSE)
         IN Chain(s0, p, <<>>, fx, Probe(s0, fx))
    [] p.k = "disconnect" ->
         LET fx == Idle(s0) IN Chain(s0, p, IF Has(s0.lst, "dc") THEN <<Ev("disconnect", <<p.n>>)>> ELSE <<>>, fx, Probe(s0, fx))
    [] p.k = "health" -> StepHealth(s0, p)
    [] p.k = "position" ->
         LET fx == Idle(s0) IN Chain(s0, p, IF Has(s0.lst, "tp") THEN <<Ev("tp", p.v)>> ELSE <<>>, fx, Probe(s0, fx))
    \* calls of the user (no dispatch, no callbacks)
    [] p.k = "callrespawn" -> LET fx == Send(s0, <<Out("clientcmd", <<0>>)>>, 0) IN Res(fx.s, <<>>, fx.out, 0, fx.err, FALSE)
    [] p.k = "accepttp" -> LET fx == Send(s0, <<Out("accepttp", <<p.n>>)>>, 0) IN Res(fx.s, <<>>, fx.out, 0, fx.err, FALSE)
    \* the environment: the user makes Client.Cookies, the queue fills / drains, the user changes Player.Settings
    [] p.k = "mkcookies" -> Res([s0 EXCEPT !.cinit = TRUE], <<>>, <<>>, 0, "none", FALSE)
    [] p.k = "setfull" -> Res([s0 EXCEPT !.full = (p.n = 1)], <<>>, <<>>, 0, "none", FALSE)
    [] p.k = "setsettings" -> Res([s0 EXCEPT !.set = p.v], <<>>, <<>>, 0, "none", FALSE)
    [] OTHER -> Res(s0, <<>>, <<>>, 0, "none", FALSE)

Class(s0, p) ==
  IF p.k = "login" /\ Has(s0.lst, "gs") THEN "GameStartOrder"
  ELSE IF p.k = "cookiestore" /\ ~s0.cinit THEN "StoreCookieNilMap"
  ELSE IF p.k = "cookiereq" /\ p.key \in DOMAIN s0.cookies /\ s0.cookies[p.key] = 0 /\ ~s0.full THEN "EmptyCookie"
  ELSE IF p.k = "tags" /\ UnknownSec(p) THEN "TagsUnknownRegistry"
  ELSE "none"

\* ---------------------------------------------------------------- the machine
Secs1 == {<<r, t, ids>> : r \in Regs, t \in TagToks, ids \in {<<>>, <<0>>, <<NEnt - 1, 0>>}}
TagPackets == UNION {[1..n -> Secs1] : n \in 0..MaxSecs}

Some(Q(_)) ==
  \/ \E t \in LoginToks, f \in FailSets : Q(P("login", 0, 0, 0, <<>>, LiOf(t), WoOf(t + 1), <<>>, <<>>, f))
  \/ \E t \in SpawnToks, f \in FailSets : Q(P("respawn", 0, 0, 0, <<>>, ZeroLi, WoOf(t), <<>>, <<>>, f))
  \/ \E k \in {"keepalive", "ping", "disconnect"}, n \in Ids, f \in FailSets : Q(P0(k, n, f))
  \/ \E key \in Keys, f \in FailSets : Q(P("cookiereq", 0, key, 0, <<>>, ZeroLi, ZeroWo, <<>>, <<>>, f))
  \/ \E key \in Keys, pay \in Pays, f \in FailSets : Q(P("cookiestore", 0, key, pay, <<>>, ZeroLi, ZeroWo, <<>>, <<>>, f))
  \/ \E secs \in TagPackets, f \in FailSets : Q(P("tags", 0, 0, 0, <<>>, ZeroLi, ZeroWo, secs, <<>>, f))
  \/ \E h \in Healths, f \in FailSets : Q(P("health", 0, 0, 0, h, ZeroLi, ZeroWo, <<>>, <<>>, f))
  \/ \E n \in Ids, f \in FailSets : Q(P("position", 0, 0, 0, <<1, 2, 3, 4, 5, 6, n>>, ZeroLi, ZeroWo, <<>>, <<>>, f))
  \/ Q(P0("callrespawn", 0, <<>>)) \/ \E n \in Ids : Q(P0("accepttp", n, <<>>))
  \/ Q(P0("mkcookies", 0, <<>>)) \/ \E b \in {0, 1} : Q(P0("setfull", b, <<>>))
  \/ \E v \in SetVals : Q(P("setsettings", 0, 0, 0, v, ZeroLi, ZeroWo, <<>>, <<>>, <<>>))
All(Q(_)) == ~Some(LAMBDA p : ~Q(p))

(* hist: what the Login / Respawn packets received so far say the fields are *)
Do(p) == LET r == Step(Code, s, p) IN
         /\ s' = r.s
         /\ hist' = IF p.k = "login" THEN [li |-> p.li, wo |-> p.wo]
                    ELSE IF p.k = "respawn" THEN [hist EXCEPT !.wo = p.wo] ELSE hist
         /\ act' = [p |-> p, evs |-> r.evs, out |-> r.out, dl |-> r.dl, err |-> r.err, pan |-> r.pan]
Init == /\ \E l \in Lsts : s = Fresh(l)
        /\ hist = [li |-> ZeroLi, wo |-> ZeroWo]
        /\ act = [p |-> P0("new", 0, <<>>), evs |-> <<>>, out |-> <<>>, dl |-> 0, err |-> "none", pan |-> FALSE]
Next == Some(Do)
Spec == Init /\ [][Next]_vars
View == <<s, hist>>

\* ---------------------------------------------------------------- properties (of the intent)
TypeOK == /\ s.full \in BOOLEAN /\ s.cinit \in BOOLEAN
          /\ DOMAIN s.cookies \subseteq Keys /\ (DOMAIN s.cookies # {} => s.cinit)
          /\ \A rt \in DOMAIN s.tags : Known(rt[1])
(* the fields are what the packets said: every Login stores all of them, a Respawn replaces exactly the world part *)
FieldsFollowPackets == s.li = hist.li /\ s.wo = hist.wo
Agree == All(LAMBDA p : Class(s, p) = "none" => Step(TRUE, s, p) = Step(FALSE, s, p))

Act == act'
IsK(ks) == Act.p.k \in ks
LoginRule == [][IsK({"login"}) =>
                 /\ s'.li = Act.p.li /\ s'.wo = Act.p.wo
                 /\ [s' EXCEPT !.li = s.li, !.wo = s.wo] = s
                 /\ IF s.full THEN Act.out = <<>> /\ Act.dl = 0 /\ Act.err = "own"
                    ELSE Act.out = <<Brand(s.set), Settings(s.set)>> /\ Act.dl = 1]_vars
RespawnRule == [][IsK({"respawn"}) => s' = [s EXCEPT !.wo = Act.p.wo] /\ Act.out = <<>> /\ Act.dl = 0]_vars
(* every keep-alive / ping is answered exactly once with the same id (unless the queue refuses it) and changes nothing *)
EchoRule == [][IsK({"keepalive", "ping"}) =>
                /\ s' = s
                /\ Act.dl = (IF Act.p.k = "keepalive" THEN 1 ELSE 0)
                /\ IF s.full THEN Act.out = <<>> /\ Act.err = "own"
                   ELSE Act.out = <<Out(IF Act.p.k = "keepalive" THEN "keepalive" ELSE "pong", <<Act.p.n>>)>>]_vars
(* GameStart sees the player of the Login packet and the brand / settings already queued *)
GameStartRule == [][(IsK({"login"}) /\ Has(s.lst, "gs") /\ ~s.full) => Act.evs[1] = Ev("gamestart", <<Act.p.li.eid, 2>>)]_vars
CookieRule == [][(IsK({"cookiereq"}) /\ ~s.full) =>
                  /\ s' = s
                  /\ Act.out = <<Out("cookie", IF Act.p.key \in DOMAIN s.cookies THEN <<Act.p.key, 1, s.cookies[Act.p.key]>> ELSE <<Act.p.key, 0, -1>>)>>]_vars
StoreRule == [][IsK({"cookiestore"}) => s' = [s EXCEPT !.cookies = Bind(@, Act.p.key, Act.p.pay), !.cinit = TRUE] /\ Act.out = <<>>]_vars
(* an UpdateTags packet is never an error; the last section naming a tag of a kept registry decides *)
TagsRule == [][IsK({"tags"}) =>
                /\ Act.err \in {"none", "cb"}
                /\ \A i \in 1..Len(Act.p.secs) : LET sec == Act.p.secs[i] IN
                     (Known(sec[1]) /\ ~\E j \in (i + 1)..Len(Act.p.secs) : Act.p.secs[j][1] = sec[1] /\ Act.p.secs[j][2] = sec[2])
                       => (<<sec[1], sec[2]>> \in DOMAIN s'.tags /\ s'.tags[<<sec[1], sec[2]>>] = sec[3])
                /\ [s' EXCEPT !.tags = s.tags] = s]_vars
(* packets that only inform the user / calls that only send leave the state alone *)
FrameRule == [][IsK({"disconnect", "health", "position", "callrespawn", "accepttp"}) => s' = s]_vars
FullRule == [][s.full => Act.out = <<>>]_vars
NoPanic == [][~Act.pan]_vars
(* dispatch: a failing callback is the last thing that happens and is reported; without an error no fired callback   *)
(* failed; the probe (lowest priority, registered last) fires last, exactly when nothing went wrong before it         *)
EventRule == [][IsK(PacketKinds) =>
                 /\ (Act.err = "cb" => Fl(Act.p, Len(Act.evs)) \/ (Act.p.k = "health" /\ \E i \in 1..Len(Act.evs) : Fl(Act.p, i)))
                 /\ (Act.err = "none" => \A i \in 1..Len(Act.evs) : ~Fl(Act.p, i))
                 /\ \A i \in 1..Len(Act.evs) : (Act.evs[i][1] = "probe" => i = Len(Act.evs))
                 /\ ((Has(s.lst, "probe") /\ Act.err = "none" /\ ~Act.pan) => (Len(Act.evs) > 0 /\ Act.evs[Len(Act.evs)][1] = "probe"))]_vars
HealthRule == [][IsK({"health"}) =>
                  LET want == (IF Has(s.lst, "hc") THEN <<Ev("health", Act.p.v)>> ELSE <<>>)
                              \o (IF Has(s.lst, "death") /\ Act.p.v[1] <= 0 THEN <<Ev("death", <<>>)>> ELSE <<>>)
                  IN Len(Act.evs) >= Len(want) /\ SubSeq(Act.evs, 1, Len(want)) = want]_vars
=============================================================================
