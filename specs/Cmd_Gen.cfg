SPECIFICATION GenSpec
CONSTANTS
  LitNames <- GEN_Lit
  ArgNames <- GEN_Arg
  Parsers = {0, 1, 2}
  Handlers = {1, 2, 3, 4, 5}
  OwnHandler = FALSE
  SymBreak = FALSE
  Unhandles = TRUE
  MaxNodes = 9
  MaxKids = 3
  Lines = {}
  Variant = "intent"
  WireBreak = "none"
INVARIANTS TypeOK WellFormed StageMatches
CHECK_DEADLOCK FALSE
