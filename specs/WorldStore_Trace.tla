-------------------------- MODULE WorldStore_Trace --------------------------
(* Trace validation for X13.  Every line of trace.ndjson is one call of a composed pipeline on a real region   *)
(* file (PutChunk = ChunkToSave ; Data(ct) ; WriteSector, GetChunk = ReadSector ; Load ; ChunkFromSave, ...)   *)
(* together with the projection of the whole store AFTER the call: `obs[j]` for every coordinate j of the      *)
(* scenario = 0 (no sector), -1 (GetChunk fails) or the number of the abstract chunk GetChunk answers, and     *)
(* `raw[j]` = <<compression byte, length word, sectors in the header entry, 1 if an independent reader         *)
(* decompresses the payload to its end and finds exactly one NBT document, 1 if that document names the        *)
(* coordinate as xPos / zPos>> read from the file itself.                                                       *)
(* Abstract chunks are listed once, in defs.ndjson (line n = chunk number n, a record with the fields of       *)
(* WorldStore!Visible); the events name them by number.  The state BEFORE a call is the projection on the      *)
(* previous line, so every line is an independent initial state l; what the call had to do is computed with    *)
(* the operators of WorldStore (Visible, NetView, Fits, Need, ValidCT) from the logged arguments; the numbers  *)
(* of the failed checks are printed as <<"X13FAIL", l, {checks}>>; the harness only maps them back to events.  *)
(*                                                                                                             *)
(* checks:  1 NoPanic  2 Fresh                                                                                 *)
(*          3 PutAccepted   a Put with a valid compression byte whose payload fits is not refused              *)
(*          4 PutRefusedBig a payload of more than 255 sectors is refused and nothing changes                  *)
(*          5 PutUnknownCT  an unknown compression byte is refused and nothing changes                         *)
(*          6 PutFailedNoop a Put that reports an error changed nothing                                        *)
(*          7 PutEnvelope   the file holds the byte asked for, a length word that counts it, the sectors that  *)
(*                          length needs                                                                       *)
(*          8 PutPayloadWhole  an independent reader can read what Put stored                                  *)
(*          9 PutReadable   GetChunk after an accepted Put answers a chunk                                     *)
(*          10..17 PutGet<Shape|Blocks|Biomes|Status|HM|Ents|Meta|Bulk>  ... and it is the chunk that was put  *)
(*          18 PutFrame     no other coordinate changes                                                        *)
(*          19 GetResult  20 ReadOnly (Get, Relay)  21 ReopenNoop                                              *)
(*          22 CorruptSurfaces  an unknown byte / a payload cut short / a mismatched body / a zero length      *)
(*                          surfaces as an error   23 CorruptTail (a payload that lost its last bytes: an      *)
(*                          error or the chunk that was stored)   24 CorruptFrame                              *)
(*          25 RelayOutcome  26..29 Relay<Shape+Blocks|Biomes|HM|Ents>  30 RelayConsumed                       *)
(*          31 LoadRaw      Load of a byte string without a body answers an error                              *)
(*          32 PutPosition  the stored document names the position (xPos, zPos) of the coordinate it is stored at *)
EXTENDS WorldStore, Json

Trace == ndJsonDeserialize("trace.ndjson")
Defs  == ndJsonDeserialize("defs.ndjson")

VARIABLE l
tvars == <<vars, l>>
NChecks == 32

D(id) == Defs[id]
LevelPart(d) == [ents |-> d.ents, hm |-> d.hm, secs |-> d.secs, status |-> d.status]
Blocks(c) == [k \in 1..Len(c.secs) |-> c.secs[k].b]
BiomesOf(c) == [k \in 1..Len(c.secs) |-> c.secs[k].m]
ZeroRaw == <<0, 0, 0, 0, 0>>

Failed ==
  LET ev     == Trace[l]
      hasPre == l > 1 /\ ev.k # "reset"
      pre    == IF hasPre THEN Trace[l - 1] ELSE ev
      i      == ev.i
      n      == Len(ev.obs)
      o      == IF i > 0 THEN ev.obs[i] ELSE 0
      po     == IF i > 0 THEN pre.obs[i] ELSE 0
      others == \A j \in 1..n : j # i => (ev.obs[j] = pre.obs[j] /\ ev.raw[j] = pre.raw[j])
      same   == ev.obs = pre.obs /\ ev.raw = pre.raw
      isPut  == hasPre /\ ev.k = "put"
      valid  == ev.ct \in ValidCT
      fits   == Fits(ev.len)
      acc    == isPut /\ valid /\ fits /\ ~ev.err
      stored == acc /\ o > 0
      want   == IF isPut /\ ev.lv > 0 THEN Visible(LevelPart(D(ev.lv)), ev.dst, ev.xz) ELSE None
      got    == IF o > 0 THEN D(o) ELSE None
      shape  == stored /\ Len(got.secs) = Len(want.secs)
      isRel  == hasPre /\ ev.k = "relay"
      relOK  == isRel /\ po > 0 /\ ~ev.err /\ ev.ret > 0
      nv     == IF relOK THEN NetView(D(po)) ELSE None
      rv     == IF relOK THEN D(ev.ret) ELSE None
      Ok(c) ==
        CASE c = 1 -> ev.panicked = FALSE
          [] c = 2 -> ev.k = "reset" => \A j \in 1..n : ev.obs[j] = 0 /\ ev.raw[j] = ZeroRaw
          [] c = 3 -> (isPut /\ valid /\ fits) => ~ev.err
          [] c = 4 -> (isPut /\ valid /\ ~fits) => (ev.err /\ same)
          [] c = 5 -> (isPut /\ ~valid) => (ev.err /\ same)
          [] c = 6 -> (isPut /\ ev.err) => same
          [] c = 7 -> acc => (ev.raw[i][1] = ev.ct /\ ev.raw[i][2] = ev.len /\ ev.raw[i][3] = Need(ev.len))
          [] c = 8 -> acc => ev.raw[i][4] = 1
          [] c = 9 -> acc => o > 0
          [] c = 10 -> stored => Len(got.secs) = Len(want.secs)
          [] c = 11 -> shape => Blocks(got) = Blocks(want)
          [] c = 12 -> shape => BiomesOf(got) = BiomesOf(want)
          [] c = 13 -> stored => got.status = want.status
          [] c = 14 -> stored => got.hm = want.hm
          [] c = 15 -> stored => got.ents = want.ents
          [] c = 16 -> stored => (got.pos = want.pos /\ got.ypos = want.ypos /\ got.dv = want.dv)
          [] c = 17 -> stored => got.bulk = want.bulk
          [] c = 18 -> isPut => others
          [] c = 19 -> (hasPre /\ ev.k = "get") => (ev.ret = po /\ ev.err = ~(po > 0))
          [] c = 20 -> (hasPre /\ ev.k \in {"get", "relay"}) => same
          [] c = 21 -> (hasPre /\ ev.k = "reopen") => (same /\ ~ev.err)
          [] c = 22 -> (hasPre /\ ev.k = "corrupt" /\ po > 0 /\ ev.kind # "cuttail") => o = -1
          [] c = 23 -> (hasPre /\ ev.k = "corrupt" /\ po > 0 /\ ev.kind = "cuttail") => o \in {-1, po}
          [] c = 24 -> (hasPre /\ ev.k = "corrupt") => others
          [] c = 25 -> isRel => (IF po > 0 THEN ~ev.err /\ ev.ret > 0 ELSE ev.err)
          [] c = 26 -> relOK => rv.secs = nv.secs
          [] c = 27 -> relOK => (Len(rv.secs) = Len(nv.secs) => BiomesOf(rv) = BiomesOf(nv))
          [] c = 28 -> relOK => rv.hm = nv.hm
          [] c = 29 -> relOK => rv.ents = nv.ents
          [] c = 30 -> relOK => ev.left = 0
          [] c = 31 -> (ev.k = "loadraw" /\ ~ev.panicked) => ev.err
          [] c = 32 -> (acc /\ ev.raw[i][4] = 1) => ev.raw[i][5] = 1
          [] OTHER -> TRUE
  IN {c \in 1..NChecks : ~Ok(c)}

Check == LET f == Failed IN f = {} \/ PrintT(<<"X13FAIL", l, f>>)

TraceInit == /\ l \in 1..Len(Trace)
             /\ store = <<>> /\ sect = <<>> /\ act = 0 /\ nops = 0
TraceSpec == TraceInit /\ [][UNCHANGED tvars]_tvars
=============================================================================
