SPECIFICATION TraceSpec
CONSTANTS
  Alphabet = {}
  ShortMax = 0
  LongLen = 20
  EndMax = 0
  MidRuns = 2
  EmitJson = FALSE
INVARIANTS Screen
CHECK_DEADLOCK FALSE
