---------------------------- MODULE BotConfig_Trace ----------------------------
(* Trace validation for X11/BotConfig.  Every line is one step of a scenario on a REAL bot.Client whose                 *)
(* joinConfiguration (overlay shim bot.VerifJoinConfiguration) runs on an in-memory socket: the server writes one       *)
(* clientbound configuration packet (or the client calls joinConfiguration, the server closes, the user calls the       *)
(* DefaultConfigHandler, the harness acts as the environment), with what was observed: evs (ConfigHandler calls seen    *)
(* by the recording handler, in order), out (the serverbound packets found on the socket, decoded by the harness in the *)
(* field order of protocol 767), ret (class of what joinConfiguration returned in this step), pan (it panicked), nh     *)
(* (packets taken from the socket) and the projection AFTER the step: run, inq (the packets whose bytes are still       *)
(* unread), packs, feats, offered, cookies as rows <<key, payload>>, cinit, regs as rows <<registry, vals, <<key, id>>  *)
(* rows, <<tag, ids>> rows>> (registries with content only), details as rows <<title, description>>, wfail, eof, h.     *)
(* The state before a step is the projection on the previous line: every line is an independent initial state l;       *)
(* failed checks are printed as <<"X2FAIL", l, {checks}>>.                                                              *)
(* checks:  1 NoPanic  2 Fresh  3 WellFormed  4 Echo (keepalive, ping)  5 Cookie  6 Finish  7 Disconnect  8 Registry     *)
(*          9 Tags  10 Handler (features, select)  11 Details  12 Dropped (payload, resetchat, links, transfer)         *)
(*          13 Calls (join, eof, hpush, hpop, hpopall)  14 Env  15 Late (a packet written while no loop runs)           *)
(*          (4-15: outside the named classes, against the intent)                                                       *)
(*          16 PopIgnored  17 PushNoStatus  18 StoreCookieNilMap  19 EmptyCookie  20 UnknownPacketId  21 RegistryNoData  *)
(*          (judged against the intent)  22 AsCoded (.. and if the intent is not met, against Step(TRUE, ..))            *)
(*          23 ErrorClass  24 QueueOrder (what is left on the socket is the tail of what was written, in order)         *)
EXTENDS BotConfig, Json

Trace == ndJsonDeserialize("trace.ndjson")
VARIABLE l
tvars == <<vars, l>>
NChecks == 24

FnOf(rows) == [k \in {rows[i][1] : i \in 1..Len(rows)} |-> rows[CHOOSE i \in 1..Len(rows) : rows[i][1] = k][2]]
RegOf(row) == [vals |-> row[2], keys |-> FnOf(row[3]), tags |-> FnOf(row[4])]
HOf(h) == [rec |-> h.rec, known |-> {h.known[i] : i \in 1..Len(h.known)}]
StateOf(e) == [run |-> e.run, inq |-> e.inq, packs |-> e.packs, feats |-> e.feats, offered |-> e.offered,
               cookies |-> FnOf(e.cookies), cinit |-> e.cinit,
               regs |-> [r \in KnownRegs |-> IF \E i \in 1..Len(e.regs) : e.regs[i][1] = r
                                             THEN RegOf(e.regs[CHOOSE i \in 1..Len(e.regs) : e.regs[i][1] = r]) ELSE EmptyReg],
               details |-> FnOf(e.details), wfail |-> e.wfail, eof |-> e.eof, h |-> HOf(e.h)]
PacketOf(e) == P(e.k, e.n, e.key, e.pay, e.u, e.t, e.r, e.m, e.secs, e.l, e.ld)
WellFormedOn(e) == /\ \A i \in 1..Len(e.cookies) : e.cookies[i][1] >= 0 /\ e.cookies[i][2] >= 0
                   /\ \A i \in 1..Len(e.packs) : \A j \in 1..5 : e.packs[i][j] >= 0
                   /\ \A i \in 1..Len(e.feats) : e.feats[i] >= 0
                   /\ \A i \in 1..Len(e.offered) : e.offered[i] >= 0
                   /\ \A i \in 1..Len(e.details) : e.details[i][1] >= 0 /\ e.details[i][2] >= 0
                   /\ \A i \in 1..Len(e.inq) : e.inq[i].k \in PacketKinds
                   /\ \A i \in 1..Len(e.regs) : LET row == e.regs[i] IN
                        /\ row[1] \in KnownRegs
                        /\ \A j \in 1..Len(row[2]) : row[2][j] >= 0
                        /\ \A j \in 1..Len(row[3]) : row[3][j][1] >= 0 /\ row[3][j][2] >= 0
                        /\ \A j \in 1..Len(row[4]) : row[4][j][1] >= 0 /\ \A x \in 1..Len(row[4][j][2]) : row[4][j][2][x] >= 0
OutOK(e) == \A i \in 1..Len(e.out) : e.out[i][1] # "garbage"
RECURSIVE IsSuffix(_, _)
IsSuffix(a, b) == IF Len(a) > Len(b) THEN FALSE ELSE IF Len(a) = Len(b) THEN a = b ELSE IsSuffix(a, Tail(b))

Failed ==
  LET ev     == Trace[l]
      hasPre == l > 1 /\ ev.k \notin {"reset", "new"}
      pe     == IF hasPre THEN Trace[l - 1] ELSE ev
      post   == StateOf(ev)
      pre    == StateOf(pe)
      p      == PacketOf(ev)
      ok0    == hasPre /\ WellFormedOn(pe) /\ WellFormedOn(ev) /\ OutOK(ev) /\ ~ev.panicked
      obs    == Res(post, ev.evs, ev.out, ev.ret, ev.pan, ev.nh)
      I      == Step(FALSE, pre, p)
      C      == Step(TRUE, pre, p)
      cls    == IF hasPre THEN Class(pre, p) ELSE "none"
      late   == IsPacket(p) /\ ~pre.run
      Plain(ks) == (ok0 /\ ev.k \in ks /\ cls = "none" /\ ~late) => obs = I
      InClass(c) == (ok0 /\ cls = c) => obs = I
      Ok(c) ==
        CASE c = 1 -> cls = "none" => (~ev.pan /\ ~ev.panicked)
          [] c = 2 -> ev.k \in {"reset", "new"} => (post = Fresh(HOf(ev.ph)) /\ ev.evs = <<>> /\ ev.out = <<>> /\ ev.ret = None)
          [] c = 3 -> WellFormedOn(ev) /\ OutOK(ev)
          [] c = 4 -> Plain({"keepalive", "ping"})
          [] c = 5 -> Plain({"cookiereq", "cookiestore"})
          [] c = 6 -> Plain({"finish"})
          [] c = 7 -> Plain({"disconnect"})
          [] c = 8 -> Plain({"regdata"})
          [] c = 9 -> Plain({"tags"})
          [] c = 10 -> Plain({"features", "select"})
          [] c = 11 -> Plain({"details"})
          [] c = 12 -> Plain({"payload", "resetchat", "links", "transfer"})
          [] c = 13 -> Plain({"join", "eof", "hpush", "hpop", "hpopall"})
          [] c = 14 -> Plain({"mkcookies", "setwfail"})
          [] c = 15 -> (ok0 /\ late) => obs = I
          [] c = 16 -> InClass("PopIgnored")
          [] c = 17 -> InClass("PushNoStatus")
          [] c = 18 -> InClass("StoreCookieNilMap")
          [] c = 19 -> InClass("EmptyCookie")
          [] c = 20 -> InClass("UnknownPacketId")
          [] c = 21 -> InClass("RegistryNoData")
          [] c = 22 -> (ok0 /\ cls # "none" /\ obs # I) => obs = C
          [] c = 23 -> ev.ret[1] \in {"none", "ok", "disconnect", "unknownreg", "unknownid", "badtag", "io"}
          [] c = 24 -> (hasPre /\ WellFormedOn(pe) /\ WellFormedOn(ev)) =>
                          LET q == IF IsPacket(p) /\ ~pre.eof THEN Append(pre.inq, p) ELSE pre.inq IN
                          IsSuffix(post.inq, q) /\ Len(post.inq) = Len(q) - ev.nh
          [] OTHER -> TRUE
  IN {c \in 1..NChecks : ~Ok(c)}

Check == LET f == Failed IN f = {} \/ PrintT(<<"X2FAIL", l, f>>)
TraceInit == l \in 1..Len(Trace) /\ s = 0 /\ act = 0
TraceSpec == TraceInit /\ [][UNCHANGED tvars]_tvars
=============================================================================
