SPECIFICATION TraceSpec
CONSTANTS
  Kinds = {}
  RegBitsBlocks = 15
  RegBitsBiomes = 6
  PrefillBlocks = {}
  PrefillBiomes = {}
  LenSel = "real"
  SaveLensBlocks = {}
  SaveLensBiomes = {}
POSTCONDITION Accepted
CHECK_DEADLOCK FALSE
