-------------------------- MODULE YggSession_Trace --------------------------
(* Trace validation for X12/YggSession.  Every line is one call of the real code (yggdrasil.Authenticate,            *)
(* Access.Refresh / Validate / Invalidate / SetTokens, yggdrasil.SignOut, bot loginAuth, server/auth authentication) *)
(* against the in-memory model server, with the fault the server was told to answer with, the result (ok = no error, *)
(* ret, error kind), the requests the server saw (projected: method, host, path, sorted member names, values as      *)
(* tokens) and the projection AFTER the call of the server (valid triples, counters, revoked tokens, joins) and of    *)
(* every client slot (GetTokens, SelectedProfile, AvailableProfiles).  The state before a call is the projection on   *)
(* the previous line: every line is an independent initial state l; failed checks are printed as                      *)
(* <<"X2FAIL", l, {checks}>>.                                                                                         *)
(* checks:  1 NoPanic  2 Fresh  3 WellFormed (only tokens the harness knows; no nil Access without error, ..)          *)
(*          4 Request (exactly the documented request)   5 Server (the server's state as the specification computes)  *)
(*          6 Client  7 Result   (calls outside the named classes: as the specification computes)                     *)
(*          8 FailedKeeps  9 NoSilentSuccess  10 ViewAgrees   (the properties, on every call)                         *)
(*          11 RefreshRotates (on every call that got the documented answer)                                          *)
(*          12 ServerSane (ValidUnique, RevokedStays, only issued tokens valid)                                       *)
(*          13..18 the named classes, judged against the intent: AuthenticateJsonStatus, RefreshJsonStatus,           *)
(*          RefreshMistyped, ValidateStatus, HasJoinedStatus, HasJoinedQuery                                          *)
(*          19 AsCoded (a call of a named class that does not follow the intent follows the model of the code)        *)
(*          20 BodyClosed (every response body was closed when the call returned)   21 OneRequest                     *)
EXTENDS YggSession, Json

Trace == ndJsonDeserialize("trace.ndjson")
VARIABLE l
tvars == <<vars, l>>
NChecks == 21

SetOf(t) == {t[i] : i \in 1..Len(t)}
ClRow(r) == [at |-> r[2], ct |-> r[3], prof |-> r[4], avail |-> r[5]]
StateOf(e) == [valid |-> SetOf(e.valid), ctr |-> e.ctr, nct |-> e.nct, rev |-> SetOf(e.rev), joined |-> SetOf(e.joined),
               cl |-> [x \in {e.cl[i][1] : i \in 1..Len(e.cl)} |-> ClRow(e.cl[CHOOSE i \in 1..Len(e.cl) : e.cl[i][1] = x])]]
CallOf(e) == P(e.k, e.slot, e.user, e.good, e.at, e.ct, e.sid, e.name, e.wp, F(e.fk, e.fst, e.fb))
Server(st) == [valid |-> st.valid, ctr |-> st.ctr, nct |-> st.nct, rev |-> st.rev, joined |-> st.joined]
WellFormedOn(st) ==
  /\ st.ctr >= 1 /\ st.nct >= 1
  /\ \A v \in st.valid : v[1] >= 1 /\ v[2] >= 1 /\ v[3] \in Users
  /\ \A x \in DOMAIN st.cl : LET c == st.cl[x] IN c.at >= -1 /\ c.ct >= -1 /\ c.prof >= 0 /\ c.avail >= 0
SaneOn(st) ==
  /\ \A v, w \in st.valid : v[1] = w[1] => v = w
  /\ \A v \in st.valid : v[1] \notin st.rev /\ v[1] < st.ctr /\ v[2] < st.nct
Known(k) == k \in {"authenticate", "refresh", "validate", "invalidate", "signout", "settokens", "join", "hasjoined"}

Failed ==
  LET ev     == Trace[l]
      hasPre == l > 1 /\ ev.k # "reset"
      post   == StateOf(ev)
      pre    == IF hasPre THEN StateOf(Trace[l - 1]) ELSE post
      p      == CallOf(ev)
      ok0    == hasPre /\ Known(ev.k) /\ WellFormedOn(pre) /\ WellFormedOn(post) /\ ~ev.panicked /\ ev.extra = 0
                /\ (ev.slot = 0 \/ ev.slot \in DOMAIN pre.cl) /\ DOMAIN pre.cl = DOMAIN post.cl
      obs    == R(post, ev.ok, ev.ret, ev.ek, ev.reqs)
      I      == IF ok0 THEN Step(FALSE, pre, p) ELSE obs
      C      == IF ok0 THEN Step(TRUE, pre, p) ELSE obs
      cls    == IF ok0 THEN Class(pre, p) ELSE "none"
      Ok(c) ==
        CASE c = 1 -> ev.panicked = FALSE
          [] c = 2 -> ev.k = "reset" => (post.valid = {} /\ post.ctr = 1 /\ post.nct = 1 /\ post.rev = {} /\ post.joined = {}
                                         /\ \A x \in DOMAIN post.cl : post.cl[x] = ZeroCl)
          [] c = 3 -> WellFormedOn(post) /\ ev.extra = 0
          [] c = 4 -> (ok0 /\ I.reqs = C.reqs) => ev.reqs = I.reqs
          [] c = 5 -> ok0 => Server(post) = Server(I.s)
          [] c = 6 -> (ok0 /\ cls = "none") => post.cl = I.s.cl
          [] c = 7 -> (ok0 /\ cls = "none") => (ev.ok = I.ok /\ ev.ret = I.ret /\ ev.ek = I.ek)
          [] c = 8 -> (ok0 /\ ~ev.ok) => post.cl = pre.cl
          [] c = 9 -> (ok0 /\ ev.fk # "none") => ~ev.ok
          [] c = 10 -> ok0 => ViewOK(p, post, ev.ok, ev.ret)
          [] c = 11 -> (ok0 /\ ev.fk = "none") => RotateOK(p, pre, post, ev.ok)
          [] c = 12 -> (~hasPre \/ SaneOn(pre)) => SaneOn(post)
          [] c = 13 -> cls = "AuthenticateJsonStatus" => obs = I
          [] c = 14 -> cls = "RefreshJsonStatus" => obs = I
          [] c = 15 -> cls = "RefreshMistyped" => obs = I
          [] c = 16 -> cls = "ValidateStatus" => obs = I
          [] c = 17 -> cls = "HasJoinedStatus" => obs = I
          [] c = 18 -> cls = "HasJoinedQuery" => obs = I
          [] c = 19 -> (cls # "none" /\ obs # I) => obs = C
          [] c = 20 -> ev.unclosed = 0
          [] c = 21 -> Len(ev.reqs) = (IF ev.k \in {"settokens", "reset"} THEN 0 ELSE 1)
          [] OTHER -> TRUE
  IN {c \in 1..NChecks : ~Ok(c)}

Check == LET f == Failed IN f = {} \/ PrintT(<<"X2FAIL", l, f>>)
TraceInit == l \in 1..Len(Trace) /\ s = 0 /\ act = 0
TraceSpec == TraceInit /\ [][UNCHANGED tvars]_tvars
=============================================================================
