----------------------------- MODULE Join_Trace ------------------------------
(* Trace validation for C19 (join / status / play traffic).  The harness      *)
(* records, in one mutex-ordered log: every Write on the tapped connection    *)
(* (cut into frames afterwards by an independent frame reader that infers the *)
(* framing mode from the bytes), the values given to GamePlay.AcceptPlayer,   *)
(* the result of JoinServerWithOptions, every play packet handed to           *)
(* WritePacket (psend) and seen by a receiver (precv), and the result of      *)
(* PingAndList.  Receives of protocol packets, threshold switches and the     *)
(* login check are not observable without hooks: they are silent steps that   *)
(* TLC infers (high-water-mark acceptance).                                   *)
EXTENDS Join, Json

Trace == ndJsonDeserialize("trace.ndjson")
VARIABLES l
tvars == <<vars, l>>
Ev == Trace[l]
IsEvent(k) == l <= Len(Trace) /\ Trace[l].k = k /\ l' = l + 1

\* wire ids of the protocol packets (protocol 767), independent of data/packetid
IdOf(kind) == CASE kind \in {"handshake", "loginstart", "statusreq", "disconnect", "statusresp"} -> 0
                [] kind \in {"ping", "pong"} -> 1
                [] kind = "success" -> 2
                [] kind \in {"setcomp", "ack", "finish", "finishack"} -> 3

TReset ==
  /\ IsEvent("reset")
  /\ cfg' = Ev.cfg
  /\ bpc' = "start" /\ spc' = "start" /\ bthr' = -1 /\ sthr' = -1 /\ bpend' = -1
  /\ c2s' = <<>> /\ s2c' = <<>> /\ bout' = <<>> /\ sout' = <<>>
  /\ bsent' = <<>> /\ ssent' = <<>> /\ bgot' = <<>> /\ sgot' = <<>>
  /\ bview' = NoView /\ accepted' = None /\ bstatus' = <<<<>>, <<>>>> /\ modeErr' = FALSE

\* the frame on the wire was produced with the sender's current threshold
Wire(thr, kind) == /\ Ev.id = IdOf(kind) /\ Ev.mode = ModeOf(thr) /\ Ev.z = (thr >= 0 /\ Ev.n >= thr)
WirePlay(thr, p) == /\ Ev.id = p.id /\ Ev.n = p.n /\ Ev.sha = p.sha
                    /\ Ev.mode = ModeOf(thr) /\ Ev.z = (thr >= 0 /\ Ev.n >= thr)

TFrameB ==
  /\ IsEvent("frame") /\ Ev.dir = "c2s"
  /\ \/ bpc = "start" /\ Wire(bthr, "handshake") /\ Ev.v = cfg.proto /\ Ev.w = cfg.intent /\ BSendHandshake(Ev.n)
     \/ bpc = "hello" /\ Wire(bthr, "loginstart") /\ Ev.name = cfg.name /\ Ev.uuid = cfg.buuid /\ BSendLoginStart(Ev.n)
     \/ bpc = "sendack" /\ Wire(bthr, "ack") /\ Ev.n = 0 /\ BSendAck(Ev.n)
     \/ bpc = "sendfin" /\ Wire(bthr, "finishack") /\ Ev.n = 0 /\ BSendFinishAck(Ev.n)
     \/ bpc = "st1" /\ Wire(bthr, "statusreq") /\ Ev.n = 0 /\ BSendStatusReq(Ev.n)
     \/ bpc = "st3" /\ Wire(bthr, "ping") /\ Ev.n = 8 /\ BSendPing(Ev.uuid)
     \/ bpc = "play" /\ bout # <<>> /\ WirePlay(bthr, Head(bout)) /\ BWriter

TFrameS ==
  /\ IsEvent("frame") /\ Ev.dir = "s2c"
  /\ \/ spc = "sendcomp" /\ Wire(sthr, "setcomp") /\ Ev.v = cfg.t /\ SSendSetComp(Ev.n)
     \/ spc = "senddisc" /\ Wire(sthr, "disconnect") /\ SSendDisconnect(Ev.n)
     \/ spc = "sendsucc" /\ Wire(sthr, "success") /\ Ev.name = SrvName /\ Ev.uuid = cfg.ouuid /\ SSendSuccess(Ev.n)
     \/ spc = "sendfinish" /\ Wire(sthr, "finish") /\ Ev.n = 0 /\ SSendFinish(Ev.n)
     \/ spc \in {"resp", "resp2"} /\ Wire(sthr, "statusresp") /\ Ev.st = cfg.status /\ SSendStatusResp(Ev.n)
     \/ spc \in {"pong", "pong2"} /\ Wire(sthr, "pong") /\ Ev.n = 8 /\ Ev.uuid = sout[1].sha /\ SSendPong
     \/ spc = "play" /\ sout # <<>> /\ WirePlay(sthr, Head(sout)) /\ SWriter

Pkt == [seq |-> Ev.seq, id |-> Ev.id, n |-> Ev.n, sha |-> Ev.sha]
TPSend == /\ IsEvent("psend")
          /\ IF Ev.side = "bot" THEN Ev.seq = Len(bsent) + 1 /\ BEnqueue(Pkt)
                                ELSE Ev.seq = Len(ssent) + 1 /\ SEnqueue(Pkt)
\* what a receiver saw is the head of its channel: in order, intact
TPRecv == /\ IsEvent("precv")
          /\ IF Ev.side = "bot"
             THEN /\ s2c # <<>> /\ Head(s2c).k = "play" /\ Head(s2c).pkt = Pkt /\ BHandle
             ELSE /\ c2s # <<>> /\ Head(c2s).k = "play" /\ Head(c2s).pkt = Pkt /\ SHandle

TAccept == /\ IsEvent("accept") /\ SAccept
           /\ accepted' = [name |-> Ev.name, uuid |-> Ev.uuid, proto |-> Ev.proto]
TJoined == /\ IsEvent("joined")
           /\ IF Ev.err THEN bpc = "failed" /\ UNCHANGED vars
                        ELSE BJoined /\ bview = [name |-> Ev.name, uuid |-> Ev.uuid]
\* PingAndList returned: no error, the JSON is the status handler's, the pong was the ping
TPing == /\ IsEvent("ping") /\ bpc = "stdone" /\ Ev.err = FALSE /\ Ev.st = cfg.status
         /\ bstatus = <<cfg.status, cfg.ping>> /\ UNCHANGED vars
\* end of a scenario: nothing is left in flight when the harness saw both sides finish normally
TEnd == /\ IsEvent("end")
        /\ Ev.full => /\ c2s = <<>> /\ s2c = <<>> /\ bout = <<>> /\ sout = <<>>
                      /\ bgot = ssent /\ sgot = bsent
        /\ UNCHANGED vars

Silent == (BRecv \/ BSetThr \/ SRecv \/ SSetThr \/ SCheck) /\ UNCHANGED l

TraceInit ==      \* every scenario starts with a reset event; this state is only a typed placeholder
  /\ cfg = [t |-> -1, name |-> <<>>, ouuid |-> <<>>, buuid |-> <<>>, proto |-> 0, refuse |-> FALSE, intent |-> 0,
            pat |-> 0, status |-> <<>>, ping |-> <<>>]
  /\ bpc = "idle" /\ spc = "idle" /\ bthr = -1 /\ sthr = -1 /\ bpend = -1
  /\ c2s = <<>> /\ s2c = <<>> /\ bout = <<>> /\ sout = <<>>
  /\ bsent = <<>> /\ ssent = <<>> /\ bgot = <<>> /\ sgot = <<>>
  /\ bview = NoView /\ accepted = None /\ bstatus = <<<<>>, <<>>>> /\ modeErr = FALSE
  /\ l = 1
TraceNext == /\ (TReset \/ TFrameB \/ TFrameS \/ TPSend \/ TPRecv \/ TAccept \/ TJoined \/ TPing \/ TEnd \/ Silent)
             /\ Safety'
TraceSpec == TraceInit /\ [][TraceNext]_tvars

ASSUME TLCSet(1, 0)
HWM == TLCSet(1, IF TLCGet(1) < l THEN l ELSE TLCGet(1))
Accepted == /\ PrintT(<<"HWM", TLCGet(1), Len(Trace) + 1>>)
            /\ TLCGet(1) = Len(Trace) + 1
=============================================================================
