------------------------- MODULE ChanQueue_IndProof -------------------------
(* TLAPS proof that ChanQueue_Ind!IndInvT (= IndInv plus "buf, hpush, hpull are sequences") is an inductive
   invariant of HSpec for ARBITRARY Procs, Values, Cap, without any bound on the lengths, and implies Safety. *)
EXTENDS ChanQueue_Ind, SequenceTheorems, TLAPS

ASSUME CapNat == Cap \in Nat

LEMMA ConcatAppend == ASSUME NEW S, NEW s \in Seq(S), NEW t \in Seq(S), NEW e \in S
                      PROVE s \o Append(t, e) = Append(s \o t, e)
<1>1. Append(t, e) = t \o <<e>> /\ Append(s \o t, e) = (s \o t) \o <<e>> BY AppendIsConcat, ConcatProperties
<1>2. <<e>> \in Seq(S) OBVIOUS
<1> QED BY <1>1, <1>2, ConcatAssociative

LEMMA AppendHeadTail == ASSUME NEW S, NEW s \in Seq(S), NEW t \in Seq(S), t # <<>>
                        PROVE Append(s, Head(t)) \o Tail(t) = s \o t /\ Head(t) \in S /\ Tail(t) \in Seq(S)
<1>1. Head(t) \in S /\ Tail(t) \in Seq(S) /\ t = <<Head(t)>> \o Tail(t) BY HeadTailProperties
<1>2. Append(s, Head(t)) = s \o <<Head(t)>> BY <1>1, AppendIsConcat
<1>3. <<Head(t)>> \in Seq(S) BY <1>1
<1>4. (s \o <<Head(t)>>) \o Tail(t) = s \o (<<Head(t)>> \o Tail(t)) BY <1>1, <1>3, ConcatAssociative
<1> QED BY <1>1, <1>2, <1>4

LEMMA PrefixOfConcat == ASSUME NEW S, NEW s \in Seq(S), NEW t \in Seq(S)
                        PROVE IsPrefix(s, s \o t)
<1>1. Len(s) \in Nat /\ Len(t) \in Nat /\ DOMAIN s = 1..Len(s) BY LenProperties
<1>2. Len(s \o t) = Len(s) + Len(t) BY ConcatProperties
<1>3. \A i \in 1..Len(s) : (s \o t)[i] = s[i] BY <1>1, ConcatProperties
<1> QED BY <1>1, <1>2, <1>3 DEF IsPrefix

THEOREM Initiation == HInit => IndInvT
<1> SUFFICES ASSUME HInit PROVE IndInvT OBVIOUS
<1>1. <<>> \in Seq(Values) /\ Len(<<>>) = 0 /\ <<>> \o <<>> = <<>> OBVIOUS
<1>2. DOMAIN <<>> = {} OBVIOUS
<1> QED BY <1>1, <1>2, CapNat DEF HInit, CInit, IndInvT, IndInv, TypeOK, ElemOK, SeqTyped, Bounded, Conserved, ClosedFrozen, NoCall, Ops

THEOREM Consecution == IndInvT /\ [HNext]_hvars => IndInvT'
<1> SUFFICES ASSUME IndInvT, [HNext]_hvars PROVE IndInvT' OBVIOUS
<1> USE CapNat
<1>t. /\ buf \in Seq(Values) /\ hpush \in Seq(Values) /\ hpull \in Seq(Values)
      /\ Len(buf) \in Nat /\ Len(hpush) \in Nat /\ Len(hpull) \in Nat
  BY LenProperties DEF IndInvT, SeqTyped
<1>e. ASSUME NEW s \in Seq(Values) PROVE ElemOK(s)
  BY LenProperties, ElementOfSeq DEF ElemOK
<1>1. ASSUME NEW g \in Procs, NEW op \in {"push", "pull", "close"}, NEW v \in Values \cup {0},
             op = "push" => v \in Values, Start(g, op, v), Hist(g)
      PROVE IndInvT'
  <2>1. pend[g].op = "none" /\ UNCHANGED <<buf, closed>>
        /\ pend' = [pend EXCEPT ![g] = [op |-> op, v |-> v, lin |-> FALSE, ok |-> FALSE, r |-> 0]]
    BY <1>1 DEF Start
  <2>2. UNCHANGED <<hpush, hpull, hcl>> BY <1>1, <2>1 DEF Hist
  <2> QED BY <1>1, <2>1, <2>2 DEF IndInvT, IndInv, TypeOK, ElemOK, SeqTyped, Bounded, Conserved, ClosedFrozen, Ops
<1>2. ASSUME NEW g \in Procs, Lin(g), Hist(g) PROVE IndInvT'
  <2> USE <1>2
  <2>0. pend[g].op # "none" /\ ~pend[g].lin BY DEF Lin, LinCap
  <2>1. CASE pend[g].op = "push" /\ ~closed /\ Len(buf) < Cap
    <3>1. buf' = Append(buf, pend[g].v) /\ pend' = [pend EXCEPT ![g].lin = TRUE, ![g].ok = TRUE] /\ closed' = closed
      BY <2>1 DEF Lin, LinCap
    <3>2. pend[g].v \in Values BY <2>1 DEF IndInvT, IndInv, TypeOK
    <3>3. pend'[g].lin /\ pend'[g].ok /\ pend'[g].op = "push" BY <3>1, <2>1 DEF IndInvT, IndInv, TypeOK
    <3>4. hpush' = Append(hpush, pend[g].v) /\ hpull' = hpull /\ hcl' = hcl
      BY <2>0, <2>1, <3>3 DEF Hist
    <3>5. hpull \o Append(buf, pend[g].v) = Append(hpull \o buf, pend[g].v)
      BY <1>t, <3>2, ConcatAppend
    <3>6. buf' \in Seq(Values) /\ hpush' \in Seq(Values) /\ Len(buf') = Len(buf) + 1 /\ Len(hpush') = Len(hpush) + 1
      BY <1>t, <3>1, <3>2, <3>4, AppendProperties
    <3>7. Conserved' BY <3>1, <3>4, <3>5 DEF Conserved, IndInvT, IndInv
    <3>8. Bounded' BY <3>6, <2>1, <1>t DEF Bounded
    <3>9. ClosedFrozen' BY <3>1, <3>4, <2>1 DEF ClosedFrozen, IndInvT, IndInv
    <3>10. SeqTyped' BY <3>6, <3>4, <1>t DEF SeqTyped
    <3>11. ElemOK(buf') /\ ElemOK(hpush') /\ ElemOK(hpull') BY <3>10, <1>e DEF SeqTyped
    <3>12. TypeOK' BY <3>1, <3>4, <3>11 DEF TypeOK, IndInvT, IndInv, Ops
    <3> QED BY <3>7, <3>8, <3>9, <3>10, <3>12 DEF IndInvT, IndInv
  <2>2. CASE pend[g].op = "push" /\ ~closed /\ ~(Len(buf) < Cap)
    <3>1. buf' = buf /\ pend' = [pend EXCEPT ![g].lin = TRUE, ![g].ok = FALSE] /\ closed' = closed
      BY <2>2 DEF Lin, LinCap
    <3>3. ~pend'[g].ok /\ pend'[g].op = "push" BY <3>1, <2>2 DEF IndInvT, IndInv, TypeOK
    <3>4. UNCHANGED <<hpush, hpull, hcl>> BY <2>2, <3>3 DEF Hist
    <3> QED BY <3>1, <3>4 DEF IndInvT, IndInv, TypeOK, ElemOK, SeqTyped, Bounded, Conserved, ClosedFrozen, Ops
  <2>3. CASE pend[g].op = "pull" /\ buf # <<>>
    <3>1. buf' = Tail(buf) /\ pend' = [pend EXCEPT ![g].lin = TRUE, ![g].ok = TRUE, ![g].r = Head(buf)] /\ closed' = closed
      BY <2>3 DEF Lin, LinCap
    <3>2. Append(hpull, Head(buf)) \o Tail(buf) = hpull \o buf /\ Head(buf) \in Values /\ Tail(buf) \in Seq(Values)
      BY <1>t, <2>3, AppendHeadTail
    <3>3. pend'[g].lin /\ pend'[g].ok /\ pend'[g].op = "pull" /\ pend'[g].r = Head(buf)
      BY <3>1, <2>3 DEF IndInvT, IndInv, TypeOK
    <3>4. hpull' = Append(hpull, Head(buf)) /\ hpush' = hpush /\ hcl' = hcl
      BY <2>0, <2>3, <3>3 DEF Hist
    <3>5. Len(buf') = Len(buf) - 1 BY <1>t, <2>3, <3>1, HeadTailProperties
    <3>6. hpull' \in Seq(Values) BY <1>t, <3>2, <3>4, AppendProperties
    <3>7. Conserved' BY <3>1, <3>2, <3>4 DEF Conserved, IndInvT, IndInv
    <3>8. Bounded' BY <3>5, <1>t DEF Bounded, IndInvT, IndInv
    <3>9. ClosedFrozen' BY <3>1, <3>4 DEF ClosedFrozen, IndInvT, IndInv
    <3>10. SeqTyped' BY <3>1, <3>2, <3>4, <3>6, <1>t DEF SeqTyped
    <3>11. ElemOK(buf') /\ ElemOK(hpush') /\ ElemOK(hpull') BY <3>10, <1>e DEF SeqTyped
    <3>12. TypeOK' BY <3>1, <3>2, <3>4, <3>11 DEF TypeOK, IndInvT, IndInv, Ops
    <3> QED BY <3>7, <3>8, <3>9, <3>10, <3>12 DEF IndInvT, IndInv
  <2>4. CASE pend[g].op = "pull" /\ buf = <<>> /\ closed
    <3>1. buf' = buf /\ pend' = [pend EXCEPT ![g].lin = TRUE, ![g].ok = FALSE] /\ closed' = closed
      BY <2>4 DEF Lin, LinCap
    <3>3. ~pend'[g].ok /\ pend'[g].op = "pull" BY <3>1, <2>4 DEF IndInvT, IndInv, TypeOK
    <3>4. UNCHANGED <<hpush, hpull, hcl>> BY <2>4, <3>3 DEF Hist
    <3> QED BY <3>1, <3>4 DEF IndInvT, IndInv, TypeOK, ElemOK, SeqTyped, Bounded, Conserved, ClosedFrozen, Ops
  <2>5. CASE pend[g].op = "close" /\ ~closed
    <3>1. buf' = buf /\ pend' = [pend EXCEPT ![g].lin = TRUE, ![g].ok = TRUE] /\ closed' = TRUE
      BY <2>5 DEF Lin, LinCap
    <3>3. pend'[g].lin /\ pend'[g].op = "close" BY <3>1, <2>5 DEF IndInvT, IndInv, TypeOK
    <3>4. hpush' = hpush /\ hpull' = hpull /\ hcl' = Len(hpush) BY <2>0, <2>5, <3>3 DEF Hist
    <3> QED BY <3>1, <3>4, <1>t DEF IndInvT, IndInv, TypeOK, ElemOK, SeqTyped, Bounded, Conserved, ClosedFrozen, Ops
  <2> QED BY <2>1, <2>2, <2>3, <2>4, <2>5 DEF Lin, LinCap
<1>3. ASSUME NEW g \in Procs, NEW ok \in BOOLEAN, NEW r \in Values \cup {0}, End(g, ok, r), Hist(g) PROVE IndInvT'
  <2>1. pend[g].lin /\ UNCHANGED <<buf, closed>> /\ pend' = [pend EXCEPT ![g] = NoCall]
    BY <1>3 DEF End
  <2>2. UNCHANGED <<hpush, hpull, hcl>> BY <1>3, <2>1 DEF Hist
  <2> QED BY <2>1, <2>2 DEF IndInvT, IndInv, TypeOK, ElemOK, SeqTyped, Bounded, Conserved, ClosedFrozen, Ops, NoCall
<1>4. CASE UNCHANGED hvars
  BY <1>4 DEF IndInvT, IndInv, TypeOK, ElemOK, SeqTyped, Bounded, Conserved, ClosedFrozen, hvars
<1> QED BY <1>1, <1>2, <1>3, <1>4 DEF HNext, Step

THEOREM Implication == IndInvT => Safety
<1> SUFFICES ASSUME IndInvT PROVE Safety OBVIOUS
<1>1. IsPrefix(hpull, hpull \o buf) BY PrefixOfConcat DEF IndInvT, SeqTyped
<1> QED BY <1>1 DEF IndInvT, IndInv, Conserved, ClosedFrozen, Safety

THEOREM Unbounded == HSpec => []Safety
<1>1. HInit => IndInvT BY Initiation
<1>2. IndInvT /\ [HNext]_hvars => IndInvT' BY Consecution
<1>3. IndInvT => Safety BY Implication
<1> QED BY <1>1, <1>2, <1>3, PTL DEF HSpec
=============================================================================
