------------------------- MODULE PlayerList_IndApa --------------------------
(* Apalache entry points for PlayerList_Ind (X09).  Sets are bounded by the universes below,
   MaxCap, cap and the result fields are unbounded integers. *)
EXTENDS PlayerList_Ind, Apalache
\* every subset of a 4-element universe of goroutines and of a 5-element universe of clients, ANY capacity bound
ConstInit == /\ Procs \in SUBSET (1..4)
             /\ Clients \in SUBSET (1..5)
             /\ MaxCap \in Nat
\* an arbitrary state (Gen(n): any value of the variable's type with collections of at most n elements) ...
Arbitrary == players = Gen(5) /\ cap = Gen(1) /\ pend = Gen(4)
\* ... that satisfies the invariant
IndInit == Arbitrary /\ IndInv
IndInitWeak == Arbitrary /\ IndInvWeak
=============================================================================
