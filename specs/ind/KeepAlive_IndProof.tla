-------------------------- MODULE KeepAlive_IndProof --------------------------
(* TLAPS proof, on the ORIGINAL module KeepAlive.tla (X01): InOneList-as-ListOK and TimeOrder are an inductive
   invariant of the full timed specification KeepAlive!Spec for ARBITRARY Players, P, W, MaxId and every setting of
   Variant, AsyncChan, Urgent, without any bound on the lists.  IndInv is the text of KeepAlive_Ind!IndInv (the X09
   driver compares the lines between the markers). *)
EXTENDS KeepAlive, SequenceTheorems, FiniteSetTheorems, TLAPS

ASSUME WNat == W \in Nat

\* BEGIN-COPY
States == {"out", "ping", "wait", "kicked"}
ListOK(L, s) == /\ \A i \in DOMAIN L : L[i] = [p |-> L[i].p, t |-> L[i].t] /\ L[i].p \in Players /\ L[i].t \in 0..Cap
                /\ \A i, j \in DOMAIN L : i # j => L[i].p # L[j].p          \* listed at most once
                /\ \A i \in DOMAIN L : st[L[i].p] = s                        \* listed => in that state
                /\ \A p \in Players : st[p] = s => \E i \in DOMAIN L : L[i].p = p   \* in that state => listed
\* END-COPY
TypeOKL == DOMAIN st = Players /\ \A p \in Players : st[p] \in States
SortedD(L) == \A i, j \in DOMAIN L : i < j => L[i].t >= L[j].t
IndInv == TypeOKL /\ ListOK(pingL, "ping") /\ ListOK(waitL, "wait") /\ SortedD(pingL) /\ SortedD(waitL)
\* "is a sequence of items" (Apalache knows it from the type annotations)
R == [p : Players, t : 0..Cap]
IndInvT == IndInv /\ pingL \in Seq(R) /\ waitL \in Seq(R)

(* ---------------------------------------------------------------- Without = SelectSeq, by induction on Append *)
WithoutOK(L, p) ==
  LET V == Without(L, p) IN
  /\ V \in Seq(R) /\ Len(V) <= Len(L)
  /\ \A k \in 1..Len(V) : V[k].p # p /\ \E i \in 1..Len(L) : L[i] = V[k]
  /\ \A i \in 1..Len(L) : L[i].p # p => \E k \in 1..Len(V) : V[k] = L[i]
  /\ \A k1, k2 \in 1..Len(V) : k1 < k2 => \E i1, i2 \in 1..Len(L) : i1 < i2 /\ L[i1] = V[k1] /\ L[i2] = V[k2]

LEMMA WithoutEmpty == ASSUME NEW p PROVE Without(<<>>, p) = <<>>
  BY DEF Without
LEMMA WithoutAppend == ASSUME NEW L \in Seq(R), NEW e \in R, NEW p
  PROVE Without(Append(L, e), p) = IF e.p # p THEN Append(Without(L, p), e) ELSE Without(L, p)
  BY DEF Without

LEMMA WithoutLemma == ASSUME NEW p PROVE \A L \in Seq(R) : WithoutOK(L, p)
<1> DEFINE Q(L) == WithoutOK(L, p)
<1>1. Q(<<>>)
  <2>1. Without(<<>>, p) = <<>> BY WithoutEmpty
  <2>2. <<>> \in Seq(R) /\ Len(<<>>) = 0 OBVIOUS
  <2> QED BY <2>1, <2>2 DEF WithoutOK
<1>2. ASSUME NEW L \in Seq(R), NEW e \in R, Q(L) PROVE Q(Append(L, e))
  <2> DEFINE V == Without(L, p)
             L2 == Append(L, e)
             V2 == Without(L2, p)
  <2>0. /\ V \in Seq(R) /\ Len(V) <= Len(L) /\ Len(V) \in Nat /\ Len(L) \in Nat
        /\ \A k \in 1..Len(V) : V[k].p # p /\ \E i \in 1..Len(L) : L[i] = V[k]
        /\ \A i \in 1..Len(L) : L[i].p # p => \E k \in 1..Len(V) : V[k] = L[i]
        /\ \A k1, k2 \in 1..Len(V) : k1 < k2 => \E i1, i2 \in 1..Len(L) : i1 < i2 /\ L[i1] = V[k1] /\ L[i2] = V[k2]
    BY <1>2, LenProperties DEF WithoutOK
  <2>1. /\ L2 \in Seq(R) /\ Len(L2) = Len(L) + 1 /\ L2[Len(L) + 1] = e
        /\ \A i \in 1..Len(L) : L2[i] = L[i]
    BY AppendProperties
  <2>2. CASE e.p = p
    <3>1. V2 = V BY <2>2, WithoutAppend
    <3>2. \A k \in 1..Len(V) : \E i \in 1..Len(L2) : L2[i] = V[k] BY <2>0, <2>1
    <3>3. \A i \in 1..Len(L2) : L2[i].p # p => \E k \in 1..Len(V) : V[k] = L2[i] BY <2>0, <2>1, <2>2
    <3>4. \A k1, k2 \in 1..Len(V) : k1 < k2 => \E i1, i2 \in 1..Len(L2) : i1 < i2 /\ L2[i1] = V[k1] /\ L2[i2] = V[k2]
      <4> SUFFICES ASSUME NEW k1 \in 1..Len(V), NEW k2 \in 1..Len(V), k1 < k2
                   PROVE \E i1, i2 \in 1..Len(L2) : i1 < i2 /\ L2[i1] = V[k1] /\ L2[i2] = V[k2] OBVIOUS
      <4>1. PICK i1 \in 1..Len(L), i2 \in 1..Len(L) : i1 < i2 /\ L[i1] = V[k1] /\ L[i2] = V[k2] BY <2>0
      <4>2. i1 \in 1..Len(L2) /\ i2 \in 1..Len(L2) /\ L2[i1] = L[i1] /\ L2[i2] = L[i2] BY <2>0, <2>1
      <4> QED BY <4>1, <4>2
    <3> QED BY <3>1, <3>2, <3>3, <3>4, <2>0, <2>1 DEF WithoutOK
  <2>3. CASE e.p # p
    <3>1. V2 = Append(V, e) BY <2>3, WithoutAppend
    <3>2. /\ V2 \in Seq(R) /\ Len(V2) = Len(V) + 1 /\ V2[Len(V) + 1] = e
          /\ \A k \in 1..Len(V) : V2[k] = V[k]
      BY <3>1, <2>0, AppendProperties
    <3>3. \A k \in 1..Len(V2) : V2[k].p # p /\ \E i \in 1..Len(L2) : L2[i] = V2[k]
      <4> SUFFICES ASSUME NEW k \in 1..Len(V2) PROVE V2[k].p # p /\ \E i \in 1..Len(L2) : L2[i] = V2[k] OBVIOUS
      <4>1. CASE k <= Len(V)
        <5>1. V2[k] = V[k] /\ k \in 1..Len(V) BY <4>1, <3>2, <2>0
        <5>2. PICK i \in 1..Len(L) : L[i] = V[k] BY <5>1, <2>0
        <5>3. i \in 1..Len(L2) /\ L2[i] = L[i] BY <2>0, <2>1
        <5> QED BY <5>1, <5>2, <5>3, <2>0
      <4>2. CASE k = Len(V) + 1
        <5>1. V2[k] = e /\ Len(L) + 1 \in 1..Len(L2) /\ L2[Len(L) + 1] = e BY <4>2, <3>2, <2>0, <2>1
        <5> QED BY <5>1, <2>3
      <4> QED BY <4>1, <4>2, <3>2, <2>0
    <3>4. \A i \in 1..Len(L2) : L2[i].p # p => \E k \in 1..Len(V2) : V2[k] = L2[i]
      <4> SUFFICES ASSUME NEW i \in 1..Len(L2), L2[i].p # p PROVE \E k \in 1..Len(V2) : V2[k] = L2[i] OBVIOUS
      <4>1. CASE i <= Len(L)
        <5>1. L2[i] = L[i] /\ i \in 1..Len(L) BY <4>1, <2>0, <2>1
        <5>2. PICK k \in 1..Len(V) : V[k] = L[i] BY <5>1, <2>0
        <5>3. k \in 1..Len(V2) /\ V2[k] = V[k] BY <3>2, <2>0
        <5> QED BY <5>1, <5>2, <5>3
      <4>2. CASE i = Len(L) + 1
        <5>1. L2[i] = e /\ Len(V) + 1 \in 1..Len(V2) /\ V2[Len(V) + 1] = e BY <4>2, <2>1, <3>2, <2>0
        <5> QED BY <5>1
      <4> QED BY <4>1, <4>2, <2>0, <2>1
    <3>5. \A k1, k2 \in 1..Len(V2) : k1 < k2 => \E i1, i2 \in 1..Len(L2) : i1 < i2 /\ L2[i1] = V2[k1] /\ L2[i2] = V2[k2]
      <4> SUFFICES ASSUME NEW k1 \in 1..Len(V2), NEW k2 \in 1..Len(V2), k1 < k2
                   PROVE \E i1, i2 \in 1..Len(L2) : i1 < i2 /\ L2[i1] = V2[k1] /\ L2[i2] = V2[k2] OBVIOUS
      <4>0. k1 \in 1..Len(V) /\ V2[k1] = V[k1] BY <3>2, <2>0
      <4>1. CASE k2 <= Len(V)
        <5>1. k2 \in 1..Len(V) /\ V2[k2] = V[k2] BY <4>1, <3>2, <2>0
        <5>2. PICK i1 \in 1..Len(L), i2 \in 1..Len(L) : i1 < i2 /\ L[i1] = V[k1] /\ L[i2] = V[k2] BY <4>0, <5>1, <2>0
        <5>3. i1 \in 1..Len(L2) /\ i2 \in 1..Len(L2) /\ L2[i1] = L[i1] /\ L2[i2] = L[i2] BY <2>0, <2>1
        <5> QED BY <4>0, <5>1, <5>2, <5>3
      <4>2. CASE k2 = Len(V) + 1
        <5>1. V2[k2] = e BY <4>2, <3>2
        <5>2. PICK i1 \in 1..Len(L) : L[i1] = V[k1] BY <4>0, <2>0
        <5>3. i1 \in 1..Len(L2) /\ L2[i1] = L[i1] /\ Len(L) + 1 \in 1..Len(L2) /\ L2[Len(L) + 1] = e /\ i1 < Len(L) + 1
          BY <2>0, <2>1
        <5> QED BY <4>0, <5>1, <5>2, <5>3
      <4> QED BY <4>1, <4>2, <3>2, <2>0
    <3>6. Len(V2) <= Len(L2) BY <3>2, <2>0, <2>1
    <3> QED BY <3>2, <3>3, <3>4, <3>5, <3>6 DEF WithoutOK
  <2> QED BY <2>2, <2>3
<1> HIDE DEF Q
<1>3. \A L \in Seq(R) : Q(L) BY <1>1, <1>2, SequencesInductionAppend, IsaM("blast")
<1> QED BY <1>3 DEF Q

(* ---------------------------------------------------------------- ListOK with the state function as a parameter *)
LOK(L, s, f) == /\ \A i \in DOMAIN L : L[i] = [p |-> L[i].p, t |-> L[i].t] /\ L[i].p \in Players /\ L[i].t \in 0..Cap
                /\ \A i, j \in DOMAIN L : i # j => L[i].p # L[j].p
                /\ \A i \in DOMAIN L : f[L[i].p] = s
                /\ \A p \in Players : f[p] = s => \E i \in DOMAIN L : L[i].p = p

LEMMA SeqR == ASSUME NEW L \in Seq(R)
              PROVE /\ Len(L) \in Nat /\ DOMAIN L = 1..Len(L)
                    /\ \A i \in 1..Len(L) : L[i] \in R /\ L[i] = [p |-> L[i].p, t |-> L[i].t] /\ L[i].p \in Players /\ L[i].t \in 0..Cap
  BY LenProperties, ElementOfSeq DEF R

LEMMA ItemR == ASSUME NEW p \in Players PROVE Item(p, 0) \in R /\ Item(p, 0).p = p /\ Item(p, 0).t = 0
  BY WNat DEF Item, R, Cap

(* A: a player that is not in state s enters the list at the end and gets state s *)
LEMMA LOKAppend ==
  ASSUME NEW L \in Seq(R), NEW s, NEW f, DOMAIN f = Players, LOK(L, s, f), NEW p \in Players, f[p] # s
  PROVE  LOK(Append(L, Item(p, 0)), s, [f EXCEPT ![p] = s]) /\ Append(L, Item(p, 0)) \in Seq(R)
<1> DEFINE L2 == Append(L, Item(p, 0))
           g == [f EXCEPT ![p] = s]
<1>1. /\ L2 \in Seq(R) /\ Len(L2) = Len(L) + 1 /\ L2[Len(L) + 1] = Item(p, 0)
      /\ \A i \in 1..Len(L) : L2[i] = L[i]
  BY ItemR, AppendProperties
<1>2. /\ Len(L) \in Nat /\ DOMAIN L = 1..Len(L) /\ DOMAIN L2 = 1..(Len(L) + 1)
  BY <1>1, SeqR
<1>3. g[p] = s /\ \A q \in Players : q # p => g[q] = f[q] OBVIOUS
<1>4. \A i \in 1..Len(L) : L[i].p # p /\ L[i].p \in Players BY <1>2, SeqR DEF LOK
<1>5. \A i \in 1..(Len(L) + 1) : L2[i].p = (IF i <= Len(L) THEN L[i].p ELSE p)
  BY <1>1, <1>2, ItemR
<1>6. \A i \in DOMAIN L2 : L2[i] = [p |-> L2[i].p, t |-> L2[i].t] /\ L2[i].p \in Players /\ L2[i].t \in 0..Cap
  BY <1>1, SeqR
<1>7. \A i, j \in DOMAIN L2 : i # j => L2[i].p # L2[j].p
  BY <1>2, <1>4, <1>5 DEF LOK
<1>8. \A i \in DOMAIN L2 : g[L2[i].p] = s
  BY <1>2, <1>3, <1>4, <1>5 DEF LOK
<1>9. \A q \in Players : g[q] = s => \E i \in DOMAIN L2 : L2[i].p = q
  <2> SUFFICES ASSUME NEW q \in Players, g[q] = s PROVE \E i \in DOMAIN L2 : L2[i].p = q OBVIOUS
  <2>1. CASE q = p BY <2>1, <1>2, <1>5
  <2>2. CASE q # p
    <3>1. f[q] = s BY <2>2, <1>3
    <3>2. PICK i \in DOMAIN L : L[i].p = q BY <3>1 DEF LOK
    <3> QED BY <3>2, <1>2, <1>5
  <2> QED BY <2>1, <2>2
<1> QED BY <1>1, <1>6, <1>7, <1>8, <1>9 DEF LOK

(* B: a player outside of the list changes between two states other than s *)
LEMMA LOKFrame ==
  ASSUME NEW L \in Seq(R), NEW s, NEW f, DOMAIN f = Players, LOK(L, s, f), NEW p \in Players, f[p] # s, NEW s2, s2 # s
  PROVE  LOK(L, s, [f EXCEPT ![p] = s2])
<1> DEFINE g == [f EXCEPT ![p] = s2]
<1>1. g[p] = s2 /\ \A q \in Players : q # p => g[q] = f[q] OBVIOUS
<1>2. \A i \in DOMAIN L : L[i].p # p /\ L[i].p \in Players BY DEF LOK
<1> QED BY <1>1, <1>2 DEF LOK

(* C: a player is filtered out of the list and gets a state other than s *)
LEMMA LOKWithout ==
  ASSUME NEW L \in Seq(R), NEW s, NEW f, DOMAIN f = Players, LOK(L, s, f), NEW p \in Players, NEW s2, s2 # s
  PROVE  LOK(Without(L, p), s, [f EXCEPT ![p] = s2]) /\ Without(L, p) \in Seq(R)
<1> DEFINE V == Without(L, p)
           g == [f EXCEPT ![p] = s2]
<1>0. WithoutOK(L, p) BY WithoutLemma
<1>1. /\ V \in Seq(R) /\ Len(V) <= Len(L)
      /\ \A k \in 1..Len(V) : V[k].p # p /\ \E i \in 1..Len(L) : L[i] = V[k]
      /\ \A i \in 1..Len(L) : L[i].p # p => \E k \in 1..Len(V) : V[k] = L[i]
      /\ \A k1, k2 \in 1..Len(V) : k1 < k2 => \E i1, i2 \in 1..Len(L) : i1 < i2 /\ L[i1] = V[k1] /\ L[i2] = V[k2]
  BY <1>0 DEF WithoutOK
<1>2. /\ Len(L) \in Nat /\ DOMAIN L = 1..Len(L) /\ Len(V) \in Nat /\ DOMAIN V = 1..Len(V)
  BY <1>1, SeqR
<1>3. g[p] = s2 /\ \A q \in Players : q # p => g[q] = f[q] OBVIOUS
<1>4. \A i \in DOMAIN V : V[i] = [p |-> V[i].p, t |-> V[i].t] /\ V[i].p \in Players /\ V[i].t \in 0..Cap
  BY <1>1, <1>2, SeqR
<1>5. \A k1, k2 \in DOMAIN V : k1 # k2 => V[k1].p # V[k2].p
  <2> SUFFICES ASSUME NEW k1 \in 1..Len(V), NEW k2 \in 1..Len(V), k1 < k2 PROVE V[k1].p # V[k2].p
    BY <1>2
  <2>1. PICK i1 \in 1..Len(L), i2 \in 1..Len(L) : i1 < i2 /\ L[i1] = V[k1] /\ L[i2] = V[k2] BY <1>1
  <2> QED BY <2>1, <1>2 DEF LOK
<1>6. \A k \in DOMAIN V : g[V[k].p] = s
  <2> SUFFICES ASSUME NEW k \in 1..Len(V) PROVE g[V[k].p] = s BY <1>2
  <2>1. PICK i \in 1..Len(L) : L[i] = V[k] BY <1>1
  <2>2. V[k].p # p /\ V[k].p \in Players /\ f[V[k].p] = s BY <2>1, <1>1, <1>2 DEF LOK
  <2> QED BY <2>2, <1>3
<1>7. \A q \in Players : g[q] = s => \E k \in DOMAIN V : V[k].p = q
  <2> SUFFICES ASSUME NEW q \in Players, g[q] = s PROVE \E k \in DOMAIN V : V[k].p = q OBVIOUS
  <2>1. q # p /\ f[q] = s BY <1>3
  <2>2. PICK i \in DOMAIN L : L[i].p = q BY <2>1 DEF LOK
  <2>3. PICK k \in 1..Len(V) : V[k] = L[i] BY <2>1, <2>2, <1>1, <1>2
  <2> QED BY <2>2, <2>3, <1>2
<1> QED BY <1>1, <1>4, <1>5, <1>6, <1>7 DEF LOK

(* D: the head leaves the list and gets a state other than s *)
LEMMA LOKTail ==
  ASSUME NEW L \in Seq(R), NEW s, NEW f, DOMAIN f = Players, LOK(L, s, f), L # <<>>, NEW s2, s2 # s
  PROVE  LOK(Tail(L), s, [f EXCEPT ![L[1].p] = s2]) /\ Tail(L) \in Seq(R) /\ L[1].p \in Players /\ f[L[1].p] = s
<1> DEFINE V == Tail(L)
           h == L[1].p
           g == [f EXCEPT ![h] = s2]
<1>0. Len(L) \in Nat /\ DOMAIN L = 1..Len(L) /\ Len(L) >= 1
  <2>1. Len(L) # 0 BY EmptySeq
  <2> QED BY <2>1, SeqR
<1>1. /\ V \in Seq(R) /\ Len(V) = Len(L) - 1 /\ \A i \in 1..(Len(L) - 1) : V[i] = L[i + 1]
  BY <1>0, HeadTailProperties
<1>2. DOMAIN V = 1..(Len(L) - 1) /\ Len(V) \in Nat BY <1>1, SeqR
<1>3. h \in Players /\ f[h] = s /\ g[h] = s2 /\ \A q \in Players : q # h => g[q] = f[q]
  BY <1>0 DEF LOK
<1>4. \A i \in DOMAIN V : V[i] = [p |-> V[i].p, t |-> V[i].t] /\ V[i].p \in Players /\ V[i].t \in 0..Cap
  BY <1>1, <1>2, SeqR
<1>5. \A i \in 1..(Len(L) - 1) : V[i].p = L[i + 1].p /\ i + 1 \in DOMAIN L /\ L[i + 1].p # h /\ L[i + 1].p \in Players
  BY <1>0, <1>1 DEF LOK
<1>6. \A i, j \in DOMAIN V : i # j => V[i].p # V[j].p
  <2> SUFFICES ASSUME NEW i \in 1..(Len(L) - 1), NEW j \in 1..(Len(L) - 1), i # j PROVE V[i].p # V[j].p BY <1>2
  <2>1. i + 1 \in DOMAIN L /\ j + 1 \in DOMAIN L /\ i + 1 # j + 1 BY <1>0
  <2> QED BY <2>1, <1>5 DEF LOK
<1>7. \A i \in DOMAIN V : g[V[i].p] = s
  BY <1>2, <1>3, <1>5 DEF LOK
<1>8. \A q \in Players : g[q] = s => \E i \in DOMAIN V : V[i].p = q
  <2> SUFFICES ASSUME NEW q \in Players, g[q] = s PROVE \E i \in DOMAIN V : V[i].p = q OBVIOUS
  <2>1. q # h /\ f[q] = s BY <1>3
  <2>2. PICK i \in DOMAIN L : L[i].p = q BY <2>1 DEF LOK
  <2>3. i # 1 /\ i - 1 \in 1..(Len(L) - 1) /\ (i - 1) + 1 = i BY <2>1, <2>2, <1>0
  <2>4. V[i - 1].p = q BY <2>2, <2>3, <1>5
  <2> QED BY <2>3, <2>4, <1>2
<1> QED BY <1>1, <1>3, <1>4, <1>6, <1>7, <1>8 DEF LOK

(* E: every entry ages by one *)
LEMMA LOKOlder ==
  ASSUME NEW L \in Seq(R), NEW s, NEW f, LOK(L, s, f)
  PROVE  LOK(Older(L), s, f) /\ Older(L) \in Seq(R) /\ (SortedD(L) => SortedD(Older(L)))
<1> DEFINE V == Older(L)
<1>0. Len(L) \in Nat /\ DOMAIN L = 1..Len(L) BY SeqR
<1>1. V = [i \in 1..Len(L) |-> Item(L[i].p, Min(L[i].t + 1, Cap))] BY DEF Older
<1>2. \A i \in 1..Len(L) : V[i].p = L[i].p /\ V[i].t = Min(L[i].t + 1, Cap) /\ V[i] \in R /\ V[i].t \in 0..Cap
  <2> SUFFICES ASSUME NEW i \in 1..Len(L) PROVE V[i].p = L[i].p /\ V[i].t = Min(L[i].t + 1, Cap) /\ V[i] \in R /\ V[i].t \in 0..Cap
    OBVIOUS
  <2>1. L[i].p \in Players /\ L[i].t \in 0..Cap BY SeqR
  <2>2. Min(L[i].t + 1, Cap) \in 0..Cap BY <2>1, WNat DEF Min, Cap
  <2> QED BY <1>1, <2>1, <2>2 DEF Item, R
<1>3. V \in Seq(R) /\ DOMAIN V = 1..Len(L) /\ Len(V) = Len(L)
  <2>1. V \in [1..Len(L) -> R] BY <1>1, <1>2
  <2> QED BY <2>1, <1>0, IsASeq, LenProperties
<1>4. LOK(V, s, f)
  BY <1>0, <1>2, <1>3, SeqR DEF LOK
<1>5. ASSUME SortedD(L) PROVE SortedD(V)
  <2> SUFFICES ASSUME NEW i \in 1..Len(L), NEW j \in 1..Len(L), i < j PROVE V[i].t >= V[j].t BY <1>3 DEF SortedD
  <2>1. L[i].t >= L[j].t /\ L[i].t \in 0..Cap /\ L[j].t \in 0..Cap BY <1>5, <1>0, SeqR DEF SortedD
  <2>2. Min(L[i].t + 1, Cap) >= Min(L[j].t + 1, Cap) BY <2>1, WNat DEF Min, Cap
  <2> QED BY <1>2, <2>2
<1> QED BY <1>3, <1>4, <1>5

(* the time order under the three list operations *)
LEMMA SortedAppend == ASSUME NEW L \in Seq(R), SortedD(L), NEW p \in Players PROVE SortedD(Append(L, Item(p, 0)))
<1> DEFINE L2 == Append(L, Item(p, 0))
<1>1. /\ L2 \in Seq(R) /\ Len(L2) = Len(L) + 1 /\ L2[Len(L) + 1] = Item(p, 0) /\ \A i \in 1..Len(L) : L2[i] = L[i]
  BY ItemR, AppendProperties
<1>2. Len(L) \in Nat /\ DOMAIN L = 1..Len(L) /\ DOMAIN L2 = 1..(Len(L) + 1) BY <1>1, SeqR
<1> SUFFICES ASSUME NEW i \in 1..(Len(L) + 1), NEW j \in 1..(Len(L) + 1), i < j PROVE L2[i].t >= L2[j].t
  BY <1>2 DEF SortedD
<1>3. i \in 1..Len(L) /\ L2[i] = L[i] /\ L[i].t \in 0..Cap BY <1>1, <1>2, SeqR
<1>4. CASE j <= Len(L) BY <1>4, <1>1, <1>2, <1>3 DEF SortedD
<1>5. CASE j = Len(L) + 1 BY <1>5, <1>1, <1>3, ItemR
<1> QED BY <1>4, <1>5, <1>2

LEMMA SortedTail == ASSUME NEW L \in Seq(R), SortedD(L), L # <<>> PROVE SortedD(Tail(L))
<1>0. Len(L) \in Nat /\ DOMAIN L = 1..Len(L) /\ Len(L) >= 1
  <2>1. Len(L) # 0 BY EmptySeq
  <2> QED BY <2>1, SeqR
<1>1. /\ Tail(L) \in Seq(R) /\ Len(Tail(L)) = Len(L) - 1 /\ \A i \in 1..(Len(L) - 1) : Tail(L)[i] = L[i + 1]
  BY <1>0, HeadTailProperties
<1>2. DOMAIN Tail(L) = 1..(Len(L) - 1) BY <1>1, SeqR
<1> SUFFICES ASSUME NEW i \in 1..(Len(L) - 1), NEW j \in 1..(Len(L) - 1), i < j PROVE Tail(L)[i].t >= Tail(L)[j].t
  BY <1>2 DEF SortedD
<1>3. i + 1 \in DOMAIN L /\ j + 1 \in DOMAIN L /\ i + 1 < j + 1 BY <1>0
<1> QED BY <1>1, <1>3 DEF SortedD

LEMMA SortedWithout == ASSUME NEW L \in Seq(R), SortedD(L), NEW p PROVE SortedD(Without(L, p))
<1> DEFINE V == Without(L, p)
<1>0. WithoutOK(L, p) BY WithoutLemma
<1>1. /\ V \in Seq(R)
      /\ \A k1, k2 \in 1..Len(V) : k1 < k2 => \E i1, i2 \in 1..Len(L) : i1 < i2 /\ L[i1] = V[k1] /\ L[i2] = V[k2]
  BY <1>0 DEF WithoutOK
<1>2. DOMAIN V = 1..Len(V) /\ DOMAIN L = 1..Len(L) BY <1>1, SeqR
<1> SUFFICES ASSUME NEW k1 \in 1..Len(V), NEW k2 \in 1..Len(V), k1 < k2 PROVE V[k1].t >= V[k2].t
  BY <1>2 DEF SortedD
<1>3. PICK i1 \in 1..Len(L), i2 \in 1..Len(L) : i1 < i2 /\ L[i1] = V[k1] /\ L[i2] = V[k2] BY <1>1
<1> QED BY <1>3, <1>2 DEF SortedD

(* ---------------------------------------------------------------- the six list operations and the clock tick *)
LEMMA Bridge == /\ ListOK(pingL, "ping") <=> LOK(pingL, "ping", st)
                /\ ListOK(waitL, "wait") <=> LOK(waitL, "wait", st)
                /\ (ListOK(pingL, "ping"))' <=> LOK(pingL', "ping", st')
                /\ (ListOK(waitL, "wait"))' <=> LOK(waitL', "wait", st')
  BY DEF ListOK, LOK

LEMMA StatesDistinct == "out" # "ping" /\ "out" # "wait" /\ "out" # "kicked" /\ "ping" # "wait" /\ "ping" # "kicked" /\ "wait" # "kicked"
  OBVIOUS

LEMMA Unchanged == ASSUME IndInvT, UNCHANGED lvars PROVE IndInvT'
  BY DEF IndInvT, IndInv, TypeOKL, ListOK, SortedD, lvars

LEMMA StepJoin == ASSUME IndInvT, NEW p \in Players, LJoin(p, 0) PROVE IndInvT'
<1>0. /\ pingL \in Seq(R) /\ waitL \in Seq(R) /\ DOMAIN st = Players /\ LOK(pingL, "ping", st) /\ LOK(waitL, "wait", st)
      /\ SortedD(pingL) /\ SortedD(waitL) /\ \A q \in Players : st[q] \in States
  BY Bridge DEF IndInvT, IndInv, TypeOKL
<1>1. st[p] = "out" /\ pingL' = Append(pingL, Item(p, 0)) /\ st' = [st EXCEPT ![p] = "ping"] /\ waitL' = waitL
  BY DEF LJoin
<1>2. LOK(pingL', "ping", st') /\ pingL' \in Seq(R) BY <1>0, <1>1, LOKAppend, StatesDistinct
<1>3. LOK(waitL', "wait", st') BY <1>0, <1>1, LOKFrame, StatesDistinct
<1>4. SortedD(pingL') /\ SortedD(waitL') BY <1>0, <1>1, SortedAppend
<1>5. TypeOKL' BY <1>0, <1>1 DEF TypeOKL, States
<1> QED BY <1>0, <1>1, <1>2, <1>3, <1>4, <1>5, Bridge DEF IndInvT, IndInv

LEMMA StepResurrect == ASSUME IndInvT, NEW p \in Players, LResurrect(p, 0) PROVE IndInvT'
<1>0. /\ pingL \in Seq(R) /\ waitL \in Seq(R) /\ DOMAIN st = Players /\ LOK(pingL, "ping", st) /\ LOK(waitL, "wait", st)
      /\ SortedD(pingL) /\ SortedD(waitL) /\ \A q \in Players : st[q] \in States
  BY Bridge DEF IndInvT, IndInv, TypeOKL
<1>1. st[p] = "kicked" /\ pingL' = Append(pingL, Item(p, 0)) /\ st' = [st EXCEPT ![p] = "ping"] /\ waitL' = waitL
  BY DEF LResurrect
<1>2. LOK(pingL', "ping", st') /\ pingL' \in Seq(R) BY <1>0, <1>1, LOKAppend, StatesDistinct
<1>3. LOK(waitL', "wait", st') BY <1>0, <1>1, LOKFrame, StatesDistinct
<1>4. SortedD(pingL') /\ SortedD(waitL') BY <1>0, <1>1, SortedAppend
<1>5. TypeOKL' BY <1>0, <1>1 DEF TypeOKL, States
<1> QED BY <1>0, <1>1, <1>2, <1>3, <1>4, <1>5, Bridge DEF IndInvT, IndInv

LEMMA StepLeave == ASSUME IndInvT, NEW p \in Players, LLeave(p) PROVE IndInvT'
<1>0. /\ pingL \in Seq(R) /\ waitL \in Seq(R) /\ DOMAIN st = Players /\ LOK(pingL, "ping", st) /\ LOK(waitL, "wait", st)
      /\ SortedD(pingL) /\ SortedD(waitL) /\ \A q \in Players : st[q] \in States
  BY Bridge DEF IndInvT, IndInv, TypeOKL
<1>1. pingL' = Without(pingL, p) /\ waitL' = Without(waitL, p) /\ st' = [st EXCEPT ![p] = "out"]
  BY DEF LLeave
<1>2. LOK(pingL', "ping", st') /\ pingL' \in Seq(R) BY <1>0, <1>1, LOKWithout, StatesDistinct
<1>3. LOK(waitL', "wait", st') /\ waitL' \in Seq(R) BY <1>0, <1>1, LOKWithout, StatesDistinct
<1>4. SortedD(pingL') /\ SortedD(waitL') BY <1>0, <1>1, SortedWithout
<1>5. TypeOKL' BY <1>0, <1>1 DEF TypeOKL, States
<1> QED BY <1>2, <1>3, <1>4, <1>5, Bridge DEF IndInvT, IndInv

LEMMA StepPong == ASSUME IndInvT, NEW p \in Players, LPong(p, 0) PROVE IndInvT'
<1>0. /\ pingL \in Seq(R) /\ waitL \in Seq(R) /\ DOMAIN st = Players /\ LOK(pingL, "ping", st) /\ LOK(waitL, "wait", st)
      /\ SortedD(pingL) /\ SortedD(waitL) /\ \A q \in Players : st[q] \in States
  BY Bridge DEF IndInvT, IndInv, TypeOKL
<1>1. st[p] = "wait" /\ waitL' = Without(waitL, p) /\ pingL' = Append(pingL, Item(p, 0)) /\ st' = [st EXCEPT ![p] = "ping"]
  BY DEF LPong
<1>2. LOK(pingL', "ping", st') /\ pingL' \in Seq(R) BY <1>0, <1>1, LOKAppend, StatesDistinct
<1>3. LOK(waitL', "wait", st') /\ waitL' \in Seq(R) BY <1>0, <1>1, LOKWithout, StatesDistinct
<1>4. SortedD(pingL') /\ SortedD(waitL') BY <1>0, <1>1, SortedAppend, SortedWithout
<1>5. TypeOKL' BY <1>0, <1>1 DEF TypeOKL, States
<1> QED BY <1>2, <1>3, <1>4, <1>5, Bridge DEF IndInvT, IndInv

LEMMA StepPing == ASSUME IndInvT, LPing(0) PROVE IndInvT'
<1>0. /\ pingL \in Seq(R) /\ waitL \in Seq(R) /\ DOMAIN st = Players /\ LOK(pingL, "ping", st) /\ LOK(waitL, "wait", st)
      /\ SortedD(pingL) /\ SortedD(waitL) /\ \A q \in Players : st[q] \in States
  BY Bridge DEF IndInvT, IndInv, TypeOKL
<1> DEFINE h == pingL[1].p
<1>1. pingL # <<>> /\ waitL' = Append(waitL, Item(h, 0)) /\ pingL' = Tail(pingL) /\ st' = [st EXCEPT ![h] = "wait"]
  BY DEF LPing
<1>2. LOK(pingL', "ping", st') /\ pingL' \in Seq(R) /\ h \in Players /\ st[h] = "ping"
  BY <1>0, <1>1, LOKTail, StatesDistinct
<1>3. LOK(waitL', "wait", st') /\ waitL' \in Seq(R) BY <1>0, <1>1, <1>2, LOKAppend, StatesDistinct
<1>4. SortedD(pingL') /\ SortedD(waitL') BY <1>0, <1>1, <1>2, SortedAppend, SortedTail
<1>5. TypeOKL' BY <1>0, <1>1, <1>2 DEF TypeOKL, States
<1> QED BY <1>2, <1>3, <1>4, <1>5, Bridge DEF IndInvT, IndInv

LEMMA StepKick == ASSUME IndInvT, LKick PROVE IndInvT'
<1>0. /\ pingL \in Seq(R) /\ waitL \in Seq(R) /\ DOMAIN st = Players /\ LOK(pingL, "ping", st) /\ LOK(waitL, "wait", st)
      /\ SortedD(pingL) /\ SortedD(waitL) /\ \A q \in Players : st[q] \in States
  BY Bridge DEF IndInvT, IndInv, TypeOKL
<1> DEFINE h == waitL[1].p
<1>1. waitL # <<>> /\ waitL' = Tail(waitL) /\ st' = [st EXCEPT ![h] = "kicked"] /\ pingL' = pingL
  BY DEF LKick
<1>2. LOK(waitL', "wait", st') /\ waitL' \in Seq(R) /\ h \in Players /\ st[h] = "wait"
  BY <1>0, <1>1, LOKTail, StatesDistinct
<1>3. LOK(pingL', "ping", st') BY <1>0, <1>1, <1>2, LOKFrame, StatesDistinct
<1>4. SortedD(pingL') /\ SortedD(waitL') BY <1>0, <1>1, SortedTail
<1>5. TypeOKL' BY <1>0, <1>1, <1>2 DEF TypeOKL, States
<1> QED BY <1>0, <1>1, <1>2, <1>3, <1>4, <1>5, Bridge DEF IndInvT, IndInv

LEMMA StepTick == ASSUME IndInvT, pingL' = Older(pingL), waitL' = Older(waitL), st' = st PROVE IndInvT'
<1>0. /\ pingL \in Seq(R) /\ waitL \in Seq(R) /\ LOK(pingL, "ping", st) /\ LOK(waitL, "wait", st)
      /\ SortedD(pingL) /\ SortedD(waitL) /\ TypeOKL
  BY Bridge DEF IndInvT, IndInv
<1>1. LOK(pingL', "ping", st') /\ pingL' \in Seq(R) /\ SortedD(pingL') BY <1>0, LOKOlder
<1>2. LOK(waitL', "wait", st') /\ waitL' \in Seq(R) /\ SortedD(waitL') BY <1>0, LOKOlder
<1>3. TypeOKL' BY <1>0 DEF TypeOKL
<1> QED BY <1>1, <1>2, <1>3, Bridge DEF IndInvT, IndInv

(* ---------------------------------------------------------------- the timed specification *)
THEOREM Initiation == Init => IndInvT
<1> SUFFICES ASSUME Init PROVE IndInvT OBVIOUS
<1>1. pingL = <<>> /\ waitL = <<>> /\ st = [p \in Players |-> "out"] BY DEF Init
<1>2. <<>> \in Seq(R) /\ DOMAIN <<>> = {} OBVIOUS
<1> QED BY <1>1, <1>2 DEF IndInvT, IndInv, TypeOKL, ListOK, SortedD, States

THEOREM Consecution == IndInvT /\ [Next]_vars => IndInvT'
<1> SUFFICES ASSUME IndInvT, [Next]_vars PROVE IndInvT' OBVIOUS
<1>1. ASSUME NEW p \in Players, Join(p) PROVE IndInvT' BY <1>1, StepJoin DEF Join
<1>2. ASSUME NEW p \in Players, Leave(p) PROVE IndInvT' BY <1>2, StepLeave DEF Leave
<1>3. ASSUME NEW p \in Players, Pong(p) PROVE IndInvT' BY <1>3, StepPong DEF Pong
<1>4. ASSUME NEW p \in Players, LatePong(p) PROVE IndInvT'
  <2>1. CASE Variant = "code" BY <1>4, <2>1, StepResurrect DEF LatePong
  <2>2. CASE Variant # "code" BY <1>4, <2>2, Unchanged DEF LatePong
  <2> QED BY <2>1, <2>2
<1>5. CASE PingFire
  <2>1. CASE pingL = <<>> BY <1>5, <2>1, Unchanged DEF PingFire
  <2>2. CASE pingL # <<>> BY <1>5, <2>2, StepPing DEF PingFire
  <2> QED BY <2>1, <2>2
<1>6. CASE KickFire
  <2>1. CASE waitL # <<>> /\ (Variant = "code" \/ waitL[1].t >= W) BY <1>6, <2>1, StepKick DEF KickFire
  <2>2. CASE ~(waitL # <<>> /\ (Variant = "code" \/ waitL[1].t >= W)) BY <1>6, <2>2, Unchanged DEF KickFire
  <2> QED BY <2>1, <2>2
<1>7. CASE Tick BY <1>7, StepTick DEF Tick
<1>8. CASE UNCHANGED vars BY <1>8, Unchanged DEF vars, lvars
<1> QED BY <1>1, <1>2, <1>3, <1>4, <1>5, <1>6, <1>7, <1>8 DEF Next, Env

(* InOneList counts with Cardinality: exactly one index / no index *)
LEMMA CountLemma ==
  ASSUME NEW L \in Seq(R), NEW s, LOK(L, s, st), NEW p \in Players
  PROVE  Count(L, p) = (IF st[p] = s THEN 1 ELSE 0)
<1>0. DOMAIN L = 1..Len(L) BY SeqR
<1> DEFINE X == {i \in 1..Len(L) : L[i].p = p}
<1>1. CASE st[p] = s
  <2>1. PICK i \in DOMAIN L : L[i].p = p BY <1>1 DEF LOK
  <2>2. X = {i} BY <2>1, <1>0 DEF LOK
  <2>3. Cardinality(X) = 1 BY <2>2, FS_Singleton
  <2> QED BY <2>3, <1>1 DEF Count
<1>2. CASE st[p] # s
  <2>1. X = {} BY <1>2, <1>0 DEF LOK
  <2>2. Cardinality(X) = 0 BY <2>1, FS_EmptySet
  <2> QED BY <2>2, <1>2 DEF Count
<1> QED BY <1>1, <1>2

THEOREM Implication == IndInvT => InOneList /\ TimeOrder
<1> SUFFICES ASSUME IndInvT PROVE InOneList /\ TimeOrder OBVIOUS
<1>0. /\ pingL \in Seq(R) /\ waitL \in Seq(R) /\ LOK(pingL, "ping", st) /\ LOK(waitL, "wait", st)
      /\ SortedD(pingL) /\ SortedD(waitL)
  BY Bridge DEF IndInvT, IndInv
<1>1. InOneList BY <1>0, CountLemma DEF InOneList
<1>2. DOMAIN pingL = 1..Len(pingL) /\ DOMAIN waitL = 1..Len(waitL) BY <1>0, SeqR
<1>3. TimeOrder BY <1>0, <1>2 DEF TimeOrder, Sorted, SortedD
<1> QED BY <1>1, <1>3

THEOREM Unbounded == Spec => [](InOneList /\ TimeOrder)
<1>1. Init => IndInvT BY Initiation
<1>2. IndInvT /\ [Next]_vars => IndInvT' BY Consecution
<1>3. IndInvT => InOneList /\ TimeOrder BY Implication
<1> QED BY <1>1, <1>2, <1>3, PTL DEF Spec
=============================================================================
