-------------------------- MODULE ChanQueue_IndApa --------------------------
(* Apalache entry points for ChanQueue_Ind (X09).  Cap is an unbounded integer; sets and sequences are bounded:
   Procs, Values subsets of 4-element universes, the buffer and the histories at most 6 long in the pre-state. *)
EXTENDS ChanQueue_Ind, Apalache
ConstInit == /\ Procs \in SUBSET (1..4)
             /\ Values \in SUBSET (1..4)
             /\ Cap \in Nat
Arbitrary == /\ buf = Gen(6) /\ hpush = Gen(6) /\ hpull = Gen(6)
             /\ closed \in BOOLEAN /\ hcl = Gen(1) /\ pend = Gen(4)
IndInit == Arbitrary /\ IndInv
IndInitWeak == Arbitrary /\ IndInvWeak
=============================================================================
