SPECIFICATION EqSpec
CONSTANTS
  Chunks = {0,1,2}
  MaxNeed = 2
  MaxSector = 6
  MaxWrites = 4
  FirstFit = TRUE
  AnyOrder = TRUE
  WithCrash = FALSE
  Lens = {1}
VIEW View
INVARIANTS SameInit SameSets SameProps BothInv
PROPERTIES SameNext SplitNext
CHECK_DEADLOCK FALSE
