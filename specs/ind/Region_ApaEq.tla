---------------------------- MODULE Region_ApaEq ----------------------------
(* X09, TLC only: Region_Apa (the copy Apalache reads) has the initial states and the transitions of Region (the module
   C14 binds to the code) on every reachable state, the rewritten interval operators give the same sets, and both
   forms of the invariant (Region_Ind!IndInv for TLAPS, Region_IndApa!IndInv for Apalache) hold. *)
EXTENDS Region_IndApa
O == INSTANCE Region
I == INSTANCE Region_Ind
EqSpec == O!Init /\ [][O!Next \/ Next]_vars
SameInit == O!Init <=> Init
SameNext == [][O!Next <=> Next]_vars
SplitNext == [][Next <=> (NextBegin \/ NextPhys \/ NextRest)]_vars
SameSets == /\ \A c \in Chunks : Run(memOff[c]) = O!Run(memOff[c]) /\ Run(diskOff[c]) = O!Run(diskOff[c])
            /\ UsedBy(memOff) = O!UsedBy(memOff)
            /\ \A n \in 2..(MaxSector + 1), need \in 1..MaxNeed : FreeRun(memUsed, n, need) <=> O!FreeRun(memUsed, n, need)
            /\ \A need \in 1..MaxNeed : (\E n \in 2..(MaxSector + 1) : FreeRun(memUsed, n, need))
                                         => FirstFree(memUsed, need) = O!FirstFree(memUsed, need)
SameProps == /\ (NoOverlapMem <=> O!NoOverlapMem) /\ (UsedExact <=> O!UsedExact) /\ (HeaderSync <=> O!HeaderSync)
             /\ (FlOK <=> I!FlOK)
BothInv == IndInv /\ I!IndInv /\ Safety
=============================================================================
