---------------------------- MODULE Queue_IndApa ----------------------------
(* Apalache entry points for Queue_Ind (X09).  ItemsPer comes from Queue_IndApa.cfg (a constant range is needed in
   ValidIds); Prod and Cons are arbitrary subsets of 3-element universes, both switches arbitrary; the queue and the
   delivery log hold at most 5 entries in the pre-state. *)
EXTENDS Queue_Ind, Apalache
ConstInit == /\ Prod \in SUBSET (1..3)
             /\ Cons \in SUBSET (11..13)
             /\ SignalOnPush \in BOOLEAN /\ WithClose \in BOOLEAN
Arbitrary == /\ items = Gen(5) /\ delivered = Gen(5) /\ closed \in BOOLEAN
             /\ cstate = Gen(3) /\ pushed = Gen(3)
IndInit == Arbitrary /\ IndInv
IndInitWeak == Arbitrary /\ IndInvWeak
=============================================================================
