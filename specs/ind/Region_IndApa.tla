--------------------------- MODULE Region_IndApa ----------------------------
(* Apalache entry points for the allocator of Region (X09). *)
EXTENDS Integers, Sequences, FiniteSets, TLC, Apalache
CONSTANTS
  \* @type: Set(Int);
  Chunks,
  \* @type: Int;
  MaxNeed,
  \* @type: Int;
  MaxSector,
  \* @type: Int;
  MaxWrites,
  \* @type: Bool;
  FirstFit,
  \* @type: Bool;
  AnyOrder,
  \* @type: Bool;
  WithCrash,
  \* @type: Set(Int);
  Lens
VARIABLES
  \* @type: Int -> {sec: Int, cnt: Int};
  memOff,
  \* @type: Int -> Int;
  memTs,
  \* @type: Set(Int);
  memUsed,
  \* @type: Int -> {sec: Int, cnt: Int};
  diskOff,
  \* @type: Int -> Int;
  diskTs,
  \* @type: Int -> {c: Int, v: Int, i: Int, n: Int, lenv: Int, dlen: Int};
  diskSec,
  \* @type: Int -> Int;
  model,
  \* @type: {c: Int, v: Int, need: Int, at: Int, pend: Set(Str), done: Int, ts: Int, len: Int};
  fl,
  \* @type: Set(Int);
  taint,
  \* @type: Int;
  nver
INSTANCE Region_Apa

\* The invariant of Region_Ind with the types written field by field (Apalache takes neither [sec : Nat, cnt : Nat]
\* nor SUBSET Nat); FlOK, Safety and the mutated allocation are the lines of Region_Ind.tla (the X09 driver compares).
Parts == {"hoff", "hts", "len", "data"}
\* no run (header entry or write in flight) ends behind MaxSector: what makes Region_Apa!Run the interval of Region!Run
\* @type: {sec: Int, cnt: Int} => Bool;
EndsInside(o) == o.sec = 0 \/ o.sec + o.cnt - 1 <= MaxSector
InRange == /\ \A c \in Chunks : EndsInside(memOff[c]) /\ EndsInside(diskOff[c])
           /\ ~Idle => fl.at + fl.need - 1 <= MaxSector
TypeOKA == /\ DOMAIN memOff = Chunks /\ DOMAIN diskOff = Chunks /\ DOMAIN memTs = Chunks /\ DOMAIN diskTs = Chunks
           /\ DOMAIN model = Chunks /\ DOMAIN diskSec = Sectors
           /\ \A c \in Chunks : /\ memOff[c].sec >= 0 /\ memOff[c].cnt >= 0 /\ diskOff[c].sec >= 0 /\ diskOff[c].cnt >= 0
                                /\ memTs[c] >= 0 /\ diskTs[c] >= 0 /\ model[c] >= 0
           /\ \A s \in memUsed : s >= 0
           /\ \A s \in Sectors : /\ diskSec[s].c \in Chunks \cup {-1, -2} /\ diskSec[s].v >= 0 /\ diskSec[s].n >= 0
                                 /\ diskSec[s].lenv \in Lens \cup {0} /\ diskSec[s].dlen \in Lens \cup {0}
           /\ fl.c \in Chunks \cup {0} /\ fl.v >= 0 /\ fl.need >= 0 /\ fl.at >= 0 /\ fl.done >= 0 /\ fl.ts >= 0
           /\ fl.pend \subseteq Parts /\ fl.len \in Lens \cup {0}
           /\ taint \subseteq Chunks /\ nver >= 0
           /\ InRange
\* BEGIN-COPY
\* a write in flight: the memory header already names the new run; the disk header of the chunk catches up
\* with the physical header writes; every other chunk is in sync
FlOK == /\ Idle => fl = NoFl
        /\ ~Idle => /\ fl.c \in Chunks /\ fl.need >= 1 /\ fl.at >= 2
                    /\ memOff[fl.c] = [sec |-> fl.at, cnt |-> fl.need]
                    /\ fl.ts = memTs[fl.c]
                    /\ \A c \in Chunks \ {fl.c} : diskOff[c] = memOff[c] /\ diskTs[c] = memTs[c]
                    /\ "hoff" \notin fl.pend => diskOff[fl.c] = memOff[fl.c]
                    /\ "hts" \notin fl.pend => diskTs[fl.c] = memTs[fl.c]

Safety == NoOverlapMem /\ UsedExact /\ HeaderSync
\* END-COPY
\* (Region_Ind!WriteBeginMut with the interval written as a filter of AllSec, like Region_Apa!WriteBeginAt)
\* ---- self-test 2: an allocation that does not give the old run back first (tests the new run against ALL used
\* sectors but forgets to release the old ones)
WriteBeginMut(c, need, len) ==
  /\ Idle /\ nver < MaxWrites /\ need \in 1..MaxNeed
  /\ LET old == memOff[c] IN
     /\ ~(old.sec # 0 /\ old.cnt = need)
     /\ \E n \in Sectors :
            /\ n >= 2 /\ n + need - 1 <= MaxSector /\ FreeRun(memUsed, n, need)
            /\ memUsed' = memUsed \cup {s \in AllSec : n <= s /\ s <= n + need - 1}
            /\ memOff' = [memOff EXCEPT ![c] = [sec |-> n, cnt |-> need]]
            /\ memTs' = [memTs EXCEPT ![c] = nver + 1]
            /\ fl' = [c |-> c, v |-> nver + 1, need |-> need, at |-> n, pend |-> {"hoff", "hts", "len", "data"}, done |-> 0, ts |-> nver + 1, len |-> len]
  /\ nver' = nver + 1
  /\ UNCHANGED <<diskOff, diskTs, diskSec, model, taint>>
NextMut == Next \/ \E c \in Chunks, need \in 1..MaxNeed, len \in Lens : WriteBeginMut(c, need, len)
IndInv == TypeOKA /\ FlOK /\ HeaderSync /\ NoOverlapMem /\ UsedExact
IndInvWeak == TypeOKA /\ NoOverlapMem /\ UsedExact

\* MaxSector = 5 and MaxNeed = 2 come from Region_IndApa.cfg (constant ranges; larger values take Apalache more than
\* 25 minutes per run, see notes/notes_X09.md); every subset of 2 chunk ids, any MaxWrites, both policies, both orders
ConstInit == /\ Chunks \in SUBSET (0..1)
             /\ Lens \in SUBSET (1..2)
             /\ FirstFit \in BOOLEAN /\ AnyOrder \in BOOLEAN /\ WithCrash = FALSE
             /\ MaxWrites \in Nat
Arbitrary == /\ memOff = Gen(2) /\ diskOff = Gen(2) /\ memTs = Gen(2) /\ diskTs = Gen(2) /\ model = Gen(2)
             /\ memUsed = Gen(8) /\ diskSec = Gen(4) /\ fl = Gen(4) /\ taint = Gen(2) /\ nver = Gen(1)
IndInit == Arbitrary /\ IndInv
\* consecution is checked per group of actions (three Apalache runs side by side); Region_ApaEq has TLC check that the
\* three groups together are Next
NextBegin == \E c \in Chunks, need \in 1..MaxNeed, len \in Lens : WriteBegin(c, need, len)
NextPhys == PhysHdrOff \/ PhysHdrTs \/ PhysLen \/ \E u \in 0..(MaxNeed - 1) : PhysData(u) \/ PhysDataTorn(u)
NextRest == WriteEnd \/ Crash \/ Reopen
\* the mutated allocation alone (NextMut = Next \/ NextMutOnly, and Next is covered by the three groups)
NextMutOnly == \E c \in Chunks, need \in 1..MaxNeed, len \in Lens : WriteBeginMut(c, need, len)
IndInitWeak == Arbitrary /\ IndInvWeak
=============================================================================
