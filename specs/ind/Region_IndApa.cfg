CONSTANTS
  MaxSector = 5
  MaxNeed = 2
INIT IndInit
NEXT Next
INVARIANT IndInv
