CONSTANTS
  ItemsPer = 3
INIT IndInit
NEXT Next
INVARIANT IndInv
