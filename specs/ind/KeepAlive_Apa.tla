---------------------------- MODULE KeepAlive_Apa ----------------------------
(***************************************************************************)
(* X09: COPY of the LIST layer of KeepAlive.tla (X01) for Apalache, plus   *)
(* the one action of the timed layer that touches the lists (Tick: every   *)
(* entry ages by one, saturating at Cap).  The lines between BEGIN-COPY    *)
(* and END-COPY are verbatim lines of KeepAlive.tla (the X09 driver checks *)
(* that).  Differences:                                                    *)
(*  - type annotations;                                                    *)
(*  - Without passes a named, annotated operator to SelectSeq instead of  *)
(*    a LAMBDA;                                                            *)
(*  - Older builds its result with a fold over the sequence (the original  *)
(*    [i \in 1..Len(L) |-> ...] is a function, not a sequence, for         *)
(*    Apalache's type checker);                                            *)
(*  - LNext is the union of the list effects of ALL actions of             *)
(*    KeepAlive!Next with the stamp 0 they use, without the timer guards:  *)
(*    every step of KeepAlive!Spec (any Variant) is an LNext step or       *)
(*    leaves the lists alone, so an invariant of LSpec is an invariant of  *)
(*    KeepAlive!Spec.  KeepAlive_ApaEq.tla has TLC check exactly that.     *)
(* Lives in specs/ind/ because it EXTENDS Apalache (TLC reads it together  *)
(* with the Apalache.tla shipped in apalache.jar).                         *)
(***************************************************************************)
EXTENDS Integers, Sequences, FiniteSets, Apalache

CONSTANTS
  \* @type: Set(Int);
  Players,
  \* @type: Int;
  W

VARIABLES
  \* @type: Seq({p: Int, t: Int});
  pingL,
  \* @type: Seq({p: Int, t: Int});
  waitL,
  \* @type: Int -> Str;
  st
lvars == <<pingL, waitL, st>>

\* BEGIN-COPY
Cap == W + 1                                    \* ages saturate here (every age > W behaves alike)
Min(a, b) == IF a < b THEN a ELSE b
Item(p, t) == [p |-> p, t |-> t]
\* END-COPY
\* KeepAlive!Without(L, p) == SelectSeq(L, LAMBDA it : it.p # p)   (a LAMBDA cannot carry a type annotation)
\* @type: (Seq({p: Int, t: Int}), Int) => Seq({p: Int, t: Int});
Without(L, p) == LET \* @type: {p: Int, t: Int} => Bool;
                     Keep(it) == it.p # p
                 IN SelectSeq(L, Keep)
\* BEGIN-COPY
LJoin(p, t)  == /\ st[p] = "out"
                /\ pingL' = Append(pingL, Item(p, t)) /\ st' = [st EXCEPT ![p] = "ping"] /\ UNCHANGED waitL
LLeave(p)    == /\ st[p] # "out"
                /\ pingL' = Without(pingL, p) /\ waitL' = Without(waitL, p) /\ st' = [st EXCEPT ![p] = "out"]
LPing(t)     == /\ pingL # <<>>
                /\ waitL' = Append(waitL, Item(pingL[1].p, t)) /\ pingL' = Tail(pingL)
                /\ st' = [st EXCEPT ![pingL[1].p] = "wait"]
LPong(p, t)  == /\ st[p] = "wait"
                /\ waitL' = Without(waitL, p) /\ pingL' = Append(pingL, Item(p, t))
                /\ st' = [st EXCEPT ![p] = "ping"]
LKick        == /\ waitL # <<>>
                /\ waitL' = Tail(waitL) /\ st' = [st EXCEPT ![waitL[1].p] = "kicked"] /\ UNCHANGED pingL
LResurrect(p, t) == /\ st[p] = "kicked"
                    /\ pingL' = Append(pingL, Item(p, t)) /\ st' = [st EXCEPT ![p] = "ping"] /\ UNCHANGED waitL
\* END-COPY

\* KeepAlive!Older(L) == [i \in 1..Len(L) |-> Item(L[i].p, Min(L[i].t + 1, Cap))]
\* @type: Seq({p: Int, t: Int}) => Seq({p: Int, t: Int});
Older(L) == LET \* @type: (Seq({p: Int, t: Int}), {p: Int, t: Int}) => Seq({p: Int, t: Int});
                Step(acc, it) == Append(acc, Item(it.p, Min(it.t + 1, Cap)))
            IN ApaFoldSeqLeft(Step, <<>>, L)
LTick == pingL' = Older(pingL) /\ waitL' = Older(waitL) /\ UNCHANGED st

LInit == pingL = <<>> /\ waitL = <<>> /\ st = [p \in Players |-> "out"]
LNext == \/ \E p \in Players : LJoin(p, 0) \/ LLeave(p) \/ LPong(p, 0) \/ LResurrect(p, 0)
         \/ LPing(0) \/ LKick \/ LTick
LSpec == LInit /\ [][LNext]_lvars

\* ---------------------------------------------------------------- the module's properties of the lists
\* (Count and Sorted quantify over DOMAIN L instead of 1..Len(L): Apalache wants constant ranges)
\* @type: (Seq({p: Int, t: Int}), Int) => Int;
Count(L, p) == Cardinality({i \in DOMAIN L : L[i].p = p})
InOneList == \A p \in Players :
  /\ Count(pingL, p) = (IF st[p] = "ping" THEN 1 ELSE 0)
  /\ Count(waitL, p) = (IF st[p] = "wait" THEN 1 ELSE 0)
\* @type: Seq({p: Int, t: Int}) => Bool;
Sorted(L) == \A i, j \in DOMAIN L : i < j => L[i].t >= L[j].t
TimeOrder == Sorted(pingL) /\ Sorted(waitL)
=============================================================================
