----------------------------- MODULE Region_Apa ------------------------------
\* X09: COPY of Region.tla for Apalache.  The lines between BEGIN-COPY and END-COPY are lines of Region.tla (the X09
\* driver compares them, comments aside).  Outside of the markers:
\*  - type annotations in front of the operators that take a header or a header entry;
\*  - Run, FreeRun, FirstFree and the new occupancy table in WriteBeginAt build their integer intervals by filtering
\*    the constant range AllSec = 0..(MaxSector + MaxNeed + 1) (Apalache wants constant bounds in a..b); the results
\*    are the same sets whenever the runs end at or before MaxSector, which WriteBeginAt guarantees
\*    (n + need - 1 <= MaxSector) and Region_IndApa!TypeOKA states (InRange).
\* TLC compares Init and Next of the two modules on the bounded configuration through Region_ApaEq.tla.
\* BEGIN-COPY
(***************************************************************************)
(* Anvil region file as a chunk store (C14) with crash isolation (C15).    *)
(*                                                                         *)
(* Abstract state: the in-memory header (memOff, memTs), the allocator's   *)
(* occupancy table (memUsed), the on-disk header (diskOff, diskTs), the    *)
(* content of every data sector (diskSec), the last completed version of   *)
(* every chunk (model), and the write in flight (fl).  Every physical      *)
(* write WriteSector issues is its own action, so Crash is enabled between *)
(* any two of them and after any torn prefix of the data write.            *)
(*                                                                         *)
(* The allocation policy is deliberately unspecified: WriteBegin may pick  *)
(* ANY free run (FirstFit = TRUE narrows it for behaviour generation).     *)
(* The order of the physical writes of one call is unspecified as well     *)
(* (fl.pend is a set) - the properties do not depend on it.                *)
(***************************************************************************)
EXTENDS Integers, Sequences, FiniteSets, TLC

CONSTANTS Chunks,      \* set of chunk ids
          MaxNeed,     \* largest sector count a write may ask for in this configuration (<= 255)
          MaxSector,   \* data sectors are 2..MaxSector
          MaxWrites,   \* bound on the number of writes (versions)
          FirstFit,    \* TRUE: generator follows the implementation's first-fit policy
          AnyOrder,    \* TRUE: the physical writes of one call may happen in any order
          WithCrash,   \* TRUE: Crash and torn writes enabled
          Lens         \* data-length tokens a write may carry (equal tokens = equal byte lengths)

VARIABLES memOff, memTs, memUsed, diskOff, diskTs, diskSec, model, fl, taint, nver
vars == <<memOff, memTs, memUsed, diskOff, diskTs, diskSec, model, fl, taint, nver>>

NoRun  == [sec |-> 0, cnt |-> 0]
NoFl   == [c |-> 0, v |-> 0, need |-> 0, at |-> 0, pend |-> {}, done |-> 0, ts |-> 0, len |-> 0]
Idle   == fl.v = 0
Empty  == [c |-> -1, v |-> 0, i |-> 0, n |-> 0, lenv |-> 0, dlen |-> 0]
Torn   == [c |-> -2, v |-> 0, i |-> 0, n |-> 0, lenv |-> 0, dlen |-> 0]
Sectors == 2..MaxSector
\* END-COPY
AllSec == 0..(MaxSector + MaxNeed + 1)
\* Region!Run(o) == IF o.sec = 0 THEN {} ELSE o.sec..(o.sec + o.cnt - 1)
\* @type: {sec: Int, cnt: Int} => Set(Int);
Run(o) == IF o.sec = 0 THEN {} ELSE {s \in AllSec : o.sec <= s /\ s <= o.sec + o.cnt - 1}
\* BEGIN-COPY
\* @type: (Int -> {sec: Int, cnt: Int}) => Set(Int);
UsedBy(off) == {0, 1} \cup UNION {Run(off[c]) : c \in Chunks}
\* END-COPY
\* Region!FreeRun(used, n, need) == \A s \in n..(n + need - 1) : s \notin used
FreeRun(used, n, need) == \A s \in AllSec : (n <= s /\ s <= n + need - 1) => s \notin used
\* BEGIN-COPY
\* END-COPY
\* Region!FirstFree: ... /\ \A m \in 2..(n-1) : ~FreeRun(used, m, need)
FirstFree(used, need) == CHOOSE n \in 2..(MaxSector + 1) :
                            /\ FreeRun(used, n, need)
                            /\ \A m \in 2..(MaxSector + 1) : m <= n - 1 => ~FreeRun(used, m, need)
\* BEGIN-COPY

Init ==
  /\ memOff = [c \in Chunks |-> NoRun] /\ diskOff = [c \in Chunks |-> NoRun]
  /\ memTs = [c \in Chunks |-> 0] /\ diskTs = [c \in Chunks |-> 0]
  /\ memUsed = {0, 1}
  /\ diskSec = [s \in Sectors |-> Empty]
  /\ model = [c \in Chunks |-> 0]
  /\ fl = NoFl /\ taint = {} /\ nver = 0

(* The allocation decision, taken in memory before anything is written.  `len` is the byte length
   of the data (an opaque token in the bounded configurations), Cand the sectors the allocator may
   return (all of them in the design; the logged one during trace validation). *)
WriteBeginAt(c, need, ts, len, Cand) ==
  /\ Idle /\ nver < MaxWrites /\ need \in 1..MaxNeed
  /\ LET old == memOff[c] IN
     IF old.sec # 0 /\ old.cnt = need
     THEN /\ fl' = [c |-> c, v |-> nver + 1, need |-> need, at |-> old.sec, pend |-> {"len", "data"}, done |-> 0, ts |-> memTs[c], len |-> len]
          /\ UNCHANGED <<memOff, memUsed, memTs>>
     ELSE LET freed == memUsed \ Run(old) IN
          \E n \in Cand :
            /\ n >= 2 /\ n + need - 1 <= MaxSector /\ FreeRun(freed, n, need)
            /\ FirstFit => n = FirstFree(freed, need)
\* END-COPY
\*          /\ memUsed' = freed \cup (n..(n + need - 1))
            /\ memUsed' = freed \cup {s \in AllSec : n <= s /\ s <= n + need - 1}
\* BEGIN-COPY
            /\ memOff' = [memOff EXCEPT ![c] = [sec |-> n, cnt |-> need]]
            /\ memTs' = [memTs EXCEPT ![c] = ts]
            /\ fl' = [c |-> c, v |-> nver + 1, need |-> need, at |-> n, pend |-> {"hoff", "hts", "len", "data"}, done |-> 0, ts |-> ts, len |-> len]
  /\ nver' = nver + 1
  /\ UNCHANGED <<diskOff, diskTs, diskSec, model, taint>>

(* the implementation's order is header offset, header timestamp, length word, data; the properties
   hold for every order, which the AnyOrder configurations check *)
Rank(p) == CASE p = "hoff" -> 1 [] p = "hts" -> 2 [] p = "len" -> 3 [] p = "data" -> 4 [] p = "dead" -> 9
MayDo(p) == p \in fl.pend /\ (AnyOrder \/ \A q \in fl.pend : Rank(p) <= Rank(q))

PhysHdrOff ==
  /\ MayDo("hoff")
  /\ diskOff' = [diskOff EXCEPT ![fl.c] = [sec |-> fl.at, cnt |-> fl.need]]
  /\ fl' = [fl EXCEPT !.pend = @ \ {"hoff"}]
  /\ UNCHANGED <<memOff, memTs, memUsed, diskTs, diskSec, model, taint, nver>>

PhysHdrTs ==
  /\ MayDo("hts")
  /\ diskTs' = [diskTs EXCEPT ![fl.c] = fl.ts]
  /\ fl' = [fl EXCEPT !.pend = @ \ {"hts"}]
  /\ UNCHANGED <<memOff, memTs, memUsed, diskOff, diskSec, model, taint, nver>>

(* the 4-byte length word at the start of the run *)
PhysLen ==
  /\ MayDo("len")
  /\ diskSec' = [diskSec EXCEPT ![fl.at].lenv = fl.len]
  /\ fl' = [fl EXCEPT !.pend = @ \ {"len"}]
  /\ UNCHANGED <<memOff, memTs, memUsed, diskOff, diskTs, model, taint, nver>>

(* the data write reaches sectors fl.done .. upto of the run (a torn write stops early) *)
PhysData(upto) ==
  /\ MayDo("data") /\ upto \in fl.done..(fl.need - 1)
  /\ diskSec' = [s \in Sectors |->
                   IF s \in (fl.at + fl.done)..(fl.at + upto)
                   THEN [c |-> fl.c, v |-> fl.v, i |-> s - fl.at, n |-> fl.need, lenv |-> diskSec[s].lenv, dlen |-> fl.len]
                   ELSE diskSec[s]]
  /\ fl' = [fl EXCEPT !.done = upto + 1, !.pend = IF upto = fl.need - 1 THEN @ \ {"data"} ELSE @]
  /\ UNCHANGED <<memOff, memTs, memUsed, diskOff, diskTs, model, taint, nver>>

(* a torn data write: sectors fl.done .. upto-1 completely written, sector upto partially (garbage);
   the process is dead afterwards (only Crash can follow) *)
PhysDataTorn(upto) ==
  /\ WithCrash /\ MayDo("data") /\ upto \in fl.done..(fl.need - 1)
  /\ diskSec' = [s \in Sectors |->
                   IF s \in (fl.at + fl.done)..(fl.at + upto - 1)
                   THEN [c |-> fl.c, v |-> fl.v, i |-> s - fl.at, n |-> fl.need, lenv |-> diskSec[s].lenv, dlen |-> fl.len]
                   ELSE IF s = fl.at + upto THEN [Torn EXCEPT !.lenv = diskSec[s].lenv] ELSE diskSec[s]]
  /\ fl' = [fl EXCEPT !.pend = {"dead"}]
  /\ UNCHANGED <<memOff, memTs, memUsed, diskOff, diskTs, model, taint, nver>>

WriteEnd ==
  /\ ~Idle /\ fl.pend = {}
  /\ model' = [model EXCEPT ![fl.c] = fl.v]
  /\ taint' = taint \ {fl.c}
  /\ fl' = NoFl
  /\ UNCHANGED <<memOff, memTs, memUsed, diskOff, diskTs, diskSec, nver>>

(* a write above the size limit is refused: nothing changes *)
WriteRefused(c) == Idle /\ UNCHANGED vars

(* the process dies; a later Load rebuilds the in-memory state from the disk header *)
Crash ==
  /\ WithCrash
  /\ memOff' = diskOff /\ memTs' = diskTs /\ memUsed' = UsedBy(diskOff)
  /\ taint' = IF Idle THEN taint ELSE taint \cup {fl.c}
  /\ fl' = NoFl
  /\ UNCHANGED <<diskOff, diskTs, diskSec, model, nver>>

Reopen ==
  /\ Idle
  /\ memOff' = diskOff /\ memTs' = diskTs /\ memUsed' = UsedBy(diskOff)
  /\ UNCHANGED <<diskOff, diskTs, diskSec, model, fl, taint, nver>>

WriteBegin(c, need, len) == WriteBeginAt(c, need, nver + 1, len, Sectors)

Next == \/ \E c \in Chunks, need \in 1..MaxNeed, len \in Lens : WriteBegin(c, need, len)
        \/ PhysHdrOff \/ PhysHdrTs \/ PhysLen
        \/ \E u \in 0..(MaxNeed - 1) : PhysData(u) \/ PhysDataTorn(u)
        \/ WriteEnd \/ Crash \/ Reopen
Spec == Init /\ [][Next]_vars

\* ---------------------------------------------------------------- reading
(* what a reader following header `off` finds for chunk c: "absent", a version number, or "garbage".
   Encoded as integers: -1 absent, -2 garbage, v >= 1 version. *)
Absent == -1
Garbage == -2
\* @type: (Int -> {sec: Int, cnt: Int}, Int) => Int;
ReadVia(off, c) ==
  LET o == off[c] IN
  IF o.sec = 0 THEN Absent
  ELSE IF o.sec + o.cnt - 1 > MaxSector THEN Garbage
  ELSE LET v == diskSec[o.sec].v IN
       IF /\ v > 0 /\ diskSec[o.sec].lenv = diskSec[o.sec].dlen
          /\ \A k \in 0..(o.cnt - 1) :
               LET d == diskSec[o.sec + k] IN d.c = c /\ d.v = v /\ d.i = k /\ d.n = o.cnt /\ d.dlen = diskSec[o.sec].dlen
       THEN v ELSE Garbage
Expected(c) == IF model[c] = 0 THEN Absent ELSE model[c]
Settled(c) == c \notin taint /\ (Idle \/ fl.c # c)

\* ---------------------------------------------------------------- properties
TypeOK == /\ memUsed \subseteq 0..MaxSector
          /\ \A c \in Chunks : memOff[c].sec \in 0..MaxSector /\ diskOff[c].sec \in 0..MaxSector
\* @type: (Int -> {sec: Int, cnt: Int}) => Set(Int);
Live(off) == {c \in Chunks : off[c].sec # 0}
\* @type: (Int -> {sec: Int, cnt: Int}) => Bool;
NoOverlap(off) == /\ \A c \in Live(off) : off[c].sec >= 2 /\ off[c].cnt >= 1
                  /\ \A a, b \in Live(off) : a # b => Run(off[a]) \cap Run(off[b]) = {}
NoOverlapMem  == NoOverlap(memOff)
NoOverlapDisk == NoOverlap(diskOff)
UsedExact  == memUsed = UsedBy(memOff)
HeaderSync == Idle => (diskOff = memOff /\ diskTs = memTs)
ReadBack   == \A c \in Chunks : Settled(c) /\ Idle => ReadVia(memOff, c) = Expected(c)
(* C15: in EVERY reachable state - i.e. after every prefix of the physical writes - a process that
   re-opens the file finds every other chunk intact *)
CrashSafe  == \A c \in Chunks : Settled(c) => ReadVia(diskOff, c) = Expected(c)
RefusalIsNoop == [][\A c \in Chunks : WriteRefused(c) => UNCHANGED vars]_vars
ReopenIdempotent == [][Reopen /\ taint = {} => UNCHANGED <<memOff, memTs, memUsed>>]_vars

(* VIEW for the exhaustive configurations: the content of a sector that no header (memory or disk)
   and no write in flight refers to cannot influence any later read before it is overwritten by the
   chunk that is then in flight (whose content is unconstrained), so it is erased from the fingerprint. *)
Referenced == UsedBy(memOff) \cup UsedBy(diskOff) \cup (IF Idle THEN {} ELSE fl.at..(fl.at + fl.need - 1))
View == <<memOff, memTs, memUsed, diskOff, diskTs,
          [s \in Sectors |-> IF s \in Referenced THEN diskSec[s] ELSE Empty], model, fl, taint, nver>>
\* END-COPY
=============================================================================
