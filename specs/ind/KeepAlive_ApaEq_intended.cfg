SPECIFICATION Spec
CONSTANTS
  Players = {1, 2, 3}
  P = 2
  W = 4
  MaxId = 2
  Variant = "intended"
  AsyncChan = TRUE
  Urgent = TRUE
INVARIANTS SameOlder SameProps AIndInv ASafety
PROPERTIES RefinesList
CHECK_DEADLOCK FALSE
