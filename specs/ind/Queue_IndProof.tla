---------------------------- MODULE Queue_IndProof ----------------------------
(* TLAPS proof that Queue_Ind!IndInvT is an inductive invariant of Queue!Spec (through the copy Queue_Apa, which has
   the same Init and Next) for ARBITRARY Prod, Cons, ItemsPer and both switches, without any bound on the queue or the
   delivery log, and implies Safety. *)
EXTENDS Queue_Ind, SequenceTheorems, FiniteSetTheorems, TLAPS

ASSUME ItemsPerNat == ItemsPer \in Nat

Ids == Prod \X (1..ItemsPer)
DType == Cons \X Ids
\* ItemOK in the successor state (ItemOK(x')' would prime twice)
ItemOKp(it) == it[1] \in Prod /\ it[2] >= 1 /\ it[2] <= pushed'[it[1]]

THEOREM Initiation == Init => IndInvT
<1> SUFFICES ASSUME Init PROVE IndInvT OBVIOUS
<1> USE ItemsPerNat
<1>1. items = <<>> /\ delivered = <<>> /\ DOMAIN items = {} /\ DOMAIN delivered = {} /\ Len(items) = 0 /\ Len(delivered) = 0
  BY DEF Init
<1>2. ValidIds = {} BY DEF Init, ValidIds
<1>3. IsFiniteSet(ValidIds) /\ Cardinality(ValidIds) = 0 BY <1>2, FS_EmptySet
<1>4. TypeOK BY <1>1 DEF Init, TypeOK, CStates
<1>5. SeqTyped BY <1>1, <1>3 DEF SeqTyped
<1>6. OrdDD /\ OrdII /\ OrdDI /\ Count BY <1>1, <1>3 DEF OrdDD, OrdII, OrdDI, Count
<1>7. DrainBeforeClosed /\ NoParkedWithWork BY <1>1 DEF Init, DrainBeforeClosed, NoParkedWithWork, CanRun, Parked
<1> QED BY <1>4, <1>5, <1>6, <1>7 DEF IndInvT, IndInv

(* what TypeOK says about the entries follows from the typing of the two sequences and ItemOK *)
LEMMA TypeFromSeq ==
  ASSUME items \in Seq(Ids), delivered \in Seq(DType),
         \A i \in DOMAIN items : ItemOK(items[i]),
         \A i \in DOMAIN delivered : ItemOK(delivered[i][2])
  PROVE  /\ \A i \in DOMAIN items : items[i] = <<items[i][1], items[i][2]>> /\ ItemOK(items[i])
         /\ \A i \in DOMAIN delivered :
                /\ delivered[i] = <<delivered[i][1], <<delivered[i][2][1], delivered[i][2][2]>>>>
                /\ delivered[i][1] \in Cons /\ ItemOK(delivered[i][2])
<1>1. \A i \in DOMAIN items : items[i] \in Ids BY ElementOfSeq, LenProperties
<1>2. \A i \in DOMAIN delivered : delivered[i] \in DType BY ElementOfSeq, LenProperties
<1> QED BY <1>1, <1>2 DEF Ids, DType

THEOREM Consecution == IndInvT /\ [Next]_vars => IndInvT'
<1> SUFFICES ASSUME IndInvT, [Next]_vars PROVE IndInvT' OBVIOUS
<1> USE ItemsPerNat
<1>t. /\ items \in Seq(Ids) /\ delivered \in Seq(DType)
      /\ Len(items) \in Nat /\ Len(delivered) \in Nat
      /\ DOMAIN items = 1..Len(items) /\ DOMAIN delivered = 1..Len(delivered)
      /\ \A i \in DOMAIN items : items[i] \in Ids
      /\ \A i \in DOMAIN delivered : delivered[i] \in DType
      /\ IsFiniteSet(ValidIds) /\ Cardinality(ValidIds) \in Nat
  BY LenProperties, ElementOfSeq, FS_CardinalityType DEF IndInvT, SeqTyped, Ids, DType
<1>u. /\ DOMAIN cstate = Cons /\ DOMAIN pushed = Prod /\ closed \in BOOLEAN
      /\ \A c \in Cons : cstate[c] \in CStates
      /\ \A p \in Prod : pushed[p] \in 0..ItemsPer
      /\ \A i \in DOMAIN items : ItemOK(items[i])
      /\ \A i \in DOMAIN delivered : ItemOK(delivered[i][2])
  BY DEF IndInvT, IndInv, TypeOK
<1>1. ASSUME NEW p \in Prod, Push(p) PROVE IndInvT'
  <2> DEFINE it == <<p, pushed[p] + 1>>
  <2>1. /\ pushed[p] < ItemsPer /\ ~closed /\ items' = Append(items, it) /\ cstate' \in SignalOne(cstate)
        /\ pushed' = [pushed EXCEPT ![p] = @ + 1] /\ closed' = closed /\ delivered' = delivered
    BY <1>1 DEF Push, PushItem
  <2>2. it \in Ids /\ pushed[p] \in Nat BY <2>1, <1>u DEF Ids
  <2>3. /\ items' \in Seq(Ids) /\ Len(items') = Len(items) + 1
        /\ \A i \in 1..Len(items) : items'[i] = items[i]
        /\ items'[Len(items) + 1] = it
        /\ DOMAIN items' = 1..(Len(items) + 1)
    BY <2>1, <2>2, <1>t, AppendProperties, LenProperties
  <2>4. /\ DOMAIN pushed' = Prod /\ pushed'[p] = pushed[p] + 1
        /\ \A q \in Prod : q # p => pushed'[q] = pushed[q]
        /\ \A q \in Prod : pushed[q] <= pushed'[q] /\ pushed'[q] \in 0..ItemsPer
    BY <2>1, <2>2, <1>u
  <2>5. /\ DOMAIN cstate' = Cons /\ \A c \in Cons : cstate'[c] \in CStates
        /\ \A c \in Cons : cstate'[c] = cstate[c] \/ (cstate[c] = "parked" /\ cstate'[c] = "woken")
        /\ (Parked # {} /\ SignalOnPush) => \E w \in Cons : cstate'[w] = "woken"
        /\ (Parked = {} \/ ~SignalOnPush) => cstate' = cstate
    <3>1. CASE Parked = {} \/ ~SignalOnPush
      BY <3>1, <2>1, <1>u DEF SignalOne
    <3>2. CASE ~(Parked = {} \/ ~SignalOnPush)
      <4>1. PICK w \in Parked : cstate' = [cstate EXCEPT ![w] = "woken"] BY <3>2, <2>1 DEF SignalOne
      <4>2. w \in Cons /\ cstate[w] = "parked" BY DEF Parked
      <4> QED BY <4>1, <4>2, <3>2, <1>u DEF CStates
    <3> QED BY <3>1, <3>2
  <2>6. ValidIds' = ValidIds \cup {it} /\ it \notin ValidIds
    <3>1. it \notin ValidIds BY <2>2 DEF ValidIds
    <3>2. ASSUME NEW pk \in ValidIds' PROVE pk \in ValidIds \cup {it}
      <4>1. pk \in Prod \X (1..ItemsPer) /\ pk[2] <= pushed'[pk[1]] BY DEF ValidIds
      <4>2. pk = <<pk[1], pk[2]>> /\ pk[1] \in Prod /\ pk[2] \in 1..ItemsPer BY <4>1
      <4>3. CASE pk[1] # p BY <4>1, <4>2, <4>3, <2>4 DEF ValidIds
      <4>4. CASE pk[1] = p /\ pk[2] <= pushed[p] BY <4>1, <4>2, <4>4 DEF ValidIds
      <4>5. CASE pk[1] = p /\ ~(pk[2] <= pushed[p])
        <5>1. pk[2] = pushed[p] + 1 BY <4>1, <4>2, <4>5, <2>4, <2>2
        <5> QED BY <5>1, <4>2, <4>5
      <4> QED BY <4>3, <4>4, <4>5
    <3>3. ASSUME NEW pk \in ValidIds \cup {it} PROVE pk \in ValidIds'
      <4>1. CASE pk = it BY <4>1, <2>2, <2>4 DEF ValidIds, Ids
      <4>2. CASE pk \in ValidIds
        <5>1. pk \in Prod \X (1..ItemsPer) /\ pk[2] <= pushed[pk[1]] BY <4>2 DEF ValidIds
        <5>2. pk[1] \in Prod /\ pk[2] \in 1..ItemsPer BY <5>1
        <5>3. pk[2] <= pushed'[pk[1]] BY <5>1, <5>2, <2>4, <1>u
        <5> QED BY <5>1, <5>3 DEF ValidIds
      <4> QED BY <4>1, <4>2
    <3> QED BY <3>1, <3>2, <3>3
  <2>7. IsFiniteSet(ValidIds') /\ Cardinality(ValidIds') = Cardinality(ValidIds) + 1
    BY <2>6, <1>t, FS_AddElement
  <2>8. Count' BY <2>1, <2>3, <2>7, <1>t DEF Count, IndInvT, IndInv
  <2>9. \A i \in DOMAIN items' : ItemOKp(items'[i])
    <3> SUFFICES ASSUME NEW i \in 1..(Len(items) + 1) PROVE ItemOKp(items'[i]) BY <2>3
    <3>1. CASE i <= Len(items)
      <4>1. items'[i] = items[i] /\ i \in DOMAIN items BY <3>1, <2>3, <1>t
      <4>2. ItemOK(items[i]) /\ items[i] \in Ids BY <4>1, <1>u, <1>t
      <4>3. items[i][1] \in Prod /\ items[i][2] \in 1..ItemsPer BY <4>2 DEF Ids
      <4>4. items[i][2] <= pushed[items[i][1]] /\ pushed[items[i][1]] <= pushed'[items[i][1]]
            /\ pushed[items[i][1]] \in 0..ItemsPer /\ pushed'[items[i][1]] \in 0..ItemsPer
        BY <4>2, <4>3, <2>4, <1>u DEF ItemOK
      <4> QED BY <4>1, <4>3, <4>4 DEF ItemOKp
    <3>2. CASE i = Len(items) + 1
      BY <3>2, <2>3, <2>4, <2>2 DEF ItemOK, ItemOKp
    <3> QED BY <3>1, <3>2, <1>t
  <2>10. \A i \in DOMAIN delivered' : ItemOKp(delivered'[i][2])
    <3> SUFFICES ASSUME NEW i \in DOMAIN delivered PROVE ItemOKp(delivered[i][2]) BY <2>1
    <3>1. ItemOK(delivered[i][2]) /\ delivered[i] \in DType BY <1>u, <1>t
    <3>2. delivered[i][2][1] \in Prod /\ delivered[i][2][2] \in 1..ItemsPer BY <3>1 DEF DType, Ids
    <3>3. delivered[i][2][2] <= pushed[delivered[i][2][1]] /\ pushed[delivered[i][2][1]] <= pushed'[delivered[i][2][1]]
          /\ pushed[delivered[i][2][1]] \in 0..ItemsPer /\ pushed'[delivered[i][2][1]] \in 0..ItemsPer
      BY <3>1, <3>2, <2>4, <1>u DEF ItemOK
    <3> QED BY <3>2, <3>3 DEF ItemOKp
  <2>11. SeqTyped' BY <2>1, <2>3, <2>7, <1>t DEF SeqTyped, Ids, DType
  <2>12. TypeOK'
    <3>1. items' \in Seq(Ids) /\ delivered' \in Seq(DType) BY <2>1, <2>3, <1>t
    <3>2. /\ \A i \in DOMAIN items' : items'[i] = <<items'[i][1], items'[i][2]>> /\ ItemOKp(items'[i])
          /\ \A i \in DOMAIN delivered' :
                /\ delivered'[i] = <<delivered'[i][1], <<delivered'[i][2][1], delivered'[i][2][2]>>>>
                /\ delivered'[i][1] \in Cons /\ ItemOKp(delivered'[i][2])
      <4>1. \A i \in DOMAIN items' : items'[i] \in Ids BY <3>1, ElementOfSeq, LenProperties
      <4>2. \A i \in DOMAIN delivered' : delivered'[i] \in DType BY <3>1, ElementOfSeq, LenProperties
      <4> QED BY <4>1, <4>2, <2>9, <2>10 DEF Ids, DType
    <3> QED BY <3>2, <2>1, <2>4, <2>5, <1>u DEF TypeOK, ItemOK, ItemOKp
  <2>13. OrdDD' BY <2>1 DEF OrdDD, IndInvT, IndInv
  <2>14. OrdII'
    <3> SUFFICES ASSUME NEW i \in 1..(Len(items) + 1), NEW j \in 1..(Len(items) + 1), i < j, items'[i][1] = items'[j][1]
                 PROVE items'[i][2] < items'[j][2]
      BY <2>3 DEF OrdII
    <3>1. i \in DOMAIN items /\ items'[i] = items[i] BY <2>3, <1>t
    <3>2. CASE j <= Len(items)
      <4>1. j \in DOMAIN items /\ items'[j] = items[j] BY <3>2, <2>3, <1>t
      <4> QED BY <3>1, <4>1 DEF OrdII, IndInvT, IndInv
    <3>3. CASE j = Len(items) + 1
      <4>1. items'[j] = it BY <3>3, <2>3
      <4>2. ItemOK(items[i]) /\ items[i] \in Ids BY <3>1, <1>u, <1>t
      <4>3. items[i][1] = p /\ items[i][2] \in 1..ItemsPer BY <3>1, <4>1, <4>2 DEF Ids
      <4>4. items[i][2] <= pushed[p] BY <4>2, <4>3 DEF ItemOK
      <4> QED BY <3>1, <4>1, <4>3, <4>4, <2>2
    <3> QED BY <3>2, <3>3, <1>t
  <2>15. OrdDI'
    <3> SUFFICES ASSUME NEW i \in DOMAIN delivered, NEW j \in 1..(Len(items) + 1), delivered[i][2][1] = items'[j][1]
                 PROVE delivered[i][2][2] < items'[j][2]
      BY <2>1, <2>3 DEF OrdDI
    <3>2. CASE j <= Len(items)
      <4>1. j \in DOMAIN items /\ items'[j] = items[j] BY <3>2, <2>3, <1>t
      <4> QED BY <4>1 DEF OrdDI, IndInvT, IndInv
    <3>3. CASE j = Len(items) + 1
      <4>1. items'[j] = it BY <3>3, <2>3
      <4>2. ItemOK(delivered[i][2]) /\ delivered[i] \in DType BY <1>u, <1>t
      <4>3. delivered[i][2][1] = p /\ delivered[i][2][2] \in 1..ItemsPer BY <4>1, <4>2 DEF DType, Ids
      <4>4. delivered[i][2][2] <= pushed[p] BY <4>2, <4>3 DEF ItemOK
      <4> QED BY <4>1, <4>3, <4>4, <2>2
    <3> QED BY <3>2, <3>3, <1>t
  <2>16. DrainBeforeClosed'
    <3> SUFFICES ASSUME NEW c \in Cons, cstate'[c] = "done" PROVE FALSE BY DEF DrainBeforeClosed
    <3>1. cstate[c] = "done" BY <2>5
    <3> QED BY <3>1, <2>1 DEF DrainBeforeClosed, IndInvT, IndInv
  <2>17. NoParkedWithWork'
    <3> SUFFICES ASSUME SignalOnPush PROVE (\E c \in Cons : CanRun(c)') \/ Parked' = {} BY DEF NoParkedWithWork
    <3>1. CASE Parked = {}
      <4>1. cstate' = cstate BY <3>1, <2>5
      <4> QED BY <4>1, <3>1 DEF Parked
    <3>2. CASE Parked # {}
      <4>1. PICK w \in Cons : cstate'[w] = "woken" BY <3>2, <2>5
      <4> QED BY <4>1 DEF CanRun
    <3> QED BY <3>1, <3>2
  <2> QED BY <2>8, <2>11, <2>12, <2>13, <2>14, <2>15, <2>16, <2>17 DEF IndInvT, IndInv
<1>2. ASSUME NEW c \in Cons, Take(c) PROVE IndInvT'
  <2>1. /\ CanRun(c) /\ items # <<>> /\ delivered' = Append(delivered, <<c, Head(items)>>) /\ items' = Tail(items)
        /\ cstate' = [cstate EXCEPT ![c] = "run"] /\ closed' = closed /\ pushed' = pushed
    BY <1>2 DEF Take
  <2>2. /\ Len(items) >= 1 /\ Head(items) = items[1] /\ items[1] \in Ids /\ 1 \in DOMAIN items
        /\ items' \in Seq(Ids) /\ Len(items') = Len(items) - 1
        /\ \A i \in 1..(Len(items) - 1) : items'[i] = items[i + 1]
        /\ DOMAIN items' = 1..(Len(items) - 1)
    <3>1. Len(items) # 0 BY <2>1, <1>t, EmptySeq
    <3> QED BY <3>1, <2>1, <1>t, HeadTailProperties, LenProperties
  <2> DEFINE d == <<c, items[1]>>
  <2>3. /\ d \in DType /\ delivered' \in Seq(DType) /\ Len(delivered') = Len(delivered) + 1
        /\ \A i \in 1..Len(delivered) : delivered'[i] = delivered[i]
        /\ delivered'[Len(delivered) + 1] = d
        /\ DOMAIN delivered' = 1..(Len(delivered) + 1)
    <3>1. d \in DType BY <2>2 DEF DType
    <3> QED BY <3>1, <2>1, <2>2, <1>t, AppendProperties, LenProperties
  <2>4. ValidIds' = ValidIds BY <2>1 DEF ValidIds
  <2>5. Count' BY <2>2, <2>3, <2>4, <1>t DEF Count, IndInvT, IndInv
  <2>6. SeqTyped' BY <2>2, <2>3, <2>4, <1>t DEF SeqTyped, Ids, DType
  <2>7. \A i \in DOMAIN items' : ItemOKp(items'[i])
    <3> SUFFICES ASSUME NEW i \in 1..(Len(items) - 1) PROVE ItemOKp(items'[i]) BY <2>2
    <3>1. items'[i] = items[i + 1] /\ i + 1 \in DOMAIN items BY <2>2, <1>t
    <3>2. ItemOK(items[i + 1]) BY <3>1, <1>u
    <3> QED BY <3>1, <3>2, <2>1 DEF ItemOK, ItemOKp
  <2>8. \A i \in DOMAIN delivered' : delivered'[i][1] \in Cons /\ ItemOKp(delivered'[i][2])
    <3> SUFFICES ASSUME NEW i \in 1..(Len(delivered) + 1) PROVE delivered'[i][1] \in Cons /\ ItemOKp(delivered'[i][2]) BY <2>3
    <3>1. CASE i <= Len(delivered)
      <4>1. delivered'[i] = delivered[i] /\ i \in DOMAIN delivered BY <3>1, <2>3, <1>t
      <4>2. ItemOK(delivered[i][2]) /\ delivered[i] \in DType BY <4>1, <1>u, <1>t
      <4> QED BY <4>1, <4>2, <2>1 DEF ItemOK, ItemOKp, DType
    <3>2. CASE i = Len(delivered) + 1
      <4>1. delivered'[i] = d BY <3>2, <2>3
      <4>2. ItemOK(items[1]) BY <2>2, <1>u
      <4> QED BY <4>1, <4>2, <2>1 DEF ItemOK, ItemOKp
    <3> QED BY <3>1, <3>2, <1>t
  <2>9. /\ DOMAIN cstate' = Cons /\ \A x \in Cons : cstate'[x] \in CStates
        /\ cstate'[c] = "run" /\ \A x \in Cons : x # c => cstate'[x] = cstate[x]
    BY <2>1, <1>u DEF CStates
  <2>10. TypeOK'
    <3>1. \A i \in DOMAIN items' : items'[i] \in Ids BY <2>2, ElementOfSeq, LenProperties
    <3>2. \A i \in DOMAIN delivered' : delivered'[i] \in DType BY <2>3, ElementOfSeq, LenProperties
    <3>3. /\ \A i \in DOMAIN items' : items'[i] = <<items'[i][1], items'[i][2]>>
          /\ \A i \in DOMAIN delivered' : delivered'[i] = <<delivered'[i][1], <<delivered'[i][2][1], delivered'[i][2][2]>>>>
      BY <3>1, <3>2 DEF Ids, DType
    <3> QED BY <3>3, <2>7, <2>8, <2>9, <2>1, <1>u DEF TypeOK, ItemOK, ItemOKp
  <2>11. OrdDD'
    <3> SUFFICES ASSUME NEW i \in 1..(Len(delivered) + 1), NEW j \in 1..(Len(delivered) + 1), i < j,
                        delivered'[i][2][1] = delivered'[j][2][1]
                 PROVE delivered'[i][2][2] < delivered'[j][2][2]
      BY <2>3 DEF OrdDD
    <3>1. i \in DOMAIN delivered /\ delivered'[i] = delivered[i] BY <2>3, <1>t
    <3>2. CASE j <= Len(delivered)
      <4>1. j \in DOMAIN delivered /\ delivered'[j] = delivered[j] BY <3>2, <2>3, <1>t
      <4> QED BY <3>1, <4>1 DEF OrdDD, IndInvT, IndInv
    <3>3. CASE j = Len(delivered) + 1
      <4>1. delivered'[j][2] = items[1] BY <3>3, <2>3
      <4> QED BY <3>1, <4>1, <2>2 DEF OrdDI, IndInvT, IndInv
    <3> QED BY <3>2, <3>3, <1>t
  <2>12. OrdII'
    <3> SUFFICES ASSUME NEW i \in 1..(Len(items) - 1), NEW j \in 1..(Len(items) - 1), i < j, items'[i][1] = items'[j][1]
                 PROVE items'[i][2] < items'[j][2]
      BY <2>2 DEF OrdII
    <3>1. items'[i] = items[i + 1] /\ items'[j] = items[j + 1] /\ i + 1 \in DOMAIN items /\ j + 1 \in DOMAIN items /\ i + 1 < j + 1
      BY <2>2, <1>t
    <3> QED BY <3>1 DEF OrdII, IndInvT, IndInv
  <2>13. OrdDI'
    <3> SUFFICES ASSUME NEW i \in 1..(Len(delivered) + 1), NEW j \in 1..(Len(items) - 1), delivered'[i][2][1] = items'[j][1]
                 PROVE delivered'[i][2][2] < items'[j][2]
      BY <2>2, <2>3 DEF OrdDI
    <3>1. items'[j] = items[j + 1] /\ j + 1 \in DOMAIN items /\ 1 < j + 1 BY <2>2, <1>t
    <3>2. CASE i <= Len(delivered)
      <4>1. i \in DOMAIN delivered /\ delivered'[i] = delivered[i] BY <3>2, <2>3, <1>t
      <4> QED BY <3>1, <4>1 DEF OrdDI, IndInvT, IndInv
    <3>3. CASE i = Len(delivered) + 1
      <4>1. delivered'[i][2] = items[1] BY <3>3, <2>3
      <4> QED BY <3>1, <4>1, <2>2 DEF OrdII, IndInvT, IndInv
    <3> QED BY <3>2, <3>3, <1>t
  <2>14. DrainBeforeClosed'
    <3> SUFFICES ASSUME NEW x \in Cons, cstate'[x] = "done" PROVE FALSE BY DEF DrainBeforeClosed
    <3>1. x # c /\ cstate[x] = "done" BY <2>9
    <3> QED BY <3>1, <2>1 DEF DrainBeforeClosed, IndInvT, IndInv
  <2>15. NoParkedWithWork' BY <2>9 DEF NoParkedWithWork, CanRun
  <2> QED BY <2>5, <2>6, <2>10, <2>11, <2>12, <2>13, <2>14, <2>15 DEF IndInvT, IndInv
<1>3. ASSUME NEW c \in Cons, Wait(c) PROVE IndInvT'
  <2>1. /\ items = <<>> /\ ~closed /\ cstate' = [cstate EXCEPT ![c] = "parked"]
        /\ UNCHANGED <<items, closed, pushed, delivered>>
    BY <1>3 DEF Wait
  <2>2. /\ DOMAIN cstate' = Cons /\ \A x \in Cons : cstate'[x] \in CStates
        /\ cstate'[c] = "parked" /\ \A x \in Cons : x # c => cstate'[x] = cstate[x]
    BY <2>1, <1>u DEF CStates
  <2>3. TypeOK' /\ SeqTyped' /\ OrdDD' /\ OrdII' /\ OrdDI' /\ Count'
    BY <2>1, <2>2 DEF IndInvT, IndInv, TypeOK, SeqTyped, OrdDD, OrdII, OrdDI, Count, ValidIds, ItemOK
  <2>4. DrainBeforeClosed' BY <2>1, <2>2 DEF DrainBeforeClosed, IndInvT, IndInv
  <2>5. NoParkedWithWork' BY <2>1 DEF NoParkedWithWork
  <2> QED BY <2>3, <2>4, <2>5 DEF IndInvT, IndInv
<1>4. ASSUME NEW c \in Cons, ClosedExit(c) PROVE IndInvT'
  <2>1. /\ items = <<>> /\ closed /\ cstate' = [cstate EXCEPT ![c] = "done"]
        /\ UNCHANGED <<items, closed, pushed, delivered>>
    BY <1>4 DEF ClosedExit
  <2>2. /\ DOMAIN cstate' = Cons /\ \A x \in Cons : cstate'[x] \in CStates
        /\ cstate'[c] = "done" /\ \A x \in Cons : x # c => cstate'[x] = cstate[x]
    BY <2>1, <1>u DEF CStates
  <2>3. TypeOK' /\ SeqTyped' /\ OrdDD' /\ OrdII' /\ OrdDI' /\ Count'
    BY <2>1, <2>2 DEF IndInvT, IndInv, TypeOK, SeqTyped, OrdDD, OrdII, OrdDI, Count, ValidIds, ItemOK
  <2>4. DrainBeforeClosed' BY <2>1, <2>2 DEF DrainBeforeClosed, IndInvT, IndInv
  <2>5. NoParkedWithWork' BY <2>1 DEF NoParkedWithWork
  <2> QED BY <2>3, <2>4, <2>5 DEF IndInvT, IndInv
<1>5. CASE CloseWhenProducersDone
  <2>1. /\ closed' = TRUE /\ cstate' = [x \in Cons |-> IF cstate[x] = "parked" THEN "woken" ELSE cstate[x]]
        /\ UNCHANGED <<items, pushed, delivered>>
    BY <1>5 DEF CloseWhenProducersDone, Close
  <2>2. /\ DOMAIN cstate' = Cons /\ \A x \in Cons : cstate'[x] \in CStates
        /\ \A x \in Cons : cstate'[x] # "parked" /\ (cstate'[x] = "done" => cstate[x] = "done")
    BY <2>1, <1>u DEF CStates
  <2>3. TypeOK' /\ SeqTyped' /\ OrdDD' /\ OrdII' /\ OrdDI' /\ Count'
    BY <2>1, <2>2 DEF IndInvT, IndInv, TypeOK, SeqTyped, OrdDD, OrdII, OrdDI, Count, ValidIds, ItemOK
  <2>4. DrainBeforeClosed' BY <2>1, <2>2 DEF DrainBeforeClosed, IndInvT, IndInv
  <2>5. NoParkedWithWork' BY <2>2 DEF NoParkedWithWork, Parked
  <2> QED BY <2>3, <2>4, <2>5 DEF IndInvT, IndInv
<1>6. CASE UNCHANGED vars
  BY <1>6 DEF vars, IndInvT, IndInv, TypeOK, SeqTyped, OrdDD, OrdII, OrdDI, Count, ValidIds, ItemOK,
              DrainBeforeClosed, NoParkedWithWork, CanRun, Parked
<1> QED BY <1>1, <1>2, <1>3, <1>4, <1>5, <1>6 DEF Next

THEOREM Implication == IndInvT => Safety
<1> SUFFICES ASSUME IndInvT PROVE Safety OBVIOUS
<1> USE ItemsPerNat
<1>1. \A i \in DOMAIN delivered : delivered[i] \in DType
  BY ElementOfSeq, LenProperties DEF IndInvT, SeqTyped, DType, Ids
<1>2. ASSUME NEW i \in DOMAIN delivered, NEW j \in DOMAIN delivered, i # j PROVE delivered[i][2] # delivered[j][2]
  <2>1. DOMAIN delivered = 1..Len(delivered) /\ Len(delivered) \in Nat BY LenProperties DEF IndInvT, SeqTyped
  <2>2. i < j \/ j < i BY <1>2, <2>1
  <2>3. delivered[i][2][2] \in 1..ItemsPer /\ delivered[j][2][2] \in 1..ItemsPer BY <1>1 DEF DType, Ids
  <2> QED BY <2>2, <2>3 DEF IndInvT, IndInv, OrdDD
<1>3. ExactlyOnceC BY <1>2 DEF ExactlyOnceC, IndInvT, IndInv, TypeOK, ItemOK, Count
<1> QED BY <1>3 DEF Safety, IndInvT, IndInv

THEOREM Unbounded == Spec => []Safety
<1>1. Init => IndInvT BY Initiation
<1>2. IndInvT /\ [Next]_vars => IndInvT' BY Consecution
<1>3. IndInvT => Safety BY Implication
<1> QED BY <1>1, <1>2, <1>3, PTL DEF Spec
=============================================================================
