--------------------------- MODULE KeepAlive_ApaEq ---------------------------
(* X09, TLC only: every step of KeepAlive!Spec changes <<pingL, waitL, st>> by a step of KeepAlive_Apa!LNext (or not
   at all), KeepAlive!Init satisfies LInit, the fold-based Older equals the original one, the DOMAIN-based InOneList /
   TimeOrder equal the original ones, and IndInv holds in every reachable state of the full timed specification. *)
EXTENDS KeepAlive
A == INSTANCE KeepAlive_Ind
RefinesList == A!LInit /\ [][A!LNext]_lvars
SameOlder == A!Older(pingL) = Older(pingL) /\ A!Older(waitL) = Older(waitL)
SameProps == (A!InOneList <=> InOneList) /\ (A!TimeOrder <=> TimeOrder)
AIndInv == A!IndInv
ASafety == A!Safety
=============================================================================
