------------------------ MODULE PlayerList_IndProof -------------------------
(* TLAPS proof that PlayerList_Ind!IndInv is an inductive invariant of PlayerList!PSpec for ARBITRARY
   Procs, Clients and any natural MaxCap, and that it implies Safety.  One step per action of PNext. *)
EXTENDS PlayerList_Ind, FiniteSetTheorems, TLAPS

ASSUME MaxCapNat == MaxCap \in Nat

THEOREM Initiation == PInit => IndInv
<1> SUFFICES ASSUME PInit PROVE IndInv OBVIOUS
<1>1. IsFiniteSet(players) /\ Cardinality(players) = 0
  BY FS_EmptySet DEF PInit
<1> QED BY <1>1, MaxCapNat DEF PInit, IndInv, TypeOK, NeverOverCapacity, LenNeverOverCapacity, NoCall, Ops

LEMMA CardType == ASSUME NEW S, IsFiniteSet(S) PROVE Cardinality(S) \in Nat
  BY FS_CardinalityType

THEOREM Consecution == IndInv /\ [PNext]_pvars => IndInv'
<1> SUFFICES ASSUME IndInv, [PNext]_pvars PROVE IndInv' OBVIOUS
<1> USE MaxCapNat
<1>c. Cardinality(players) \in Nat BY CardType DEF IndInv, TypeOK
<1>1. ASSUME NEW g \in Procs, NEW op \in {"join", "left", "len", "check"}, NEW c \in Clients \cup {0},
             op \in {"join", "left"} => c \in Clients, Start(g, op, c)
      PROVE IndInv'
  BY <1>1 DEF IndInv, TypeOK, NeverOverCapacity, LenNeverOverCapacity, Start, Ops
<1>2. ASSUME NEW g \in Procs, Lin(g) PROVE IndInv'
  <2>1. CASE pend[g].op = "join" /\ Cardinality(players) >= cap
    BY <1>2, <2>1, <1>c DEF IndInv, TypeOK, NeverOverCapacity, LenNeverOverCapacity, Lin, Ops
  <2>2. CASE pend[g].op = "join" /\ ~(Cardinality(players) >= cap)
    <3>1. players' = players \cup {pend[g].c} /\ pend' = [pend EXCEPT ![g].lin = TRUE, ![g].r = 1] /\ cap' = cap
      BY <1>2, <2>2 DEF Lin
    <3>2. IsFiniteSet(players') /\ Cardinality(players') <= Cardinality(players) + 1
      <4>1. CASE pend[g].c \in players
        <5>1. players' = players BY <4>1, <3>1
        <5> QED BY <5>1, <1>c DEF IndInv, TypeOK
      <4>2. CASE pend[g].c \notin players
        <5>1. IsFiniteSet(players) BY DEF IndInv, TypeOK
        <5>2. IsFiniteSet(players \cup {pend[g].c}) /\ Cardinality(players \cup {pend[g].c}) = Cardinality(players) + 1
          BY <5>1, <4>2, FS_AddElement
        <5> QED BY <5>2, <3>1, <1>c
      <4> QED BY <4>1, <4>2
    <3>3. Cardinality(players') \in Nat BY <3>2, CardType
    <3>4. Cardinality(players') <= cap' BY <3>1, <3>2, <3>3, <2>2, <1>c DEF IndInv, TypeOK
    <3>5. cap >= 1 BY <2>2, <1>c DEF IndInv, TypeOK
    <3> QED BY <3>1, <3>2, <3>4, <3>5, <2>2 DEF IndInv, TypeOK, NeverOverCapacity, LenNeverOverCapacity, Ops
  <2>3. CASE pend[g].op = "left"
    <3>1. players' = players \ {pend[g].c} /\ pend' = [pend EXCEPT ![g].lin = TRUE, ![g].r = 0] /\ cap' = cap
      BY <1>2, <2>3 DEF Lin
    <3>2. IsFiniteSet(players') /\ Cardinality(players') <= Cardinality(players)
      <4>1. players' \subseteq players BY <3>1
      <4> QED BY <4>1, FS_Subset DEF IndInv, TypeOK
    <3>3. Cardinality(players') \in Nat BY <3>2, CardType
    <3>4. Cardinality(players') <= cap' BY <3>1, <3>2, <3>3, <1>c DEF IndInv, TypeOK, NeverOverCapacity
    <3> QED BY <3>1, <3>2, <3>4, <2>3 DEF IndInv, TypeOK, NeverOverCapacity, LenNeverOverCapacity, Ops
  <2>4. CASE pend[g].op = "len"
    BY <1>2, <2>4, <1>c DEF IndInv, TypeOK, NeverOverCapacity, LenNeverOverCapacity, Lin, Ops
  <2>5. CASE pend[g].op = "check"
    BY <1>2, <2>5, <1>c DEF IndInv, TypeOK, NeverOverCapacity, LenNeverOverCapacity, Lin, Ops
  <2> QED BY <1>2, <2>1, <2>2, <2>3, <2>4, <2>5 DEF Lin
<1>3. ASSUME NEW g \in Procs, NEW r \in 0..MaxCap, End(g, r) PROVE IndInv'
  BY <1>3 DEF IndInv, TypeOK, NeverOverCapacity, LenNeverOverCapacity, End, NoCall, Ops
<1>4. CASE UNCHANGED pvars
  BY <1>4 DEF IndInv, TypeOK, NeverOverCapacity, LenNeverOverCapacity, pvars
<1> QED BY <1>1, <1>2, <1>3, <1>4 DEF PNext

THEOREM Implication == IndInv => Safety
  BY DEF IndInv, TypeOK, Safety

THEOREM Unbounded == PSpec => []Safety
<1>1. PInit => IndInv BY Initiation
<1>2. IndInv /\ [PNext]_pvars => IndInv' BY Consecution
<1>3. IndInv => Safety BY Implication
<1> QED BY <1>1, <1>2, <1>3, PTL DEF PSpec
=============================================================================
