SPECIFICATION LSpec
CONSTANTS
  Players = {1, 2, 3}
  W = 2
INVARIANTS IndInv Safety
CHECK_DEADLOCK FALSE
