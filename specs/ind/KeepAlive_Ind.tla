---------------------------- MODULE KeepAlive_Ind ----------------------------
(***************************************************************************)
(* X09: an inductive invariant for the list layer of KeepAlive.tla (X01),  *)
(* for arbitrary Players and W: every player is in exactly one of          *)
(* out / ping / wait / kicked and listed accordingly (InOneList), both     *)
(* lists are in time order (TimeOrder).  Built on KeepAlive_Apa (see       *)
(* there for how it relates to KeepAlive.tla).  The TLAPS proof           *)
(* (KeepAlive_IndProof.tla) states the same ListOK / sortedness on the     *)
(* ORIGINAL module and its timed Next.                                     *)
(***************************************************************************)
EXTENDS KeepAlive_Apa

States == {"out", "ping", "wait", "kicked"}
\* @type: (Seq({p: Int, t: Int}), Str) => Bool;
ListOK(L, s) == /\ \A i \in DOMAIN L : L[i] = [p |-> L[i].p, t |-> L[i].t] /\ L[i].p \in Players /\ L[i].t \in 0..Cap
                /\ \A i, j \in DOMAIN L : i # j => L[i].p # L[j].p          \* listed at most once
                /\ \A i \in DOMAIN L : st[L[i].p] = s                        \* listed => in that state
                /\ \A p \in Players : st[p] = s => \E i \in DOMAIN L : L[i].p = p   \* in that state => listed
TypeOK == DOMAIN st = Players /\ \A p \in Players : st[p] \in States
IndInv == TypeOK /\ ListOK(pingL, "ping") /\ ListOK(waitL, "wait") /\ TimeOrder
Safety == InOneList /\ TimeOrder

\* ---- self-test 1: "listed => in that state" dropped for the ping list
\* @type: (Seq({p: Int, t: Int}), Str) => Bool;
ListWeak(L, s) == /\ \A i \in DOMAIN L : L[i] = [p |-> L[i].p, t |-> L[i].t] /\ L[i].p \in Players /\ L[i].t \in 0..Cap
                  /\ \A i, j \in DOMAIN L : i # j => L[i].p # L[j].p
                  /\ \A p \in Players : st[p] = s => \E i \in DOMAIN L : L[i].p = p
IndInvWeak == TypeOK /\ ListWeak(pingL, "ping") /\ ListOK(waitL, "wait") /\ TimeOrder

\* ---- self-test 2: a Leave that forgets the wait list
LLeaveMut(p) == /\ st[p] # "out"
                /\ pingL' = Without(pingL, p) /\ UNCHANGED waitL /\ st' = [st EXCEPT ![p] = "out"]
LNextMut == LNext \/ \E p \in Players : LLeaveMut(p)
\* ---- self-test 3: a Pong stamped with a non-zero age (breaks the time order)
LNextMut2 == LNext \/ \E p \in Players : LPong(p, 1)

\* Apalache entry points: W any natural number, Players any subset of a 4-element universe, lists of at most 4 entries
ConstInit == Players \in SUBSET (1..4) /\ W \in Nat
Arbitrary == pingL = Gen(4) /\ waitL = Gen(4) /\ st = Gen(4)
IndInit == Arbitrary /\ IndInv
IndInitWeak == Arbitrary /\ IndInvWeak
=============================================================================
