-------------------------- MODULE Region_IndProof ---------------------------
(* TLAPS proof that Region_Ind!IndInv is an inductive invariant of Region!Spec without crashes, for an ARBITRARY set
   of chunks and ANY number of sectors, and implies NoOverlapMem /\ UsedExact /\ HeaderSync. *)
EXTENDS Region_Ind, TLAPS

ASSUME NoCrash == WithCrash = FALSE
ASSUME ConstNat == MaxSector \in Nat /\ MaxNeed \in Nat /\ MaxWrites \in Nat

(* the set-theoretic core: giving the old run back and taking a free run keeps the runs disjoint and the
   occupancy table exact *)
LEMMA AllocLemma ==
  ASSUME NEW off \in [Chunks -> OffType], NoOverlap(off),
         NEW c \in Chunks, NEW n \in Nat, NEW need \in Nat, n >= 2, need >= 1,
         FreeRun(UsedBy(off) \ Run(off[c]), n, need)
  PROVE  LET off2 == [off EXCEPT ![c] = [sec |-> n, cnt |-> need]] IN
         /\ off2 \in [Chunks -> OffType]
         /\ NoOverlap(off2)
         /\ (UsedBy(off) \ Run(off[c])) \cup (n..(n + need - 1)) = UsedBy(off2)
<1> DEFINE off2 == [off EXCEPT ![c] = [sec |-> n, cnt |-> need]]
           new == n..(n + need - 1)
           freed == UsedBy(off) \ Run(off[c])
<1>1. off2 \in [Chunks -> OffType] BY DEF OffType
<1>2. Run(off2[c]) = new BY DEF Run, OffType
<1>3. \A b \in Chunks : b # c => off2[b] = off[b] OBVIOUS
<1>4. \A s \in new : s >= 2 OBVIOUS
<1>5. \A s \in new : s \notin freed BY DEF FreeRun
<1>6. \A b \in Chunks : \A s \in Run(off[b]) : s >= 2 /\ b \in Live(off)
  BY DEF Run, NoOverlap, Live, OffType
<1>7. \A b \in Chunks : b # c => Run(off[b]) \subseteq freed
  <2> SUFFICES ASSUME NEW b \in Chunks, b # c, NEW s \in Run(off[b]) PROVE s \in freed OBVIOUS
  <2>1. s \in UsedBy(off) BY DEF UsedBy
  <2>2. s \notin Run(off[c])
    <3>1. CASE c \in Live(off) BY <3>1, <1>6 DEF NoOverlap
    <3>2. CASE c \notin Live(off) BY <3>2 DEF Live, Run
    <3> QED BY <3>1, <3>2
  <2> QED BY <2>1, <2>2
<1>8. NoOverlap(off2)
  <2>1. \A a \in Live(off2) : off2[a].sec >= 2 /\ off2[a].cnt >= 1
    BY <1>3 DEF Live, NoOverlap, OffType
  <2>2. ASSUME NEW a \in Live(off2), NEW b \in Live(off2), a # b PROVE Run(off2[a]) \cap Run(off2[b]) = {}
    <3>1. CASE a # c /\ b # c
      BY <3>1, <2>2, <1>3 DEF Live, NoOverlap
    <3>2. CASE a = c
      BY <3>2, <2>2, <1>2, <1>3, <1>5, <1>7 DEF Live
    <3>3. CASE b = c
      BY <3>3, <2>2, <1>2, <1>3, <1>5, <1>7 DEF Live
    <3> QED BY <3>1, <3>2, <3>3
  <2> QED BY <2>1, <2>2 DEF NoOverlap
<1>9. freed \cup new = UsedBy(off2)
  <2>1. ASSUME NEW s \in freed \cup new PROVE s \in UsedBy(off2)
    <3>1. CASE s \in new BY <3>1, <1>2 DEF UsedBy
    <3>2. CASE s \in freed
      <4>1. s \in {0, 1} \/ \E b \in Chunks : s \in Run(off[b]) BY <3>2 DEF UsedBy
      <4>2. CASE s \in {0, 1} BY <4>2 DEF UsedBy
      <4>3. CASE \E b \in Chunks : s \in Run(off[b])
        <5>1. PICK b \in Chunks : s \in Run(off[b]) BY <4>3
        <5>2. b # c BY <5>1, <3>2
        <5>3. s \in Run(off2[b]) BY <5>1, <5>2, <1>3
        <5> QED BY <5>3 DEF UsedBy
      <4> QED BY <4>1, <4>2, <4>3
    <3> QED BY <3>1, <3>2
  <2>2. ASSUME NEW s \in UsedBy(off2) PROVE s \in freed \cup new
    <3>1. s \in {0, 1} \/ \E b \in Chunks : s \in Run(off2[b]) BY DEF UsedBy
    <3>2. CASE s \in {0, 1}
      <4>1. s \in UsedBy(off) BY <3>2 DEF UsedBy
      <4>2. s \notin Run(off[c]) BY <3>2, <1>6
      <4> QED BY <4>1, <4>2
    <3>3. CASE \E b \in Chunks : s \in Run(off2[b])
      <4>1. PICK b \in Chunks : s \in Run(off2[b]) BY <3>3
      <4>2. CASE b = c BY <4>1, <4>2, <1>2
      <4>3. CASE b # c BY <4>1, <4>3, <1>3, <1>7
      <4> QED BY <4>2, <4>3
    <3> QED BY <3>1, <3>2, <3>3
  <2> QED BY <2>1, <2>2
<1> QED BY <1>1, <1>8, <1>9

THEOREM Initiation == Init => IndInv
<1> SUFFICES ASSUME Init PROVE IndInv OBVIOUS
<1> USE ConstNat
<1>1. TypeOKI
  BY DEF Init, TypeOKI, OffType, FlType, SecType, NoRun, NoFl, Empty, Parts
<1>2. FlOK BY DEF Init, FlOK, Idle, NoFl
<1>3. HeaderSync BY DEF Init, HeaderSync
<1>4. NoOverlapMem BY DEF Init, NoOverlapMem, NoOverlap, Live, NoRun
<1>5. UsedExact
  <2>1. \A c \in Chunks : Run(memOff[c]) = {} BY DEF Init, Run, NoRun
  <2>2. UNION {Run(memOff[c]) : c \in Chunks} = {} BY <2>1
  <2> QED BY <2>2 DEF Init, UsedExact, UsedBy
<1> QED BY <1>1, <1>2, <1>3, <1>4, <1>5 DEF IndInv

(* the actions that touch neither header nor occupancy table keep the allocator part *)
LEMMA FrameMem == ASSUME NoOverlapMem, UsedExact, UNCHANGED <<memOff, memUsed>>
                  PROVE NoOverlapMem' /\ UsedExact'
  BY DEF NoOverlapMem, UsedExact, NoOverlap, UsedBy, Live, Run

THEOREM Consecution == IndInv /\ [Next]_vars => IndInv'
<1> SUFFICES ASSUME IndInv, [Next]_vars PROVE IndInv' OBVIOUS
<1> USE ConstNat, NoCrash
<1>t. TypeOKI BY DEF IndInv
<1>1. ASSUME NEW c \in Chunks, NEW need \in 1..MaxNeed, NEW len \in Lens, WriteBegin(c, need, len) PROVE IndInv'
  <2> DEFINE old == memOff[c]
  <2>0. /\ Idle /\ nver' = nver + 1 /\ UNCHANGED <<diskOff, diskTs, diskSec, model, taint>>
        /\ old \in OffType /\ diskOff = memOff /\ diskTs = memTs /\ nver \in Nat
    BY <1>1, <1>t DEF WriteBegin, WriteBeginAt, IndInv, HeaderSync, TypeOKI
  <2>1. CASE old.sec # 0 /\ old.cnt = need
    <3>1. /\ fl' = [c |-> c, v |-> nver + 1, need |-> need, at |-> old.sec, pend |-> {"len", "data"}, done |-> 0, ts |-> memTs[c], len |-> len]
          /\ UNCHANGED <<memOff, memUsed, memTs>>
      BY <1>1, <2>1 DEF WriteBegin, WriteBeginAt
    <3>2. old.sec >= 2 /\ old = [sec |-> old.sec, cnt |-> need]
      BY <2>0, <2>1 DEF IndInv, NoOverlapMem, NoOverlap, Live, OffType
    <3>3. TypeOKI' BY <3>1, <2>0, <1>t DEF TypeOKI, FlType, OffType, Parts
    <3>4. ~Idle' BY <3>1, <2>0 DEF Idle
    <3>5. FlOK' BY <3>1, <3>2, <3>4, <2>0 DEF FlOK
    <3>6. HeaderSync' BY <3>4 DEF HeaderSync
    <3>7. NoOverlapMem' /\ UsedExact' BY <3>1, FrameMem DEF IndInv
    <3> QED BY <3>3, <3>5, <3>6, <3>7 DEF IndInv
  <2>2. CASE ~(old.sec # 0 /\ old.cnt = need)
    <3> DEFINE freed == memUsed \ Run(old)
    <3>1. PICK n \in Sectors :
            /\ n >= 2 /\ n + need - 1 <= MaxSector /\ FreeRun(freed, n, need)
            /\ memUsed' = freed \cup (n..(n + need - 1))
            /\ memOff' = [memOff EXCEPT ![c] = [sec |-> n, cnt |-> need]]
            /\ memTs' = [memTs EXCEPT ![c] = nver + 1]
            /\ fl' = [c |-> c, v |-> nver + 1, need |-> need, at |-> n, pend |-> {"hoff", "hts", "len", "data"}, done |-> 0, ts |-> nver + 1, len |-> len]
      BY <1>1, <2>2 DEF WriteBegin, WriteBeginAt
    <3>2. n \in Nat /\ need \in Nat /\ need >= 1 BY DEF Sectors
    <3>3. memUsed = UsedBy(memOff) /\ NoOverlap(memOff) /\ memOff \in [Chunks -> OffType]
      BY <1>t DEF IndInv, UsedExact, NoOverlapMem, TypeOKI
    <3>4. /\ memOff' \in [Chunks -> OffType] /\ NoOverlap(memOff')
          /\ (UsedBy(memOff) \ Run(memOff[c])) \cup (n..(n + need - 1)) = UsedBy(memOff')
      BY <3>1, <3>2, <3>3, AllocLemma
    <3>5. NoOverlapMem' /\ UsedExact' BY <3>1, <3>3, <3>4 DEF NoOverlapMem, UsedExact
    <3>6. memUsed' \in SUBSET Nat BY <3>1, <3>2, <1>t DEF TypeOKI
    <3>7. TypeOKI' BY <3>1, <3>2, <3>4, <3>6, <2>0, <1>t DEF TypeOKI, FlType, OffType, Parts
    <3>8. ~Idle' BY <3>1, <2>0 DEF Idle
    <3>9. FlOK' BY <3>1, <3>2, <3>8, <2>0, <1>t DEF FlOK, TypeOKI
    <3>10. HeaderSync' BY <3>8 DEF HeaderSync
    <3> QED BY <3>5, <3>7, <3>9, <3>10 DEF IndInv
  <2> QED BY <2>1, <2>2
<1>f. ASSUME ~Idle PROVE /\ fl.c \in Chunks /\ fl \in FlType
  BY <1>f, <1>t DEF IndInv, FlOK, TypeOKI
<1>i. ASSUME Idle PROVE fl.pend = {} BY <1>i DEF IndInv, FlOK, NoFl
<1>2. CASE PhysHdrOff
  <2>1. "hoff" \in fl.pend /\ ~Idle BY <1>2, <1>i DEF PhysHdrOff, MayDo
  <2>2. /\ diskOff' = [diskOff EXCEPT ![fl.c] = [sec |-> fl.at, cnt |-> fl.need]]
        /\ fl' = [fl EXCEPT !.pend = @ \ {"hoff"}]
        /\ UNCHANGED <<memOff, memTs, memUsed, diskTs, diskSec, model, taint, nver>>
    BY <1>2 DEF PhysHdrOff
  <2>3. TypeOKI' BY <2>1, <2>2, <1>t, <1>f DEF TypeOKI, FlType, OffType
  <2>4. ~Idle' /\ fl'.c = fl.c /\ fl'.need = fl.need /\ fl'.at = fl.at /\ fl'.ts = fl.ts /\ fl'.pend = fl.pend \ {"hoff"}
    BY <2>1, <2>2, <1>f DEF Idle, FlType
  <2>5. FlOK' BY <2>1, <2>2, <2>4, <1>t, <1>f DEF IndInv, FlOK, TypeOKI, OffType
  <2>6. HeaderSync' BY <2>4 DEF HeaderSync
  <2>7. NoOverlapMem' /\ UsedExact' BY <2>2, FrameMem DEF IndInv
  <2> QED BY <2>3, <2>5, <2>6, <2>7 DEF IndInv
<1>3. CASE PhysHdrTs
  <2>1. "hts" \in fl.pend /\ ~Idle BY <1>3, <1>i DEF PhysHdrTs, MayDo
  <2>2. /\ diskTs' = [diskTs EXCEPT ![fl.c] = fl.ts]
        /\ fl' = [fl EXCEPT !.pend = @ \ {"hts"}]
        /\ UNCHANGED <<memOff, memTs, memUsed, diskOff, diskSec, model, taint, nver>>
    BY <1>3 DEF PhysHdrTs
  <2>3. TypeOKI' BY <2>1, <2>2, <1>t, <1>f DEF TypeOKI, FlType
  <2>4. ~Idle' /\ fl'.c = fl.c /\ fl'.need = fl.need /\ fl'.at = fl.at /\ fl'.ts = fl.ts /\ fl'.pend = fl.pend \ {"hts"}
    BY <2>1, <2>2, <1>f DEF Idle, FlType
  <2>5. FlOK' BY <2>1, <2>2, <2>4, <1>t, <1>f DEF IndInv, FlOK, TypeOKI
  <2>6. HeaderSync' BY <2>4 DEF HeaderSync
  <2>7. NoOverlapMem' /\ UsedExact' BY <2>2, FrameMem DEF IndInv
  <2> QED BY <2>3, <2>5, <2>6, <2>7 DEF IndInv
<1>4. CASE PhysLen
  <2>1. "len" \in fl.pend /\ ~Idle BY <1>4, <1>i DEF PhysLen, MayDo
  <2>2. /\ diskSec' = [diskSec EXCEPT ![fl.at].lenv = fl.len]
        /\ fl' = [fl EXCEPT !.pend = @ \ {"len"}]
        /\ UNCHANGED <<memOff, memTs, memUsed, diskOff, diskTs, model, taint, nver>>
    BY <1>4 DEF PhysLen
  <2>3. TypeOKI' BY <2>1, <2>2, <1>t, <1>f DEF TypeOKI, FlType, SecType
  <2>4. ~Idle' /\ fl'.c = fl.c /\ fl'.need = fl.need /\ fl'.at = fl.at /\ fl'.ts = fl.ts /\ fl'.pend = fl.pend \ {"len"}
    BY <2>1, <2>2, <1>f DEF Idle, FlType
  <2>5. FlOK' BY <2>1, <2>2, <2>4 DEF IndInv, FlOK
  <2>6. HeaderSync' BY <2>4 DEF HeaderSync
  <2>7. NoOverlapMem' /\ UsedExact' BY <2>2, FrameMem DEF IndInv
  <2> QED BY <2>3, <2>5, <2>6, <2>7 DEF IndInv
<1>5. ASSUME NEW u \in 0..(MaxNeed - 1), PhysData(u) PROVE IndInv'
  <2>1. "data" \in fl.pend /\ ~Idle BY <1>5, <1>i DEF PhysData, MayDo
  <2>2. /\ diskSec' = [s \in Sectors |->
                   IF s \in (fl.at + fl.done)..(fl.at + u)
                   THEN [c |-> fl.c, v |-> fl.v, i |-> s - fl.at, n |-> fl.need, lenv |-> diskSec[s].lenv, dlen |-> fl.len]
                   ELSE diskSec[s]]
        /\ fl' = [fl EXCEPT !.done = u + 1, !.pend = IF u = fl.need - 1 THEN @ \ {"data"} ELSE @]
        /\ UNCHANGED <<memOff, memTs, memUsed, diskOff, diskTs, model, taint, nver>>
    BY <1>5 DEF PhysData
  <2>3. TypeOKI'
    <3>1. diskSec' \in [Sectors -> SecType]
      BY <2>1, <2>2, <1>t, <1>f DEF TypeOKI, FlType, SecType, Sectors
    <3>2. fl' \in FlType BY <2>1, <2>2, <1>f DEF FlType
    <3> QED BY <3>1, <3>2, <2>2, <1>t DEF TypeOKI
  <2>4. ~Idle' /\ fl'.c = fl.c /\ fl'.need = fl.need /\ fl'.at = fl.at /\ fl'.ts = fl.ts /\ fl'.pend \subseteq fl.pend
        /\ ("hoff" \notin fl'.pend <=> "hoff" \notin fl.pend) /\ ("hts" \notin fl'.pend <=> "hts" \notin fl.pend)
    BY <2>1, <2>2, <1>f DEF Idle, FlType
  <2>5. FlOK' BY <2>1, <2>2, <2>4 DEF IndInv, FlOK
  <2>6. HeaderSync' BY <2>4 DEF HeaderSync
  <2>7. NoOverlapMem' /\ UsedExact' BY <2>2, FrameMem DEF IndInv
  <2> QED BY <2>3, <2>5, <2>6, <2>7 DEF IndInv
<1>6. ASSUME NEW u \in 0..(MaxNeed - 1), PhysDataTorn(u) PROVE IndInv'
  BY <1>6 DEF PhysDataTorn
<1>7. CASE WriteEnd
  <2>1. ~Idle /\ fl.pend = {} BY <1>7 DEF WriteEnd
  <2>2. /\ model' = [model EXCEPT ![fl.c] = fl.v] /\ taint' = taint \ {fl.c} /\ fl' = NoFl
        /\ UNCHANGED <<memOff, memTs, memUsed, diskOff, diskTs, diskSec, nver>>
    BY <1>7 DEF WriteEnd
  <2>3. TypeOKI' BY <2>1, <2>2, <1>t, <1>f DEF TypeOKI, FlType, NoFl, Parts
  <2>4. Idle' BY <2>2 DEF Idle, NoFl
  <2>5. FlOK' BY <2>2, <2>4 DEF FlOK
  <2>6. \A c \in Chunks : diskOff[c] = memOff[c] /\ diskTs[c] = memTs[c]
    BY <2>1 DEF IndInv, FlOK
  <2>7. diskOff = memOff /\ diskTs = memTs BY <2>6, <1>t DEF TypeOKI
  <2>8. HeaderSync' BY <2>2, <2>7 DEF HeaderSync
  <2>9. NoOverlapMem' /\ UsedExact' BY <2>2, FrameMem DEF IndInv
  <2> QED BY <2>3, <2>5, <2>8, <2>9 DEF IndInv
<1>8. CASE Crash BY <1>8 DEF Crash
<1>9. CASE Reopen
  <2>1. Idle /\ diskOff = memOff /\ diskTs = memTs BY <1>9 DEF Reopen, IndInv, HeaderSync
  <2>2. /\ memOff' = diskOff /\ memTs' = diskTs /\ memUsed' = UsedBy(diskOff)
        /\ UNCHANGED <<diskOff, diskTs, diskSec, model, fl, taint, nver>>
    BY <1>9 DEF Reopen
  <2>3. UNCHANGED <<memOff, memTs, memUsed>> BY <2>1, <2>2 DEF IndInv, UsedExact
  <2>4. UNCHANGED vars BY <2>2, <2>3 DEF vars
  <2> QED BY <2>4 DEF IndInv, TypeOKI, FlOK, HeaderSync, NoOverlapMem, UsedExact, NoOverlap, UsedBy, Live, Run, Idle, vars
<1>10. CASE UNCHANGED vars
  BY <1>10 DEF IndInv, TypeOKI, FlOK, HeaderSync, NoOverlapMem, UsedExact, NoOverlap, UsedBy, Live, Run, Idle, vars
<1> QED BY <1>1, <1>2, <1>3, <1>4, <1>5, <1>6, <1>7, <1>8, <1>9, <1>10 DEF Next

THEOREM Implication == IndInv => Safety BY DEF IndInv, Safety

THEOREM Unbounded == Spec => []Safety
<1>1. Init => IndInv BY Initiation
<1>2. IndInv /\ [Next]_vars => IndInv' BY Consecution
<1>3. IndInv => Safety BY Implication
<1> QED BY <1>1, <1>2, <1>3, PTL DEF Spec
=============================================================================
