-------------------------------- MODULE NBT ---------------------------------
(***************************************************************************)
(* The NBT binary format (C01-C03, used by C04, C13, C17).                 *)
(* A node is a record:                                                     *)
(*   [t |-> 1..6, v |-> big-endian byte pattern (1,2,4,8,4,8 bytes)]       *)
(*   [t |-> 7, v |-> bytes]          [t |-> 8, v |-> string bytes]         *)
(*   [t |-> 9, et |-> element tag, v |-> sequence of nodes]                *)
(*   [t |-> 10, v |-> sequence of [k |-> key bytes, n |-> node]]           *)
(*   [t |-> 11, v |-> seq of 4-byte patterns] [t |-> 12, v |-> 8-byte ...] *)
(*   [t |-> 0]  (a document consisting of a single End tag)                *)
(* EncDoc and DecDoc are written independently; TLC checks them against    *)
(* each other on the generated universe before either is used as oracle.   *)
(***************************************************************************)
EXTENDS Integers, Sequences, SequencesExt, FiniteSets, TLC, Json

W(t) == CASE t = 1 -> 1 [] t = 2 -> 2 [] t = 3 -> 4 [] t = 4 -> 8 [] t = 5 -> 4 [] t = 6 -> 8
BE(k, w) == [i \in 1..w |-> IF w - i >= 3 THEN 0 ELSE (k \div (256^(w-i))) % 256]     \* 0 <= k < 2^24
EncStr(s) == BE(Len(s), 2) \o s

RECURSIVE EncP(_)
EncP(x) ==
  CASE x.t \in 1..6 -> x.v
    [] x.t = 7 -> BE(Len(x.v), 4) \o x.v
    [] x.t = 8 -> EncStr(x.v)
    [] x.t = 9 -> <<x.et>> \o BE(Len(x.v), 4) \o FlattenSeq([i \in 1..Len(x.v) |-> EncP(x.v[i])])
    [] x.t = 10 -> FlattenSeq([i \in 1..Len(x.v) |-> <<x.v[i].n.t>> \o EncStr(x.v[i].k) \o EncP(x.v[i].n)]) \o <<0>>
    [] x.t \in {11, 12} -> BE(Len(x.v), 4) \o FlattenSeq(x.v)
    [] x.t = 0 -> <<>>
\* file format: tag, name, payload ; network format: tag, payload (no name)
EncDoc(fmt, name, x) == IF x.t = 0 THEN <<0>>
                        ELSE <<x.t>> \o (IF fmt = "file" THEN EncStr(name) ELSE <<>>) \o EncP(x)

\* ---------------------------------------------------------------- decoder: recursive descent over positions
\* why: "short" (input ends early), "neg" (negative declared length), "tag" (unknown tag id), "other"
FailW(p, why) == [ok |-> FALSE, v |-> [t |-> 0], p |-> p, why |-> why]
Fail(p) == FailW(p, "short")
Avail(b, p, n) == p + n - 1 <= Len(b)
\* unsigned value of a big-endian field as [neg, k]: neg = sign bit set; k saturated at 2^24
Huge == 16777216
Num(bs) == IF bs[1] >= 128 THEN [neg |-> TRUE, k |-> 0]
           ELSE LET w == Len(bs)
                    hi == \E i \in 1..(w - 3) : bs[i] # 0
                    lo == SubSeq(bs, IF w > 3 THEN w - 2 ELSE 1, w)
                    RECURSIVE V(_) V(s) == IF s = <<>> THEN 0 ELSE 256 * V(SubSeq(s, 1, Len(s) - 1)) + s[Len(s)]
                IN IF w > 3 /\ hi THEN [neg |-> FALSE, k |-> Huge] ELSE [neg |-> FALSE, k |-> V(lo)]
DecStr(b, p) == IF ~Avail(b, p, 2) THEN [ok |-> FALSE, s |-> <<>>, p |-> p, why |-> "short"]
                ELSE LET l == Num(SubSeq(b, p, p + 1)) IN
                     IF l.neg THEN [ok |-> FALSE, s |-> <<>>, p |-> p, why |-> "neg"]
                     ELSE IF ~Avail(b, p + 2, l.k) THEN [ok |-> FALSE, s |-> <<>>, p |-> p, why |-> "short"]
                     ELSE [ok |-> TRUE, s |-> SubSeq(b, p + 2, p + 1 + l.k), p |-> p + 2 + l.k]
RECURSIVE DecP(_, _, _), DecList(_, _, _, _, _), DecComp(_, _, _), DecWords(_, _, _, _, _)
DecP(b, p, t) ==
  CASE t \in 1..6 -> IF Avail(b, p, W(t)) THEN [ok |-> TRUE, v |-> [t |-> t, v |-> SubSeq(b, p, p + W(t) - 1)], p |-> p + W(t)] ELSE Fail(p)
    [] t = 7 -> IF ~Avail(b, p, 4) THEN Fail(p)
                ELSE LET l == Num(SubSeq(b, p, p + 3)) IN
                     IF l.neg THEN FailW(p, "neg") ELSE IF ~Avail(b, p + 4, l.k) THEN Fail(p)
                     ELSE [ok |-> TRUE, v |-> [t |-> 7, v |-> SubSeq(b, p + 4, p + 3 + l.k)], p |-> p + 4 + l.k]
    [] t = 8 -> LET s == DecStr(b, p) IN IF s.ok THEN [ok |-> TRUE, v |-> [t |-> 8, v |-> s.s], p |-> s.p] ELSE FailW(p, s.why)
    [] t = 9 -> IF ~Avail(b, p, 5) THEN Fail(p)
                ELSE LET et == b[p]  l == Num(SubSeq(b, p + 1, p + 4)) IN
                     \* an unknown element type in the header of an EMPTY list is a grey area (nothing is read with it)
                     IF l.neg THEN FailW(p, "neg")
                     ELSE IF et > 12 /\ l.k > 0 THEN FailW(p, "tag")
                     ELSE IF et = 0 /\ l.k > 0 THEN FailW(p, "other")
                     ELSE IF l.k >= Huge THEN Fail(p)        \* 2^24 or more elements cannot be present in an input this short
                     ELSE DecList(b, p + 5, et, l.k, <<>>)
    [] t = 10 -> DecComp(b, p, <<>>)
    [] t \in {11, 12} -> IF ~Avail(b, p, 4) THEN Fail(p)
                ELSE LET l == Num(SubSeq(b, p, p + 3))  w == IF t = 11 THEN 4 ELSE 8 IN
                     IF l.neg THEN FailW(p, "neg") ELSE IF l.k >= Huge THEN Fail(p) ELSE IF ~Avail(b, p + 4, w * l.k) THEN Fail(p)
                     ELSE DecWords(b, p + 4, t, l.k, <<>>)
    [] OTHER -> FailW(p, "tag")
DecList(b, p, et, k, acc) ==
  IF k = 0 THEN [ok |-> TRUE, v |-> [t |-> 9, et |-> et, v |-> acc], p |-> p]
  ELSE IF p > Len(b) /\ et # 10 THEN Fail(p)
  ELSE LET r == DecP(b, p, et) IN IF r.ok THEN DecList(b, r.p, et, k - 1, Append(acc, r.v)) ELSE FailW(p, r.why)
DecWords(b, p, t, k, acc) ==
  LET w == IF t = 11 THEN 4 ELSE 8 IN
  [ok |-> TRUE, v |-> [t |-> t, v |-> [i \in 1..k |-> SubSeq(b, p + w*(i-1), p + w*i - 1)]], p |-> p + w*k]
DecComp(b, p, acc) ==
  IF p > Len(b) THEN Fail(p)
  ELSE IF b[p] = 0 THEN [ok |-> TRUE, v |-> [t |-> 10, v |-> acc], p |-> p + 1]
  ELSE IF b[p] > 12 THEN FailW(p, "tag")
  ELSE LET s == DecStr(b, p + 1) IN
       IF ~s.ok THEN FailW(p, s.why)
       ELSE LET r == DecP(b, s.p, b[p]) IN
            IF r.ok THEN DecComp(b, r.p, Append(acc, [k |-> s.s, n |-> r.v])) ELSE FailW(p, r.why)
\* returns [ok, name, tree, n] ; n = number of bytes the document spans
DecDoc(fmt, b) ==
  LET bad(why) == [ok |-> FALSE, name |-> <<>>, tree |-> [t |-> 0], n |-> 0, why |-> why] IN
  IF Len(b) = 0 THEN bad("short")
  ELSE IF b[1] = 0 THEN [ok |-> TRUE, name |-> <<>>, tree |-> [t |-> 0], n |-> 1, why |-> "none"]
  ELSE IF b[1] > 12 THEN bad("tag")
  ELSE IF fmt = "file"
       THEN LET s == DecStr(b, 2) IN
            IF ~s.ok THEN bad(s.why)
            ELSE LET r == DecP(b, s.p, b[1]) IN
                 IF r.ok THEN [ok |-> TRUE, name |-> s.s, tree |-> r.v, n |-> r.p - 1, why |-> "none"] ELSE bad(r.why)
       ELSE LET r == DecP(b, 2, b[1]) IN
            IF r.ok THEN [ok |-> TRUE, name |-> <<>>, tree |-> r.v, n |-> r.p - 1, why |-> "none"] ELSE bad(r.why)

\* equality of trees up to the order of compound entries (Go maps are unordered)
RECURSIVE Same(_, _)
Same(a, b) ==
  IF a.t # b.t THEN FALSE
  ELSE CASE a.t = 0 -> TRUE
         [] a.t = 9 -> a.et = b.et /\ Len(a.v) = Len(b.v) /\ \A i \in 1..Len(a.v) : Same(a.v[i], b.v[i])
         [] a.t = 10 -> /\ Len(a.v) = Len(b.v)
                        /\ \A i \in 1..Len(a.v) : \E j \in 1..Len(b.v) : a.v[i].k = b.v[j].k /\ Same(a.v[i].n, b.v[j].n)
         [] OTHER -> a.v = b.v

\* ---------------------------------------------------------------- bounded universe of documents
P(w) == {[i \in 1..w |-> 0], [i \in 1..w |-> 255], [i \in 1..w |-> IF i = 1 THEN 128 ELSE 0], [i \in 1..w |-> IF i = 1 THEN 127 ELSE 255]}
Leaves == UNION {{[t |-> t, v |-> x] : x \in P(W(t))} : t \in 1..6}
          \cup {[t |-> 7, v |-> <<>>], [t |-> 7, v |-> <<0, 255, 128>>]}
          \cup {[t |-> 8, v |-> <<>>], [t |-> 8, v |-> <<97>>], [t |-> 8, v |-> <<49, 46, 53>>], [t |-> 8, v |-> [i \in 1..40 |-> 200 + (i % 50)]]}
          \cup {[t |-> 11, v |-> <<>>], [t |-> 11, v |-> <<<<255, 255, 255, 255>>, <<0, 0, 1, 0>>>>]}
          \cup {[t |-> 12, v |-> <<>>], [t |-> 12, v |-> <<<<128, 0, 0, 0, 0, 0, 0, 0>>>>]}
Keys == {<<>>, <<97>>, <<98, 32, 255>>}
Lists(S) == {[t |-> 9, et |-> e, v |-> <<>>] : e \in {0, 1, 8, 9, 10, 12}}
            \cup {[t |-> 9, et |-> x.t, v |-> <<x>>] : x \in S}
            \cup UNION {{[t |-> 9, et |-> x.t, v |-> <<x, y, x>>] : y \in {z \in S : z.t = x.t}} : x \in {z \in S : z.t \in {2, 8, 9, 10, 11}}}
Comps(S) == {[t |-> 10, v |-> <<>>]}
            \cup {[t |-> 10, v |-> <<[k |-> k, n |-> x]>>] : k \in Keys, x \in S}
            \cup {[t |-> 10, v |-> <<[k |-> <<97>>, n |-> x], [k |-> <<>>, n |-> y]>>] : x, y \in {z \in S : z.t \in {1, 4, 7, 8, 9, 10, 12}}}
Pick(S) == {x \in S : x.t \in 1..8 => x.v \in {<<127, 255>>, <<97>>, <<0, 255, 128>>, <<0>>}}      \* thin out leaves below depth 2
D1 == Leaves
D2 == Lists(D1) \cup Comps(D1)
Rep2 == {x \in D2 : (x.t = 9 => Len(x.v) <= 1 /\ (x.v = <<>> => x.et \in {0, 10}) /\ (x.v # <<>> => x.v[1].t \in {3, 8, 11}))
                    /\ (x.t = 10 => Len(x.v) <= 1 /\ (x.v # <<>> => x.v[1].k = <<97>> /\ x.v[1].n.t \in {1, 8, 12}))}
D3 == Lists(Rep2) \cup Comps(Rep2)
Universe == D1 \cup D2 \cup D3 \cup {[t |-> 0]}

CONSTANTS Fmts, EmitJson, Quick
VARIABLES doc, fmt
vars == <<doc, fmt>>
Init == fmt \in Fmts /\ doc \in (IF Quick THEN D1 \cup D2 \cup {[t |-> 0]} ELSE Universe)
Next == UNCHANGED vars
Spec == Init /\ [][Next]_vars

Name == <<110, 0, 255>>
Junk == <<10, 0, 9>>
RoundTrip == LET e == EncDoc(fmt, Name, doc)  d == DecDoc(fmt, e \o Junk) IN
             /\ d.ok /\ d.tree = doc /\ d.n = Len(e) /\ Same(d.tree, doc)
             /\ (doc.t # 0 /\ fmt = "file" => d.name = Name)
PrefixFree == LET e == EncDoc(fmt, Name, doc) IN \A k \in 0..(Len(e) - 1) : ~DecDoc(fmt, SubSeq(e, 1, k)).ok
Emit == EmitJson => PrintT(ToJson([fmt |-> fmt, name |-> IF fmt = "file" /\ doc.t # 0 THEN Name ELSE <<>>, tree |-> doc, bytes |-> EncDoc(fmt, Name, doc)]))
=============================================================================
