SPECIFICATION Spec
CONSTANTS
  Boxes <- MC_BoxesQ
  Tests <- MC_Tests
  Vals = {7}
  MaxLeaves = 4
  AnySibling = TRUE
  RefitRootOnDelete = FALSE
  Bug = 0
VIEW View
INVARIANTS TypeOK InvBinary InvParents InvConnected InvContains Refines InnerCount FindExact FindStops BestNonEmpty
PROPERTIES OneLeaf
CHECK_DEADLOCK FALSE
