------------------------------- MODULE NBTMap -------------------------------
(***************************************************************************)
(* The documented mapping between Go values and NBT trees (C01 encoder     *)
(* clause, C02).  Go types are type EXPRESSIONS:                            *)
(*   [k |-> "bool"|"i8"|"u8"|"i16"|"u16"|"i32"|"u32"|"i64"|"u64"|"f32"|"f64"|"str"]  *)
(*   [k |-> "slice", e]  [k |-> "array", e]  [k |-> "map", e]  [k |-> "ptr", e]       *)
(*   [k |-> "iface"]     [k |-> "struct", fs]                                        *)
(* with fs a sequence of [name, ty, omit, list, skip, emb, ut].  Abstract values:        *)
(*   scalars: big-endian byte pattern; str: bytes; slice/array: sequence;            *)
(*   map: sequence of [k, v]; struct: sequence of field values; ptr: the pointee;    *)
(*   iface: [ty, v] (dynamic type and value).                                        *)
(***************************************************************************)
EXTENDS NBT

ScalarTag(k) == CASE k \in {"bool", "i8", "u8"} -> 1 [] k \in {"i16", "u16"} -> 2 [] k \in {"i32", "u32"} -> 3
                  [] k \in {"i64", "u64"} -> 4 [] k = "f32" -> 5 [] k = "f64" -> 6 [] k = "str" -> 8
Scalars == {"bool", "i8", "u8", "i16", "u16", "i32", "u32", "i64", "u64", "f32", "f64", "str"}

RECURSIVE TagOfVal(_, _), StaticTag(_), EncodeGo(_, _), Entries(_, _, _), IsEmptyVal(_, _), Flat(_, _, _, _, _), Entry(_, _)
\* tag chosen from the static type alone (used for empty slices): anything that is not a scalar,
\* struct or map has no static tag (End)
StaticTag(T) == CASE T.k \in Scalars -> ScalarTag(T.k)
                  [] T.k \in {"struct", "map"} -> 10
                  [] OTHER -> 0
\* tag of a value: slices/arrays look at their first element (or the static element type when empty)
TagOfVal(T, v) ==
  CASE T.k \in Scalars -> ScalarTag(T.k)
    [] T.k \in {"struct", "map"} -> 10
    [] T.k = "ptr" -> TagOfVal(T.e, v)
    [] T.k = "iface" -> TagOfVal(v.ty, v.v)
    [] T.k \in {"slice", "array"} ->
         \* a slice of interface values is a list whatever it holds (it is what a list decodes to); typed arrays
         \* come from slices of plain integers only
         IF T.e.k = "iface" THEN 9 ELSE
         LET et == IF Len(v) > 0 THEN TagOfVal(T.e, v[1]) ELSE StaticTag(T.e) IN
         CASE et = 1 -> 7 [] et = 3 -> 11 [] et = 4 -> 12 [] OTHER -> 9
IsEmptyVal(T, v) ==
  CASE T.k \in {"slice", "array", "map", "str"} -> Len(v) = 0
    [] T.k \in Scalars \ {"str", "f32", "f64"} -> \A i \in 1..Len(v) : v[i] = 0
    [] T.k \in {"f32", "f64"} -> (\A i \in 2..Len(v) : v[i] = 0) /\ v[1] \in {0, 128}     \* +0 and -0
    [] OTHER -> FALSE
\* compound entries of a struct value: fields in declaration order, embedded structs promoted in place. When several
\* fields claim one name (possible through embedding) the rule of encoding/json, which typeinfo.go follows, decides:
\* the field at the shallowest embedding depth wins; among several at that depth the one whose name comes from a tag
\* wins if it is the only such; otherwise NONE of them is a member (f.ut: the name is the Go field's, not a tag's).
Flat(fs, vs, i, d, pre) ==
  IF i > Len(fs) THEN <<>>
  ELSE LET f == fs[i]  v == vs[i] IN
       (IF f.skip THEN <<>>
        ELSE IF f.emb THEN Flat(f.ty.fs, v, 1, d + 1, Append(pre, i))
        ELSE <<[f |-> f, v |-> v, d |-> d, pos |-> Append(pre, i)]>>)
       \o Flat(fs, vs, i + 1, d, pre)
Dominant(j, all) ==
  LET same == {k \in 1..Len(all) : all[k].f.name = all[j].f.name}
      mind == CHOOSE m \in {all[k].d : k \in same} : \A k \in same : all[k].d >= m
      atmin == {k \in same : all[k].d = mind}
      tagged == {k \in atmin : ~all[k].f.ut}
  IN all[j].d = mind /\ (Cardinality(atmin) = 1 \/ (~all[j].f.ut /\ Cardinality(tagged) = 1))
Entry(f, v) ==
  IF f.omit /\ IsEmptyVal(f.ty, v) THEN <<>>
  ELSE LET n == EncodeGo(f.ty, v) IN
       <<[k |-> f.name, n |-> IF f.list /\ n.t \in {7, 11, 12} THEN
             \* the list option turns a typed array into a list of its elements
             [t |-> 9, et |-> (CASE n.t = 7 -> 1 [] n.t = 11 -> 3 [] n.t = 12 -> 4),
              v |-> IF n.t = 7 THEN [j \in 1..Len(n.v) |-> [t |-> 1, v |-> <<n.v[j]>>]]
                    ELSE [j \in 1..Len(n.v) |-> [t |-> IF n.t = 11 THEN 3 ELSE 4, v |-> n.v[j]]]]
           ELSE n]>>
Entries(fs, vs, i) ==
  LET all == Flat(fs, vs, i, 0, <<>>) IN
  FlattenSeq([j \in 1..Len(all) |-> IF Dominant(j, all) THEN Entry(all[j].f, all[j].v) ELSE <<>>])
EncodeGo(T, v) ==
  CASE T.k \in Scalars -> [t |-> ScalarTag(T.k), v |-> v]
    [] T.k = "ptr" -> EncodeGo(T.e, v)
    [] T.k = "iface" -> EncodeGo(v.ty, v.v)
    [] T.k = "struct" -> [t |-> 10, v |-> Entries(T.fs, v, 1)]
    [] T.k = "map" -> [t |-> 10, v |-> [i \in 1..Len(v) |-> [k |-> v[i].k, n |-> EncodeGo(T.e, v[i].v)]]]
    [] T.k \in {"slice", "array"} ->
         LET tg == TagOfVal(T, v) IN
         CASE tg = 7 -> [t |-> 7, v |-> [i \in 1..Len(v) |-> EncodeGo(T.e, v[i]).v[1]]]
           [] tg \in {11, 12} -> [t |-> tg, v |-> [i \in 1..Len(v) |-> EncodeGo(T.e, v[i]).v]]
           [] OTHER -> [t |-> 9, et |-> IF Len(v) > 0 THEN TagOfVal(T.e, v[1]) ELSE StaticTag(T.e),
                        v |-> [i \in 1..Len(v) |-> EncodeGo(T.e, v[i])]]
=============================================================================
