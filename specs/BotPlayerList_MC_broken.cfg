SPECIFICATION Spec
CONSTANTS
  Uuids = {1, 2}
  Vals = {1}
  MaxEnts = 2
  ActSets <- SomeActSets
  Variant = "broken"
VIEW View
INVARIANTS TypeOK
PROPERTIES UpdateRule
CHECK_DEADLOCK FALSE
