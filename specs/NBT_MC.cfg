SPECIFICATION Spec
CONSTANTS
  Fmts = {"file", "network"}
  EmitJson = TRUE
  Quick = TRUE
INVARIANTS RoundTrip PrefixFree Emit
CHECK_DEADLOCK FALSE
