--------------------------- MODULE KeepAlive_Trace ---------------------------
(* Trace validation for X01: executions of the real server.KeepAlive are      *)
(* judged against the LIST layer of KeepAlive.tla plus real-time constraints  *)
(* that hold under EVERY scheduling of the goroutines (never "it took too     *)
(* long").  Events (one log per manager, written under one mutex; `at` =      *)
(* microseconds since the manager was created, read under that mutex):        *)
(*   reset P W sync at   a new manager (at = just before NewKeepAlive); sync: *)
(*                       judge with "a timer never fires before the instant   *)
(*                       it was last set to" (go1.23 timer channels)          *)
(*   join|leave|pong p at   a driver is ABOUT to call ClientJoin/Left/Tick    *)
(*   ret p               that call has returned (for pong: and the delay      *)
(*                       handler has been seen)                               *)
(*   ping p id at        SendKeepAlive(id) called on p's client               *)
(*   kick p at           SendDisconnect called on p's client                  *)
(*   delay p d at        a delay-update handler called with d microseconds    *)
(*   stall p want at     p's driver waited very long for a ping / kick        *)
(*   end                 the scenario is over                                 *)
(* The manager handles a call between its `join/leave/pong` and its `ret`     *)
(* line; where exactly is not logged (silent Apply step, hence the high-water *)
(* mark acceptance) - except for pong, whose `delay` line is that point.      *)
(*                                                                           *)
(* Stamps in the lists are LOWER bounds of the real ones:                     *)
(*   pingL item t  <= the time.Now() stored by pushPlayer / tickPlayer        *)
(*   waitL item t  <= the instant the listTimer fired for that ping           *)
(*   plo, wlo      <= the instants the two timers are currently set to        *)
(* With pre-go1.23 timer channels (GODEBUG asynctimerchan=1, what go-mc's     *)
(* go.mod selects) Reset does not drain a value already sent, and keepalive.go*)
(* resets without draining: a stale value can make a timer case run before    *)
(* the timer's current setting.  Then (sync = FALSE) plo / wlo are not used:  *)
(* a value received from listTimer.C was sent after the previous receive from *)
(* it, i.e. after the ping before the previous ping was handed out (prev[1]). *)
(* A timer never fires before it is set to, so                                *)
(*   kick p at T        needs  T >= wlo                  (sync)               *)
(*                      and    T >= t(p) + W             (AllowEarlyKick=FALSE*)
(*                             the intended "nobody is kicked before its own  *)
(*                             delay ran out"; keepalive.go does not re-arm   *)
(*                             the waitTimer on a ping and breaks it)         *)
(*   delay p d          needs  callAt(pong) - sent(p) <= d <= at - t(p)       *)
(* AllowResurrect = TRUE accepts a pong of a kicked player putting it back    *)
(* into the ping list (what keepalive.go does); with FALSE such a pong has no *)
(* effect on the lists, like a pong without an outstanding ping.              *)
EXTENDS KeepAlive, Json

CONSTANTS AllowEarlyKick,   \* TRUE: as coded (a kick only needs its timer); FALSE: intended (own delay ran out)
          AllowResurrect    \* TRUE: as coded (pong of a kicked player re-queues it); FALSE: intended (no effect)
Trace == ndJsonDeserialize("trace.ndjson")

VARIABLES l, pend, callAt, sent, plo, wlo, Pq, Wq, early, syncT, prev
tvars == <<vars, l, pend, callAt, sent, plo, wlo, Pq, Wq, early, syncT, prev>>
base == <<nextId, ltm, wtm, obs>>          \* the timed layer of KeepAlive is not used here
Ev == Trace[l]
IsEvent(k) == l <= Len(Trace) /\ Trace[l].k = k /\ l' = l + 1
Zero == [p \in Players |-> 0]
None == [p \in Players |-> "none"]
\* lower bound of the expiry a timer is set to by keepAliveSetTimer at an instant >= now
SetLo(L, I, now) == IF L = <<>> THEN now + I ELSE Max(now, L[1].t + I)

TReset == /\ IsEvent("reset")
          /\ pingL' = <<>> /\ waitL' = <<>> /\ st' = [p \in Players |-> "out"] /\ nextId' = 0
          /\ pend' = None /\ callAt' = Zero /\ sent' = Zero
          /\ Pq' = Ev.P /\ Wq' = Ev.W /\ plo' = Ev.at + Ev.P /\ wlo' = Ev.at + Ev.W
          /\ syncT' = Ev.sync /\ prev' = <<Ev.at + Ev.P, Ev.at + Ev.P>>
          /\ UNCHANGED <<ltm, wtm, obs, early>>

TCall == /\ \/ IsEvent("join") \/ IsEvent("leave") \/ IsEvent("pong")
         /\ pend[Ev.p] = "none"
         /\ pend' = [pend EXCEPT ![Ev.p] = Ev.k] /\ callAt' = [callAt EXCEPT ![Ev.p] = Ev.at]
         /\ UNCHANGED <<vars, sent, plo, wlo, Pq, Wq, early, syncT, prev>>

\* silent: the manager takes the join / leave out of its channel and handles it
Apply(p) ==
  /\ l <= Len(Trace) /\ UNCHANGED l
  /\ \/ /\ pend[p] = "join" /\ LJoin(p, callAt[p]) /\ UNCHANGED <<plo, wlo>>
     \/ /\ pend[p] = "leave" /\ LLeave(p)
        /\ IF LeaveResets(p)
             THEN /\ plo' = SetLo(pingL', Pq, callAt[p]) /\ wlo' = SetLo(waitL', Wq, callAt[p])
             ELSE UNCHANGED <<plo, wlo>>
  /\ pend' = [pend EXCEPT ![p] = "none"]
  /\ UNCHANGED <<base, callAt, sent, Pq, Wq, early, syncT, prev>>

TRet == /\ IsEvent("ret") /\ pend[Ev.p] = "none" /\ UNCHANGED <<vars, pend, callAt, sent, plo, wlo, Pq, Wq, early, syncT, prev>>

TPing == /\ IsEvent("ping")
         /\ pingL # <<>> /\ pingL[1].p = Ev.p /\ Ev.id = nextId
         /\ LPing(IF syncT THEN plo ELSE prev[1])         \* the listTimer fired at >= plo (see above for ~syncT)
         /\ prev' = <<prev[2], Ev.at>>
         /\ nextId' = nextId + 1
         /\ sent' = [sent EXCEPT ![Ev.p] = Ev.at]
         /\ plo' = SetLo(pingL', Pq, Ev.at)
         /\ UNCHANGED <<ltm, wtm, obs, pend, callAt, wlo, Pq, Wq, early, syncT>>

TKick == /\ IsEvent("kick")
         /\ waitL # <<>> /\ waitL[1].p = Ev.p
         /\ syncT => Ev.at >= wlo
         /\ AllowEarlyKick \/ Ev.at >= waitL[1].t + Wq
         /\ early' = early + (IF Ev.at >= waitL[1].t + Wq THEN 0 ELSE 1)
         /\ LKick
         /\ wlo' = SetLo(waitL', Wq, Ev.at)
         /\ UNCHANGED <<base, pend, callAt, sent, plo, Pq, Wq, syncT, prev>>

TDelay == /\ IsEvent("delay") /\ pend[Ev.p] = "pong"
          /\ \/ /\ st[Ev.p] = "wait"
                /\ LET it == waitL[CHOOSE i \in 1..Len(waitL) : waitL[i].p = Ev.p]
                   IN  Ev.d + 1 >= callAt[Ev.p] - sent[Ev.p] /\ Ev.d - 1 <= Ev.at - it.t
                /\ LPong(Ev.p, callAt[Ev.p])
                /\ IF IsHead(waitL, Ev.p) THEN wlo' = SetLo(waitL', Wq, callAt[Ev.p]) ELSE UNCHANGED wlo
             \* a pong that raced with the kick: keepalive.go re-queues the player; intended: it stays out
             \/ /\ st[Ev.p] = "kicked"
                /\ IF AllowResurrect THEN LResurrect(Ev.p, callAt[Ev.p]) /\ wlo' = SetLo(waitL, Wq, callAt[Ev.p])
                               ELSE UNCHANGED <<lvars, wlo>>
             \* an unsolicited pong (no ping outstanding) changes nothing; whether the handlers run is not specified
             \/ /\ st[Ev.p] = "ping" /\ UNCHANGED <<lvars, wlo>>
          /\ pend' = [pend EXCEPT ![Ev.p] = "none"]
          /\ UNCHANGED <<base, callAt, sent, plo, Pq, Wq, early, syncT, prev>>

\* a driver gave up waiting: the manager must not owe this player anything
TStall == /\ IsEvent("stall") /\ pend[Ev.p] = "none" /\ st[Ev.p] \notin {"ping", "wait"}
          /\ UNCHANGED <<vars, pend, callAt, sent, plo, wlo, Pq, Wq, early, syncT, prev>>
TEnd == /\ IsEvent("end") /\ \A p \in Players : pend[p] = "none"
        /\ UNCHANGED <<vars, pend, callAt, sent, plo, wlo, Pq, Wq, early, syncT, prev>>

TraceInit == /\ Init /\ l = 1 /\ pend = None /\ callAt = Zero /\ sent = Zero
             /\ plo = 0 /\ wlo = 0 /\ Pq = 0 /\ Wq = 0 /\ early = 0 /\ syncT = TRUE /\ prev = <<0, 0>>
TraceNext == /\ \/ TReset \/ TCall \/ TRet \/ TPing \/ TKick \/ TDelay \/ TStall \/ TEnd
                \/ \E p \in Players : Apply(p)
             /\ InOneList'
TraceSpec == TraceInit /\ [][TraceNext]_tvars

ASSUME TLCSet(1, 0) /\ TLCSet(2, 0)
HWM == /\ TLCSet(1, IF TLCGet(1) < l THEN l ELSE TLCGet(1))
       /\ (l = Len(Trace) + 1 => TLCSet(2, early))
Accepted == /\ PrintT(<<"HWM", TLCGet(1), Len(Trace) + 1>>)
            /\ PrintT(<<"EARLY", TLCGet(2)>>)
            /\ TLCGet(1) = Len(Trace) + 1
=============================================================================
