------------------------------ MODULE Chunk_Gen ------------------------------
(* Behaviour generator for leg A of C13: the Chunk specification simulated by TLC with all calls      *)
(* enabled.  The many SetBlock / SetBiome instances are thinned so that fills, height maps, light,     *)
(* block entities and the conversions occur in every behaviour.  This module only chooses which        *)
(* behaviours are replayed on real level.Chunk values (the history variable `act` names every step);   *)
(* it proves nothing.                                                                                  *)
EXTENDS Chunk
(* "tightbiomes" in Ops: every section's biomes are written by one fill of a fresh section or by writes to fresh
   positions only, so that the biome container never re-packs after losing palette entries (the class of an
   open finding that makes ChunkFromSave fail as a whole; the other configuration leaves it in) *)
Tight == "tightbiomes" \in Ops
GenNext ==
  /\ steps < MaxSteps
  /\ \/ \E s \in TrackedSecs, p \in BlockPos, v \in BlockIds : (s + p + v + steps) % 3 = 0 /\ SetBlock(s, p, v)
     \/ \E s \in TrackedSecs, pal \in BlockFills : (steps + s) % 3 = 0 /\ FillBlocks(s, pal)
     \/ \E s \in TrackedSecs, p \in BiomePos, v \in BiomeIds : (s + p + v + steps) % 3 = 1 /\ (Tight => biomes[s].pal = <<0>> /\ p \notin DOMAIN biomes[s].arr) /\ SetBiome(s, p, v)
     \/ \E s \in TrackedSecs, pal \in BiomeFills : (steps + s) % 4 = 1 /\ (Tight => biomes[s] = Filled(<<0>>)) /\ FillBiomes(s, pal)
     \/ \E n \in HMSet, t \in Tokens : (HMIndex(n) + t + steps) % 3 = 0 /\ SetHeightMap(n, t)
     \/ \E s \in TrackedSecs, kind \in {"sky", "block"}, t \in Tokens \cup {0} : (s + t + steps) % 4 = 2 /\ SetLight(s, kind, t)
     \/ Len(ents) < 3 /\ \E e \in GenEnts : steps % 3 = 2 /\ AddBlockEntity(e)
     \/ \E t \in Tokens : steps % 5 = 3 /\ SetStatus(t)
     \/ NetRoundTrip \/ DataRoundTrip
     \/ \E y \in YPosSet : SaveRoundTrip(y)
GenSpec == Init /\ [][GenNext]_vars
=============================================================================
