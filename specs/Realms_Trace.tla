----------------------------- MODULE Realms_Trace -----------------------------
(* Trace validation for X12/Realms.  Every line is one call on a real realms.Realms (or New / a change at the model   *)
(* server) with the fault the server was told to answer with, the result (ok, ret as a tuple of tokens, error kind), *)
(* the requests the server saw (method, path with the world id taken out, member names, cookies as demanded: ck),    *)
(* the number of response bodies left open, and the projection AFTER the call: tos, inv (rows <<world, names>>),     *)
(* pend, the client's cred / ver.  The state before a call is the projection on the previous line: every line is an  *)
(* independent initial state l; failed checks are printed as <<"X2FAIL", l, {checks}>>.                               *)
(* checks:  1 NoPanic  2 Fresh  3 WellFormed  4 Request (method, path, body members, content type)  5 Cookie          *)
(*          6 Server (state as computed)  7 Result (calls outside the named classes)                                  *)
(*          8 NoSilentSuccess  9 ViewAgrees  10 OwnerOnly  11 BodiesClosed  12 OneRequest   (properties, every call)  *)
(*          13..18 the named classes against the intent: TOSStatus, CompatibleStatus, JsonStatus, SubscriptionErrDoc, *)
(*          InviteResult, InviteBodyLeak   19 AsCoded                                                                 *)
EXTENDS Realms, Json

Trace == ndJsonDeserialize("trace.ndjson")
VARIABLE l
tvars == <<vars, l>>
NChecks == 19

SetOf(t) == {t[i] : i \in 1..Len(t)}
StateOf(e) == [tos |-> e.tos, pend |-> SetOf(e.pend), cl |-> [cred |-> e.cred, ver |-> e.ver],
               inv |-> [w \in {e.inv[i][1] : i \in 1..Len(e.inv)} |-> SetOf(e.inv[CHOOSE i \in 1..Len(e.inv) : e.inv[i][1] = w][2])]]
CallOf(e) == P(e.k, e.w, e.n, e.b, e.v, F(e.fk, e.fst, e.fb))
WellFormedOn(st) == DOMAIN st.inv = Owned /\ st.cl.ver \in 1..3 /\ st.pend \subseteq Owned \cup Member
                    /\ \A w \in DOMAIN st.inv : \A x \in st.inv[w] : x >= 1
Known(k) == k \in {"new", "pending", "available", "compatible", "tos", "worlds", "server", "address", "backups", "ops", "sublife", "invite"}
NoCk(q) == [m |-> q.m, path |-> q.path, wid |-> q.wid, keys |-> q.keys, name |-> q.name, uu |-> q.uu, ctype |-> q.ctype]

Failed ==
  LET ev     == Trace[l]
      hasPre == l > 1 /\ ev.k # "reset"
      post   == StateOf(ev)
      pre    == IF hasPre THEN StateOf(Trace[l - 1]) ELSE post
      p      == CallOf(ev)
      ok0    == hasPre /\ Known(ev.k) /\ WellFormedOn(pre) /\ WellFormedOn(post) /\ ~ev.panicked
      obs    == R(post, ev.ok, ev.ret, ev.ek, ev.reqs, ev.open)
      I      == IF ok0 THEN Step(FALSE, pre, p) ELSE obs
      C      == IF ok0 THEN Step(TRUE, pre, p) ELSE obs
      cls    == IF ok0 THEN Class(pre, p) ELSE "none"
      Ok(c) ==
        CASE c = 1 -> ev.panicked = FALSE
          [] c = 2 -> ev.k = "reset" => post = Init0
          [] c = 3 -> WellFormedOn(post)
          [] c = 4 -> ok0 => (Len(ev.reqs) = Len(I.reqs) /\ \A i \in 1..Len(I.reqs) : NoCk(ev.reqs[i]) = NoCk(I.reqs[i]))
          [] c = 5 -> \A i \in 1..Len(ev.reqs) : ev.reqs[i].ck = 1
          [] c = 6 -> ok0 => post = I.s
          [] c = 7 -> (ok0 /\ cls = "none") => (ev.ok = I.ok /\ ev.ret = I.ret /\ ev.ek = I.ek)
          [] c = 8 -> (ok0 /\ Net(p) /\ (ev.fk # "none" \/ ~pre.cl.cred)) => ~ev.ok
          [] c = 9 -> ok0 => ViewOK(p, pre, post, ev.ok, ev.ret)
          [] c = 10 -> (ok0 /\ ev.k \in {"server", "backups", "ops", "sublife", "invite"} /\ ev.ok) => ev.w \in Owned
          [] c = 11 -> ev.open = 0
          [] c = 12 -> (ok0 \/ ev.k = "reset") => Len(ev.reqs) = (IF Net(p) THEN 1 ELSE 0)
          [] c = 13 -> cls = "TOSStatus" => obs = I
          [] c = 14 -> cls = "CompatibleStatus" => obs = I
          [] c = 15 -> cls = "JsonStatus" => obs = I
          [] c = 16 -> cls = "SubscriptionErrDoc" => obs = I
          [] c = 17 -> cls = "InviteResult" => obs = I
          [] c = 18 -> cls = "InviteBodyLeak" => obs = I
          [] c = 19 -> (cls # "none" /\ obs # I) => obs = C
          [] OTHER -> TRUE
  IN {c \in 1..NChecks : ~Ok(c)}

Check == LET f == Failed IN f = {} \/ PrintT(<<"X2FAIL", l, f>>)
TraceInit == l \in 1..Len(Trace) /\ s = 0 /\ act = 0
TraceSpec == TraceInit /\ [][UNCHANGED tvars]_tvars
=============================================================================
