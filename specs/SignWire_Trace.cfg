SPECIFICATION TraceSpec
CONSTANTS
  EmitJson = FALSE
  Big = FALSE
INVARIANTS Check
CHECK_DEADLOCK FALSE
