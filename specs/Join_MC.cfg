SPECIFICATION Spec
CONSTANTS
  Thresholds <- ThrQuick
  Names <- NamesQuick
  Refusals = {TRUE, FALSE}
  Intentions = {1, 2}
  MaxPlay = 3
  Variant = "none"
INVARIANTS Safety
PROPERTIES JoinCompletes PlayDelivered RefusalSeen StatusCompletes
CHECK_DEADLOCK FALSE
