SPECIFICATION GenSpec
CONSTANTS
  LoginToks = {}
  SpawnToks = {}
  Ids = {}
  Keys = {}
  Pays = {}
  KnownRegs = {1, 2}
  Regs = {}
  TagToks = {}
  NEnt = 3
  MaxSecs = 0
  SetVals = {}
  Healths = {}
  FailSets = {}
  Lsts <- G_Lsts
  Variant = "code"
CHECK_DEADLOCK FALSE
