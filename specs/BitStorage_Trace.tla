-------------------------- MODULE BitStorage_Trace --------------------------
(* Trace validation for C11: every recorded call on a real level.BitStorage must be a step of      *)
(* BitStorage.tla.  The harness only projects: results, panics, snapshot differences (all Get(i)    *)
(* and Raw() before/after every call), its own shift/mask reading of the raw longs, the wire bytes  *)
(* split into VarInt + big-endian longs.  Everything is judged here.                                *)
EXTENDS BitStorage

Trace == ndJsonDeserialize("trace.ndjson")

VARIABLE l
tvars == <<vars, l>>
Ev == Trace[l]
IsEvent(k) == l <= Len(Trace) /\ Trace[l].k = k /\ l' = l + 1

(* a sparse listing <<<<i, v>>, ...>> in increasing index order is exactly the array a *)
IsArr(list, a) ==
  /\ Len(list) = Cardinality(DOMAIN a)
  /\ \A j \in 1..Len(list) : /\ list[j][1] \in DOMAIN a /\ a[list[j][1]] = list[j][2]
                             /\ (j > 1 => list[j-1][1] < list[j][1])
ArrOf(list) == [i \in {list[j][1] : j \in 1..Len(list)} |-> list[CHOOSE j \in 1..Len(list) : list[j][1] = i][2]]

(* NewBitStorage(b, n, data): data = nil (given = -1) or `given` longs holding the listed values *)
TNew ==
  /\ IsEvent("new")
  /\ Ev.b \in 0..32 /\ Ev.n >= 0
  /\ IF Ev.given >= 0 /\ Ev.b >= 1 /\ Ev.given # CalcSize(Ev.b, Ev.n)
     THEN Ev.refused = TRUE /\ UNCHANGED vars               \* the harness keeps the previous storage
     ELSE /\ Ev.refused = FALSE /\ Ev.rawlen = CalcSize(Ev.b, Ev.n) /\ Ev.len = Ev.n
          /\ b' = Ev.b /\ n' = Ev.n /\ arr' = ArrOf(Ev.init)
          /\ IsArr(Ev.nz, arr')                              \* what Get reports right after construction
          /\ UNCHANGED <<act, nops>>

TOp ==
  /\ IsEvent("op")
  /\ \/ Ev.op = "set" /\ Set(Ev.i, Ev.v)
     \/ Ev.op = "swap" /\ Swap(Ev.i, Ev.v)
     \/ Ev.op = "get" /\ Get(Ev.i)
     \/ BadIndex(Ev.op, Ev.i, Ev.v)
     \/ BadValue(Ev.op, Ev.i, Ev.v)
     \/ ZeroBits(Ev.op, Ev.i, Ev.v)
  /\ act'.panic = "yes" => Ev.panicked = TRUE
  /\ act'.panic = "no" => Ev.panicked = FALSE
  /\ Ev.panicked = FALSE => Ev.ret = act'.ret
  /\ LET changed == AtIn(arr', Ev.i) # At(Ev.i) IN          \* snapshot difference: only the named index / its long
       /\ Ev.ndiff = (IF changed THEN 1 ELSE 0)
       /\ Ev.diff = (IF changed THEN << <<Ev.i, AtIn(arr', Ev.i)>> >> ELSE <<>>)
       /\ Ev.nrawchg = (IF changed THEN 1 ELSE 0)
       /\ Ev.rawchg = (IF changed THEN <<LongOf(b, Ev.i)>> ELSE <<>>)
  /\ (act'.panic = "no" /\ b >= 1) => Ev.slot = AtIn(arr', Ev.i)    \* the harness' own reading of Raw() at (LongOf, SlotOf)
  /\ Ev.junk = 0

TDump ==
  /\ IsEvent("dump") /\ UNCHANGED vars
  /\ IsArr(Ev.nz, arr) /\ IsArr(Ev.rnz, arr)
  /\ Ev.len = n /\ Ev.rawlen = NLongs /\ Ev.junk = 0

TWire ==
  /\ IsEvent("wire") /\ Wire(Ev.tb)
  /\ Ev.werr = FALSE /\ Ev.cnt = NLongs /\ Ev.vlen = VarIntLen(NLongs)
  /\ Ev.nbytes = Ev.vlen + 8 * NLongs /\ Ev.wn = Ev.nbytes
  /\ IsArr(Ev.rnz, arr) /\ Ev.junk = 0                       \* the longs on the wire, read by the harness' projection
  /\ Ev.rerr = FALSE /\ Ev.rn = Ev.nbytes /\ Ev.left = Ev.tail
  /\ Ev.fixerr = FALSE /\ IsArr(Ev.tnz, arr) /\ Ev.tlen = n  \* the receiving storage after ReadFrom + Fix(b)

TFix ==
  /\ IsEvent("fix") /\ UNCHANGED vars
  /\ Ev.b2 >= 1 /\ Ev.err = (CalcSize(Ev.b2, n) # NLongs)

TSizes ==
  /\ IsEvent("sizes") /\ UNCHANGED vars
  /\ Ev.b \in 0..32 /\ Ev.n >= 0
  /\ Ev.size = CalcSize(Ev.b, Ev.n) /\ PackingOK(Ev.b, Ev.n)
  /\ Ev.cb \in 0..64 /\ CalcSize(Ev.cb, Ev.n) = Ev.size     \* the inferred width is one the size rule agrees with

TraceInit == /\ b = 0 /\ n = 0 /\ arr = <<>> /\ nops = 0 /\ l = 1
             /\ act = Act("new", 0, Zero, Zero, Zero, "no", -1)
TraceNext == /\ TNew \/ TOp \/ TDump \/ TWire \/ TFix \/ TSizes
             /\ ZeroWidth'
TraceSpec == TraceInit /\ [][TraceNext]_tvars

Accepted == LET d == TLCGet("stats").diameter IN
            /\ PrintT(<<"HWM", d, Len(Trace) + 1>>)
            /\ d = Len(Trace) + 1
=============================================================================
