----------------------------- MODULE BotConfig_Gen -----------------------------
(* Behaviour generator for leg A of X11/BotConfig: the model of the code (Variant = "code") over larger universes - all  *)
(* eleven registries the client keeps plus names it does not keep, 64-bit and negative ids, several cookie keys,        *)
(* resource packs with repeated uuids, REGISTRY_DATA bodies with duplicate keys and entries without data, UPDATE_TAGS   *)
(* packets of up to two sections incl. invalid ids, packets left on the socket while no loop runs, refused writes, EOF. *)
(* This module only chooses which behaviours are replayed on the real joinConfiguration; it proves nothing.             *)
EXTENDS BotConfig

VARIABLE n
gvars == <<vars, n>>
G_Handlers == {[rec |-> FALSE, known |-> {}], [rec |-> TRUE, known |-> {}], [rec |-> TRUE, known |-> {1, 3, 5}]}
G_Late == PacketKinds \ {"payload", "transfer"}
GIds == {-70000, -1, 0, 1, 255, 65536, 123456789}
GEnt == {<<k, TRUE, 1 + ((n * 7 + k) % 90)>> : k \in 1..4} \cup (IF n % 5 = 0 THEN {<<2, FALSE, 0>>} ELSE {})
GTagMsgs == {<<<<t, ids>>>> : t \in {1, 2}, ids \in {<<>>, <<0>>, <<1, 0>>, <<2>>}} \cup {<<<<1, <<0>>>>, <<2, <<3>>>>>>}
GSec1 == {<<r, tm>> : r \in {1 + (n % 11), 2, 13}, tm \in GTagMsgs}
GSec2 == {<<13, <<<<1, <<7>>>>>>>>, <<2, <<<<1, <<0>>>>>>>>, <<1 + ((n + 3) % 11), <<<<2, <<>>>>, <<1, <<0, 0>>>>>>>>}
GDo(p) == Offered(p) /\ Do(p) /\ n' = n + 1
PK(k, x) == P(k, x, 0, 0, 0, 0, 0, <<>>, <<>>, <<>>, <<>>)
GenNext ==
  \/ \E id \in GIds : GDo(P0("keepalive", id + n))
  \/ \E id \in GIds : GDo(P0("ping", id - n))
  \/ \E id \in {0, 3, n} : n % 7 = 3 /\ GDo(P0("disconnect", id))
  \/ n % 5 = 4 /\ GDo(P0("finish", 0))
  \/ \E k \in {"resetchat", "links"} : n % 4 = 1 /\ GDo(P0(k, 0))
  \/ \E k \in {"payload", "transfer"} : n % 4 = 3 /\ GDo(P0(k, n % 9))
  \/ \E key \in {1, 2, 3} : GDo(P("cookiereq", 0, key, 0, 0, 0, 0, <<>>, <<>>, <<>>, <<>>))
  \/ \E key \in {1, 2, 3}, pay \in {0, n + 1} : GDo(P("cookiestore", 0, key, pay, 0, 0, 0, <<>>, <<>>, <<>>, <<>>))
  \/ \E u \in 0..4 : n % 3 = 1 /\ GDo(P("rppop", 0, 0, 0, u, 0, 0, <<>>, <<>>, <<>>, <<>>))
  \/ \E u \in 1..4, t \in {n % 9, 3} : GDo(P("rppush", 0, 0, 0, u, t, 0, <<>>, <<>>, <<>>, <<>>))
  \/ \E r \in {1 + (n % 11), 2, 6}, k \in 0..2 : \E m \in [1..k -> GEnt] : GDo(P("regdata", 0, 0, 0, 0, 0, r, m, <<>>, <<>>, <<>>))
  \/ \E r \in {12 + (n % 5)}, m \in {<<>>, <<<<1, TRUE, 5>>>>} : n % 6 = 5 /\ GDo(P("regdata", 0, 0, 0, 0, 0, r, m, <<>>, <<>>, <<>>))
  \/ \E s1 \in GSec1 : n % 3 # 1 /\ GDo(P("tags", 0, 0, 0, 0, 0, 0, <<>>, <<s1>>, <<>>, <<>>))
  \/ \E s1 \in GSec1, s2 \in GSec2 : n % 3 = 0 /\ GDo(P("tags", 0, 0, 0, 0, 0, 0, <<>>, <<s1, s2>>, <<>>, <<>>))
  \/ n % 8 = 5 /\ GDo(P0("tags", 0))
  \/ \E l \in {<<>>, <<1>>, <<(n % 5) + 1, 2, 1>>} : n % 3 = 2 /\ GDo(P("features", 0, 0, 0, 0, 0, 0, <<>>, <<>>, l, <<>>))
  \/ \E l \in {<<>>, <<1, 2, 3>>, <<5, (n % 6) + 1, 1>>} : n % 3 # 2 /\ GDo(P("select", 0, 0, 0, 0, 0, 0, <<>>, <<>>, l, <<>>))
  \/ \E ld \in {<<>>, <<<<1, n + 1>>>>, <<<<2, 1>>, <<(n % 3) + 1, 2>>, <<2, 3>>>>} : n % 4 = 0 /\ GDo(P("details", 0, 0, 0, 0, 0, 0, <<>>, <<>>, <<>>, ld))
  \/ \E id \in {17, 99, 300} : n % 6 = 2 /\ GDo(P0("unknown", id))
  \/ GDo(P0("join", 0))
  \/ (~s.run /\ n % 2 = 0 /\ GDo(P0("join", 0)))
  \/ n % 17 = 16 /\ GDo(P0("eof", 0))
  \/ \E u \in 1..4, t \in {n % 9} : n % 4 = 2 /\ GDo(P("hpush", 0, 0, 0, u, t, 0, <<>>, <<>>, <<>>, <<>>))
  \/ \E u \in 1..4 : n % 4 = 2 /\ GDo(P("hpop", 0, 0, 0, u, 0, 0, <<>>, <<>>, <<>>, <<>>))
  \/ n % 16 = 10 /\ GDo(P0("hpopall", 0))
  \/ n % 7 = 3 /\ GDo(P0("mkcookies", 0))
  \/ \E b \in {0, 1} : n % 9 = 4 + (3 * b) /\ GDo(P0("setwfail", b))
GenSpec == Init /\ n = 0 /\ [][GenNext]_gvars
=============================================================================
