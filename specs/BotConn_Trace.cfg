SPECIFICATION TraceSpec
CONSTANTS
  Procs = {1, 2, 3, 4, 5, 6}
  MaxItems = 1000
CONSTRAINT HWM
POSTCONDITION Accepted
CHECK_DEADLOCK FALSE
