SPECIFICATION Spec
CONSTANTS
  MaxTotal = 7
  EmitJson = TRUE
INVARIANTS Outcome Emit
PROPERTIES Progress
CHECK_DEADLOCK FALSE
