--------------------------- MODULE SigCache_Trace ---------------------------
(* Trace validation for X02/SigCache.  Every line of the trace is one call on a real sign.SignatureCache     *)
(* together with the projection of the cache AFTER the call (slots with trailing empty slots cut, the index   *)
(* map as <<signature, slot>> pairs).  The state BEFORE a call is the projection on the previous line, so     *)
(* every line is an independent initial state l; all checks of a line are evaluated together (they share the  *)
(* well-formedness of the state before and the hazard classification) and the numbers of the failed ones are  *)
(* printed as <<"X2FAIL", l, {checks}>>; the harness only maps them back to events.  Cap = 128 here.          *)
(*                                                                                                            *)
(* checks (a state predicate is reported at the step that breaks it, not on every later line):                *)
(*          1 CapOK   2 IndexInverse   4 NoDup   3 Dense (steps without hazard)   15 DenseHazard (hazard pushes)   *)
(*          5 PushPlain   (hazard-free queue from a well-formed cache: result = Intended)                      *)
(*          6 PushHazard  (queue with a Hazard from a well-formed cache: result = Intended)                    *)
(*          7 Algorithm   (any push: result = the loop of cache.go as modelled by AlgoPush)                    *)
(*          8 LookupCached   9 LookupEmptySlot   10 LookupOutside   11 LookupFrame                             *)
(*          12 Fresh (a new cache is empty)   13 NoPanic   14 PackedId (wire form of a packed reference)       *)
EXTENDS SigCache, Json

Trace == ndJsonDeserialize("trace.ndjson")

VARIABLE l
tvars == <<vars, l>>
NChecks == 15

(* the index map of a line as a relation, and the relation the slots of that line demand (IndexInverseOn, without *)
(* building functions: a line carries up to 128 pairs)                                                           *)
IdxRel(e) == {<<e.index[i][1], e.index[i][2]>> : i \in 1..Len(e.index)}
SlotRel(e) == {<<e.slots[i], i - 1>> : i \in {j \in 1..Len(e.slots) : e.slots[j] # Empty}}
IdxInv(e) == IdxRel(e) = SlotRel(e) /\ Len(e.index) = Cardinality(SlotRel(e))
InRow(id) == id >= 0 /\ id <= Cap - 1

Failed ==
  LET ev       == Trace[l]
      hasPre   == l > 1 /\ ev.k # "reset"
      pre      == IF hasPre THEN Trace[l - 1] ELSE ev
      shaped   == Len(ev.slots) <= Cap /\ Len(pre.slots) <= Cap     \* otherwise Pad would cut the projection
      preS     == Pad(pre.slots)
      postS    == Pad(ev.slots)
      preIdx   == IdxInv(pre)
      preDense == DenseOn(preS)
      preNoDup == NoDupOn(preS)
      wf       == preIdx /\ preDense /\ preNoDup                    \* the state before is a well-formed cache
      isPush   == ev.k = "push" /\ hasPre /\ shaped
      isLookup == ev.k = "lookup" /\ hasPre /\ shaped
      q        == Queue(ev.self, ev.ls)
      haz      == Hazard(preS, q)
      plain    == isPush /\ wf /\ ~haz
      hazStep  == isPush /\ wf /\ haz
      intended == IntendedSlots(preS, q)
      Ok(c) ==
        CASE c = 1 -> /\ Len(ev.slots) <= Cap /\ Len(ev.index) <= Cap
                      /\ \A i \in 1..Len(ev.index) : ev.index[i][2] \in 0..(Cap - 1)
          [] c = 2 -> (shaped /\ (~hasPre \/ preIdx)) => IdxInv(ev)                 \* reported at the step that breaks it
          [] c = 3 -> (shaped /\ (~hasPre \/ preDense) /\ ~hazStep) => DenseOn(postS)
          [] c = 4 -> (shaped /\ (~hasPre \/ preNoDup)) => NoDupOn(postS)
          [] c = 5 -> plain => postS = intended                  \* (the index map of the result is judged by check 2)
          [] c = 6 -> hazStep => postS = intended
          [] c = 7 -> (isPush /\ preIdx /\ ~plain) => postS = AlgoSlots(preS, q)     \* plain steps: AlgoRefines (leg S)
          [] c = 8 -> (isLookup /\ InCache(preS, ev.id)) => (ev.err = FALSE /\ ev.ret = preS[ev.id + 1])
          [] c = 9 -> (isLookup /\ InRow(ev.id) /\ ~InCache(preS, ev.id)) => (ev.err = TRUE /\ ev.ret = Empty)
          [] c = 10 -> (isLookup /\ ~InRow(ev.id)) => (ev.err = TRUE /\ ev.ret = Empty)
          [] c = 11 -> (ev.k \in {"lookup", "packed"} /\ hasPre) => (ev.slots = pre.slots /\ ev.index = pre.index)
          [] c = 12 -> ev.k = "reset" => (ev.slots = <<>> /\ ev.index = <<>>)
          [] c = 13 -> ev.panicked = FALSE
          [] c = 14 -> ev.k = "packed" =>                  \* a packed reference: VarInt(id + 1); 0 = the full signature follows
                         /\ ev.werr = FALSE /\ ev.wire = ev.id + 1 /\ ev.inline = (ev.id = -1)
                         /\ ev.rerr = FALSE /\ ev.rid = ev.id /\ ev.rinline = ev.inline /\ ev.left = 0
          [] c = 15 -> (shaped /\ hazStep) => DenseOn(postS)
          [] OTHER -> TRUE
  IN {c \in 1..NChecks : ~Ok(c)}

Check == LET f == Failed IN f = {} \/ PrintT(<<"X2FAIL", l, f>>)

TraceInit == /\ l \in 1..Len(Trace)
             /\ slots = <<>> /\ index = <<>> /\ act = 0 /\ nops = 0
TraceSpec == TraceInit /\ [][UNCHANGED tvars]_tvars
=============================================================================
