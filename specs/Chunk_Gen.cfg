SPECIFICATION GenSpec
CONSTANTS
  SecsSet = {1, 2, 5, 24}
  BlockPos = {0, 255, 2048, 4095}
  BiomePos = {0, 21, 63}
  BlockIds = {0, 1, 2, 3, 4}
  AirIds = {0, 1, 2}
  BiomeIds = {0, 5, 6}
  BlockFills <- StdBlockFills
  BiomeFills <- StdBiomeFills
  Tokens = {1, 2, 3}
  YPosSet <- StdYPos
  MaxSteps = 40
  Ops = {"tightbiomes"}
INVARIANTS TypeOK
CHECK_DEADLOCK FALSE
