SPECIFICATION Spec
CONSTANTS
  Ids = {5}
  Keys = {1}
  Pays = {0, 7}
  Uuids = {1}
  RpToks = {1}
  StackMax = 1
  KnownRegs = {1}
  Regs = {1, 3}
  RKeys = {1, 2}
  TagToks = {1}
  MaxEnt = 2
  MaxSecs = 1
  FeatLists <- MC_FeatLists
  PackLists <- MC_PackListsQ
  DetailLists = {}
  UnknownIds = {17}
  Handlers <- MC_Handlers
  LateKinds = {"finish", "cookiestore", "rppop", "regdata", "unknown"}
  LateMax = 1
  Variant = "intent"
VIEW View
INVARIANTS TypeOK NothingWaiting RegsValid Agree
PROPERTIES EndRule FinishRule NothingAfterEnd QueueRule DisconnectRule AnsweredOnceInOrder EchoRule CookieRule StoreRule UnknownIdRule RegistryRule TagsRule PushRule PopRule PopAllRule HandlerRule SelectRule FrameRule DetailsRule WriteFailRule NoPanic
CHECK_DEADLOCK FALSE
