SPECIFICATION GenSpec
CONSTANTS
  Users = {1, 2, 3}
  Slots = {1, 2, 3}
  SIds = {1, 2}
  Inject = {70}
  Garble = {80}
  MaxTok = 200
  MaxCt = 200
  FaultSet <- AllFaults
  Variant = "code"
INVARIANTS TypeOK ValidUnique
CHECK_DEADLOCK FALSE
