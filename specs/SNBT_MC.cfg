SPECIFICATION SSpec
CONSTANTS
  Fmts = {}
  EmitJson = TRUE
  Quick = TRUE
  Mode = "texts"
  MaxLen = 3
  Alpha = {123, 125, 91, 93, 44, 58, 59, 34, 39, 92, 32, 48, 49, 57, 46, 45, 97, 66, 73, 76, 98, 115, 108, 102, 100, 95}
  QAlpha = {34, 39, 92, 32, 97, 49}
INVARIANTS TextLaws SEmit
CHECK_DEADLOCK FALSE
