------------------------------ MODULE Item_Gen ------------------------------
(* Vector generator for leg A of X07/Item: TLC enumerates component values (every modelled type with the values of the  *)
(* wide universe) and item stacks built from a seed by index arithmetic (0..4 added components of distinct types,       *)
(* 0..2 removed types, boundary counts and ids), computes their encoding with the specification's Enc and prints both   *)
(* as JSON.  It also prints the Type table and the layouts, so that the harness builds its random values for leg B from  *)
(* the specification's layouts instead of a copy of them.  This module only chooses what is replayed; it proves nothing. *)
EXTENDS Item
CONSTANTS Seed, NGen
ASSUME PrintT(ToJson([table |-> TypeNames,
                      layouts |-> [i \in 1..NTypes |-> Layout(i - 1)],
                      aswritten |-> [i \in 1..NTypes |-> LayoutAW(i - 1)]]))
ModSeq == SetToSeq(Modelled)
NMod == Len(ModSeq)                      \* 49 = 7 * 7: strides 1..6 visit distinct positions for up to 7 picks
GCounts == <<Num(1), Num(2), Num(64), Num(99), Num(127), Num(128), Num(300)>>
GIds == <<Z4, Num(1), Num(127), Num(128), Num(1200), Num(70000)>>
GenStack(s) ==
  LET h == s * 7919 + Seed * 1009
      na == h % 5
      nr == (h \div 5) % 3
      stride == 1 + (h % 6)
      typ(j) == ModSeq[((h \div 7 + j * stride) % NMod) + 1]
  IN Stack(GCounts[(h % Len(GCounts)) + 1], GIds[((h \div 3) % Len(GIds)) + 1],
           [j \in 1..na |-> Comp(typ(j), Nth(Vals(Layout(typ(j))), h + j))],
           [j \in 1..nr |-> typ(na + j)])
GenInit == /\ phase = 0
           /\ \/ what = "comp" /\ cid \in Modelled /\ cval \in Vals(Layout(cid)) /\ st = EmptyStack
              \/ what = "stack" /\ cid = -1 /\ cval = <<>> /\ st \in Stacks \cup {GenStack(s) : s \in 0..(NGen - 1)}
GenSpec == GenInit /\ [][Next]_vars
=============================================================================
