----------------------------- MODULE Region_Gen -----------------------------
(* Behaviour generator for leg A of C14/C15: the Region specification with the *)
(* implementation's first-fit policy, simulated by TLC.  Crashes are thinned   *)
(* (a uniform random walk would crash at almost every step) - this module only *)
(* chooses which behaviours are replayed, it proves nothing.                   *)
EXTENDS Region
GenNext == \/ \E c \in Chunks, need \in 1..MaxNeed, len \in Lens : WriteBegin(c, need, len)
           \/ PhysHdrOff \/ PhysHdrTs \/ PhysLen
           \/ \E u \in 0..(MaxNeed - 1) : PhysData(u)
           \/ (fl.v % 3 = 1 /\ \E u \in 0..(MaxNeed - 1) : PhysDataTorn(u))
           \/ WriteEnd
           \/ (nver % 3 = 1 /\ Crash)
           \/ (nver % 2 = 0 /\ fl.v = 0 /\ Reopen)
GenSpec == Init /\ [][GenNext]_vars
=============================================================================
