SPECIFICATION GenSpec
CONSTANTS
  Ids = {0}
  Keys = {}
  Pays = {}
  Uuids = {}
  RpToks = {}
  StackMax = 5
  KnownRegs = {1, 2, 3, 4, 5, 6, 7, 8, 9, 10, 11}
  Regs = {}
  RKeys = {}
  TagToks = {}
  MaxEnt = 0
  MaxSecs = 0
  FeatLists = {}
  PackLists = {}
  DetailLists = {}
  UnknownIds = {}
  Handlers <- G_Handlers
  LateKinds <- G_Late
  LateMax = 3
  Variant = "code"
CHECK_DEADLOCK FALSE
