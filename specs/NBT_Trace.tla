----------------------------- MODULE NBT_Trace ------------------------------
(* Per-call trace validation for C01/C02/C03: each recorded decode / encode of *)
(* the real nbt package is judged by NBT.tla's DecDoc and NBTMap.tla's          *)
(* EncodeGo.  Lines are independent (each is its own initial state).            *)
EXTENDS NBTMap
Trace == ndJsonDeserialize("trace.ndjson")
VARIABLE l
TraceInit == l \in 1..Len(Trace) /\ doc = [t |-> 0] /\ fmt = "file"
TraceSpec == TraceInit /\ [][UNCHANGED <<vars, l>>]_<<vars, l>>
E == Trace[l]

RECURSIVE Norm(_)
Norm(x) == CASE x.t = 9 -> [t |-> 9, et |-> IF x.v = <<>> THEN 0 ELSE x.et, v |-> [i \in 1..Len(x.v) |-> Norm(x.v[i])]]
             [] x.t = 10 -> [t |-> 10, v |-> [i \in 1..Len(x.v) |-> [k |-> x.v[i].k, n |-> Norm(x.v[i].n)]]]
             [] OTHER -> x
RECURSIVE NoDupKeys(_)
NoDupKeys(x) == CASE x.t = 9 -> \A i \in 1..Len(x.v) : NoDupKeys(x.v[i])
                  [] x.t = 10 -> /\ \A i, j \in 1..Len(x.v) : i # j => x.v[i].k # x.v[j].k
                                 /\ \A i \in 1..Len(x.v) : NoDupKeys(x.v[i].n)
                  [] OTHER -> TRUE

\* a real decoder read `input` (document possibly followed by other bytes) and reported ok/tree/name/n.
\* exact = the target can represent every document (any, shaped struct, RawMessage+re-read, dynbt ...)
DecOK == E.k = "dec" =>
  LET d == DecDoc(E.fmt, E.input) IN
  /\ E.panicked = FALSE
  \* a strict prefix, a negative declared length, an unknown tag id: never a success
  /\ (~d.ok /\ d.why \in {"short", "neg", "tag"}) => ~E.ok
  /\ (d.ok /\ d.tree.t # 0 /\ E.exact) => E.ok                 \* every well-formed document is decoded
  /\ (d.ok /\ E.ok) => /\ E.n = d.n                            \* consumes exactly the document
                       /\ E.left = Len(E.input) - d.n
                       /\ (E.fmt = "file" /\ E.named => E.name = d.name)
                       /\ (E.exact /\ NoDupKeys(d.tree)) => Same(Norm(E.tree), Norm(d.tree)) /\ Same(Norm(d.tree), Norm(E.tree))

\* decode into a typed Go destination shaped like the document: its value, re-read through the documented
\* mapping, must be the document's tree (empty-list element types are not observable in a typed value)
DecGoOK == E.k = "decgo" =>
  LET d == DecDoc(E.fmt, E.input) IN
  /\ E.panicked = FALSE
  /\ (~d.ok /\ d.why \in {"short", "neg", "tag"}) => ~E.ok
  /\ d.ok => /\ E.ok /\ E.n = d.n /\ E.left = Len(E.input) - d.n
             /\ LET want == IF E.dropfirst THEN [t |-> 10, v |-> Tail(d.tree.v)] ELSE d.tree IN
                Same(Norm(EncodeGo(E.ty, E.val)), Norm(want)) /\ Same(Norm(want), Norm(EncodeGo(E.ty, E.val)))

\* the real encoder was given a Go value of type expression ty; `bytes` is what it wrote
EncOK == E.k = "enc" =>
  /\ E.panicked = FALSE /\ E.err = FALSE /\ E.mutated = FALSE
  /\ LET d == DecDoc(E.fmt, E.bytes)  want == EncodeGo(E.ty, E.val) IN
     /\ d.ok /\ d.n = Len(E.bytes)                             \* one well-formed document, nothing else
     /\ Same(d.tree, want) /\ Same(want, d.tree)
     /\ (E.fmt = "file" => d.name = E.name)
  /\ E.backok /\ E.backsame                                    \* Unmarshal(Marshal(v)) == v with the root name
  /\ (E.fmt = "file" => E.backname = E.name)

\* opaque carriers re-emit byte for byte what they captured
CarrierOK == E.k = "carrier" =>
  LET d == DecDoc(E.fmt, E.input) IN
  /\ E.panicked = FALSE
  /\ (d.ok /\ d.tree.t # 0) => (E.ok /\ E.out = SubSeq(E.input, 1, d.n))
  /\ (~d.ok /\ d.why \in {"short", "neg", "tag"}) => ~E.ok
\* "never loops without consuming input": every value of a decoded result occupies at least one byte of the
\* document, so a decoder that reports success cannot have produced more values than it consumed bytes (a list of
\* n > 0 elements of type End would be n values in no bytes)
\* a destination that was used before: decoding a document into a value that already holds lists (of compounds with
\* more keys, of maps, of interface values of another kind) gives what decoding it into a fresh value gives - a list
\* replaces the destination's list, nothing of the earlier elements shows through
UsedOK == E.k = "decused" => (E.panicked = FALSE /\ E.same)
NoAmplify == (E.k \in {"dec", "carrier"} /\ E.ok /\ E.nodes >= 0) => E.nodes <= E.n
=============================================================================
