------------------------------- MODULE Join --------------------------------
(***************************************************************************)
(* C19: a bot client (go-mc/bot) joins / pings a server assembled from the *)
(* go-mc gate (server.Server, MojangLoginHandler offline mode, finish-only *)
(* configuration).  Two sequential processes Bot and Server over two FIFO  *)
(* byte channels c2s / s2c whose elements are FRAMES tagged with the       *)
(* framing mode the sender used ("plain" = length|id|data, "comp" =        *)
(* length|datalength|(zlib)(id|data)).  Every send, every receive and every*)
(* threshold switch is a separate action, so TLC explores every relative   *)
(* order of the two processes that their sequential code allows.           *)
(* A receiver can only parse a frame whose mode is the mode of ITS current *)
(* threshold: a mismatch sets modeErr (ModeAgreement).                     *)
(* The bot's send queue goroutine (bot/client.go warpConn) is the outbox   *)
(* `bout`; the receive queue is merged into the FIFO channel s2c.          *)
(***************************************************************************)
EXTENDS Integers, Sequences, FiniteSets, TLC

CONSTANTS Thresholds,   \* set of compression thresholds (-1 = off)
          Names,        \* set of player names
          Refusals,     \* subset of BOOLEAN: login checker refuses?
          Intentions,   \* subset of {1, 2}: status / login
          MaxPlay,      \* play packets per direction
          Variant       \* "none" | "srvEarly" | "srvLate" | "botLate" (defect models for the self-test)

VARIABLES cfg,          \* configuration record (constant during a behaviour)
          bpc, spc,     \* program counters
          bthr, sthr,   \* current threshold of each net.Conn
          bpend,        \* threshold received by the bot and not yet applied
          c2s, s2c,     \* channels: sequences of frames
          bout, sout,   \* outboxes (bot: send queue; server: the write in progress)
          bsent, ssent, \* play packets handed to WritePacket so far (sequences)
          bgot, sgot,   \* play packets received (sequences)
          bview,        \* what the bot learnt: [name, uuid]
          accepted,     \* arguments of GamePlay.AcceptPlayer
          bstatus,      \* status: <<json, pong>> as seen by the bot
          modeErr
vars == <<cfg, bpc, spc, bthr, sthr, bpend, c2s, s2c, bout, sout, bsent, ssent, bgot, sgot, bview, accepted, bstatus, modeErr>>

None == [name |-> <<>>, uuid |-> <<>>, proto |-> 0]
NoView == [name |-> <<>>, uuid |-> <<>>]
NoPkt == [seq |-> 0, id |-> 0, n |-> 0, sha |-> <<>>]
ModeOf(t) == IF t >= 0 THEN "comp" ELSE "plain"

Frame(thr, k, name, uuid, v, n, pkt) ==
  [mode |-> ModeOf(thr), z |-> (thr >= 0 /\ n >= thr), k |-> k, name |-> name, uuid |-> uuid, v |-> v, n |-> n, pkt |-> pkt]

\* can the receiver (threshold thr) parse frame f ?
Parses(thr, f) == /\ f.mode = ModeOf(thr)
                  /\ f.z => f.n + 1 >= thr          \* compressed frames below the receiver's threshold are refused

\* ------------------------------------------------------------------ bot
BSend(f) == c2s' = Append(c2s, f)
SSend(f) == s2c' = Append(s2c, f)

BSendHandshake(n) ==
  /\ bpc = "start" /\ BSend(Frame(bthr, "handshake", <<>>, <<>>, cfg.proto * 4 + cfg.intent, n, NoPkt))
  /\ bpc' = IF cfg.intent = 2 THEN "hello" ELSE "st1"
  /\ UNCHANGED <<cfg, spc, bthr, sthr, bpend, s2c, bout, sout, bsent, ssent, bgot, sgot, bview, accepted, bstatus, modeErr>>

BSendLoginStart(n) ==
  /\ bpc = "hello" /\ BSend(Frame(bthr, "loginstart", cfg.name, cfg.buuid, 0, n, NoPkt))
  /\ bpc' = "login"
  /\ UNCHANGED <<cfg, spc, bthr, sthr, bpend, s2c, bout, sout, bsent, ssent, bgot, sgot, bview, accepted, bstatus, modeErr>>

\* the bot reads the next frame of s2c (login / configuration / status loops)
BRecv ==
  /\ bpc \in {"login", "config", "st2", "st4"} /\ s2c # <<>>
  /\ LET f == Head(s2c) IN
     /\ s2c' = Tail(s2c)
     /\ IF ~Parses(bthr, f)
        THEN modeErr' = TRUE /\ bpc' = "broken" /\ UNCHANGED <<bpend, bview, bstatus, bthr>>
        ELSE /\ UNCHANGED modeErr
             /\ CASE bpc = "login" /\ f.k = "setcomp" ->
                       /\ bpend' = f.v /\ UNCHANGED <<bview, bstatus>>
                       /\ IF Variant = "botLate" THEN bpc' = "login" /\ UNCHANGED bthr    \* applied after the ack
                                                 ELSE bpc' = "setthr" /\ UNCHANGED bthr
                  [] bpc = "login" /\ f.k = "success" ->
                       /\ bview' = [name |-> f.name, uuid |-> f.uuid] /\ bpc' = "sendack"
                       /\ UNCHANGED <<bpend, bstatus, bthr>>
                  [] bpc = "login" /\ f.k = "disconnect" ->
                       /\ bpc' = "failed" /\ UNCHANGED <<bpend, bview, bstatus, bthr>>
                  [] bpc = "config" /\ f.k = "finish" ->
                       /\ bpc' = "sendfin" /\ UNCHANGED <<bpend, bview, bstatus, bthr>>
                  [] bpc = "st2" /\ f.k = "statusresp" ->
                       /\ bstatus' = <<f.name, <<>>>> /\ bpc' = "st3" /\ UNCHANGED <<bpend, bview, bthr>>
                  [] bpc = "st4" /\ f.k = "pong" ->
                       /\ bstatus' = <<bstatus[1], f.uuid>> /\ bpc' = "stdone" /\ UNCHANGED <<bpend, bview, bthr>>
                  [] OTHER -> bpc' = "broken" /\ UNCHANGED <<bpend, bview, bstatus, bthr>>
  /\ UNCHANGED <<cfg, spc, sthr, c2s, bout, sout, bsent, ssent, bgot, sgot, accepted>>

BSetThr ==
  /\ \/ bpc = "setthr" /\ bpc' = "login"
     \/ Variant = "botLate" /\ bpc = "lateThr" /\ bpc' = "config"
  /\ bthr' = bpend
  /\ UNCHANGED <<cfg, spc, sthr, bpend, c2s, s2c, bout, sout, bsent, ssent, bgot, sgot, bview, accepted, bstatus, modeErr>>

BSendAck(n) ==
  /\ bpc = "sendack" /\ BSend(Frame(bthr, "ack", <<>>, <<>>, 0, n, NoPkt))
  /\ bpc' = IF Variant = "botLate" /\ bpend # bthr THEN "lateThr" ELSE "config"
  /\ UNCHANGED <<cfg, spc, bthr, sthr, bpend, s2c, bout, sout, bsent, ssent, bgot, sgot, bview, accepted, bstatus, modeErr>>

BSendFinishAck(n) ==
  /\ bpc = "sendfin" /\ BSend(Frame(bthr, "finishack", <<>>, <<>>, 0, n, NoPkt))
  /\ bpc' = "ready"
  /\ UNCHANGED <<cfg, spc, bthr, sthr, bpend, s2c, bout, sout, bsent, ssent, bgot, sgot, bview, accepted, bstatus, modeErr>>

\* JoinServerWithOptions returns nil: the queue goroutines run from now on
BJoined ==
  /\ bpc = "ready" /\ bpc' = "play"
  /\ UNCHANGED <<cfg, spc, bthr, sthr, bpend, c2s, s2c, bout, sout, bsent, ssent, bgot, sgot, bview, accepted, bstatus, modeErr>>

\* the application calls Conn.WritePacket (push on the send queue)
BEnqueue(p) ==
  /\ bpc = "play" /\ bout' = Append(bout, p) /\ bsent' = Append(bsent, p)
  /\ UNCHANGED <<cfg, bpc, spc, bthr, sthr, bpend, c2s, s2c, sout, ssent, bgot, sgot, bview, accepted, bstatus, modeErr>>
\* the writer goroutine packs the head of the queue
BWriter ==
  /\ bpc = "play" /\ bout # <<>>
  /\ BSend(Frame(bthr, "play", <<>>, <<>>, 0, Head(bout).n, Head(bout))) /\ bout' = Tail(bout)
  /\ UNCHANGED <<cfg, bpc, spc, bthr, sthr, bpend, s2c, sout, bsent, ssent, bgot, sgot, bview, accepted, bstatus, modeErr>>
\* reader goroutine + HandleGame: next play packet reaches the handlers
BHandle ==
  /\ bpc = "play" /\ s2c # <<>>
  /\ LET f == Head(s2c) IN
     /\ s2c' = Tail(s2c)
     /\ IF Parses(bthr, f) /\ f.k = "play"
        THEN bgot' = Append(bgot, f.pkt) /\ UNCHANGED <<bpc, modeErr>>
        ELSE modeErr' = ~Parses(bthr, f) /\ bpc' = "broken" /\ UNCHANGED bgot
  /\ UNCHANGED <<cfg, spc, bthr, sthr, bpend, c2s, bout, sout, bsent, ssent, sgot, bview, accepted, bstatus>>

BSendStatusReq(n) ==
  /\ bpc = "st1" /\ BSend(Frame(bthr, "statusreq", <<>>, <<>>, 0, n, NoPkt)) /\ bpc' = "st2"
  /\ UNCHANGED <<cfg, spc, bthr, sthr, bpend, s2c, bout, sout, bsent, ssent, bgot, sgot, bview, accepted, bstatus, modeErr>>
BSendPing(x) ==          \* x: the payload chosen by the bot (the clock); remembered for StatusOK
  /\ bpc = "st3" /\ BSend(Frame(bthr, "ping", <<>>, x, 0, 8, NoPkt)) /\ bpc' = "st4"
  /\ cfg' = [cfg EXCEPT !.ping = x]
  /\ UNCHANGED <<spc, bthr, sthr, bpend, s2c, bout, sout, bsent, ssent, bgot, sgot, bview, accepted, bstatus, modeErr>>

\* ------------------------------------------------------------------ server
SUnch == UNCHANGED <<cfg, bpc, bthr, bpend, bout, bsent, bgot, bview, bstatus>>

\* the server reads the next frame of c2s
SRecv ==
  /\ spc \in {"start", "hello", "waitack", "waitfin", "status", "status2"} /\ c2s # <<>>
  /\ LET f == Head(c2s) IN
     /\ c2s' = Tail(c2s)
     /\ IF ~Parses(sthr, f)
        THEN modeErr' = TRUE /\ spc' = "broken" /\ UNCHANGED <<sout>>
        ELSE /\ UNCHANGED modeErr
             /\ CASE spc = "start" /\ f.k = "handshake" ->
                       /\ spc' = IF f.v % 4 = 2 THEN "hello" ELSE IF f.v % 4 = 1 THEN "status" ELSE "closed"
                       /\ sout' = <<[NoPkt EXCEPT !.seq = f.v \div 4]>>             \* remembers the protocol number
                  [] spc = "hello" /\ f.k = "loginstart" ->
                       /\ sout' = <<[sout[1] EXCEPT !.sha = f.name]>>                \* remembers the name
                       /\ spc' = IF cfg.t >= 0 THEN (IF Variant = "srvEarly" THEN "setthr" ELSE "sendcomp") ELSE "check"
                  [] spc = "waitack" /\ f.k = "ack" -> spc' = "sendfinish" /\ UNCHANGED sout
                  [] spc = "waitfin" /\ f.k = "finishack" -> spc' = "accept" /\ UNCHANGED sout
                  [] spc \in {"status", "status2"} /\ f.k = "statusreq" ->
                       spc' = (IF spc = "status" THEN "resp" ELSE "resp2") /\ UNCHANGED sout
                  [] spc \in {"status", "status2"} /\ f.k = "ping" ->
                       /\ spc' = (IF spc = "status" THEN "pong" ELSE "pong2")
                       /\ sout' = <<[NoPkt EXCEPT !.sha = f.uuid]>>                  \* the payload to echo
                  [] OTHER -> spc' = "broken" /\ UNCHANGED sout
  /\ UNCHANGED <<sthr, s2c, ssent, sgot, accepted>> /\ SUnch

SrvName == sout[1].sha
SrvProto == sout[1].seq

SSendSetComp(n) ==
  /\ spc = "sendcomp" /\ SSend(Frame(sthr, "setcomp", <<>>, <<>>, cfg.t, n, NoPkt))
  /\ spc' = IF Variant = "srvEarly" THEN "check" ELSE IF Variant = "srvLate" THEN "check" ELSE "setthr"
  /\ UNCHANGED <<sthr, c2s, sout, ssent, sgot, accepted, modeErr>> /\ SUnch
SSetThr ==
  /\ \/ spc = "setthr" /\ spc' = (IF Variant = "srvEarly" THEN "sendcomp" ELSE "check")
     \/ Variant = "srvLate" /\ spc = "lateThr" /\ spc' = "waitack"
  /\ sthr' = cfg.t
  /\ UNCHANGED <<c2s, s2c, sout, ssent, sgot, accepted, modeErr>> /\ SUnch
SCheck ==
  /\ spc = "check" /\ spc' = IF cfg.refuse THEN "senddisc" ELSE "sendsucc"
  /\ UNCHANGED <<sthr, c2s, s2c, sout, ssent, sgot, accepted, modeErr>> /\ SUnch
SSendDisconnect(n) ==
  /\ spc = "senddisc" /\ SSend(Frame(sthr, "disconnect", <<>>, <<>>, 0, n, NoPkt)) /\ spc' = "closed"
  /\ UNCHANGED <<sthr, c2s, sout, ssent, sgot, accepted, modeErr>> /\ SUnch
SSendSuccess(n) ==
  /\ spc = "sendsucc" /\ SSend(Frame(sthr, "success", SrvName, cfg.ouuid, 0, n, NoPkt))
  /\ spc' = IF Variant = "srvLate" /\ sthr # cfg.t THEN "lateThr" ELSE "waitack"
  /\ UNCHANGED <<sthr, c2s, sout, ssent, sgot, accepted, modeErr>> /\ SUnch
SSendFinish(n) ==
  /\ spc = "sendfinish" /\ SSend(Frame(sthr, "finish", <<>>, <<>>, 0, n, NoPkt)) /\ spc' = "waitfin"
  /\ UNCHANGED <<sthr, c2s, sout, ssent, sgot, accepted, modeErr>> /\ SUnch
\* Server.AcceptConn calls GamePlay.AcceptPlayer(name, id, .., protocol, conn)
SAccept ==
  /\ spc = "accept" /\ spc' = "play"
  /\ accepted' = [name |-> SrvName, uuid |-> cfg.ouuid, proto |-> SrvProto]
  /\ sout' = <<>>
  /\ UNCHANGED <<sthr, c2s, s2c, ssent, sgot, modeErr>> /\ SUnch
SEnqueue(p) ==
  /\ spc = "play" /\ sout = <<>> /\ sout' = <<p>> /\ ssent' = Append(ssent, p)
  /\ UNCHANGED <<spc, sthr, c2s, s2c, sgot, accepted, modeErr>> /\ SUnch
SWriter ==
  /\ spc = "play" /\ sout # <<>>
  /\ SSend(Frame(sthr, "play", <<>>, <<>>, 0, Head(sout).n, Head(sout))) /\ sout' = Tail(sout)
  /\ UNCHANGED <<spc, sthr, c2s, ssent, sgot, accepted, modeErr>> /\ SUnch
SHandle ==
  /\ spc = "play" /\ c2s # <<>>
  /\ LET f == Head(c2s) IN
     /\ c2s' = Tail(c2s)
     /\ IF Parses(sthr, f) /\ f.k = "play"
        THEN sgot' = Append(sgot, f.pkt) /\ UNCHANGED <<spc, modeErr>>
        ELSE modeErr' = ~Parses(sthr, f) /\ spc' = "broken" /\ UNCHANGED sgot
  /\ UNCHANGED <<sthr, s2c, sout, ssent, accepted>> /\ SUnch
SSendStatusResp(n) ==
  /\ spc \in {"resp", "resp2"} /\ SSend(Frame(sthr, "statusresp", cfg.status, <<>>, 0, n, NoPkt))
  /\ spc' = IF spc = "resp" THEN "status2" ELSE "closed"
  /\ UNCHANGED <<sthr, c2s, sout, ssent, sgot, accepted, modeErr>> /\ SUnch
SSendPong ==
  /\ spc \in {"pong", "pong2"} /\ SSend(Frame(sthr, "pong", <<>>, sout[1].sha, 0, 8, NoPkt))
  /\ spc' = IF spc = "pong" THEN "status2" ELSE "closed"
  /\ UNCHANGED <<sthr, c2s, sout, ssent, sgot, accepted, modeErr>> /\ SUnch

\* ------------------------------------------------------------------ model-checking instance
\* size classes below / at / above the threshold, rotated by the pattern of the configuration
SizeOf(k) == LET t == cfg.t
                 c == (k + cfg.pat) % 3 IN
             IF t < 0 THEN <<0, 1, 300>>[c + 1]
             ELSE <<IF t > 0 THEN t - 1 ELSE 0, t, t + 1>>[c + 1]
MCPkt(k, side) == [seq |-> k, id |-> 1, n |-> SizeOf(k), sha |-> <<side, k>>]

NamesQuick == {<<65>>, <<66, 111, 98>>}          \* names are byte sequences
NamesThorough == NamesQuick \cup {<<120, 95, 88, 95, 115, 105, 120, 116, 101, 101, 110, 95, 99, 104, 95, 88>>, <<195, 156, 110, 195, 175>>}
ThrQuick == {-1, 0, 1, 64}
ThrThorough == {-1, 0, 1, 2, 64, 256, 70000}

\* buuid: what the bot puts into its login start - nothing, or a UUID of its own (the gate decides, not the client)
Configs == {[t |-> t, name |-> nm, ouuid |-> <<"offline", nm>>, buuid |-> bu, proto |-> 767,
             refuse |-> r, intent |-> i, pat |-> p, status |-> <<"json">>, ping |-> <<"now">>] :
              t \in Thresholds, nm \in Names, r \in Refusals, i \in Intentions, p \in 0..2, bu \in {<<"zero">>, <<"foreign">>}}

Init == /\ cfg \in Configs
        /\ bpc = "start" /\ spc = "start" /\ bthr = -1 /\ sthr = -1 /\ bpend = -1
        /\ c2s = <<>> /\ s2c = <<>> /\ bout = <<>> /\ sout = <<>>
        /\ bsent = <<>> /\ ssent = <<>> /\ bgot = <<>> /\ sgot = <<>>
        /\ bview = NoView /\ accepted = None /\ bstatus = <<<<>>, <<>>>> /\ modeErr = FALSE

BotNext == \/ BSendHandshake(10) \/ BSendLoginStart(20) \/ BRecv \/ BSetThr \/ BSendAck(0) \/ BSendFinishAck(0) \/ BJoined
           \/ (Len(bsent) < MaxPlay /\ BEnqueue(MCPkt(Len(bsent) + 1, "b"))) \/ BWriter \/ BHandle
           \/ BSendStatusReq(0) \/ BSendPing(cfg.ping)
SrvNext == \/ SRecv \/ SSendSetComp(1) \/ SSetThr \/ SCheck \/ SSendDisconnect(40) \/ SSendSuccess(30) \/ SSendFinish(0)
           \/ SAccept \/ (Len(ssent) < MaxPlay /\ SEnqueue(MCPkt(Len(ssent) + 1, "s"))) \/ SWriter \/ SHandle
           \/ SSendStatusResp(60) \/ SSendPong
Next == BotNext \/ SrvNext
Spec == Init /\ [][Next]_vars /\ WF_vars(BotNext) /\ WF_vars(SrvNext)

\* ------------------------------------------------------------------ properties
IsPrefix(a, b) == Len(a) <= Len(b) /\ SubSeq(b, 1, Len(a)) = a
ModeAgreement == ~modeErr
NoBroken == bpc # "broken" /\ spc # "broken"
Agreement == /\ accepted # None => accepted = [name |-> cfg.name, uuid |-> cfg.ouuid, proto |-> cfg.proto]
             /\ bpc \in {"ready", "play"} => bview = [name |-> cfg.name, uuid |-> cfg.ouuid]
             /\ cfg.refuse => accepted = None /\ bpc \notin {"ready", "play"}
PlayFIFO == IsPrefix(sgot, bsent) /\ IsPrefix(bgot, ssent)          \* in order and intact, nothing invented
StatusOK == bpc = "stdone" => bstatus = <<cfg.status, cfg.ping>>
Safety == ModeAgreement /\ NoBroken /\ Agreement /\ PlayFIFO /\ StatusOK

JoinCompletes == (cfg.intent = 2 /\ ~cfg.refuse) => <>(bpc = "play" /\ spc = "play" /\ accepted # None)
PlayDelivered == (cfg.intent = 2 /\ ~cfg.refuse) => <>(Len(sgot) = MaxPlay /\ Len(bgot) = MaxPlay)
RefusalSeen   == (cfg.intent = 2 /\ cfg.refuse) => <>(bpc = "failed")
StatusCompletes == (cfg.intent = 1) => <>(bpc = "stdone")
=============================================================================
