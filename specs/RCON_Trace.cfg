SPECIFICATION TraceSpec
CONSTANTS
  Passwords = {}
  Cmds = {}
  Resps = {}
  ReqIDs = {}
  Modes = {}
  MaxCmds = 1000000
  MaxResps = 1000000
  MaxAdv = 1000000
  AdvIds = {}
  AdvTypes = {}
  AdvResps = {}
  WithHist = "last"
  EmitJson = FALSE
POSTCONDITION Accepted
CHECK_DEADLOCK FALSE
