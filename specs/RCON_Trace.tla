----------------------------- MODULE RCON_Trace -----------------------------
(* Trace validation for C16: every recorded call of the real RCONConn          *)
(* (WritePacket / ReadPacket, the DialRCON login flow, Cmd / Resp,             *)
(* AcceptLogin / AcceptCmd / RespCmd) must be the corresponding action of      *)
(* RCON.tla on the same two byte channels; raw peers only put bytes on a       *)
(* channel (inject) or take everything off it (drain).  The results of a step  *)
(* are read from the one-entry history the action leaves behind.               *)
EXTENDS RCON

Trace == ndJsonDeserialize("trace.ndjson")

VARIABLE l
tvars == <<vars, l>>

Ev == Trace[l]
IsEvent(k) == l <= Len(Trace) /\ Trace[l].k = k /\ l' = l + 1
R == hist'[1]        \* what the specification's action did / decided

\* the end-to-end clauses speak about a real client talking to a real server (raw peers only move bytes)
InvAll == TypeOK /\ (mode = "real" => (LoginIff /\ VerbatimInOrder /\ ResponsesInOrder /\ Quiescent))

TReset ==
  /\ IsEvent("reset")
  /\ mode' = Ev.mode /\ cpw' = Ev.cpw /\ spw' = Ev.spw /\ reqid' = Ev.reqid
  /\ c2s' = <<>> /\ s2c' = <<>> /\ cst' = "init" /\ sst' = "init" /\ sreq' = 0
  /\ sent' = <<>> /\ seen' = <<>> /\ sresps' = <<>> /\ cacc' = <<>> /\ nadv' = 0 /\ glog' = <<>> /\ hist' = <<>>
  /\ cv' = NoCV

WireOK == Ev.hw => R.w = Ev.wire

TCLogin     == IsEvent("clogin") /\ Ev.reqid = reqid /\ Ev.ok /\ CLogin /\ WireOK
\* hv: the verdict of DialRCON itself is recorded (TCP leg); otherwise the raw ReadPacket result of the flow
TCLoginResp == /\ IsEvent("cloginresp") /\ CLoginResp
               /\ IF Ev.hv THEN R.ok = Ev.ok
                  ELSE Ev.rok /\ R.id = Ev.rid /\ R.ty = Ev.rty /\ R.p = Ev.rp
TCCmd       == IsEvent("ccmd") /\ Ev.ok /\ CCmd(Ev.p) /\ WireOK
TCResp      == IsEvent("cresp") /\ CResp /\ R.ok = Ev.ok /\ (R.ok => R.p = Ev.p)
TSLogin     == IsEvent("slogin") /\ SLogin /\ R.ok = Ev.ok /\ WireOK /\ (R.ty = TLogin => sreq' = Ev.sreq)
TSCmd       == IsEvent("scmd") /\ SCmd /\ R.ok = Ev.ok /\ (R.ok => (R.p = Ev.p /\ sreq' = Ev.sreq))
TSResp      == IsEvent("sresp") /\ Ev.ok /\ SResp(Ev.p) /\ WireOK

\* raw WritePacket / ReadPacket of the real code on channel d
TWp == /\ IsEvent("wp") /\ Ev.ok
       /\ Len(Ev.p) <= MaxPayload                       \* larger payloads are not decided by the property
       /\ Ev.wire = Enc(Ev.id, Ev.ty, Ev.p)
       /\ IF Ev.d = "c2s" THEN c2s' = c2s \o Ev.wire /\ UNCHANGED s2c ELSE s2c' = s2c \o Ev.wire /\ UNCHANGED c2s
       /\ UNCHANGED <<mode, cpw, spw, reqid, cst, sst, sreq, sent, seen, sresps, cacc, nadv, glog, hist, cv>>
TRp == /\ IsEvent("rp")
       /\ LET ch == IF Ev.d = "c2s" THEN c2s ELSE s2c
              dec == DecFrame(ch)
              rest == IF dec.st = "ok" THEN dec.rest ELSE <<>>       \* after a refusal the stream is abandoned
          IN /\ Ev.ok = (dec.st = "ok")
             /\ dec.st = "ok" => (Ev.id = dec.id /\ Ev.ty = dec.ty /\ Ev.p = dec.p)
             /\ IF Ev.d = "c2s" THEN c2s' = rest /\ UNCHANGED s2c ELSE s2c' = rest /\ UNCHANGED c2s
       /\ UNCHANGED <<mode, cpw, spw, reqid, cst, sst, sreq, sent, seen, sresps, cacc, nadv, glog, hist, cv>>

\* raw peers (not code under test)
TInject == /\ IsEvent("inject")
           /\ IF Ev.d = "c2s" THEN c2s' = c2s \o Ev.bytes /\ UNCHANGED s2c ELSE s2c' = s2c \o Ev.bytes /\ UNCHANGED c2s
           /\ UNCHANGED <<mode, cpw, spw, reqid, cst, sst, sreq, sent, seen, sresps, cacc, nadv, glog, hist, cv>>
TTake   == /\ IsEvent("take") /\ Ev.ok                    \* a raw peer takes one whole frame off channel d
           /\ LET dec == DecFrame(IF Ev.d = "c2s" THEN c2s ELSE s2c) IN
                /\ dec.st = "ok"
                /\ IF Ev.d = "c2s" THEN c2s' = dec.rest /\ UNCHANGED s2c ELSE s2c' = dec.rest /\ UNCHANGED c2s
           /\ UNCHANGED <<mode, cpw, spw, reqid, cst, sst, sreq, sent, seen, sresps, cacc, nadv, glog, hist, cv>>
TDrain  == /\ IsEvent("drain")
           /\ IF Ev.d = "c2s" THEN c2s' = <<>> /\ UNCHANGED s2c ELSE s2c' = <<>> /\ UNCHANGED c2s
           /\ UNCHANGED <<mode, cpw, spw, reqid, cst, sst, sreq, sent, seen, sresps, cacc, nadv, glog, hist, cv>>

TraceInit ==
  /\ l = 1 /\ mode = "real" /\ cv = NoCV /\ cpw = <<>> /\ spw = <<>> /\ reqid = 0
  /\ c2s = <<>> /\ s2c = <<>> /\ cst = "init" /\ sst = "init" /\ sreq = 0
  /\ sent = <<>> /\ seen = <<>> /\ sresps = <<>> /\ cacc = <<>> /\ nadv = 0 /\ glog = <<>> /\ hist = <<>>
TraceNext ==
  /\ \/ TReset \/ TCLogin \/ TCLoginResp \/ TCCmd \/ TCResp \/ TSLogin \/ TSCmd \/ TSResp
     \/ TWp \/ TRp \/ TInject \/ TTake \/ TDrain
  /\ InvAll'
TraceSpec == TraceInit /\ [][TraceNext]_tvars

Accepted == LET d == TLCGet("stats").diameter IN
            /\ PrintT(<<"HWM", d, Len(Trace) + 1>>)
            /\ d = Len(Trace) + 1
=============================================================================
