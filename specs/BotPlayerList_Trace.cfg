SPECIFICATION TraceSpec
CONSTANTS
  Uuids = {}
  Vals = {}
  MaxEnts = 0
  ActSets = {}
  Variant = "intent"
INVARIANTS Check
CHECK_DEADLOCK FALSE
