SPECIFICATION EqSpec
CONSTANTS
  Prod = {1, 2}
  Cons = {11, 12}
  ItemsPer = 2
  SignalOnPush = TRUE
  WithClose = TRUE
INVARIANTS SameInitInv SumIsCard SameAsModule IndInv IndInvT Safety
PROPERTIES SameNext
CHECK_DEADLOCK FALSE
