SPECIFICATION TraceSpec
CONSTANTS
  Keys = {}
  Vals = {}
  Tags = {}
  MaxN = 0
  MaxMsg = 0
  MaxOps = 0
  Grow = 256
INVARIANTS Check
CHECK_DEADLOCK FALSE
