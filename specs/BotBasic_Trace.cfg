SPECIFICATION TraceSpec
CONSTANTS
  LoginToks = {}
  SpawnToks = {}
  Ids = {}
  Keys = {}
  Pays = {}
  KnownRegs = {1, 2}
  Regs = {}
  TagToks = {}
  NEnt = 3
  MaxSecs = 0
  SetVals = {}
  Healths = {}
  FailSets = {}
  Lsts = {}
  Variant = "intent"
INVARIANTS Check
CHECK_DEADLOCK FALSE
