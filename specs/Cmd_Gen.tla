------------------------------ MODULE Cmd_Gen ------------------------------
(* Behaviour generator for leg A of X03/Cmd: the Cmd specification simulated by TLC with larger alphabets (names that *)
(* can never be typed, names with a quote, shared children, duplicate sibling names) and with the command lines built  *)
(* from the graph: a walk from the root that spells each node (a literal by its name, an argument by a token of a menu  *)
(* for its parser: bare words, quoted phrases, unterminated quotes, escapes), with separators of several kinds, then    *)
(* mutated (trailing text, unknown literal, truncated walk, surrounding white space), plus lines of menu tokens.         *)
(* Execute records the result of both readings (act.res intent, act.resw as written), Serialize the body as written.    *)
(* This module only chooses which behaviours are replayed; it proves nothing.                                            *)
EXTENDS Cmd
GEN_Lit == {<<97>>, <<98>>, <<97, 98>>, <<97, 32>>, <<>>, <<34, 113>>, <<116, 112>>}      \* a b ab "a " "" "q tp
GEN_Arg == {<<120>>, <<121, 121>>, <<>>}                                                   \* x yy ""
Sep(i) == CASE i % 4 = 0 -> <<32>> [] i % 4 = 1 -> <<32, 32>> [] i % 4 = 2 -> <<9>> [] OTHER -> <<32, 9, 32>>
Pick(menu, i) == menu[(i % Len(menu)) + 1]
Menu0 == << <<98>>, <<34, 113>>, <<98, 92>>, <<120, 34, 121>>, <<97>> >>                  \* b  "q  b\  x"y  a
Menu1 == << <<34, 98, 32, 99, 34>>, <<34, 34>>, <<34, 98, 92, 34, 99, 34>>, <<34, 98, 99>>, <<98>>,
            <<34, 98, 34, 99>>, <<34, 92, 92, 34>>, <<34, 97, 34>>, <<34, 92, 120, 34>>, <<97, 34>>,
            <<34, 92, 195, 169, 98, 34>> >>
            \* "b c"  ""  "b\"c"  "bc  b  "b"c  "\\"  "a"  "\x"  a"  "\<e-acute>b"
Menu2 == << <<98, 32, 32, 99>>, <<34, 98, 34, 32, 99>>, <<98>> >>                         \* b  c   "b" c   b
ArgTok(ps, i) == IF ps = 0 THEN Pick(Menu0, i) ELSE IF ps = 1 THEN Pick(Menu1, i) ELSE Pick(Menu2, i)
RECURSIVE WalkLine(_, _, _, _)
WalkLine(ni, s, d, acc) ==
  LET n == At(nodes, ni)
      tok == IF n.kind = 1 THEN n.name ELSE IF n.kind = 2 THEN ArgTok(n.parser, s + 3 * d) ELSE <<>>
      acc2 == IF n.kind = 0 THEN acc ELSE acc \o (IF acc = <<>> THEN <<>> ELSE Sep(s + d)) \o tok
  IN IF n.children = <<>> \/ d = 0 THEN acc2
     ELSE WalkLine(n.children[((s \div (d + 1)) % Len(n.children)) + 1], s, d - 1, acc2)
TokMenu == Menu0 \o Menu1 \o Menu2 \o [i \in 1..(N - 1) |-> nodes[i + 1].name]
RECURSIVE TokLine(_, _)
TokLine(s, k) == IF k = 0 THEN <<>> ELSE Pick(TokMenu, s * 5 + k * 7) \o (IF k = 1 THEN <<>> ELSE Sep(s + k) \o TokLine(s, k - 1))
GenLine(s) ==
  LET m == s % 10
      w == WalkLine(0, s, 5, <<>>)
  IN CASE m = 3 -> w \o Sep(s) \o <<122, 122>>                      \* trailing text
       [] m = 4 -> <<32, 9>> \o w \o <<32, 32>>                      \* surrounding blanks
       [] m = 5 -> <<122>> \o w                                      \* unknown first literal
       [] m = 6 -> WalkLine(0, s, s % 3, <<>>)                       \* walk cut short
       [] m = 7 -> TokLine(s, 1 + (s % 4))                             \* tokens of the menu
       [] m = 8 -> <<194, 160>> \o w \o <<194, 133, 32>>             \* surrounded by U+00A0 / U+0085 (trimmed, never split on)
       [] m = 9 -> IF s % 4 = 1 THEN <<>> ELSE IF s % 4 = 2 THEN <<32, 9>> ELSE w \o <<194, 160>> \o <<98>>
       [] OTHER -> w
Orphans == {c \in 1..(N - 1) : stage[c + 1] = "done" /\ \A i \in 0..(N - 1) : c \notin KidSet(i)}
NewNode == \/ \E nm \in LitNames : nops % 3 # 2 /\ NewLiteral(nm)
           \/ \E nm \in ArgNames : nops % 3 # 1 /\ NewArgument(nm, (nops + Len(nm)) % 3)
Finish == \E p \in 1..(N - 1) : (nops % 4 = 0 /\ Unhandle(p)) \/ \E h \in {1 + ((p + nops) % 5)} : Handle(p, h)
Run == \E s \in 0..11 : Execute(GenLine(s * 17 + nops * 5 + N))
GenNext ==
  \/ (nops < 5 \/ nops % 4 = 1) /\ NewNode
  \/ \E c \in Orphans : AppendLiteral(0, c)
  \/ \E p \in 1..(N - 1), c \in 1..(N - 1) : AppendLiteral(p, c) \/ AppendArgument(p, c)
  \/ \E p \in 1..(N - 1), c \in Orphans : AppendLiteral(p, c) \/ AppendArgument(p, c)
  \/ nops >= 3 /\ Finish
  \/ nops >= 18 /\ nops % 6 = 5 /\ Serialize
  \/ nops >= 8 /\ Run
  \/ nops >= 24 /\ Run
  \/ nops >= 30 /\ Run
GenSpec == Init /\ [][GenNext]_vars
=============================================================================
