SPECIFICATION TraceSpec
INVARIANTS Total
CHECK_DEADLOCK FALSE
