----------------------------- MODULE CFB8_Trace -----------------------------
(* Trace validation for C10: every XORKeyStream call of the real CFB8 stream   *)
(* over real AES is one CallWith step of CFB8.tla.  For every byte the harness *)
(* logs the pair (window, AES_K(window)[0]) where window is the last 16 bytes  *)
(* of IV \o ciphertext-so-far, computed with crypto/aes from observed bytes    *)
(* only.  TLC checks that the window IS the specification's register (so the   *)
(* harness's window arithmetic is itself checked) and that dst = src XOR ks.   *)
(* AES is trusted input; the mode is judged here.  A session flagged `pair`    *)
(* runs the opposite direction over the previous session's output with the     *)
(* same key and IV and must give back the previous input.                      *)
EXTENDS CFB8

Trace == ndJsonDeserialize("trace.ndjson")

VARIABLES l, tin, tout, prev
tvars == <<vars, l, tin, tout, prev>>

Ev == Trace[l]
IsEvent(k) == l <= Len(Trace) /\ Trace[l].k = k /\ l' = l + 1
NoPrev == [dir |-> "none", iv |-> <<>>, tin |-> <<>>, tout |-> <<>>]

TReset ==
  /\ IsEvent("reset")
  /\ Ev.dir \in {"enc", "dec"} /\ Len(Ev.iv) = BS /\ IsByteSeq(Ev.iv)
  /\ dir' = Ev.dir /\ iv' = Ev.iv /\ reg' = Ev.iv
  /\ tin' = <<>> /\ tout' = <<>>
  /\ prev' = IF Ev.pair THEN prev ELSE NoPrev
  /\ Ev.pair => (prev.dir \in {"enc", "dec"} /\ prev.dir # Ev.dir /\ prev.iv = Ev.iv)
  /\ UNCHANGED <<key, msg, pos, calls>>

TCall ==
  /\ IsEvent("call")
  /\ Len(Ev.ks) = Len(Ev.src) /\ Len(Ev.win) = Len(Ev.src) /\ Len(Ev.dst) = Len(Ev.src)
  /\ IsByteSeq(Ev.src) /\ IsByteSeq(Ev.ks)
  /\ LET r == CallWith(LAMBDA i, rg : Ev.ks[i], dir, reg, Ev.src) IN
       /\ r.regs = Ev.win          \* every logged keystream byte was computed from the specification's register
       /\ r.out = Ev.dst           \* the real output
       /\ reg' = r.reg
  /\ tin' = tin \o Ev.src /\ tout' = tout \o Ev.dst
  /\ UNCHANGED <<dir, key, iv, msg, pos, calls, prev>>

\* a call the stream refused by panicking (its output slice was shorter than its input) and that the caller recovered
\* from: it is no part of the message - the register is what it was (the calls that follow are judged against it)
TRefused ==
  /\ IsEvent("refused") /\ Ev.dlen < Ev.n
  /\ UNCHANGED <<vars, tin, tout, prev>>

\* a session the harness gave up (a too-short output was not refused: what that means is not specified)
TAbandon == IsEvent("abandon") /\ prev' = NoPrev /\ UNCHANGED <<vars, tin, tout>>

TEnd ==
  /\ IsEvent("end")
  /\ prev.dir # "none" => (tin = prev.tout /\ tout = prev.tin)        \* Dec(Enc(m)) = m, Enc(Dec(c)) = c
  /\ prev' = [dir |-> dir, iv |-> iv, tin |-> tin, tout |-> tout]
  /\ UNCHANGED <<vars, tin, tout>>

TraceInit == /\ l = 1 /\ dir = "enc" /\ key = 0 /\ iv = <<>> /\ msg = <<>> /\ reg = <<>> /\ pos = 0 /\ calls = <<>>
             /\ tin = <<>> /\ tout = <<>> /\ prev = NoPrev
TraceNext == TReset \/ TCall \/ TRefused \/ TAbandon \/ TEnd
TraceSpec == TraceInit /\ [][TraceNext]_tvars

Accepted == LET d == TLCGet("stats").diameter IN
            /\ PrintT(<<"HWM", d, Len(Trace) + 1>>)
            /\ d = Len(Trace) + 1
=============================================================================
