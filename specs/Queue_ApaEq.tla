---------------------------- MODULE Queue_ApaEq -----------------------------
(* X09, TLC only: Queue_Apa (the annotated copy Apalache reads) and Queue (the module C20 binds to the code) have
   the same initial states and the same transitions on every reachable state, and the statements Queue_Ind makes
   with Cardinality(ValidIds) are the module's own ExactlyOnce / PerProducerOrder. *)
EXTENDS Queue_Ind
O == INSTANCE Queue
SameInit == O!Init <=> Init
EqSpec == O!Init /\ [][O!Next \/ Next]_vars
SameNext == [][O!Next <=> Next]_vars
SumIsCard == O!SumPushed(Prod) = Cardinality(ValidIds)
SameAsModule == (ExactlyOnceC <=> O!ExactlyOnce) /\ (OrdDD <=> O!PerProducerOrder)
InitOK == Init      \* evaluated as an invariant restricted to initial states through SameInitInv
SameInitInv == (O!Init <=> Init)
=============================================================================
