SPECIFICATION Spec
CONSTANTS
  Boxes <- MC_BoxesQ
  Tests <- MC_Tests
  Vals = {7}
  MaxLeaves = 4
  AnySibling = TRUE
  RefitRootOnDelete = FALSE
  Bug = 0
VIEW View
INVARIANTS InvTight
CHECK_DEADLOCK FALSE
