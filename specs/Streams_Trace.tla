--------------------------- MODULE Streams_Trace ----------------------------
(***************************************************************************)
(* Pooled codecs (C20): G goroutines each push their own distinguishable   *)
(* packets / NBT values through net/packet Pack/UnPack and nbt Encode/     *)
(* Decode, which share buffer pools, zlib writers and the per-type cache.  *)
(* The specification is that the streams are independent FIFO channels:    *)
(* what stream g receives as its k-th message is what g sent as its k-th,  *)
(* and a value handed out earlier never changes afterwards (`stable`).     *)
(***************************************************************************)
EXTENDS Integers, Sequences, TLC, Json
Trace == ndJsonDeserialize("trace.ndjson")
CONSTANT G
VARIABLES l, sent, recv   \* per stream: sequence of digests
Ev == Trace[l]
IsEvent(k) == l <= Len(Trace) /\ Trace[l].k = k /\ l' = l + 1
SInit == l = 1 /\ sent = [g \in G |-> <<>>] /\ recv = [g \in G |-> <<>>]
Send == IsEvent("send") /\ sent' = [sent EXCEPT ![Ev.g] = Append(@, Ev.sha)] /\ UNCHANGED recv
Recv == /\ IsEvent("recv") /\ Len(recv[Ev.g]) < Len(sent[Ev.g])
        /\ Ev.sha = sent[Ev.g][Len(recv[Ev.g]) + 1]          \* FIFO per stream, nothing from another stream
        /\ Ev.err = FALSE
        /\ recv' = [recv EXCEPT ![Ev.g] = Append(@, Ev.sha)] /\ UNCHANGED sent
Stable == /\ IsEvent("stable") /\ Ev.idx <= Len(recv[Ev.g]) /\ Ev.sha = recv[Ev.g][Ev.idx]   \* re-hash of an earlier result
          /\ UNCHANGED <<sent, recv>>
Reset == IsEvent("reset") /\ sent' = [g \in G |-> <<>>] /\ recv' = [g \in G |-> <<>>]
SNext == Send \/ Recv \/ Stable \/ Reset
TraceSpec == SInit /\ [][SNext]_<<l, sent, recv>>
Accepted == LET d == TLCGet("stats").diameter IN PrintT(<<"HWM", d, Len(Trace) + 1>>) /\ d = Len(Trace) + 1
=============================================================================
