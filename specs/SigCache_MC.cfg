SPECIFICATION Spec
CONSTANTS
  Cap = 3
  Sigs = {1, 2, 3, 4, 5}
  MaxQ = 3
  Dups = TRUE
  MaxOps = 0
VIEW View
INVARIANTS TypeOK IndexInverse Dense NoDup CapOK AlgoRefines
PROPERTIES MostRecentFirst LookupFrame
CHECK_DEADLOCK FALSE
