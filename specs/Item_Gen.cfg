SPECIFICATION GenSpec
CONSTANTS
  EmitJson = TRUE
  Form = "p767"
  Wide = TRUE
  Seed = 1
  NGen = 300
INVARIANTS TypeOK Emit
CHECK_DEADLOCK FALSE
