--------------------------- MODULE ServerLife_Gen ----------------------------
(* Behaviour generator for leg A of X08: ServerLife.tla (code layer) with a history variable `act` naming the     *)
(* step, and a closing plan per connection chosen at Connect (the client closes its socket when its connection's  *)
(* goroutine is at that point; most plans are "never") so that CClose does not dominate the simulation.           *)
(* Every step is one operation of the driver: a client packet / close, or the release of one gate.                *)
EXTENDS ServerLife
VARIABLES act, plan
gvars == <<vars, act, plan>>

Plans == <<"hs", "login", "check", "waitack", "cfg", "config", "cfgret", "accept", "play", "st", "online", "sample", "st2">>
PlanOf(n) == IF n <= Len(Plans) THEN Plans[n] ELSE "never"

GInit == Init /\ Cardinality({i \in Clients : intent[i] = 2}) >= 2 /\ act = <<"init", 0>> /\ plan = [i \in Clients |-> "never"]

Must(i) == alive[i] /\ plan[i] = pc[i]          \* the client's next operation is the close
Lbl(a, i) == act' = <<a, i>> /\ UNCHANGED plan

GNext == \E i \in Clients :
  \/ Connect(i) /\ act' = <<"Connect", i>> /\ \E n \in 1..(3 * Len(Plans)) : plan' = [plan EXCEPT ![i] = PlanOf(n)]
  \/ Must(i) /\ CClose(i) /\ Lbl("CClose", i)
  \/ ~Must(i) /\ \/ Handshake(i) /\ Lbl("Handshake", i)
                 \/ LoginStart(i) /\ Lbl("LoginStart", i)
                 \/ Ack(i) /\ Lbl("Ack", i)
                 \/ FinishAck(i) /\ Lbl("FinishAck", i)
                 \/ StatusReq(i) /\ Lbl("StatusReq", i)
                 \/ Ping(i) /\ Lbl("Ping", i)
                 \/ Check(i) /\ Lbl("Check", i)
                 \/ Config(i) /\ Lbl("Config", i)
                 \/ Accept(i) /\ Lbl("Accept", i)
                 \/ Join(i) /\ Lbl("Join", i)
                 \/ Decline(i) /\ Lbl("Decline", i)
                 \/ Leave(i) /\ Lbl("Leave", i)
                 \/ StatusOnline(i) /\ Lbl("StatusOnline", i)
                 \/ StatusSample(i) /\ Lbl("StatusSample", i)
GSpec == GInit /\ [][GNext]_gvars
=============================================================================
