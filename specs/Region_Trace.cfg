SPECIFICATION TraceSpec
CONSTANTS
  Chunks = {0,1,2,3,4,5,6,7,8,9,10,11,12,13,14,15,16,17,18,19}
  MaxNeed = 255
  MaxSector = 1500
  MaxWrites = 1000000
  FirstFit = FALSE
  AnyOrder = TRUE
  WithCrash = TRUE
  Lens = {}
POSTCONDITION Accepted
CHECK_DEADLOCK FALSE
