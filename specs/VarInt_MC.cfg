SPECIFICATION Spec
CONSTANTS
  W = 2
  Alphabet = {0, 1, 2, 15, 64, 127, 128, 129, 143, 192, 254, 255}
  FreePrefix = 6
  EmitJson = TRUE
INVARIANTS TypeOK BoundedConsumption MachineAgreesWithFunction Minimal RoundTrip Emit
CHECK_DEADLOCK FALSE
