-------------------------------- MODULE RCON --------------------------------
(***************************************************************************)
(* Source RCON as implemented by go-mc net/rcon.go (C16).                  *)
(*                                                                         *)
(* Part 1 - framing.  A frame is                                           *)
(*     LE32(4+4+Len(p)+2) \o LE32(id) \o LE32(type) \o p \o <<0,0>>        *)
(* with int32 fields in little-endian two's complement.  Enc builds it by  *)
(* division/modulo, DecFrame reads a byte string back by weighted sums;    *)
(* the two are written independently and TLC cross-checks them.  int32     *)
(* values are TLC integers (32-bit as well); no intermediate value leaves  *)
(* the range.                                                              *)
(*                                                                         *)
(* Part 2 - protocol.  Client and Server processes over two FIFO *byte*    *)
(* channels (frames are put on the wire with Enc and taken off with        *)
(* DecFrame, so self-delimitation is exercised by every behaviour), plus   *)
(* an adversarial server (answers with any id / type) and an adversarial   *)
(* client (sends any type).  Every action is guarded by "a complete frame  *)
(* is available", hence every behaviour can be executed sequentially on a  *)
(* buffered duplex connection without ever blocking.                       *)
(***************************************************************************)
EXTENDS Integers, Sequences, SequencesExt, TLC, Json

CONSTANTS Passwords,   \* set of byte strings
          Cmds,        \* set of byte strings (command payloads)
          Resps,       \* set of byte strings (response payloads)
          ReqIDs,      \* request ids the client may use (# -1: that value means "login refused")
          Modes,       \* subset of {"real", "advs", "advc", "codec"}
          MaxCmds, MaxResps, MaxAdv,
          AdvIds,      \* subset of {"same", "plus1", "minus1"}
          AdvTypes,    \* types an adversarial peer may use
          AdvResps,    \* payloads an adversarial server answers with
          WithHist,    \* "all": record the behaviour in `hist` (generator for leg A); "last": only the last step
                       \* (trace validation reads the results of a step there); "none"
          EmitJson     \* TRUE: print one JSON vector per terminal state / codec vector

MinLen == 10        \* 4 + 4 + 0 + 2
MaxLen == 4096      \* MaxRCONPackageSize
MaxPayload == MaxLen - MinLen

TLogin == 3
TCmd   == 2      \* also the type of the login response
TResp  == 0

\* ---------------------------------------------------------------- int32 <-> 4 bytes, little endian
LE32(x) ==
  LET m == IF x >= 0 THEN x ELSE -(x + 1)                  \* 0 .. 2^31-1, no overflow for x = -2^31
      b(k) == (m \div (256^k)) % 256
  IN [k \in 1..4 |-> IF x >= 0 THEN b(k-1) ELSE 255 - b(k-1)]

S32(b) ==
  IF b[4] < 128
    THEN b[1] + 256*b[2] + 65536*b[3] + 16777216*b[4]
    ELSE -((255-b[1]) + 256*(255-b[2]) + 65536*(255-b[3]) + 16777216*(255-b[4])) - 1

\* ---------------------------------------------------------------- frames
Enc(id, ty, p) == LE32(4 + 4 + Len(p) + 2) \o LE32(id) \o LE32(ty) \o p \o <<0, 0>>

NoFrame(st) == [st |-> st, id |-> 0, ty |-> 0, p |-> <<>>, rest |-> <<>>]
\* st: "ok" | "more" (stream ends inside the frame) | "short" | "long" (declared length refused)
DecFrame(bytes) ==
  IF Len(bytes) < 4 THEN NoFrame("more")
  ELSE LET L == S32(SubSeq(bytes, 1, 4)) IN
       IF L < MinLen THEN NoFrame("short")
       ELSE IF L > MaxLen THEN NoFrame("long")
       ELSE IF Len(bytes) < 4 + L THEN NoFrame("more")
       ELSE [st |-> "ok",
             id |-> S32(SubSeq(bytes, 5, 8)),
             ty |-> S32(SubSeq(bytes, 9, 12)),
             p  |-> SubSeq(bytes, 13, 4 + L - 2),
             rest |-> SubSeq(bytes, 4 + L + 1, Len(bytes))]

\* ---------------------------------------------------------------- state
VARIABLES mode,    \* "real" | "advs" (real client, adversarial server) | "advc" (adversarial client, real server) | "codec"
          cpw, spw, reqid,
          c2s, s2c,        \* FIFO byte channels
          cst,             \* client: "init" | "login" | "ready" | "failed"
          sst,             \* server: "init" | "ready" | "rejected"
          sreq,            \* server's RCONConn.ReqID
          sent, seen,      \* commands written by the client / accepted by the server
          sresps, cacc,    \* responses written by the server / accepted by the client
          nadv,            \* adversary moves so far
          glog,            \* ghost: the login frame an adversarial client sent (<<ty, pw>>)
          hist,            \* behaviour so far (only when WithHist)
          cv               \* codec vector (mode "codec")
vars == <<mode, cpw, spw, reqid, c2s, s2c, cst, sst, sreq, sent, seen, sresps, cacc, nadv, glog, hist, cv>>

NoCV == [kind |-> "none", id |-> 0, ty |-> 0, p |-> <<>>, decl |-> 0, body |-> 0]

\* hist entry: who did what, the frame fields involved, the bytes the step put on its outgoing channel,
\* the result (ok) and the request id observed / used.
H(op, ty, idc, p, w, ok, id) ==
  LET e == [op |-> op, ty |-> ty, idc |-> idc, p |-> p, w |-> w, ok |-> ok, id |-> id] IN
  IF WithHist = "all" THEN Append(hist, e) ELSE IF WithHist = "last" THEN <<e>> ELSE hist

Pat(n, a) == [i \in 1..n |-> (i * a + (i \div 251)) % 256]     \* long payloads with 0x00, 0xFF and non-UTF-8 bytes

CodecIds   == {0, 1, -1, 255, 256, 65535, 65536, 16777216, 2147483647, -2147483647 - 1, 16909060, -16909061, -256}
CodecTypes == {0, 2, 3, -1, 2147483647}
CodecPayloads == {<<>>, <<0>>, <<0, 0>>, <<97, 0, 98>>, <<255, 254, 128>>, <<195, 40>>,
                  Pat(MaxPayload - 1, 7), Pat(MaxPayload, 13), Pat(MaxPayload, 0), Pat(256, 1)}
CodecDecl == {9, 10, 11, 12, 4095, 4096, 4097, -1, 0, 4, 65536, 2147483647, -2147483647 - 1, 16777216 + 10}
CodecVectors ==
  {[kind |-> "frame", id |-> i, ty |-> t, p |-> p, decl |-> 0, body |-> 0] : i \in CodecIds, t \in CodecTypes, p \in CodecPayloads}
  \cup
  \* raw length words followed by `body` bytes: enough for the declared length, one byte too few, none
  {[kind |-> "raw", id |-> 0, ty |-> 0, p |-> <<>>, decl |-> L, body |-> n] :
      L \in CodecDecl, n \in {0, 3, 9, 10, 11, 4095, 4096, 4097, 4100}}

RawBytes(v) == LE32(v.decl) \o Pat(v.body, 5)

Init ==
  /\ mode \in Modes
  /\ IF mode = "codec"
       THEN cv \in CodecVectors /\ cpw = <<>> /\ spw = <<>> /\ reqid = 0
       ELSE /\ cv = NoCV /\ reqid \in ReqIDs
            /\ cpw \in (IF mode = "advc" THEN {<<>>} ELSE Passwords)      \* unused by an adversarial client
            /\ spw \in (IF mode = "advs" THEN {<<>>} ELSE Passwords)      \* unused by an adversarial server
  /\ c2s = <<>> /\ s2c = <<>> /\ cst = "init" /\ sst = "init" /\ sreq = 0
  /\ sent = <<>> /\ seen = <<>> /\ sresps = <<>> /\ cacc = <<>> /\ nadv = 0 /\ glog = <<>> /\ hist = <<>>

\* ---------------------------------------------------------------- the real client (DialRCON flow, Cmd, Resp)
CLogin ==
  /\ mode \in {"real", "advs"} /\ cst = "init"
  /\ LET w == Enc(reqid, TLogin, cpw) IN
       /\ c2s' = c2s \o w /\ hist' = H("clogin", TLogin, "", cpw, w, TRUE, reqid)
  /\ cst' = "login"
  /\ UNCHANGED <<mode, cpw, spw, reqid, s2c, sst, sreq, sent, seen, sresps, cacc, nadv, glog, cv>>

\* the login answer is judged by its id alone (DialRCON: id = ReqID -> logged in)
CLoginResp ==
  /\ mode \in {"real", "advs"} /\ cst = "login"
  /\ LET d == DecFrame(s2c) IN
       /\ d.st = "ok"
       /\ s2c' = d.rest
       /\ cst' = IF d.id = reqid THEN "ready" ELSE "failed"
       /\ hist' = H("cloginresp", d.ty, "", d.p, <<>>, d.id = reqid, d.id)
  /\ UNCHANGED <<mode, cpw, spw, reqid, c2s, sst, sreq, sent, seen, sresps, cacc, nadv, glog, cv>>

CCmd(c) ==
  /\ mode \in {"real", "advs"} /\ cst = "ready" /\ Len(sent) < MaxCmds
  /\ LET w == Enc(reqid, TCmd, c) IN
       /\ c2s' = c2s \o w /\ hist' = H("ccmd", TCmd, "", c, w, TRUE, reqid)
  /\ sent' = Append(sent, c)
  /\ UNCHANGED <<mode, cpw, spw, reqid, s2c, cst, sst, sreq, seen, sresps, cacc, nadv, glog, cv>>

\* a response is accepted only under the request id in use and with the response type
CResp ==
  /\ mode \in {"real", "advs"} /\ cst = "ready"
  /\ LET d == DecFrame(s2c)
         acc == d.id = reqid /\ d.ty = TResp IN
       /\ d.st = "ok"
       /\ s2c' = d.rest
       /\ cacc' = IF acc THEN Append(cacc, d.p) ELSE cacc
       /\ hist' = H("cresp", d.ty, "", d.p, <<>>, acc, d.id)
  /\ UNCHANGED <<mode, cpw, spw, reqid, c2s, cst, sst, sreq, sent, seen, sresps, nadv, glog, cv>>

\* an adversarial client takes answers off the wire at once (it is not the code under test; this only
\* removes interleavings that differ in how long the raw peer waits before reading)
Eager == ~(mode = "advc" /\ s2c # <<>>)

\* ---------------------------------------------------------------- the real server (AcceptLogin, AcceptCmd, RespCmd)
SLogin ==
  /\ mode \in {"real", "advc"} /\ sst = "init"
  /\ LET d == DecFrame(c2s) IN
       /\ d.st = "ok"
       /\ c2s' = d.rest /\ sreq' = d.id
       /\ IF d.ty # TLogin
            THEN /\ sst' = "rejected" /\ s2c' = s2c                 \* not a login frame: error, no answer
                 /\ hist' = H("slogin", d.ty, "", d.p, <<>>, FALSE, d.id)
          ELSE IF d.p # spw
            THEN LET w == Enc(-1, TCmd, <<>>) IN
                 /\ sst' = "rejected" /\ s2c' = s2c \o w
                 /\ hist' = H("slogin", d.ty, "", d.p, w, FALSE, d.id)
          ELSE LET w == Enc(d.id, TCmd, <<>>) IN
                 /\ sst' = "ready" /\ s2c' = s2c \o w
                 /\ hist' = H("slogin", d.ty, "", d.p, w, TRUE, d.id)
  /\ UNCHANGED <<mode, cpw, spw, reqid, cst, sent, seen, sresps, cacc, nadv, glog, cv>>

SCmd ==
  /\ mode \in {"real", "advc"} /\ sst = "ready" /\ Eager
  /\ LET d == DecFrame(c2s) IN
       /\ d.st = "ok"
       /\ c2s' = d.rest /\ sreq' = d.id
       /\ seen' = IF d.ty = TCmd THEN Append(seen, d.p) ELSE seen
       /\ hist' = H("scmd", d.ty, "", d.p, <<>>, d.ty = TCmd, d.id)
  /\ UNCHANGED <<mode, cpw, spw, reqid, s2c, cst, sst, sent, sresps, cacc, nadv, glog, cv>>

SResp(r) ==
  /\ mode \in {"real", "advc"} /\ sst = "ready" /\ Len(seen) >= 1 /\ Len(sresps) < MaxResps /\ Eager
  /\ LET w == Enc(sreq, TResp, r) IN
       /\ s2c' = s2c \o w /\ hist' = H("sresp", TResp, "", r, w, TRUE, sreq)
  /\ sresps' = Append(sresps, r)
  /\ UNCHANGED <<mode, cpw, spw, reqid, c2s, cst, sst, sreq, sent, seen, cacc, nadv, glog, cv>>

\* ---------------------------------------------------------------- adversarial server: takes a frame, answers anything
AdvId(idc) == IF idc = "same" THEN reqid ELSE IF idc = "plus1" THEN reqid + 1 ELSE -1

AServe(idc, ty, r) ==
  /\ mode = "advs" /\ nadv < MaxAdv
  /\ LET d == DecFrame(c2s)
         w == Enc(AdvId(idc), ty, r) IN
       /\ d.st = "ok"
       /\ c2s' = d.rest /\ s2c' = s2c \o w
       /\ hist' = H("aserve", ty, idc, r, w, TRUE, AdvId(idc))
  /\ nadv' = nadv + 1
  /\ UNCHANGED <<mode, cpw, spw, reqid, cst, sst, sreq, sent, seen, sresps, cacc, glog, cv>>

\* ---------------------------------------------------------------- adversarial client: any type on login and commands
ACLogin(ty, pw) ==
  /\ mode = "advc" /\ cst = "init"
  /\ LET w == Enc(reqid, ty, pw) IN
       /\ c2s' = c2s \o w /\ hist' = H("acsend", ty, "", pw, w, TRUE, reqid)
  /\ cst' = "login" /\ glog' = <<ty, pw>>
  /\ UNCHANGED <<mode, cpw, spw, reqid, s2c, sst, sreq, sent, seen, sresps, cacc, nadv, cv>>

ACRead ==
  /\ mode = "advc" /\ cst \in {"login", "ready"}
  /\ LET d == DecFrame(s2c) IN
       /\ d.st = "ok"
       /\ s2c' = d.rest
       /\ cst' = IF cst = "login" THEN (IF d.id = reqid THEN "ready" ELSE "failed") ELSE cst
       /\ cacc' = IF cst = "ready" THEN Append(cacc, d.p) ELSE cacc
       /\ hist' = H("acread", d.ty, "", d.p, <<>>, TRUE, d.id)
  /\ UNCHANGED <<mode, cpw, spw, reqid, c2s, sst, sreq, sent, seen, sresps, nadv, glog, cv>>

ACCmd(ty, c) ==
  /\ mode = "advc" /\ cst = "ready" /\ nadv < MaxAdv /\ Eager
  /\ LET w == Enc(reqid, ty, c) IN
       /\ c2s' = c2s \o w /\ hist' = H("acsend", ty, "", c, w, TRUE, reqid)
  /\ sent' = IF ty = TCmd THEN Append(sent, c) ELSE sent
  /\ nadv' = nadv + 1
  /\ UNCHANGED <<mode, cpw, spw, reqid, s2c, cst, sst, sreq, seen, sresps, cacc, glog, cv>>

Next ==
  \/ CLogin \/ CLoginResp \/ CResp \/ SLogin \/ SCmd \/ ACRead
  \/ \E c \in Cmds : CCmd(c)
  \/ \E r \in Resps : SResp(r)
  \/ \E idc \in AdvIds, ty \in AdvTypes, r \in AdvResps : AServe(idc, ty, r)
  \/ \E ty \in AdvTypes, pw \in Passwords : ACLogin(ty, pw)
  \/ \E ty \in AdvTypes, c \in Cmds : ACCmd(ty, c)
Spec == Init /\ [][Next]_vars

\* ---------------------------------------------------------------- properties
IsByteSeq(s) == \A i \in 1..Len(s) : s[i] \in 0..255
TypeOK ==
  /\ IsByteSeq(c2s) /\ IsByteSeq(s2c)
  /\ cst \in {"init", "login", "ready", "failed"} /\ sst \in {"init", "ready", "rejected"}

\* login succeeds exactly when the passwords are equal; on failure both sides know
LoginIff ==
  mode = "real" =>
    /\ sst = "ready" => cpw = spw
    /\ sst = "rejected" => cpw # spw
    /\ cst = "ready" => cpw = spw /\ sst = "ready"
    /\ cst = "failed" => cpw # spw /\ sst = "rejected"
\* a server logs in only a login-type frame carrying its password
ServerLoginIff ==
  (mode = "advc" /\ sst # "init") => (sst = "ready" <=> (glog[1] = TLogin /\ glog[2] = spw))
\* commands reach the server verbatim and in order; accepted responses are the server's, in order
VerbatimInOrder ==
  mode \in {"real", "advc"} => IsPrefix(seen, sent)
ResponsesInOrder ==
  /\ mode = "real" => IsPrefix(cacc, sresps)
  /\ mode = "advc" => IsPrefix(cacc, sresps)
Quiescent ==
  (mode = "real" /\ c2s = <<>> /\ s2c = <<>> /\ cst = "ready") => seen = sent /\ cacc = sresps
\* the channels only ever hold whole frames or nothing (self-delimitation under concatenation)
RECURSIVE FramesOK(_)
FramesOK(bytes) == IF bytes = <<>> THEN TRUE
                   ELSE LET d == DecFrame(bytes) IN d.st = "ok" /\ FramesOK(d.rest)
WholeFrames == mode # "codec" => FramesOK(c2s) /\ FramesOK(s2c)
\* with history: every client verdict on a response is "id in use and response type", nothing else
AcceptOnlyMatching ==
  \A i \in 1..Len(hist) : hist[i].op = "cresp" => (hist[i].ok <=> (hist[i].id = reqid /\ hist[i].ty = TResp))

\* codec vectors
CodecRests == {<<>>, <<0>>, <<10, 0, 0, 0>>, Enc(7, 2, <<1>>), <<255, 255, 255, 255, 1, 2>>}
CodecOK ==
  mode = "codec" =>
    IF cv.kind = "frame"
      THEN LET e == Enc(cv.id, cv.ty, cv.p) IN
        /\ Len(e) = Len(cv.p) + 14
        /\ S32(SubSeq(e, 1, 4)) = Len(e) - 4                         \* the length word counts everything after itself
        /\ e[Len(e)] = 0 /\ e[Len(e) - 1] = 0
        /\ IsByteSeq(e)
        /\ \A rest \in CodecRests :                                  \* round trip, self-delimiting
             DecFrame(e \o rest) = [st |-> "ok", id |-> cv.id, ty |-> cv.ty, p |-> cv.p, rest |-> rest]
        /\ \A k \in {0, 3, 4, 13, Len(e) - 1} : DecFrame(SubSeq(e, 1, k)).st = "more"     \* every proper prefix is incomplete
      ELSE LET b == RawBytes(cv)
               d == DecFrame(b) IN
        /\ (cv.decl < MinLen => d.st = "short")
        /\ (cv.decl > MaxLen => d.st = "long")
        /\ (cv.decl \in MinLen..MaxLen /\ cv.body < cv.decl => d.st = "more")
        /\ (cv.decl \in MinLen..MaxLen /\ cv.body >= cv.decl => d.st = "ok" /\ Len(d.p) = cv.decl - 10 /\ Len(d.rest) = cv.body - cv.decl)
LE32RoundTrip == mode = "codec" => (S32(LE32(cv.id)) = cv.id /\ S32(LE32(cv.decl)) = cv.decl)

\* model values for the configurations (cfg files cannot hold tuples)
MCPasswords == {<<>>, <<97>>, <<65>>, <<97, 98>>, <<97, 0>>}      \* "", "a", "A", "ab", "a\0": equal, case, prefix, empty, NUL
MCCmds  == {<<>>, <<108, 0, 255>>}
MCResps == {<<>>, <<111, 107>>}
MCAdvResps == {<<120>>}
MCReqIDs == {5, 2147483646, -7}
MCReqIDs2 == {5, -7}

Terminal == ~ENABLED Next
Emit ==
  EmitJson =>
    IF mode = "codec"
      THEN PrintT(ToJson([kind |-> cv.kind, id |-> cv.id, ty |-> cv.ty, p |-> cv.p,
                          bytes |-> IF cv.kind = "frame" THEN Enc(cv.id, cv.ty, cv.p) ELSE RawBytes(cv),
                          st |-> DecFrame(IF cv.kind = "frame" THEN Enc(cv.id, cv.ty, cv.p) ELSE RawBytes(cv)).st,
                          dp |-> DecFrame(IF cv.kind = "frame" THEN Enc(cv.id, cv.ty, cv.p) ELSE RawBytes(cv)).p,
                          did |-> DecFrame(IF cv.kind = "frame" THEN Enc(cv.id, cv.ty, cv.p) ELSE RawBytes(cv)).id,
                          dty |-> DecFrame(IF cv.kind = "frame" THEN Enc(cv.id, cv.ty, cv.p) ELSE RawBytes(cv)).ty,
                          nrest |-> Len(DecFrame(IF cv.kind = "frame" THEN Enc(cv.id, cv.ty, cv.p) ELSE RawBytes(cv)).rest)]))
      ELSE (hist # <<>> /\ Terminal) =>
           PrintT(ToJson([kind |-> "beh", mode |-> mode, cpw |-> cpw, spw |-> spw, reqid |-> reqid, hist |-> hist]))
=============================================================================
