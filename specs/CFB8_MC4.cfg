SPECIFICATION Spec
CONSTANTS
  BS = 4
  Keys = {3}
  IVs <- MCIVs1
  Msgs <- MCMsgs1
  Lens <- MCLens
  MaxCalls = 4
  EmitJson = TRUE
INVARIANTS TypeOK SplitInvariance RegIsWindow RoundTrip Emit
CHECK_DEADLOCK FALSE
