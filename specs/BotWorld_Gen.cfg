SPECIFICATION GenSpec
CONSTANTS
  Coords = {}
  Toks = {}
  NDims = 2
  Dims = {}
  Variant = "code"
CHECK_DEADLOCK FALSE
