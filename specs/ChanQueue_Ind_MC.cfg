SPECIFICATION HSpec
CONSTANTS
  Procs = {1, 2, 3}
  Cap = 1
  Values = {1, 2}
INVARIANTS IndInv IndInvT Safety
PROPERTIES StepIsCNext
CONSTRAINT HistBound
CHECK_DEADLOCK FALSE
