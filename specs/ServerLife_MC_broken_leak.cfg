SPECIFICATION Spec
CONSTANTS
  Clients = {1, 2}
  K = 1
  Layer = "code"
  Broken = "leak"
  Intents = {1, 2}
  CfgModes = {"real", "wait"}
INVARIANTS NoLeak

CHECK_DEADLOCK FALSE
