------------------------------- MODULE VarInt -------------------------------
(***************************************************************************)
(* Minecraft VarInt / VarLong (C05): little-endian base-128 encoding of    *)
(* the two's-complement bit pattern of a 32-bit (W = 2 limbs) or 64-bit    *)
(* (W = 4 limbs) integer.  Values are tuples of 16-bit limbs, most         *)
(* significant first, because TLC integers are 32-bit.                     *)
(*                                                                         *)
(* The decoder is a byte-fed step machine (one action per byte consumed),  *)
(* the encoder a function; TLC cross-checks the two and emits one JSON     *)
(* vector per reachable state for replay into net/packet.                  *)
(***************************************************************************)
EXTENDS Integers, Sequences, SequencesExt, FiniteSets, TLC, Json

CONSTANTS W,          \* 2 = VarInt, 4 = VarLong
          Alphabet,   \* bytes the decoder generator feeds
          FreePrefix, \* positions <= FreePrefix take any Alphabet byte; later ones are runs
          EmitJson    \* TRUE: print one JSON vector per state (leg A)

NBits  == 16 * W
MaxLen == (NBits + 6) \div 7          \* 5 / 10
NGroups == MaxLen

\* ---------------------------------------------------------------- bit view
LimbBits(x) == [i \in 1..16 |-> (x \div (2^(i-1))) % 2]          \* LSB first
BitsOf(limbs) == FlattenSeq([k \in 1..W |-> LimbBits(limbs[W + 1 - k])])   \* LSB first, NBits long
BitAt(bits, i) == IF i <= Len(bits) THEN bits[i] ELSE 0
Group(bits, k) ==          \* k = 0..NGroups-1 ; 7 bits each
  LET b(j) == BitAt(bits, 7*k + j + 1) IN
  b(0) + 2*b(1) + 4*b(2) + 8*b(3) + 16*b(4) + 32*b(5) + 64*b(6)
LimbOf(bits, k) ==         \* k = 1 (most significant) .. W
  LET base == 16 * (W - k) IN
  LET RECURSIVE S(_)
      S(j) == IF j = 16 THEN 0 ELSE BitAt(bits, base + j + 1) * (2^j) + S(j+1)
  IN S(0)
LimbsOf(bits) == [k \in 1..W |-> LimbOf(bits, k)]

\* ---------------------------------------------------------------- encoder (function)
TopGroup(bits) ==
  LET nz == {k \in 0..NGroups-1 : Group(bits, k) # 0} IN
  IF nz = {} THEN 0 ELSE CHOOSE k \in nz : \A j \in nz : j <= k
Enc(limbs) ==
  LET bits == BitsOf(limbs)
      m == TopGroup(bits)
  IN [k \in 1..m+1 |-> Group(bits, k-1) + (IF k-1 < m THEN 128 ELSE 0)]
LenOf(limbs) == Len(Enc(limbs))

\* independent statement of the length rule: number of significant bits, in 7-bit groups
SigBits(limbs) ==
  LET bits == BitsOf(limbs)
      nz == {i \in 1..NBits : bits[i] = 1}
  IN IF nz = {} THEN 0 ELSE CHOOSE i \in nz : \A j \in nz : j <= i
LenRule(limbs) == IF SigBits(limbs) = 0 THEN 1 ELSE (SigBits(limbs) + 6) \div 7

\* ---------------------------------------------------------------- decoder (function over a byte string)
\* returns [st |-> "done"|"more"|"toolong", n |-> bytes consumed, v |-> limbs]
ValueOfFed(fed) ==
  LET bits == [i \in 1..NBits |->
                 LET k == (i-1) \div 7  j == (i-1) % 7 IN
                 IF k + 1 <= Len(fed) THEN ((fed[k+1] % 128) \div (2^j)) % 2 ELSE 0]
  IN LimbsOf(bits)
RECURSIVE DecFrom(_, _)
DecFrom(bytes, k) ==       \* k bytes consumed so far, all with continuation bit
  IF k = MaxLen THEN [st |-> "toolong", n |-> k, v |-> [i \in 1..W |-> 0]]
  ELSE IF k >= Len(bytes) THEN [st |-> "more", n |-> k, v |-> [i \in 1..W |-> 0]]
  ELSE IF bytes[k+1] < 128 THEN [st |-> "done", n |-> k+1, v |-> ValueOfFed(SubSeq(bytes, 1, k+1))]
  ELSE DecFrom(bytes, k+1)
Dec(bytes) == DecFrom(bytes, 0)

\* ---------------------------------------------------------------- state machine
VARIABLES mode,    \* "dec" | "enc"
          val,     \* limbs: value to encode ("enc") / value decoded so far
          fed,     \* bytes fed to the decoder / bytes produced by the encoder
          status   \* dec: "more" | "done" | "toolong" ; enc: "idle" | "encoded"
vars == <<mode, val, fed, status>>

Zero == [i \in 1..W |-> 0]
Pow16 == 65536
\* boundary values: for every bit position p, the patterns 2^p - 1, 2^p, 2^p + 1 and their complements
OneAt(p)  == LimbsOf([i \in 1..NBits |-> IF i = p + 1 THEN 1 ELSE 0])
OnesBelow(p) == LimbsOf([i \in 1..NBits |-> IF i <= p THEN 1 ELSE 0])
OneAtPlus1(p) == LimbsOf([i \in 1..NBits |-> IF i = p + 1 \/ (i = 1 /\ p > 0) THEN 1 ELSE 0])
Compl(l) == [i \in 1..W |-> 65535 - l[i]]
Boundary == LET base == UNION {{OneAt(p), OnesBelow(p), OneAtPlus1(p)} : p \in 0..NBits-1}
            IN base \cup {Compl(l) : l \in base} \cup {Zero, Compl(Zero)}

Init == \/ /\ mode = "dec" /\ val = Zero /\ fed = <<>> /\ status = "more"
        \/ /\ mode = "enc" /\ val \in Boundary /\ fed = <<>> /\ status = "idle"

Allowed(b) ==   \* generator shape: free prefix, then runs of one continuation byte, then any terminator
  IF Len(fed) < FreePrefix \/ b < 128 THEN TRUE ELSE b = fed[Len(fed)]

Feed(b) ==
  /\ mode = "dec" /\ status = "more" /\ Allowed(b)
  /\ IF Len(fed) = MaxLen
       THEN status' = "toolong" /\ UNCHANGED <<fed, val>>        \* refuses before consuming byte MaxLen+1
       ELSE /\ fed' = Append(fed, b)
            /\ val' = ValueOfFed(fed')
            /\ status' = IF b < 128 THEN "done" ELSE "more"
  /\ UNCHANGED mode

Encode ==
  /\ mode = "enc" /\ status = "idle"
  /\ fed' = Enc(val) /\ status' = "encoded"
  /\ UNCHANGED <<mode, val>>

Next == (\E b \in Alphabet : Feed(b)) \/ Encode
Spec == Init /\ [][Next]_vars

\* ---------------------------------------------------------------- properties
TypeOK == /\ Len(fed) <= MaxLen
          /\ \A i \in 1..Len(fed) : fed[i] \in 0..255
          /\ \A i \in 1..W : val[i] \in 0..65535
BoundedConsumption == mode = "dec" => Len(fed) <= MaxLen            \* never consumes more than 5 / 10 bytes
MachineAgreesWithFunction ==
  mode = "dec" => LET d == Dec(fed) IN
     /\ d.st = (IF status = "toolong" THEN "toolong" ELSE IF status = "done" THEN "done"
                ELSE IF Len(fed) = MaxLen THEN "toolong" ELSE "more")
     /\ status = "done" => d.v = val /\ d.n = Len(fed)
Minimal ==      \* any accepted encoding of a value is at least as long as Enc's
  (mode = "dec" /\ status = "done") => /\ LenOf(val) <= Len(fed)
                                       /\ (LenOf(val) = Len(fed) /\ Len(fed) < MaxLen => Enc(val) = fed)
RoundTrip ==
  (mode = "enc" /\ status = "encoded") =>
     /\ Dec(fed) = [st |-> "done", n |-> Len(fed), v |-> val]
     /\ Dec(fed \o <<255, 255>>) = [st |-> "done", n |-> Len(fed), v |-> val]    \* the rest of the stream is not touched
     /\ Len(fed) = LenRule(val)
     /\ \A i \in 1..Len(fed) : (fed[i] >= 128) <=> (i < Len(fed))
     /\ (Len(fed) > 1 => fed[Len(fed)] # 0)                                     \* minimal: no trailing zero group

Emit == EmitJson => PrintT(ToJson([w |-> W, mode |-> mode, val |-> val, fed |-> fed, status |-> status,
                                    n |-> Dec(fed).n]))
=============================================================================
