SPECIFICATION TraceSpec
CONSTANTS
  SecsSet = {}
  BlockPos = {}
  BiomePos = {}
  BlockIds = {}
  AirIds <- TraceAirIds
  BiomeIds = {}
  BlockFills = {}
  BiomeFills = {}
  Tokens = {}
  YPosSet = {}
  MaxSteps = 0
  Ops = {}
POSTCONDITION Accepted
CHECK_DEADLOCK FALSE
