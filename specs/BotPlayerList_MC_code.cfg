SPECIFICATION Spec
CONSTANTS
  Uuids = {1, 2}
  Vals = {1}
  MaxEnts = 2
  ActSets <- SomeActSets
  Variant = "code"
VIEW View
INVARIANTS KeyIsId
CHECK_DEADLOCK FALSE
