----------------------------- MODULE BotWorld_Gen -----------------------------
(* Behaviour generator for leg A of X04/BotWorld: the model of the code (Variant = "code") over a 5 x 5 grid incl.  *)
(* negative coordinates, chunk tokens from a step counter, known and unknown dimension types.  This module only     *)
(* chooses which behaviours are replayed on the real World; it proves nothing.                                      *)
EXTENDS BotWorld

VARIABLE n
gvars == <<vars, n>>
G == {-2, -1, 0, 1, 3}
Fails == IF n % 6 = 2 THEN {FALSE, TRUE} ELSE {FALSE}
GDo(p) == Do(p) /\ n' = n + 1
GenNext ==
  \/ \E a \in G, b \in G, f \in Fails : GDo(P("load", a, b, n + 1, 0, f))
  \/ \E a \in G, b \in G, f \in Fails : (n % 2 = 0 \/ <<a, b>> \in DOMAIN cols \/ <<b, a>> \in DOMAIN cols) /\ GDo(P("forget", a, b, 0, 0, f))
  \/ \E k \in {"login", "respawn"} : n % 5 = 4 /\ GDo(P(k, 0, 0, 0, 0, FALSE))
  \/ \E d \in {0, 1, 2, 7} : n % 4 = 1 /\ GDo(P("setdim", 0, 0, 0, d, FALSE))
GenSpec == Init /\ n = 0 /\ [][GenNext]_gvars
=============================================================================
