SPECIFICATION Spec
CONSTANTS
  EmitJson = TRUE
  Depth = 2
INVARIANTS RoundNBT RoundJSON Agree WireNBT AltOK ExpandOK HdrOK PlainOK Emit
CHECK_DEADLOCK FALSE
