------------------------------ MODULE KeepAlive ------------------------------
(***************************************************************************)
(* server/keepalive.go (extension X01): the keep-alive manager.  One        *)
(* goroutine (Run) owns two FIFO lists and two timers and handles five      *)
(* kinds of events, one action each:                                        *)
(*   Join(p)   ClientJoin : p appended to the ping list (stamped "now")     *)
(*   Leave(p)  ClientLeft : p removed from whichever list holds it; if it   *)
(*             was the head of its list (or already kicked) BOTH timers are *)
(*             re-armed relative to the new heads                           *)
(*   PingFire  listTimer  : head of the ping list gets SendKeepAlive(id),   *)
(*             id+1, moves to the wait list; listTimer re-armed             *)
(*   Pong(p)   ClientTick : p leaves the wait list, the delay handlers get  *)
(*             now - stamp, p re-enters the ping list; if p was the head    *)
(*             the waitTimer is stopped, drained and re-armed               *)
(*   KickFire  waitTimer  : head of the wait list gets SendDisconnect       *)
(* (ClientTick carries no id: the manager never compares ids.)              *)
(*                                                                         *)
(* The module has two layers.  The LIST layer (L... operators) is the       *)
(* untimed effect of every event on <<pingL, waitL, st>>; KeepAlive_Trace   *)
(* reuses it to judge executions of the real code.  The TIMED layer adds a  *)
(* discrete clock in relative form (ages of list items, remaining time of   *)
(* the timers, both saturating, so the state space is finite and liveness   *)
(* can be checked): time = ordered timer expiries.                          *)
(*                                                                         *)
(* Variant = "code"     what keepalive.go does: PingFire leaves the         *)
(*                      waitTimer alone and KickFire kicks the head without *)
(*                      looking at its stamp; a pong of a kicked player     *)
(*                      puts it back into the ping list.                    *)
(* Variant = "intended" a player is kicked only when its own delay W has    *)
(*                      run out; a kicked player stays out until it leaves. *)
(* Variant = "lazy"     self-test only: "armed iff the list is non-empty"   *)
(*                      without arming on join - PingFire does not re-arm   *)
(*                      the listTimer when the ping list became empty; the  *)
(*                      liveness properties and TimersAlive must FAIL.      *)
(* AsyncChan            Go timer channels before go1.23 semantics (the      *)
(*                      go.mod of go-mc says go 1.22): Reset does not drain *)
(*                      a value that was already sent.                      *)
(* Urgent               TRUE: an expired timer is handled before time moves *)
(*                      on (upper bounds become invariants); FALSE: the     *)
(*                      goroutine may lag arbitrarily (liveness only).      *)
(***************************************************************************)
EXTENDS Integers, Sequences, FiniteSets, TLC

CONSTANTS Players, P, W, MaxId, Variant, AsyncChan, Urgent

VARIABLES pingL,   \* sequence of [p, t]: waiting to be pinged, in order
          waitL,   \* sequence of [p, t]: pinged, waiting for the pong, in order
          st,      \* player -> "out" | "ping" | "wait" | "kicked" (listIndex: kicked players keep their entry)
          nextId,  \* keepAliveID (saturating at MaxId in the model)
          ltm,     \* listTimer [rem, pend]: rem > 0 running, rem = -1 expired/stopped; pend: a value sits in the channel
          wtm,     \* waitTimer
          obs      \* the last step as the outside world sees it: <<kind, player, number>>
lvars == <<pingL, waitL, st>>
vars == <<pingL, waitL, st, nextId, ltm, wtm, obs>>

Cap == W + 1                                    \* ages saturate here (every age > W behaves alike)
Min(a, b) == IF a < b THEN a ELSE b
Max(a, b) == IF a > b THEN a ELSE b
Item(p, t) == [p |-> p, t |-> t]
Without(L, p) == SelectSeq(L, LAMBDA it : it.p # p)
Members(L) == {L[i].p : i \in 1..Len(L)}
IsHead(L, p) == L # <<>> /\ L[1].p = p

\* ------------------------------------------------------------ list layer
LJoin(p, t)  == /\ st[p] = "out"
                /\ pingL' = Append(pingL, Item(p, t)) /\ st' = [st EXCEPT ![p] = "ping"] /\ UNCHANGED waitL
LLeave(p)    == /\ st[p] # "out"
                /\ pingL' = Without(pingL, p) /\ waitL' = Without(waitL, p) /\ st' = [st EXCEPT ![p] = "out"]
LPing(t)     == /\ pingL # <<>>
                /\ waitL' = Append(waitL, Item(pingL[1].p, t)) /\ pingL' = Tail(pingL)
                /\ st' = [st EXCEPT ![pingL[1].p] = "wait"]
LPong(p, t)  == /\ st[p] = "wait"
                /\ waitL' = Without(waitL, p) /\ pingL' = Append(pingL, Item(p, t))
                /\ st' = [st EXCEPT ![p] = "ping"]
LKick        == /\ waitL # <<>>
                /\ waitL' = Tail(waitL) /\ st' = [st EXCEPT ![waitL[1].p] = "kicked"] /\ UNCHANGED pingL
\* keepalive.go only: the stale list element of a kicked player is "removed" again and the player re-queued
LResurrect(p, t) == /\ st[p] = "kicked"
                    /\ pingL' = Append(pingL, Item(p, t)) /\ st' = [st EXCEPT ![p] = "ping"] /\ UNCHANGED waitL
\* Leave resets both timers iff elem.Prev() == nil: head of its list, or an element that is in no list any more
LeaveResets(p) == IsHead(pingL, p) \/ IsHead(waitL, p) \/ st[p] = "kicked"

\* ------------------------------------------------------------ timed layer
Off == [rem |-> -1, pend |-> FALSE]
Norm(t) == IF t.rem = 0 THEN [rem |-> -1, pend |-> TRUE] ELSE t        \* the runtime sends the value at expiry
Reset(t, d) == Norm([rem |-> d, pend |-> IF AsyncChan THEN t.pend ELSE FALSE])
Dur(L, I) == IF L = <<>> THEN I ELSE Max(0, I - L[1].t)                \* keepAliveSetTimer
Alive(t) == t.pend \/ t.rem > 0

Init == /\ pingL = <<>> /\ waitL = <<>> /\ st = [p \in Players |-> "out"] /\ nextId = 0
        /\ ltm = [rem |-> P, pend |-> FALSE] /\ wtm = [rem |-> W, pend |-> FALSE]
        /\ obs = <<"init", 0, 0>>

Join(p) == /\ LJoin(p, 0) /\ obs' = <<"join", p, 0>> /\ UNCHANGED <<nextId, ltm, wtm>>

Leave(p) == /\ LLeave(p) /\ obs' = <<"leave", p, 0>> /\ UNCHANGED nextId
            /\ IF LeaveResets(p)
                 THEN /\ wtm' = Reset(wtm, Dur(waitL', W)) /\ ltm' = Reset(ltm, Dur(pingL', P))
                 ELSE UNCHANGED <<ltm, wtm>>

PingFire ==
  /\ ltm.pend
  /\ IF pingL = <<>>
       THEN /\ UNCHANGED <<lvars, nextId, wtm>> /\ obs' = <<"idle", 0, 0>>
       ELSE /\ LPing(0) /\ obs' = <<"ping", pingL[1].p, nextId>> /\ nextId' = Min(nextId + 1, MaxId)
            /\ IF Variant = "intended" /\ waitL = <<>> THEN wtm' = Reset(Off, W) ELSE UNCHANGED wtm
  /\ ltm' = IF Variant = "lazy" /\ pingL' = <<>> THEN Off ELSE Reset(Off, Dur(pingL', P))

KickFire ==
  /\ wtm.pend
  /\ IF waitL # <<>> /\ (Variant = "code" \/ waitL[1].t >= W)
       THEN LKick /\ obs' = <<"kick", waitL[1].p, waitL[1].t>>
       ELSE UNCHANGED lvars /\ obs' = <<"idle", 0, 0>>
  /\ wtm' = Reset(Off, Dur(waitL', W))
  /\ UNCHANGED <<nextId, ltm>>

\* ClientTick of a player whose ping is outstanding
Pong(p) ==
  /\ st[p] = "wait" /\ LPong(p, 0)
  /\ obs' = <<"pong", p, waitL[CHOOSE i \in 1..Len(waitL) : waitL[i].p = p].t>>      \* the delay handed to the handlers
  /\ IF IsHead(waitL, p) THEN wtm' = Reset(Off, Dur(waitL', W)) ELSE UNCHANGED wtm
  /\ UNCHANGED <<nextId, ltm>>
\* ClientTick racing with the kick (the pong was on its way when the disconnect was sent)
LatePong(p) ==
  /\ st[p] = "kicked"
  /\ IF Variant = "code"
       THEN LResurrect(p, 0) /\ wtm' = Reset(Off, Dur(waitL, W))      \* stale element: Prev() == nil
       ELSE UNCHANGED <<lvars, wtm>>
  /\ obs' = <<"latepong", p, 0>> /\ UNCHANGED <<nextId, ltm>>
\* (ClientTick of a player that is in the ping list - an unsolicited pong - is outside the environment
\*  assumption of this model; X01 probes the real code with it separately.)

Older(L) == [i \in 1..Len(L) |-> Item(L[i].p, Min(L[i].t + 1, Cap))]
Down(t) == IF t.rem > 0 THEN Norm([t EXCEPT !.rem = @ - 1]) ELSE t
Tick == /\ Urgent => ~ltm.pend /\ ~wtm.pend
        /\ pingL' = Older(pingL) /\ waitL' = Older(waitL) /\ ltm' = Down(ltm) /\ wtm' = Down(wtm)
        /\ obs' = <<"tick", 0, 0>> /\ UNCHANGED <<st, nextId>>

Env == \E p \in Players : Join(p) \/ Leave(p) \/ Pong(p) \/ LatePong(p)
Next == Env \/ PingFire \/ KickFire \/ Tick
Fairness == WF_vars(Tick) /\ WF_vars(PingFire) /\ WF_vars(KickFire)
Spec == Init /\ [][Next]_vars /\ Fairness

\* ------------------------------------------------------------ properties
TimerOK(t, I) == t.pend \in BOOLEAN /\ t.rem \in (1..I) \cup {-1}
TypeOK == /\ \A i \in 1..Len(pingL) : pingL[i].p \in Players /\ pingL[i].t \in 0..Cap
          /\ \A i \in 1..Len(waitL) : waitL[i].p \in Players /\ waitL[i].t \in 0..Cap
          /\ st \in [Players -> {"out", "ping", "wait", "kicked"}]
          /\ nextId \in 0..MaxId /\ TimerOK(ltm, P) /\ TimerOK(wtm, W)
Count(L, p) == Cardinality({i \in 1..Len(L) : L[i].p = p})
\* every joined player is in exactly one list, exactly once; players that left or were kicked are in none
InOneList == \A p \in Players :
  /\ Count(pingL, p) = (IF st[p] = "ping" THEN 1 ELSE 0)
  /\ Count(waitL, p) = (IF st[p] = "wait" THEN 1 ELSE 0)
\* both lists are in time order (FIFO = oldest first)
Sorted(L) == \A i, j \in 1..Len(L) : i < j => L[i].t >= L[j].t
TimeOrder == Sorted(pingL) /\ Sorted(waitL)
\* keepalive.go keeps both timers armed at all times (not "iff the list is non-empty"): an event is never lost
TimersAlive == Alive(ltm) /\ Alive(wtm)
\* a timer never sleeps past the deadline of the head of its list
PingTimerNotLate == pingL # <<>> => (ltm.pend \/ ltm.rem <= Max(0, P - pingL[1].t))
KickTimerNotLate == waitL # <<>> => (wtm.pend \/ wtm.rem <= Max(0, W - waitL[1].t))
\* with a prompt goroutine nobody waits longer than P for a ping or longer than W for the kick
PingOnTime == Urgent => \A i \in 1..Len(pingL) : pingL[i].t <= P
KickOnTime == Urgent => \A i \in 1..Len(waitL) : waitL[i].t <= W
\* a player that answers within W is never kicked = whoever is kicked has been waiting for W
KickNotEarly == obs[1] = "kick" => obs[3] >= W
\* the same as a statement about the timer: it is not set to go off before the head's deadline
KickTimerNotEarly == waitL # <<>> => (~wtm.pend /\ wtm.rem >= W - waitL[1].t) \/ waitL[1].t >= W
\* pings and kicks only go to joined players in the right state
PingTargetsWaiting == obs[1] = "ping" => st[obs[2]] = "wait" /\ waitL[Len(waitL)].p = obs[2]
KickTargetsKicked == obs[1] = "kick" => st[obs[2]] = "kicked"
LeaveRemoves == obs[1] = "leave" => obs[2] \notin Members(pingL) \cup Members(waitL)
\* liveness (weak fairness of the clock and of the two timer cases of the select)
EventuallyPinged == \A p \in Players : (st[p] = "ping") ~> (st[p] # "ping")
EventuallyKickedOrAnswered == \A p \in Players : (st[p] = "wait") ~> (st[p] # "wait")
=============================================================================
