----------------------------- MODULE BotBasic_Gen -----------------------------
(* Behaviour generator for leg A of X06/BotBasic: the model of the code (Variant = "code") over larger universes -     *)
(* Login / Respawn templates from a step counter, negative ids, several cookie keys, tag packets of up to four         *)
(* sections incl. registries the client does not keep, failing callbacks on some steps.  This module only chooses      *)
(* which behaviours are replayed on the real Player; it proves nothing.                                                 *)
EXTENDS BotBasic

VARIABLE n
gvars == <<vars, n>>
G_Lsts == {<<"gs", "dc", "hc", "death", "tp", "probe">>, <<"probe">>, <<"gs", "hc">>, <<"death", "tp", "probe">>, <<"dc">>, <<>>}
GIds == {-70000, -1, 0, 1, 255, 65536, 123456789}
GFails == IF n % 5 = 2 THEN {<<1>>, <<2>>, <<1, 2>>, <<3>>} ELSE {<<>>}
GSecs == {<<r, t, ids>> : r \in {1, 2, 3, 4}, t \in {1, 2}, ids \in {<<>>, <<0>>, <<2, 0, 1>>}}
GDo(p) == Do(p) /\ n' = n + 1
GenNext ==
  \/ \E t \in {n % 23, 3}, f \in GFails : n % 3 # 1 /\ GDo(P("login", 0, 0, 0, <<>>, LiOf(t), WoOf(t + 5), <<>>, <<>>, f))
  \/ \E t \in {n % 17, 1}, f \in GFails : GDo(P("respawn", 0, 0, 0, <<>>, ZeroLi, WoOf(t), <<>>, <<>>, f))
  \/ \E id \in GIds, f \in GFails : GDo(P0("keepalive", id + n, f))
  \/ \E id \in GIds, f \in GFails : GDo(P0("ping", id - n, f))
  \/ \E id \in {0, 3, n}, f \in GFails : n % 3 = 2 /\ GDo(P0("disconnect", id, f))
  \/ \E key \in {1, 2, 3}, f \in GFails : GDo(P("cookiereq", 0, key, 0, <<>>, ZeroLi, ZeroWo, <<>>, <<>>, f))
  \/ \E key \in {1, 2, 3}, pay \in {0, n + 1}, f \in GFails : GDo(P("cookiestore", 0, key, pay, <<>>, ZeroLi, ZeroWo, <<>>, <<>>, f))
  \/ \E k \in 0..2, f \in GFails : \E secs \in [1..k -> GSecs] : n % 4 = 3 /\ GDo(P("tags", 0, 0, 0, <<>>, ZeroLi, ZeroWo, secs, <<>>, f))
  \/ \E r \in {1, 3}, f \in GFails : n % 4 = 3 /\ GDo(P("tags", 0, 0, 0, <<>>, ZeroLi, ZeroWo, <<<<1, 1, <<1>>>>, <<r, 2, <<0>>>>, <<2, 1, <<2, 2>>>>, <<1, 1, <<>>>>>>, <<>>, f))
  \/ \E h \in {<<40, 20, 10>>, <<0, 3, 0>>, <<-2, 0, 0>>, <<1, n, 7>>}, f \in GFails : GDo(P("health", 0, 0, 0, h, ZeroLi, ZeroWo, <<>>, <<>>, f))
  \/ \E id \in GIds, f \in GFails : n % 3 = 0 /\ GDo(P("position", 0, 0, 0, <<n, -64, 300000 + n, 90, -45, n % 32, id>>, ZeroLi, ZeroWo, <<>>, <<>>, f))
  \/ n % 4 = 1 /\ GDo(P0("callrespawn", 0, <<>>))
  \/ \E id \in GIds : n % 4 = 2 /\ GDo(P0("accepttp", id, <<>>))
  \/ n % 7 = 3 /\ GDo(P0("mkcookies", 0, <<>>))
  \/ \E b \in {0, 1} : n % 6 = b /\ GDo(P0("setfull", b, <<>>))
  \/ n % 5 = 0 /\ GDo(P("setsettings", 0, 0, 0, <<1 + (n % 3), 2 + (n % 30), n % 3, n % 2, (n * 37) % 128, (n \div 2) % 2, (n \div 4) % 2, (n \div 8) % 2, 1 + (n % 4)>>, ZeroLi, ZeroWo, <<>>, <<>>, <<>>))
GenSpec == Init /\ n = 0 /\ [][GenNext]_gvars
=============================================================================
