SPECIFICATION SSpec
CONSTANTS
  Fmts = {}
  EmitJson = TRUE
  Quick = TRUE
  Mode = "texts"
  MaxLen = 4
  Alpha = {48, 49, 46, 45, 97, 98, 76, 102, 100, 115, 95, 101, 34, 39, 92}
  QAlpha = {34, 39, 92, 97}
INVARIANTS TextLaws SEmit
CHECK_DEADLOCK FALSE
