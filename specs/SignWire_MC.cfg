SPECIFICATION Spec
CONSTANTS
  EmitJson = TRUE
  Big = FALSE
INVARIANTS RoundTrip PrefixFails Emit
CHECK_DEADLOCK FALSE
