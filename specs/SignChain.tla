------------------------------ MODULE SignChain ------------------------------
(***************************************************************************)
(* X10 (b): chat/sign.Session - the chain of signed chat messages of ONE    *)
(* sender as the receiving side keeps it (session.go: Session, InitValidate,*)
(* VerifyAndUpdate, verifyHash, verifyChain; Message, Prev), and the wire   *)
(* forms next to it (sign.go: PackedMessageBody, HistoryMessage,            *)
(* HistoryUpdate, FilterMask, Signature; Session.WriteTo / ReadFrom).       *)
(* The signature cache and PackedSignature are X02's, bot/msg is X06's.     *)
(*                                                                         *)
(* A message is [snd, ses, idx, body, sv]: the link (sender, session id,    *)
(* index) the receiver builds from the packet, a body token (text, salt,    *)
(* timestamp, last-seen list) and the RELATION of its signature to them:    *)
(*   "ok"     signed by the session key over exactly (snd, ses, idx, body)  *)
(*            in the protocol's byte layout                                 *)
(*   "idx" / "body" / "ses" / "snd"  a genuine signature of the same key    *)
(*            for a tuple that differs in that one component                *)
(*   "key"    signed over exactly this tuple by ANOTHER key                 *)
(*   "junk"   256 patterned bytes       "none"  no signature at all         *)
(*   "coded"  signed by the session key over the byte string verifyHash     *)
(*            computes today: the protocol layout WITHOUT the index         *)
(*            (binary.Write of a Go `int` fails and writes nothing)         *)
(* RSA and SHA-256 themselves are not specified: a signature is valid for   *)
(* exactly the tuple and key it was made for (SigValid).                    *)
(*                                                                         *)
(* INTENT layer (Layer = "intent") - the protocol as I read it (1.19.3+,    *)
(* client side; vanilla SignedMessageValidator.KeyBased / SignedMessageLink,*)
(* FROM MEMORY, not confirmable offline - see the notes):                   *)
(*   accept(m) iff the chain is intact, the key has not expired, the        *)
(*   signature is valid, and m is the first message, or the very message    *)
(*   accepted last (SameLastOK), or a DESCENDANT of the last one: same      *)
(*   sender, same session, index greater (Desc = "gt": the receiver does    *)
(*   not see every message of a sender, private messages consume indices)   *)
(*   or exactly one greater (Desc = "plus1", the stricter reading of        *)
(*   "index increasing by one").  Accept: last := m.  Reject: the chain is  *)
(*   broken for good (until a new session is initialised), last unchanged.  *)
(*   SessionFixed: the link's session id is the Session's own id.           *)
(* CODE layer (Layer = "code") - session.go as written:                     *)
(*   valid := valid /\ verifyHash /\ verifyChain;                           *)
(*   verifyHash: the index is not part of the hash ("coded" is the only     *)
(*   valid relation, for ANY index); no signature: nil dereference;         *)
(*   verifyChain: lastMsg # nil /\ (idx < last.idx \/ snd # last.snd \/     *)
(*   ses # last.ses) - false for a first message, and the negation of the   *)
(*   descendant rule afterwards; expiry is not looked at; the link's        *)
(*   session id is not compared with SessionID.                             *)
(* TLC shows on the code layer that NO message is ever accepted             *)
(* (NeverAccepts holds) and rejects FirstAccepted (SignChain_MC_code.cfg).  *)
(* Desc = "ge" is broken on purpose (vacuity guard: Monotone is rejected).  *)
(***************************************************************************)
EXTENDS Integers, Sequences, FiniteSets, TLC

CONSTANTS Senders, Sessions, MaxIdx, Bodies,
          Layer,        \* "intent" | "code"
          Desc,         \* "gt" | "plus1" | "ge" (broken)
          SameLastOK,   \* the message accepted last may be delivered again
          Inject        \* generator only: states the exported API cannot reach (lastMsg set through the export shim)

Rels == {"ok", "idx", "body", "ses", "snd", "key", "junk", "none", "coded"}
Msgs == [snd : Senders, ses : Sessions, idx : 0..MaxIdx, body : Bodies, sv : Rels]
NoMsg == [snd |-> 0, ses |-> 0, idx |-> 0, body |-> 0, sv |-> "none"]

VARIABLES own,      \* SessionID of the Session object
          expired,  \* the session key's ExpiresAt lies in the past
          valid,    \* Session.valid
          has,      \* Session.lastMsg # nil
          last,     \* the message lastMsg points to (NoMsg if none)
          act       \* history: the last call and its answer
vars == <<own, expired, valid, has, last, act>>
View == <<own, expired, valid, has, last>>

\* ---------------------------------------------------------------- the two predicates, both layers
SigValid(m) == m.sv = "ok"
CodeSigValid(m) == m.sv = "coded"
Descends(m, p) ==
  /\ m.snd = p.snd /\ m.ses = p.ses
  /\ CASE Desc = "gt" -> m.idx > p.idx [] Desc = "plus1" -> m.idx = p.idx + 1 [] Desc = "ge" -> m.idx >= p.idx
ChainOK(h, p, m) == ~h \/ (SameLastOK /\ m = p) \/ Descends(m, p)
CodeChainOK(h, p, m) == h /\ (m.idx < p.idx \/ m.snd # p.snd \/ m.ses # p.ses)

\* a state s = [own, expired, valid, has, last]; the answer of VerifyAndUpdate(m) and the state after it
IntentAccepts(s, m) == s.valid /\ ~s.expired /\ SigValid(m) /\ m.ses = s.own /\ ChainOK(s.has, s.last, m)
CodeAccepts(s, m) == s.valid /\ CodeSigValid(m) /\ CodeChainOK(s.has, s.last, m)
CodePanics(s, m) == s.valid /\ m.sv = "none"                 \* msg.Signature[:] with a nil Signature (only evaluated while valid)
Accepts(s, m) == IF Layer = "code" THEN CodeAccepts(s, m) ELSE IntentAccepts(s, m)
After(s, m, ok) == IF ok THEN [s EXCEPT !.valid = TRUE, !.has = TRUE, !.last = m] ELSE [s EXCEPT !.valid = FALSE]

St == [own |-> own, expired |-> expired, valid |-> valid, has |-> has, last |-> last]

Init == /\ own \in Sessions /\ expired = FALSE /\ valid = TRUE /\ has = FALSE /\ last = NoMsg
        /\ act = [op |-> "new", ret |-> FALSE]
Deliver(m) ==
  LET ok == Accepts(St, m)  s2 == After(St, m, ok) IN
  /\ ~(Layer = "code" /\ CodePanics(St, m))                  \* the panic leaves the object as it was: a step of its own
  /\ valid' = s2.valid /\ has' = s2.has /\ last' = s2.last
  /\ UNCHANGED <<own, expired>>
  /\ act' = [op |-> "msg", m |-> m, ret |-> ok]
DeliverPanics(m) ==
  /\ Layer = "code" /\ CodePanics(St, m)
  /\ UNCHANGED <<own, expired, valid, has, last>>
  /\ act' = [op |-> "msgpanic", m |-> m, ret |-> FALSE]
InitValidate == /\ valid' = TRUE /\ has' = FALSE /\ last' = NoMsg /\ UNCHANGED <<own, expired>>
                /\ act' = [op |-> "init", ret |-> FALSE]
Expire == /\ ~expired /\ expired' = TRUE /\ UNCHANGED <<own, valid, has, last>>
          /\ act' = [op |-> "expire", ret |-> FALSE]
\* generator only (export shim): lastMsg := m, valid := TRUE - a state that session.go cannot reach by itself
InjectLast(m) == /\ Inject /\ valid' = TRUE /\ has' = TRUE /\ last' = m /\ UNCHANGED <<own, expired>>
                 /\ act' = [op |-> "inject", m |-> m, ret |-> FALSE]
Next == \/ \E m \in Msgs : Deliver(m) \/ DeliverPanics(m)
        \/ InitValidate \/ Expire
        \/ \E m \in Msgs : InjectLast(m)
Spec == Init /\ [][Next]_vars

\* ---------------------------------------------------------------- properties
TypeOK == /\ own \in Sessions /\ expired \in BOOLEAN /\ valid \in BOOLEAN /\ has \in BOOLEAN
          /\ last \in Msgs \cup {NoMsg} /\ (has <=> last # NoMsg)
Delivered == act'.op = "msg"
\* what is accepted carries a valid signature of the unexpired session key over exactly its link and body
AcceptSound == [][(Delivered /\ act'.ret) => (SigValid(act'.m) /\ ~expired /\ valid /\ act'.m.ses = own)]_vars
\* accepted indices only grow along one (sender, session); the one exception is the re-delivered last message
Monotone == [][(Delivered /\ act'.ret /\ has) =>
                 \/ (act'.m = last)
                 \/ (act'.m.idx > last.idx /\ act'.m.snd = last.snd /\ act'.m.ses = last.ses)]_vars
\* a broken chain stays broken until a new session is initialised; a rejection breaks it and keeps lastMsg
BrokenSticky == [][(Delivered /\ ~valid) => (~act'.ret /\ ~valid')]_vars
UpdateRule == [][Delivered => IF act'.ret THEN valid' /\ has' /\ last' = act'.m
                                           ELSE ~valid' /\ has' = has /\ last' = last]_vars
\* completeness: the genuine first message and the genuine successor are accepted (rejected by TLC on the code layer)
FirstAccepted == [][(Delivered /\ valid /\ ~has /\ ~expired /\ SigValid(act'.m) /\ act'.m.ses = own) => act'.ret]_vars
NextAccepted == [][(Delivered /\ valid /\ has /\ ~expired /\ SigValid(act'.m) /\ act'.m.ses = own
                     /\ act'.m.snd = last.snd /\ act'.m.ses = last.ses /\ act'.m.idx = last.idx + 1) => act'.ret]_vars
InitRule == [][act'.op = "init" => (valid' /\ ~has')]_vars
\* holds on the CODE layer without injection: session.go never accepts anything
NeverAccepts == ~has /\ (act.op = "msg" => ~act.ret)
=============================================================================
