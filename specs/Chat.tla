-------------------------------- MODULE Chat ---------------------------------
(***************************************************************************)
(* Text components (C17): the abstract component, its NBT form (trees of   *)
(* NBT.tla), its JSON form (abstract JSON trees), plain rendering and the  *)
(* chat-type header.  Strings are byte sequences.                          *)
(*                                                                         *)
(* A component is a record                                                 *)
(*   [text, bold, italic, underlined, strikethrough, obfuscated, font,     *)
(*    color, insertion, click, hover, translate, with, extra]              *)
(* click = <<>> or <<[action, value]>>                                     *)
(* hover = <<>> or <<[action, contents (<<>> or <<string>>), value (a      *)
(*         component)]>>                                                   *)
(* with / extra = sequences of components.  A translation argument is a    *)
(* component; a bare string argument IS the component with that text.      *)
(*                                                                         *)
(* ToNBT / FromNBT and ToJSON / FromJSON are written independently of each *)
(* other (constructor vs. key-dispatching reader); TLC checks them against *)
(* each other on the generated universe before they judge the real code.   *)
(***************************************************************************)
EXTENDS Integers, Sequences, SequencesExt, FiniteSets, TLC, Json
CONSTANTS EmitJson, Depth
N == INSTANCE NBT WITH Fmts <- {"network"}, Quick <- TRUE, doc <- [t |-> 0], fmt <- "network"

\* ---------------------------------------------------------------- names (ASCII bytes)
kText == <<116, 101, 120, 116>>
kBold == <<98, 111, 108, 100>>
kItalic == <<105, 116, 97, 108, 105, 99>>
kUnderlined == <<117, 110, 100, 101, 114, 108, 105, 110, 101, 100>>
kStrike == <<115, 116, 114, 105, 107, 101, 116, 104, 114, 111, 117, 103, 104>>
kObfuscated == <<111, 98, 102, 117, 115, 99, 97, 116, 101, 100>>
kFont == <<102, 111, 110, 116>>
kColor == <<99, 111, 108, 111, 114>>
kInsertion == <<105, 110, 115, 101, 114, 116, 105, 111, 110>>
kClick == <<99, 108, 105, 99, 107, 69, 118, 101, 110, 116>>          \* clickEvent
kHover == <<104, 111, 118, 101, 114, 69, 118, 101, 110, 116>>        \* hoverEvent
kTranslate == <<116, 114, 97, 110, 115, 108, 97, 116, 101>>
kWith == <<119, 105, 116, 104>>
kExtra == <<101, 120, 116, 114, 97>>
kAction == <<97, 99, 116, 105, 111, 110>>
kValue == <<118, 97, 108, 117, 101>>
kContents == <<99, 111, 110, 116, 101, 110, 116, 115>>

Base == [text |-> <<>>, bold |-> FALSE, italic |-> FALSE, underlined |-> FALSE, strikethrough |-> FALSE, obfuscated |-> FALSE,
         font |-> <<>>, color |-> <<>>, insertion |-> <<>>, click |-> <<>>, hover |-> <<>>, translate |-> <<>>, with |-> <<>>, extra |-> <<>>]
Txt(s) == [Base EXCEPT !.text = s]
Bare(c) == c = Txt(c.text)
Err == [err |-> TRUE]
IsErr(x) == "err" \in DOMAIN x
AnyErr(s) == \E i \in 1..Len(s) : IsErr(s[i])

\* ---------------------------------------------------------------- NBT form
NStr(s) == [t |-> 8, v |-> s]
NTrue == [t |-> 1, v |-> <<1>>]
Ent(k, n) == [k |-> k, n |-> n]
RECURSIVE ToNBT(_)
ToNBT(c) ==
  [t |-> 10, v |->
       (IF c.translate = <<>> \/ c.text # <<>> THEN <<Ent(kText, NStr(c.text))>> ELSE <<>>)      \* translate shape: text only if non-empty
    \o (IF c.bold THEN <<Ent(kBold, NTrue)>> ELSE <<>>)
    \o (IF c.italic THEN <<Ent(kItalic, NTrue)>> ELSE <<>>)
    \o (IF c.underlined THEN <<Ent(kUnderlined, NTrue)>> ELSE <<>>)
    \o (IF c.strikethrough THEN <<Ent(kStrike, NTrue)>> ELSE <<>>)
    \o (IF c.obfuscated THEN <<Ent(kObfuscated, NTrue)>> ELSE <<>>)
    \o (IF c.font # <<>> THEN <<Ent(kFont, NStr(c.font))>> ELSE <<>>)
    \o (IF c.color # <<>> THEN <<Ent(kColor, NStr(c.color))>> ELSE <<>>)
    \o (IF c.insertion # <<>> THEN <<Ent(kInsertion, NStr(c.insertion))>> ELSE <<>>)
    \o (IF c.click # <<>> THEN <<Ent(kClick, [t |-> 10, v |-> <<Ent(kAction, NStr(c.click[1].action)), Ent(kValue, NStr(c.click[1].value))>>])>> ELSE <<>>)
    \o (IF c.hover # <<>>
        THEN LET h == c.hover[1] IN
             <<Ent(kHover, [t |-> 10, v |-> <<Ent(kAction, NStr(h.action))>>
                                            \o (IF h.contents # <<>> THEN <<Ent(kContents, NStr(h.contents[1]))>> ELSE <<>>)
                                            \o <<Ent(kValue, ToNBT(h.value))>>])>>
        ELSE <<>>)
    \o (IF c.translate # <<>> THEN <<Ent(kTranslate, NStr(c.translate))>> ELSE <<>>)
    \o (IF c.with # <<>> THEN <<Ent(kWith, [t |-> 9, et |-> 10, v |-> [i \in 1..Len(c.with) |-> ToNBT(c.with[i])]])>> ELSE <<>>)
    \o (IF c.extra # <<>> THEN <<Ent(kExtra, [t |-> 9, et |-> 10, v |-> [i \in 1..Len(c.extra) |-> ToNBT(c.extra[i])]])>> ELSE <<>>)]

\* decimal text of a (32-bit) integer ; signed value of big-endian patterns
RECURSIVE DecText(_)
DecText(n) == IF n < 0 THEN <<45>> \o DecText(-n) ELSE IF n < 10 THEN <<48 + n>> ELSE DecText(n \div 10) \o <<48 + (n % 10)>>
S4(b) == LET hi == b[1] * 256 + b[2]  lo == b[3] * 256 + b[4] IN (IF hi >= 32768 THEN hi - 65536 ELSE hi) * 65536 + lo
NumOK4(b) == ~(b[1] = 128 /\ b[2] = 0 /\ b[3] = 0 /\ b[4] = 0)                                   \* -2^31: its negation overflows TLC's ints
NumOK8(b) == /\ \/ (\A i \in 1..4 : b[i] = 0) /\ b[5] < 128
                \/ (\A i \in 1..4 : b[i] = 255) /\ b[5] >= 128
             /\ NumOK4(SubSeq(b, 5, 8))

\* reader: a component from ANY tree shape the property lists (string, compound, list); Err outside the grammar.
\* Err means "the specification does not say" (type mismatches, unknown keys, duplicate keys, huge numbers).
RECURSIVE FromNBT(_), FromNBTList(_), NBTFields(_, _, _)
FromNBTList(x) ==        \* a list of components
  IF x.t # 9 THEN <<Err>>
  ELSE IF x.v # <<>> /\ x.et \notin {8, 9, 10} THEN <<Err>>
  ELSE [i \in 1..Len(x.v) |-> FromNBT(x.v[i])]
NBTArgs(x) ==            \* translation arguments: a list of components, or a typed array of numbers (rendered in decimal)
  CASE x.t = 9 -> FromNBTList(x)
    [] x.t = 7 -> [i \in 1..Len(x.v) |-> Txt(DecText(IF x.v[i] >= 128 THEN x.v[i] - 256 ELSE x.v[i]))]
    [] x.t = 11 -> [i \in 1..Len(x.v) |-> IF NumOK4(x.v[i]) THEN Txt(DecText(S4(x.v[i]))) ELSE Err]
    [] x.t = 12 -> [i \in 1..Len(x.v) |-> IF NumOK8(x.v[i]) THEN Txt(DecText(S4(SubSeq(x.v[i], 5, 8)))) ELSE Err]
    [] OTHER -> <<Err>>
NBTClick(x) ==
  IF x.t # 10 \/ \E i \in 1..Len(x.v) : x.v[i].k \notin {kAction, kValue} \/ x.v[i].n.t # 8 THEN Err
  ELSE IF \E i, j \in 1..Len(x.v) : i # j /\ x.v[i].k = x.v[j].k THEN Err
  ELSE LET get(k) == IF \E i \in 1..Len(x.v) : x.v[i].k = k THEN x.v[CHOOSE i \in 1..Len(x.v) : x.v[i].k = k].n.v ELSE <<>> IN
       [action |-> get(kAction), value |-> get(kValue)]
NBTHover(x) ==
  IF x.t # 10 \/ \E i \in 1..Len(x.v) : x.v[i].k \notin {kAction, kValue, kContents} THEN Err
  ELSE IF \E i, j \in 1..Len(x.v) : i # j /\ x.v[i].k = x.v[j].k THEN Err
  ELSE IF \E i \in 1..Len(x.v) : x.v[i].k \in {kAction, kContents} /\ x.v[i].n.t # 8 THEN Err
  ELSE LET has(k) == \E i \in 1..Len(x.v) : x.v[i].k = k
           at(k) == x.v[CHOOSE i \in 1..Len(x.v) : x.v[i].k = k].n
           val == IF has(kValue) THEN FromNBT(at(kValue)) ELSE Base IN
       IF IsErr(val) THEN Err
       ELSE [action |-> IF has(kAction) THEN at(kAction).v ELSE <<>>,
             contents |-> IF has(kContents) THEN <<at(kContents).v>> ELSE <<>>,
             value |-> val]
\* fold the entries of a compound into the accumulator
NBTFields(es, i, acc) ==
  IF i > Len(es) THEN acc
  ELSE LET k == es[i].k  x == es[i].n
           flag == x.t = 1
           on == x.v[1] # 0
           nxt(a) == NBTFields(es, i + 1, a) IN
       CASE k = kText /\ x.t = 8 -> nxt([acc EXCEPT !.text = x.v])
         [] k = kBold /\ flag -> nxt([acc EXCEPT !.bold = on])
         [] k = kItalic /\ flag -> nxt([acc EXCEPT !.italic = on])
         [] k = kUnderlined /\ flag -> nxt([acc EXCEPT !.underlined = on])
         [] k = kStrike /\ flag -> nxt([acc EXCEPT !.strikethrough = on])
         [] k = kObfuscated /\ flag -> nxt([acc EXCEPT !.obfuscated = on])
         [] k = kFont /\ x.t = 8 -> nxt([acc EXCEPT !.font = x.v])
         [] k = kColor /\ x.t = 8 -> nxt([acc EXCEPT !.color = x.v])
         [] k = kInsertion /\ x.t = 8 -> nxt([acc EXCEPT !.insertion = x.v])
         [] k = kTranslate /\ x.t = 8 -> nxt([acc EXCEPT !.translate = x.v])
         [] k = kClick -> LET ce == NBTClick(x) IN IF IsErr(ce) THEN Err ELSE nxt([acc EXCEPT !.click = <<ce>>])
         [] k = kHover -> LET he == NBTHover(x) IN IF IsErr(he) THEN Err ELSE nxt([acc EXCEPT !.hover = <<he>>])
         [] k = kWith -> LET a == NBTArgs(x) IN IF AnyErr(a) THEN Err ELSE nxt([acc EXCEPT !.with = a])
         [] k = kExtra -> LET a == FromNBTList(x) IN IF AnyErr(a) THEN Err ELSE nxt([acc EXCEPT !.extra = a])
         [] OTHER -> Err
FromNBT(x) ==
  CASE x.t = 8 -> Txt(x.v)
    [] x.t = 9 -> LET a == FromNBTList(x) IN IF AnyErr(a) THEN Err ELSE [Base EXCEPT !.extra = a]
    [] x.t = 10 -> IF \E i, j \in 1..Len(x.v) : i # j /\ x.v[i].k = x.v[j].k THEN Err ELSE NBTFields(x.v, 1, Base)
    [] OTHER -> Err

\* a bare string at a component position (an element of with / extra, a hover value) IS the component with
\* that text: ExpandN rewrites such strings as {text: s} so that either spelling compares equal to ToNBT
RECURSIVE ExpandN(_)
ExpandN(x) ==
  CASE x.t = 8 -> [t |-> 10, v |-> <<Ent(kText, x)>>]
    [] x.t = 10 -> [t |-> 10, v |-> [i \in 1..Len(x.v) |->
         LET e == x.v[i] IN
         IF e.k \in {kWith, kExtra} /\ e.n.t = 9 /\ e.n.v # <<>> /\ e.n.et \in {8, 10}
           THEN Ent(e.k, [t |-> 9, et |-> 10, v |-> [j \in 1..Len(e.n.v) |-> ExpandN(e.n.v[j])]])
         ELSE IF e.k = kHover /\ e.n.t = 10
           THEN Ent(e.k, [t |-> 10, v |-> [j \in 1..Len(e.n.v) |-> IF e.n.v[j].k = kValue THEN Ent(kValue, ExpandN(e.n.v[j].n)) ELSE e.n.v[j]]])
         ELSE e]]
    [] OTHER -> x

\* ---------------------------------------------------------------- JSON form (abstract tree)
\* [j |-> "s", v |-> bytes]  [j |-> "b", v |-> BOOLEAN]  [j |-> "a", v |-> seq of nodes]  [j |-> "o", v |-> seq of [k, n]]
\* [j |-> "x"] anything else (number, null at value position)
JStr(s) == [j |-> "s", v |-> s]
JTrue == [j |-> "b", v |-> TRUE]
RECURSIVE ToJSON(_)
ToJSON(c) ==
  [j |-> "o", v |->
       (IF c.translate = <<>> \/ c.text # <<>> THEN <<Ent(kText, JStr(c.text))>> ELSE <<>>)
    \o (IF c.bold THEN <<Ent(kBold, JTrue)>> ELSE <<>>)
    \o (IF c.italic THEN <<Ent(kItalic, JTrue)>> ELSE <<>>)
    \o (IF c.underlined THEN <<Ent(kUnderlined, JTrue)>> ELSE <<>>)
    \o (IF c.strikethrough THEN <<Ent(kStrike, JTrue)>> ELSE <<>>)
    \o (IF c.obfuscated THEN <<Ent(kObfuscated, JTrue)>> ELSE <<>>)
    \o (IF c.font # <<>> THEN <<Ent(kFont, JStr(c.font))>> ELSE <<>>)
    \o (IF c.color # <<>> THEN <<Ent(kColor, JStr(c.color))>> ELSE <<>>)
    \o (IF c.insertion # <<>> THEN <<Ent(kInsertion, JStr(c.insertion))>> ELSE <<>>)
    \o (IF c.click # <<>> THEN <<Ent(kClick, [j |-> "o", v |-> <<Ent(kAction, JStr(c.click[1].action)), Ent(kValue, JStr(c.click[1].value))>>])>> ELSE <<>>)
    \o (IF c.hover # <<>>
        THEN LET h == c.hover[1] IN
             <<Ent(kHover, [j |-> "o", v |-> <<Ent(kAction, JStr(h.action))>>
                                             \o (IF h.contents # <<>> THEN <<Ent(kContents, JStr(h.contents[1]))>> ELSE <<>>)
                                             \o <<Ent(kValue, ToJSON(h.value))>>])>>
        ELSE <<>>)
    \o (IF c.translate # <<>> THEN <<Ent(kTranslate, JStr(c.translate))>> ELSE <<>>)
    \o (IF c.with # <<>> THEN <<Ent(kWith, [j |-> "a", v |-> [i \in 1..Len(c.with) |-> ToJSON(c.with[i])]])>> ELSE <<>>)
    \o (IF c.extra # <<>> THEN <<Ent(kExtra, [j |-> "a", v |-> [i \in 1..Len(c.extra) |-> ToJSON(c.extra[i])]])>> ELSE <<>>)]

RECURSIVE FromJSON(_), JFields(_, _, _)
FromJSONList(x) == IF x.j # "a" THEN <<Err>> ELSE [i \in 1..Len(x.v) |-> FromJSON(x.v[i])]
JNoDup(es) == \A i, j \in 1..Len(es) : i # j => es[i].k # es[j].k
JClick(x) ==
  IF x.j # "o" \/ ~JNoDup(x.v) \/ \E i \in 1..Len(x.v) : x.v[i].k \notin {kAction, kValue} \/ x.v[i].n.j # "s" THEN Err
  ELSE LET get(k) == IF \E i \in 1..Len(x.v) : x.v[i].k = k THEN x.v[CHOOSE i \in 1..Len(x.v) : x.v[i].k = k].n.v ELSE <<>> IN
       [action |-> get(kAction), value |-> get(kValue)]
JHover(x) ==
  IF x.j # "o" \/ ~JNoDup(x.v) \/ \E i \in 1..Len(x.v) : x.v[i].k \notin {kAction, kValue, kContents} THEN Err
  ELSE IF \E i \in 1..Len(x.v) : x.v[i].k \in {kAction, kContents} /\ x.v[i].n.j # "s" THEN Err
  ELSE LET has(k) == \E i \in 1..Len(x.v) : x.v[i].k = k
           at(k) == x.v[CHOOSE i \in 1..Len(x.v) : x.v[i].k = k].n
           val == IF has(kValue) THEN FromJSON(at(kValue)) ELSE Base IN
       IF IsErr(val) THEN Err
       ELSE [action |-> IF has(kAction) THEN at(kAction).v ELSE <<>>,
             contents |-> IF has(kContents) THEN <<at(kContents).v>> ELSE <<>>,
             value |-> val]
JFields(es, i, acc) ==
  IF i > Len(es) THEN acc
  ELSE LET k == es[i].k  x == es[i].n
           str == x.j = "s"
           flag == x.j = "b"
           nxt(a) == JFields(es, i + 1, a) IN
       CASE k = kText /\ str -> nxt([acc EXCEPT !.text = x.v])
         [] k = kBold /\ flag -> nxt([acc EXCEPT !.bold = x.v])
         [] k = kItalic /\ flag -> nxt([acc EXCEPT !.italic = x.v])
         [] k = kUnderlined /\ flag -> nxt([acc EXCEPT !.underlined = x.v])
         [] k = kStrike /\ flag -> nxt([acc EXCEPT !.strikethrough = x.v])
         [] k = kObfuscated /\ flag -> nxt([acc EXCEPT !.obfuscated = x.v])
         [] k = kFont /\ str -> nxt([acc EXCEPT !.font = x.v])
         [] k = kColor /\ str -> nxt([acc EXCEPT !.color = x.v])
         [] k = kInsertion /\ str -> nxt([acc EXCEPT !.insertion = x.v])
         [] k = kTranslate /\ str -> nxt([acc EXCEPT !.translate = x.v])
         [] k = kClick -> LET ce == JClick(x) IN IF IsErr(ce) THEN Err ELSE nxt([acc EXCEPT !.click = <<ce>>])
         [] k = kHover -> LET he == JHover(x) IN IF IsErr(he) THEN Err ELSE nxt([acc EXCEPT !.hover = <<he>>])
         [] k = kWith -> LET a == FromJSONList(x) IN IF AnyErr(a) THEN Err ELSE nxt([acc EXCEPT !.with = a])
         [] k = kExtra -> LET a == FromJSONList(x) IN IF AnyErr(a) THEN Err ELSE nxt([acc EXCEPT !.extra = a])
         [] OTHER -> Err
FromJSON(x) ==
  CASE x.j = "s" -> Txt(x.v)
    [] x.j = "a" -> LET a == FromJSONList(x) IN IF AnyErr(a) THEN Err ELSE [Base EXCEPT !.extra = a]
    [] x.j = "o" -> IF JNoDup(x.v) THEN JFields(x.v, 1, Base) ELSE Err
    [] OTHER -> Err

\* equality of JSON trees up to the order of object members
RECURSIVE SameJ(_, _)
SameJ(a, b) ==
  IF a.j # b.j THEN FALSE
  ELSE CASE a.j = "a" -> Len(a.v) = Len(b.v) /\ \A i \in 1..Len(a.v) : SameJ(a.v[i], b.v[i])
         [] a.j = "o" -> /\ Len(a.v) = Len(b.v)
                         /\ \A i \in 1..Len(a.v) : \E j \in 1..Len(b.v) : a.v[i].k = b.v[j].k /\ SameJ(a.v[i].n, b.v[j].n)
         [] a.j = "x" -> TRUE
         [] OTHER -> a.v = b.v

RECURSIVE ExpandJ(_)
ExpandJ(x) ==
  CASE x.j = "s" -> [j |-> "o", v |-> <<Ent(kText, x)>>]
    [] x.j = "o" -> [j |-> "o", v |-> [i \in 1..Len(x.v) |->
         LET e == x.v[i] IN
         IF e.k \in {kWith, kExtra} /\ e.n.j = "a"
           THEN Ent(e.k, [j |-> "a", v |-> [k \in 1..Len(e.n.v) |-> ExpandJ(e.n.v[k])]])
         ELSE IF e.k = kHover /\ e.n.j = "o"
           THEN Ent(e.k, [j |-> "o", v |-> [k \in 1..Len(e.n.v) |-> IF e.n.v[k].k = kValue THEN Ent(kValue, ExpandJ(e.n.v[k].n)) ELSE e.n.v[k]]])
         ELSE e]]
    [] OTHER -> x

\* ---------------------------------------------------------------- plain rendering
Sect == <<194, 167>>                                   \* U+00A7 in UTF-8
\* formatting codes: section sign followed by 0-9 a-f k-o r, either case
IsCode(b) == (b >= 48 /\ b <= 57) \/ (b >= 97 /\ b <= 102) \/ (b >= 107 /\ b <= 111) \/ b = 114
             \/ (b >= 65 /\ b <= 70) \/ (b >= 75 /\ b <= 79) \/ b = 82
CodeAt(s, i) == i + 2 <= Len(s) /\ s[i] = 194 /\ s[i + 1] = 167 /\ IsCode(s[i + 2])
RECURSIVE StripFrom(_, _)
StripFrom(s, i) == IF i > Len(s) THEN <<>>
                   ELSE IF CodeAt(s, i) THEN StripFrom(s, i + 3)
                   ELSE <<s[i]>> \o StripFrom(s, i + 1)
Strip(s) == StripFrom(s, 1)                            \* one left-to-right pass
NoCode(s) == \A i \in 1..Len(s) : ~CodeAt(s, i)

\* the language table the renderer is given: key -> template = sequence of literal pieces and argument slots
Lit(s) == [lit |-> s, arg |-> 0]
Arg(i) == [lit |-> <<>>, arg |-> i]
KeyN(n) == <<107, 48 + n>>                             \* "k0" .. "k5": n slots filled in order
KeyR == <<107, 114>>                                   \* "kr": explicit indices, second argument first
KeyU == <<122, 122>>                                   \* "zz": not in the table
KeyE == <<107, 101>>                                   \* "ke": in the table, its translation is the empty string
KeyP == <<107, 112>>                                   \* "kp": in the table, no slots, a literal percent sign in its text
Lang == <<
  [key |-> KeyN(0), tpl |-> <<Lit(<<104, 101, 108, 108, 111>>)>>],                                                     \* hello
  [key |-> KeyN(1), tpl |-> <<Lit(<<49, 48, 48, 37, 32, 111, 102, 32>>), Arg(1), Lit(<<32, 106, 111, 105, 110, 101, 100>>)>>],  \* 100% of %s joined
  [key |-> KeyN(2), tpl |-> <<Lit(<<60>>), Arg(1), Lit(<<62, 32>>), Arg(2)>>],                                          \* <%s> %s
  [key |-> KeyN(3), tpl |-> <<Arg(1), Lit(<<47>>), Arg(2), Lit(<<32>>), Arg(3)>>],                                      \* %s/%s %s
  [key |-> KeyN(4), tpl |-> <<Arg(1), Lit(<<44, 32>>), Arg(2), Lit(<<44, 32>>), Arg(3), Lit(<<44, 32>>), Arg(4)>>],
  [key |-> KeyN(5), tpl |-> <<Lit(<<91>>), Arg(1), Arg(2), Lit(<<45>>), Arg(3), Lit(<<45>>), Arg(4), Arg(5), Lit(<<93>>)>>],
  [key |-> KeyR, tpl |-> <<Arg(2), Lit(<<32, 98, 121, 32>>), Arg(1)>>],
  [key |-> KeyE, tpl |-> <<>>],
  [key |-> KeyP, tpl |-> <<Lit(<<53, 48, 37, 32, 111, 102, 102>>)>>] >>                                                \* 50% off                                               \* %[2]s by %[1]s
Known(k) == \E i \in 1..Len(Lang) : Lang[i].key = k
Tpl(k) == Lang[CHOOSE i \in 1..Len(Lang) : Lang[i].key = k].tpl
Slots(k) == IF Known(k) THEN Cardinality({Tpl(k)[i].arg : i \in 1..Len(Tpl(k))} \ {0}) ELSE 0
\* mode: what an unknown key renders as - the key itself ("key", what the game does) or nothing ("empty")
RECURSIVE Plain(_, _)
Plain(c, mode) ==
  Strip(c.text)
  \o (IF c.translate = <<>> THEN <<>>
      ELSE IF Known(c.translate)
           THEN LET t == Tpl(c.translate)  a == [i \in 1..Len(c.with) |-> Plain(c.with[i], mode)] IN
                FlattenSeq([i \in 1..Len(t) |-> IF t[i].arg = 0 THEN t[i].lit ELSE a[t[i].arg]])
           ELSE IF mode = "key" THEN c.translate ELSE <<>>)
  \o FlattenSeq([i \in 1..Len(c.extra) |-> Plain(c.extra[i], mode)])
\* rendering is decided only when every known key gets exactly as many arguments as it has slots
RECURSIVE Renderable(_)
Renderable(c) == /\ (c.translate # <<>> /\ Known(c.translate)) => Len(c.with) = Slots(c.translate)
                 /\ \A i \in 1..Len(c.with) : Renderable(c.with[i])
                 /\ \A i \in 1..Len(c.extra) : Renderable(c.extra[i])

\* ---------------------------------------------------------------- chat-type header
\* [id |-> 0 .. 2^28-1, sender |-> component, target |-> <<>> or <<component>>]
RECURSIVE VarInt(_)
VarInt(n) == IF n < 128 THEN <<n>> ELSE <<128 + (n % 128)>> \o VarInt(n \div 128)
HdrBytes(h) == VarInt(h.id) \o N!EncDoc("network", <<>>, ToNBT(h.sender))
               \o (IF h.target = <<>> THEN <<0>> ELSE <<1>> \o N!EncDoc("network", <<>>, ToNBT(h.target[1])))
\* reader over bytes
RECURSIVE DecVarInt(_, _, _, _)
DecVarInt(b, p, k, acc) ==       \* k-th byte (0-based), at most 4 bytes (ids below 2^28)
  IF p > Len(b) \/ k > 3 THEN [ok |-> FALSE, v |-> 0, p |-> p]
  ELSE LET v == acc + (b[p] % 128) * (128 ^ k) IN
       IF b[p] < 128 THEN [ok |-> TRUE, v |-> v, p |-> p + 1] ELSE DecVarInt(b, p + 1, k + 1, v)
DocAt(b, p) == N!DecDoc("network", SubSeq(b, p, Len(b)))
DecHdr(b) ==
  LET bad == [ok |-> FALSE, id |-> 0, sender |-> [t |-> 0], has |-> FALSE, target |-> [t |-> 0], n |-> 0]
      i == DecVarInt(b, 1, 0, 0) IN
  IF ~i.ok THEN bad
  ELSE LET s == DocAt(b, i.p) IN
       IF ~s.ok \/ i.p + s.n > Len(b) THEN bad
       ELSE LET q == i.p + s.n IN
            IF b[q] = 0 THEN [ok |-> TRUE, id |-> i.v, sender |-> s.tree, has |-> FALSE, target |-> [t |-> 0], n |-> q]
            ELSE IF b[q] # 1 THEN bad
            ELSE LET t == DocAt(b, q + 1) IN
                 IF ~t.ok THEN bad
                 ELSE [ok |-> TRUE, id |-> i.v, sender |-> s.tree, has |-> TRUE, target |-> t.tree, n |-> q + t.n]

\* ---------------------------------------------------------------- bounded universe of components
T0 == <<>>
Tp == <<97, 98>>                         \* ab
Tq == <<97, 34, 92, 98>>                 \* a"\b   (double quote, backslash)
Tc == <<194, 167, 99, 120>>              \* section sign + colour code c, then x
Tl == <<120, 194, 167, 108, 121>>        \* x, section sign + style code l, y
Tn == <<194, 167, 122, 120>>             \* section sign + z : not a code
Tpc == <<53, 37, 32, 37, 115>>           \* 5% %s
Tk == <<194, 167, 107, 120>>             \* section sign + k (obfuscated)
Tu == <<194, 167, 67, 120>>              \* section sign + upper-case C
Toks == <<T0, Tp, Tq, Tc, Tl, Tn, Tpc, Tk, Tu>>
TxtP == Txt(Tp)
Take(K, off, n) == [i \in 1..n |-> K[((off + i - 1) % Len(K)) + 1]]
FontV == <<<<117, 110, 105>>, Tq, Tc>>
ColorV == <<<<114, 101, 100>>, <<35, 48, 97, 48, 98, 48, 99>>, Tp>>          \* red, #0a0b0c, ab (not a colour name)
InsV == <<Tp, Tq, Tc>>
aShowText == <<115, 104, 111, 119, 95, 116, 101, 120, 116>>
aOpenUrl == <<111, 112, 101, 110, 95, 117, 114, 108>>
ClickV == <<[action |-> aOpenUrl, value |-> Tq], [action |-> <<>>, value |-> <<>>], [action |-> Tp, value |-> Tpc]>>
NumKids == <<Txt(DecText(1)), Txt(DecText(37)), Txt(DecText(-5)), Txt(DecText(127)), Txt(DecText(-128))>>
\* translate variants: 1..6 -> k0..k5 with that many arguments; 7 -> kr; 8 -> unknown key, no arguments;
\* 9 -> unknown key, one argument; 10 -> k2 with numeric arguments; 11 -> k3 with numeric arguments;
\* 12 -> a known key with an empty translation
TransV(c, v, K) ==
  CASE v \in 1..6 -> [c EXCEPT !.translate = KeyN(v - 1), !.with = Take(K, v, v - 1)]
    [] v = 7 -> [c EXCEPT !.translate = KeyR, !.with = Take(K, 1, 2)]
    [] v = 8 -> [c EXCEPT !.translate = KeyU]
    [] v = 9 -> [c EXCEPT !.translate = KeyU, !.with = Take(K, 2, 1)]
    [] v = 10 -> [c EXCEPT !.translate = KeyN(2), !.with = Take(NumKids, 0, 2)]
    [] v = 11 -> [c EXCEPT !.translate = KeyN(3), !.with = Take(NumKids, 2, 3)]
    [] v = 12 -> [c EXCEPT !.translate = KeyE]            \* a known key whose translation is empty: renders as nothing
    [] v = 13 -> [c EXCEPT !.translate = KeyP]            \* no slots, but a percent sign that the format string escapes
NVar(f) == CASE f \in 1..5 -> 1 [] f \in 6..9 -> 3 [] f = 10 -> 4 [] f = 11 -> 13 [] f = 12 -> 4 [] f = 13 -> Len(Toks)
\* feature f in variant v applied to c, children drawn from the sequence K
F(c, f, v, K) ==
  CASE f = 1 -> [c EXCEPT !.bold = TRUE]
    [] f = 2 -> [c EXCEPT !.italic = TRUE]
    [] f = 3 -> [c EXCEPT !.underlined = TRUE]
    [] f = 4 -> [c EXCEPT !.strikethrough = TRUE]
    [] f = 5 -> [c EXCEPT !.obfuscated = TRUE]
    [] f = 6 -> [c EXCEPT !.font = FontV[v]]
    [] f = 7 -> [c EXCEPT !.color = ColorV[v]]
    [] f = 8 -> [c EXCEPT !.insertion = InsV[v]]
    [] f = 9 -> [c EXCEPT !.click = <<ClickV[v]>>]
    [] f = 10 -> [c EXCEPT !.hover = <<[action |-> aShowText, contents |-> IF v % 2 = 1 THEN <<Tp>> ELSE <<>>, value |-> K[(v % Len(K)) + 1]]>>]
    [] f = 11 -> TransV(c, v, K)
    [] f = 12 -> [c EXCEPT !.extra = Take(K, v, 1 + (v % 3))]
    [] f = 13 -> [c EXCEPT !.text = Toks[v]]
NF == 13
Singles(K) == UNION {{F(TxtP, f, v, K) : v \in 1..NVar(f)} : f \in 1..NF}
              \cup {F(Txt(T0), 11, v, K) : v \in 1..NVar(11)}                         \* translate shape without text
              \cup {F(Txt(T0), 12, v, K) : v \in 1..NVar(12)}                         \* nothing but extras (the list shape)
Pairs(K) == UNION {UNION {{F(F(TxtP, f, 1 + ((g + r) % NVar(f)), K), g, 1 + ((f + r) % NVar(g)), K) : r \in 0..2} : g \in (f + 1)..NF} : f \in 1..(NF - 1)}
AllOn(K) == LET RECURSIVE go(_, _) go(c, f) == IF f > 12 THEN c ELSE go(F(c, f, 1 + (f % NVar(f)), K), f + 1) IN {go(TxtP, 1), go(Txt(T0), 1)}
Level(K) == Singles(K) \cup Pairs(K) \cup AllOn(K)
Kids0 == <<Txt(Tp), Txt(Tc), Txt(T0), Txt(Tq), Txt(Tpc), Txt(Tn), Txt(Tk), Txt(Tu), Txt(Tl)>>
\* representatives of a level that become the children of the next one
Reps(K) == << F(F(TxtP, 1, 1, K), 7, 1, K),              \* bold red text
              F(Txt(T0), 11, 3, K),                      \* k2 with two arguments, no text
              F(TxtP, 12, 2, K),                         \* text with three extras
              F(Txt(Tc), 9, 1, K),                       \* click event
              F(TxtP, 10, 1, K),                         \* hover event with string contents
              F(F(Txt(Tq), 2, 1, K), 8, 2, K),           \* italic, insertion
              F(Txt(T0), 11, 7, K),                      \* kr
              Txt(Tl) >>
RECURSIVE KidsAt(_)
KidsAt(d) == IF d = 0 THEN Kids0 ELSE Reps(KidsAt(d - 1))
Universe == {Txt(Toks[i]) : i \in 1..Len(Toks)} \cup UNION {Level(KidsAt(d - 1)) : d \in 1..Depth}

\* ---------------------------------------------------------------- other accepted input shapes of the same component
AllBare(s) == s # <<>> /\ \A i \in 1..Len(s) : Bare(s[i])
RECURSIVE ParseDec(_)
ParseDec(s) == IF s[1] = 45 THEN 0 - ParseDec(Tail(s)) ELSE IF Len(s) = 1 THEN s[1] - 48 ELSE 10 * ParseDec(SubSeq(s, 1, Len(s) - 1)) + (s[Len(s)] - 48)
IsNumText(s) == s # <<>> /\ s # <<45>> /\ Len(s) <= 4 /\ \A i \in 1..Len(s) : (s[i] \in 48..57 \/ (i = 1 /\ s[i] = 45))
                /\ DecText(ParseDec(s)) = s
NumArgs(c) == c.translate # <<>> /\ AllBare(c.with) /\ \A i \in 1..Len(c.with) : IsNumText(c.with[i].text)
Pat(n, w) == \* two's complement big-endian pattern of a small number (|n| < 2^15) in w bytes
  LET m == IF n < 0 THEN n + 65536 ELSE n IN
  [i \in 1..w |-> IF i = w THEN m % 256 ELSE IF i = w - 1 THEN m \div 256 ELSE IF n < 0 THEN 255 ELSE 0]
\* lists whose elements are all bare text become lists of strings
RECURSIVE StrsNBT(_)
StrsNBT(c) ==
  LET lst(s) == IF AllBare(s) THEN [t |-> 9, et |-> 8, v |-> [i \in 1..Len(s) |-> NStr(s[i].text)]]
                ELSE [t |-> 9, et |-> 10, v |-> [i \in 1..Len(s) |-> StrsNBT(s[i])]]
      base == ToNBT([c EXCEPT !.with = <<>>, !.extra = <<>>, !.hover = <<>>]) IN
  [t |-> 10, v |-> base.v
     \o (IF c.hover # <<>> THEN <<Ent(kHover, [t |-> 10, v |-> <<Ent(kValue, IF Bare(c.hover[1].value) THEN NStr(c.hover[1].value.text) ELSE StrsNBT(c.hover[1].value)),
                                                                   Ent(kAction, NStr(c.hover[1].action))>>
                                                                 \o (IF c.hover[1].contents # <<>> THEN <<Ent(kContents, NStr(c.hover[1].contents[1]))>> ELSE <<>>)])>> ELSE <<>>)
     \o (IF c.extra # <<>> THEN <<Ent(kExtra, lst(c.extra))>> ELSE <<>>)
     \o (IF c.with # <<>> THEN <<Ent(kWith, lst(c.with))>> ELSE <<>>)]
RECURSIVE StrsJSON(_)
StrsJSON(c) ==
  LET one(x) == IF Bare(x) THEN JStr(x.text) ELSE StrsJSON(x)
      lst(s) == [j |-> "a", v |-> [i \in 1..Len(s) |-> one(s[i])]]
      base == ToJSON([c EXCEPT !.with = <<>>, !.extra = <<>>, !.hover = <<>>]) IN
  [j |-> "o", v |-> (IF c.extra # <<>> THEN <<Ent(kExtra, lst(c.extra))>> ELSE <<>>)
     \o (IF c.with # <<>> THEN <<Ent(kWith, lst(c.with))>> ELSE <<>>)
     \o (IF c.hover # <<>> THEN <<Ent(kHover, [j |-> "o", v |-> <<Ent(kValue, one(c.hover[1].value)), Ent(kAction, JStr(c.hover[1].action))>>
                                                                 \o (IF c.hover[1].contents # <<>> THEN <<Ent(kContents, JStr(c.hover[1].contents[1]))>> ELSE <<>>)])>> ELSE <<>>)
     \o base.v]
ArrNBT(c, t) ==
  LET base == ToNBT([c EXCEPT !.with = <<>>])
      nums == [i \in 1..Len(c.with) |-> ParseDec(c.with[i].text)] IN
  [t |-> 10, v |-> base.v \o <<Ent(kWith, IF t = 7 THEN [t |-> 7, v |-> [i \in 1..Len(nums) |-> Pat(nums[i], 1)[1]]]
                                          ELSE [t |-> t, v |-> [i \in 1..Len(nums) |-> Pat(nums[i], IF t = 11 THEN 4 ELSE 8)]])>>]
OnlyExtra(c) == c.extra # <<>> /\ c = [Base EXCEPT !.extra = c.extra]
Alts(c) == {"canon"}
           \cup (IF Bare(c) THEN {"bare"} ELSE {})
           \cup (IF OnlyExtra(c) THEN {"list"} ELSE {})
           \cup (IF StrsNBT(c) # ToNBT(c) THEN {"strs"} ELSE {})
           \cup (IF NumArgs(c) /\ \A i \in 1..Len(c.with) : ParseDec(c.with[i].text) \in -128..127 THEN {"arrb"} ELSE {})
           \cup (IF NumArgs(c) THEN {"arri", "arrl"} ELSE {})
AltNBT(c, a) == CASE a = "bare" -> NStr(c.text)
                  [] a = "list" -> IF AllBare(c.extra) THEN [t |-> 9, et |-> 8, v |-> [i \in 1..Len(c.extra) |-> NStr(c.extra[i].text)]]
                                   ELSE [t |-> 9, et |-> 10, v |-> [i \in 1..Len(c.extra) |-> ToNBT(c.extra[i])]]
                  [] a = "strs" -> StrsNBT(c)
                  [] a = "arrb" -> ArrNBT(c, 7)
                  [] a = "arri" -> ArrNBT(c, 11)
                  [] a = "arrl" -> ArrNBT(c, 12)
                  [] OTHER -> ToNBT(c)
AltJSON(c, a) == CASE a = "bare" -> JStr(c.text)
                   [] a = "list" -> [j |-> "a", v |-> [i \in 1..Len(c.extra) |-> IF Bare(c.extra[i]) THEN JStr(c.extra[i].text) ELSE ToJSON(c.extra[i])]]
                   [] a = "strs" -> StrsJSON(c)
                   [] OTHER -> ToJSON(c)

\* ---------------------------------------------------------------- headers
NoHdr == [id |-> 0, sender |-> Base, target |-> <<>>]
HdrIds == {0, 127, 128, 300, 268435455}
HdrComps == {Txt(Tp), Txt(T0), F(F(TxtP, 1, 1, Kids0), 7, 1, Kids0), F(Txt(T0), 11, 3, Kids0), F(TxtP, 12, 2, Kids0), F(Txt(Tc), 9, 1, Kids0),
             F(TxtP, 10, 1, Kids0), F(TxtP, 10, 2, Kids0)}              \* hover with / without contents
Headers == {[id |-> i, sender |-> s, target |-> t] : i \in HdrIds, s \in HdrComps, t \in {<<>>} \cup {<<x>> : x \in HdrComps}}

\* ---------------------------------------------------------------- leg S: the model is checked against itself
VARIABLES comp, alt, hd
vars == <<comp, alt, hd>>
Init == \/ comp \in Universe /\ alt \in Alts(comp) /\ hd = NoHdr
        \/ comp = Base /\ alt = "hdr" /\ hd \in Headers
Next == UNCHANGED vars
Spec == Init /\ [][Next]_vars
Junk == <<10, 0, 9>>
RoundNBT == FromNBT(ToNBT(comp)) = comp
RoundJSON == FromJSON(ToJSON(comp)) = comp
Agree == FromNBT(ToNBT(comp)) = FromJSON(ToJSON(comp))
WireNBT == LET b == N!EncDoc("network", <<>>, ToNBT(comp))  d == N!DecDoc("network", b \o Junk) IN
           d.ok /\ d.n = Len(b) /\ d.tree.t = 10 /\ N!Same(d.tree, ToNBT(comp)) /\ FromNBT(d.tree) = comp
AltOK == alt # "hdr" => FromNBT(AltNBT(comp, alt)) = comp /\ FromJSON(AltJSON(comp, alt)) = comp
\* Expand is the identity on canonical forms and maps the all-strings spelling onto them
ExpandOK == /\ ExpandN(ToNBT(comp)) = ToNBT(comp) /\ ExpandJ(ToJSON(comp)) = ToJSON(comp)
            /\ (alt = "strs" => N!Same(ExpandN(AltNBT(comp, alt)), ToNBT(comp)) /\ SameJ(ExpandJ(AltJSON(comp, alt)), ToJSON(comp)))
HdrOK == alt = "hdr" => LET b == HdrBytes(hd)  d == DecHdr(b \o Junk) IN
                        /\ d.ok /\ d.n = Len(b) /\ d.id = hd.id /\ FromNBT(d.sender) = hd.sender
                        /\ d.has = (hd.target # <<>>) /\ (d.has => FromNBT(d.target) = hd.target[1])
                        /\ \A k \in 0..(Len(b) - 1) : ~DecHdr(SubSeq(b, 1, k)).ok
PlainOK == /\ Renderable(comp) /\ NoCode(Plain(comp, "key")) /\ NoCode(Plain(comp, "empty"))
           /\ (Bare(comp) => Plain(comp, "key") = Strip(comp.text))
Emit == EmitJson => PrintT(ToJson(IF alt = "hdr" THEN [kind |-> "hdr", hd |-> hd, bytes |-> HdrBytes(hd)]
                                  ELSE [kind |-> "comp", c |-> comp, alt |-> alt, nbt |-> AltNBT(comp, alt), json |-> AltJSON(comp, alt), plain |-> Plain(comp, "key")]))
ASSUME EmitJson => PrintT(ToJson([kind |-> "lang", lang |-> Lang]))
=============================================================================
