-------------------------------- MODULE BVH --------------------------------
(* X05 (a): server/internal/bvh - Tree[I, B, V] with AABB bounds in two dimensions (bvh.go, bound.go, vector.go).  *)
(*                                                                                                                 *)
(* ABSTRACT state `leaves`: a finite set of <<handle, box, value>>; the handle is the identity of the *Node that   *)
(* Insert returned.  Insert(b, v) adds one triple with a fresh handle, Delete(h) removes exactly the triple of h,  *)
(* Find(test) answers exactly the triples whose box satisfies the test, each once.                                 *)
(*                                                                                                                 *)
(* CONCRETE state `tree` = [r |-> root id or 0, n |-> tuple of nodes], a node is the 9-tuple                       *)
(*   <<kind, parent, child0, child1, lx, ly, ux, uy, value>>   kind 0 = no node, 1 = leaf, 2 = inner; 0 = nil      *)
(* exactly what the harness projects from the real objects (ids = pointer identities, smallest free id first).     *)
(* One operator per critical section of bvh.go, written as the code is written:                                    *)
(*   InsertAt  = Insert stage 2 (new parent in the sibling's slot) + stage 3 (refit and rotate up to the root);     *)
(*               stage 1 (branch and bound over a heap) is specified by its RESULT: the sibling minimises           *)
(*               Cost = Surface(sibling + leaf) + sum over the proper ancestors of the growth of their Surface;     *)
(*               which of several minimal siblings is taken is left open (heap order) - with AnySibling = TRUE     *)
(*               every node may be taken, so the invariants below are proved for every choice;                     *)
(*   DeleteAt  = Delete: the sibling takes the parent's slot, refit and rotate from the grandparent upwards -      *)
(*               the loop of the code stops in front of the root (`p.parent != nil`), so the root's bound is not    *)
(*               refitted: modelled as written (RefitRootOnDelete = FALSE); Tight is therefore NOT an invariant of  *)
(*               the code (BVH_MC_tight.cfg is expected to fail), Contains is;                                      *)
(*   Rotate    = rotate: swap the sibling of n with n's child 0 if child1 + sibling has a smaller Surface than n,  *)
(*               else with child 1 if child0 + sibling has; the children ORDER is kept as the code leaves it.       *)
(*   FindSeq   = Node.each: depth first, child 0 first, the test is applied to leaves only (inner bounds are never  *)
(*               consulted by the code), the callback may stop the walk.                                           *)
(* Bug = 1: rotate leaves the parent pointer of the child it moves up; 2: Insert refits the new parent only;      *)
(* 3: Delete leaves the sibling's parent pointer - TLC must reject each (BVH_MC_bug1..3.cfg).                       *)
(* Deliberate deviations: numbers are integers (the harness uses float64 values that are small integers, every      *)
(* operation on them is exact); a deleted node is simply absent (the code leaves its fields as they were).          *)
EXTENDS Integers, Sequences, FiniteSets, TLC

CONSTANTS Boxes,              \* boxes Insert may be given, <<lx, ly, ux, uy>> with lx <= ux, ly <= uy
          Vals,               \* leaf values
          MaxLeaves,          \* bound on the number of leaves (model checking only)
          AnySibling,         \* TRUE: Insert pairs the new leaf with any node; FALSE: with a cost-minimal one
          RefitRootOnDelete,  \* FALSE = bvh.go as written
          Bug                 \* 0 = as written; 1.. = deliberately broken variants (vacuity guard)

VARIABLES tree, leaves
vars == <<tree, leaves>>

N == 2 * MaxLeaves - 1
Absent == <<0, 0, 0, 0, 0, 0, 0, 0, 0>>

Tup(f) == f \o <<>>        \* an explicit tuple (TLC keeps [i \in S |-> e] as an unevaluated function otherwise)
Min2(a, b) == IF a < b THEN a ELSE b
Max2(a, b) == IF a > b THEN a ELSE b

(* ----------------------------------------------------------------------------------------- bounds (bound.go) *)
Union(a, b)   == <<Min2(a[1], b[1]), Min2(a[2], b[2]), Max2(a[3], b[3]), Max2(a[4], b[4])>>
Surface(a)    == ((a[3] - a[1]) + (a[4] - a[2])) * 2
Inside(a, b)  == a[1] <= b[1] /\ a[2] <= b[2] /\ b[3] <= a[3] /\ b[4] <= a[4]          \* b lies in a
WithIn(a, p)  == a[1] < p[1] /\ a[2] < p[2] /\ p[1] < a[3] /\ p[2] < a[4]              \* open box
Touch(a, b)   == a[1] < b[3] /\ a[2] < b[4] /\ b[1] < a[3] /\ b[2] < a[4]              \* open boxes overlap
(* a test: <<"pt", <<x, y>>>> = TouchPoint, <<"bd", box>> = TouchBound, <<"all", <<>>>> = a test that is always true *)
Sat(t, b) == CASE t[1] = "pt" -> WithIn(b, t[2]) [] t[1] = "bd" -> Touch(b, t[2]) [] OTHER -> TRUE

(* ----------------------------------------------------------------------------------------- trees *)
Nd(T, i)    == T.n[i]
Valid(T, i) == i \in DOMAIN T.n /\ T.n[i][1] # 0
Ids(T)      == {i \in DOMAIN T.n : T.n[i][1] # 0}
IsLeaf(T, i)  == T.n[i][1] = 1
IsInner(T, i) == T.n[i][1] = 2
Par(T, i)   == T.n[i][2]
C0(T, i)    == T.n[i][3]
C1(T, i)    == T.n[i][4]
BoxOf(T, i) == <<T.n[i][5], T.n[i][6], T.n[i][7], T.n[i][8]>>
ValOf(T, i) == T.n[i][9]
Kids(T, i)  == IF IsInner(T, i) THEN {C0(T, i), C1(T, i)} ELSE {}
Other(T, p, i) == IF C0(T, p) = i THEN C1(T, p) ELSE C0(T, p)          \* findAnotherChild (total)
Fuel(T) == Len(T.n) + 1

RECURSIVE ReachFrom(_, _, _)
ReachFrom(T, S, fuel) ==
  LET S2 == S \cup {c \in UNION {Kids(T, i) : i \in S} : Valid(T, c)} IN
  IF fuel = 0 \/ S2 = S THEN S ELSE ReachFrom(T, S2, fuel - 1)
Reach(T) == IF Valid(T, T.r) THEN ReachFrom(T, {T.r}, Fuel(T)) ELSE {}

(* proper binary tree: every inner node has two different existing children, a leaf has none *)
Binary(T) == \A i \in Ids(T) :
               IF IsLeaf(T, i) THEN C0(T, i) = 0 /\ C1(T, i) = 0
               ELSE C0(T, i) # C1(T, i) /\ Valid(T, C0(T, i)) /\ Valid(T, C1(T, i))
(* parent pointers are the inverse of the child pointers, the root has no parent *)
Parents(T) == /\ (T.r # 0 => Valid(T, T.r) /\ Par(T, T.r) = 0)
              /\ \A i \in Ids(T) : \A c \in Kids(T, i) : Valid(T, c) => Par(T, c) = i
              /\ \A i \in Ids(T) : i # T.r => /\ Valid(T, Par(T, i)) /\ i \in Kids(T, Par(T, i))
(* every node hangs under the root (no lost subtree, no detached cycle) *)
Connected(T) == Reach(T) = Ids(T)
(* every inner bound contains the bounds of both children *)
Contains(T) == \A i \in Ids(T) : IsInner(T, i) /\ Valid(T, C0(T, i)) /\ Valid(T, C1(T, i)) =>
                  Inside(BoxOf(T, i), BoxOf(T, C0(T, i))) /\ Inside(BoxOf(T, i), BoxOf(T, C1(T, i)))
(* ... and is no larger than needed *)
Tight(T) == \A i \in Ids(T) : IsInner(T, i) /\ Valid(T, C0(T, i)) /\ Valid(T, C1(T, i)) =>
                  BoxOf(T, i) = Union(BoxOf(T, C0(T, i)), BoxOf(T, C1(T, i)))
LeafSet(T) == {<<i, BoxOf(T, i), ValOf(T, i)>> : i \in {j \in Reach(T) : IsLeaf(T, j)}}

(* Node.each: the leaves in the order the walk meets them *)
RECURSIVE Walk(_, _, _)
Walk(T, i, fuel) == IF fuel = 0 \/ ~Valid(T, i) THEN <<>>
                    ELSE IF IsLeaf(T, i) THEN <<i>>
                    ELSE Walk(T, C0(T, i), fuel - 1) \o Walk(T, C1(T, i), fuel - 1)
Take(s, k) == IF k <= 0 \/ k >= Len(s) THEN s ELSE SubSeq(s, 1, k)
(* Find(test, callback that answers false at its stop-th call; stop = 0: never) as <<id, box, value>> triples *)
FindSeq(T, t, stop) ==
  LET hit(i) == Sat(t, BoxOf(T, i))
      ids == Take(SelectSeq(Walk(T, T.r, Fuel(T)), hit), stop)
  IN Tup([j \in 1..Len(ids) |-> <<ids[j], BoxOf(T, ids[j]), ValOf(T, ids[j])>>])
FindAbs(L, t) == {l \in L : Sat(t, l[2])}
Range(s) == {s[j] : j \in 1..Len(s)}
NoDupSeq(s) == \A i, j \in 1..Len(s) : i # j => s[i] # s[j]

(* ----------------------------------------------------------------------------------------- Insert stage 1 *)
Delta(T, a, b) == Surface(Union(BoxOf(T, a), b)) - Surface(BoxOf(T, a))
RECURSIVE AncCost(_, _, _, _)
AncCost(T, a, b, fuel) == IF a = 0 \/ fuel = 0 \/ ~Valid(T, a) THEN 0 ELSE Delta(T, a, b) + AncCost(T, Par(T, a), b, fuel - 1)
Cost(T, s, b) == Surface(Union(BoxOf(T, s), b)) + AncCost(T, Par(T, s), b, Fuel(T))
Best(T, b) == LET ids == Ids(T)  c == [s \in ids |-> Cost(T, s, b)] IN {s \in ids : \A u \in ids : c[s] <= c[u]}

(* ----------------------------------------------------------------------------------------- tree surgery *)
SetN(T, f) == [T EXCEPT !.n = Tup([i \in DOMAIN T.n |-> IF i \in DOMAIN f THEN f[i] ELSE T.n[i]])]
WithPar(x, p)      == <<x[1], p, x[3], x[4], x[5], x[6], x[7], x[8], x[9]>>
WithKids(x, a, b)  == <<x[1], x[2], a, b, x[5], x[6], x[7], x[8], x[9]>>
WithBox(x, b)      == <<x[1], x[2], x[3], x[4], b[1], b[2], b[3], b[4], x[9]>>
ReplKid(x, old, new) == IF x[3] = old THEN WithKids(x, new, x[4]) ELSE WithKids(x, x[3], new)   \* findChildPointer
KidsBox(T, i) == Union(BoxOf(T, C0(T, i)), BoxOf(T, C1(T, i)))

(* rotate(n) of bvh.go *)
Rotate(T, i) ==
  IF ~IsInner(T, i) \/ Par(T, i) = 0 THEN T ELSE
  LET p == Par(T, i)  sib == Other(T, p, i)  a == C0(T, i)  b == C1(T, i)  cur == Surface(BoxOf(T, i))
      Swap(moved, kept) ==      \* `moved` goes up to p, the sibling comes down next to `kept`
        SetN(T, (p :> WithKids(Nd(T, p), i, moved)) @@
                (i :> WithBox(WithKids(Nd(T, i), sib, kept), Union(BoxOf(T, sib), BoxOf(T, kept)))) @@
                (moved :> IF Bug = 1 THEN Nd(T, moved) ELSE WithPar(Nd(T, moved), p)) @@
                (sib :> WithPar(Nd(T, sib), i)))
  IN IF Surface(Union(BoxOf(T, b), BoxOf(T, sib))) < cur THEN Swap(a, b)
     ELSE IF Surface(Union(BoxOf(T, a), BoxOf(T, sib))) < cur THEN Swap(b, a)
     ELSE T

(* `for p := start; p != nil; p = p.parent { refit p; rotate p }` (Insert) and the same loop with the test *)
(* `p.parent != nil` (Delete: the root is neither refitted nor rotated)                                    *)
RECURSIVE RefitUp(_, _, _, _)
RefitUp(T, p, withRoot, fuel) ==
  IF p = 0 \/ fuel = 0 \/ (~withRoot /\ Par(T, p) = 0) THEN T
  ELSE LET T1 == SetN(T, p :> WithBox(Nd(T, p), KidsBox(T, p)))
           T2 == Rotate(T1, p)
       IN RefitUp(T2, Par(T2, p), withRoot, fuel - 1)

Grow(T, m) == [T EXCEPT !.n = Tup([i \in 1..Max2(Len(T.n), m) |-> IF i \in DOMAIN T.n THEN T.n[i] ELSE Absent])]

(* Insert(b, v) with the sibling s found by stage 1; nl, np = ids of the new leaf and the new inner node *)
InsertAt(T0, s, b, v, nl, np) ==
  LET T == Grow(T0, Max2(nl, np)) IN
  IF T.r = 0 THEN [r |-> nl, n |-> [T.n EXCEPT ![nl] = <<1, 0, 0, 0, b[1], b[2], b[3], b[4], v>>]]
  ELSE
  LET sp == Par(T, s)
      ub == Union(BoxOf(T, s), b)
      T1 == SetN(T, (nl :> <<1, np, 0, 0, b[1], b[2], b[3], b[4], v>>) @@
                    (np :> <<2, sp, s, nl, ub[1], ub[2], ub[3], ub[4], 0>>) @@
                    (s  :> WithPar(Nd(T, s), np)) @@
                    (IF sp = 0 THEN <<>> ELSE (sp :> ReplKid(Nd(T, sp), s, np))))
      T2 == IF sp = 0 THEN [T1 EXCEPT !.r = np] ELSE T1
  IN IF Bug = 2 THEN RefitUp(T2, np, TRUE, 1)          \* broken: only the new parent is refitted
     ELSE RefitUp(T2, np, TRUE, Fuel(T2))

(* Delete(h) *)
DeleteAt(T, h) ==
  LET p == Par(T, h) IN
  IF p = 0 THEN [r |-> 0, n |-> [T.n EXCEPT ![h] = Absent]]
  ELSE
  LET sib == Other(T, p, h)
      g   == Par(T, p)
  IN IF g = 0
     THEN [r |-> sib, n |-> [T.n EXCEPT ![h] = Absent, ![p] = Absent, ![sib] = WithPar(Nd(T, sib), 0)]]
     ELSE LET T1 == [T EXCEPT !.n = [T.n EXCEPT ![h] = Absent, ![p] = Absent,
                                              ![g] = ReplKid(Nd(T, g), p, sib),
                                              ![sib] = IF Bug = 3 THEN Nd(T, sib) ELSE WithPar(Nd(T, sib), g)]]
          IN RefitUp(T1, g, RefitRootOnDelete, Fuel(T1))

(* ids are handed out smallest free first (the harness numbers the real nodes the same way) *)
FreeIds(T) == {i \in DOMAIN T.n : T.n[i][1] = 0}
MinOf(S) == CHOOSE x \in S : \A y \in S : x <= y
NewLeafId(T) == IF FreeIds(T) = {} THEN Len(T.n) + 1 ELSE MinOf(FreeIds(T))
NewParId(T)  == LET f == FreeIds(T) \ {NewLeafId(T)} IN
                IF f = {} THEN Max2(Len(T.n), NewLeafId(T)) + 1 ELSE MinOf(f)

(* ----------------------------------------------------------------------------------------- the machine *)
Init == /\ tree = [r |-> 0, n |-> Tup([i \in 1..N |-> Absent])]
        /\ leaves = {}

Siblings(T, b) == IF AnySibling THEN Ids(T) ELSE Best(T, b)

Insert(b, v, s) ==
  /\ Cardinality(leaves) < MaxLeaves
  /\ LET nl == NewLeafId(tree)  np == NewParId(tree) IN
     /\ tree' = InsertAt(tree, s, b, v, nl, np)
     /\ leaves' = leaves \cup {<<nl, b, v>>}

Delete(h) ==
  /\ \E l \in leaves : l[1] = h
  /\ tree' = DeleteAt(tree, h)
  /\ leaves' = {l \in leaves : l[1] # h}

Next == \/ \E b \in Boxes, v \in Vals :
             IF tree.r = 0 THEN Insert(b, v, 0) ELSE \E s \in Siblings(tree, b) : Insert(b, v, s)
        \/ \E l \in leaves : Delete(l[1])
Spec == Init /\ [][Next]_vars

(* ----------------------------------------------------------------------------------------- properties *)
TypeOK == /\ tree.r \in 0..N /\ Len(tree.n) = N
          /\ \A i \in 1..N : tree.n[i][1] \in 0..2
InvBinary    == Binary(tree)
InvParents   == Parents(tree)
InvConnected == Connected(tree)
InvContains  == Contains(tree)
InvTight     == Tight(tree)
(* the tree holds exactly the abstract leaves: nothing lost, nothing kept, handles stay valid *)
Refines      == LeafSet(tree) = leaves
InnerCount   == Cardinality(Ids(tree)) = IF leaves = {} THEN 0 ELSE 2 * Cardinality(leaves) - 1

(* Find answers exactly the leaves whose bound satisfies the test, each once (probe tests of the configuration) *)
CONSTANT Tests
FindExact == \A t \in Tests :
               LET out == FindSeq(tree, t, 0) IN NoDupSeq(out) /\ Range(out) = FindAbs(leaves, t)
(* a walk stopped by the callback after k answers gives k of them (or all if there are fewer) *)
FindStops == \A t \in Tests : \A k \in 1..2 :
               LET out == FindSeq(tree, t, k)  all == FindAbs(leaves, t) IN
               NoDupSeq(out) /\ Range(out) \subseteq all /\ Len(out) = Min2(k, Cardinality(all))

(* Insert adds exactly one leaf with a fresh handle, Delete removes exactly one; other leaves keep handle, box, value *)
OneLeaf == [][\/ \E l \in leaves' : l \notin leaves /\ leaves' = leaves \cup {l} /\ (\A m \in leaves : m[1] # l[1])
              \/ \E l \in leaves : leaves' = leaves \ {l}]_vars
(* the cost-minimal sibling is never worse than the root (what stage 1 starts with) *)
BestNonEmpty == \A b \in Boxes : tree.r # 0 => Best(tree, b) # {}

(* canonical form: trees that differ in node ids only are the same state *)
RECURSIVE Shape(_, _, _)
Shape(T, i, fuel) == IF fuel = 0 \/ ~Valid(T, i) THEN <<0>>
                     ELSE IF IsLeaf(T, i) THEN <<1, BoxOf(T, i), ValOf(T, i)>>
                     ELSE <<2, BoxOf(T, i), Shape(T, C0(T, i), fuel - 1), Shape(T, C1(T, i), fuel - 1)>>
View == Shape(tree, tree.r, Fuel(tree))

(* ----------------------------------------------------------------------------------------- model-checking constants *)
MC_Boxes  == {<<0, 0, 2, 2>>, <<2, 0, 4, 2>>, <<8, 0, 10, 2>>, <<0, 0, 10, 2>>, <<4, 4, 6, 8>>, <<0, 6, 2, 8>>}
MC_Boxes1 == {<<0, 0, 2, 1>>, <<2, 0, 4, 1>>, <<3, 0, 9, 1>>, <<8, 0, 10, 1>>, <<20, 0, 22, 1>>, <<4, 0, 4, 1>>}   \* one dimension
MC_Boxes1Q == {<<0, 0, 2, 1>>, <<2, 0, 4, 1>>, <<3, 0, 9, 1>>, <<20, 0, 22, 1>>}
MC_BoxesQ == {<<0, 0, 2, 2>>, <<2, 0, 4, 2>>, <<0, 0, 10, 2>>, <<4, 4, 6, 8>>}                   \* quick tier
MC_Boxes5 == {<<0, 0, 2, 2>>, <<2, 0, 4, 2>>, <<0, 0, 10, 2>>, <<4, 4, 6, 8>>}                   \* five leaves
MC_Tests  == {<<"pt", <<1, 1>>>>, <<"pt", <<2, 1>>>>, <<"pt", <<3, 1>>>>, <<"pt", <<5, 5>>>>, <<"pt", <<9, 1>>>>, <<"pt", <<1, 7>>>>,
              <<"bd", <<1, 1, 3, 3>>>>, <<"bd", <<2, 2, 4, 4>>>>, <<"bd", <<0, 0, 10, 8>>>>, <<"bd", <<4, 1, 8, 5>>>>, <<"all", <<>>>>}
=============================================================================
