------------------------------ MODULE Registry ------------------------------
(***************************************************************************)
(* X02 (specification extension): registry.Registry[E] and its network     *)
(* codec (registry.go, network.go).                                        *)
(*                                                                         *)
(* Abstract state: `vals` is the row of entries (the id of an entry is its *)
(* position, 0-based: ids are dense 0..N-1 in insertion order), `keys`     *)
(* maps a key to the id LAST put under it, `tags` maps a tag name to a     *)
(* list of ids.  A second Put under the same key leaves the older entry in *)
(* the row: it keeps its id (GetByID still answers) but no key leads to it *)
(* any more (Stale).  `last` is a history variable: the value last put     *)
(* under a key since the last Clear.                                       *)
(*                                                                         *)
(* Network form (the REGISTRY_DATA packet after the registry name):        *)
(* VarInt count, then per entry Identifier, Boolean hasData, [NBT data];   *)
(* the id of an entry is its position in the packet.  Tags (UPDATE_TAGS):  *)
(* VarInt count, then per tag Identifier, VarInt length, VarInt ids.       *)
(***************************************************************************)
EXTENDS Integers, Sequences, FiniteSets, TLC

CONSTANTS Keys, Vals, Tags,   \* tokens (positive integers)
          MaxN,               \* generator: Put is offered while N < MaxN
          MaxMsg,             \* generator: longest network message (entries / tags / ids per tag)
          MaxOps              \* generator: bound on calls per behaviour (0: unbounded)

NoData == 0                   \* an entry sent without data (the receiver is expected to know it)
Nil == -1                     \* "no entry" answers

VARIABLES vals, keys, tags, last, act, nops
vars == <<vals, keys, tags, last, act, nops>>

N == Len(vals)
InIds(n, id) == id >= 0 /\ id <= n - 1
Bind(f, x, v) == [y \in DOMAIN f \cup {x} |-> IF y = x THEN v ELSE f[y]]
Norm(tg) == [t \in {u \in DOMAIN tg : tg[u] # <<>>} |-> tg[t]]      \* an empty tag and an unbound tag are the same
TagIdsIn(tg, t) == IF t \in DOMAIN tg THEN tg[t] ELSE <<>>
Range(s) == {s[i] : i \in 1..Len(s)}
Stale == {id \in 0..(N - 1) : \A k \in DOMAIN keys : keys[k] # id}

\* ---------------------------------------------------------------- network form
(* entries: <<key, has, val>> ; the registry a message describes (ids = positions) *)
MsgVals(m) == [i \in 1..Len(m) |-> IF m[i][2] THEN m[i][3] ELSE NoData]
MsgKeys(m) == [k \in {m[i][1] : i \in 1..Len(m)} |->
                 (CHOOSE i \in 1..Len(m) : m[i][1] = k /\ \A j \in (i + 1)..Len(m) : m[j][1] # k) - 1]
AllData(m) == \A i \in 1..Len(m) : m[i][2]
(* tag message: <<tag, ids>> ; bound in order, a later binding of the same tag replaces the earlier one *)
RECURSIVE ApplyTags(_, _)
ApplyTags(tg, tm) == IF tm = <<>> THEN tg ELSE ApplyTags(Bind(tg, tm[1][1], tm[1][2]), Tail(tm))
BadAt(n, tm) == LET bad == {i \in 1..Len(tm) : \E j \in 1..Len(tm[i][2]) : ~InIds(n, tm[i][2][j])} IN
                IF bad = {} THEN 0 ELSE CHOOSE i \in bad : \A j \in bad : i <= j
(* the messages that describe the current content (possible when every entry is reachable by a key) *)
KeyOf(id) == CHOOSE k \in DOMAIN keys : keys[k] = id
SelfMsg == [i \in 1..N |-> <<KeyOf(i - 1), TRUE, vals[i]>>]

\* ---------------------------------------------------------------- calls
Act(op, key, val, id, ret, ids, msg, err) ==
  [op |-> op, key |-> key, val |-> val, id |-> id, ret |-> ret, ids |-> ids, msg |-> msg, err |-> err]
Count == IF MaxOps = 0 THEN nops' = 0 ELSE nops < MaxOps /\ nops' = nops + 1

Put(k, v) ==
  /\ Count
  /\ vals' = Append(vals, v) /\ keys' = Bind(keys, k, N) /\ last' = Bind(last, k, v)
  /\ act' = Act("put", k, v, N, v, <<>>, <<>>, FALSE)        \* returns the new id and a reference to the stored value
  /\ UNCHANGED tags

Get(k) ==
  /\ Count
  /\ act' = IF k \in DOMAIN keys THEN Act("get", k, 0, keys[k], vals[keys[k] + 1], <<>>, <<>>, FALSE)
            ELSE Act("get", k, 0, Nil, Nil, <<>>, <<>>, FALSE)
  /\ UNCHANGED <<vals, keys, tags, last>>

GetByID(id) ==
  /\ Count
  /\ act' = Act("byid", 0, 0, id, IF InIds(N, id) THEN vals[id + 1] ELSE Nil, <<>>, <<>>, FALSE)
  /\ UNCHANGED <<vals, keys, tags, last>>

Clear ==
  /\ Count
  /\ vals' = <<>> /\ keys' = <<>> /\ tags' = <<>> /\ last' = <<>>
  /\ act' = Act("clear", 0, 0, Nil, Nil, <<>>, <<>>, FALSE)

ClearTags ==
  /\ Count
  /\ tags' = <<>>
  /\ act' = Act("cleartags", 0, 0, Nil, Nil, <<>>, <<>>, FALSE)
  /\ UNCHANGED <<vals, keys, last>>

Tag(t) ==
  /\ Count
  /\ act' = Act("tag", t, 0, Nil, Nil, TagIdsIn(tags, t), <<>>, FALSE)
  /\ UNCHANGED <<vals, keys, tags, last>>

(* a complete REGISTRY_DATA body replaces the content; tags bound before are gone *)
ReadFrom(m) ==
  /\ Count
  /\ vals' = MsgVals(m) /\ keys' = MsgKeys(m) /\ tags' = <<>>
  /\ last' = [k \in DOMAIN MsgKeys(m) |-> MsgVals(m)[MsgKeys(m)[k] + 1]]
  /\ act' = Act("readfrom", 0, 0, Nil, Nil, <<>>, m, FALSE)

(* an UPDATE_TAGS body for this registry; ids are validated against the current row.  A message with an  *)
(* invalid id is an error; the tags in front of the offending one may (k) or may not have been bound.      *)
ReadTags(tm, k) ==
  LET bad == BadAt(N, tm) IN
  /\ Count
  /\ IF bad = 0 THEN tags' = ApplyTags(tags, tm) /\ k = 0
     ELSE k \in 0..(bad - 1) /\ tags' = ApplyTags(tags, SubSeq(tm, 1, k))
  /\ act' = Act("readtags", 0, 0, Nil, Nil, <<>>, tm, bad # 0)
  /\ UNCHANGED <<vals, keys, last>>

\* ---------------------------------------------------------------- generator shape
SeqsUpTo(S, n) == UNION {[1..k -> S] : k \in 0..n}
Entries == {<<k, TRUE, v>> : k \in Keys, v \in Vals} \cup {<<k, FALSE, 0>> : k \in Keys}
IdLists == {<<>>, <<0>>, <<1, 0>>, <<N - 1>>, <<N>>, <<-1>>, <<0, N>>}      \* valid ones, the boundary, both invalid sides
TagMsgs == SeqsUpTo({<<t, ids>> : t \in Tags, ids \in IdLists}, MaxMsg)

Init == /\ vals = <<>> /\ keys = <<>> /\ tags = <<>> /\ last = <<>> /\ nops = 0
        /\ act = Act("new", 0, 0, Nil, Nil, <<>>, <<>>, FALSE)
Next == \/ \E k \in Keys, v \in Vals : N < MaxN /\ Put(k, v)
        \/ \E k \in Keys : Get(k)
        \/ \E id \in (-1)..(MaxN + 1) : GetByID(id)
        \/ Clear \/ ClearTags
        \/ \E t \in Tags : Tag(t)
        \/ \E m \in SeqsUpTo(Entries, MaxMsg) : ReadFrom(m)
        \/ \E tm \in TagMsgs, k \in 0..MaxMsg : ReadTags(tm, k)
Spec == Init /\ [][Next]_vars
View == <<vals, keys, tags, last>>

\* ---------------------------------------------------------------- properties
TypeOK == /\ vals \in Seq(Vals \cup {NoData})
          /\ DOMAIN keys \subseteq Keys /\ DOMAIN tags \subseteq Tags /\ DOMAIN last = DOMAIN keys
KeysValid == \A k \in DOMAIN keys : InIds(N, keys[k])              \* Get never names an id outside the row
LastPutWins == \A k \in DOMAIN keys : vals[keys[k] + 1] = last[k]  \* Get(key) is the entry last put under that key
KeysInjective == \A j, k \in DOMAIN keys : j # k => keys[j] # keys[k]
TagsValid == \A t \in DOMAIN tags : \A i \in 1..Len(tags[t]) : InIds(N, tags[t][i])   \* tags name existing ids only
(* ids are handed out densely in insertion order, Get after Put answers the new entry, GetByID inverts the id *)
PutRule == [][act'.op = "put" =>
               /\ act'.id = N /\ Len(vals') = N + 1 /\ SubSeq(vals', 1, N) = vals
               /\ keys'[act'.key] = act'.id /\ vals'[act'.id + 1] = act'.val
               /\ \A k \in DOMAIN keys \ {act'.key} : keys'[k] = keys[k]]_vars
ReadOnly == [][act'.op \in {"get", "byid", "tag"} => (vals' = vals /\ keys' = keys /\ tags' = tags)]_vars
ClearRule == [][act'.op = "clear" => (vals' = <<>> /\ keys' = <<>> /\ tags' = <<>>)]_vars
(* a stale entry exists exactly when some key was put twice since the last Clear *)
StaleMeansDuplicate == Cardinality(Stale) = N - Cardinality(DOMAIN keys)
(* the network form round-trips: reading the message that describes the content gives the same row and keys *)
RoundTrip == Stale = {} => (MsgVals(SelfMsg) = vals /\ MsgKeys(SelfMsg) = keys)
=============================================================================
