------------------------- MODULE BotPlayerList_Trace -------------------------
(* Trace validation for X04/BotPlayerList.  Every line is one PlayerInfoUpdate / PlayerInfoRemove packet handed to *)
(* the handlers of a real playerlist.PlayerList (through bot.Client.Events) and the projection of PlayerInfos     *)
(* AFTER it as rows <<uuid, id, name, props, chat, gm, listed, lat, dn>> (tokens; -1 = something the harness did   *)
(* not send).  The state before a packet is the projection on the previous line: every line is an independent     *)
(* initial state l; failed checks are printed as <<"X2FAIL", l, {checks}>>.                                        *)
(* checks:  1 NoPanic  2 Fresh  3 WellFormed  4 NoError (a well-formed packet is accepted)                          *)
(*          5 Update  6 Remove   (packets outside the named class: PlayerInfos as the specification computes it)    *)
(*          7 KeyIsId (state predicate, reported at the step that breaks it)                                        *)
(*          8 UpdateUnknown (an update that names a player who is not listed, without the add-player action:       *)
(*            judged against the intent)   9 AsCoded (.. and if it does not follow the intent, against Step(TRUE))  *)
EXTENDS BotPlayerList, Json

Trace == ndJsonDeserialize("trace.ndjson")
VARIABLE l
tvars == <<vars, l>>
NChecks == 9

Row(r) == [id |-> r[2], name |-> r[3], props |-> r[4], chat |-> r[5], gm |-> r[6], listed |-> r[7], lat |-> r[8], dn |-> r[9]]
StateOf(e) == [u \in {e.players[i][1] : i \in 1..Len(e.players)} |->
                 Row(e.players[CHOOSE i \in 1..Len(e.players) : e.players[i][1] = u])]
PacketOf(e) == P(e.k, e.acts, e.ents, e.ids)
KeyIsIdOn(s) == \A u \in DOMAIN s : s[u].id = u
WellFormedOn(s) == \A u \in DOMAIN s : LET r == s[u] IN
                     u >= 1 /\ r.id >= 0 /\ r.name >= 0 /\ r.props >= 0 /\ r.chat >= 0 /\ r.dn >= 0

Failed ==
  LET ev     == Trace[l]
      hasPre == l > 1 /\ ev.k # "reset"
      post   == StateOf(ev)
      pre    == IF hasPre THEN StateOf(Trace[l - 1]) ELSE post
      p      == PacketOf(ev)
      ok0    == hasPre /\ WellFormedOn(pre) /\ WellFormedOn(post) /\ ~ev.panicked
      obs    == Res(post, ev.err)
      I      == Step(FALSE, pre, p)
      C      == Step(TRUE, pre, p)
      cls    == Class(pre, p)
      Ok(c) ==
        CASE c = 1 -> ev.panicked = FALSE
          [] c = 2 -> ev.k = "reset" => post = <<>>
          [] c = 3 -> WellFormedOn(post)
          [] c = 4 -> ev.err = FALSE
          [] c = 5 -> (ok0 /\ ev.k = "update" /\ cls = "none") => obs = I
          [] c = 6 -> (ok0 /\ ev.k = "remove" /\ cls = "none") => obs = I
          [] c = 7 -> (~hasPre \/ KeyIsIdOn(pre)) => KeyIsIdOn(post)
          [] c = 8 -> (ok0 /\ cls = "UpdateUnknown") => obs = I
          [] c = 9 -> (ok0 /\ cls # "none" /\ obs # I) => obs = C
          [] OTHER -> TRUE
  IN {c \in 1..NChecks : ~Ok(c)}

Check == LET f == Failed IN f = {} \/ PrintT(<<"X2FAIL", l, f>>)
TraceInit == l \in 1..Len(Trace) /\ players = <<>> /\ added = {} /\ act = 0
TraceSpec == TraceInit /\ [][UNCHANGED tvars]_tvars
=============================================================================
