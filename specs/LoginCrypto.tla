---------------------------- MODULE LoginCrypto ----------------------------
(***************************************************************************)
(* Login crypto glue (C18).  MD5, SHA-1 and RSA are NOT specified: their   *)
(* outputs are inputs of this specification.  What is specified is the     *)
(* glue around them:                                                       *)
(*   JavaHex(d)   Java's new BigInteger(d).toString(16) of a digest d read *)
(*                as a signed two's-complement big-endian integer          *)
(*   UUIDv3(m)    the version-3 / RFC 4122-variant bit forcing on an MD5    *)
(*   VerifyGlue   accept <=> the RSA primitive said "valid"                *)
(* Bytes are 0..255, strings are sequences of character codes ("-" = 45,   *)
(* "0".."9" = 48..57, "a".."f" = 97..102), so that they compare directly   *)
(* with the bytes of a Go string.                                          *)
(*                                                                         *)
(* JavaHex is stated three times, independently:                           *)
(*   JavaHex     bytes: invert all bytes, add one with carry from the last *)
(*   JavaHexSub  hex digits: 2^(4n) - value by subtraction with borrow     *)
(*   JavaHexInt  the integer itself (value - 2^(8k) when the top bit is    *)
(*               set), rendered by repeated division; only for k <= 3      *)
(*               because TLC integers are 32-bit                           *)
(* and TLC checks that they agree on the generator's digests.              *)
(***************************************************************************)
EXTENDS Integers, Sequences, FiniteSets, TLC, Json

CONSTANTS Alphabet,   \* boundary bytes of the generator
          ShortMax,   \* all strings over Alphabet of length 1..ShortMax
          LongLen,    \* length of the long digests (20 = SHA-1)
          EndMax,     \* head and tail of a long digest: strings over Alphabet of length 1..EndMax
          MidRuns,    \* 2: middle = x^a y^b ; 3: middle = x^a y^b x^c   (x, y in {00, ff}, x # y)
          EmitJson    \* TRUE: print one JSON vector per rendered digest (leg A)

\* ---------------------------------------------------------------- helpers
MaxOf(S) == CHOOSE x \in S : \A y \in S : y <= x
MinOf(S) == CHOOSE x \in S : \A y \in S : x <= y
Lesser(a, b) == IF a < b THEN a ELSE b

Minus == 45
HexChar(d) == IF d < 10 THEN 48 + d ELSE 87 + d          \* 0..15 -> "0".."9","a".."f"

\* two hex digits per byte, most significant first
Nibbles(b) == [i \in 1..2 * Len(b) |-> IF i % 2 = 1 THEN b[(i + 1) \div 2] \div 16 ELSE b[i \div 2] % 16]

\* hex digits without leading zeros; the single digit 0 for zero
TrimZeros(ds) ==
  LET nz == {i \in 1..Len(ds) : ds[i] # 0}
  IN IF nz = {} THEN <<0>> ELSE SubSeq(ds, MinOf(nz), Len(ds))

Render(neg, ds) ==
  LET t == TrimZeros(ds)
  IN (IF neg THEN <<Minus>> ELSE <<>>) \o [i \in 1..Len(t) |-> HexChar(t[i])]

\* ---------------------------------------------------------------- JavaHex, first formulation (bytes)
IsNeg(dg) == dg[1] >= 128                                 \* sign = top bit of the first byte

Invert(b) == [i \in 1..Len(b) |-> 255 - b[i]]
RECURSIVE IncFrom(_, _)                                   \* add one at byte i, carry towards the first byte
IncFrom(b, i) ==
  IF i = 0 THEN b                                         \* carry out of the first byte is dropped
  ELSE IF b[i] = 255 THEN IncFrom([b EXCEPT ![i] = 0], i - 1)
  ELSE [b EXCEPT ![i] = b[i] + 1]
TwosComplement(b) == IncFrom(Invert(b), Len(b))

Magnitude(dg) == IF IsNeg(dg) THEN TwosComplement(dg) ELSE dg
JavaHex(dg) == Render(IsNeg(dg), Nibbles(Magnitude(dg)))

\* ---------------------------------------------------------------- second formulation (hex digits, 2^(4n) - v)
RECURSIVE SubFromZero(_, _, _)     \* digit-wise 0 - ds with borrow, from the last digit; result modulo 16^Len(ds)
SubFromZero(ds, i, borrow) ==
  IF i = 0 THEN ds
  ELSE LET x == 0 - ds[i] - borrow
       IN IF x < 0 THEN SubFromZero([ds EXCEPT ![i] = x + 16], i - 1, 1)
                   ELSE SubFromZero([ds EXCEPT ![i] = x], i - 1, 0)
JavaHexSub(dg) ==
  LET ds == Nibbles(dg)
  IN IF ds[1] >= 8 THEN Render(TRUE, SubFromZero(ds, Len(ds), 0)) ELSE Render(FALSE, ds)

\* ---------------------------------------------------------------- third formulation (the integer; Len(dg) <= 3)
RECURSIVE NatOf(_, _)
NatOf(b, i) == IF i = 0 THEN 0 ELSE b[i] + 256 * NatOf(b, i - 1)       \* big-endian value of b[1..i]
SignedOf(dg) == LET u == NatOf(dg, Len(dg)) IN IF dg[1] >= 128 THEN u - 256 ^ Len(dg) ELSE u
RECURSIVE HexOfNat(_)
HexOfNat(n) == IF n < 16 THEN <<HexChar(n)>> ELSE Append(HexOfNat(n \div 16), HexChar(n % 16))
JavaHexInt(dg) == LET v == SignedOf(dg) IN IF v < 0 THEN <<Minus>> \o HexOfNat(0 - v) ELSE HexOfNat(v)

\* ---------------------------------------------------------------- UUID version 3
\* 1-based bytes 7 and 9 are Java's data[6] and data[8]
UUIDv3(m) == [m EXCEPT ![7] = (m[7] % 16) + 48, ![9] = (m[9] % 64) + 128]

\* ---------------------------------------------------------------- signature glue
\* the only thing the glue may do with the primitive's verdict is to pass it on
VerifyGlue(rsaValid) == rsaValid

\* ---------------------------------------------------------------- digest classes (steering of leg A)
LeadZeroNibbles(ds) ==
  LET nz == {i \in 1..Len(ds) : ds[i] # 0} IN IF nz = {} THEN Len(ds) ELSE MinOf(nz) - 1
TrailZeroBytes(b) ==
  LET nz == {i \in 1..Len(b) : b[i] # 0} IN IF nz = {} THEN Len(b) ELSE Len(b) - MaxOf(nz)
Edge(dg) ==
  IF Len(dg) < 2 THEN "-"
  ELSE IF dg[1] = 0 /\ dg[2] = 127 THEN "007f"
  ELSE IF dg[1] = 0 /\ dg[2] = 128 THEN "0080"
  ELSE IF dg[1] = 255 /\ dg[2] = 128 THEN "ff80"
  ELSE IF dg[1] = 255 /\ dg[2] = 127 THEN "ff7f"
  ELSE IF dg[1] = 128 THEN "80"
  ELSE IF dg[1] = 127 THEN "7f"
  ELSE IF dg[1] = 255 THEN "ff"
  ELSE IF dg[1] = 0 THEN "00"
  ELSE "-"
ClassOf(dg) == [neg  |-> IsNeg(dg),
                lzn  |-> Lesser(LeadZeroNibbles(Nibbles(Magnitude(dg))), 4),   \* leading zero hex digits of the magnitude
                tzb  |-> Lesser(TrailZeroBytes(dg), 3),                         \* length of the carry chain when negative
                edge |-> Edge(dg)]

\* ---------------------------------------------------------------- published anchors (Java outputs, wiki.vg)
\* sha1("Notch"), sha1("jeb_"), sha1("simon") and the strings Java prints for them
NotchD == <<78,209,244,107,190,4,188,117,107,203,23,192,199,206,62,70,50,240,106,72>>
JebD   == <<131,98,164,255,187,62,207,239,101,162,132,160,74,60,232,63,212,177,215,63>>
SimonD == <<8,142,22,161,1,146,119,177,93,88,250,240,84,30,17,145,14,183,86,246>>
NotchS == <<52,101,100,49,102,52,54,98,98,101,48,52,98,99,55,53,54,98,99,98,49,55,99,48,99,55,99,101,51,101,52,54,51,50,102,48,54,97,52,56>>
JebS   == <<45,55,99,57,100,53,98,48,48,52,52,99,49,51,48,49,48,57,97,53,100,55,98,53,102,98,53,99,51,49,55,99,48,50,98,52,101,50,56,99,49>>
SimonS == <<56,56,101,49,54,97,49,48,49,57,50,55,55,98,49,53,100,53,56,102,97,102,48,53,52,49,101,49,49,57,49,48,101,98,55,53,54,102,54>>
\* md5("OfflinePlayer:Notch") and Notch's offline UUID b50ad385-829d-3141-a216-7e7d7539ba7f
NotchM == <<181,10,211,133,130,157,161,65,162,22,126,125,117,57,186,127>>
NotchU == <<181,10,211,133,130,157,49,65,162,22,126,125,117,57,186,127>>

ASSUME AnchorsHold ==
  /\ JavaHex(NotchD) = NotchS /\ JavaHexSub(NotchD) = NotchS
  /\ JavaHex(JebD) = JebS     /\ JavaHexSub(JebD) = JebS
  /\ JavaHex(SimonD) = SimonS /\ JavaHexSub(SimonD) = SimonS
  /\ UUIDv3(NotchM) = NotchU
  /\ JavaHex(<<0>>) = <<48>> /\ JavaHex(<<0, 0>>) = <<48>>              \* BigInteger.ZERO prints "0"
  /\ JavaHex(<<255>>) = <<Minus, 49>>                                   \* -1
  /\ JavaHex(<<128, 0>>) = <<Minus, 56, 48, 48, 48>>                    \* -8000: the value that is its own complement
  /\ JavaHex(<<255, 0, 0>>) = <<Minus, 49, 48, 48, 48, 48>>             \* -10000: carry through two zero bytes
  /\ JavaHex(<<0, 128>>) = <<56, 48>>                                   \* 80: a leading zero byte is not a sign

\* ---------------------------------------------------------------- generator (state machine)
VARIABLES mode,   \* "hex" | "uuid"
          dg,     \* the digest (input)
          out,    \* rendered result
          st      \* "raw" | "done"
vars == <<mode, dg, out, st>>

Strings(n) == UNION {[1..k -> Alphabet] : k \in 1..n}
Runs2(m) == {[i \in 1..m |-> IF i <= a THEN x ELSE 255 - x] : a \in 0..m, x \in {0, 255}}
Runs3(m) == {[i \in 1..m |-> IF i <= a \/ i > b THEN x ELSE 255 - x] : <<a, b>> \in {p \in (0..m) \X (0..m) : p[1] <= p[2]}, x \in {0, 255}}
Runs(m) == IF MidRuns = 3 THEN Runs3(m) ELSE Runs2(m)
Ends == Strings(EndMax)
IsLong(d) == \E h \in Ends, t \in Ends : \E r \in Runs(LongLen - Len(h) - Len(t)) : d = h \o r \o t
\* all 65536 values of the two bytes UUIDv3 touches, the other bytes distinguishable
UuidIn == {[i \in 1..16 |-> IF i = 7 THEN a ELSE IF i = 9 THEN b ELSE 8 * i + 7] : a \in 0..255, b \in {0, 1, 63, 64, 127, 128, 191, 192, 255}}
          \cup {[i \in 1..16 |-> IF i = 7 THEN a ELSE IF i = 9 THEN b ELSE 255 - i] : a \in {0, 15, 16, 47, 48, 63, 240, 255}, b \in 0..255}

Init == /\ st = "raw" /\ out = <<>>
        /\ \/ mode = "hex" /\ dg \in Strings(ShortMax)
           \/ mode = "hex" /\ IsLong(dg)
           \/ mode = "uuid" /\ dg \in UuidIn
Rend == /\ st = "raw" /\ st' = "done"
        /\ out' = IF mode = "hex" THEN JavaHex(dg) ELSE UUIDv3(dg)
        /\ UNCHANGED <<mode, dg>>
Next == Rend
Spec == Init /\ [][Next]_vars

\* ---------------------------------------------------------------- properties of the specification (leg S)
Done(m) == mode = m /\ st = "done"
IsHexChar(c) == c \in 48..57 \/ c \in 97..102
DigitVal(c) == IF c <= 57 THEN c - 48 ELSE c - 87

Agree    == Done("hex") => out = JavaHexSub(dg)                        \* carry formulation = borrow formulation
AgreeInt == (Done("hex") /\ Len(dg) <= 3) => out = JavaHexInt(dg)      \* = the integer's own rendering
WellFormed == Done("hex") =>
  LET body == IF IsNeg(dg) THEN Tail(out) ELSE out IN
  /\ (out[1] = Minus) <=> IsNeg(dg)
  /\ Len(body) >= 1 /\ \A i \in 1..Len(body) : IsHexChar(body[i])
  /\ Len(body) <= 2 * Len(dg)
  /\ (body[1] = 48 => body = <<48>>)                                   \* no leading zero except "0" itself
  /\ (body = <<48>> => ~IsNeg(dg))                                     \* there is no "-0"
\* reading the printed magnitude back and negating it again gives the digest (the rendering loses nothing)
ReadBack == Done("hex") =>
  LET body == IF IsNeg(dg) THEN Tail(out) ELSE out
      pad  == [i \in 1..2 * Len(dg) - Len(body) |-> 0] \o [i \in 1..Len(body) |-> DigitVal(body[i])]
      mag  == [i \in 1..Len(dg) |-> 16 * pad[2 * i - 1] + pad[2 * i]]
  IN dg = IF IsNeg(dg) THEN TwosComplement(mag) ELSE mag
UuidShape == Done("uuid") =>
  /\ Len(out) = 16
  /\ out[7] \div 16 = 3 /\ out[7] % 16 = dg[7] % 16                    \* version 3, low nibble kept
  /\ out[9] \div 64 = 2 /\ out[9] % 64 = dg[9] % 64                    \* variant 10x, low six bits kept
  /\ \A i \in (1..16) \ {7, 9} : out[i] = dg[i]
  /\ UUIDv3(out) = out                                                 \* idempotent
TypeOK == /\ mode \in {"hex", "uuid"} /\ st \in {"raw", "done"}
          /\ Len(dg) >= 1 /\ \A i \in 1..Len(dg) : dg[i] \in 0..255
          /\ \A i \in 1..Len(out) : out[i] \in 0..255

Emit == (EmitJson /\ Done("hex")) =>
  PrintT(ToJson([dg |-> dg, hex |-> out, neg |-> IsNeg(dg), mag |-> Magnitude(dg), cls |-> ClassOf(dg)]))
=============================================================================
