SPECIFICATION Spec
CONSTANTS
  MaxTotal = 10
  EmitJson = TRUE
INVARIANTS Outcome Emit
PROPERTIES Progress
CHECK_DEADLOCK FALSE
