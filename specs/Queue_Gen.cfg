SPECIFICATION GenSpec
CONSTANTS
  Prod = {1, 2, 3}
  Cons = {11, 12, 13}
  ItemsPer = 3
  SignalOnPush = TRUE
  WithClose = TRUE
CHECK_DEADLOCK FALSE
