------------------------- MODULE LoginCrypto_Trace -------------------------
(* Trace validation for C18.  Every line is one recorded call of the real    *)
(* code; lines are independent, so each line is its own initial state        *)
(* (parallel over TLC workers).                                              *)
(*   digest  sha1 = crypto/sha1(serverID ++ secret ++ key) (trusted input),  *)
(*           bot / server = the strings returned by the two authDigest       *)
(*           copies (character codes), cls = the driver's digest class       *)
(*   uuid    md5 = crypto/md5("OfflinePlayer:" ++ name) (trusted input),     *)
(*           out = the 16 bytes returned by offline.NameToUUID               *)
(*   twos    dg = a negative digest taken from a TLC vector, out = what the  *)
(*           real in-place twosComplement made of it                         *)
(*   sig     rsaValid = verdict of crypto/rsa with the embedded key          *)
(*           (trusted input), accepted = what the real glue returned         *)
(* LoginCrypto_Trace.cfg : the properties as INVARIANTS (a rejected line is   *)
(*   an invariant violation; variable l is the line).                        *)
(* LoginCrypto_Screen.cfg: invariant Screen prints <<"REJ", l, reasons>> for  *)
(*   EVERY line the properties reject and never fails, so that one pass      *)
(*   finds all rejected lines; each class is then re-executed and judged     *)
(*   again with LoginCrypto_Trace.cfg before anything is reported.           *)
EXTENDS LoginCrypto

Trace == ndJsonDeserialize("trace.ndjson")

VARIABLE l
tvars == <<vars, l>>

TraceInit == /\ l \in 1..Len(Trace)
             /\ mode = "hex" /\ dg = <<0>> /\ out = <<>> /\ st = "raw"
TraceSpec == TraceInit /\ [][UNCHANGED tvars]_tvars

IsBytes(s, n) == Len(s) = n /\ \A i \in 1..n : s[i] \in 0..255

\* ------------------------------------------------------------ the property, per event kind
BotOK(e)    == e.bot = JavaHex(e.sha1)
ServerOK(e) == e.server = JavaHex(e.sha1)
UuidOK(e)   == e.out = UUIDv3(e.md5)
SigOK(e)    == /\ e.accepted => VerifyGlue(e.rsaValid)       \* never accepts what the primitive rejects
               /\ (VerifyGlue(e.rsaValid) /\ ~e.expired) => e.accepted   \* ... and accepts what it accepts (genuine
               \* signatures exist only under the harness's own services key; under the embedded key this is vacuous)
TwosOK(e)   == e.out = TwosComplement(e.dg)
\* harness consistency (a failure here is an infrastructure problem, never a violation)
ShapeOK(e)  == CASE e.k = "digest" -> IsBytes(e.sha1, 20)
                 [] e.k = "uuid"   -> IsBytes(e.md5, 16)
                 [] e.k = "twos"   -> Len(e.dg) >= 1 /\ IsBytes(e.dg, Len(e.dg))
                 [] e.k = "sig"    -> e.rsaValid \in BOOLEAN /\ e.accepted \in BOOLEAN /\ e.expired \in BOOLEAN
                 [] OTHER          -> FALSE
MirrorOK(e) == e.k = "digest" => e.cls = ClassOf(e.sha1)     \* the driver's class function agrees with ClassOf

\* ------------------------------------------------------------ as invariants
Shape     == ShapeOK(Trace[l])
DigestBot == (Trace[l].k = "digest" /\ Shape) => BotOK(Trace[l])
DigestSrv == (Trace[l].k = "digest" /\ Shape) => ServerOK(Trace[l])
Uuid      == (Trace[l].k = "uuid" /\ Shape) => UuidOK(Trace[l])
Sig       == (Trace[l].k = "sig" /\ Shape) => SigOK(Trace[l])
Twos      == (Trace[l].k = "twos" /\ Shape) => TwosOK(Trace[l])
Mirror    == Shape => MirrorOK(Trace[l])

\* ------------------------------------------------------------ as a screen over all lines
Reasons(e) ==
  IF ~ShapeOK(e) THEN <<"shape">>
  ELSE (IF e.k = "digest" /\ ~BotOK(e) THEN <<"bot">> ELSE <<>>)
    \o (IF e.k = "digest" /\ ~ServerOK(e) THEN <<"server">> ELSE <<>>)
    \o (IF e.k = "digest" /\ ~MirrorOK(e) THEN <<"mirror">> ELSE <<>>)
    \o (IF e.k = "uuid" /\ ~UuidOK(e) THEN <<"uuid">> ELSE <<>>)
    \o (IF e.k = "sig" /\ ~SigOK(e) THEN <<"sig">> ELSE <<>>)
    \o (IF e.k = "twos" /\ ~TwosOK(e) THEN <<"twos">> ELSE <<>>)
Screen == Reasons(Trace[l]) = <<>> \/ PrintT(<<"REJ", l, Reasons(Trace[l])>>)
=============================================================================
