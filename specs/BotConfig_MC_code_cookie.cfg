SPECIFICATION Spec
CONSTANTS
  Ids = {5}
  Keys = {1}
  Pays = {0, 7}
  Uuids = {}
  RpToks = {}
  StackMax = 0
  KnownRegs = {}
  Regs = {}
  RKeys = {}
  TagToks = {}
  MaxEnt = 0
  MaxSecs = 0
  FeatLists = {}
  PackLists <- MC_PackLists
  DetailLists <- MC_DetailLists
  UnknownIds = {17}
  Handlers <- MC_Handlers
  LateKinds = {"finish", "keepalive", "cookiestore", "disconnect"}
  LateMax = 2
  Variant = "code"
VIEW View
INVARIANTS TypeOK
PROPERTIES NoPanic
CHECK_DEADLOCK FALSE
