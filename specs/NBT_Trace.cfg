SPECIFICATION TraceSpec
CONSTANTS
  Fmts = {}
  EmitJson = FALSE
  Quick = TRUE
INVARIANTS DecOK DecGoOK EncOK CarrierOK
CHECK_DEADLOCK FALSE
