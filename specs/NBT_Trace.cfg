SPECIFICATION TraceSpec
CONSTANTS
  Fmts = {}
  EmitJson = FALSE
  Quick = TRUE
INVARIANTS DecOK DecGoOK EncOK CarrierOK NoAmplify
CHECK_DEADLOCK FALSE
