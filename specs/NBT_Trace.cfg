SPECIFICATION TraceSpec
CONSTANTS
  Fmts = {}
  EmitJson = FALSE
  Quick = TRUE
INVARIANTS DecOK DecGoOK EncOK CarrierOK NoAmplify UsedOK
CHECK_DEADLOCK FALSE
