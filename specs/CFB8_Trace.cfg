SPECIFICATION TraceSpec
CONSTANTS
  BS = 16
  Keys = {}
  IVs = {}
  Msgs = {}
  Lens = {}
  MaxCalls = 0
  EmitJson = FALSE
POSTCONDITION Accepted
CHECK_DEADLOCK FALSE
