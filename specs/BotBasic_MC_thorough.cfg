SPECIFICATION Spec
CONSTANTS
  LoginToks = {0, 1, 2}
  SpawnToks = {2, 3}
  Ids = {5}
  Keys = {1, 2}
  Pays = {0, 7}
  KnownRegs = {1}
  Regs = {1, 3}
  TagToks = {1}
  NEnt = 2
  MaxSecs = 2
  SetVals <- MC_Sets
  Healths <- MC_Healths
  FailSets <- MC_Fails
  Lsts <- MC_Lsts
  Variant = "intent"
VIEW View
INVARIANTS TypeOK FieldsFollowPackets Agree
PROPERTIES LoginRule RespawnRule EchoRule GameStartRule CookieRule StoreRule TagsRule FrameRule FullRule NoPanic EventRule HealthRule
CHECK_DEADLOCK FALSE
