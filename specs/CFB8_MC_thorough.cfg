SPECIFICATION Spec
CONSTANTS
  BS = 2
  Keys = {0, 3}
  IVs <- MCIVs
  Msgs <- MCMsgs5
  Lens <- MCLens
  MaxCalls = 5
  EmitJson = TRUE
INVARIANTS TypeOK SplitInvariance RegIsWindow RoundTrip Emit
CHECK_DEADLOCK FALSE
