---------------------------- MODULE Dispatch_Trace ---------------------------
(* Trace validation for the dispatch half of C19.  One mutex-ordered log per  *)
(* scenario: reg (every handler given to Events.AddGeneric / AddListener, in  *)
(* call order), start, pkt (logged by the sender BEFORE the packet is written *)
(* to the connection), handled (logged inside the handler function), ret      *)
(* (HandleGame returned), dend (both sides finished).  The specification      *)
(* computes the expected call sequence (Deliver / Expected of Dispatch.tla);  *)
(* the k-th recorded invocation must be the k-th expected one, an invocation  *)
(* may only be recorded once the specification has it (a bundle is not        *)
(* flushed before its closing delimiter was sent), and at the end none may be *)
(* missing.                                                                   *)
EXTENDS Dispatch, Json

Trace == ndJsonDeserialize("trace.ndjson")
VARIABLES l, done, returned, shas      \* shas[idx]: digest of the idx-th packet as handed to WritePacket
tvars == <<dvars, l, done, returned, shas>>
Ev == Trace[l]
IsEvent(k) == l <= Len(Trace) /\ Trace[l].k = k /\ l' = l + 1

TReset == /\ IsEvent("reset")
          /\ regs' = <<>> /\ fail' = Ev.fail /\ phase' = "reg" /\ stream' = <<>> /\ open' = FALSE
          /\ pending' = <<>> /\ calls' = <<>> /\ stopped' = 0 /\ done' = 0 /\ returned' = FALSE /\ shas' = <<>>
TReg == IsEvent("reg") /\ Register(Ev.kind, Ev.h, Ev.id, Ev.prio) /\ UNCHANGED <<done, returned, shas>>
TStart == IsEvent("start") /\ Start /\ UNCHANGED <<done, returned, shas>>
TPkt == /\ IsEvent("pkt") /\ Ev.idx = Len(stream) + 1 /\ Deliver(Ev.id)
        /\ shas' = Append(shas, Ev.sha) /\ UNCHANGED <<done, returned>>
THandled == /\ IsEvent("handled") /\ ~returned
            /\ done < Len(calls) /\ calls[done + 1] = <<Ev.h, Ev.idx>>
            /\ Ev.id = stream[Ev.idx] /\ Ev.sha = shas[Ev.idx]        \* the handler was given that packet, intact
            /\ done' = done + 1 /\ UNCHANGED <<dvars, returned, shas>>
\* HandleGame returned: every expected invocation happened; the error is the failing handler's
\* (h = 0: no handler error, the connection ended), wrapped with the id of the packet being handled
TRet == /\ IsEvent("ret") /\ ~returned /\ returned' = TRUE
        /\ done = Len(calls) /\ Ev.h = stopped
        /\ stopped # 0 => Ev.pid = stream[calls[Len(calls)][2]]
        /\ UNCHANGED <<dvars, done, shas>>
TEnd == IsEvent("dend") /\ returned /\ done = Len(calls) /\ UNCHANGED <<dvars, done, returned, shas>>

TraceInit == /\ regs = <<>> /\ fail = 0 /\ phase = "idle" /\ stream = <<>> /\ open = FALSE /\ pending = <<>>
             /\ calls = <<>> /\ stopped = 0 /\ l = 1 /\ done = 0 /\ returned = FALSE /\ shas = <<>>
TraceNext == TReset \/ TReg \/ TStart \/ TPkt \/ THandled \/ TRet \/ TEnd
TraceSpec == TraceInit /\ [][TraceNext]_tvars

Accepted == LET d == TLCGet("stats").diameter IN PrintT(<<"HWM", d, Len(Trace) + 1>>) /\ d = Len(Trace) + 1
=============================================================================
