SPECIFICATION Spec
CONSTANTS
  Owned = {1}
  Member = {2}
  Other = {3}
  Ghost = {9}
  Players = {1}
  FaultSet <- MC_FaultsQ
  Variant = "code"
VIEW View
PROPERTIES BodiesClosed
CHECK_DEADLOCK FALSE
