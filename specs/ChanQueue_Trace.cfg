SPECIFICATION TraceSpec
CONSTANTS
  Procs = {0, 1, 2, 3, 4, 5, 6, 7, 8}
  Cap = 1000
  Values = {}
CONSTRAINT HWM
POSTCONDITION Accepted
CHECK_DEADLOCK FALSE
