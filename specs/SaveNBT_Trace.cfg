SPECIFICATION TraceSpec
CONSTANTS
  Fmts = {}
  EmitJson = FALSE
  Quick = TRUE
INVARIANTS SaveJudge DecJudge
CHECK_DEADLOCK FALSE
