SPECIFICATION Spec
CONSTANTS
  Kinds = {"blocks", "biomes"}
  RegBitsBlocks = 15
  RegBitsBiomes = 6
  PrefillBlocks = {0, 14, 15, 30, 31, 62, 63, 126, 127, 254, 255}
  PrefillBiomes = {0, 1, 2, 3, 6, 7}
  LenSel = "tight"
  SaveLensBlocks = {1, 2, 16, 17, 33, 256}
  SaveLensBiomes = {1, 2, 3, 4, 5, 8}
VIEW View
INVARIANTS TypeOK CanonOK SomeFits
PROPERTIES Frame Results
CHECK_DEADLOCK FALSE
