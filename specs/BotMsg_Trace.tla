----------------------------- MODULE BotMsg_Trace -----------------------------
(* Trace validation for X06/BotMsg.  Every line is one clientbound packet handed to the handlers of a real            *)
(* msg.Manager (and of the playerlist.PlayerList it reads) through bot.Client.Events, or a call of SendMessage /      *)
(* SendCommand, or the harness filling the queue, with what was observed: evs (callbacks in order; decorated          *)
(* messages projected as <<chat type, args..>>), out (packets found on the send queue, decoded by the harness with    *)
(* the field order of protocol 767), err (class of the returned error), pan, and the projection AFTER it: players as  *)
(* rows <<uuid, session, valid, last index>>, cache (SignatureCache slots, 0 = empty slot in front of a used one),    *)
(* full, lst.  The state before a packet is the projection on the previous line: every line is an independent        *)
(* initial state l; failed checks are printed as <<"X2FAIL", l, {checks}>>.                                           *)
(* checks:  1 NoPanic  2 Fresh  3 WellFormed  4 System  5 Disguised  6 Chat  7 Send  8 Env  (outside the classes)      *)
(*          9 FullSig  10 PackedId  11 SignedNoSignature  12 SignedChain  13 TargetMissing  14 NonAsciiLength          *)
(*          15 SendCommandLayout (judged against the intent)  16 AsCoded (.. and if the intent is not met, against    *)
(*          Step(TRUE, ..); not for FullSig, whose code layer is unspecified)  17 FullSigPanic  18 ErrorClass          *)
EXTENDS BotMsg, Json

Trace == ndJsonDeserialize("trace.ndjson")
VARIABLE l
tvars == <<vars, l>>
NChecks == 18

StateOf(e) == [players |-> [u \in {e.players[i][1] : i \in 1..Len(e.players)} |->
                              LET r == e.players[CHOOSE i \in 1..Len(e.players) : e.players[i][1] = u] IN
                              [sess |-> r[2], valid |-> r[3], last |-> r[4]]],
               cache |-> e.cache, full |-> e.full, lst |-> e.lst]
PacketOf(e) == P(e.k, e.u, e.n, e.idx, e.sig, e.st, e.m, e.ls, e.un, e.filt, e.ct, e.sn, e.ht, e.tn, e.w, e.fail)
WellFormedOn(st) == /\ \A u \in DOMAIN st.players : u >= 1 /\ st.players[u].sess >= 0 /\ st.players[u].last >= -1
                    /\ \A i \in 1..Len(st.cache) : st.cache[i] >= 0
EvsOK(e) == /\ \A i \in 1..Len(e.evs) : \A j \in 1..Len(e.evs[i][2]) : e.evs[i][2][j] > -900
            /\ \A i \in 1..Len(e.out) : e.out[i][1] # "garbage"

Failed ==
  LET ev     == Trace[l]
      hasPre == l > 1 /\ ev.k \notin {"reset", "new"}
      post   == StateOf(ev)
      pre    == IF hasPre THEN StateOf(Trace[l - 1]) ELSE post
      p      == PacketOf(ev)
      cls    == IF hasPre THEN Class(pre, p) ELSE "none"
      ok0    == hasPre /\ WellFormedOn(pre) /\ WellFormedOn(post) /\ (cls # "FullSig" => EvsOK(ev)) /\ ~ev.panicked
      obs    == Res(post, ev.evs, ev.out, ev.err, ev.pan)
      I      == Step(FALSE, pre, p)
      C      == Step(TRUE, pre, p)
      Plain(ks) == (ok0 /\ ev.k \in ks /\ cls = "none") => obs = I
      InClass(c) == (ok0 /\ cls = c) => obs = I
      Ok(c) ==
        CASE c = 1 -> cls = "none" => (~ev.pan /\ ~ev.panicked)
          [] c = 2 -> ev.k \in {"reset", "new"} => (post = Fresh(ev.plst) /\ ev.evs = <<>> /\ ev.out = <<>>)
          [] c = 3 -> WellFormedOn(post) /\ (cls # "FullSig" => EvsOK(ev))
          [] c = 4 -> Plain({"system"})
          [] c = 5 -> Plain({"disguised"})
          [] c = 6 -> Plain({"chat"})
          [] c = 7 -> Plain({"send", "cmd"})
          [] c = 8 -> Plain({"padd", "premove", "setfull"})
          [] c = 9 -> InClass("FullSig")
          [] c = 10 -> InClass("PackedId")
          [] c = 11 -> InClass("SignedNoSignature")
          [] c = 12 -> InClass("SignedChain")
          [] c = 13 -> InClass("TargetMissing")
          [] c = 14 -> InClass("NonAsciiLength")
          [] c = 15 -> InClass("SendCommandLayout")
          [] c = 16 -> (ok0 /\ cls \notin {"none", "FullSig"} /\ obs # I) => obs = C
          [] c = 17 -> cls = "FullSig" => (~ev.pan /\ ~ev.panicked)
          [] c = 18 -> cls # "FullSig" => ev.err \in {"none", "cb", "own", "invalid", "validation"}
          [] OTHER -> TRUE
  IN {c \in 1..NChecks : ~Ok(c)}

Check == LET f == Failed IN f = {} \/ PrintT(<<"X2FAIL", l, f>>)
TraceInit == l \in 1..Len(Trace) /\ s = 0 /\ act = 0
TraceSpec == TraceInit /\ [][UNCHANGED tvars]_tvars
=============================================================================
