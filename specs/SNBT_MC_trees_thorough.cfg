SPECIFICATION SSpec
CONSTANTS
  Fmts = {}
  EmitJson = TRUE
  Quick = FALSE
  Mode = "trees"
  MaxLen = 0
  Alpha = {}
  QAlpha = {}
INVARIANTS PrintParse SEmit
CHECK_DEADLOCK FALSE
