---------------------------- MODULE Tables_Trace ----------------------------
(* Trace validation for X14/Tables.  Every line of trace.ndjson is one observation of the REAL tables or one call on *)
(* them; lines are judged independently (every line is an initial state l), a line may refer to HEADER lines of the  *)
(* same file by number (t, b, ty, prev, last): the table of a value type (k = "ty"), the declaration of a block as    *)
(* the real StateList shows it (k = "blk"), the block-entity table (k = "ent").  The numbers of the checks a line     *)
(* fails are printed as <<"X14FAIL", l, {checks}>>; the harness only maps them back to events.                        *)
(*                                                                                                                    *)
(* kinds                                                                                                              *)
(*  ty   name, mode ("keep" | "zero" | "int" | "nodest"), alias ("bool" | "none"), hasstr, n, texts, strs (String() of *)
(*       values 0..n-1), tail (<<v, err, str>> for probed values outside 0..n-1), bits (BitsPerBiome, -1 otherwise)   *)
(*  enc  t, v, err, text, tb (bytes of text; mode "int" only), str, again (MarshalText once more after the harness   *)
(*       overwrote the bytes the first call returned)                                                                 *)
(*  dec  t, text, tb, pre, post, err                                                                                  *)
(*  blk  name, base, n, pb (property names as bytes), ty (header lines of the property types), doms (witness: the     *)
(*       domains in table order), rows (ordinals of every state in id order), ids (ToStateID of every state), zero    *)
(*       (ordinals of FromID[name]), zid (ToStateID of FromID[name], -1 absent), fromid, first, prev, judge            *)
(*  sum  n, bits, nblocks, nfromid, nnames, nemb, last                                                                     *)
(*  lk   b, i, name, vals, back, air                                                                                  *)
(*  sb   b (0: no block of that name), pt, ents (<<key bytes, tag, text, text bytes>>), cut, res, vals, id, idx       *)
(*  ent  ids, types, ntypes, valid, reg, nblocks;  el  t, id, found, ty;  ev  t, e, bi, ans                           *)
(*  xt   a, b, ids;  fat  t, v, tb, fb, ob (bytes of the texts of a FrontAndTop value and of its two Directions())       *)
(* every line carries panicked.                                                                                       *)
EXTENDS Tables, Json

Trace == ndJsonDeserialize("trace.ndjson")

VARIABLE l
tvars == <<vars, l>>
NChecks == 60

\* ---------------------------------------------------------------- text of property values
BoolTrue == {"1", "t", "T", "TRUE", "true", "True"}                \* strconv.ParseBool (named deviation: vanilla reads "true" / "false" only)
BoolFalse == {"0", "f", "F", "FALSE", "false", "False"}
IsDigit(c) == c \in 48..57
Body(tb) == IF tb # <<>> /\ tb[1] \in {43, 45} THEN Tail(tb) ELSE tb
RECURSIVE StripZ(_)
StripZ(s) == IF Len(s) > 1 /\ s[1] = 48 THEN StripZ(Tail(s)) ELSE s
RECURSIVE Num(_, _)
Num(s, acc) == IF s = <<>> THEN acc ELSE Num(Tail(s), acc * 10 + (s[1] - 48))
(* strconv.Atoi: optional sign, decimal digits.  <= 9 significant digits: the value; >= 20: out of range; between: not judged *)
AtoiOf(tb) == LET b == Body(tb) IN
  IF b = <<>> \/ \E i \in DOMAIN b : ~IsDigit(b[i]) THEN [c |-> "bad", val |-> 0]
  ELSE LET z == StripZ(b) IN
       IF Len(z) <= 9 THEN [c |-> "v", val |-> IF tb[1] = 45 THEN 0 - Num(z, 0) ELSE Num(z, 0)]
       ELSE IF Len(z) >= 20 THEN [c |-> "bad", val |-> 0] ELSE [c |-> "free", val |-> 0]
(* the value a TAG_String decodes to under the type table of header line t *)
TextOf(t, text, tb) ==
  LET ty == Trace[t] IN
  IF ty.mode = "int" THEN AtoiOf(tb)
  ELSE LET m == Matches(ty.texts, text) IN
       IF m # {} THEN [c |-> "v", val |-> (CHOOSE i \in m : \A j \in m : i <= j) - 1]
       ELSE IF ty.alias = "bool" /\ text \in BoolTrue THEN [c |-> "v", val |-> 1]
       ELSE IF ty.alias = "bool" /\ text \in BoolFalse THEN [c |-> "v", val |-> 0]
       ELSE [c |-> "bad", val |-> 0]

\* ---------------------------------------------------------------- keys of a compound
FoldB(b) == [i \in DOMAIN b |-> IF b[i] \in 65..90 THEN b[i] + 32 ELSE b[i]]
(* nbt: the field with exactly this name, else the first field whose name is equal under case folding *)
KeyOf(pb, kb) == LET ex == {p \in DOMAIN pb : pb[p] = kb}  fo == {p \in DOMAIN pb : FoldB(pb[p]) = FoldB(kb)} IN
                 IF ex # {} THEN CHOOSE p \in ex : \A q \in ex : p <= q
                 ELSE IF fo # {} THEN CHOOSE p \in fo : \A q \in fo : p <= q ELSE 0
RECURSIVE LexLess(_, _)
LexLess(a, b) == IF b = <<>> THEN FALSE ELSE IF a = <<>> THEN TRUE
                 ELSE IF a[1] # b[1] THEN a[1] < b[1] ELSE LexLess(Tail(a), Tail(b))
AbsEnt(blk, e) == LET p == KeyOf(blk.pb, e[1]) IN
                  IF p = 0 THEN Ent(0, "ill", 0)
                  ELSE IF e[2] # 8 THEN Ent(p, "ill", 0)
                  ELSE LET d == TextOf(blk.ty[p], e[3], e[4]) IN Ent(p, d.c, d.val)
PtOf(n) == IF n = 0 THEN "end" ELSE IF n = 10 THEN "compound" ELSE "other"
RowIndex(rows, v) == LET m == {r \in DOMAIN rows : rows[r] = v} IN IF m = {} THEN 0 ELSE CHOOSE r \in m : TRUE
Ascending(d) == \A i \in 1..(Len(d) - 1) : d[i] < d[i + 1]
Consecutive(d) == \A i \in 1..(Len(d) - 1) : d[i + 1] = d[i] + 1
AirNames == {"minecraft:air", "minecraft:cave_air", "minecraft:void_air"}
(* enum domains are in ordinal order except vanilla's two direction properties with an explicit order: *)
SixFacing == <<2, 5, 3, 4, 1, 0>>      \* FACING: north, east, south, west, up, down
UpDown == <<1, 0>>                     \* VERTICAL_DIRECTION: up, down

Failed ==
  LET ev == Trace[l]
      Is(k) == ev.k = k
      IsBlk == ev.k = "blk" /\ ev.judge = TRUE        \* a block line of the table export (header copies in other traces are not judged again)
      Ok(c) ==
        CASE c = 1 -> ev.panicked = FALSE \/ (Is("fat") /\ ev.v \notin 0..(Trace[ev.t].n - 1))
          \* ---- type tables
          [] c = 2 -> (Is("ty") /\ ev.mode # "int") => (ev.n = Len(ev.texts) /\ ev.n >= 1 /\ Distinct(ev.texts) /\ \A i \in DOMAIN ev.texts : ev.texts[i] # "")
          [] c = 3 -> (Is("ty") /\ ev.mode # "int" /\ ev.hasstr = TRUE) => ev.strs = ev.texts
          [] c = 4 -> (Is("ty") /\ ev.mode # "int") => \A i \in DOMAIN ev.tail : ev.tail[i][2] = TRUE /\ ev.tail[i][3] \notin Range(ev.texts)
          [] c = 5 -> (Is("ty") /\ ev.bits >= 0) => ev.bits = BitLen(ev.n)
          \* ---- encode
          [] c = 6 -> Is("enc") => LET ty == Trace[ev.t] IN
                        IF ty.mode = "int" THEN ev.err = FALSE /\ AtoiOf(ev.tb) = [c |-> "v", val |-> ev.v]
                        ELSE Enc(ty.texts, ev.v) = [err |-> ev.err, text |-> ev.text]
          [] c = 7 -> (Is("enc") /\ ev.err = FALSE /\ Trace[ev.t].hasstr = TRUE) => ev.str = ev.text
          [] c = 8 -> (Is("enc") /\ ev.err = FALSE) => ev.again = ev.text
          \* ---- decode
          [] c = 9 -> Is("dec") => LET d == TextOf(ev.t, ev.text, ev.tb) IN d.c = "v" => (ev.err = FALSE /\ ev.post = d.val)
          [] c = 10 -> Is("dec") => LET d == TextOf(ev.t, ev.text, ev.tb) IN d.c = "bad" => ev.err = TRUE
          [] c = 11 -> (Is("dec") /\ ev.err = TRUE) => LET m == Trace[ev.t].mode IN
                        (m = "keep" => ev.post = ev.pre) /\ (m = "zero" => ev.post = 0) /\ (m = "nodest" => ev.post = -1)
          \* ---- blocks of the real table
          [] c = 20 -> IsBlk => (ev.n = Len(ev.rows) /\ ev.n >= 1 /\ ev.ids = [r \in 1..ev.n |-> ev.base + r - 1])
          [] c = 21 -> IsBlk => /\ (ev.first = TRUE => ev.base = 0)
                                    /\ (ev.prev > 0 => (ev.base = Trace[ev.prev].base + Trace[ev.prev].n /\ ev.name # Trace[ev.prev].name))
          [] c = 22 -> IsBlk => /\ Len(ev.doms) = Len(ev.pb) /\ Len(ev.ty) = Len(ev.pb)
                                    /\ \A p \in DOMAIN ev.doms : Distinct(ev.doms[p]) /\ Range(ev.doms[p]) = {ev.rows[r][p] : r \in DOMAIN ev.rows}
                                    /\ ev.n = Prod(ev.doms)
          [] c = 23 -> IsBlk => \A r \in DOMAIN ev.rows : ev.rows[r] = RowAt(ev.doms, r - 1)
          [] c = 24 -> IsBlk => \A p \in DOMAIN ev.doms : LET ty == Trace[ev.ty[p]]  d == ev.doms[p] IN
                          IF ty.alias = "bool" THEN d = <<1, 0>>
                          ELSE IF ty.mode = "int" THEN Consecutive(d) /\ Len(d) >= 2
                          ELSE /\ \A i \in DOMAIN d : d[i] \in 0..(ty.n - 1)
                               /\ Len(d) >= 2 /\ (Ascending(d) \/ d = SixFacing \/ d = UpDown)
          [] c = 25 -> IsBlk => ev.zid \in ev.base..(ev.base + ev.n - 1)                                 \* INTENT DefaultInTable
          [] c = 26 -> IsBlk => /\ ev.fromid = TRUE /\ ev.zero = ZeroOf(ev.doms)
                                    /\ (ev.zid >= 0 <=> ZeroInShape(ev.doms))
                                    /\ (ev.zid >= 0 => (ev.zid - ev.base + 1 \in DOMAIN ev.rows /\ ev.rows[ev.zid - ev.base + 1] = ev.zero))
          [] c = 27 -> IsBlk => \A p \in 1..(Len(ev.pb) - 1) : LexLess(ev.pb[p], ev.pb[p + 1])
          [] c = 28 -> Is("sum") => ev.bits = BitLen(ev.n)
          [] c = 29 -> Is("sum") => BitLen(ev.n) = CeilLog2(ev.n)
          [] c = 30 -> Is("sum") => /\ Trace[ev.last].base + Trace[ev.last].n = ev.n
                                    /\ ev.nblocks = ev.nfromid /\ ev.nblocks = ev.nnames /\ ev.nemb = ev.n
          \* ---- lookups by id
          [] c = 31 -> Is("lk") => LET blk == Trace[ev.b]  r == ev.i - blk.base + 1 IN
                          ev.name = blk.name /\ r \in DOMAIN blk.rows /\ ev.vals = blk.rows[r] /\ ev.back = ev.i
          [] c = 32 -> Is("lk") => (ev.air = TRUE <=> ev.name \in AirNames)
          \* ---- State.Block()
          [] c = 40 -> Is("sb") => (ev.b = 0 <=> ev.res = "unknown")
          [] c = 41 -> (Is("sb") /\ ev.b > 0) =>
                          LET blk == Trace[ev.b]
                              es  == [i \in DOMAIN ev.ents |-> AbsEnt(blk, ev.ents[i])]
                              r   == IF ev.cut = TRUE /\ ev.pt # 0 THEN Res("err", <<>>) ELSE BlockOf(TRUE, blk.doms, PtOf(ev.pt), es)
                          IN (\A i \in DOMAIN es : es[i].c # "free") => (ev.res = r.res /\ (r.res = "ok" => ev.vals = r.vals))
          [] c = 42 -> (Is("sb") /\ ev.b > 0 /\ ev.res = "ok") =>
                          LET blk == Trace[ev.b]  r == RowIndex(blk.rows, ev.vals) IN
                          ev.id = IF r = 0 THEN -1 ELSE blk.base + r - 1
          [] c = 43 -> (Is("sb") /\ ev.res = "ok") => ev.id >= 0                                              \* INTENT AcceptedInTable
          [] c = 44 -> (Is("sb") /\ ev.idx >= 0) => (ev.res = "ok" /\ ev.id = ev.idx)
          \* ---- block entities
          [] c = 50 -> Is("ent") => Distinct(ev.ids)
          [] c = 51 -> Is("ent") => (ev.ntypes = Len(ev.ids) /\ ev.types = [i \in DOMAIN ev.ids |-> i - 1])
          [] c = 52 -> Is("ent") => (Len(ev.valid) = Len(ev.ids) /\ \A i, j \in DOMAIN ev.valid : i # j => Range(ev.valid[i]) \cap Range(ev.valid[j]) = {})
          [] c = 53 -> Is("ent") => \A i \in DOMAIN ev.valid : ev.valid[i] # <<>> /\ \A j \in DOMAIN ev.valid[i] : ev.valid[i][j] \in 1..ev.nblocks
          [] c = 54 -> Is("ent") => ev.reg = ev.ids
          [] c = 55 -> Is("el") => LET m == Matches(Trace[ev.t].ids, ev.id) IN
                          (ev.found = TRUE <=> m # {}) /\ (m # {} => ev.ty = (CHOOSE i \in m : TRUE) - 1)
          [] c = 56 -> Is("ev") => (ev.ans = TRUE <=> ev.bi \in Range(Trace[ev.t].valid[ev.e]))
          \* ---- id <-> name tables of data/*
          [] c = 57 -> Is("xt") => ev.a = ev.b
          [] c = 58 -> Is("xt") => ev.ids = [i \in DOMAIN ev.ids |-> i - 1]
          \* ---- FrontAndTop.Directions(): the two directions spell the value ("down_east" = down, east); other values panic (as written)
          [] c = 59 -> Is("fat") => IF ev.v \in 0..(Trace[ev.t].n - 1)
                                    THEN ev.panicked = FALSE /\ ev.tb = ev.fb \o <<95>> \o ev.ob
                                    ELSE ev.panicked = TRUE
          [] OTHER -> TRUE
  IN {c \in 1..NChecks : ~Ok(c)}

Check == LET f == Failed IN f = {} \/ PrintT(<<"X14FAIL", l, f>>)

TraceInit == l \in 1..Len(Trace) /\ RegInit
TraceSpec == TraceInit /\ [][UNCHANGED tvars]_tvars
=============================================================================
