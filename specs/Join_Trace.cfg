SPECIFICATION TraceSpec
CONSTANTS
  Thresholds <- ThrQuick
  Names <- NamesQuick
  Refusals = {FALSE}
  Intentions = {2}
  MaxPlay = 0
  Variant = "none"
CONSTRAINT HWM
POSTCONDITION Accepted
CHECK_DEADLOCK FALSE
