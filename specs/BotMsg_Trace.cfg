SPECIFICATION TraceSpec
CONSTANTS
  Us = {}
  Sess = {}
  Idxs = {}
  Msgs = {}
  Sigs = {}
  LSs = {}
  Cts = {}
  NTypes = 3
  Cap = 128
  Lens = {}
  FailSets = {}
  Lsts = {}
  Variant = "intent"
INVARIANTS Check
CHECK_DEADLOCK FALSE
