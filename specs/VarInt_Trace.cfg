SPECIFICATION TraceSpec
CONSTANTS
  W = 2
  Alphabet = {}
  FreePrefix = 99
  EmitJson = FALSE
INVARIANTS EncOK DecOK BoundedConsumption
CHECK_DEADLOCK FALSE
