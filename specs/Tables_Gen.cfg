SPECIFICATION GenSpec
CONSTANTS
  Doms = {}
  MaxProps = 0
  MaxBlocks = 0
  Order = "last"
  Fault = "none"
  MaxEnts = 2
  TypeMax = 0
  Intent = FALSE
  TextTokens = {}
  MaxVals = 0
  ErrDest = "keep"
  EIdTokens = {}
  EBlocks = {}
  MaxEntities = 0
  Strict = FALSE
  GenN = 26684
  GenK = 40
  GenVals = {0, 2, 5}
  GenMaxV = 6
  GenHostile = 13
INVARIANTS Emit
CHECK_DEADLOCK FALSE
