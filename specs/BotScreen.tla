------------------------------ MODULE BotScreen ------------------------------
(***************************************************************************)
(* X04 (specification extension): bot/screen.Manager - the client-side     *)
(* mirror of the player's inventory and of the windows the server opens.   *)
(*                                                                         *)
(* One action per clientbound packet the manager registers a handler for   *)
(* (OpenScreen, ContainerSetContent, ContainerClose, ContainerSetSlot) and *)
(* one for the only serverbound call (ContainerClick, which echoes the     *)
(* last state id).  Abstract state = what the exported fields show:        *)
(*   inv      Manager.Inventory.Slots (a tuple of item tokens, 0 = empty)  *)
(*   screens  Manager.Screens: window id -> [type, title, slots]; the      *)
(*            entry that IS the inventory has type InvType and no slots of *)
(*            its own (InvRef), a chest has type 0..MaxChestType           *)
(*   cursor   Manager.Cursor            sid   the last state id received   *)
(* Every packet record has the same fields (P); `fail` says that the       *)
(* user's callback (EventsListener) answers the first call with an error.  *)
(* The result of a packet is Res(state, callback events in order, handler  *)
(* returned an error, bytes written).                                      *)
(*                                                                         *)
(* Two layers.  Step(TRUE, ..) is the manager AS CODED, Step(FALSE, ..) is *)
(* the INTENT; they differ in four named points:                           *)
(*  ChestLayout     a generic_9xR window has 9R + 36 slots (chest.go's own *)
(*                  Main()/Hotbar() address them); the code allocates 9R   *)
(*  ChestPlayerArea .. so slots 9R.. of an open chest are "out of bounds"  *)
(*  InventoryAlways window 0 is the inventory for the life of the manager; *)
(*                  the code deletes it on ContainerClose(0)               *)
(*  ContentCarried  ContainerSetContent also carries the cursor item; the  *)
(*                  code reads it and drops it                             *)
(*  PlayerInvIndex  window -2 addresses the PLAYER INVENTORY (0.. hotbar,  *)
(*                  then main, armor feet..head, offhand), the code uses   *)
(*                  the number as a slot of the inventory WINDOW           *)
(* Everything else follows the code, also where a vanilla client differs:  *)
(* OpenScreen of a type that is not a chest stores nothing but fires Open; *)
(* an id that is already open is an error; content for an unknown window   *)
(* is an error (vanilla ignores it), a slot for an unknown window is       *)
(* ignored; (-1, k) with k # -1 is ignored (vanilla sets the cursor).      *)
(* The layout is parametrised (RowLen = 9, NCraft = 5, NArmor = 4,         *)
(* NMain = 27, NHot = 9 are the real numbers) so that TLC can explore a    *)
(* scaled-down manager exhaustively.                                       *)
(***************************************************************************)
EXTENDS Integers, Sequences, FiniteSets, TLC

CONSTANTS RowLen, MaxChestType, NCraft, NArmor, NMain, NHot,    \* layout
          Wins, Types, Items, Sids, Titles,                     \* generator universe
          FullContent,                                          \* content packets carry every slot sequence (else a few shapes)
          Variant                                               \* "intent" | "code" | "broken"

InvSize == NCraft + NArmor + NMain + NHot + 1
InvType == -1                      \* the type of the entry that is the inventory
CursorWin == -1
PlayerInvWin == -2
Code == Variant = "code"
Broken == Variant = "broken"       \* vacuity guard: ContainerClose does not remove the window

VARIABLES inv, screens, cursor, sid, act
vars == <<inv, screens, cursor, sid, act>>
View == <<inv, screens, cursor, sid>>
S == [inv |-> inv, screens |-> screens, cursor |-> cursor, sid |-> sid]

\* ---------------------------------------------------------------- helpers
Bind(f, x, v) == [y \in DOMAIN f \cup {x} |-> IF y = x THEN v ELSE f[y]]
Drop(f, x) == [y \in DOMAIN f \ {x} |-> f[y]]
Blank(n) == [i \in 1..n |-> 0]
Min(a, b) == IF a <= b THEN a ELSE b
IsChest(t) == t >= 0 /\ t <= MaxChestType
InvRef == [type |-> InvType, title |-> 0, slots |-> <<>>]
ChestPart(t) == (t + 1) * RowLen                          \* the slots of the container itself
Size(code, t) == ChestPart(t) + (IF code THEN 0 ELSE NMain + NHot)
SlotsOf(s, w) == IF s.screens[w].type = InvType THEN s.inv ELSE s.screens[w].slots
SetSlots(s, w, sl) == IF s.screens[w].type = InvType THEN [s EXCEPT !.inv = sl] ELSE [s EXCEPT !.screens[w].slots = sl]

(* player inventory index (window -2) -> slot of the inventory window *)
PlayerInvSlot(k) ==
  IF k >= 0 /\ k < NHot THEN NCraft + NArmor + NMain + k
  ELSE IF k >= NHot /\ k < NHot + NMain THEN NCraft + NArmor + (k - NHot)
  ELSE IF k >= NHot + NMain /\ k < NHot + NMain + NArmor THEN NCraft + NArmor - 1 - (k - NHot - NMain)
  ELSE IF k = NHot + NMain + NArmor THEN InvSize - 1
  ELSE -1

(* the state as the intent reads it: window 0 is the inventory, a chest window has its player area *)
PadScr(scr) == IF scr.type = InvType \/ Len(scr.slots) >= Size(FALSE, scr.type) THEN scr
               ELSE [scr EXCEPT !.slots = @ \o Blank(Size(FALSE, scr.type) - Len(@))]
NormS(s) == [s EXCEPT !.screens = [w \in DOMAIN @ \cup {0} |-> IF w = 0 THEN InvRef ELSE PadScr(@[w])]]

P(k, win, type, title, psid, idx, item, slots, carried, fail) ==
  [k |-> k, win |-> win, type |-> type, title |-> title, sid |-> psid, idx |-> idx, item |-> item,
   slots |-> slots, carried |-> carried, fail |-> fail]
Ev(k, a, b, c) == <<k, a, b, c>>
Res(s, evs, err, out) == [s |-> s, evs |-> evs, err |-> err, out |-> out]

\* ---------------------------------------------------------------- the packets
OpenStep(code, s, p) ==
  IF p.win \in DOMAIN s.screens THEN Res(s, <<>>, TRUE, <<>>)          \* "container id already exists in screens"
  ELSE LET s1 == IF IsChest(p.type)
                 THEN [s EXCEPT !.screens = Bind(@, p.win, [type |-> p.type, title |-> p.title, slots |-> Blank(Size(code, p.type))])]
                 ELSE s                                                \* no container type for it: nothing stored
       IN Res(s1, <<Ev("open", p.win, p.type, p.title)>>, p.fail, <<>>)

(* the state id is taken first; then slot 0, 1, .. are stored one by one, each followed by its SetSlot callback; *)
(* the first index outside the window (or the failing callback) ends the packet with an error                    *)
ContentStep(code, s, p) ==
  LET s0 == [s EXCEPT !.sid = p.sid] IN
  IF p.win \notin DOMAIN s0.screens THEN Res(s0, <<>>, TRUE, <<>>)
  ELSE LET old  == SlotsOf(s0, p.win)
           n    == Len(p.slots)
           fit  == Min(n, Len(old))
           done == IF p.fail /\ fit >= 1 THEN 1 ELSE fit
           err  == (p.fail /\ fit >= 1) \/ n > Len(old)
           new  == [i \in 1..Len(old) |-> IF i <= done THEN p.slots[i] ELSE old[i]]
           s1   == SetSlots(s0, p.win, new)
           s2   == IF code \/ err THEN s1 ELSE [s1 EXCEPT !.cursor = p.carried]
           evs  == IF done = 0 THEN <<>> ELSE [i \in 1..done |-> Ev("slot", p.win, i - 1, 0)]
       IN Res(s2, evs, err, <<>>)

CloseStep(code, s, p) ==
  IF p.win \notin DOMAIN s.screens THEN Res(s, <<>>, FALSE, <<>>)
  ELSE LET s1 == IF (~code /\ p.win = 0) \/ Broken THEN s ELSE [s EXCEPT !.screens = Drop(@, p.win)]
       IN Res(s1, <<Ev("close", p.win, 0, 0)>>, p.fail, <<>>)

(* the SetSlot callback fires for every packet, also for the cursor, an unknown window and a slot outside the window *)
SlotStep(code, s, p) ==
  LET s0 == [s EXCEPT !.sid = p.sid]
      evs == <<Ev("slot", p.win, p.idx, 0)>>
  IN IF p.win = CursorWin /\ p.idx = -1 THEN Res([s0 EXCEPT !.cursor = p.item], evs, p.fail, <<>>)
     ELSE IF p.win = PlayerInvWin THEN
       LET i == IF code THEN p.idx ELSE PlayerInvSlot(p.idx)
           ok == i >= 0 /\ i < InvSize
       IN Res(IF ok THEN [s0 EXCEPT !.inv[i + 1] = p.item] ELSE s0, evs, p.fail \/ ~ok, <<>>)
     ELSE IF p.win \in DOMAIN s0.screens THEN
       LET sl == SlotsOf(s0, p.win)
           ok == p.idx >= 0 /\ p.idx < Len(sl)
       IN Res(IF ok THEN SetSlots(s0, p.win, [sl EXCEPT ![p.idx + 1] = p.item]) ELSE s0, evs, p.fail \/ ~ok, <<>>)
     ELSE Res(s0, evs, p.fail, <<>>)

(* ContainerClick(win, ..): the packet written starts with the window id and the last state id received *)
ClickStep(code, s, p) == Res(s, <<>>, FALSE, <<p.win, s.sid>>)
(* .. and carries the changed slot and the carried item, which the package's own Slot.ReadFrom reads back unchanged *)
ClickBody(p) == <<p.idx, p.item, IF p.carried < 0 THEN 0 ELSE p.carried>>     \* carried -1: a nil *Slot = nothing carried

Step(code, s, p) ==
  LET t == IF code THEN s ELSE NormS(s) IN
  IF p.k = "open" THEN OpenStep(code, t, p)
  ELSE IF p.k = "content" THEN ContentStep(code, t, p)
  ELSE IF p.k = "close" THEN CloseStep(code, t, p)
  ELSE IF p.k = "slot" THEN SlotStep(code, t, p)
  ELSE ClickStep(code, t, p)

(* where the two layers part (for a state the code can be in): the name of the class, "none" elsewhere *)
Class(s, p) ==
  LET has == p.win \in DOMAIN s.screens
      short == has /\ s.screens[p.win].type # InvType /\ Len(s.screens[p.win].slots) < Size(FALSE, s.screens[p.win].type)
  IN IF p.win = 0 /\ p.k # "click" /\ (~has \/ s.screens[0] # InvRef) THEN "InventoryClosed"
     ELSE IF short /\ ((p.k = "slot" /\ p.idx >= Len(s.screens[p.win].slots) /\ p.idx < Size(FALSE, s.screens[p.win].type))
                       \/ (p.k = "content" /\ Len(p.slots) > Len(s.screens[p.win].slots))) THEN "ChestPlayerArea"
     ELSE IF p.k = "slot" /\ p.win = PlayerInvWin /\ p.idx >= 0 /\ p.idx < InvSize /\ PlayerInvSlot(p.idx) # p.idx THEN "PlayerInvIndex"
     ELSE IF p.k = "content" /\ p.carried # s.cursor /\ ~Step(FALSE, s, p).err THEN "ContentCarried"
     ELSE "none"
NormRes(r) == [r EXCEPT !.s = NormS(@)]

\* ---------------------------------------------------------------- generator
Items0 == Items \cup {0}
Lens(s, w) == IF w \in DOMAIN s.screens THEN LET n == Len(SlotsOf(s, w)) IN {0, 1, n, n + 1} ELSE {0, 1}
Idxs == (-1)..(InvSize + 1)
Shapes(n) == IF FullContent THEN [1..n -> Items0]
             ELSE {[i \in 1..n |-> IF (i + a) % b = 0 THEN it ELSE 0] : a \in {0, 1}, b \in {1, 2}, it \in Items0}
(* the packets offered in state s: Some(s, Q) = some packet satisfies Q, All(s, Q) = every packet does *)
Some(s, Q(_)) ==
  \/ \E w \in Wins, t \in Types, ti \in Titles, f \in BOOLEAN : Q(P("open", w, t, ti, 0, 0, 0, <<>>, 0, f))
  \/ \E w \in Wins, i \in Sids, c \in Items0, f \in BOOLEAN : \E n \in Lens(s, w) : \E sl \in Shapes(n) : Q(P("content", w, 0, 0, i, 0, 0, sl, c, f))
  \/ \E w \in Wins, f \in BOOLEAN : Q(P("close", w, 0, 0, 0, 0, 0, <<>>, 0, f))
  \/ \E w \in Wins \cup {CursorWin, PlayerInvWin}, i \in Sids, x \in Idxs, it \in Items0, f \in BOOLEAN : Q(P("slot", w, 0, 0, i, x, it, <<>>, 0, f))
  \/ \E w \in Wins : Q(P("click", w, 0, 0, 0, 0, 0, <<>>, 0, FALSE))
All(s, Q(_)) == ~Some(s, LAMBDA p : ~Q(p))

Do(p) == LET r == Step(Code, S, p) IN
         /\ inv' = r.s.inv /\ screens' = r.s.screens /\ cursor' = r.s.cursor /\ sid' = r.s.sid
         /\ act' = [p |-> p, evs |-> r.evs, err |-> r.err, out |-> r.out]
NoAct == [p |-> P("new", 0, 0, 0, 0, 0, 0, <<>>, 0, FALSE), evs |-> <<>>, err |-> FALSE, out |-> <<>>]
Init == inv = Blank(InvSize) /\ screens = (0 :> InvRef) /\ cursor = 0 /\ sid = 0 /\ act = NoAct
Next == Some(S, Do)
Spec == Init /\ [][Next]_vars

\* ---------------------------------------------------------------- properties (of the intent)
TypeOK == /\ inv \in [1..InvSize -> Items0] /\ cursor \in Items0 /\ sid \in Sids \cup {0}
          /\ DOMAIN screens \subseteq Wins
          /\ \A w \in DOMAIN screens : screens[w] = InvRef \/ (IsChest(screens[w].type) /\ screens[w].slots \in Seq(Items0))
(* window 0 is the inventory as long as the manager lives *)
InventoryAlways == 0 \in DOMAIN screens /\ screens[0] = InvRef /\ \A w \in DOMAIN screens \ {0} : screens[w] # InvRef
(* an open chest has the slots its accessors Container(), Main(), Hotbar() address *)
Layout == \A w \in DOMAIN screens : screens[w] # InvRef => Len(screens[w].slots) = ChestPart(screens[w].type) + NMain + NHot
(* the two layers differ in the named classes only (and in the size of a chest, which NormS levels) *)
Agree == All(S, LAMBDA p : Class(S, p) = "none" => NormRes(Step(TRUE, S, p)) = Step(FALSE, S, p))

OpenRule == [][act'.p.k = "open" =>
                IF act'.p.win \in DOMAIN screens
                THEN act'.err /\ act'.evs = <<>> /\ View' = View
                ELSE /\ act'.evs = <<Ev("open", act'.p.win, act'.p.type, act'.p.title)>>
                     /\ (act'.p.win \in DOMAIN screens') = IsChest(act'.p.type)
                     /\ \A w \in DOMAIN screens : w \in DOMAIN screens' /\ screens'[w] = screens[w]
                     /\ inv' = inv /\ cursor' = cursor /\ sid' = sid]_vars
(* closing removes exactly the named window (never the inventory) and fires Close exactly when a window was there *)
CloseRule == [][act'.p.k = "close" =>
                 /\ DOMAIN screens' = DOMAIN screens \ ({act'.p.win} \ {0})
                 /\ \A w \in DOMAIN screens' : screens'[w] = screens[w]
                 /\ inv' = inv /\ cursor' = cursor /\ sid' = sid
                 /\ act'.evs = IF act'.p.win \in DOMAIN screens THEN <<Ev("close", act'.p.win, 0, 0)>> ELSE <<>>]_vars
(* a slot packet changes at most the one slot it names, fires SetSlot exactly once and always takes the state id *)
SlotRule == [][act'.p.k = "slot" =>
                /\ sid' = act'.p.sid /\ DOMAIN screens' = DOMAIN screens
                /\ act'.evs = <<Ev("slot", act'.p.win, act'.p.idx, 0)>>
                /\ Cardinality({i \in 1..InvSize : inv'[i] # inv[i]})
                   + Cardinality({<<w, i>> \in UNION {{<<w, i>> : i \in 1..Len(screens[w].slots)} : w \in DOMAIN screens} : screens'[w].slots[i] # screens[w].slots[i]})
                   + (IF cursor' # cursor THEN 1 ELSE 0) <= 1]_vars
(* content: state id taken, callbacks are SetSlot(win, 0), SetSlot(win, 1), .. in order, other windows untouched *)
ContentRule == [][act'.p.k = "content" =>
                   /\ sid' = act'.p.sid /\ DOMAIN screens' = DOMAIN screens
                   /\ \A i \in 1..Len(act'.evs) : act'.evs[i] = Ev("slot", act'.p.win, i - 1, 0)
                   /\ Len(act'.evs) <= Len(act'.p.slots)
                   /\ \A w \in DOMAIN screens \ {act'.p.win} : screens'[w] = screens[w]
                   /\ (act'.p.win # 0 => inv' = inv)
                   /\ (~act'.err => (Len(act'.evs) = Len(act'.p.slots) /\ cursor' = act'.p.carried))]_vars
ClickRule == [][act'.p.k = "click" => (View' = View /\ act'.out = <<act'.p.win, sid>>)]_vars
=============================================================================
