------------------------------- MODULE Stream -------------------------------
(***************************************************************************)
(* Fragmentation invariance and fault propagation of stream reads (C09).   *)
(* A transport delivers an input of Total bytes in segments (a composition *)
(* of Total) and may fail at byte offset FaultAt (EOF or an error).  A     *)
(* decoder that needs exactly Need bytes of it must behave as a full read: *)
(* its result depends on neither the segmentation nor on faults at or      *)
(* after offset Need, and a fault before Need is an error.  The writer     *)
(* side: a sink that accepts Limit bytes and then fails.                   *)
(***************************************************************************)
EXTENDS Integers, Sequences, FiniteSets, TLC, Json

CONSTANTS MaxTotal

VARIABLES total, need, segs, fault, pos, got, status
vars == <<total, need, segs, fault, pos, got, status>>

RECURSIVE Sum(_)
Sum(s) == IF s = <<>> THEN 0 ELSE Head(s) + Sum(Tail(s))
\* all compositions of n into positive parts
RECURSIVE Compositions(_)
Compositions(n) == IF n = 0 THEN {<<>>}
                   ELSE UNION {{<<k>> \o c : c \in Compositions(n - k)} : k \in 1..n}
NoFault == [kind |-> "none", at |-> 0]

Init == /\ total \in 0..MaxTotal /\ need \in 0..total
        /\ segs \in Compositions(total)
        /\ fault \in {NoFault} \cup {[kind |-> k, at |-> a] : k \in {"eof", "err"}, a \in 0..total}
        /\ pos = 0 /\ got = 0 /\ status = "reading"

\* bytes the transport hands out for a Read(want) at position pos
SegEnd(p) == LET ends == {Sum(SubSeq(segs, 1, i)) : i \in 1..Len(segs)} IN
             IF {e \in ends : e > p} = {} THEN p ELSE CHOOSE e \in {x \in ends : x > p} : \A y \in {x \in ends : x > p} : e <= y
FaultHere(p) == fault.kind # "none" /\ fault.at = p
Deliver(want) == LET lim1 == SegEnd(pos) - pos
                     lim2 == IF fault.kind # "none" /\ fault.at > pos THEN fault.at - pos ELSE want
                     m == IF want < lim1 THEN want ELSE lim1
                 IN IF m < lim2 THEN m ELSE lim2

\* the full-read loop every conforming decoder implements (possibly through io.ReadFull)
ReadStep ==
  /\ status = "reading"
  /\ IF got = need THEN status' = "ok" /\ UNCHANGED <<pos, got>>
     ELSE IF FaultHere(pos) \/ pos = total THEN status' = "error" /\ UNCHANGED <<pos, got>>
     ELSE LET n == Deliver(need - got) IN pos' = pos + n /\ got' = got + n /\ status' = "reading"
  /\ UNCHANGED <<total, need, segs, fault>>
Next == ReadStep
Spec == Init /\ [][Next]_vars /\ WF_vars(Next)

\* what the property demands of the final outcome, as a function of (need, fault) only
Demand(nd, f, tot) == IF f.kind = "none" \/ f.at >= nd THEN "ok" ELSE "error"
Outcome == status # "reading" => /\ status = Demand(need, fault, total)
                                 /\ status = "ok" => got = need /\ pos = need      \* residual = total - need, whatever the segmentation
Progress == <>(status # "reading")
\* writer side: a sink accepting `limit` bytes of a `size`-byte output
CONSTANT EmitJson
Emit == (EmitJson /\ status = "reading" /\ pos = 0 /\ got = 0) => PrintT(ToJson([total |-> total, need |-> need, segs |-> segs, fault |-> fault]))
WriterDemand(size, limit) == IF limit < size THEN "error" ELSE "ok"
=============================================================================
