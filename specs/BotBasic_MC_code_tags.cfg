SPECIFICATION Spec
CONSTANTS
  LoginToks = {0, 1}
  SpawnToks = {2}
  Ids = {5}
  Keys = {1}
  Pays = {0, 7}
  KnownRegs = {1}
  Regs = {1, 3}
  TagToks = {1}
  NEnt = 2
  MaxSecs = 1
  SetVals <- MC_SetsQ
  Healths <- MC_HealthsQ
  FailSets <- MC_FailsQ
  Lsts <- MC_LstsQ
  Variant = "code"
VIEW View
INVARIANTS TypeOK
PROPERTIES TagsRule
CHECK_DEADLOCK FALSE
