SPECIFICATION Spec
CONSTANTS
  RowLen = 1
  MaxChestType = 1
  NCraft = 1
  NArmor = 1
  NMain = 1
  NHot = 1
  Wins = {0, 1, 2}
  Types = {0, 2}
  Items = {1}
  Sids = {1}
  Titles = {1}
  FullContent = FALSE
  Variant = "intent"
VIEW View
INVARIANTS TypeOK InventoryAlways Layout Agree
PROPERTIES OpenRule CloseRule SlotRule ContentRule ClickRule
CHECK_DEADLOCK FALSE
