SPECIFICATION TraceSpec
CONSTANTS
  Fmts = {}
  EmitJson = FALSE
  Quick = TRUE
  Mode = "none"
  MaxLen = 0
  Alpha = {}
  QAlpha = {}
INVARIANTS PrintTotal PrintRound PrintDecided PrintFaithful PrintBack PrintStable
CHECK_DEADLOCK FALSE
