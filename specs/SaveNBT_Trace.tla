--------------------------- MODULE SaveNBT_Trace ----------------------------
(* X05 (b): the save package (level.dat, player data, chunks, sections,       *)
(* entities) read and written through its typed structs, judged with the       *)
(* EXISTING NBT specification: NBT!DecDoc decides what the bytes are,          *)
(* NBTMap!EncodeGo is the documented Go mapping, NBT!Same the equality of      *)
(* trees, NBT_Trace!DecOK judges the generic decode.  This module only adds    *)
(* the line kind "save" (one document: typed decode, re-encode, decode again,  *)
(* encode again) and the thin operators that align a document with a type      *)
(* expression:                                                                  *)
(*   DeclPart  - the declared-fields subset of a document's tree                *)
(*   Diff      - Same, walked along the type so that it can name the field      *)
(*   FitAt     - where the document does not carry the declared types            *)
(* Type expressions are those of NBTMap plus [k |-> "raw"] (nbt.RawMessage:     *)
(* abstract value = tag id followed by the payload bytes) and "n" (length) on   *)
(* arrays.  A line is never a TLC violation: the failed checks are printed.     *)
EXTENDS NBT_Trace

Ix(s) == 1..Len(s)
RECURSIVE Deref(_)
Deref(T) == IF T.k = "ptr" THEN Deref(T.e) ELSE T
Iface == [k |-> "iface"]
IntKinds == {"bool", "i8", "u8", "i16", "u16", "i32", "u32", "i64", "u64"}
MinOf(S) == CHOOSE m \in S : \A y \in S : m <= y
MaxOf(S) == IF S = {} THEN 0 ELSE CHOOSE m \in S : \A y \in S : y <= m
MapMark == <<123, 125>>        \* "{}" stands for any map key in a path
ListMark == <<91, 93>>         \* "[]" stands for any list position

\* declared fields of a struct: skipped fields left out, embedded structs promoted in place
RECURSIVE Fields(_)
Fields(fs) == IF fs = <<>> THEN <<>>
              ELSE LET f == Head(fs) IN
                   (IF f.skip THEN <<>> ELSE IF f.emb THEN Fields(Deref(f.ty).fs) ELSE <<f>>) \o Fields(Tail(fs))
Decl(fs, key) == {j \in Ix(fs) : fs[j].name = key}
Fold(c) == IF c >= 65 /\ c <= 90 THEN c + 32 ELSE c
FoldStr(s) == [i \in Ix(s) |-> Fold(s[i])]

\* NBTMap knows nothing of RawMessage: it is mapped as an opaque string of bytes (tag id ++ payload)
RECURSIVE Lower(_)
Lower(T) == CASE T.k = "raw" -> [k |-> "str"]
              [] T.k \in {"slice", "array", "map", "ptr"} -> [k |-> T.k, e |-> Lower(T.e)]
              [] T.k = "struct" -> [k |-> "struct", fs |-> [i \in Ix(T.fs) |-> [T.fs[i] EXCEPT !.ty = Lower(@)]]]
              [] OTHER -> T

\* the part of a document that a type declares; raw positions folded into the same opaque string
\* (EncP of the decoded subtree = the payload bytes, NBT!RoundTrip); keep = unknown entries stay
RECURSIVE DeclPart(_, _, _)
DeclPart(x, T0, keep) ==
  LET T == Deref(T0) IN
  CASE T.k = "raw" -> [t |-> 8, v |-> <<x.t>> \o EncP(x)]
    [] T.k = "struct" /\ x.t = 10 ->
         LET fs == Fields(T.fs) IN
         [t |-> 10, v |-> FlattenSeq([i \in Ix(x.v) |->
              LET m == Decl(fs, x.v[i].k) IN
              IF m = {} THEN (IF keep THEN <<x.v[i]>> ELSE <<>>)
              ELSE <<[k |-> x.v[i].k, n |-> DeclPart(x.v[i].n, fs[MinOf(m)].ty, keep)]>>])]
    [] T.k = "map" /\ x.t = 10 -> [t |-> 10, v |-> [i \in Ix(x.v) |-> [k |-> x.v[i].k, n |-> DeclPart(x.v[i].n, T.e, keep)]]]
    [] T.k \in {"slice", "array"} /\ x.t = 9 ->
         LET vs == [i \in Ix(x.v) |-> DeclPart(x.v[i], T.e, keep)] IN
         [t |-> 9, et |-> IF Len(vs) = 0 THEN x.et ELSE vs[1].t, v |-> vs]
    [] OTHER -> x

\* the value a field has when the document does not mention it
RECURSIVE ZeroTree(_)
ZeroTree(n) == CASE n.t \in 1..7 -> \A i \in Ix(n.v) : n.v[i] = 0
                 [] n.t = 8 -> n.v = <<>> \/ n.v = <<0>>                   \* <<0>> = a RawMessage that holds nothing
                 [] n.t = 9 -> \A i \in Ix(n.v) : ZeroTree(n.v[i])
                 [] n.t = 10 -> \A i \in Ix(n.v) : ZeroTree(n.v[i].n)
                 [] n.t \in {11, 12} -> \A i \in Ix(n.v) : \A j \in Ix(n.v[i]) : n.v[i][j] = 0
                 [] OTHER -> TRUE

\* NBT!Same walked along the type: the set of paths at which tree a (document side) and tree b (value
\* side) differ.  sub: entries that only b has are allowed at struct positions if they hold the zero value
\* (declared fields the document lacks).  Leaves and everything the type does not structure: Same both ways.
RECURSIVE Diff(_, _, _, _, _)
Diff(a, b, T0, sub, p) ==
  LET T == Deref(T0) IN
  IF T.k \in {"struct", "map", "iface"} /\ a.t = 10 /\ b.t = 10 THEN
       LET fs == IF T.k = "struct" THEN Fields(T.fs) ELSE <<>>
           ety(key) == IF T.k = "map" THEN T.e
                       ELSE IF T.k = "iface" \/ Decl(fs, key) = {} THEN Iface ELSE fs[MinOf(Decl(fs, key))].ty
           step(key) == IF T.k = "struct" THEN Append(p, key) ELSE Append(p, MapMark)
       IN UNION {LET m == {j \in Ix(b.v) : b.v[j].k = a.v[i].k} IN
                 IF m = {} THEN {step(a.v[i].k)}
                 ELSE Diff(a.v[i].n, b.v[MinOf(m)].n, ety(a.v[i].k), sub, step(a.v[i].k)) : i \in Ix(a.v)}
          \cup UNION {IF \E i \in Ix(a.v) : a.v[i].k = b.v[j].k THEN {}
                      ELSE IF sub /\ T.k = "struct" /\ ZeroTree(b.v[j].n) THEN {}
                      ELSE {step(b.v[j].k)} : j \in Ix(b.v)}
  ELSE IF T.k \in {"slice", "array", "iface"} /\ a.t = 9 /\ b.t = 9 THEN
       IF Len(a.v) # Len(b.v) \/ (Len(a.v) > 0 /\ a.et # b.et) THEN {p}
       ELSE UNION {Diff(a.v[i], b.v[i], IF T.k = "iface" THEN Iface ELSE T.e, sub, Append(p, ListMark)) : i \in Ix(a.v)}
  ELSE IF Same(a, b) /\ Same(b, a) THEN {} ELSE {p}

\* does the document carry what the type declares?  The set of <<path, level>> where it does not:
\* level 1 = grey (wider / narrower integer and float kinds, list/array crossings, array lengths: nothing is
\* required of the decoder there), level 2 = no (another category of value: number / text / sequence / compound).
\* No entry = yes: the position is in the image of the documented mapping.
RECURSIVE FitAt(_, _, _, _)
FitAt(x, T0, lst, p) ==
  LET T == Deref(T0)
      lev(n) == IF n = 0 THEN {} ELSE {<<p, n>>}
  IN
  CASE T.k \in {"raw", "iface"} -> {}
    [] T.k \in IntKinds -> lev(IF x.t \in 1..4 THEN (IF x.t = ScalarTag(T.k) THEN 0 ELSE 1) ELSE 2)
    [] T.k \in {"f32", "f64"} -> lev(IF x.t \in 5..6 THEN (IF x.t = ScalarTag(T.k) THEN 0 ELSE 1) ELSE 2)
    [] T.k = "str" -> lev(IF x.t = 8 THEN 0 ELSE 2)
    [] T.k = "struct" -> IF x.t # 10 THEN lev(2)
                         ELSE LET fs == Fields(T.fs) IN
                              UNION {LET m == Decl(fs, x.v[i].k) IN
                                     IF m = {} THEN {} ELSE FitAt(x.v[i].n, fs[MinOf(m)].ty, fs[MinOf(m)].list, Append(p, x.v[i].k)) : i \in Ix(x.v)}
    [] T.k = "map" -> IF x.t # 10 THEN lev(2) ELSE UNION {FitAt(x.v[i].n, T.e, FALSE, Append(p, MapMark)) : i \in Ix(x.v)}
    [] T.k \in {"slice", "array"} ->
         LET el == Deref(T.e)
             arrayTag == IF el.k \in IntKinds THEN (CASE ScalarTag(el.k) = 1 -> 7 [] ScalarTag(el.k) = 3 -> 11 [] ScalarTag(el.k) = 4 -> 12 [] OTHER -> 0) ELSE 0
             lenOK == T.k = "slice" \/ T.n = Len(x.v)
         IN IF x.t \in {7, 11, 12} THEN lev(IF el.k \notin IntKinds THEN 2 ELSE IF ~lst /\ x.t = arrayTag /\ lenOK THEN 0 ELSE 1)
            ELSE IF x.t = 9 THEN UNION {FitAt(x.v[i], T.e, FALSE, Append(p, ListMark)) : i \in Ix(x.v)}
                                 \cup lev(IF (arrayTag # 0 /\ ~lst) \/ ~lenOK THEN 1 ELSE 0)
            ELSE lev(2)
FitLevel(S) == MaxOf({r[2] : r \in S})
FitPaths(S) == {r[1] : r \in S}

\* entries of the document that no declared field takes / declared fields that the document lacks
RECURSIVE Unknown(_, _, _), Absent(_, _, _), FoldPairs(_, _, _)
Unknown(x, T0, p) ==
  LET T == Deref(T0) IN
  IF T.k = "struct" /\ x.t = 10 THEN
       LET fs == Fields(T.fs) IN
       UNION {LET m == Decl(fs, x.v[i].k) IN
              IF m = {} THEN {Append(p, x.v[i].k)} ELSE Unknown(x.v[i].n, fs[MinOf(m)].ty, Append(p, x.v[i].k)) : i \in Ix(x.v)}
  ELSE IF T.k = "map" /\ x.t = 10 THEN UNION {Unknown(x.v[i].n, T.e, Append(p, MapMark)) : i \in Ix(x.v)}
  ELSE IF T.k \in {"slice", "array"} /\ x.t = 9 THEN UNION {Unknown(x.v[i], T.e, Append(p, ListMark)) : i \in Ix(x.v)}
  ELSE {}
Absent(x, T0, p) ==
  LET T == Deref(T0) IN
  IF T.k = "struct" /\ x.t = 10 THEN
       LET fs == Fields(T.fs) IN
       UNION {LET m == {i \in Ix(x.v) : x.v[i].k = fs[j].name} IN
              IF m = {} THEN {Append(p, fs[j].name)} ELSE Absent(x.v[MinOf(m)].n, fs[j].ty, Append(p, fs[j].name)) : j \in Ix(fs)}
  ELSE IF T.k = "map" /\ x.t = 10 THEN UNION {Absent(x.v[i].n, T.e, Append(p, MapMark)) : i \in Ix(x.v)}
  ELSE IF T.k \in {"slice", "array"} /\ x.t = 9 THEN UNION {Absent(x.v[i], T.e, Append(p, ListMark)) : i \in Ix(x.v)}
  ELSE {}
\* an entry whose name matches a declared field only when letter case is ignored: the documentation says
\* nothing about it (encoding/json matches such names, the format is case-sensitive).  Grey: the pairs
\* [f |-> path of the declared field, e |-> path of the entry] are taken out of the verdicts.
FoldPairs(x, T0, p) ==
  LET T == Deref(T0) IN
  IF T.k = "struct" /\ x.t = 10 THEN
       LET fs == Fields(T.fs) IN
       UNION {LET m == Decl(fs, x.v[i].k) IN
              IF m = {} THEN {[f |-> Append(p, fs[j].name), e |-> Append(p, x.v[i].k)] : j \in {j \in Ix(fs) : FoldStr(fs[j].name) = FoldStr(x.v[i].k)}}
              ELSE FoldPairs(x.v[i].n, fs[MinOf(m)].ty, Append(p, x.v[i].k)) : i \in Ix(x.v)}
  ELSE IF T.k = "map" /\ x.t = 10 THEN UNION {FoldPairs(x.v[i].n, T.e, Append(p, MapMark)) : i \in Ix(x.v)}
  ELSE IF T.k \in {"slice", "array"} /\ x.t = 9 THEN UNION {FoldPairs(x.v[i], T.e, Append(p, ListMark)) : i \in Ix(x.v)}
  ELSE {}

\* Go maps are written in no particular order: byte equality is only asked of types without maps
RECURSIVE MapFree(_)
MapFree(T) == CASE T.k \in {"map", "iface"} -> FALSE
                [] T.k \in {"slice", "array", "ptr"} -> MapFree(T.e)
                [] T.k = "struct" -> \A i \in Ix(T.fs) : T.fs[i].skip \/ MapFree(T.fs[i].ty)
                [] OTHER -> TRUE

Root == <<>>
\* ---------------------------------------------------------------- the line kind "save"
\* E.input: the document; E.ty: type expression of the destination; E.d1 / E.e1 / E.d2 / E.e2: typed decode of
\* the input, its re-encoding, the decode of that, the encoding of that ([ok, panicked, n, val] / [ok, panicked,
\* bytes]); E.has1 / has2 / has3: the step was executed; E.fixture: an unchanged fixture document (it MUST load);
\* E.strict: the entry point disallows unknown fields; E.hasn: the entry point tells how much it consumed.
SaveFails ==
  LET T == E.ty
      LT == Lower(T)
      d == DecDoc("file", E.input)
      tree == Norm(d.tree)
      folds == IF d.ok THEN FoldPairs(tree, T, Root) ELSE {}
      unk == IF d.ok THEN Unknown(tree, T, Root) \ {r.e : r \in folds} ELSE {}
      fits == IF d.ok THEN FitAt(tree, T, FALSE, Root) ELSE {}
      fit == IF d.ok THEN FitLevel(fits) ELSE 2
      \* a changed document is judged where it carries the declared types: differences at grey positions are not
      \* reported (an unchanged fixture is judged everywhere: the structs are meant for it)
      seen(ps) == (IF E.fixture THEN ps ELSE ps \ FitPaths(fits)) \ {r.f : r \in folds}
      nodup == d.ok /\ NoDupKeys(d.tree)
      mustReject == d.ok /\ E.strict /\ unk # {}
      \* an unchanged fixture must load whatever the entry point's options (the repository's tests load them):
      \* a strict entry point and a struct that lacks a field of the fixture contradict each other
      mustLoad == d.ok /\ (E.fixture \/ (fit = 0 /\ ~mustReject /\ folds = {}))
      judgeVal == d.ok /\ E.d1.ok /\ nodup /\ (E.fixture \/ fit <= 1)
      want == DeclPart(tree, T, FALSE)
      got1 == Norm(EncodeGo(LT, E.d1.val))
      r1 == DecDoc("file", E.e1.bytes)
      r1ok == E.has2 /\ E.e1.ok /\ r1.ok /\ r1.n = Len(E.e1.bytes)
      tree1 == Norm(r1.tree)
      r2 == DecDoc("file", E.e2.bytes)
      fail(c, ps) == [c |-> c, p |-> ps]
  IN (IF E.fixture /\ ~(d.ok /\ d.n = Len(E.input)) THEN {fail("FixtureWellFormed", {Root})} ELSE {})
     \cup (IF E.d1.panicked \/ (E.has2 /\ E.e1.panicked) \/ (E.has3 /\ (E.d2.panicked \/ E.e2.panicked)) THEN {fail("NoPanic", {Root})} ELSE {})
     \cup (IF ~d.ok /\ d.why \in {"short", "neg", "tag"} /\ E.d1.ok THEN {fail("MalformedRejected", {Root})} ELSE {})
     \cup (IF d.ok /\ fit = 2 /\ ~E.fixture /\ E.d1.ok THEN {fail("WrongTypeRejected", {Root})} ELSE {})
     \cup (IF mustReject /\ E.d1.ok THEN {fail("StrictRejectsUnknown", IF E.fixture THEN unk ELSE {Root})} ELSE {})
     \cup (IF (mustLoad /\ ~E.d1.panicked /\ ~E.d1.ok) \/ (d.ok /\ E.d1.ok /\ E.hasn /\ E.d1.n # d.n)
           THEN {fail("TypedDecodes", IF E.fixture /\ mustReject /\ ~E.d1.ok THEN unk ELSE {Root})} ELSE {})   \* names the fields a strict entry point stumbles over
     \cup (IF judgeVal THEN LET ps == seen(Diff(want, got1, T, TRUE, Root)) IN IF ps = {} THEN {} ELSE {fail("TypedAgree", ps)} ELSE {})
     \cup (IF judgeVal /\ E.has2 /\ ~E.e1.panicked THEN
              IF ~r1ok THEN {fail("EncodeOK", {Root})}
              ELSE LET ps == Diff(DeclPart(tree1, T, TRUE), got1, T, FALSE, Root) IN
                   (IF ps = {} /\ r1.name = <<>> THEN {} ELSE {fail("EncodeOK", ps \cup (IF r1.name = <<>> THEN {} ELSE {Root}))})
                   \cup (LET qs == seen(Diff(want, DeclPart(tree1, T, TRUE), T, TRUE, Root)) IN IF qs = {} THEN {} ELSE {fail("DocFixpoint", qs)})
           ELSE {})
     \cup (IF judgeVal /\ r1ok /\ E.has3 /\ ~E.d2.panicked /\ ~E.e2.panicked THEN
              (IF ~E.d2.ok THEN {fail("ValueFixpoint", {Root})}
               ELSE LET ps == Diff(got1, Norm(EncodeGo(LT, E.d2.val)), T, FALSE, Root) IN IF ps = {} THEN {} ELSE {fail("ValueFixpoint", ps)})
              \cup (IF ~E.d2.ok THEN {}
                    ELSE IF ~(E.e2.ok /\ r2.ok /\ r2.n = Len(E.e2.bytes)) THEN {fail("ByteFixpoint", {Root})}
                    ELSE IF E.e2.bytes = E.e1.bytes THEN {}
                    ELSE IF MapFree(T) THEN {fail("ByteFixpoint", {Root})}
                    ELSE LET ps == Diff(tree1, Norm(r2.tree), Iface, FALSE, Root) IN IF ps = {} THEN {} ELSE {fail("ByteFixpoint", ps)})
           ELSE {})

\* what the structs do not take from the document, and what they declare beyond it (informational)
SaveInfo == LET d == DecDoc("file", E.input) IN
            IF d.ok THEN [unknown |-> Unknown(Norm(d.tree), E.ty, Root), absent |-> Absent(Norm(d.tree), E.ty, Root), grey |-> FoldPairs(Norm(d.tree), E.ty, Root) # {}]
            ELSE [unknown |-> {}, absent |-> {}, grey |-> FALSE]

\* how TLC classified a changed document (evidence that the mutation checks are not vacuous)
SaveClass == LET d == DecDoc("file", E.input) IN
             [dok |-> d.ok, why |-> d.why, fit |-> IF d.ok THEN FitLevel(FitAt(Norm(d.tree), E.ty, FALSE, Root)) ELSE 2,
              nodup |-> d.ok /\ NoDupKeys(d.tree), unknown |-> d.ok /\ Unknown(Norm(d.tree), E.ty, Root) # {}]

SaveJudge == E.k = "save" =>
  LET f == SaveFails IN
  /\ (f # {} => PrintT(ToJson([x5 |-> "fail", l |-> l, fails |-> f])))
  /\ (E.info => PrintT(ToJson([x5 |-> "info", l |-> l, info |-> SaveInfo])))
  /\ (~E.fixture => PrintT(ToJson([x5 |-> "class", l |-> l, class |-> SaveClass])))
\* the generic decode of the same documents: NBT_Trace!DecOK as it stands
DecJudge == (E.k = "dec" /\ ~DecOK) => PrintT(ToJson([x5 |-> "fail", l |-> l, fails |-> {[c |-> "GenericDecode", p |-> {Root}]}]))
=============================================================================
