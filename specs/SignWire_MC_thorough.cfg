SPECIFICATION Spec
CONSTANTS
  EmitJson = TRUE
  Big = TRUE
INVARIANTS RoundTrip PrefixFails Emit
CHECK_DEADLOCK FALSE
