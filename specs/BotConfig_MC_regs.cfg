SPECIFICATION Spec
CONSTANTS
  Ids = {}
  Keys = {}
  Pays = {}
  Uuids = {}
  RpToks = {}
  StackMax = 0
  KnownRegs = {1, 2}
  Regs = {1, 2, 3}
  RKeys = {1, 2}
  TagToks = {1}
  MaxEnt = 2
  MaxSecs = 1
  FeatLists = {}
  PackLists = {}
  DetailLists = {}
  UnknownIds = {}
  Handlers <- MC_Handlers0
  LateKinds = {}
  LateMax = 0
  Variant = "intent"
VIEW View
INVARIANTS TypeOK NothingWaiting RegsValid Agree
PROPERTIES EndRule FinishRule NothingAfterEnd QueueRule DisconnectRule AnsweredOnceInOrder EchoRule CookieRule StoreRule UnknownIdRule RegistryRule TagsRule PushRule PopRule PopAllRule HandlerRule SelectRule FrameRule DetailsRule WriteFailRule NoPanic
CHECK_DEADLOCK FALSE
