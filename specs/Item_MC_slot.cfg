SPECIFICATION Spec
CONSTANTS
  EmitJson = FALSE
  Form = "p767"
  Wide = FALSE
INVARIANTS TypeOK SlotSelf
CHECK_DEADLOCK FALSE
