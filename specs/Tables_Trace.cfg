SPECIFICATION TraceSpec
CONSTANTS
  Doms = {}
  MaxProps = 0
  MaxBlocks = 0
  Order = "last"
  Fault = "none"
  MaxEnts = 0
  TypeMax = 0
  Intent = FALSE
  TextTokens = {}
  MaxVals = 0
  ErrDest = "keep"
  EIdTokens = {}
  EBlocks = {}
  MaxEntities = 0
  Strict = FALSE
INVARIANTS Check
CHECK_DEADLOCK FALSE
