SPECIFICATION Spec
CONSTANTS
  LitNames <- MC_Names2
  ArgNames <- MC_Name1
  Parsers = {0, 1, 2}
  Handlers = {1, 2, 3}
  OwnHandler = TRUE
  SymBreak = TRUE
  Unhandles = FALSE
  MaxNodes = 3
  MaxKids = 2
  Lines <- MC_Lines
  Alphabet = {97, 98, 32, 34, 92}
  LineLen = 2
  LineToks = 3
  Variant = "intent"
  WireBreak = "none"
VIEW View
INVARIANTS TypeOK WellFormed StageMatches RootOnlyLiterals RoundTrip ExecAll ExecComplete
CHECK_DEADLOCK FALSE
