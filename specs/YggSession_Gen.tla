--------------------------- MODULE YggSession_Gen ---------------------------
(* Behaviour generator for leg A of X12/YggSession: the model of the code (Variant = "code") with three users, three  *)
(* client slots, two server ids, one injecting and one garbling name and every fault.  A running hash `r` of the     *)
(* randomly chosen arguments selects the class of the NEXT call and whether it meets a fault (one call of three), so *)
(* that no class dominates by its number of arguments; credentials are mostly good, SetTokens mostly copies the      *)
(* tokens of another slot (a saved session loaded into a second Access), otherwise stale, empty or unknown ones.     *)
(* This module only chooses which behaviours are replayed on the real clients; it proves nothing.                    *)
EXTENDS YggSession

VARIABLE r
gvars == <<vars, r>>
sel == r % 14
fsel == (r \div 14) % 3
(* the selectors of the next call follow from a running hash of the (randomly chosen) arguments of this one *)
H(p) == p.slot + 3 * p.user + 5 * p.sid + 7 * p.name + 11 * p.f.st + (IF p.good THEN 13 ELSE 0) + (IF p.at > 0 THEN p.at ELSE 2)
        + (CASE p.f.b = "errdoc" -> 17 [] p.f.b = "empty" -> 19 [] p.f.b = "html" -> 23 [] p.f.b = "json" -> 29 [] p.f.b = "neterr" -> 31
             [] p.f.b = "cut" -> 37 [] p.f.b = "mistyped" -> 41 [] OTHER -> (IF p.f.k = "transport" THEN 43 ELSE 0))
GDo(p) == Do(p) /\ r' = (r * 31 + H(p) + s.ctr + 7) % 1009
Fs(k) == IF fsel = 0 THEN {f \in AllFaults : Applies(k, f)} ELSE {NoF}
Older(x) == IF x > 1 THEN x - 1 ELSE x
Can == s.nct <= MaxCt /\ s.ctr <= MaxTok
GenNext ==
  \/ \E x \in Slots, u \in Users, f \in Fs("authenticate") :
       sel \in {0, 1} /\ Can /\ GDo(P("authenticate", x, u, TRUE, 0, 0, 0, 0, FALSE, f))
  \/ \E x \in Slots, u \in Users \cup {0}, f \in Fs("authenticate") :
       sel = 2 /\ Can /\ GDo(P("authenticate", x, u, u = 0, 0, 0, 0, 0, FALSE, f))
  \/ \E x \in Slots, f \in Fs("refresh") : sel \in {3, 4, 5} /\ Can /\ GDo(P("refresh", x, 0, FALSE, 0, 0, 0, 0, FALSE, f))
  \/ \E x \in Slots, f \in Fs("refresh") : sel = 6 /\ fsel = 1 /\ Can /\ GDo(P("refresh", x, 1, FALSE, 0, 0, 0, 0, TRUE, f))
  \/ \E x \in Slots, f \in Fs("validate") : sel \in {7, 8} /\ GDo(P("validate", x, 0, FALSE, 0, 0, 0, 0, FALSE, f))
  \/ \E x \in Slots, f \in Fs("invalidate") : sel = 6 /\ fsel # 1 /\ GDo(P("invalidate", x, 0, FALSE, 0, 0, 0, 0, FALSE, f))
  \/ \E u \in Users \cup {0}, g \in BOOLEAN, f \in Fs("signout") : sel = 9 /\ GDo(P("signout", 0, u, g \/ u = 1, 0, 0, 0, 0, FALSE, f))
  \/ \E x, y \in Slots : sel = 10 /\ fsel # 2 /\ x # y /\ GDo(P("settokens", x, 0, FALSE, s.cl[y].at, s.cl[y].ct, 0, 0, FALSE, NoF))
  \/ \E x \in Slots : \E at \in {0, Bogus, Older(s.cl[x].at), s.ctr - 1}, ct \in {0, Bogus, s.cl[x].ct} :
       sel = 10 /\ fsel = 2 /\ GDo(P("settokens", x, 0, FALSE, at, ct, 0, 0, FALSE, NoF))
  \/ \E x \in Slots, sid \in SIds, f \in Fs("join") : sel \in {11, 12} /\ GDo(P("join", x, 0, FALSE, 0, 0, sid, 0, FALSE, f))
  \/ \E nm \in Names, sid \in SIds, f \in Fs("hasjoined") : sel = 13 /\ GDo(P("hasjoined", 0, 0, FALSE, 0, 0, sid, nm, FALSE, f))
GenSpec == Init /\ r \in 0..1008 /\ [][GenNext]_gvars
=============================================================================
