---------------------------- MODULE KeepAlive_Gen ----------------------------
(* Behaviour generator for leg A of X01: the timed model of keepalive.go as it *)
(* is (Variant = "code"), simulated by TLC.  `obs` already names every step.   *)
(* Environment steps are thinned (at most one between two steps of the clock / *)
(* the timers; a uniform walk would hardly let time pass) - this module only   *)
(* chooses which behaviours are replayed, it proves nothing.                   *)
EXTENDS KeepAlive
GenNext == \/ Tick \/ PingFire \/ KickFire
           \/ (obs[1] \in {"init", "tick", "ping", "kick", "idle"} /\ Env)
GenSpec == Init /\ [][GenNext]_vars
=============================================================================
