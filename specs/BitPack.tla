------------------------------ MODULE BitPack ------------------------------
(***************************************************************************)
(* Minecraft >= 1.16 "simple bit storage" packing rules shared by          *)
(* BitStorage.tla (C11) and Palette.tla (C12).                             *)
(*                                                                         *)
(* A long holds VPL(b) = floor(64/b) values; value k of a long occupies    *)
(* bits k*b .. k*b+b-1 counted from the least significant bit; the top     *)
(* 64 - VPL(b)*b bits are padding; no value spans two longs.  A long is    *)
(* never a number here (TLC integers are 32-bit): it is the tuple of its   *)
(* slots.  A value is the tuple of the four 16-bit limbs (most significant *)
(* first) of its 64-bit two's-complement pattern, so that out-of-range     *)
(* arguments (negative, >= 2^b, >= 2^32) can be written down as well.      *)
(***************************************************************************)
EXTENDS Integers, Sequences, FiniteSets

VPL(b) == IF b = 0 THEN 0 ELSE 64 \div b
CalcSize(b, n) == IF b = 0 THEN 0 ELSE (n + VPL(b) - 1) \div VPL(b)
LongOf(b, i) == i \div VPL(b)
SlotOf(b, i) == i % VPL(b)

(* what "the packing" means, stated without the closed form: slots do not overlap and do not cross the
   top of the long, one more slot would not fit, and CalcSize is the least number of longs that offers
   n slots *)
PackingOK(b, n) ==
  b >= 1 => LET v == VPL(b)  L == CalcSize(b, n) IN
            /\ v >= 1 /\ v * b <= 64 /\ (v + 1) * b > 64
            /\ L * v >= n /\ (L > 0 => (L - 1) * v < n)
            /\ (n > 0 => LongOf(b, n - 1) = L - 1)

VarIntLen(x) == IF x < 128 THEN 1 ELSE IF x < 16384 THEN 2 ELSE IF x < 2097152 THEN 3
                ELSE IF x < 268435456 THEN 4 ELSE 5

\* ---------------------------------------------------------------- values as limbs
Zero == <<0, 0, 0, 0>>
IsLimbs(v) == Len(v) = 4 /\ \A k \in 1..4 : v[k] \in 0..65535
InRange(b, v) ==          \* 0 <= v <= 2^b - 1 on the 64-bit pattern
  /\ v[1] = 0 /\ v[2] = 0
  /\ IF b >= 32 THEN TRUE
     ELSE IF b > 16 THEN v[3] < 2^(b - 16)
     ELSE v[3] = 0 /\ v[4] < 2^b
Pow2(e) == [k \in 1..4 |-> IF 4 - k = e \div 16 THEN 2^(e % 16) ELSE 0]      \* e in 0..63
MaxVal(b) == IF b = 0 THEN Zero
             ELSE IF b <= 16 THEN <<0, 0, 0, 2^b - 1>>
             ELSE <<0, 0, 2^(b - 16) - 1, 65535>>
AltVal(b) == IF b <= 16 THEN <<0, 0, 0, 21845 % (2^b)>>                      \* 0101...01 cut to b bits
             ELSE <<0, 0, 21845 % (2^(b - 16)), 21845>>
=============================================================================
