----------------------------- MODULE Chan_Trace -----------------------------
(* FIFO channel of packets (C10, Conn clause): two go-mc net.Conn ends with   *)
(* SetCipher on both sides, with or without compression.  Every packet sent   *)
(* on one end is received on the other intact and in order: what has been     *)
(* received is always a prefix of what has been sent, and at the end of a     *)
(* session nothing is left undelivered.  Packets are (id, length, sha256 of   *)
(* the data) triples computed by the harness from what it passed to           *)
(* WritePacket / got from ReadPacket.                                         *)
EXTENDS Integers, Sequences, TLC, Json

Trace == ndJsonDeserialize("trace.ndjson")

Dirs == {"ab", "ba"}
VARIABLES chan, nsent, nrecv, l
vars == <<chan, nsent, nrecv, l>>

Ev == Trace[l]
IsEvent(k) == l <= Len(Trace) /\ Trace[l].k = k /\ l' = l + 1
Pkt(e) == [id |-> e.id, len |-> e.len, sha |-> e.sha]

Init == chan = [d \in Dirs |-> <<>>] /\ nsent = 0 /\ nrecv = 0 /\ l = 1

TReset == IsEvent("reset") /\ chan' = [d \in Dirs |-> <<>>] /\ nsent' = 0 /\ nrecv' = 0

Send == /\ IsEvent("send") /\ Ev.d \in Dirs /\ Ev.ok            \* WritePacket on a healthy connection succeeds
        /\ chan' = [chan EXCEPT ![Ev.d] = Append(@, Pkt(Ev))]
        /\ nsent' = nsent + 1 /\ UNCHANGED nrecv

Recv == /\ IsEvent("recv") /\ Ev.d \in Dirs
        /\ chan[Ev.d] # <<>>                                    \* nothing is received that was not sent
        /\ Ev.ok /\ Pkt(Ev) = Head(chan[Ev.d])                  \* intact and in order
        /\ chan' = [chan EXCEPT ![Ev.d] = Tail(@)]
        /\ nrecv' = nrecv + 1 /\ UNCHANGED nsent

\* the far end reads when nothing is in flight: no packet may appear
RecvEmpty == /\ IsEvent("recvnone") /\ Ev.d \in Dirs /\ chan[Ev.d] = <<>> /\ Ev.ok = FALSE
             /\ UNCHANGED <<chan, nsent, nrecv>>

End == /\ IsEvent("end") /\ \A d \in Dirs : chan[d] = <<>>      \* everything sent was delivered
       /\ nsent = nrecv
       /\ UNCHANGED <<chan, nsent, nrecv>>

Next == TReset \/ Send \/ Recv \/ RecvEmpty \/ End
Spec == Init /\ [][Next]_vars

PrefixInv == \A d \in Dirs : Len(chan[d]) <= nsent - nrecv

Accepted == LET dm == TLCGet("stats").diameter IN
            /\ PrintT(<<"HWM", dm, Len(Trace) + 1>>)
            /\ dm = Len(Trace) + 1
=============================================================================
