SPECIFICATION Spec
CONSTANTS
  Players = {1, 2, 3, 4}
  P = 3
  W = 7
  MaxId = 2
  Variant = "intended"
  AsyncChan = FALSE
  Urgent = TRUE
INVARIANTS TypeOK InOneList TimeOrder TimersAlive PingTimerNotLate KickTimerNotLate PingOnTime KickOnTime PingTargetsWaiting KickTargetsKicked LeaveRemoves KickNotEarly

CHECK_DEADLOCK TRUE
