SPECIFICATION GenSpec
CONSTANTS
  Owned = {1, 2}
  Member = {3, 4}
  Other = {5}
  Ghost = {9}
  Players = {1, 2, 3, 4}
  FaultSet <- AllFaults
  Variant = "code"
INVARIANTS TypeOK
CHECK_DEADLOCK FALSE
