-------------------------- MODULE ServerLife_Trace ---------------------------
(* Trace validation for X08.  The harness runs a real server.Server (MojangLoginHandler offline, server.PlayerList   *)
(* as LoginChecker / status source / list of the GamePlay) for several concurrent in-memory connections and records   *)
(* one mutex-ordered log: what the clients send / receive / close, and what the harness's own callbacks see          *)
(* (LoginChecker, LoginHandler / ConfigHandler wrappers, ListPingHandler wrapper, GamePlay).  Calls into the shared   *)
(* PlayerList are logged as start / end pairs; the segment of ServerLife.tla that contains the call (Check, Join,    *)
(* Leave, StatusOnline, StatusSample) is a silent step TLC places between them (linearization search, high-water     *)
(* mark per scenario).  Client packets fire their action when they are sent (the server's part of those segments is  *)
(* connection-local).  The transitions are those of the CODE layer; the properties of the INTENT layer and the       *)
(* binding checks are named flags collected in `bad`: a scenario is accepted when its last line is reached with      *)
(* bad = {}; the smallest `bad` at the furthest line is printed per scenario as <<"SC", start, line>>, <<"SB", start, check>>.          *)
(* Many scenarios (all with capacity K) are concatenated; each starts with a `reset` line and is an initial state.   *)
EXTENDS ServerLife, Json

Trace == ndJsonDeserialize("trace.ndjson")
VARIABLES l,     \* next line
          s,     \* line of the scenario's reset event
          bad,   \* names of the checks that failed on the way
          tp     \* per connection: pending call, linearized?, AcceptLogin returned (0 no, 1 ok, 2 error), reason token, received kinds, done
tvars == <<vars, l, s, bad, tp>>
Ev == Trace[l]
Starts == {i \in 1..Len(Trace) : Trace[i].k = "reset"}
IsEvent(k) == l <= Len(Trace) /\ Trace[l].k = k /\ l' = l + 1 /\ s' = s
C == Ev.c
SetOf(t) == {t[j] : j \in 1..Len(t)}
Flag(name, cond) == IF cond THEN {} ELSE {name}
NoCall == [call |-> "none", lin |-> FALSE, lret |-> 0, reason |-> "", got |-> {}, done |-> FALSE]
ServerFull == "multiplayer.disconnect.server_full"

TraceInit ==
  /\ s \in Starts /\ l = s + 1 /\ bad = Flag("Setup", Trace[s].K = K)
  /\ cmode = Trace[s].cmode
  /\ intent = [i \in Clients |-> IF i <= Len(Trace[s].intents) THEN Trace[s].intents[i] ELSE 3]
  /\ pc = [i \in Clients |-> "idle"] /\ alive = [i \in Clients |-> TRUE]
  /\ list = {} /\ resv = {} /\ inside = {}
  /\ acc = [i \in Clients |-> NoId] /\ chk = [i \in Clients |-> "none"] /\ cres = [i \in Clients |-> "none"]
  /\ kicked = [i \in Clients |-> FALSE] /\ cfgok = [i \in Clients |-> FALSE]
  /\ son = [i \in Clients |-> -1] /\ ssam = [i \in Clients |-> {}] /\ cst = [i \in Clients |-> <<>>]
  /\ lens = [i \in Clients |-> {}] /\ slot = 0 /\ down = FALSE
  /\ tp = [i \in Clients |-> NoCall]

Keep == UNCHANGED tp /\ bad' = bad

TConn == IsEvent("conn") /\ Connect(C) /\ Keep

TSend == /\ IsEvent("csend")
         /\ CASE Ev.p = "handshake"  -> Handshake(C)
              [] Ev.p = "loginstart" -> LoginStart(C)
              [] Ev.p = "ack"        -> Ack(C)
              [] Ev.p = "finishack"  -> FinishAck(C)
              [] Ev.p = "statusreq"  -> StatusReq(C)
              [] Ev.p = "ping"       -> Ping(C)
              [] OTHER -> FALSE
         /\ Keep

\* a close after the server has ended the connection changes nothing on the server's side
TClose == /\ IsEvent("cclose")
          /\ IF pc[C] = "closed"
             THEN /\ alive' = [alive EXCEPT ![C] = FALSE]
                  /\ UNCHANGED <<cmode, intent, pc, list, resv, inside, acc, chk, cres, kicked, cfgok, son, ssam, cst, lens, slot, down>>
             ELSE CClose(C)
          /\ Keep

PcFor(op) == CASE op = "check" -> "check" [] op = "join" -> "accept" [] op = "left" -> "play"
               [] op = "online" -> "online" [] op = "sample" -> "sample" [] OTHER -> "?"
TStart == /\ IsEvent("start") /\ tp[C].call = "none" /\ pc[C] = PcFor(Ev.op)
          /\ tp' = [tp EXCEPT ![C].call = Ev.op, ![C].lin = FALSE]
          /\ bad' = bad \cup (IF Ev.op = "check" THEN Flag("NoCrossTalk", Ev.name = C /\ Ev.uuid = C /\ Ev.proto = C) ELSE {})
          /\ UNCHANGED vars

\* the segment that contains the call happens somewhere between its start and its end
LinOf(i) == CASE tp[i].call = "check"  -> Check(i)
              [] tp[i].call = "join"   -> Join(i)
              [] tp[i].call = "left"   -> Leave(i)
              [] tp[i].call = "online" -> StatusOnline(i)
              [] tp[i].call = "sample" -> StatusSample(i)
\* what the list must never do, so that a history in which it does is still read to its end (and named):
\* ClientJoin lets a player into a full list
JoinOver(i) == /\ tp[i].call = "join" /\ pc[i] = "accept" /\ Cardinality(list) >= K
               /\ list' = list \cup {i} /\ Track(list \cup {i}) /\ pc' = [pc EXCEPT ![i] = "play"]
               /\ UNCHANGED <<cmode, intent, alive, resv, inside, acc, chk, cres, kicked, cfgok, son, ssam, cst, slot, down>>
\* CheckPlayer lets a client pass although the list is full
CheckOver(i) == /\ tp[i].call = "check" /\ pc[i] = "check" /\ Cardinality(list) >= K
                /\ chk' = [chk EXCEPT ![i] = "ok"]
                /\ IF alive[i] THEN cres' = [cres EXCEPT ![i] = "succ"] /\ pc' = [pc EXCEPT ![i] = "waitack"] /\ UNCHANGED <<resv, down>>
                               ELSE UNCHANGED cres /\ Closed(i)
                /\ UNCHANGED <<cmode, intent, alive, list, inside, acc, kicked, cfgok, son, ssam, cst, lens, slot>>
TLin == /\ \E i \in Clients :
             /\ tp[i].call # "none" /\ ~tp[i].lin
             /\ \/ LinOf(i) /\ bad' = bad
                \/ JoinOver(i) /\ bad' = bad \cup {"ListBound"}
                \/ CheckOver(i) /\ bad' = bad \cup {"CheckAnswer"}
             /\ tp' = [tp EXCEPT ![i].lin = TRUE]
        /\ UNCHANGED <<l, s>>

TEnd == /\ IsEvent("end") /\ tp[C].call = Ev.op /\ tp[C].lin
        /\ CASE Ev.op = "check"  -> Ev.r = (IF chk[C] = "ok" THEN 1 ELSE 0)
             [] Ev.op = "join"   -> Ev.r = (IF kicked[C] THEN 0 ELSE 1)
             [] Ev.op = "left"   -> TRUE
             [] Ev.op = "online" -> Ev.r = son[C]
             [] Ev.op = "sample" -> SetOf(Ev.sam) = ssam[C]
        /\ tp' = [tp EXCEPT ![C].call = "none", ![C].lin = FALSE, ![C].reason = IF Ev.op = "check" THEN Ev.reason ELSE @]
        /\ bad' = bad \cup (IF Ev.op = "check" /\ Ev.r = 0 THEN Flag("RefusalReason", Ev.reason = ServerFull) ELSE {})
        /\ UNCHANGED vars

\* AcceptLogin returned (wrapper around MojangLoginHandler)
TLRet == /\ IsEvent("lret") /\ tp[C].lret = 0 /\ tp[C].call = "none"
         /\ IF Ev.err THEN IF pc[C] = "check" THEN GiveUp(C) ELSE (pc[C] = "closed" /\ UNCHANGED vars)
                      ELSE pc[C] = "cfg" /\ UNCHANGED vars
         /\ tp' = [tp EXCEPT ![C].lret = IF Ev.err THEN 2 ELSE 1]
         /\ bad' = bad \cup (IF Ev.err THEN {} ELSE Flag("NoCrossTalk", Ev.name = C /\ Ev.uuid = C)
                                                   \cup Flag("RefusedNeverAccepted", chk[C] = "ok"))

\* AcceptConfig is entered / has returned (wrapper around the configuration handler)
TCfgBeg == IsEvent("cfgbeg") /\ tp[C].lret = 1 /\ Config(C) /\ Keep
TCfgRet == /\ IsEvent("cfgret") /\ pc[C] = "cfgret"
           /\ (Ev.err => ~alive[C])                           \* the configuration only fails when the client is gone
           /\ (~Ev.err /\ cmode = "wait" => cfgok[C])         \* a waiting handler returns nil after the acknowledgement only
           /\ cfgok' = [cfgok EXCEPT ![C] = ~Ev.err]          \* the observed result counts (a close races with the writes)
           /\ UNCHANGED <<cmode, intent, pc, alive, list, resv, inside, acc, chk, cres, kicked, son, ssam, cst, lens, slot, down>>
           /\ Keep

TAccept == /\ IsEvent("accept") /\ Accept(C) /\ pc'[C] = "accept"
           /\ UNCHANGED tp
           /\ bad' = bad \cup Flag("NoCrossTalk", Ev.name = C /\ Ev.uuid = C /\ Ev.proto = C /\ Ev.conn = C)
                         \cup Flag("ConfigGate", cfgok[C])
                         \cup Flag("AcceptBound", Cardinality(inside') <= K)
                         \cup Flag("RefusedNeverAccepted", chk[C] = "ok")

\* AcceptPlayer returned: after a refused join, after ClientLeft, or at once
TRet == /\ IsEvent("ret") /\ tp[C].call = "none"
        /\ IF pc[C] = "accept" THEN Decline(C) ELSE (pc[C] = "closed" /\ acc[C] # NoId /\ UNCHANGED vars)
        /\ Keep

\* AcceptConn returned.  After a failed configuration the intent layer ends the connection here (the code layer goes on
\* to AcceptPlayer): both are accepted, ConfigGate is flagged at the accept event.
TDone == /\ IsEvent("done") /\ tp[C].call = "none" /\ ~tp[C].done
         /\ IF pc[C] = "cfgret" /\ ~cfgok[C]
            THEN /\ pc' = [pc EXCEPT ![C] = "closed"]
                 /\ UNCHANGED <<cmode, intent, alive, list, resv, inside, acc, chk, cres, kicked, cfgok, son, ssam, cst, lens, slot, down>>
            ELSE pc[C] = "closed" /\ UNCHANGED vars
         /\ tp' = [tp EXCEPT ![C].done = TRUE] /\ bad' = bad

TRecv == /\ IsEvent("crecv")
         /\ tp' = [tp EXCEPT ![C].got = @ \cup {Ev.p}]
         /\ CASE Ev.p = "success" -> bad' = bad \cup Flag("RefusedNeverAccepted", chk[C] = "ok")
                                                \cup Flag("NoCrossTalk", Ev.name = C /\ Ev.uuid = C)
              [] Ev.p = "disc"    -> bad' = bad \cup Flag("RefusalReason", chk[C] = "full" /\ Ev.reason = tp[C].reason)
              [] Ev.p = "status"  -> /\ cst[C] # <<>>
                                     /\ bad' = bad \cup Flag("StatusRelay", Ev.r = cst[C][1] /\ SetOf(Ev.sam) = cst[C][2] /\ Ev.mx = K)
                                                   \cup Flag("StatusConsistent", Ev.r = Cardinality(SetOf(Ev.sam)))
              [] Ev.p = "pong"    -> pc[C] = "closed" /\ bad' = bad \cup Flag("StatusRelay", Ev.r = 1000 + C)
              [] Ev.p = "eof"     -> pc[C] = "closed" /\ bad' = bad
              [] Ev.p = "finish"  -> pc[C] \notin {"idle", "hs", "login", "check", "waitack"} /\ bad' = bad
              [] OTHER -> FALSE
         /\ UNCHANGED vars

\* all goroutines have left AcceptConn; n = PlayerList.Len(), sam = who is still in the list
TQuiesce == /\ IsEvent("quiesce")
            /\ \A i \in Clients : /\ pc[i] \in {"idle", "closed"} /\ tp[i].call = "none"
                                  /\ pc[i] = "closed" => tp[i].done
            /\ bad' = bad \cup Flag("NoLeak", Ev.r = 0 /\ Ev.sam = <<>> /\ list = {} /\ inside = {})
                          \cup Flag("RefusedGetsDisconnect", \A i \in Clients : (chk[i] = "full" /\ alive[i]) => "disc" \in tp[i].got)
                          \cup Flag("AcceptedGetsSuccess", \A i \in Clients : (acc[i] # NoId /\ alive[i]) => "success" \in tp[i].got)
                          \cup Flag("ConfigFinished", \A i \in Clients : (cfgok[i] /\ alive[i]) => "finish" \in tp[i].got)
                          \cup Flag("ClosedOnReturn", \A i \in Clients : (pc[i] = "closed" /\ alive[i]) => "eof" \in tp[i].got)
            /\ UNCHANGED <<vars, tp>>

TraceNext == TConn \/ TSend \/ TClose \/ TStart \/ TLin \/ TEnd \/ TLRet \/ TCfgBeg \/ TCfgRet \/ TAccept \/ TRet \/ TDone
             \/ TRecv \/ TQuiesce
TraceSpec == TraceInit /\ [][TraceNext]_tvars

\* per scenario two registers: the furthest line reached and the smallest set of failed checks there
ASSUME \A i \in Starts : TLCSet(2 * i, 0) /\ TLCSet(2 * i + 1, {})
HWM == LET h == TLCGet(2 * s)
           b == TLCGet(2 * s + 1) IN
       IF l > h \/ (l = h /\ Cardinality(bad) < Cardinality(b)) THEN TLCSet(2 * s, l) /\ TLCSet(2 * s + 1, bad) ELSE TRUE
\* one short line per scenario and per failed check (TLC wraps long values)
Report == \A i \in Starts : /\ PrintT(<<"SC", i, TLCGet(2 * i)>>)
                             /\ \A b \in TLCGet(2 * i + 1) : PrintT(<<"SB", i, b>>)
=============================================================================
